(* SparsityGenEq.v — every definition of the GENERATED file coq/gen/SparsityGen.v (translate/gen_sparsity.py, regenerated from
   sparsity-conversions.hpp on every run) is tied to the hand model Sparsity.v.
   Layout: general lemmas (blit / ofold), then one block per SparsityConverter<From, To> specialisation:
     *_step lemmas      the lambda-lifted loop bodies, as closed forms
     g_XY_pattern       constructor (member initialisers + convert_sparsity) = the pattern part of Sparsity.conv_XY
     g_XY_values        convert_values on the members the constructor left = Sparsity.convert_values of the vconv of conv_XY
   and at the end g_run (the std::visit dispatch over the generated pieces) = Sparsity.convert + convert_values
   (`generated_run_is_model_run`).  Hypotheses: exactly the in-bounds contract of the C++ (outer_ptr consistent with inner_idx,
   row_indices / col_indices of one length, one value per stored entry, target buffer of the target's nnz). *)
From Coq Require Import List ZArith Bool Arith Lia.
From Alpaqa Require Import Sparsity SparsityProofs SparsityGenLib SparsityGen SparsityGenInst.
Import ListNotations.

(* ------------------------------------------------------------------------------------------------ general *)
Lemma obind_ok : forall A B (a : A) (f : A -> outcome B), obind (Ok a) f = f a.
Proof. reflexivity. Qed.

Lemma obind_id : forall A (x : outcome A), obind x (fun a => Ok a) = x.
Proof. destruct x; reflexivity. Qed.

Lemma blit_app : forall A (xs ys : list A) l pos, blit l pos (xs ++ ys) = blit (blit l pos xs) (pos + length xs) ys.
Proof.
  induction xs; intros; simpl.
  - rewrite Nat.add_0_r. reflexivity.
  - rewrite IHxs. f_equal. lia.
Qed.

Lemma blit_length : forall A (xs : list A) l pos, length (blit l pos xs) = length l.
Proof. induction xs; intros; simpl; [reflexivity|]. rewrite IHxs, upd_length. reflexivity. Qed.

Lemma upd_app_r : forall A (a b : list A) n x, upd (length a + n) x (a ++ b) = a ++ upd n x b.
Proof. induction a; intros; simpl; [reflexivity|]. rewrite IHa. reflexivity. Qed.

Lemma blit_prefix : forall A (xs a b : list A), length xs <= length b ->
  blit (a ++ b) (length a) xs = a ++ xs ++ skipn (length xs) b.
Proof.
  induction xs; intros; simpl.
  - reflexivity.
  - destruct b as [|y b]; [simpl in H; lia|].
    replace (length a0) with (length a0 + 0) at 1 by lia.
    rewrite upd_app_r. simpl.
    replace (a0 ++ a :: b) with ((a0 ++ [a]) ++ b) by (rewrite <- app_assoc; reflexivity).
    replace (S (length a0)) with (length (a0 ++ [a])) by (rewrite app_length; simpl; lia).
    rewrite IHxs by (simpl in H; lia). rewrite <- app_assoc. reflexivity.
Qed.

Lemma blit_full : forall A (xs l : list A), length l = length xs -> blit l 0 xs = xs.
Proof.
  intros. pose proof (blit_prefix A xs [] l) as P. simpl in P. rewrite P by lia.
  rewrite skipn_all2 by lia. apply app_nil_r.
Qed.

Lemma blit_repeat_full : forall A (d : A) (xs : list A) n, n = length xs -> blit (repeat d n) 0 xs = xs.
Proof. intros. apply blit_full. rewrite repeat_length. assumption. Qed.

Lemma map_id' : forall A (l : list A), map (fun x => x) l = l.
Proof. induction l; simpl; congruence. Qed.

(* a counter-indexed write loop is a blit *)
Lemma fold_write2 : forall K (fr fc : K -> Z) (ks : list K) ri ci l,
  fold_left (fun '(ri, ci, l) k => (upd l (fr k) ri, upd l (fc k) ci, S l)) ks (ri, ci, l)
  = (blit ri l (map fr ks), blit ci l (map fc ks), l + length ks).
Proof.
  induction ks; intros; simpl.
  - rewrite Nat.add_0_r. reflexivity.
  - rewrite IHks. f_equal. lia.
Qed.

Lemma fold_write2_nested : forall C K (inner : C -> list K) (fr fc : C -> K -> Z) (cs : list C) ri ci l,
  fold_left (fun '(ri, ci, l) c => fold_left (fun '(ri, ci, l) k => (upd l (fr c k) ri, upd l (fc c k) ci, S l)) (inner c) (ri, ci, l))
            cs (ri, ci, l)
  = (blit ri l (flat_map (fun c => map (fr c) (inner c)) cs), blit ci l (flat_map (fun c => map (fc c) (inner c)) cs),
     l + length (flat_map inner cs)).
Proof.
  induction cs; intros; simpl.
  - rewrite Nat.add_0_r. reflexivity.
  - rewrite fold_write2, IHcs, !blit_app, !map_length, app_length. f_equal. lia.
Qed.

Lemma fold_left_ext : forall A B (f g : A -> B -> A) l a, (forall a b, f a b = g a b) -> fold_left f l a = fold_left g l a.
Proof. induction l; intros; simpl; [reflexivity|]. rewrite H. apply IHl. assumption. Qed.

Lemma fold_left_ext_in : forall A B (f g : A -> B -> A) l a, (forall a b, In b l -> f a b = g a b) -> fold_left f l a = fold_left g l a.
Proof.
  induction l; intros; simpl; [reflexivity|]. rewrite H by (left; reflexivity). apply IHl. intros. apply H. right. assumption.
Qed.

Lemma ofold_ext : forall S I (f g : S -> I -> outcome S) l s, (forall s i, f s i = g s i) -> ofold f l s = ofold g l s.
Proof.
  induction l; intros; simpl; [reflexivity|]. rewrite H. destruct (g s a); simpl; auto.
Qed.

Lemma ofold_app : forall S I (f : S -> I -> outcome S) a b s, ofold f (a ++ b) s = obind (ofold f a s) (ofold f b).
Proof.
  induction a; intros; simpl; [reflexivity|]. destruct (f s a); simpl; auto.
Qed.

Lemma ofold_map : forall S I J (h : I -> J) (f : S -> J -> outcome S) l s, ofold f (map h l) s = ofold (fun s i => f s (h i)) l s.
Proof.
  induction l; intros; simpl; [reflexivity|]. destruct (f s (h a)); simpl; auto.
Qed.

Lemma ofold_flat_map : forall S C K (inner : C -> list K) (f : S -> K -> outcome S) cs s,
  ofold (fun s c => ofold f (inner c) s) cs s = ofold f (flat_map inner cs) s.
Proof.
  induction cs; intros; simpl; [reflexivity|]. rewrite ofold_app. destruct (ofold f (inner a) s); simpl; auto.
Qed.

Lemma let3_id : forall A B C (X : A * B * C), (let '(a, b, c) := X in (a, b, c)) = X.
Proof. intros A B C [[? ?] ?]. reflexivity. Qed.
Lemma let2_id : forall A B (X : A * B), (let '(a, b) := X in (a, b)) = X.
Proof. intros A B [? ?]. reflexivity. Qed.

Lemma sym_eqb_unsym : forall s, g_sym_eqb s Unsym = match s with Unsym => true | _ => false end.
Proof. destruct s; reflexivity. Qed.

Lemma sym_square_gen : forall sym rows cols,
  negb (g_sym_eqb sym Unsym) && negb (Nat.eqb rows cols) = negb (sym_square_ok sym rows cols).
Proof. intros. destruct sym; simpl; try reflexivity; destruct (Nat.eqb rows cols); reflexivity. Qed.

(* ------------------------------------------------------------------------------------------------ nnz, dispatch *)
Lemma g_csc_nnz_is_model : forall s, g_csc_nnz s = nnz (SCSC s).
Proof. reflexivity. Qed.
Lemma g_coo_nnz_is_model : forall o, g_coo_nnz o = nnz (SCOO o).
Proof. reflexivity. Qed.

(* every (From, To) pair has a specialisation: the dispatch of `convert` has no missing alternative *)
Lemma g_specialisations_complete : forall a b : fmt, In (a, b) g_specialisations.
Proof. intros [] []; vm_compute; tauto. Qed.

(* this build: the macro is off, which is what Sparsity.conv_coo_csc / conv_csc_csc model *)
Lemma g_macro_is_model : g_have_coo_csc_conversions = false.
Proof. reflexivity. Qed.

(* ------------------------------------------------------------------------------------------------ Dense -> Dense *)
Lemma g_dense_dense_pattern : forall d,
  g_dense_dense_ctor d = match conv_dense_dense d with Ok _ => Ok d | ThrowInvalidArgument => ThrowInvalidArgument | ThrowRuntimeError => ThrowRuntimeError end.
Proof.
  intros. unfold g_dense_dense_ctor, conv_dense_dense. rewrite sym_square_gen.
  destruct (sym_square_ok _ _ _); reflexivity.
Qed.

Lemma g_dense_dense_values : forall T (zero : T) d v to, Ok (g_dense_dense_convert_values zero d v to) = convert_values zero VCopy v.
Proof. reflexivity. Qed.

(* ------------------------------------------------------------------------------------------------ COO -> COO *)
Lemma g_coo_coo_pattern : forall o t f, length (o_row o) = length (o_col o) ->
  Ok (SCOO (g_coo_coo_ctor o t f), VCopy) = conv_coo_coo o t f.
Proof.
  intros o t f HL. unfold g_coo_coo_ctor, g_coo_coo_convert_sparsity, conv_coo_coo, g_coo_nnz.
  cbv zeta.
  assert (E : (if is_some f then (oget 0 f - o_first o)%Z else 0%Z)
              = match f with Some f0 => (f0 - o_first o)%Z | None => 0%Z end) by (destruct f; reflexivity).
  rewrite E. clear E. set (Δ := match f with Some f0 => (f0 - o_first o)%Z | None => 0%Z end).
  assert (F : (if is_some f then oget 0%Z f else o_first o) = match f with Some f0 => f0 | None => o_first o end) by (destruct f; reflexivity).
  rewrite F. clear F.
  rewrite !blit_repeat_full by (rewrite map_length; lia).
  destruct (ityp_eqb (o_ity o) t); simpl; [destruct (Z.eqb Δ 0)|]; reflexivity.
Qed.

Lemma g_coo_coo_values : forall T (zero : T) sp v to, Ok (g_coo_coo_convert_values zero sp v to) = convert_values zero VCopy v.
Proof. reflexivity. Qed.

(* ------------------------------------------------------------------------------------------------ CSC -> COO *)
Lemma map_flat_map' : forall A B C (g : B -> C) (h : A -> list B) l, map g (flat_map h l) = flat_map (fun a => map g (h a)) l.
Proof. induction l; simpl; [reflexivity|]. rewrite map_app, IHl. reflexivity. Qed.

Lemma flat_map_length_eq : forall A B C (f : A -> list B) (g : A -> list C) l,
  (forall a, length (f a) = length (g a)) -> length (flat_map f l) = length (flat_map g l).
Proof. induction l; intros; simpl; [reflexivity|]. rewrite !app_length, H, IHl; auto. Qed.

Lemma req_delta_gen : forall f, (if is_some f then oget 0%Z f else 0%Z) = req_delta f.
Proof. destruct f; reflexivity. Qed.

Lemma g_csc_coo_for2_step : forall s Δ c ri ci l i,
  g_csc_coo_convert_sparsity_for2_step s Δ c ri ci l i
  = (upd l (Z.of_nat (nth i (c_inner s) 0%nat) + Δ)%Z ri, upd l (Z.of_nat c + Δ)%Z ci, S l).
Proof. reflexivity. Qed.

Lemma g_csc_coo_for1_step : forall s Δ ri ci l c,
  g_csc_coo_convert_sparsity_for1_step s Δ ri ci l c
  = fold_left (fun '(ri, ci, l) i => (upd l (Z.of_nat (nth i (c_inner s) 0%nat) + Δ)%Z ri, upd l (Z.of_nat c + Δ)%Z ci, S l))
              (seq (nth c (c_outer s) 0) (nth (S c) (c_outer s) 0 - nth c (c_outer s) 0)) (ri, ci, l).
Proof.
  intros. unfold g_csc_coo_convert_sparsity_for1_step. cbv zeta.
  rewrite (fold_left_ext _ _ _ (fun '(ri, ci, l) i => (upd l (Z.of_nat (nth i (c_inner s) 0%nat) + Δ)%Z ri, upd l (Z.of_nat c + Δ)%Z ci, S l)))
    by (intros [[a b] k] i; reflexivity).
  apply let3_id.
Qed.

Lemma g_csc_coo_loops : forall s Δ ri ci l,
  fold_left (fun '(ri, ci, l) c => g_csc_coo_convert_sparsity_for1_step s Δ ri ci l c) (seq 0 (c_cols s)) (ri, ci, l)
  = (blit ri l (map (fun k => (Z.of_nat (fst k) + Δ)%Z) (csc_expand s)),
     blit ci l (map (fun k => (Z.of_nat (snd k) + Δ)%Z) (csc_expand s)), l + length (csc_expand s)).
Proof.
  intros.
  rewrite (fold_left_ext _ _ _ (fun '(ri, ci, l) c => fold_left (fun '(ri, ci, l) i => (upd l (Z.of_nat (nth i (c_inner s) 0%nat) + Δ)%Z ri, upd l (Z.of_nat c + Δ)%Z ci, S l))
              (seq (nth c (c_outer s) 0) (nth (S c) (c_outer s) 0 - nth c (c_outer s) 0)) (ri, ci, l)))
    by (intros [[a b] k] c; apply g_csc_coo_for1_step).
  rewrite (fold_write2_nested nat nat (fun c => seq (nth c (c_outer s) 0) (nth (S c) (c_outer s) 0 - nth c (c_outer s) 0))
                              (fun c i => (Z.of_nat (nth i (c_inner s) 0%nat) + Δ)%Z) (fun c i => (Z.of_nat c + Δ)%Z)).
  unfold csc_expand, csc_col_rows. rewrite !map_flat_map'. f_equal; [f_equal|].
  - f_equal. apply flat_map_ext. intros c. rewrite !map_map. reflexivity.
  - f_equal. apply flat_map_ext. intros c. rewrite !map_map. reflexivity.
  - f_equal. apply flat_map_length_eq. intros c. rewrite !map_length. reflexivity.
Qed.

Lemma g_csc_coo_pattern : forall s t f, outer_ok s = true ->
  Ok (SCOO (g_csc_coo_ctor s t f), VCopy) = conv_csc_coo s t f.
Proof.
  intros s t f HO. unfold g_csc_coo_ctor, g_csc_coo_convert_sparsity, conv_csc_coo, g_csc_nnz. cbv zeta.
  rewrite g_csc_coo_loops. rewrite !req_delta_gen.
  rewrite !blit_repeat_full by (rewrite map_length, csc_expand_length; auto).
  destruct (c_order s); reflexivity.
Qed.

Lemma g_csc_coo_values : forall T (zero : T) sp v to, Ok (g_csc_coo_convert_values zero sp v to) = convert_values zero VCopy v.
Proof. reflexivity. Qed.

(* ------------------------------------------------------------------------------------------------ Dense -> COO *)
(* what convert_values of a converter from Dense does, decided by the symmetry stored in the result *)
Definition dense_vconv (sym : symmetry) (rows cols : nat) : vconv :=
  match sym with Unsym => VCopy | _ => VPackUpper rows cols end.

Definition tri (n : nat) : nat := length (flat_map (fun c => seq 0 (S c)) (seq 0 n)).

Lemma tri_closed : forall n, tri n = n * S n / 2.
Proof.
  unfold tri. induction n.
  - reflexivity.
  - rewrite seq_S, flat_map_app, app_length, IHn.
    replace (length (flat_map (fun c => seq 0 (S c)) [0 + n])) with (S n)
      by (cbn [flat_map]; rewrite app_nil_r, seq_length; reflexivity).
    replace (S n * S (S n)) with (n * S n + S n * 2) by lia.
    rewrite Nat.div_add by lia. reflexivity.
Qed.

Lemma dense_entries_length_upper : forall rows cols, length (dense_entries Upper rows cols) = tri cols.
Proof.
  intros. unfold dense_entries, tri. apply flat_map_length_eq. intros. rewrite map_length. reflexivity.
Qed.

Lemma g_dense_coo_for1_step : forall d Δ ri ci l c,
  g_dense_coo_convert_sparsity_for1_step d Δ ri ci l c
  = fold_left (fun '(ri, ci, l) r => (upd l (Z.of_nat r + Δ)%Z ri, upd l (Z.of_nat c + Δ)%Z ci, S l)) (seq 0 (d_rows d)) (ri, ci, l).
Proof. intros. unfold g_dense_coo_convert_sparsity_for1_step. apply let3_id. Qed.

Lemma g_dense_coo_for3_step : forall Δ ri ci l c,
  g_dense_coo_convert_sparsity_for3_step Δ ri ci l c
  = fold_left (fun '(ri, ci, l) r => (upd l (Z.of_nat r + Δ)%Z ri, upd l (Z.of_nat c + Δ)%Z ci, S l)) (seq 0 (S c)) (ri, ci, l).
Proof. intros. unfold g_dense_coo_convert_sparsity_for3_step. apply let3_id. Qed.

Lemma dense_fill : forall (hi : nat -> nat) Δ cols ri ci l,
  fold_left (fun '(ri, ci, l) c => fold_left (fun '(ri, ci, l) r => (upd l (Z.of_nat r + Δ)%Z ri, upd l (Z.of_nat c + Δ)%Z ci, S l))
                                            (seq 0 (hi c)) (ri, ci, l)) (seq 0 cols) (ri, ci, l)
  = let es := flat_map (fun c => map (fun r => (r, c)) (seq 0 (hi c))) (seq 0 cols) in
    (blit ri l (map (fun k => (Z.of_nat (fst k) + Δ)%Z) es), blit ci l (map (fun k => (Z.of_nat (snd k) + Δ)%Z) es), l + length es).
Proof.
  intros. rewrite (fold_write2_nested nat nat (fun c => seq 0 (hi c)) (fun c r => (Z.of_nat r + Δ)%Z) (fun c r => (Z.of_nat c + Δ)%Z)).
  cbv zeta. rewrite !map_flat_map'. f_equal; [f_equal|].
  - f_equal. apply flat_map_ext. intros c. rewrite map_map. reflexivity.
  - f_equal. apply flat_map_ext. intros c. rewrite map_map. reflexivity.
  - f_equal. apply flat_map_length_eq. intros. rewrite map_length. reflexivity.
Qed.

Lemma g_dense_coo_pattern : forall d t f,
  obind (g_dense_coo_ctor d t f) (fun o => Ok (SCOO o, dense_vconv (o_sym o) (o_rows o) (o_cols o))) = conv_dense_coo d t f.
Proof.
  intros d t f. unfold g_dense_coo_ctor, g_dense_coo_convert_sparsity, conv_dense_coo. cbv zeta. rewrite !req_delta_gen.
  destruct (d_sym d) eqn:ES.
  - rewrite (fold_left_ext _ _ _ (fun '(ri, ci, l) c => fold_left (fun '(ri, ci, l) r => (upd l (Z.of_nat r + req_delta f)%Z ri, upd l (Z.of_nat c + req_delta f)%Z ci, S l))
                                     (seq 0 (d_rows d)) (ri, ci, l)))
      by (intros [[a b] k] c; apply g_dense_coo_for1_step).
    rewrite (dense_fill (fun _ => d_rows d)). cbv zeta.
    change (flat_map (fun c => map (fun r => (r, c)) (seq 0 (d_rows d))) (seq 0 (d_cols d))) with (dense_entries Unsym (d_rows d) (d_cols d)).
    rewrite !blit_repeat_full by (rewrite map_length, dense_entries_length_unsym; reflexivity).
    reflexivity.
  - destruct (Nat.eqb (d_rows d) (d_cols d)) eqn:EQ; simpl; [|reflexivity].
    apply Nat.eqb_eq in EQ.
    rewrite (fold_left_ext _ _ _ (fun '(ri, ci, l) c => fold_left (fun '(ri, ci, l) r => (upd l (Z.of_nat r + req_delta f)%Z ri, upd l (Z.of_nat c + req_delta f)%Z ci, S l))
                                     (seq 0 (S c)) (ri, ci, l)))
      by (intros [[a b] k] c; apply g_dense_coo_for3_step).
    rewrite (dense_fill S). cbv zeta.
    change (flat_map (fun c => map (fun r => (r, c)) (seq 0 (S c))) (seq 0 (d_cols d))) with (dense_entries Upper (d_rows d) (d_cols d)).
    rewrite !blit_repeat_full by (rewrite map_length, dense_entries_length_upper, tri_closed, EQ; reflexivity).
    reflexivity.
  - reflexivity.
Qed.

(* the packing loop shared by Dense -> COO and Dense -> CSC *)
Lemma fold_blit_seq : forall A (col : nat -> list A) cs to t,
  fold_left (fun '(to, t) c => (blit to t (col c), t + length (col c))) cs (to, t)
  = (blit to t (flat_map col cs), t + length (flat_map col cs)).
Proof.
  induction cs; intros; simpl.
  - rewrite Nat.add_0_r. reflexivity.
  - rewrite IHcs, blit_app, app_length. f_equal. lia.
Qed.

Lemma mcol_top_length : forall T (zero : T) rows v c n, length (mcol_top zero rows v c n) = n.
Proof. intros. unfold mcol_top. rewrite map_length, seq_length. reflexivity. Qed.

Lemma pack_upper_gen : forall T (zero : T) rows cols (v : list T),
  flat_map (fun c => mcol_top zero rows v c (S c)) (seq 0 cols) = pack_upper zero rows cols v.
Proof. reflexivity. Qed.

Lemma pack_upper_length : forall T (zero : T) rows cols (v : list T), length (pack_upper zero rows cols v) = tri cols.
Proof. intros. unfold pack_upper, tri. apply flat_map_length_eq. intros. rewrite map_length. reflexivity. Qed.

Lemma pack_loop : forall T (zero : T) rows cols (v to : list T), length to = tri cols ->
  fold_left (fun '(to, t) c => (blit_back to (t + S c) (mcol_top zero rows v c (S c)), t + S c)) (seq 0 cols) (to, 0)
  = (pack_upper zero rows cols v, tri cols).
Proof.
  intros.
  rewrite (fold_left_ext _ _ _ (fun '(to, t) c => (blit to t (mcol_top zero rows v c (S c)), t + length (mcol_top zero rows v c (S c))))).
  2:{ intros [a k] c. unfold blit_back. rewrite mcol_top_length. f_equal. f_equal. lia. }
  rewrite fold_blit_seq, pack_upper_gen, pack_upper_length. simpl. f_equal.
  apply blit_full. rewrite pack_upper_length. assumption.
Qed.

Lemma g_dense_coo_values : forall T (zero : T) o (v to : list T), o_sym o <> Lower -> (o_sym o = Upper -> length to = tri (o_cols o)) ->
  Ok (g_dense_coo_convert_values zero o v to) = convert_values zero (dense_vconv (o_sym o) (o_rows o) (o_cols o)) v.
Proof.
  intros T zero o v to HL HU. unfold g_dense_coo_convert_values. cbv zeta.
  destruct (o_sym o) eqn:ES; simpl; [reflexivity| |congruence].
  unfold g_dense_coo_convert_values_for1_step. cbv zeta.
  rewrite pack_loop by auto. reflexivity.
Qed.

(* ------------------------------------------------------------------------------------------------ Dense -> CSC *)
Lemma fold_write1 : forall K (f : K -> nat) (ks : list K) v l,
  fold_left (fun '(v, l) k => (upd l (f k) v, S l)) ks (v, l) = (blit v l (map f ks), l + length ks).
Proof.
  induction ks; intros; simpl.
  - rewrite Nat.add_0_r. reflexivity.
  - rewrite IHks. f_equal. lia.
Qed.

Lemma dense_csc_fill : forall (colf : nat -> list nat) n a inner outer l,
  fold_left (fun '(inner, outer, l) c => (blit inner l (colf c), upd c l outer, l + length (colf c))) (seq a n) (inner, outer, l)
  = (blit inner l (flat_map colf (seq a n)),
     blit outer a (map (fun k => l + length (flat_map colf (seq a k))) (seq 0 n)),
     l + length (flat_map colf (seq a n))).
Proof.
  induction n; intros; simpl.
  - rewrite Nat.add_0_r. reflexivity.
  - rewrite IHn. rewrite blit_app, app_length. rewrite Nat.add_0_r.
    f_equal; [f_equal|lia].
    f_equal. rewrite <- seq_shift, map_map. apply map_ext. intros k. simpl. rewrite app_length. lia.
Qed.

Lemma g_dense_csc_for1_step : forall d inner outer l c,
  g_dense_csc_convert_sparsity_for1_step d inner outer l c
  = (blit inner l (seq 0 (d_rows d)), upd c l outer, l + length (seq 0 (d_rows d))).
Proof.
  intros. unfold g_dense_csc_convert_sparsity_for1_step. cbv zeta.
  change (fold_left (fun '(inner_idx, l0) r => g_dense_csc_convert_sparsity_for2_step inner_idx l0 r) (seq 0 (d_rows d)) (inner, l))
    with (fold_left (fun '(v, l) k => (upd l ((fun x : nat => x) k) v, S l)) (seq 0 (d_rows d)) (inner, l)).
  rewrite fold_write1, map_id'. reflexivity.
Qed.

Lemma g_dense_csc_for3_step : forall inner outer l c,
  g_dense_csc_convert_sparsity_for3_step inner outer l c
  = (blit inner l (seq 0 (S c)), upd c l outer, l + length (seq 0 (S c))).
Proof.
  intros. unfold g_dense_csc_convert_sparsity_for3_step. cbv zeta.
  change (fold_left (fun '(inner_idx, l0) r => g_dense_csc_convert_sparsity_for4_step inner_idx l0 r) (seq 0 (S c)) (inner, l))
    with (fold_left (fun '(v, l) k => (upd l ((fun x : nat => x) k) v, S l)) (seq 0 (S c)) (inner, l)).
  rewrite fold_write1, map_id'. reflexivity.
Qed.

Lemma dense_csc_loop_seq : forall colf cols,
  dense_csc_loop colf (seq 0 cols) 0
  = (flat_map colf (seq 0 cols), map (fun k => length (flat_map colf (seq 0 k))) (seq 0 (S cols))).
Proof.
  intros. rewrite dense_csc_loop_spec, seq_length. f_equal. apply map_ext_in. intros k Hk. apply in_seq in Hk.
  rewrite firstn_seq' by lia. reflexivity.
Qed.

Lemma dense_csc_fill_all : forall (colf : nat -> list nat) cols n, n = length (flat_map colf (seq 0 cols)) ->
  let '(inner, outer, l) := fold_left (fun '(inner, outer, l) c => (blit inner l (colf c), upd c l outer, l + length (colf c))) (seq 0 cols)
                                     (repeat 0 n, repeat 0 (S cols), 0) in
  (inner, upd cols l outer) = dense_csc_loop colf (seq 0 cols) 0.
Proof.
  intros. rewrite dense_csc_fill, dense_csc_loop_seq. simpl Nat.add.
  rewrite blit_repeat_full by assumption. f_equal.
  rewrite seq_S, map_app. simpl map.
  set (xs := map (fun k => length (flat_map colf (seq 0 k))) (seq 0 cols)).
  assert (HL : length xs = cols) by (unfold xs; rewrite map_length, seq_length; reflexivity).
  replace (repeat 0 (S cols)) with (repeat 0 cols ++ [0]) by (rewrite <- repeat_cons; reflexivity).
  pose proof (blit_prefix nat xs [] (repeat 0 cols ++ [0])) as P. simpl in P. rewrite P by (rewrite app_length, repeat_length; simpl; lia).
  rewrite skipn_app, skipn_all2 by (rewrite repeat_length; lia). rewrite repeat_length, HL, Nat.sub_diag. simpl.
  replace cols with (length xs + 0) at 1 by lia. rewrite upd_app_r. reflexivity.
Qed.

Lemma g_dense_csc_pattern : forall d t ord,
  obind (g_dense_csc_ctor d t ord) (fun s => Ok (SCSC s, dense_vconv (c_sym s) (c_rows s) (c_cols s))) = conv_dense_csc d t ord.
Proof.
  intros d t ord. unfold g_dense_csc_ctor, g_dense_csc_convert_sparsity, conv_dense_csc. cbv zeta.
  destruct (d_sym d) eqn:ES.
  - rewrite (fold_left_ext _ _ _ (fun '(inner, outer, l) c => (blit inner l ((fun _ => seq 0 (d_rows d)) c), upd c l outer, l + length ((fun _ => seq 0 (d_rows d)) c))))
      by (intros [[a b] k] c; apply g_dense_csc_for1_step).
    pose proof (dense_csc_fill_all (fun _ => seq 0 (d_rows d)) (d_cols d) (d_rows d * d_cols d)) as P.
    rewrite flat_map_length_const with (n := d_rows d) in P by (intros; apply seq_length). rewrite seq_length in P.
    specialize (P (Nat.mul_comm _ _)).
    destruct (fold_left _ _ _) as [[inn out] l]. rewrite <- P. reflexivity.
  - destruct (Nat.eqb (d_rows d) (d_cols d)) eqn:EQ; [|reflexivity]. cbn [negb].
    apply Nat.eqb_eq in EQ.
    rewrite (fold_left_ext _ _ _ (fun '(inner, outer, l) c => (blit inner l ((fun c => seq 0 (S c)) c), upd c l outer, l + length ((fun c => seq 0 (S c)) c))))
      by (intros [[a b] k] c; apply g_dense_csc_for3_step).
    pose proof (dense_csc_fill_all (fun c => seq 0 (S c)) (d_cols d) (d_rows d * S (d_rows d) / 2)) as P.
    change (length (flat_map (fun c => seq 0 (S c)) (seq 0 (d_cols d)))) with (tri (d_cols d)) in P.
    rewrite tri_closed, EQ in P. specialize (P eq_refl). rewrite EQ.
    destruct (fold_left _ _ _) as [[inn out] l]. rewrite <- P. reflexivity.
  - reflexivity.
Qed.

Lemma g_dense_csc_values : forall T (zero : T) s (v to : list T), c_sym s <> Lower -> (c_sym s = Upper -> length to = tri (c_cols s)) ->
  Ok (g_dense_csc_convert_values zero s v to) = convert_values zero (dense_vconv (c_sym s) (c_rows s) (c_cols s)) v.
Proof.
  intros T zero s v to HL HU. unfold g_dense_csc_convert_values. cbv zeta.
  destruct (c_sym s) eqn:ES; simpl; [reflexivity| |congruence].
  unfold g_dense_csc_convert_values_for1_step. cbv zeta.
  rewrite pack_loop by auto. reflexivity.
Qed.

(* ------------------------------------------------------------------------------------------------ CSC -> CSC, COO -> CSC *)
(* (macro off) no permutation is ever produced, the indices are forwarded (copied when the index types differ) *)
Lemma g_csc_csc_pattern : forall s t ord,
  obind (g_csc_csc_ctor s t ord) (fun '(perm, sp) => Ok (SCSC sp, VCopy, perm)) = obind (conv_csc_csc s t ord) (fun x => Ok (x, [])).
Proof.
  intros s t ord. unfold g_csc_csc_ctor, g_csc_csc_convert_sparsity, conv_csc_csc. cbv zeta.
  rewrite !blit_repeat_full by (rewrite map_length; reflexivity). rewrite !map_id'.
  destruct s as [ity rows cols sym inner outer order].
  destruct ord as [[|]|], order; cbn -[ityp_eqb]; try reflexivity; destruct (ityp_eqb ity t); reflexivity.
Qed.

Lemma g_csc_csc_values : forall T (zero : T) sp v to, Ok (g_csc_csc_convert_values zero [] sp v to) = convert_values zero VCopy v.
Proof. reflexivity. Qed.

Lemma g_coo_csc_pattern : forall o t ord,
  obind (g_coo_csc_ctor o t ord) (fun '(perm, sp) => Ok (SCSC sp, VCopy, perm)) = obind (conv_coo_csc o t ord) (fun x => Ok (x, [])).
Proof. reflexivity. Qed.

Lemma g_coo_csc_values : forall T (zero : T) sp v to, Ok (g_coo_csc_convert_values zero [] sp v to) = convert_values zero VCopy v.
Proof. reflexivity. Qed.

(* ------------------------------------------------------------------------------------------------ sparse -> Dense *)
(* one iteration of the scatter loops: the `switch (symmetry)` with the triangle test *)
Definition kstep {T} (sym : symmetry) (rows : nat) (acc : list T) (k : Z * Z) (x : T) : outcome (list T) :=
  match sym with
  | Unsym => Ok (upd (flat rows (fst k) (snd k)) x acc)
  | Upper => if (snd k <? fst k)%Z then ThrowInvalidArgument
             else Ok (upd (flat rows (snd k) (fst k)) x (upd (flat rows (fst k) (snd k)) x acc))
  | Lower => if (fst k <? snd k)%Z then ThrowInvalidArgument
             else Ok (upd (flat rows (snd k) (fst k)) x (upd (flat rows (fst k) (snd k)) x acc))
  end.

Lemma scatter_ofold : forall T sym rows (kv : list ((Z * Z) * T)) acc,
  scatter_loop sym rows kv acc = ofold (fun acc kx => kstep sym rows acc (fst kx) (snd kx)) kv acc.
Proof.
  induction kv as [|[[r c] x] kv]; intros; simpl; [reflexivity|].
  destruct sym; simpl; try apply IHkv.
  - destruct (c <? r)%Z; simpl; [reflexivity|apply IHkv].
  - destruct (r <? c)%Z; simpl; [reflexivity|apply IHkv].
Qed.

Lemma setzero_gen : forall T (zero : T) (to : list T) n, length to = n -> map (fun _ => zero) to = repeat zero n.
Proof. intros. subst. induction to; simpl; congruence. Qed.

(* -- COO -> Dense *)
Lemma g_coo_dense_pattern : forall o,
  obind (g_coo_dense_ctor o) (fun '(fs, sp) => Ok (SDense sp, VScatter (o_sym fs) (d_rows sp) (d_cols sp) (coo_keys fs))) = conv_coo_dense o.
Proof.
  intros. unfold g_coo_dense_ctor, g_coo_dense_convert_sparsity, conv_coo_dense. cbv zeta. rewrite sym_square_gen.
  destruct (sym_square_ok _ _ _); reflexivity.
Qed.

Lemma g_coo_dense_for1_step : forall T (zero : T) o sp work to l,
  g_coo_dense_convert_values_for1_step zero o sp work to l
  = kstep (o_sym o) (d_rows sp) to ((nth l (o_row o) 0 - o_first o)%Z, (nth l (o_col o) 0 - o_first o)%Z) (nth l work zero).
Proof.
  intros. unfold g_coo_dense_convert_values_for1_step, kstep. cbv zeta. rewrite obind_id.
  cbn [fst snd]. destruct (o_sym o); reflexivity.
Qed.

Lemma combine_nth_seq : forall A B (da : A) (db : B) (a : list A) (b : list B), length a = length b ->
  combine a b = map (fun l => (nth l a da, nth l b db)) (seq 0 (length a)).
Proof.
  induction a; destruct b; intros; simpl in *; try discriminate; [reflexivity|].
  f_equal. rewrite <- seq_shift, map_map. apply IHa. lia.
Qed.

Lemma nth_seq_self : forall A (d : A) (v : list A), map (fun l => nth l v d) (seq 0 (length v)) = v.
Proof. intros. rewrite map_nth_seq0 by lia. apply firstn_all. Qed.

Lemma coo_keys_seq : forall o, length (o_row o) = length (o_col o) ->
  coo_keys o = map (fun l => ((nth l (o_row o) 0 - o_first o)%Z, (nth l (o_col o) 0 - o_first o)%Z)) (seq 0 (length (o_row o))).
Proof.
  intros o H. unfold coo_keys. rewrite (combine_nth_seq _ _ 0%Z 0%Z) by assumption. rewrite map_map. reflexivity.
Qed.

Lemma g_coo_dense_values : forall T (zero : T) o sp (v to : list T),
  length (o_row o) = length (o_col o) -> length v = length (o_row o) -> length to = d_rows sp * d_cols sp ->
  g_coo_dense_convert_values zero o sp v to = convert_values zero (VScatter (o_sym o) (d_rows sp) (d_cols sp) (coo_keys o)) v.
Proof.
  intros T zero o sp v to HL HV HT. unfold g_coo_dense_convert_values, g_coo_nnz. cbv zeta. rewrite obind_id.
  rewrite (setzero_gen _ _ _ _ HT).
  rewrite (ofold_ext _ _ _ (fun acc l => kstep (o_sym o) (d_rows sp) acc ((nth l (o_row o) 0 - o_first o)%Z, (nth l (o_col o) 0 - o_first o)%Z) (nth l v zero)))
    by (intros; apply g_coo_dense_for1_step).
  cbn [convert_values]. rewrite scatter_ofold, coo_keys_seq by assumption.
  replace (combine (map (fun l => ((nth l (o_row o) 0 - o_first o)%Z, (nth l (o_col o) 0 - o_first o)%Z)) (seq 0 (length (o_row o)))) v)
    with (combine (map (fun l => ((nth l (o_row o) 0 - o_first o)%Z, (nth l (o_col o) 0 - o_first o)%Z)) (seq 0 (length (o_row o))))
                  (map (fun l => nth l v zero) (seq 0 (length (o_row o)))))
    by (rewrite <- HV, nth_seq_self; reflexivity).
  rewrite combine_map_both, ofold_map. reflexivity.
Qed.

(* -- CSC -> Dense *)
Lemma g_csc_dense_pattern : forall s,
  obind (g_csc_dense_ctor s) (fun '(fs, sp) => Ok (SDense sp, VScatter (c_sym fs) (d_rows sp) (d_cols sp) (map zkey (csc_expand fs)))) = conv_csc_dense s.
Proof.
  intros. unfold g_csc_dense_ctor, g_csc_dense_convert_sparsity, conv_csc_dense. cbv zeta. rewrite sym_square_gen.
  destruct (sym_square_ok _ _ _); reflexivity.
Qed.

(* one element of the traversal: scatter the l-th value at key k, advance the running counter *)
Definition kstepl {T} (zero : T) (sym : symmetry) (rows : nat) (work : list T) (st : list T * nat) (k : nat * nat) : outcome (list T * nat) :=
  obind (kstep sym rows (fst st) (zkey k) (nth (snd st) work zero)) (fun to => Ok (to, S (snd st))).

Lemma ltb_nat_Z : forall a b, Nat.ltb a b = (Z.of_nat a <? Z.of_nat b)%Z.
Proof. intros. destruct (Nat.ltb_spec a b), (Z.ltb_spec (Z.of_nat a) (Z.of_nat b)); auto; lia. Qed.

Lemma g_csc_dense_for2_step : forall T (zero : T) s sp work c to l i,
  g_csc_dense_convert_values_for2_step zero s sp work c to l i
  = kstepl zero (c_sym s) (d_rows sp) work (to, l) (nth i (c_inner s) 0, c).
Proof.
  intros. unfold g_csc_dense_convert_values_for2_step, kstepl, kstep, zkey. cbv zeta. cbn [fst snd].
  rewrite !ltb_nat_Z. destruct (c_sym s); reflexivity.
Qed.

Lemma obind_id2 : forall A B (x : outcome (A * B)), obind x (fun '(a, b) => Ok (a, b)) = x.
Proof. destruct x as [[? ?]| |]; reflexivity. Qed.

Lemma g_csc_dense_for1_step : forall T (zero : T) s sp work to l c,
  g_csc_dense_convert_values_for1_step zero s sp work to l c
  = ofold (kstepl zero (c_sym s) (d_rows sp) work) (map (fun r => (r, c)) (csc_col_rows s c)) (to, l).
Proof.
  intros. unfold g_csc_dense_convert_values_for1_step. cbv zeta. rewrite obind_id2.
  unfold csc_col_rows. rewrite map_map, ofold_map. apply ofold_ext. intros [a k] i. apply g_csc_dense_for2_step.
Qed.

Lemma skipn_nth_cons : forall A (d : A) (v : list A) l, l < length v -> skipn l v = nth l v d :: skipn (S l) v.
Proof.
  induction v; intros; simpl in *; [lia|]. destruct l; [reflexivity|]. simpl. apply IHv. lia.
Qed.

Lemma kstepl_scatter : forall T (zero : T) sym rows (v : list T) ks to l, l + length ks <= length v ->
  ofold (kstepl zero sym rows v) ks (to, l)
  = obind (scatter_loop sym rows (combine (map zkey ks) (skipn l v)) to) (fun to' => Ok (to', l + length ks)).
Proof.
  induction ks as [|k ks]; intros to l H; simpl.
  - rewrite Nat.add_0_r. reflexivity.
  - simpl in H. assert (Hl : l < length v) by lia.
    rewrite (skipn_nth_cons _ zero) by assumption.
    unfold kstepl at 1. cbn [fst snd]. destruct k as [r c]. cbn [map]. change (zkey (r, c)) with (Z.of_nat r, Z.of_nat c).
    cbn [combine scatter_loop]. unfold kstep. cbn [fst snd].
    destruct sym.
    + simpl obind. rewrite IHks by lia. replace (S l + length ks) with (l + S (length ks)) by lia. reflexivity.
    + destruct (_ <? _)%Z; [reflexivity|]. simpl obind. rewrite IHks by lia. replace (S l + length ks) with (l + S (length ks)) by lia. reflexivity.
    + destruct (_ <? _)%Z; [reflexivity|]. simpl obind. rewrite IHks by lia. replace (S l + length ks) with (l + S (length ks)) by lia. reflexivity.
Qed.

Lemma g_csc_dense_values : forall T (zero : T) s sp (v to : list T),
  outer_ok s = true -> length v = length (c_inner s) -> length to = d_rows sp * d_cols sp ->
  g_csc_dense_convert_values zero s sp v to = convert_values zero (VScatter (c_sym s) (d_rows sp) (d_cols sp) (map zkey (csc_expand s))) v.
Proof.
  intros T zero s sp v to HO HV HT. unfold g_csc_dense_convert_values. cbv zeta.
  rewrite (setzero_gen _ _ _ _ HT).
  rewrite (ofold_ext _ _ _ (fun st c => ofold (kstepl zero (c_sym s) (d_rows sp) v) ((fun c => map (fun r => (r, c)) (csc_col_rows s c)) c) st))
    by (intros [a k] c; apply g_csc_dense_for1_step).
  rewrite ofold_flat_map. change (flat_map (fun c => map (fun r => (r, c)) (csc_col_rows s c)) (seq 0 (c_cols s))) with (csc_expand s).
  rewrite kstepl_scatter by (rewrite csc_expand_length by assumption; lia).
  cbn [convert_values skipn]. destruct (scatter_loop _ _ _ _); reflexivity.
Qed.

(* ------------------------------------------------------------------------------------------------ whole runs *)
Definition model_run {T} (zero : T) (from : sparsity) (req : request) (v : list T) : outcome (sparsity * outcome (list T)) :=
  match convert from req with
  | Ok (to, a) => Ok (to, convert_values zero a v)
  | ThrowInvalidArgument => ThrowInvalidArgument
  | ThrowRuntimeError => ThrowRuntimeError
  end.

(* the in-bounds contract of the C++ on the source pattern *)
Definition src_ok (from : sparsity) : Prop :=
  match from with
  | SDense _ => True
  | SCSC s => outer_ok s = true
  | SCOO o => length (o_row o) = length (o_col o)
  end.

Lemma valid_src_ok : forall from, valid from = true -> src_ok from.
Proof.
  destruct from as [d|s|o]; simpl; intros H; auto.
  - unfold valid_csc in H. apply andb_prop in H as [H _]. apply andb_prop in H as [H _]. exact H.
  - unfold valid_coo in H. apply andb_prop in H as [H _]. apply andb_prop in H as [H _]. apply Nat.eqb_eq. exact H.
Qed.

Lemma conv_dense_csc_facts : forall d t ord sp a, conv_dense_csc d t ord = Ok (SCSC sp, a) ->
  c_sym sp <> Lower /\ (c_sym sp = Upper -> length (c_inner sp) = tri (c_cols sp)).
Proof.
  intros d t ord sp a H. unfold conv_dense_csc in H. destruct (d_sym d) eqn:ES.
  - inversion H; subst; clear H. cbn [c_sym]. split; congruence.
  - destruct (Nat.eqb (d_rows d) (d_cols d)); [|discriminate]. inversion H; subst; clear H. cbn [c_sym c_inner c_cols].
    split; [congruence|]. intros _. rewrite dense_csc_loop_seq. reflexivity.
  - discriminate.
Qed.

Lemma conv_dense_coo_facts : forall d t f sp a, conv_dense_coo d t f = Ok (SCOO sp, a) ->
  o_sym sp <> Lower /\ (o_sym sp = Upper -> length (o_row sp) = tri (o_cols sp)).
Proof.
  intros d t f sp a H. unfold conv_dense_coo in H. cbv zeta in H. destruct (d_sym d) eqn:ES.
  - inversion H; subst; clear H. cbn [o_sym]. split; congruence.
  - destruct (Nat.eqb (d_rows d) (d_cols d)); [|discriminate]. inversion H; subst; clear H. cbn [o_sym o_row o_cols].
    split; [congruence|]. intros _. rewrite map_length. apply dense_entries_length_upper.
  - discriminate.
Qed.

Theorem generated_run_is_model_run : forall T (zero fill : T) from req (v : list T),
  src_ok from -> length v = nnz from -> g_run zero fill from req v = model_run zero from req v.
Proof.
  intros T zero fill from req v HS HV. unfold g_run, model_run.
  destruct req as [|t ord|t f], from as [d|s|o]; cbn [convert]; cbn [src_ok nnz] in *.
  - rewrite g_dense_dense_pattern. unfold conv_dense_dense. destruct (sym_square_ok _ _ _); reflexivity.
  - rewrite <- g_csc_dense_pattern. destruct (g_csc_dense_ctor s) as [[fs sp]| |] eqn:E; cbn [obind]; try reflexivity.
    assert (fs = s).
    { unfold g_csc_dense_ctor in E. cbv zeta in E. destruct (g_csc_dense_convert_sparsity s); cbn [obind] in E; congruence. }
    subst fs. rewrite g_csc_dense_values; auto. apply repeat_length.
  - rewrite <- g_coo_dense_pattern. destruct (g_coo_dense_ctor o) as [[fs sp]| |] eqn:E; cbn [obind]; try reflexivity.
    assert (fs = o).
    { unfold g_coo_dense_ctor in E. cbv zeta in E. destruct (g_coo_dense_convert_sparsity o); cbn [obind] in E; congruence. }
    subst fs. rewrite g_coo_dense_values; auto. apply repeat_length.
  - pose proof (g_dense_csc_pattern d t ord) as P.
    destruct (g_dense_csc_ctor d t ord) as [sp| |] eqn:E; cbn [obind] in *; rewrite <- P; try reflexivity.
    destruct (conv_dense_csc_facts _ _ _ _ _ (eq_sym P)) as [F1 F2].
    rewrite g_dense_csc_values; [reflexivity|assumption|]. intros HU. rewrite repeat_length. apply F2. assumption.
  - pose proof (g_csc_csc_pattern s t ord) as P.
    destruct (g_csc_csc_ctor s t ord) as [[perm sp]| |] eqn:E; cbn [obind] in *;
      destruct (conv_csc_csc s t ord) as [[to a]| |]; cbn [obind] in *; try discriminate; try reflexivity;
      inversion P; subst; reflexivity.
  - pose proof (g_coo_csc_pattern o t ord) as P.
    destruct (g_coo_csc_ctor o t ord) as [[perm sp]| |] eqn:E; cbn [obind] in *;
      destruct (conv_coo_csc o t ord) as [[to a]| |]; cbn [obind] in *; try discriminate; try reflexivity;
      inversion P; subst; reflexivity.
  - pose proof (g_dense_coo_pattern d t f) as P.
    destruct (g_dense_coo_ctor d t f) as [sp| |] eqn:E; cbn [obind] in *; rewrite <- P; try reflexivity.
    destruct (conv_dense_coo_facts _ _ _ _ _ (eq_sym P)) as [F1 F2].
    rewrite g_dense_coo_values; [reflexivity|assumption|]. intros HU. rewrite repeat_length. apply F2. assumption.
  - rewrite <- g_csc_coo_pattern by assumption. reflexivity.
  - rewrite <- g_coo_coo_pattern by assumption. reflexivity.
Qed.

(* the dispatch has an alternative for every pair (nothing is silently missing) and the macro state is the modelled one *)
Lemma generated_dispatch_is_total : (forall a b : fmt, In (a, b) g_specialisations) /\ g_have_coo_csc_conversions = false.
Proof. split; [apply g_specialisations_complete|reflexivity]. Qed.

(* ------------------------------------------------------------------------------------------------ the property, on the generated code *)
Theorem generated_conversion_preserves : forall T (zero fill : T) from req to r (v : list T),
  g_run zero fill from req v = Ok (to, r) -> valid from = true -> length v = nnz from -> values_ok zero from v ->
  exists w, r = Ok w /\ valid to = true /\ length w = nnz to
    /\ rows_of to = rows_of from /\ cols_of to = cols_of from /\ sym_of to = sym_of from
    /\ forall i j, i < rows_of from -> j < cols_of from -> sem zero to w i j = sem zero from v i j.
Proof.
  intros T zero fill from req to r v H HV HL HS.
  rewrite generated_run_is_model_run in H by (auto using valid_src_ok). unfold model_run in H.
  destruct (convert from req) as [[to' a]| |] eqn:E; try discriminate. inversion H; subst.
  destruct (@convert_preserves T zero from req to a v E HV HL HS) as [w [Hw R]]. exists w. split; [assumption|exact R].
Qed.

Theorem generated_dense_of_preserved : forall T (zero fill : T) from req to r (v : list T),
  g_run zero fill from req v = Ok (to, r) -> valid from = true -> length v = nnz from -> values_ok zero from v ->
  exists w, r = Ok w /\ dense_of zero to w = dense_of zero from v /\ dense_of zero from v <> None.
Proof.
  intros T zero fill from req to r v H HV HL HS.
  rewrite generated_run_is_model_run in H by (auto using valid_src_ok). unfold model_run in H.
  destruct (convert from req) as [[to' a]| |] eqn:E; try discriminate. inversion H; subst.
  destruct (@convert_dense_of T zero from req to a v E HV HL HS) as [w [Hw R]]. exists w. split; [assumption|exact R].
Qed.

Theorem generated_wrong_triangle_rejected_coo : forall T (zero fill : T) o (v : list T),
  sym_square_ok (o_sym o) (o_rows o) (o_cols o) = true -> length (o_row o) = length (o_col o) ->
  length v = nnz (SCOO o) ->
  existsb (fun k => negb (in_tri (o_sym o) (fst k) (snd k))) (coo_keys o) = true ->
  exists to, g_run zero fill (SCOO o) RDense v = Ok (to, ThrowInvalidArgument).
Proof.
  intros T zero fill o v H1 H2 H3 H4.
  destruct (@wrong_triangle_rejected_coo T zero o v H1 H2 H3 H4) as [to [a [C V]]].
  exists to. rewrite generated_run_is_model_run by assumption. unfold model_run. rewrite C, V. reflexivity.
Qed.

Theorem generated_wrong_triangle_rejected_csc : forall T (zero fill : T) s (v : list T),
  sym_square_ok (c_sym s) (c_rows s) (c_cols s) = true -> outer_ok s = true ->
  length v = nnz (SCSC s) ->
  existsb (fun k => negb (in_tri (c_sym s) (Z.of_nat (fst k)) (Z.of_nat (snd k)))) (csc_expand s) = true ->
  exists to, g_run zero fill (SCSC s) RDense v = Ok (to, ThrowInvalidArgument).
Proof.
  intros T zero fill s v H1 H2 H3 H4.
  destruct (@wrong_triangle_rejected_csc T zero s v H1 H2 H3 H4) as [to [a [C V]]].
  exists to. rewrite generated_run_is_model_run by assumption. unfold model_run. rewrite C, V. reflexivity.
Qed.
