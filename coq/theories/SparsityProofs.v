(* SparsityProofs.v — lemmas and proofs about Sparsity.v (C14). *)
From Coq Require Import List ZArith Bool Arith Lia.
From Alpaqa Require Import Sparsity.
Import ListNotations.

(* ------------------------------------------------------------------ generic list facts *)

Lemma upd_length : forall A n (x : A) l, length (upd n x l) = length l.
Proof. induction n; destruct l; simpl; auto. Qed.

Lemma nth_upd : forall A (d : A) n x l k,
  nth k (upd n x l) d = if (k =? n) && (n <? length l) then x else nth k l d.
Proof.
  induction n; destruct l; intros k; simpl.
  - destruct k; simpl; rewrite ?andb_false_r; auto.
  - destruct k; simpl; auto.
  - destruct k; simpl; rewrite ?andb_false_r; auto.
  - destruct k; simpl; auto. rewrite IHn. reflexivity.
Qed.

Lemma combine_app_l : forall A B (a b : list A) (v : list B),
  combine (a ++ b) v = combine a (firstn (length a) v) ++ combine b (skipn (length a) v).
Proof.
  induction a; intros; simpl; auto.
  destruct v; simpl.
  - destruct b; reflexivity.
  - rewrite IHa. reflexivity.
Qed.

Lemma combine_app_eq : forall A B (a b : list A) (c d : list B), length a = length c ->
  combine (a ++ b) (c ++ d) = combine a c ++ combine b d.
Proof.
  induction a; destruct c; simpl; intros; try discriminate; auto.
  rewrite IHa; auto.
Qed.

Lemma combine_firstn_len : forall A B (a : list A) (v : list B),
  combine a (firstn (length a) v) = combine a v.
Proof. induction a; destruct v; simpl; auto. rewrite IHa; auto. Qed.

Lemma combine_map_l' : forall A A' B (f : A -> A') (a : list A) (v : list B),
  combine (map f a) v = map (fun p => (f (fst p), snd p)) (combine a v).
Proof. induction a; destruct v; simpl; auto. rewrite IHa; auto. Qed.

Lemma map_nth_seq0 : forall A (d : A) n (l : list A), n <= length l ->
  map (fun i => nth i l d) (seq 0 n) = firstn n l.
Proof.
  induction n; intros; simpl; auto.
  destruct l; simpl in *; [lia|].
  f_equal. rewrite <- seq_shift, map_map. simpl. apply IHn. lia.
Qed.

Lemma map_nth_seq : forall A (d : A) a (l : list A) n, a + n <= length l ->
  map (fun i => nth i l d) (seq a n) = firstn n (skipn a l).
Proof.
  induction a; intros.
  - simpl skipn. apply map_nth_seq0. lia.
  - destruct l; simpl in H; [lia|].
    rewrite <- seq_shift, map_map. simpl. apply IHa. lia.
Qed.

Lemma flat_map_length_const : forall A B (f : A -> list B) n l,
  (forall x, In x l -> length (f x) = n) -> length (flat_map f l) = length l * n.
Proof.
  induction l; simpl; intros; auto. rewrite app_length, IHl, H; auto.
Qed.

(* ------------------------------------------------------------------ association lists *)

Section Assoc.
  Context {T : Type} (zero : T) {K : Type} (eqb : K -> K -> bool).
  Hypothesis eqb_spec : forall a b, eqb a b = true <-> a = b.

  Fixpoint find_val (kv : list (K * T)) (k : K) : option T :=
    match kv with
    | [] => None
    | (k', x) :: kv' => if eqb k' k then Some x else find_val kv' k
    end.

  Lemma lookup_find : forall kv k,
    lookup zero eqb kv k = match find_val kv k with Some x => x | None => zero end.
  Proof. induction kv as [|[k' x] kv]; simpl; intros; auto. destruct (eqb k' k); auto. Qed.

  Lemma find_val_app : forall kv1 kv2 k,
    find_val (kv1 ++ kv2) k = match find_val kv1 k with Some x => Some x | None => find_val kv2 k end.
  Proof. induction kv1 as [|[k' x] kv1]; simpl; intros; auto. destruct (eqb k' k); auto. Qed.

  Lemma find_val_none : forall kv k, (forall p, In p kv -> fst p <> k) -> find_val kv k = None.
  Proof.
    induction kv as [|[k' x] kv]; simpl; intros; auto.
    destruct (eqb k' k) eqn:E.
    - apply eqb_spec in E. exfalso. apply (H (k', x)); auto.
    - apply IHkv. intros; apply H; auto.
  Qed.

  Lemma find_val_some_in : forall kv k x, find_val kv k = Some x -> In (k, x) kv.
  Proof.
    induction kv as [|[k' y] kv]; simpl; intros; try discriminate.
    destruct (eqb k' k) eqn:E.
    - apply eqb_spec in E. inversion H; subst. auto.
    - right; auto.
  Qed.

  Lemma find_val_in : forall kv k x, NoDup (map fst kv) -> In (k, x) kv -> find_val kv k = Some x.
  Proof.
    induction kv as [|[k' y] kv]; simpl; intros k x ND HIn; [contradiction|].
    inversion ND; subst.
    destruct HIn as [E|HIn].
    - inversion E; subst. assert (eqb k k = true) by (apply eqb_spec; auto). rewrite H. reflexivity.
    - destruct (eqb k' k) eqn:E.
      + apply eqb_spec in E; subst. exfalso. apply H1. apply in_map_iff. exists (k, x); auto.
      + auto.
  Qed.

  Lemma lookup_in : forall kv k x, NoDup (map fst kv) -> In (k, x) kv -> lookup zero eqb kv k = x.
  Proof. intros. rewrite lookup_find, (find_val_in _ _ x); auto. Qed.

  Lemma lookup_notin : forall kv k, ~ In k (map fst kv) -> lookup zero eqb kv k = zero.
  Proof.
    intros. rewrite lookup_find, find_val_none; auto.
    intros p Hp E. apply H. apply in_map_iff. exists p; auto.
  Qed.

  Lemma NoDup_functional : forall (kv : list (K * T)) k x y, NoDup (map fst kv) -> In (k, x) kv -> In (k, y) kv -> x = y.
  Proof.
    intros. pose proof (find_val_in _ _ _ H H0). pose proof (find_val_in _ _ _ H H1). congruence.
  Qed.

  Lemma nodupb_NoDup : forall l : list K, nodupb eqb l = true -> NoDup l.
  Proof.
    induction l; simpl; intros; constructor.
    - apply andb_true_iff in H as [H _]. apply negb_true_iff in H.
      intro HIn. assert (existsb (eqb a) l = true); [|congruence].
      apply existsb_exists. exists a. split; auto. apply eqb_spec; auto.
    - apply IHl. apply andb_true_iff in H as [_ H]; auto.
  Qed.

  Lemma NoDup_nodupb : forall l : list K, NoDup l -> nodupb eqb l = true.
  Proof.
    induction 1; simpl; auto. rewrite IHNoDup, andb_true_r. apply negb_true_iff.
    destruct (existsb (eqb x) l) eqn:E; auto. apply existsb_exists in E as [y [Hy E]].
    apply eqb_spec in E; subst. contradiction.
  Qed.
End Assoc.

Lemma zz_eqb_spec : forall a b, zz_eqb a b = true <-> a = b.
Proof.
  intros [a1 a2] [b1 b2]; unfold zz_eqb; simpl. rewrite andb_true_iff, !Z.eqb_eq.
  split; [intros [? ?]; subst; auto | intros E; inversion E; auto].
Qed.

Lemma nat_eqb_spec : forall a b, Nat.eqb a b = true <-> a = b.
Proof. intros; apply Nat.eqb_eq. Qed.

Lemma zkey_inj : forall a b, zkey a = zkey b -> a = b.
Proof. intros [a1 a2] [b1 b2]; unfold zkey; simpl; intros E; inversion E. f_equal; lia. Qed.

Lemma NoDup_map_inj : forall A B (f : A -> B) l, (forall a b, f a = f b -> a = b) -> NoDup l -> NoDup (map f l).
Proof.
  induction 2; simpl; constructor; auto.
  intro HIn. apply in_map_iff in HIn as [y [E Hy]]. apply H in E; subst; contradiction.
Qed.

Lemma NoDup_app_intro : forall A (a b : list A), NoDup a -> NoDup b -> (forall x, In x a -> ~ In x b) -> NoDup (a ++ b).
Proof.
  induction a; simpl; intros; auto.
  inversion H; subst. constructor.
  - intro HIn. apply in_app_or in HIn as [|]; auto. apply (H1 a); auto.
  - apply IHa; auto.
Qed.

(* column-tagged concatenation: [(r, c) | c <- cs, r <- seg c] *)
Definition tagged (seg : nat -> list nat) (cs : list nat) : list (nat * nat) :=
  flat_map (fun c => map (fun r => (r, c)) (seg c)) cs.

Lemma in_tagged : forall seg cs r c, In (r, c) (tagged seg cs) <-> In c cs /\ In r (seg c).
Proof.
  intros. unfold tagged. rewrite in_flat_map. split.
  - intros [c' [Hc HIn]]. apply in_map_iff in HIn as [r' [E Hr]]. inversion E; subst. auto.
  - intros [Hc Hr]. exists c. split; auto. apply in_map_iff. exists r; auto.
Qed.

Lemma NoDup_tagged : forall seg cs, NoDup cs -> (forall c, In c cs -> NoDup (seg c)) -> NoDup (tagged seg cs).
Proof.
  induction 1; simpl; intros; [constructor|].
  apply NoDup_app_intro.
  - apply NoDup_map_inj; [intros a b E; inversion E; auto | apply H1; auto].
  - apply IHNoDup. intros; apply H1; auto.
  - intros [r c] HIn HIn2. apply in_map_iff in HIn as [r' [E Hr]]. inversion E; subst.
    apply in_tagged in HIn2 as [Hc _]. contradiction.
Qed.

Lemma map_fst_combine : forall A B (a : list A) (b : list B), length a = length b -> map fst (combine a b) = a.
Proof. induction a; destruct b; simpl; intros; try discriminate; auto. f_equal; auto. Qed.

Lemma in_combine_fst : forall A B (a : list A) (b : list B) p, In p (combine a b) -> In (fst p) a.
Proof. intros A B a b [x y] H. simpl. eapply in_combine_l; eauto. Qed.

(* ------------------------------------------------------------------ sparse -> Dense: the scatter loop *)

Lemma flat_nat : forall rows r c, (0 <= r)%Z -> (0 <= c)%Z -> flat rows r c = Z.to_nat r + Z.to_nat c * rows.
Proof. intros. unfold flat. nia. Qed.

Lemma divmod_unique : forall R r c i j, r < R -> i < R -> r + c * R = i + j * R -> r = i /\ c = j.
Proof. intros. assert (c = j) by nia. subst. split; lia. Qed.

Section Scatter.
  Context {T : Type} (zero : T).

  Definition writes1 (sym : symmetry) (rows : nat) (p : (Z * Z) * T) : list (nat * T) :=
    match sym with
    | Unsym => [(flat rows (fst (fst p)) (snd (fst p)), snd p)]
    | _ => [(flat rows (fst (fst p)) (snd (fst p)), snd p); (flat rows (snd (fst p)) (fst (fst p)), snd p)]
    end.
  Definition apply_writes (ws : list (nat * T)) (acc : list T) : list T :=
    fold_left (fun a p => upd (fst p) (snd p) a) ws acc.

  Lemma apply_writes_app : forall w1 w2 acc, apply_writes (w1 ++ w2) acc = apply_writes w2 (apply_writes w1 acc).
  Proof. intros. unfold apply_writes. apply fold_left_app. Qed.

  Lemma scatter_loop_ok : forall sym rows (kv : list ((Z * Z) * T)) acc,
    forallb (fun p => in_tri sym (fst (fst p)) (snd (fst p))) kv = true ->
    scatter_loop sym rows kv acc = Ok (apply_writes (flat_map (writes1 sym rows) kv) acc).
  Proof.
    induction kv as [|[[r c] x] kv]; intros acc H; simpl in *; auto.
    apply andb_true_iff in H as [H1 H2].
    destruct sym; simpl in *.
    - rewrite IHkv; auto.
    - apply Z.leb_le in H1. destruct (c <? r)%Z eqn:E; [apply Z.ltb_lt in E; lia|]. rewrite IHkv; auto.
    - apply Z.leb_le in H1. destruct (r <? c)%Z eqn:E; [apply Z.ltb_lt in E; lia|]. rewrite IHkv; auto.
  Qed.

  Lemma scatter_loop_throw : forall sym rows (kv : list ((Z * Z) * T)) (acc : list T),
    existsb (fun p => negb (in_tri sym (fst (fst p)) (snd (fst p)))) kv = true ->
    scatter_loop sym rows kv acc = ThrowInvalidArgument.
  Proof.
    induction kv as [|[[r c] x] kv]; intros acc H; simpl in *; [discriminate|].
    destruct sym; simpl in *.
    - apply IHkv; auto.
    - destruct (c <? r)%Z eqn:E; auto. apply IHkv.
      apply Z.ltb_ge in E. apply Z.leb_le in E. rewrite E in H. auto.
    - destruct (r <? c)%Z eqn:E; auto. apply IHkv.
      apply Z.ltb_ge in E. apply Z.leb_le in E. rewrite E in H. auto.
  Qed.

  Lemma apply_writes_length : forall ws acc, length (apply_writes ws acc) = length acc.
  Proof. induction ws; simpl; intros; auto. unfold apply_writes in *. simpl. rewrite IHws, upd_length; auto. Qed.

  Lemma apply_writes_miss : forall ws acc k, (forall p, In p ws -> fst p <> k) ->
    nth k (apply_writes ws acc) zero = nth k acc zero.
  Proof.
    induction ws as [|p ws]; intros; simpl; auto.
    unfold apply_writes in *; simpl. rewrite IHws by (intros; apply H; simpl; auto).
    rewrite nth_upd. destruct (k =? fst p) eqn:E; simpl; auto.
    apply Nat.eqb_eq in E. exfalso. apply (H p); simpl; auto.
  Qed.

  Lemma apply_writes_hit : forall ws acc k x,
    In (k, x) ws -> (forall p, In p ws -> fst p = k -> snd p = x) -> k < length acc ->
    nth k (apply_writes ws acc) zero = x.
  Proof.
    induction ws as [|p ws]; intros acc k x HIn Hc Hl; [contradiction|].
    change (apply_writes (p :: ws) acc) with (apply_writes ws (upd (fst p) (snd p) acc)).
    destruct (existsb (fun q => fst q =? k) ws) eqn:E.
    - apply existsb_exists in E as [[k' y] [Hq Ek]]. simpl in Ek. apply Nat.eqb_eq in Ek. subst k'.
      assert (y = x) by (apply (Hc (k, y)); simpl; auto). subst y.
      apply IHws; auto.
      + intros; apply Hc; simpl; auto.
      + rewrite upd_length; auto.
    - assert (forall q, In q ws -> fst q <> k).
      { intros q Hq Ek. assert (existsb (fun q => fst q =? k) ws = true); [|congruence].
        apply existsb_exists. exists q. split; auto. apply Nat.eqb_eq; auto. }
      rewrite apply_writes_miss; auto.
      destruct HIn as [Ep|HIn].
      + subst p. simpl. rewrite nth_upd. rewrite Nat.eqb_refl. simpl.
        destruct (k <? length acc) eqn:El; auto. apply Nat.ltb_ge in El. lia.
      + exfalso. apply (H (k, x)); auto.
  Qed.

  Lemma tri_pick_cases : forall sym i j,
    tri_pick sym i j = (i, j) \/ (sym <> Unsym /\ tri_pick sym i j = (j, i)).
  Proof.
    intros. destruct sym; simpl; auto.
    - destruct (i <=? j); auto. right; split; auto; discriminate.
    - destruct (j <=? i); auto. right; split; auto; discriminate.
  Qed.

  Lemma tri_pick_in_tri : forall sym i j,
    in_tri sym (Z.of_nat (fst (tri_pick sym i j))) (Z.of_nat (snd (tri_pick sym i j))) = true.
  Proof.
    intros. destruct sym; simpl; auto.
    - destruct (i <=? j) eqn:E; simpl; apply Z.leb_le; [apply Nat.leb_le in E | apply Nat.leb_gt in E]; lia.
    - destruct (j <=? i) eqn:E; simpl; apply Z.leb_le; [apply Nat.leb_le in E | apply Nat.leb_gt in E]; lia.
  Qed.

  (* a stored entry (r,c) in the stored triangle writes position (i,j) iff it is the representative of (i,j) *)
  Lemma write_hits_iff_nat : forall sym rows cols r' c' (x : T) i j,
    sym_square_ok sym rows cols = true -> r' < rows -> c' < cols ->
    in_tri sym (Z.of_nat r') (Z.of_nat c') = true -> i < rows -> j < cols ->
    ((exists q, In q (writes1 sym rows ((Z.of_nat r', Z.of_nat c'), x)) /\ fst q = i + j * rows)
     <-> (r', c') = tri_pick sym i j).
  Proof.
    intros sym rows cols r' c' x i j Hsq Hr' Hc' H Hi Hj.
    unfold writes1; simpl. rewrite !flat_nat by lia. rewrite !Nat2Z.id.
    destruct sym; simpl in *.
    - split.
      + intros [q [[Hq|[]] E]]. subst q. simpl in E. apply divmod_unique in E as [? ?]; [|assumption|assumption]. subst i j. reflexivity.
      + intros E. inversion E. subst i j. exists (r' + c' * rows, x). split; auto.
    - apply Nat.eqb_eq in Hsq. subst cols. apply Z.leb_le in H.
      split.
      + intros [q [[Hq|[Hq|[]]] E]]; subst q; simpl in E; (apply divmod_unique in E as [? ?]; [|assumption|assumption]); subst i j.
        * destruct (r' <=? c') eqn:E; [|apply Nat.leb_gt in E; lia]. reflexivity.
        * destruct (c' <=? r') eqn:E; auto.
          apply Nat.leb_le in E. assert (r' = c') by lia. subst c'. reflexivity.
      + intros E. destruct (i <=? j) eqn:El; inversion E; subst.
        * exists (i + j * rows, x). split; auto.
        * exists (i + j * rows, x). split; simpl; auto.
    - apply Nat.eqb_eq in Hsq. subst cols. apply Z.leb_le in H.
      split.
      + intros [q [[Hq|[Hq|[]]] E]]; subst q; simpl in E; (apply divmod_unique in E as [? ?]; [|assumption|assumption]); subst i j.
        * destruct (c' <=? r') eqn:E; [|apply Nat.leb_gt in E; lia]. reflexivity.
        * destruct (r' <=? c') eqn:E; auto.
          apply Nat.leb_le in E. assert (r' = c') by lia. subst c'. reflexivity.
      + intros E. destruct (j <=? i) eqn:El; inversion E; subst.
        * exists (i + j * rows, x). split; auto.
        * exists (i + j * rows, x). split; simpl; auto.
  Qed.

  Lemma key_ok_nat : forall sym rows cols k, key_ok sym rows cols k = true ->
    exists r' c', k = (Z.of_nat r', Z.of_nat c') /\ r' < rows /\ c' < cols /\ in_tri sym (Z.of_nat r') (Z.of_nat c') = true.
  Proof.
    intros sym rows cols [r c] Hk. unfold key_ok in Hk. simpl in Hk.
    repeat (apply andb_true_iff in Hk; destruct Hk as [Hk ?]).
    apply Z.leb_le in Hk. apply Z.ltb_lt in H2. apply Z.leb_le in H1. apply Z.ltb_lt in H0.
    exists (Z.to_nat r), (Z.to_nat c). rewrite !Z2Nat.id by lia. repeat split; auto; lia.
  Qed.

  Lemma write_hits_iff : forall sym rows cols (p : (Z * Z) * T) i j,
    sym_square_ok sym rows cols = true -> key_ok sym rows cols (fst p) = true -> i < rows -> j < cols ->
    ((exists q, In q (writes1 sym rows p) /\ fst q = i + j * rows) <-> fst p = zkey (tri_pick sym i j)).
  Proof.
    intros sym rows cols [k x] i j Hsq Hk Hi Hj. simpl in *.
    apply key_ok_nat in Hk as [r' [c' [Ek [Hr [Hc Ht]]]]]. subst k.
    rewrite (write_hits_iff_nat sym rows cols r' c' x i j); auto.
    change (Z.of_nat r', Z.of_nat c') with (zkey (r', c')).
    split; [intros E; rewrite E; auto | apply zkey_inj].
  Qed.

  Lemma writes1_snd : forall sym rows (p : (Z * Z) * T) q, In q (writes1 sym rows p) -> snd q = snd p.
  Proof. intros. destruct sym; simpl in H; intuition; subst; auto. Qed.

  Lemma tri_pick_bounds : forall sym rows cols i j, sym_square_ok sym rows cols = true -> i < rows -> j < cols ->
    fst (tri_pick sym i j) < rows /\ snd (tri_pick sym i j) < cols.
  Proof.
    intros. destruct sym; simpl in *; auto; apply Nat.eqb_eq in H; subst.
    - destruct (i <=? j); simpl; auto.
    - destruct (j <=? i); simpl; auto.
  Qed.

  (* the scatter loop computes the matrix denoted by the (well-formed) key/value list *)
  Lemma scatter_sem : forall sym rows cols keys (v : list T),
    sym_square_ok sym rows cols = true -> keys_ok sym rows cols keys = true -> length v = length keys ->
    forall i j, i < rows -> j < cols ->
    nth (i + j * rows) (apply_writes (flat_map (writes1 sym rows) (combine keys v)) (repeat zero (rows * cols))) zero
    = lookup zero zz_eqb (combine keys v) (zkey (tri_pick sym i j)).
  Proof.
    intros sym rows cols keys v Hsq Hk Hlen i j Hi Hj.
    apply andb_true_iff in Hk as [Hko Hnd].
    apply (nodupb_NoDup zz_eqb zz_eqb_spec) in Hnd.
    rewrite forallb_forall in Hko.
    set (kv := combine keys v).
    assert (Hfst : map fst kv = keys) by (apply map_fst_combine; auto).
    assert (Hkv : forall p, In p kv -> key_ok sym rows cols (fst p) = true).
    { intros p Hp. apply Hko. eapply in_combine_fst; eauto. }
    assert (Hidx : i + j * rows < length (repeat zero (rows * cols))) by (rewrite repeat_length; nia).
    destruct (find_val zz_eqb kv (zkey (tri_pick sym i j))) eqn:Ef.
    - (* the representative entry is stored: its value is written, and only it *)
      rewrite (lookup_find zero zz_eqb), Ef.
      apply (find_val_some_in zz_eqb zz_eqb_spec) in Ef.
      apply apply_writes_hit; auto.
      + apply in_flat_map. exists (zkey (tri_pick sym i j), t). split; auto.
        assert (exists q, In q (writes1 sym rows (zkey (tri_pick sym i j), t)) /\ fst q = i + j * rows) as [q [Hq Eq]].
        { apply (write_hits_iff sym rows cols); auto; try apply (Hkv _ Ef). }
        pose proof (writes1_snd _ _ _ _ Hq). destruct q as [qk qx]; simpl in *; subst qk qx; auto.
      + intros q Hq Eq. apply in_flat_map in Hq as [p [Hp Hq]].
        rewrite (writes1_snd _ _ _ _ Hq).
        assert (fst p = zkey (tri_pick sym i j)).
        { apply (write_hits_iff sym rows cols p i j); auto. exists q; auto. }
        destruct p as [k y]; simpl in *; subst k.
        eapply (NoDup_functional zz_eqb zz_eqb_spec kv); eauto. rewrite Hfst; auto.
    - rewrite (lookup_find zero zz_eqb), Ef.
      rewrite apply_writes_miss.
      + apply nth_repeat.
      + intros q Hq Eq. apply in_flat_map in Hq as [p [Hp Hq]].
        assert (fst p = zkey (tri_pick sym i j)).
        { apply (write_hits_iff sym rows cols p i j); auto. exists q; auto. }
        destruct p as [k y]; simpl in *; subst k.
        rewrite (find_val_in zz_eqb zz_eqb_spec kv _ y) in Ef; [discriminate| rewrite Hfst; auto | auto].
  Qed.
End Scatter.

(* ------------------------------------------------------------------ CSC: expansion (the code's loop) vs column slices (the spec) *)

Lemma csc_expand_tagged : forall s, csc_expand s = tagged (csc_col_rows s) (seq 0 (c_cols s)).
Proof. reflexivity. Qed.

Lemma tagged_app : forall seg l1 l2, tagged seg (l1 ++ l2) = tagged seg l1 ++ tagged seg l2.
Proof. intros. unfold tagged. apply flat_map_app. Qed.

Lemma outer_ok_facts : forall s, outer_ok s = true ->
  length (c_outer s) = S (c_cols s) /\ nth 0 (c_outer s) 0 = 0 /\
  (forall c, c < c_cols s -> nth c (c_outer s) 0 <= nth (S c) (c_outer s) 0) /\
  nth (c_cols s) (c_outer s) 0 = length (c_inner s).
Proof.
  intros s H. unfold outer_ok in H.
  repeat (apply andb_true_iff in H; destruct H as [H ?]).
  apply Nat.eqb_eq in H, H2, H0. repeat split; auto.
  intros c Hc. rewrite forallb_forall in H1. apply Nat.leb_le. apply H1. apply in_seq. lia.
Qed.

Lemma csc_prefix_len : forall s, outer_ok s = true -> forall c, c <= c_cols s ->
  length (tagged (csc_col_rows s) (seq 0 c)) = nth c (c_outer s) 0.
Proof.
  intros s H. destruct (outer_ok_facts s H) as [_ [H0 [Hm _]]].
  induction c; intros Hc.
  - simpl. auto.
  - rewrite seq_S, tagged_app, app_length, IHc by lia. simpl.
    rewrite app_nil_r, map_length. unfold csc_col_rows. rewrite map_length, seq_length.
    specialize (Hm c). lia.
Qed.

Section AssocMap.
  Context {T : Type} {K K' : Type} (eqb : K -> K -> bool) (eqb' : K' -> K' -> bool) (f : K -> K').
  Hypothesis f_eqb : forall a b, eqb' (f a) (f b) = eqb a b.
  Lemma find_val_map_key : forall (kv : list (K * T)) k,
    find_val eqb' (map (fun p => (f (fst p), snd p)) kv) (f k) = find_val eqb kv k.
  Proof. induction kv as [|[k' x] kv]; simpl; intros; auto. rewrite f_eqb, IHkv. reflexivity. Qed.
End AssocMap.

Section CSCsem.
  Context {T : Type} (zero : T).

  Lemma csc_expand_get : forall s (v : list T) a b, outer_ok s = true -> b < c_cols s ->
    lookup zero zz_eqb (combine (map zkey (csc_expand s)) v) (zkey (a, b)) = csc_get zero s v a b.
  Proof.
    intros s v a b Hok Hb.
    rewrite csc_expand_tagged.
    replace (c_cols s) with (b + S (c_cols s - S b)) by lia.
    rewrite seq_app. simpl seq. rewrite tagged_app. simpl tagged at 2.
    change (flat_map (fun c => map (fun r => (r, c)) (csc_col_rows s c)) (seq (S b) (c_cols s - S b)))
      with (tagged (csc_col_rows s) (seq (S b) (c_cols s - S b))).
    set (A := tagged (csc_col_rows s) (seq 0 b)).
    set (C := tagged (csc_col_rows s) (seq (S b) (c_cols s - S b))).
    rewrite map_app, combine_app_l, map_length.
    unfold A at 2 3. rewrite csc_prefix_len by (auto; lia).
    set (v' := skipn (nth b (c_outer s) 0) v).
    rewrite (lookup_find zero zz_eqb), find_val_app.
    rewrite (find_val_none zz_eqb zz_eqb_spec).
    2:{ intros p Hp E. apply in_combine_fst in Hp. rewrite E in Hp.
        apply in_map_iff in Hp as [[r c] [Ez Hrc]]. apply zkey_inj in Ez. inversion Ez; subst.
        apply in_tagged in Hrc as [Hc _]. apply in_seq in Hc. lia. }
    rewrite map_app, combine_app_l, find_val_app, combine_firstn_len.
    rewrite map_map, combine_map_l'.
    rewrite (find_val_map_key Nat.eqb zz_eqb (fun r => zkey (r, b))).
    2:{ intros x y. unfold zkey, zz_eqb; simpl. rewrite Z.eqb_refl, andb_true_r.
        destruct (Nat.eqb x y) eqn:E.
        - apply Nat.eqb_eq in E; subst. apply Z.eqb_refl.
        - apply Nat.eqb_neq in E. apply Z.eqb_neq. lia. }
    unfold csc_get. fold v'. rewrite (lookup_find zero Nat.eqb).
    destruct (find_val Nat.eqb (combine (csc_col_rows s b) v') a); auto.
    rewrite (find_val_none zz_eqb zz_eqb_spec); auto.
    intros p Hp E. apply in_combine_fst in Hp. rewrite E in Hp.
    apply in_map_iff in Hp as [[r c] [Ez Hrc]]. apply zkey_inj in Ez. inversion Ez; subst.
    apply in_tagged in Hrc as [Hc _]. apply in_seq in Hc. lia.
  Qed.
End CSCsem.

(* ------------------------------------------------------------------ Dense -> sparse: enumeration of the (upper) cells *)

Lemma skipn_skipn' : forall A n a (l : list A), skipn n (skipn a l) = skipn (a + n) l.
Proof. induction a; intros; simpl; auto. destruct l; simpl; auto. destruct n; auto. Qed.

Lemma firstn_add : forall A n m (l : list A), firstn (n + m) l = firstn n l ++ firstn m (skipn n l).
Proof. induction n; intros; simpl; auto. destruct l; simpl; auto. destruct m; auto. f_equal; auto. Qed.

Lemma skipn_length_app : forall A (a b : list A), skipn (length a) (a ++ b) = b.
Proof. induction a; simpl; auto. Qed.

Lemma firstn_length_app : forall A (a b : list A), firstn (length a) (a ++ b) = a.
Proof. induction a; simpl; intros; auto. f_equal; auto. Qed.

Lemma seq_shift_add : forall k n, seq k n = map (fun r => r + k) (seq 0 n).
Proof.
  induction k; intros.
  - rewrite <- (map_id (seq 0 n)) at 1. apply map_ext. intros; lia.
  - rewrite <- seq_shift, IHk, map_map. apply map_ext. intros; lia.
Qed.

Lemma firstn_seq' : forall n a k, k <= n -> firstn k (seq a n) = seq a k.
Proof. induction n; intros; destruct k; simpl; auto; try lia. f_equal. apply IHn. lia. Qed.

Lemma nth_map_seq : forall A (f : nat -> A) d n k, k < n -> nth k (map f (seq 0 n)) d = f k.
Proof.
  intros. rewrite (nth_indep _ d (f 0)) by (rewrite map_length, seq_length; auto).
  rewrite map_nth. rewrite seq_nth; auto.
Qed.

Definition nn_eqb (a b : nat * nat) : bool := (fst a =? fst b) && (snd a =? snd b).
Lemma nn_eqb_spec : forall a b, nn_eqb a b = true <-> a = b.
Proof.
  intros [a1 a2] [b1 b2]; unfold nn_eqb; simpl. rewrite andb_true_iff, !Nat.eqb_eq.
  split; [intros [? ?]; subst; auto | intros E; inversion E; auto].
Qed.
Lemma zz_nn_eqb : forall a b, zz_eqb (zkey a) (zkey b) = nn_eqb a b.
Proof.
  intros. destruct (nn_eqb a b) eqn:E.
  - apply nn_eqb_spec in E; subst. apply zz_eqb_spec; auto.
  - destruct (zz_eqb (zkey a) (zkey b)) eqn:E2; auto. apply zz_eqb_spec in E2. apply zkey_inj in E2.
    apply nn_eqb_spec in E2. congruence.
Qed.

Lemma coo_keys_shift : forall (es : list (nat * nat)) Δ,
  map (fun rc : Z * Z => (fst rc - Δ, snd rc - Δ)%Z)
      (combine (map (fun k => (Z.of_nat (fst k) + Δ)%Z) es) (map (fun k => (Z.of_nat (snd k) + Δ)%Z) es))
  = map zkey es.
Proof.
  induction es as [|[r c] es]; intros; simpl; auto. rewrite IHes. f_equal. unfold zkey; simpl. f_equal; lia.
Qed.

Section DenseEnum.
  Context {T : Type} (zero : T).

  Lemma combine_tagged : forall (seg : nat -> list nat) (V : nat -> nat -> T) cs,
    combine (tagged seg cs) (flat_map (fun c => map (fun r => V r c) (seg c)) cs)
    = map (fun e => (e, V (fst e) (snd e))) (tagged seg cs).
  Proof.
    induction cs; simpl; auto.
    rewrite combine_app_eq by (rewrite !map_length; auto).
    rewrite map_app, IHcs. f_equal.
    induction (seg a); simpl; auto. f_equal; auto.
  Qed.

  Lemma tagged_vals_length : forall (seg : nat -> list nat) (V : nat -> nat -> T) cs,
    length (flat_map (fun c => map (fun r => V r c) (seg c)) cs) = length (tagged seg cs).
  Proof. induction cs; simpl; auto. rewrite !app_length, !map_length, IHcs; auto. Qed.

  Lemma tab_id_gen : forall rows cols k (v : list T), k * rows + cols * rows <= length v ->
    flat_map (fun c => map (fun r => nth (r + c * rows) v zero) (seq 0 rows)) (seq k cols)
    = firstn (cols * rows) (skipn (k * rows) v).
  Proof.
    induction cols; intros; simpl; auto.
    rewrite IHcols by (simpl; lia).
    rewrite firstn_add. f_equal.
    - rewrite <- (map_nth_seq _ zero) by lia. rewrite (seq_shift_add (k * rows)), map_map. reflexivity.
    - rewrite skipn_skipn'. simpl. f_equal. f_equal. lia.
  Qed.

  Lemma tab_id : forall rows cols (v : list T), length v = rows * cols ->
    flat_map (fun c => map (fun r => nth (r + c * rows) v zero) (seq 0 rows)) (seq 0 cols) = v.
  Proof.
    intros. rewrite tab_id_gen by (simpl; lia). simpl. apply firstn_all2. lia.
  Qed.

  (* looking a cell up in (cells paired with their dense value) gives that value *)
  Lemma dense_lookup : forall (es : list (nat * nat)) (w : list T) (V : nat -> nat -> T) e,
    combine es w = map (fun e => (e, V (fst e) (snd e))) es -> NoDup es -> In e es ->
    lookup zero zz_eqb (combine (map zkey es) w) (zkey e) = V (fst e) (snd e).
  Proof.
    intros es w V e Hc Hnd HIn.
    rewrite combine_map_l', Hc, (lookup_find zero zz_eqb).
    rewrite (find_val_map_key nn_eqb zz_eqb zkey zz_nn_eqb).
    rewrite (find_val_in nn_eqb nn_eqb_spec _ e (V (fst e) (snd e))); auto.
    - rewrite map_map. simpl. rewrite map_id. auto.
    - apply in_map_iff. exists e; auto.
  Qed.

  Lemma dense_lookup_absent : forall (es : list (nat * nat)) (w : list T) e,
    ~ In e es -> lookup zero zz_eqb (combine (map zkey es) w) (zkey e) = zero.
  Proof.
    intros. apply (lookup_notin zero zz_eqb zz_eqb_spec).
    intro HIn. apply in_map_iff in HIn as [p [E Hp]]. apply in_combine_fst in Hp. rewrite E in Hp.
    apply in_map_iff in Hp as [e' [E' He']]. apply zkey_inj in E'. subst; auto.
  Qed.
End DenseEnum.

Definition dense_seg (sym : symmetry) (rows : nat) (c : nat) : list nat :=
  seq 0 (match sym with Unsym => rows | _ => S c end).

Lemma dense_entries_tagged : forall sym rows cols,
  dense_entries sym rows cols = tagged (dense_seg sym rows) (seq 0 cols).
Proof. reflexivity. Qed.

Lemma in_dense_entries : forall sym rows cols r c,
  In (r, c) (dense_entries sym rows cols) <-> c < cols /\ r < (match sym with Unsym => rows | _ => S c end).
Proof.
  intros. rewrite dense_entries_tagged, in_tagged. unfold dense_seg. rewrite !in_seq. lia.
Qed.

Lemma NoDup_dense_entries : forall sym rows cols, NoDup (dense_entries sym rows cols).
Proof.
  intros. rewrite dense_entries_tagged. apply NoDup_tagged; [apply seq_NoDup|]. intros; apply seq_NoDup.
Qed.

Lemma dense_entries_keys_ok : forall sym rows cols, sym <> Lower -> sym_square_ok sym rows cols = true ->
  keys_ok sym rows cols (map zkey (dense_entries sym rows cols)) = true.
Proof.
  intros sym rows cols Hl Hsq. unfold keys_ok. apply andb_true_iff; split.
  - apply forallb_forall. intros k Hk. apply in_map_iff in Hk as [[r c] [E HIn]]. subst k.
    apply in_dense_entries in HIn as [Hc Hr].
    unfold key_ok, zkey; simpl.
    destruct sym; simpl in *; try congruence.
    + rewrite !andb_true_iff, !Z.leb_le, !Z.ltb_lt. lia.
    + apply Nat.eqb_eq in Hsq. rewrite !andb_true_iff, !Z.leb_le, !Z.ltb_lt. lia.
  - apply (NoDup_nodupb zz_eqb zz_eqb_spec). apply NoDup_map_inj; [apply zkey_inj | apply NoDup_dense_entries].
Qed.

Lemma dense_entries_length_unsym : forall rows cols, length (dense_entries Unsym rows cols) = rows * cols.
Proof.
  intros. unfold dense_entries. rewrite (flat_map_length_const _ _ _ rows).
  - rewrite seq_length. lia.
  - intros. rewrite map_length, seq_length. auto.
Qed.

(* ------------------------------------------------------------------ the conversions preserve the denoted matrix *)

Lemma tri_pick_idem : forall sym i j, tri_pick sym (fst (tri_pick sym i j)) (snd (tri_pick sym i j)) = tri_pick sym i j.
Proof.
  intros. destruct sym; simpl; auto.
  - destruct (i <=? j) eqn:E; simpl; [rewrite E; auto|]. apply Nat.leb_gt in E.
    destruct (j <=? i) eqn:E2; auto. apply Nat.leb_gt in E2. lia.
  - destruct (j <=? i) eqn:E; simpl; [rewrite E; auto|]. apply Nat.leb_gt in E.
    destruct (i <=? j) eqn:E2; auto. apply Nat.leb_gt in E2. lia.
Qed.

Lemma keys_ok_in_tri : forall T sym rows cols keys (v : list T), keys_ok sym rows cols keys = true ->
  forallb (fun p : (Z * Z) * T => in_tri sym (fst (fst p)) (snd (fst p))) (combine keys v) = true.
Proof.
  intros. apply andb_true_iff in H as [H _]. rewrite forallb_forall in H. apply forallb_forall.
  intros p Hp. apply in_combine_fst in Hp. apply H in Hp. unfold key_ok in Hp.
  apply andb_true_iff in Hp as [_ Hp]. auto.
Qed.

Lemma csc_expand_length : forall s, outer_ok s = true -> length (csc_expand s) = length (c_inner s).
Proof.
  intros. rewrite csc_expand_tagged, csc_prefix_len; auto.
  destruct (outer_ok_facts s H) as [_ [_ [_ E]]]. auto.
Qed.

Lemma coo_keys_length : forall o, length (o_row o) = length (o_col o) -> length (coo_keys o) = length (o_row o).
Proof. intros. unfold coo_keys. rewrite map_length, combine_length. lia. Qed.

Lemma coo_keys_shifted : forall t t' rows cols sym row col ord ord' f f' Δ, f' = (f + Δ)%Z ->
  coo_keys (mkCOO t rows cols sym (map (fun i => (i + Δ)%Z) row) (map (fun i => (i + Δ)%Z) col) ord f')
  = coo_keys (mkCOO t' rows cols sym row col ord' f).
Proof.
  intros. subst f'. unfold coo_keys; simpl. revert col.
  induction row; destruct col; simpl; auto. rewrite IHrow. f_equal. f_equal; lia.
Qed.

Section Preserve.
  Context {T : Type} (zero : T).

  (* converting the values succeeds and the result denotes the same matrix, with the same shape and symmetry *)
  Definition preserves (from to : sparsity) (a : vconv) (v : list T) : Prop :=
    exists w, convert_values zero a v = Ok w /\ valid to = true /\ length w = nnz to
      /\ rows_of to = rows_of from /\ cols_of to = cols_of from /\ sym_of to = sym_of from
      /\ forall i j, i < rows_of from -> j < cols_of from -> sem zero to w i j = sem zero from v i j.

  Lemma scatter_preserves : forall sym rows cols keys (v : list T),
    sym_square_ok sym rows cols = true -> keys_ok sym rows cols keys = true -> length v = length keys ->
    exists w, convert_values zero (VScatter sym rows cols keys) v = Ok w /\ length w = rows * cols /\
      forall i j, i < rows -> j < cols ->
        sem_dense zero (mkDense rows cols sym) w i j = lookup zero zz_eqb (combine keys v) (zkey (tri_pick sym i j)).
  Proof.
    intros sym rows cols keys v Hsq Hk Hl. simpl.
    rewrite scatter_loop_ok by (apply keys_ok_in_tri with (rows := rows) (cols := cols); auto).
    eexists; split; [reflexivity|]. split.
    - rewrite apply_writes_length, repeat_length. auto.
    - intros i j Hi Hj. unfold sem_dense; simpl.
      apply (scatter_sem zero sym rows cols keys v Hsq Hk Hl _ _ Hi Hj).
  Qed.

  Lemma conv_dense_dense_preserves : forall d to a v, conv_dense_dense d = Ok (to, a) ->
    valid (SDense d) = true -> length v = nnz (SDense d) -> preserves (SDense d) to a v.
  Proof.
    unfold conv_dense_dense. intros d to a v H Hv Hl.
    destruct (sym_square_ok _ _ _); inversion H; subst.
    exists v. simpl. repeat split; auto.
  Qed.

  Lemma conv_csc_dense_preserves : forall s to a v, conv_csc_dense s = Ok (to, a) ->
    valid (SCSC s) = true -> length v = nnz (SCSC s) -> preserves (SCSC s) to a v.
  Proof.
    unfold conv_csc_dense. intros s to a v H Hv Hl. simpl in Hv, Hl.
    unfold valid_csc in Hv. apply andb_true_iff in Hv as [Hv Hk]. apply andb_true_iff in Hv as [Hok Hsq].
    rewrite Hsq in H. inversion H; subst; clear H.
    destruct (scatter_preserves (c_sym s) (c_rows s) (c_cols s) (map zkey (csc_expand s)) v Hsq Hk) as [w [Hw [Hlw Hs]]].
    { rewrite map_length, csc_expand_length; auto. }
    exists w. split; auto. simpl. repeat split; auto.
    intros i j Hi Hj. rewrite Hs by auto. unfold sem_csc.
    destruct (tri_pick_bounds (c_sym s) _ _ i j Hsq Hi Hj) as [_ Hb].
    destruct (tri_pick (c_sym s) i j) as [a b] eqn:E. simpl in *.
    apply csc_expand_get; auto.
  Qed.

  Lemma conv_coo_dense_preserves : forall o to a v, conv_coo_dense o = Ok (to, a) ->
    valid (SCOO o) = true -> length v = nnz (SCOO o) -> preserves (SCOO o) to a v.
  Proof.
    unfold conv_coo_dense. intros o to a v H Hv Hl. simpl in Hv, Hl.
    unfold valid_coo in Hv. apply andb_true_iff in Hv as [Hv Hk]. apply andb_true_iff in Hv as [Hlen Hsq].
    apply Nat.eqb_eq in Hlen.
    rewrite Hsq in H. inversion H; subst; clear H.
    destruct (scatter_preserves (o_sym o) (o_rows o) (o_cols o) (coo_keys o) v Hsq Hk) as [w [Hw [Hlw Hs]]].
    { rewrite coo_keys_length; auto. }
    exists w. split; auto. simpl. repeat split; auto.
  Qed.

  Lemma dense_cells_combine : forall sym rows cols (v : list T),
    (sym = Unsym -> length v = rows * cols) ->
    combine (dense_entries sym rows cols)
            (match sym with Unsym => v | _ => pack_upper zero rows cols v end)
    = map (fun e => (e, nth (fst e + snd e * rows) v zero)) (dense_entries sym rows cols).
  Proof.
    intros. rewrite dense_entries_tagged. rewrite <- (combine_tagged _ (fun r c => nth (r + c * rows) v zero)).
    f_equal. destruct sym; try reflexivity.
    unfold dense_seg. symmetry. apply tab_id. auto.
  Qed.

  (* Dense -> COO and Dense -> CSC produce the same cells; this is their common core *)
  Lemma dense_cells_sem : forall sym rows cols (v : list T) i j,
    sym <> Lower -> sym_square_ok sym rows cols = true -> length v = rows * cols -> i < rows -> j < cols ->
    values_ok zero (SDense (mkDense rows cols sym)) v ->
    lookup zero zz_eqb (combine (map zkey (dense_entries sym rows cols))
                                (match sym with Unsym => v | _ => pack_upper zero rows cols v end))
           (zkey (tri_pick sym i j))
    = sem_dense zero (mkDense rows cols sym) v i j.
  Proof.
    intros sym rows cols v i j Hl Hsq Hlen Hi Hj Hvs.
    rewrite (dense_lookup zero _ _ (fun r c => nth (r + c * rows) v zero)).
    - unfold sem_dense. simpl in *. destruct (tri_pick_cases sym i j) as [E|[Hns E]]; rewrite E; simpl; auto.
      symmetry. apply Hvs; auto.
    - apply dense_cells_combine. auto.
    - apply NoDup_dense_entries.
    - destruct (tri_pick sym i j) as [a b] eqn:E. apply in_dense_entries.
      destruct sym; simpl in *; try congruence.
      + inversion E; subst. auto.
      + apply Nat.eqb_eq in Hsq. destruct (i <=? j) eqn:El; inversion E; subst;
          [apply Nat.leb_le in El | apply Nat.leb_gt in El]; lia.
  Qed.

  Lemma dense_vals_length : forall sym rows cols (v : list T), length v = rows * cols ->
    length (match sym with Unsym => v | _ => pack_upper zero rows cols v end) = length (dense_entries sym rows cols).
  Proof.
    intros. destruct sym.
    - rewrite dense_entries_length_unsym. auto.
    - unfold pack_upper. rewrite dense_entries_tagged. apply (tagged_vals_length (dense_seg Upper rows)).
    - unfold pack_upper. rewrite dense_entries_tagged. apply (tagged_vals_length (dense_seg Lower rows)).
  Qed.

  Lemma conv_dense_coo_preserves : forall d t f to a v, conv_dense_coo d t f = Ok (to, a) ->
    valid (SDense d) = true -> length v = nnz (SDense d) -> values_ok zero (SDense d) v -> preserves (SDense d) to a v.
  Proof.
    unfold conv_dense_coo. intros [rows cols sym] t f to a v H Hv Hl Hvs. simpl in H, Hv, Hl. unfold valid_dense in Hv. simpl in Hv.
    assert (Hcore : forall a', (a' = match sym with Unsym => VCopy | _ => VPackUpper rows cols end) -> sym <> Lower ->
       preserves (SDense (mkDense rows cols sym))
         (SCOO (mkCOO t rows cols sym
            (map (fun k => (Z.of_nat (fst k) + req_delta f)%Z) (dense_entries sym rows cols))
            (map (fun k => (Z.of_nat (snd k) + req_delta f)%Z) (dense_entries sym rows cols))
            CooSortedByColsAndRows (req_delta f))) a' v).
    { intros a' Ea Hlow.
      exists (match sym with Unsym => v | _ => pack_upper zero rows cols v end).
      split; [subst a'; destruct sym; try reflexivity; congruence|].
      split.
      { simpl. unfold valid_coo; simpl. rewrite !map_length, Nat.eqb_refl, Hv. simpl.
        unfold coo_keys; simpl. rewrite coo_keys_shift. apply dense_entries_keys_ok; auto. }
      split; [simpl; rewrite map_length; apply dense_vals_length; auto|].
      simpl. repeat split; auto.
      intros i j Hi Hj. unfold sem_coo, coo_keys; simpl. rewrite coo_keys_shift.
      apply (dense_cells_sem sym rows cols v i j); auto. }
    destruct sym.
    - inversion H; subst. apply Hcore; auto; discriminate.
    - destruct (rows =? cols); inversion H; subst. apply Hcore; auto; discriminate.
    - discriminate.
  Qed.

  Lemma conv_csc_coo_preserves : forall s t f to a v, conv_csc_coo s t f = Ok (to, a) ->
    valid (SCSC s) = true -> length v = nnz (SCSC s) -> preserves (SCSC s) to a v.
  Proof.
    unfold conv_csc_coo. intros s t f to a v H Hv Hl. simpl in Hv, Hl.
    unfold valid_csc in Hv. apply andb_true_iff in Hv as [Hv Hk]. apply andb_true_iff in Hv as [Hok Hsq].
    inversion H; subst; clear H.
    exists v. split; [reflexivity|]. split.
    { simpl. unfold valid_coo; simpl. rewrite !map_length, Nat.eqb_refl, Hsq. simpl.
      unfold coo_keys; simpl. rewrite coo_keys_shift. auto. }
    split; [simpl; rewrite map_length, csc_expand_length; auto|].
    simpl. repeat split; auto.
    intros i j Hi Hj. unfold sem_coo, coo_keys, sem_csc; simpl. rewrite coo_keys_shift.
    destruct (tri_pick_bounds (c_sym s) _ _ i j Hsq Hi Hj) as [_ Hb].
    destruct (tri_pick (c_sym s) i j) as [a b] eqn:E. simpl in *.
    apply csc_expand_get; auto.
  Qed.

  Lemma conv_coo_coo_same : forall o t f to a, conv_coo_coo o t f = Ok (to, a) ->
    a = VCopy /\ exists o', to = SCOO o' /\ o_rows o' = o_rows o /\ o_cols o' = o_cols o /\ o_sym o' = o_sym o
      /\ coo_keys o' = coo_keys o /\ length (o_row o') = length (o_row o) /\ length (o_col o') = length (o_col o)
      /\ o_order o' = o_order o /\ o_ity o' = t
      /\ o_first o' = match f with Some x => x | None => o_first o end.
  Proof.
    unfold conv_coo_coo. intros o t f to a H.
    destruct (ityp_eqb (o_ity o) t && _) eqn:E; inversion H; subst; clear H; split; auto.
    - exists o. apply andb_true_iff in E as [Et Ed]. apply Z.eqb_eq in Ed.
      repeat split; auto.
      + destruct (o_ity o), t; simpl in Et; congruence.
      + destruct f; auto. lia.
    - eexists; split; [reflexivity|]. simpl. rewrite !map_length. repeat split; auto.
      destruct o as [ty rows cols sym row col ord fi]; simpl.
      destruct f as [x|].
      + apply coo_keys_shifted. lia.
      + apply coo_keys_shifted. lia.
  Qed.

  Lemma conv_coo_coo_preserves : forall o t f to a v, conv_coo_coo o t f = Ok (to, a) ->
    valid (SCOO o) = true -> length v = nnz (SCOO o) -> preserves (SCOO o) to a v.
  Proof.
    intros o t f to a v H Hv Hl.
    apply conv_coo_coo_same in H as [Ea [o' [Et [Hr [Hc [Hs [Hk [Hlr [Hlc _]]]]]]]]]. subst a to.
    exists v. split; [reflexivity|]. simpl in *. split.
    { unfold valid_coo in *. rewrite Hlr, Hlc, Hr, Hc, Hs, Hk. auto. }
    split; [lia|]. repeat split; auto.
    intros i j _ _. unfold sem_coo. rewrite Hk, Hs. reflexivity.
  Qed.

  Lemma conv_csc_csc_same : forall s t ord to a, conv_csc_csc s t ord = Ok (to, a) ->
    a = VCopy /\ exists s', to = SCSC s' /\ c_rows s' = c_rows s /\ c_cols s' = c_cols s /\ c_sym s' = c_sym s
      /\ c_inner s' = c_inner s /\ c_outer s' = c_outer s /\ c_ity s' = t
      /\ (ord = Some CscSortedRows -> c_order s' = CscSortedRows)
      /\ (c_order s' = c_order s \/ (c_order s = CscSortedRows /\ c_order s' = CscSortedRows)).
  Proof.
    unfold conv_csc_csc. intros s t ord to a H.
    destruct (_ && _) eqn:E; inversion H; subst; clear H. split; auto.
    eexists; split; [reflexivity|]. simpl. repeat split; auto.
    - intros; subst; reflexivity.
    - destruct ord as [[|]|]; simpl in *; auto. destruct (c_order s); auto; discriminate.
  Qed.

  Lemma valid_csc_ext : forall s s', c_rows s' = c_rows s -> c_cols s' = c_cols s -> c_sym s' = c_sym s ->
    c_inner s' = c_inner s -> c_outer s' = c_outer s -> valid_csc s' = valid_csc s.
  Proof.
    intros [] []; simpl; intros; subst. reflexivity.
  Qed.

  Lemma sem_csc_ext : forall s s' (v : list T) i j, c_cols s' = c_cols s -> c_sym s' = c_sym s ->
    c_inner s' = c_inner s -> c_outer s' = c_outer s -> sem_csc zero s' v i j = sem_csc zero s v i j.
  Proof.
    intros [] []; simpl; intros; subst. reflexivity.
  Qed.

  Lemma conv_csc_csc_preserves : forall s t ord to a v, conv_csc_csc s t ord = Ok (to, a) ->
    valid (SCSC s) = true -> length v = nnz (SCSC s) -> preserves (SCSC s) to a v.
  Proof.
    intros s t ord to a v H Hv Hl.
    apply conv_csc_csc_same in H as [Ea [s' [Et [Hr [Hc [Hs [Hi [Ho _]]]]]]]]. subst a to.
    exists v. split; [reflexivity|]. simpl in *. split.
    { rewrite (valid_csc_ext s s'); auto. }
    split; [rewrite Hi; auto|]. repeat split; auto.
    intros i j _ _. apply sem_csc_ext; auto.
  Qed.
End Preserve.

(* ------------------------------------------------------------------ Dense -> CSC: the running counter l *)

Lemma dense_csc_loop_spec : forall colf cs l,
  dense_csc_loop colf cs l
  = (flat_map colf cs, map (fun k => l + length (flat_map colf (firstn k cs))) (seq 0 (S (length cs)))).
Proof.
  induction cs; intros.
  - simpl. f_equal. f_equal. lia.
  - change (dense_csc_loop colf (a :: cs) l)
      with (let '(inn, out) := dense_csc_loop colf cs (l + length (colf a)) in (colf a ++ inn, l :: out)).
    rewrite IHcs.
    change (length (a :: cs)) with (S (length cs)).
    replace (seq 0 (S (S (length cs)))) with (0 :: map S (seq 0 (S (length cs))))
      by (rewrite seq_shift; reflexivity).
    rewrite map_cons, map_map. f_equal. f_equal.
    + simpl. lia.
    + apply map_ext. intros k. simpl. rewrite app_length. lia.
Qed.

Lemma flat_map_ext_in : forall A B (f g : A -> list B) l, (forall x, In x l -> f x = g x) -> flat_map f l = flat_map g l.
Proof. induction l; simpl; intros; auto. rewrite H, IHl; auto. Qed.

Lemma tagged_length : forall seg cs, length (tagged seg cs) = length (flat_map seg cs).
Proof. induction cs; simpl; auto. rewrite !app_length, map_length, IHcs; auto. Qed.

Section DenseCSC.
  Variables (colf : nat -> list nat) (t : ityp) (rows cols : nat) (sym : symmetry) (ord : csc_order).
  Let io := dense_csc_loop colf (seq 0 cols) 0.
  Let s' := mkCSC t rows cols sym (fst io) (snd io) ord.
  Let P c := length (flat_map colf (seq 0 c)).

  Lemma dcsc_inner : c_inner s' = flat_map colf (seq 0 cols).
  Proof. unfold s', io. rewrite dense_csc_loop_spec. reflexivity. Qed.

  Lemma dcsc_outer_nth : forall c, c <= cols -> nth c (c_outer s') 0 = P c.
  Proof.
    intros. unfold s', io. rewrite dense_csc_loop_spec. cbn [c_outer snd].
    rewrite seq_length. rewrite nth_map_seq by lia. rewrite firstn_seq' by auto. reflexivity.
  Qed.

  Lemma dcsc_P_S : forall c, P (S c) = P c + length (colf c).
  Proof. intros. unfold P. rewrite seq_S, flat_map_app, app_length. simpl. rewrite app_nil_r. auto. Qed.

  Lemma dcsc_outer_ok : outer_ok s' = true.
  Proof.
    unfold outer_ok. rewrite !andb_true_iff. repeat split.
    - apply Nat.eqb_eq. unfold s', io. rewrite dense_csc_loop_spec. simpl. rewrite map_length, seq_length, seq_length. auto.
    - apply Nat.eqb_eq. rewrite dcsc_outer_nth by (simpl; lia). reflexivity.
    - apply forallb_forall. intros c Hc. apply in_seq in Hc. apply Nat.leb_le.
      simpl c_cols in *. rewrite !dcsc_outer_nth by lia. rewrite dcsc_P_S. lia.
    - apply Nat.eqb_eq. simpl c_cols. rewrite dcsc_outer_nth by lia. rewrite dcsc_inner. reflexivity.
  Qed.

  Lemma dcsc_col_rows : forall c, c < cols -> csc_col_rows s' c = colf c.
  Proof.
    intros c Hc. unfold csc_col_rows. rewrite !dcsc_outer_nth by lia. rewrite dcsc_P_S, dcsc_inner.
    replace (P c + length (colf c) - P c) with (length (colf c)) by lia.
    replace cols with (c + S (cols - S c)) by lia.
    rewrite seq_app, flat_map_app. simpl. fold (P c).
    rewrite map_nth_seq.
    - unfold P. rewrite skipn_length_app, firstn_length_app. reflexivity.
    - rewrite !app_length. unfold P. lia.
  Qed.

  Lemma dcsc_expand : csc_expand s' = tagged colf (seq 0 cols).
  Proof.
    rewrite csc_expand_tagged. unfold tagged. simpl c_cols. apply flat_map_ext_in.
    intros c Hc. apply in_seq in Hc. rewrite dcsc_col_rows by lia. reflexivity.
  Qed.
End DenseCSC.

Section Preserve2.
  Context {T : Type} (zero : T).

  Lemma conv_dense_csc_preserves : forall d t ord to a v, conv_dense_csc d t ord = Ok (to, a) ->
    valid (SDense d) = true -> length v = nnz (SDense d) -> values_ok zero (SDense d) v -> preserves zero (SDense d) to a v.
  Proof.
    unfold conv_dense_csc. intros [rows cols sym] t ord to a v H Hv Hl Hvs. simpl in H, Hv, Hl. unfold valid_dense in Hv. simpl in Hv.
    assert (Hcore : forall a', (a' = match sym with Unsym => VCopy | _ => VPackUpper rows cols end) -> sym <> Lower ->
       let io := dense_csc_loop (dense_seg sym rows) (seq 0 cols) 0 in
       preserves zero (SDense (mkDense rows cols sym))
         (SCSC (mkCSC t rows cols sym (fst io) (snd io) CscSortedRows)) a' v).
    { intros a' Ea Hlow io.
      pose proof (dcsc_outer_ok (dense_seg sym rows) t rows cols sym CscSortedRows) as Hok.
      pose proof (dcsc_expand (dense_seg sym rows) t rows cols sym CscSortedRows) as Hex.
      pose proof (dcsc_inner (dense_seg sym rows) t rows cols sym CscSortedRows) as Hin.
      fold io in Hok, Hex, Hin. rewrite <- dense_entries_tagged in Hex.
      exists (match sym with Unsym => v | _ => pack_upper zero rows cols v end).
      split; [subst a'; destruct sym; try reflexivity; congruence|].
      split.
      { simpl. unfold valid_csc. rewrite Hok. simpl c_sym. simpl c_rows. simpl c_cols. rewrite Hv. simpl.
        rewrite Hex. apply dense_entries_keys_ok; auto. }
      split.
      { cbn [nnz c_inner] in *. rewrite Hin. rewrite dense_vals_length by auto.
        rewrite dense_entries_tagged. apply tagged_length. }
      simpl. repeat split; auto.
      intros i j Hi Hj. unfold sem_csc. simpl c_sym.
      destruct (tri_pick_bounds sym rows cols i j Hv Hi Hj) as [_ Hb].
      rewrite <- (dense_cells_sem zero sym rows cols v i j) by auto.
      destruct (tri_pick sym i j) as [pa pb] eqn:E. simpl fst; simpl snd. simpl in Hb.
      rewrite <- csc_expand_get by auto. rewrite Hex. reflexivity. }
    destruct sym.
    - inversion H; subst. apply (Hcore VCopy); auto; discriminate.
    - destruct (rows =? cols); inversion H; subst. apply (Hcore (VPackUpper rows cols)); auto; discriminate.
    - discriminate.
  Qed.
End Preserve2.

(* ------------------------------------------------------------------ assembled statements *)

Lemma tabulate_ext : forall T rows cols (f g : nat -> nat -> T),
  (forall i j, i < rows -> j < cols -> f i j = g i j) -> tabulate rows cols f = tabulate rows cols g.
Proof.
  intros. unfold tabulate. apply flat_map_ext_in. intros j Hj. apply in_seq in Hj.
  apply map_ext_in. intros i Hi. apply in_seq in Hi. apply H; lia.
Qed.

Lemma existsb_combine_fst : forall A B (P : A -> bool) (ks : list A) (v : list B), length v = length ks ->
  existsb (fun p => P (fst p)) (combine ks v) = existsb P ks.
Proof. induction ks; destruct v; simpl; intros; try discriminate; auto. rewrite IHks; auto. Qed.

Section Main.
  Context {T : Type} (zero : T).

  Theorem convert_preserves : forall from req to a (v : list T),
    convert from req = Ok (to, a) -> valid from = true -> length v = nnz from -> values_ok zero from v ->
    preserves zero from to a v.
  Proof.
    intros from req to a v H Hv Hl Hvs. destruct req, from; simpl in H.
    - apply conv_dense_dense_preserves; auto.
    - apply conv_csc_dense_preserves; auto.
    - apply conv_coo_dense_preserves; auto.
    - eapply conv_dense_csc_preserves; eauto.
    - eapply conv_csc_csc_preserves; eauto.
    - discriminate.
    - eapply conv_dense_coo_preserves; eauto.
    - eapply conv_csc_coo_preserves; eauto.
    - eapply conv_coo_coo_preserves; eauto.
  Qed.

  Theorem convert_dense_of : forall from req to a (v : list T),
    convert from req = Ok (to, a) -> valid from = true -> length v = nnz from -> values_ok zero from v ->
    exists w, convert_values zero a v = Ok w /\
              dense_of zero to w = dense_of zero from v /\ dense_of zero from v <> None.
  Proof.
    intros from req to a v H Hv Hl Hvs.
    destruct (convert_preserves from req to a v H Hv Hl Hvs) as [w [Hw [Hvt [Hlw [Hr [Hc [_ Hs]]]]]]].
    exists w. split; auto. unfold dense_of.
    rewrite Hv, Hvt, Hl, Hlw, !Nat.eqb_refl. simpl. rewrite Hr, Hc. split; [|discriminate].
    f_equal. f_equal. apply tabulate_ext. auto.
  Qed.

  (* -- rejections *)
  Theorem nonsquare_symmetric_rejected : forall from req,
    sym_of from <> Unsym -> rows_of from <> cols_of from ->
    (req = RDense \/ exists d, from = SDense d) ->
    convert from req = ThrowInvalidArgument.
  Proof.
    intros from req Hs Hne Hc.
    assert (Hsq : sym_square_ok (sym_of from) (rows_of from) (cols_of from) = false).
    { destruct (sym_of from); simpl; try congruence; apply Nat.eqb_neq; auto. }
    destruct Hc as [E|[d E]]; subst.
    - destruct from; simpl in *; unfold conv_dense_dense, conv_csc_dense, conv_coo_dense; rewrite Hsq; auto.
    - simpl in *. destruct req; simpl; unfold conv_dense_dense, conv_dense_csc, conv_dense_coo.
      + rewrite Hsq; auto.
      + destruct (d_sym d); try congruence; auto. simpl in Hsq. rewrite Hsq. auto.
      + destruct (d_sym d); try congruence; auto. simpl in Hsq. rewrite Hsq. auto.
  Qed.

  Theorem lower_dense_rejected : forall d req, d_sym d = Lower -> req <> RDense ->
    convert (SDense d) req = ThrowInvalidArgument.
  Proof.
    intros d req Hs Hr. destruct req; try congruence; simpl; unfold conv_dense_csc, conv_dense_coo; rewrite Hs; auto.
  Qed.

  Theorem wrong_triangle_rejected_coo : forall o (v : list T),
    sym_square_ok (o_sym o) (o_rows o) (o_cols o) = true -> length (o_row o) = length (o_col o) ->
    length v = nnz (SCOO o) ->
    existsb (fun k => negb (in_tri (o_sym o) (fst k) (snd k))) (coo_keys o) = true ->
    exists to a, convert (SCOO o) RDense = Ok (to, a) /\ convert_values zero a v = ThrowInvalidArgument.
  Proof.
    intros o v Hsq Hlen Hl Hex. simpl. unfold conv_coo_dense. rewrite Hsq.
    eexists; eexists; split; [reflexivity|]. simpl.
    apply scatter_loop_throw.
    rewrite (existsb_combine_fst _ _ (fun k => negb (in_tri (o_sym o) (fst k) (snd k)))); auto.
    simpl in Hl. rewrite coo_keys_length; auto.
  Qed.

  Theorem wrong_triangle_rejected_csc : forall s (v : list T),
    sym_square_ok (c_sym s) (c_rows s) (c_cols s) = true -> outer_ok s = true ->
    length v = nnz (SCSC s) ->
    existsb (fun k => negb (in_tri (c_sym s) (Z.of_nat (fst k)) (Z.of_nat (snd k)))) (csc_expand s) = true ->
    exists to a, convert (SCSC s) RDense = Ok (to, a) /\ convert_values zero a v = ThrowInvalidArgument.
  Proof.
    intros s v Hsq Hok Hl Hex. simpl. unfold conv_csc_dense. rewrite Hsq.
    eexists; eexists; split; [reflexivity|]. simpl.
    apply scatter_loop_throw.
    rewrite (existsb_combine_fst _ _ (fun k => negb (in_tri (c_sym s) (fst k) (snd k)))).
    - rewrite existsb_exists in *. destruct Hex as [k [Hk Hn]]. exists (zkey k). split; auto.
      apply in_map; auto.
    - rewrite map_length, csc_expand_length; auto.
  Qed.

  Theorem unsupported_rejected : forall from t ord,
    (exists o, from = SCOO o) \/ (exists s, from = SCSC s /\ c_order s = CscUnsorted /\ ord = Some CscSortedRows) ->
    convert from (RCSC t ord) = ThrowRuntimeError.
  Proof.
    intros from t ord [[o E]|[s [E [Ho Er]]]]; subst; simpl; auto.
    unfold conv_csc_csc. rewrite Ho. reflexivity.
  Qed.

  (* -- requests honoured *)
  Theorem first_index_honoured : forall from t f to a, convert from (RCOO t f) = Ok (to, a) ->
    exists o', to = SCOO o' /\ o_ity o' = t /\
      o_first o' = match f with Some x => x | None => match from with SCOO o => o_first o | _ => 0%Z end end.
  Proof.
    intros from t f to a H. destruct from; simpl in H.
    - unfold conv_dense_coo in H. destruct (d_sym d); try discriminate.
      + inversion H; subst. eexists; split; [reflexivity|]. simpl. destruct f; auto.
      + destruct (_ =? _); inversion H; subst. eexists; split; [reflexivity|]. simpl. destruct f; auto.
    - unfold conv_csc_coo in H. inversion H; subst. eexists; split; [reflexivity|]. simpl. destruct f; auto.
    - apply conv_coo_coo_same in H as [_ [o' [E [_ [_ [_ [_ [_ [_ [_ [Hi Hf]]]]]]]]]]]. exists o'. auto.
  Qed.

  Theorem order_request_honoured : forall from t to a, convert from (RCSC t (Some CscSortedRows)) = Ok (to, a) ->
    exists s', to = SCSC s' /\ c_ity s' = t /\ c_order s' = CscSortedRows.
  Proof.
    intros from t to a H. destruct from; simpl in H.
    - unfold conv_dense_csc in H. destruct (d_sym d); try discriminate.
      + inversion H; subst. eexists; split; [reflexivity|]. auto.
      + destruct (_ =? _); inversion H; subst. eexists; split; [reflexivity|]. auto.
    - apply conv_csc_csc_same in H as [_ [s' [E [_ [_ [_ [_ [_ [Hi [Ho _]]]]]]]]]]. exists s'. auto.
    - discriminate.
  Qed.

  (* -- sparse -> sparse conversions forward the pattern verbatim: what is ill formed stays ill formed,
        no matrix is invented (they do not examine triangle / squareness at all) *)
  Theorem sparse_to_sparse_forwards : forall from req to a,
    convert from req = Ok (to, a) -> req <> RDense -> (forall d, from <> SDense d) ->
    (forall s, from = SCSC s -> outer_ok s = true) ->
    a = VCopy /\ valid to = valid from /\ rows_of to = rows_of from /\ cols_of to = cols_of from /\
    sym_of to = sym_of from /\ nnz to = nnz from.
  Proof.
    intros from req to a H Hr Hd Hok. destruct req; try congruence; destruct from; simpl in H;
      try (exfalso; eapply Hd; reflexivity); try discriminate.
    - apply conv_csc_csc_same in H as [Ea [s' [Et [Hrw [Hc [Hs [Hi [Ho _]]]]]]]]. subst.
      simpl. rewrite (valid_csc_ext s s'), Hi; auto. repeat split; auto.
    - specialize (Hok s eq_refl). unfold conv_csc_coo in H. inversion H; subst; clear H. simpl.
      unfold valid_coo, valid_csc; simpl. rewrite !map_length, Nat.eqb_refl, Hok. simpl.
      unfold coo_keys; simpl. rewrite coo_keys_shift, csc_expand_length; auto. repeat split; auto.
    - apply conv_coo_coo_same in H as [Ea [o' [Et [Hrw [Hc [Hs [Hk [Hlr [Hlc _]]]]]]]]]. subst. simpl.
      unfold valid_coo. rewrite Hlr, Hlc, Hrw, Hc, Hs, Hk. repeat split; auto.
  Qed.
End Main.

(* ------------------------------------------------------------------ truthfulness of the order tag *)

Lemma pairwise_app : forall K (le : K -> K -> bool) a b,
  pairwise le (a ++ b) = pairwise le a && pairwise le b && forallb (fun x => forallb (le x) b) a.
Proof.
  induction a; intros; simpl.
  - rewrite andb_true_r. reflexivity.
  - rewrite forallb_app, IHa.
    destruct (forallb (le a) a0), (forallb (le a) b), (pairwise le a0), (pairwise le b); simpl; auto.
Qed.

Lemma forallb_map' : forall A B (f : A -> B) (P : B -> bool) l, forallb P (map f l) = forallb (fun x => P (f x)) l.
Proof. induction l; simpl; auto. rewrite IHl; auto. Qed.

Lemma pairwise_map : forall K K' (f : K -> K') (le : K' -> K' -> bool) l,
  pairwise le (map f l) = pairwise (fun x y => le (f x) (f y)) l.
Proof. induction l; simpl; auto. rewrite IHl, forallb_map'. reflexivity. Qed.

Lemma pairwise_impl : forall K (le1 le2 : K -> K -> bool) l,
  (forall x y, le1 x y = true -> le2 x y = true) -> pairwise le1 l = true -> pairwise le2 l = true.
Proof.
  induction l; simpl; intros; auto. apply andb_true_iff in H0 as [H1 H2]. apply andb_true_iff. split; auto.
  rewrite forallb_forall in *. auto.
Qed.

Lemma combine_map_both : forall A B C (f : A -> B) (g : A -> C) l,
  combine (map f l) (map g l) = map (fun k => (f k, g k)) l.
Proof. induction l; simpl; auto. f_equal; auto. Qed.

Lemma combine_map_pair : forall A B (f : A -> B) a b,
  combine (map f a) (map f b) = map (fun p => (f (fst p), f (snd p))) (combine a b).
Proof. induction a; destruct b; simpl; auto. f_equal; auto. Qed.

Lemma pairwise_leb_seq : forall n a, pairwise Nat.leb (seq a n) = true.
Proof.
  induction n; intros; simpl; auto. rewrite IHn, andb_true_r. apply forallb_forall.
  intros x Hx. apply in_seq in Hx. apply Nat.leb_le. lia.
Qed.

Lemma pairwise_ltb_seq : forall n a, pairwise Nat.ltb (seq a n) = true.
Proof.
  induction n; intros; simpl; auto. rewrite IHn, andb_true_r. apply forallb_forall.
  intros x Hx. apply in_seq in Hx. apply Nat.ltb_lt. lia.
Qed.

Definition zshift (Δ : Z) (k : nat * nat) : Z * Z := (Z.of_nat (fst k) + Δ, Z.of_nat (snd k) + Δ)%Z.

Ltac zb := unfold le_cols_rows, le_cols, le_rows_cols, le_rows, zshift in *; simpl in *;
           rewrite ?orb_true_iff, ?andb_true_iff, ?Z.ltb_lt, ?Z.leb_le, ?Z.eqb_eq, ?Nat.leb_le, ?Nat.ltb_lt in *.

(* columns strictly increasing, optionally rows non-decreasing inside each column *)
Lemma pairwise_tagged : forall Δ seg cs (rows_sorted : bool),
  pairwise Nat.ltb cs = true ->
  (rows_sorted = true -> forall c, In c cs -> pairwise Nat.leb (seg c) = true) ->
  pairwise (if rows_sorted then le_cols_rows else le_cols) (map (zshift Δ) (tagged seg cs)) = true.
Proof.
  intros Δ seg cs rs. induction cs; intros Hcs Hseg; simpl; auto.
  simpl in Hcs. apply andb_true_iff in Hcs as [Hlt Hcs].
  rewrite map_app, pairwise_app, !andb_true_iff. repeat split.
  - rewrite map_map, pairwise_map. destruct rs.
    + eapply pairwise_impl; [|apply Hseg; simpl; auto]. intros x y H. zb. lia.
    + clear. induction (seg a); simpl; auto. rewrite IHl, andb_true_r. apply forallb_forall. intros. zb. lia.
  - apply IHcs; auto. intros; apply Hseg; simpl; auto.
  - apply forallb_forall. intros x Hx. apply forallb_forall. intros y Hy.
    apply in_map_iff in Hx as [[r c] [Ex Hx]]. apply in_map_iff in Hx as [r0 [E0 _]]. inversion E0; subst.
    apply in_map_iff in Hy as [[r' c'] [Ey Hy]]. apply in_tagged in Hy as [Hc' _]. subst.
    rewrite forallb_forall in Hlt. apply Hlt in Hc'. destruct rs; zb; lia.
Qed.

Lemma coo_order_true_tagged : forall t rows cols sym Δ seg f (rows_sorted : bool),
  (rows_sorted = true -> forall c, c < cols -> pairwise Nat.leb (seg c) = true) ->
  coo_order_true (mkCOO t rows cols sym
     (map (fun k => (Z.of_nat (fst k) + Δ)%Z) (tagged seg (seq 0 cols)))
     (map (fun k => (Z.of_nat (snd k) + Δ)%Z) (tagged seg (seq 0 cols)))
     (if rows_sorted then CooSortedByColsAndRows else CooSortedByColsOnly) f) = true.
Proof.
  intros. unfold coo_order_true. simpl.
  rewrite combine_map_both. change (fun k : nat * nat => ((Z.of_nat (fst k) + Δ)%Z, (Z.of_nat (snd k) + Δ)%Z)) with (zshift Δ).
  pose proof (pairwise_tagged Δ seg (seq 0 cols) rows_sorted (pairwise_ltb_seq _ _)) as P.
  destruct rows_sorted; apply P; intros; try discriminate. apply H; auto. apply in_seq in H1. lia.
Qed.

Lemma coo_order_true_shift : forall t t' rows cols sym row col ord f f' Δ,
  coo_order_true (mkCOO t' rows cols sym row col ord f') = true ->
  coo_order_true (mkCOO t rows cols sym (map (fun i => (i + Δ)%Z) row) (map (fun i => (i + Δ)%Z) col) ord f) = true.
Proof.
  unfold coo_order_true; simpl. intros. rewrite combine_map_pair.
  destruct ord; auto; rewrite pairwise_map; (eapply pairwise_impl; [|exact H]); intros x y Hxy; zb; lia.
Qed.

Lemma csc_order_true_ext : forall s s', c_cols s' = c_cols s -> c_inner s' = c_inner s -> c_outer s' = c_outer s ->
  (c_order s' = c_order s \/ (c_order s = CscSortedRows /\ c_order s' = CscSortedRows)) ->
  csc_order_true s = true -> csc_order_true s' = true.
Proof.
  intros [] []; simpl; intros; subst. unfold csc_order_true in *; simpl in *.
  destruct H2 as [E|[E1 E2]]; subst; auto.
Qed.

Theorem order_tag_truthful : forall from req to a,
  convert from req = Ok (to, a) -> (forall s, from = SCSC s -> outer_ok s = true) ->
  order_true from = true -> order_true to = true.
Proof.
  intros from req to a H Hok Ht. destruct req, from; simpl in H.
  - unfold conv_dense_dense in H. destruct (sym_square_ok _ _ _); inversion H; auto.
  - unfold conv_csc_dense in H. destruct (sym_square_ok _ _ _); inversion H; auto.
  - unfold conv_coo_dense in H. destruct (sym_square_ok _ _ _); inversion H; auto.
  - (* Dense -> CSC *)
    unfold conv_dense_csc in H. destruct d as [rows cols sym]. simpl in H.
    assert (Hcore : order_true (SCSC (mkCSC t rows cols sym
                      (fst (dense_csc_loop (dense_seg sym rows) (seq 0 cols) 0))
                      (snd (dense_csc_loop (dense_seg sym rows) (seq 0 cols) 0)) CscSortedRows)) = true).
    { simpl. unfold csc_order_true. cbn [c_order c_cols]. apply forallb_forall. intros c Hc. apply in_seq in Hc.
      rewrite dcsc_col_rows by lia. unfold dense_seg. apply pairwise_leb_seq. }
    destruct sym; try discriminate.
    + inversion H; subst. exact Hcore.
    + destruct (rows =? cols); inversion H; subst. exact Hcore.
  - apply conv_csc_csc_same in H as [_ [s' [E [_ [Hc [_ [Hi [Ho [_ [_ Hord]]]]]]]]]]. subst. simpl in *.
    eapply csc_order_true_ext; eauto.
  - discriminate.
  - (* Dense -> COO *)
    unfold conv_dense_coo in H. destruct d as [rows cols sym]. simpl in H.
    pose proof (coo_order_true_tagged t rows cols sym (req_delta first_index) (dense_seg sym rows) (req_delta first_index) true) as P.
    simpl in P. rewrite <- dense_entries_tagged in P.
    destruct sym; try discriminate.
    + inversion H; subst. apply P. intros. apply pairwise_leb_seq.
    + destruct (rows =? cols); inversion H; subst. apply P. intros. apply pairwise_leb_seq.
  - (* CSC -> COO *)
    unfold conv_csc_coo in H. inversion H; subst; clear H. simpl in *.
    rewrite csc_expand_tagged. unfold csc_order_true in Ht.
    destruct (c_order s).
    + apply (coo_order_true_tagged t _ _ _ _ _ _ false). discriminate.
    + apply (coo_order_true_tagged t _ _ _ _ _ _ true). intros _ c Hc.
      rewrite forallb_forall in Ht. apply Ht. apply in_seq. lia.
  - (* COO -> COO *)
    unfold conv_coo_coo in H. destruct (_ && _); inversion H; subst; clear H; auto.
    simpl in *. destruct o; simpl in *. eapply coo_order_true_shift; eauto.
Qed.

(* ------------------------------------------------------------------ a symmetric Dense result stores ALL elements *)

Lemma tri_pick_swap : forall sym i j, sym <> Unsym -> tri_pick sym i j = tri_pick sym j i.
Proof.
  intros. destruct sym; try congruence; simpl.
  - destruct (i <=? j) eqn:E1, (j <=? i) eqn:E2; auto.
    + apply Nat.leb_le in E1, E2. assert (i = j) by lia. subst; auto.
    + apply Nat.leb_gt in E1, E2. lia.
  - destruct (i <=? j) eqn:E1, (j <=? i) eqn:E2; auto.
    + apply Nat.leb_le in E1, E2. assert (i = j) by lia. subst; auto.
    + apply Nat.leb_gt in E1, E2. lia.
Qed.

Lemma sem_sparse_symmetric : forall T (zero : T) from (v : list T) i j,
  (forall d, from <> SDense d) -> sym_of from <> Unsym -> sem zero from v i j = sem zero from v j i.
Proof.
  intros T zero from v i j Hd Hs. destruct from; simpl in *.
  - exfalso. eapply Hd; reflexivity.
  - unfold sem_csc. rewrite (tri_pick_swap _ i j); auto.
  - unfold sem_coo. rewrite (tri_pick_swap _ i j); auto.
Qed.

Theorem dense_result_stores_all_elements : forall T (zero : T) from to a (v : list T),
  convert from RDense = Ok (to, a) -> valid from = true -> length v = nnz from -> values_ok zero from v ->
  exists w, convert_values zero a v = Ok w /\ values_ok zero to w.
Proof.
  intros T zero from to a v H Hv Hl Hvs.
  destruct (convert_preserves zero from RDense to a v H Hv Hl Hvs) as [w [Hw [Hvt [Hlw [Hr [Hc [Hsy Hs]]]]]]].
  exists w. split; auto.
  assert (Hsq : sym_of from <> Unsym -> rows_of from = cols_of from).
  { intros Hns. destruct from; simpl in *;
      [unfold valid_dense in Hv | unfold valid_csc in Hv | unfold valid_coo in Hv];
      repeat (apply andb_true_iff in Hv; destruct Hv as [Hv ?]);
      match goal with Hq : sym_square_ok ?s _ _ = true |- _ => destruct s; simpl in Hq; try congruence; apply Nat.eqb_eq in Hq; auto end. }
  destruct from as [d|s|o]; simpl in H.
  - unfold conv_dense_dense in H. destruct (sym_square_ok _ _ _); inversion H; subst. simpl in Hw. inversion Hw; subst. auto.
  - unfold conv_csc_dense in H. destruct (sym_square_ok _ _ _); inversion H; subst. simpl in *.
    intros Hns i j Hi Hj. specialize (Hsq Hns).
    pose proof (Hs i j Hi Hj) as E1. pose proof (Hs j i) as E2. unfold sem_dense in *. simpl in *.
    rewrite E1, E2 by lia. apply (sem_sparse_symmetric _ zero (SCSC s)); auto. intros d E; discriminate.
  - unfold conv_coo_dense in H. destruct (sym_square_ok _ _ _); inversion H; subst. simpl in *.
    intros Hns i j Hi Hj. specialize (Hsq Hns).
    pose proof (Hs i j Hi Hj) as E1. pose proof (Hs j i) as E2. unfold sem_dense in *. simpl in *.
    rewrite E1, E2 by lia. apply (sem_sparse_symmetric _ zero (SCOO o)); auto. intros d E; discriminate.
Qed.
