(* StopPromptZfpr.v — C19 on the WHOLE-LOOP ZeroFPR model (ZeroFpr.v): promptness of stop() for a STICKY request.
   Same statements as StopPrompt.v (PANOC), same proof structure; for every number system T, every oracle, every parameter set.
   ZeroFPR polls the flag like PANOC: once per stop check at the top of `while (true)` (after eval_grad_in_prox + the prox step of
   the prox iterate: ONE eval_grad_L per pass, unconditionally) and once per test of the line-search `while`.
   Constants: one line-search pass <= 2 oracle calls (ψ,∇ψ at the candidate; ψ(x̂)); after a poll that sees the request:
   <= 1 further poll, <= 1 oracle call (the eval_grad_L of the next pass' stop check), no direction call, *curr untouched. *)
From Coq Require Import List ZArith Bool Arith Lia.
From Alpaqa Require Import Num Vec Prox SolverStatus SolverKernels StopChain StopChainProofs Panoc ZeroFpr StopPrompt.
Import ListNotations.

Section PromptZ.
  Context {T : Type} `{Num T}.
  Local Open Scope num_scope.

  Variable psi_grad_full : list T -> T * list T * list T.
  Variable psi_yhat : list T -> T * list T.
  Variable grad_L : list T -> list T -> list T.
  Variable grad_psi : list T -> list T.
  Variables (lb ub : list (option T)) (l1 : list T).
  Variable dir_apply : nat -> iterate (T:=T) -> proxit (T:=T) -> option (list T).
  Variable has_initial : bool.
  Variable stop_req : counters -> bool.
  Variable time_up : counters -> bool.
  Variable P : params (T:=T).
  Variables (x_in y_in Σ errz_in : list T).
  Variable ls_fuel : nat.

  Notation it := (iterate (T:=T)).
  Notation px := (proxit (T:=T)).
  Notation lsst := (ZeroFpr.ls_state (T:=T)).
  Notation eprox := (eval_prox lb ub l1).
  Notation ecost := (eval_cost psi_yhat).
  Notation proxof := (eval_prox_it grad_L lb ub l1).
  Notation lsloop := (ZeroFpr.ls_loop psi_grad_full psi_yhat lb ub l1 stop_req P).
  Notation pass_ := (ZeroFpr.pass psi_grad_full psi_yhat grad_L lb ub l1 dir_apply has_initial stop_req time_up P x_in y_in Σ errz_in ls_fuel).
  Notation loop_ := (ZeroFpr.loop psi_grad_full psi_yhat grad_L lb ub l1 dir_apply has_initial stop_req time_up P x_in y_in Σ errz_in ls_fuel).
  Notation zerofpr_ := (zerofpr psi_grad_full psi_yhat grad_L grad_psi lb ub l1 dir_apply has_initial stop_req time_up P x_in y_in Σ errz_in ls_fuel).
  Notation initL := (init_L psi_grad_full grad_psi P x_in).
  Notation initqub := (ZeroFpr.init_qub psi_yhat lb ub l1 P).

  (* ------------------------------------------------------------------ the line search, one pass at a time *)
  Definition zls_pass (curr : it) (prox : px) (q : list T) (tau_init : T) (s : lsst) : lsst + lsst :=
    let c0 := inc_polls (ZeroFpr.ls_cnt s) in
    let τ := ZeroFpr.ls_tau s in
    let '(next, c1) :=
      if τ =? ZeroFpr.ls_tau_prev s then (ZeroFpr.ls_next s, c0)
      else if τ =? n0 then (ZeroFpr.take_safe_step curr prox (ZeroFpr.ls_next s), c0)
      else (ZeroFpr.take_accel_step psi_grad_full τ q curr (ZeroFpr.ls_next s), inc_pg c0) in
    let τ_prev := τ in
    let fail := negb (nfinite (ipsi next)) || ((p_Lmax P <=? iL next) && negb (p_Lmax P <=? iL curr)) in
    if (n0 <? τ) && fail then
      inl (ZeroFpr.mkLs (set_gamma_L next (igam curr) (iL curr)) n0 τ_prev false (ZeroFpr.ls_updated s) c1 (ZeroFpr.ls_stats s))
    else
      let next1 := ecost (eprox next) in
      let c2 := inc_py c1 in
      if (iL next1 <? p_Lmax P) && it_qub_violated P next1 then
        inl (ZeroFpr.mkLs (halve_it next1) (if n0 <? τ then tau_init else τ) τ_prev false (ZeroFpr.ls_updated s) c2
                          (inc_sbt (ZeroFpr.ls_stats s)))
      else
        let do_upd := ZeroFpr.ls_upd s && negb (ZeroFpr.ls_updated s) in
        let c3 := if do_upd then inc_dir c2 else c2 in
        let upd := if do_upd then false else ZeroFpr.ls_upd s in
        let updated := if do_upd then true else ZeroFpr.ls_updated s in
        if (n0 <? τ) && it_ls_violated P curr next1 then
          let τ1 := τ / n2 in
          let τ2 := if τ1 <? p_tau_min P then n0 else τ1 in
          inl (ZeroFpr.mkLs next1 τ2 τ_prev upd updated c3 (inc_lbt (ZeroFpr.ls_stats s)))
        else inr (ZeroFpr.mkLs next1 τ τ_prev upd updated c3 (ZeroFpr.ls_stats s)).

  Definition zls_stopped_at (s : lsst) : lsst :=
    ZeroFpr.mkLs (ZeroFpr.ls_next s) (ZeroFpr.ls_tau s) (ZeroFpr.ls_tau_prev s) (ZeroFpr.ls_upd s) (ZeroFpr.ls_updated s)
                 (inc_polls (ZeroFpr.ls_cnt s)) (ZeroFpr.ls_stats s).

  Lemma zls_loop_unfold fuel curr prox q τi s :
    lsloop (S fuel) curr prox q τi s =
      if stop_req (ZeroFpr.ls_cnt s) then ZeroFpr.LsStopped (zls_stopped_at s)
      else match zls_pass curr prox q τi s with inl s1 => lsloop fuel curr prox q τi s1 | inr s2 => ZeroFpr.LsDone s2 end.
  Proof.
    cbn [ZeroFpr.ls_loop]. unfold zls_pass, zls_stopped_at. destruct (stop_req (ZeroFpr.ls_cnt s)); [reflexivity|].
    set (ph := if ZeroFpr.ls_tau s =? ZeroFpr.ls_tau_prev s then (ZeroFpr.ls_next s, inc_polls (ZeroFpr.ls_cnt s))
               else if ZeroFpr.ls_tau s =? n0 then (ZeroFpr.take_safe_step curr prox (ZeroFpr.ls_next s), inc_polls (ZeroFpr.ls_cnt s))
               else (ZeroFpr.take_accel_step psi_grad_full (ZeroFpr.ls_tau s) q curr (ZeroFpr.ls_next s), inc_pg (inc_polls (ZeroFpr.ls_cnt s)))).
    destruct ph as [next c1].
    repeat match goal with |- context [if ?b then _ else _] => destruct b end; reflexivity.
  Qed.

  (* (a) a line-search test that sees the request: LsStopped at once, nothing evaluated, nothing changed *)
  Lemma zls_stops_now fuel curr prox q τi s : stop_req (ZeroFpr.ls_cnt s) = true ->
    lsloop (S fuel) curr prox q τi s = ZeroFpr.LsStopped (zls_stopped_at s).
  Proof. intros E. rewrite zls_loop_unfold, E. reflexivity. Qed.

  Definition zls_res_state (r : lsst + lsst) : lsst := match r with inl s => s | inr s => s end.

  (* (a) the cost of ONE pass of the line-search loop: one poll, <= 2 oracle calls, <= 1 direction call (update), no callback *)
  Lemma zls_pass_adv curr prox q τi s :
    adv (ZeroFpr.ls_cnt s) (ZeroFpr.ls_cnt (zls_res_state (zls_pass curr prox q τi s))) 1 2 1 0 0 /\
    c_polls (ZeroFpr.ls_cnt (zls_res_state (zls_pass curr prox q τi s))) = S (c_polls (ZeroFpr.ls_cnt s)).
  Proof.
    unfold zls_pass. cbv zeta.
    set (ph := if ZeroFpr.ls_tau s =? ZeroFpr.ls_tau_prev s then (ZeroFpr.ls_next s, inc_polls (ZeroFpr.ls_cnt s))
               else if ZeroFpr.ls_tau s =? n0 then (ZeroFpr.take_safe_step curr prox (ZeroFpr.ls_next s), inc_polls (ZeroFpr.ls_cnt s))
               else (ZeroFpr.take_accel_step psi_grad_full (ZeroFpr.ls_tau s) q curr (ZeroFpr.ls_next s), inc_pg (inc_polls (ZeroFpr.ls_cnt s)))).
    assert (F : adv (inc_polls (ZeroFpr.ls_cnt s)) (snd ph) 0 1 0 0 0 /\ c_polls (snd ph) = S (c_polls (ZeroFpr.ls_cnt s))).
    { subst ph. destruct (ZeroFpr.ls_tau s =? ZeroFpr.ls_tau_prev s); [cbn [snd]; cnt_solve|].
      destruct (ZeroFpr.ls_tau s =? n0); cbn [snd]; cnt_solve. }
    destruct ph as [next c1]. cbn [snd] in F. destruct F as [F1 F2].
    repeat match goal with |- context [if ?b then _ else _] => destruct b end; cbn [zls_res_state ZeroFpr.ls_cnt]; cnt_solve.
  Qed.

  Inductive zls_reach (curr : it) (prox : px) (q : list T) (τi : T) : lsst -> lsst -> Prop :=
  | zlr_refl s : zls_reach curr prox q τi s s
  | zlr_step s s1 s2 : stop_req (ZeroFpr.ls_cnt s) = false -> zls_pass curr prox q τi s = inl s1 ->
      zls_reach curr prox q τi s1 s2 -> zls_reach curr prox q τi s s2.

  Lemma zls_reach_le curr prox q τi s s' : zls_reach curr prox q τi s s' -> cnt_le (ZeroFpr.ls_cnt s) (ZeroFpr.ls_cnt s').
  Proof.
    induction 1 as [s|s s1 s2 _ Ep _ IH]; [apply cnt_le_refl|].
    destruct (zls_pass_adv curr prox q τi s) as [A _]. rewrite Ep in A. cbn [zls_res_state] in A.
    eapply cnt_le_trans; [exact (adv_le _ _ _ _ _ _ _ A)|exact IH].
  Qed.

  Lemma zls_reach_stops curr prox q τi s l : zls_reach curr prox q τi s l -> stop_req (ZeroFpr.ls_cnt l) = true ->
    forall fuel, lsloop fuel curr prox q τi s = ZeroFpr.LsFuel \/ lsloop fuel curr prox q τi s = ZeroFpr.LsStopped (zls_stopped_at l).
  Proof.
    induction 1 as [s|s s1 s2 Es Ep _ IH]; intros El [|fuel]; try (left; reflexivity).
    - right. now apply zls_stops_now.
    - rewrite zls_loop_unfold, Es, Ep. apply IH, El.
  Qed.

  Lemma zls_stopped_inv curr prox q τi : forall fuel s l, lsloop fuel curr prox q τi s = ZeroFpr.LsStopped l ->
    exists lp, zls_reach curr prox q τi s lp /\ stop_req (ZeroFpr.ls_cnt lp) = true /\ l = zls_stopped_at lp.
  Proof.
    induction fuel as [|fuel IH]; intros s l; [discriminate|]. rewrite zls_loop_unfold.
    destruct (stop_req (ZeroFpr.ls_cnt s)) eqn:Es.
    - intros E. inversion E. exists s. split; [constructor|split; [exact Es|reflexivity]].
    - destruct (zls_pass curr prox q τi s) as [s1|s2] eqn:Ep; [|discriminate]. intros E.
      destruct (IH _ _ E) as (lp & A & B & C). exists lp. split; [econstructor; eassumption|split; assumption].
  Qed.

  (* ------------------------------------------------------------------ one pass of `while (true)`, in pieces *)
  Notation lstT := (lstate (T:=T)).
  Definition ztop_cnt (s : lstT) : counters := inc_gl (st_cnt s).
  Definition ztop_prox (s : lstT) : px := proxof (st_curr s).
  Definition ztop_eps (s : lstT) : T := zit_eps lb ub l1 P (st_curr s) (ztop_prox s).
  Definition ztop_status (s : lstT) : status :=
    stop_status_helpers (o_tol P) (ztop_eps s) (time_up (ztop_cnt s)) (st_k s) (Panoc.p_max_iter P) (st_np s)
                        (p_max_no_progress P) (stop_req (ztop_cnt s)).
  Definition zpass_exit (s : lstT) (st : status) : outputs (T:=T) :=
    let curr := st_curr s in
    let prox := ztop_prox s in
    let ε := ztop_eps s in
    let k := st_k s in
    let c1 := inc_polls (ztop_cnt s) in
    let rec := mkCb k (with_gradh curr (px_grad prox)) [] (- n1) ε st in
    let c2 := inc_cb c1 in
    let '(xo, yo, eo) := exit_block st (o_always P) x_in y_in errz_in (ixh curr) (iyh curr) Σ in
    mkOut st k ε xo yo eo curr (st_stats s) (rev (rec :: st_log s)) c2.
  Definition zpass_setup (s : lstT) : list T * T * lsst :=
    let curr := st_curr s in
    let prox := ztop_prox s in
    let k := st_k s in
    let c1 := inc_polls (ztop_cnt s) in
    let c2 := if (k =? 0)%nat then inc_dir c1 else c1 in
    let use_dir := (0 <? k)%nat || has_initial in
    let r := if use_dir then dir_apply (c_apply c2) curr prox else None in
    let c3 := if use_dir then inc_apply c2 else c2 in
    let q := match r with Some q' => q' | None => st_q s end in
    let tau_init := match r with Some q' => if vall_finite q' then n1 else n0 | None => n0 end in
    let stats1 := if use_dir && negb (tau_init =? n1) then inc_dfail (st_stats s) else st_stats s in
    (q, tau_init, ZeroFpr.mkLs (set_gamma_L (st_next s) (igam curr) (iL curr)) tau_init (- n1) (p_upd_in_cand P) false c3 stats1).
  Definition zpass_stopped (s : lstT) (q : list T) (l : lsst) : lstT :=
    mkSt (st_curr s) (ZeroFpr.ls_next l) (st_k s) (st_np s) q (ZeroFpr.ls_cnt l) (ZeroFpr.ls_stats l) (st_log s).
  Definition zpass_finish (s : lstT) (q : list T) (tau_init : T) (l : lsst) : lstT :=
    let curr := st_curr s in
    let prox := ztop_prox s in
    let ε := ztop_eps s in
    let k := st_k s in
    let next := ZeroFpr.ls_next l in let τ := ZeroFpr.ls_tau l in
    let z := ZeroFpr.ls_stats l in
    let stats2 := mkStats (s_stepsize_bt z) (s_ls_bt z)
                          (s_ls_fail z + b2n ((τ =? n0) && (n0 <? tau_init)))
                          (s_dir_fail z)
                          (s_tau1 z + b2n (τ =? n1))
                          (s_count_tau z + b2n (n0 <? tau_init))
                          (s_sum_tau z + τ) in
    let np := match no_progress_update (st_np s) k (p_max_no_progress P) (veqb (ix curr) (ix next)) with
              | Some v => v | None => st_np s end in
    let curr2 := if negb (ZeroFpr.ls_updated l) && negb (igam curr =? igam next) && p_recompute P
                 then set_gamma_L curr (igam next) (iL next) else curr in
    let c4 := if ZeroFpr.ls_updated l then ZeroFpr.ls_cnt l else inc_dir (ZeroFpr.ls_cnt l) in
    let rec := mkCb k (with_gradh curr2 (px_grad prox)) q τ ε StBusy in
    mkSt next curr2 (S k) np q (inc_cb c4) stats2 (rec :: st_log s).

  Lemma zpass_eq (s : lstT) :
    pass_ s = match ztop_status s with
              | StBusy => let '(q, τi, ls0) := zpass_setup s in
                          match lsloop ls_fuel (st_curr s) (ztop_prox s) q τi ls0 with
                          | ZeroFpr.LsFuel => ZeroFpr.PFuel
                          | ZeroFpr.LsStopped l => ZeroFpr.PCont (zpass_stopped s q l)
                          | ZeroFpr.LsDone l => ZeroFpr.PCont (zpass_finish s q τi l)
                          end
              | st => ZeroFpr.PExit (zpass_exit s st)
              end.
  Proof.
    unfold ZeroFpr.pass, ztop_status, zpass_exit, zpass_setup, zpass_stopped, zpass_finish, ztop_eps, ztop_prox, ztop_cnt. cbv zeta.
    match goal with |- context [stop_status_helpers ?a ?b ?c ?d ?e ?f ?g ?h] => destruct (stop_status_helpers a b c d e f g h) end;
      try reflexivity;
      match goal with |- context [exit_block ?a ?b ?c ?d ?e ?f ?g ?h] => destruct (exit_block a b c d e f g h) as [[xo yo] eo] end; reflexivity.
  Qed.

  (* every stop check is preceded by ONE eval_grad_L (eval_grad_in_prox) *)
  Lemma ztop_adv s : adv (st_cnt s) (ztop_cnt s) 0 1 0 0 0.
  Proof. unfold ztop_cnt. cnt_solve. Qed.
  Lemma zsetup_adv s : adv (ztop_cnt s) (ZeroFpr.ls_cnt (snd (zpass_setup s))) 1 0 2 1 0.
  Proof.
    unfold zpass_setup. cbv zeta. cbn [snd ZeroFpr.ls_cnt].
    destruct (st_k s =? 0)%nat; destruct ((0 <? st_k s)%nat || has_initial); cnt_solve.
  Qed.
  Lemma zfinish_adv s q τi l : adv (ZeroFpr.ls_cnt l) (st_cnt (zpass_finish s q τi l)) 0 0 1 0 1.
  Proof. unfold zpass_finish. cbv zeta. cbn [st_cnt]. destruct (ZeroFpr.ls_updated l); cnt_solve. Qed.

  Lemma zpass_exit_facts s st :
    let o := zpass_exit s st in
    out_status o = st /\ out_iterations o = st_k s /\ out_eps o = ztop_eps s /\ out_stats o = st_stats s /\
    out_cnt o = inc_cb (inc_polls (ztop_cnt s)) /\ out_final o = st_curr s /\
    (overwrites st (o_always P) = true -> out_x o = ixh (st_curr s) /\ out_y o = iyh (st_curr s)) /\
    (overwrites st (o_always P) = false -> out_x o = x_in /\ out_y o = y_in /\ out_errz o = errz_in).
  Proof.
    unfold zpass_exit. cbv zeta. unfold exit_block.
    destruct (overwrites st (o_always P)); cbn [out_status out_iterations out_eps out_stats out_cnt out_final out_x out_y out_errz];
      repeat split; discriminate.
  Qed.

  (* (b) a loop-top check that sees the request leaves the loop *)
  Theorem zpass_exit_at_request s : stop_req (ztop_cnt s) = true ->
    pass_ s = ZeroFpr.PExit (zpass_exit s (ztop_status s)) /\ ztop_status s <> StBusy /\ exit_statuses (ztop_status s) /\
    (ztop_status s = StInterrupted <->
       (nleb (ztop_eps s) (eff_tol (o_tol P)) = false /\ time_up (ztop_cnt s) = false /\ st_k s <> Panoc.p_max_iter P /\
        nfinite (ztop_eps s) = true /\ (st_np s <= p_max_no_progress P)%nat)).
  Proof.
    intros E. rewrite zpass_eq. unfold ztop_status. rewrite E.
    destruct (chain_with_request (o_tol P) (ztop_eps s) (time_up (ztop_cnt s)) (st_k s) (Panoc.p_max_iter P) (st_np s)
                (p_max_no_progress P)) as (A & B & C).
    cbv zeta in A, B, C. split; [|split; [exact A|split; [exact B|exact C]]].
    destruct (stop_status_helpers _ _ _ _ _ _ _ true); [contradiction|reflexivity..].
  Qed.

  (* ------------------------------------------------------------------ the polls of a run *)
  Inductive zpolled_from : lstT -> pollpt (T:=T) -> Prop :=
  | zpf_top s : zpolled_from s (mkPP (ztop_cnt s) (st_curr s) (st_k s))
  | zpf_ls s q τi ls0 l : ztop_status s = StBusy -> zpass_setup s = (q, τi, ls0) ->
      zls_reach (st_curr s) (ztop_prox s) q τi ls0 l -> zpolled_from s (mkPP (ZeroFpr.ls_cnt l) (st_curr s) (st_k s))
  | zpf_next s s' pp : pass_ s = ZeroFpr.PCont s' -> zpolled_from s' pp -> zpolled_from s pp.

  Definition zprompt_after (pp : pollpt (T:=T)) (o : outputs (T:=T)) : Prop :=
    out_status o <> StBusy /\ exit_statuses (out_status o) /\
    adv (pp_cnt pp) (out_cnt o) 2 1 0 0 1 /\                       (* <= 1 further poll, <= 1 oracle call (eval_grad_L), final callback *)
    c_dir (out_cnt o) = c_dir (pp_cnt pp) /\ c_apply (out_cnt o) = c_apply (pp_cnt pp) /\
    out_iterations o = pp_k pp /\
    out_final o = pp_curr pp /\                                     (* the current iterate is returned untouched *)
    (overwrites (out_status o) (o_always P) = true -> out_x o = ixh (pp_curr pp) /\ out_y o = iyh (pp_curr pp)).

  Lemma zexit_prompt s c0 : stop_req (ztop_cnt s) = true -> adv c0 (st_cnt s) 1 0 0 0 0 ->
    zprompt_after (mkPP c0 (st_curr s) (st_k s)) (zpass_exit s (ztop_status s)).
  Proof.
    intros E A. destruct (zpass_exit_at_request s E) as (_ & B & C & _).
    destruct (zpass_exit_facts s (ztop_status s)) as (F1 & F2 & F3 & F4 & F5 & F6 & F7 & F8). cbv zeta in *.
    unfold zprompt_after. cbn [pp_cnt pp_curr pp_k]. rewrite F1, F2, F5, F6. unfold ztop_cnt.
    split; [exact B|]. split; [exact C|]. split; [cnt_solve|]. split; [cnt_solve|]. split; [cnt_solve|]. split; [reflexivity|].
    split; [reflexivity|exact F7].
  Qed.

  Hypothesis Hsticky : sticky stop_req.

  Theorem zloop_stop_prompt : forall fuel s o, loop_ fuel s = Done o ->
    forall pp, zpolled_from s pp -> stop_req (pp_cnt pp) = true -> zprompt_after pp o.
  Proof.
    induction fuel as [|fuel IH]; intros s o Hr pp Hp Hs; [discriminate|]. cbn [ZeroFpr.loop] in Hr.
    destruct Hp as [s|s q τi ls0 l Eb Eset Hreach|s s' pp Ep Hp'].
    - cbn [pp_cnt] in Hs. destruct (zpass_exit_at_request s Hs) as (Ep & B & C & _). rewrite Ep in Hr. inversion Hr; subst o.
      destruct (zpass_exit_facts s (ztop_status s)) as (F1 & F2 & F3 & F4 & F5 & F6 & F7 & F8). cbv zeta in *.
      unfold zprompt_after. cbn [pp_cnt pp_curr pp_k]. rewrite F1, F2, F5, F6.
      split; [exact B|]. split; [exact C|]. split; [cnt_solve|]. split; [cnt_solve|]. split; [cnt_solve|]. split; [reflexivity|].
      split; [reflexivity|exact F7].
    - cbn [pp_cnt] in Hs. rewrite zpass_eq, Eb, Eset in Hr.
      destruct (zls_reach_stops _ _ q τi ls0 l Hreach Hs ls_fuel) as [Ef|Ef]; rewrite Ef in Hr; [discriminate|].
      destruct fuel as [|fuel]; [discriminate|]. cbn [ZeroFpr.loop] in Hr.
      set (s' := zpass_stopped s q (zls_stopped_at l)) in *.
      assert (Ecnt : st_cnt s' = inc_polls (ZeroFpr.ls_cnt l)) by reflexivity.
      assert (Hs' : stop_req (ztop_cnt s') = true).
      { apply (Hsticky (ZeroFpr.ls_cnt l)); [|exact Hs]. unfold ztop_cnt. rewrite Ecnt. cnt_solve. }
      destruct (zpass_exit_at_request s' Hs') as (Ep & _). rewrite Ep in Hr. inversion Hr; subst o.
      apply (zexit_prompt s' (ZeroFpr.ls_cnt l) Hs'). rewrite Ecnt. cnt_solve.
    - rewrite Ep in Hr. exact (IH s' o Hr pp Hp' Hs).
  Qed.

  (* ------------------------------------------------------------------ operator() *)
  Lemma zinit_qub_cnt : forall fuel i c z i' c' z', initqub fuel i c z = Some (i', c', z') ->
    cnt_le c c' /\ c_polls c' = c_polls c /\ c_dir c' = c_dir c /\ c_apply c' = c_apply c /\ c_cb c' = c_cb c /\
    (evals c' + s_stepsize_bt z = evals c + s_stepsize_bt z')%nat.
  Proof.
    induction fuel as [|fuel IH]; intros i c z i' c' z'; cbn [ZeroFpr.init_qub];
      destruct ((iL i <? p_Lmax P) && it_qub_violated P i); try discriminate.
    1,3: intros E; inversion E; subst; repeat split; try apply cnt_le_refl; reflexivity.
    intros E. destruct (IH _ _ _ _ _ _ E) as (A1 & A2 & A3 & A4 & A5 & A6).
    unfold inc_sbt in A6. cbn [s_stepsize_bt] in A6. cnt_unfold; repeat split; lia.
  Qed.

  Definition zerofpr_start (s0 : lstT) : Prop :=
    exists i0 c0 i3 c1 z1, initL = (i0, c0) /\ nfinite (iL i0) = true /\
      initqub ls_fuel (ecost (eprox (set_gamma_L i0 (p_Lgamma P / iL i0) (iL i0)))) (inc_py c0) stats0 = Some (i3, c1, z1) /\
      s0 = mkSt i3 it_blank 0 0 [] c1 z1 [].
  Definition zerofpr_polled (pp : pollpt (T:=T)) : Prop := exists s0, zerofpr_start s0 /\ zpolled_from s0 pp.

  Lemma zerofpr_done_start fuel o : zerofpr_ fuel = Done o -> exists s0, zerofpr_start s0 /\ loop_ fuel s0 = Done o.
  Proof.
    unfold zerofpr. destruct initL as [i0 c0] eqn:E0. destruct (nfinite (iL i0)) eqn:Ef; cbn [negb]; [|discriminate].
    destruct (initqub ls_fuel _ (inc_py c0) stats0) as [[[i3 c1] z1]|] eqn:Eq; [|discriminate].
    intros Hr. eexists. split; [|exact Hr]. exists i0, c0, i3, c1, z1. repeat split; assumption.
  Qed.

  Lemma zerofpr_start_cnt s0 : zerofpr_start s0 ->
    c_polls (st_cnt s0) = 0%nat /\ c_dir (st_cnt s0) = 0%nat /\ c_apply (st_cnt s0) = 0%nat /\ c_cb (st_cnt s0) = 0%nat /\
    (evals (st_cnt s0) <= 3 + s_stepsize_bt (st_stats s0))%nat /\ st_k s0 = 0%nat.
  Proof.
    intros (i0 & c0 & i3 & c1 & z1 & E0 & _ & Eq & ->). cbn [st_cnt st_stats st_k].
    pose proof (init_L_cnt psi_grad_full grad_psi P x_in) as A. cbv zeta in A. rewrite E0 in A. cbn [snd] in A.
    destruct A as (A1 & A2 & A3 & A4 & A5).
    destruct (zinit_qub_cnt _ _ _ _ _ _ _ Eq) as (B1 & B2 & B3 & B4 & B5 & B6). cbn [stats0 s_stepsize_bt] in B6.
    cnt_unfold. repeat split; lia.
  Qed.

  Theorem zerofpr_stop_prompt fuel o : zerofpr_ fuel = Done o ->
    forall pp, zerofpr_polled pp -> stop_req (pp_cnt pp) = true -> zprompt_after pp o.
  Proof.
    intros Hr pp (s0 & Hs0 & Hp) Hs. destruct (zerofpr_done_start fuel o Hr) as (s0' & Hs0' & Hl).
    assert (s0' = s0).
    { destruct Hs0 as (i0 & c0 & i3 & c1 & z1 & E0 & _ & Eq & ->). destruct Hs0' as (i0' & c0' & i3' & c1' & z1' & E0' & _ & Eq' & ->).
      rewrite E0 in E0'. inversion E0'; subst. rewrite Eq in Eq'. inversion Eq'; subst. reflexivity. }
    subst s0'. exact (zloop_stop_prompt fuel s0 o Hl pp Hp Hs).
  Qed.

  Theorem zerofpr_stop_before_start fuel o : zerofpr_ fuel = Done o -> stop_req cnt0 = true ->
    out_status o <> StBusy /\ exit_statuses (out_status o) /\
    out_iterations o = 0%nat /\ c_polls (out_cnt o) = 1%nat /\ c_dir (out_cnt o) = 0%nat /\ c_apply (out_cnt o) = 0%nat /\
    c_cb (out_cnt o) = 1%nat /\ (evals (out_cnt o) <= 4 + s_stepsize_bt (out_stats o))%nat.
  Proof.
    intros Hr H0. destruct (zerofpr_done_start fuel o Hr) as (s0 & Hs0 & Hl).
    destruct (zerofpr_start_cnt s0 Hs0) as (A1 & A2 & A3 & A4 & A5 & A6).
    assert (Hs : stop_req (ztop_cnt s0) = true) by (apply (Hsticky cnt0); [cnt_solve|exact H0]).
    destruct fuel as [|fuel]; [discriminate|]. cbn [ZeroFpr.loop] in Hl.
    destruct (zpass_exit_at_request s0 Hs) as (Ep & B & C & _). rewrite Ep in Hl. inversion Hl; subst o.
    destruct (zpass_exit_facts s0 (ztop_status s0)) as (F1 & F2 & F3 & F4 & F5 & _). cbv zeta in *.
    rewrite F1, F2, F4, F5. unfold ztop_cnt.
    split; [exact B|]. split; [exact C|]. split; [exact A6|]. cnt_unfold. repeat split; lia.
  Qed.
End PromptZ.
