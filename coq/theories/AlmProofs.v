(* AlmProofs.v — proofs about the ALM outer-loop model Alm.v at the real instance (C07).
   All loop theorems are by induction over the script of inner-solver outcomes (arbitrary length, arbitrary content). *)
From Coq Require Import Reals List ZArith Lra Lia Bool Arith.
From Flocq Require Import Raux.
From Alpaqa Require Import Num NumR Vec Prox ProxProofs ProxVec Alm.
Import ListNotations.
Local Open Scope R_scope.

(* ------------------------------------------------------------------ generic list helpers *)

Fixpoint chain {A} (Q : A -> A -> Prop) (l : list A) : Prop :=
  match l with
  | a :: ((b :: _) as t) => Q a b /\ chain Q t
  | _ => True
  end.

Lemma chain_cons {A} (Q : A -> A -> Prop) a l :
  chain Q (a :: l) <-> (match l with b :: _ => Q a b | [] => True end) /\ chain Q l.
Proof. destruct l; cbn; tauto. Qed.

Lemma chain_impl {A} (Q Q' : A -> A -> Prop) l : (forall a b, Q a b -> Q' a b) -> chain Q l -> chain Q' l.
Proof.
  intros HQ. induction l as [|a l IH]; [cbn; auto|]. rewrite !chain_cons. intros [H1 H2]. split; [|auto].
  destruct l; auto.
Qed.

Lemma chain_and {A} (Q Q' : A -> A -> Prop) l : chain Q l -> chain Q' l -> chain (fun a b => Q a b /\ Q' a b) l.
Proof.
  induction l as [|a l IH]; [cbn; auto|]. rewrite !chain_cons. intros [H1 H2] [H3 H4]. split; [|auto].
  destruct l; auto.
Qed.

(* chain with a pointwise side condition available on both ends *)
Lemma chain_Forall_impl {A} (Pr : A -> Prop) (Q Q' : A -> A -> Prop) l :
  (forall a b, Pr a -> Pr b -> Q a b -> Q' a b) -> Forall Pr l -> chain Q l -> chain Q' l.
Proof.
  intros HQ. induction l as [|a l IH]; [cbn; auto|]. rewrite !chain_cons. intros HF [H1 H2].
  inversion HF as [|? ? Ha HF']; subst. split; [|auto].
  destruct l; auto. inversion HF'; subst. auto.
Qed.

(* adjacent elements by index *)
Lemma chain_nth {A} (Q : A -> A -> Prop) l : chain Q l ->
  forall k a b, nth_error l k = Some a -> nth_error l (S k) = Some b -> Q a b.
Proof.
  induction l as [|x l IH]; intros HC k a b Ha Hb.
  - destruct k; discriminate.
  - apply chain_cons in HC. destruct HC as [Hxy HC]. destruct k as [|k].
    + cbn in Ha, Hb. destruct l as [|y l]; [discriminate|]. cbn in Hb. inversion Ha; inversion Hb; subst; exact Hxy.
    + apply (IH HC k); assumption.
Qed.

Definition uniform (l : list R) : Prop := forall a b, In a l -> In b l -> a = b.

Lemma map3_length {A B C D} (f : A -> B -> C -> D) a b c :
  length a = length c -> length b = length c -> length (map3 f a b c) = length c.
Proof.
  revert a b. induction c as [|z c IH]; intros [|x a] [|y b]; cbn; intros; try discriminate; auto.
  all: try (f_equal; apply IH; lia).
Qed.

Lemma map3_Forall2 {A B C D} (f : A -> B -> C -> D) (Rel : C -> D -> Prop) a b c :
  length a = length c -> length b = length c ->
  (forall x y z, In z c -> Rel z (f x y z)) -> Forall2 Rel c (map3 f a b c).
Proof.
  revert a b. induction c as [|z c IH]; intros [|x a] [|y b]; cbn; intros La Lb Hf; try discriminate; constructor.
  - apply Hf; auto.
  - apply IH; try lia. intros; apply Hf; auto.
Qed.

Lemma map3_nth {A B C D} (f : A -> B -> C -> D) a b c da db dc dd k :
  length a = length c -> length b = length c -> (k < length c)%nat ->
  nth k (map3 f a b c) dd = f (nth k a da) (nth k b db) (nth k c dc).
Proof.
  revert a b k. induction c as [|z c IH]; intros [|x a] [|y b] k; cbn; intros La Lb Hk; try discriminate; try lia.
  destruct k; [reflexivity|]. apply IH; lia.
Qed.

Lemma Forall2_length' {A B} (Rel : A -> B -> Prop) l l' : Forall2 Rel l l' -> length l = length l'.
Proof. induction 1; cbn; auto. Qed.

Lemma Forall2_Forall_r {A B} (Rel : A -> B -> Prop) (Pa : A -> Prop) (Pb : B -> Prop) l l' :
  (forall x y, Pa x -> Rel x y -> Pb y) -> Forall Pa l -> Forall2 Rel l l' -> Forall Pb l'.
Proof.
  intros Himp HF H2. induction H2; constructor; inversion HF; subst; eauto.
Qed.

Lemma Forall2_nth_R (Rel : R -> R -> Prop) l l' k : Forall2 Rel l l' -> (k < length l)%nat -> Rel (nth k l 0) (nth k l' 0).
Proof.
  intros H2. revert k. induction H2; intros k Hk; cbn in *; [lia|]. destruct k; auto. apply IHForall2; lia.
Qed.

Lemma Forall2_refl_R (Rel : R -> R -> Prop) l : (forall x, Rel x x) -> Forall2 Rel l l.
Proof. intros; induction l; constructor; auto. Qed.

(* ------------------------------------------------------------------ ‖·‖∞ as computed by the code is the max of |·| *)

Lemma maxfold_ge (l : list R) (a : R) :
  a <= fold_left (fun acc x => if Rlt_bool acc x then x else acc) l a /\
  (forall x, In x l -> x <= fold_left (fun acc x => if Rlt_bool acc x then x else acc) l a) /\
  (fold_left (fun acc x => if Rlt_bool acc x then x else acc) l a = a \/
   In (fold_left (fun acc x => if Rlt_bool acc x then x else acc) l a) l).
Proof.
  revert a. induction l as [|y l IH]; intros a; cbn.
  - split; [lra|]. split; [tauto|auto].
  - destruct (Rlt_bool_spec a y) as [Hlt|Hge].
    + destruct (IH y) as (H1 & H2 & H3). split; [lra|]. split.
      * intros x [->|Hx]; auto.
      * destruct H3 as [->|H3]; auto.
    + destruct (IH a) as (H1 & H2 & H3). split; [lra|]. split.
      * intros x [->|Hx]; [lra|auto].
      * destruct H3 as [->|H3]; auto.
Qed.

Lemma vnorminf_spec (v : list R) :
  0 <= vnorminf v /\ (forall x, In x v -> Rabs x <= vnorminf v) /\
  (v <> [] -> exists x, In x v /\ vnorminf v = Rabs x).
Proof.
  unfold vnorminf, vmaxcoeff, redux, vabs. destruct v as [|a v]; cbn [map].
  - cbn. split; [lra|]. split; [tauto|congruence].
  - cbn [nltb NumR n0].
    destruct (maxfold_ge (map (fun x => nabs x) v) (nabs a)) as (H1 & H2 & H3).
    cbn [nabs NumR] in *. split; [pose proof (Rabs_pos a); lra|]. split.
    + intros x [->|Hx]; [exact H1|]. apply H2. apply in_map_iff. exists x; auto.
    + intros _. destruct H3 as [H3|H3].
      * exists a. split; [left; reflexivity|exact H3].
      * apply in_map_iff in H3. destruct H3 as (x & Hx & Hin). exists x. split; [right; exact Hin|symmetry; exact Hx].
Qed.

(* ------------------------------------------------------------------ update_penalty_weights, one component *)

Section Kernel.
  Variable P : alm_params (T:=R).

  Lemma nfmax_R a b : nfmax (T:=R) a b = Rmax a b.
  Proof. unfold nfmax. cbn [nisnan NumR]. apply cmax_R. Qed.
  Lemma nfmin_R a b : nfmin (T:=R) a b = Rmin a b.
  Proof. unfold nfmin. cbn [nisnan NumR]. apply cmin_R. Qed.

  (* growth rule of one component: max(σ, min(max_penalty, max(Δ|e|/‖e‖, 1) σ)) where the update is applied *)
  Lemma upd1_value first ne e o σ :
    upd1 P first ne e o σ =
      if first || Rlt_bool (p_theta P * Rabs o) (Rabs e)
      then Rmax σ (Rmin (p_max_pen P) (Rmax (p_Delta P * Rabs e / ne) 1 * σ)) else σ.
  Proof.
    unfold upd1. cbn [nltb NumR nabs nmul]. destruct (first || _); [|reflexivity].
    rewrite !nfmax_R, nfmin_R. reflexivity.
  Qed.

  (* never lowered — no hypothesis at all *)
  Lemma upd1_ge first ne e o σ : σ <= upd1 P first ne e o σ.
  Proof. rewrite upd1_value. destruct (first || _); [apply Rmax_l|lra]. Qed.

  Lemma upd1_pos first ne e o σ : 0 < σ -> 0 < upd1 P first ne e o σ.
  Proof. intros. pose proof (upd1_ge first ne e o σ). lra. Qed.

  (* exact cap: never above max(σ, max_penalty) *)
  Lemma upd1_le_bound first ne e o σ b : σ <= b -> p_max_pen P <= b -> upd1 P first ne e o σ <= b.
  Proof.
    intros Hs Hm. rewrite upd1_value. destruct (first || _); [|exact Hs].
    apply Rmax_lub; [exact Hs|]. eapply Rle_trans; [apply Rmin_l|exact Hm].
  Qed.

  Lemma upd1_le_max first ne e o σ : σ <= p_max_pen P -> upd1 P first ne e o σ <= p_max_pen P.
  Proof. intros. apply upd1_le_bound; lra. Qed.

  (* a component at or above the cap is left exactly as it is *)
  Lemma upd1_above_cap_unchanged first ne e o σ : p_max_pen P <= σ -> upd1 P first ne e o σ = σ.
  Proof.
    intros H. rewrite upd1_value. destruct (first || _); [|reflexivity].
    apply Rmax_left. eapply Rle_trans; [apply Rmin_l|exact H].
  Qed.

  Lemma upd1_changed first ne e o σ : upd1 P first ne e o σ <> σ -> first = true \/ p_theta P * Rabs o < Rabs e.
  Proof.
    unfold upd1. cbn [nltb NumR nabs nmul]. destruct first; [auto|]. cbn [orb].
    destruct (Rlt_bool_spec (p_theta P * Rabs o) (Rabs e)); [auto|congruence].
  Qed.

  (* the common new value of the single-factor rule *)
  Definition single_new (σ0 : R) : R := Rmax σ0 (Rmin (p_max_pen P) (p_Delta P * σ0)).
  Lemma single_new_eq σ0 : nfmax σ0 (nfmin (p_max_pen P) (p_Delta P * σ0)%num) = single_new σ0.
  Proof. rewrite nfmax_R, nfmin_R. reflexivity. Qed.
  Lemma single_new_ge σ0 : σ0 <= single_new σ0.
  Proof. apply Rmax_l. Qed.
  Lemma single_new_le_bound σ0 b : σ0 <= b -> p_max_pen P <= b -> single_new σ0 <= b.
  Proof. intros. apply Rmax_lub; [assumption|]. eapply Rle_trans; [apply Rmin_l|assumption]. Qed.

  (* ---- whole vector *)
  Definition sigma_inv (m : nat) (Σ : list R) : Prop :=
    length Σ = m /\ Forall (fun x => 0 < x) Σ /\ (p_single P = true -> uniform Σ).

  Lemma upw_length first e o ne no Σ : length e = length Σ -> length o = length Σ ->
    length (update_penalty_weights P first e o ne no Σ) = length Σ.
  Proof.
    intros Le Lo. unfold update_penalty_weights. destruct (_ <=? _)%num; [reflexivity|].
    destruct (p_single P).
    - unfold upd_single. destruct Σ; [reflexivity|]. destruct (first || _); [apply map_length|reflexivity].
    - apply map3_length; assumption.
  Qed.

  Lemma uniform_map_const (c : R) (l : list R) : uniform (map (fun _ => c) l).
  Proof. intros a b Ha Hb. apply in_map_iff in Ha, Hb. destruct Ha as (? & <- & _), Hb as (? & <- & _). reflexivity. Qed.

  Lemma upw_changed first e o ne no Σ k : length e = length Σ -> length o = length Σ ->
    nth k (update_penalty_weights P first e o ne no Σ) 0 <> nth k Σ 0 ->
    p_dual_tol P < ne /\
    (first = true \/
     if p_single P then p_theta P * no < ne else p_theta P * Rabs (nth k o 0) < Rabs (nth k e 0)).
  Proof.
    intros Le Lo. unfold update_penalty_weights. numR.
    destruct (Rle_bool_spec ne (p_dual_tol P)) as [|Hgt]; [congruence|]. intros Hch. split; [exact Hgt|].
    destruct (p_single P).
    - unfold upd_single in Hch. destruct Σ as [|σ0 Σ']; [destruct k; cbn in Hch; congruence|].
      destruct first; [auto|]. cbn [orb] in Hch. numR.
      destruct (Rlt_bool_spec (p_theta P * no) ne); [auto|congruence].
    - destruct (Nat.lt_ge_cases k (length Σ)) as [Hk|Hk].
      + rewrite (map3_nth _ e o Σ 0 0 0 0 k Le Lo Hk) in Hch. apply upd1_changed in Hch. exact Hch.
      + rewrite !nth_overflow in Hch; try congruence; try lia. rewrite map3_length; assumption.
  Qed.

  (* never decreases: per-component rule unconditionally; single-factor rule for a uniform Σ *)
  Lemma upw_monotone m first e o ne no Σ : length e = m -> length o = m -> length Σ = m ->
    (p_single P = true -> uniform Σ) -> Forall2 Rle Σ (update_penalty_weights P first e o ne no Σ).
  Proof.
    intros Le Lo LΣ Huni. unfold update_penalty_weights.
    destruct (_ <=? _)%num; [apply Forall2_refl_R; intros; lra|].
    destruct (p_single P) eqn:Hs.
    - unfold upd_single. destruct Σ as [|σ0 Σ']; [constructor|].
      destruct (first || _); [|apply Forall2_refl_R; intros; lra].
      specialize (Huni eq_refl).
      assert (Hall : forall x, In x (σ0 :: Σ') -> x = σ0) by (intros x Hx; apply Huni; [exact Hx|left; reflexivity]).
      rewrite single_new_eq. pose proof (single_new_ge σ0) as Hnew.
      revert Hall. generalize (σ0 :: Σ'). intros l Hall. induction l as [|x l IH]; cbn; constructor.
      + rewrite (Hall x) by (left; reflexivity). exact Hnew.
      + apply IH. intros; apply Hall; right; assumption.
    - apply map3_Forall2; try congruence. intros. apply upd1_ge.
  Qed.

  (* exact cap: componentwise never above a bound that dominates both the current value and max_penalty *)
  Lemma upw_le_bound m first e o ne no Σ B : length e = m -> length o = m -> length Σ = m ->
    (p_single P = true -> uniform Σ) ->
    Forall (fun b => p_max_pen P <= b) B -> Forall2 Rle Σ B ->
    Forall2 Rle (update_penalty_weights P first e o ne no Σ) B.
  Proof.
    intros Le Lo LΣ Huni HB H2. unfold update_penalty_weights.
    destruct (_ <=? _)%num; [exact H2|].
    destruct (p_single P) eqn:Hs.
    - unfold upd_single. destruct Σ as [|σ0 Σ']; [exact H2|].
      destruct (first || _); [|exact H2].
      specialize (Huni eq_refl).
      assert (Hall : forall x, In x (σ0 :: Σ') -> x = σ0) by (intros x Hx; apply Huni; [exact Hx|left; reflexivity]).
      rewrite single_new_eq.
      revert Hall H2 HB. generalize (σ0 :: Σ'). clear. intros l Hall H2. revert Hall.
      induction H2 as [|x b l B' Hxb H2 IH]; intros Hall HB; cbn; constructor.
      + inversion HB; subst. apply single_new_le_bound; [|assumption]. rewrite <- (Hall x) by (left; reflexivity). exact Hxb.
      + apply IH; [intros; apply Hall; right; assumption|inversion HB; assumption].
    - rewrite <- LΣ in Le, Lo. clear LΣ Huni Hs. revert e o Le Lo HB. induction H2 as [|x b l B' Hxb H2 IH]; intros [|ei e] [|oi o] Le Lo HB;
        cbn in *; try discriminate; constructor.
      + inversion HB; subst. apply upd1_le_bound; assumption.
      + apply IH; try lia. inversion HB; assumption.
  Qed.

  Lemma upw_le_max m first e o ne no Σ : length e = m -> length o = m -> length Σ = m ->
    (p_single P = true -> uniform Σ) ->
    Forall (fun x => x <= p_max_pen P) Σ -> Forall (fun x => x <= p_max_pen P) (update_penalty_weights P first e o ne no Σ).
  Proof.
    intros Le Lo LΣ Huni Hle.
    assert (H2 : Forall2 Rle (update_penalty_weights P first e o ne no Σ) (repeat (p_max_pen P) m)).
    { apply upw_le_bound with (m := m); auto.
      - apply Forall_forall. intros b Hb. apply repeat_spec in Hb. lra.
      - rewrite <- LΣ. clear -Hle. induction Hle; cbn; constructor; auto. }
    clear -H2. remember (repeat (p_max_pen P) m) as B eqn:HB. revert m HB.
    induction H2 as [|x b l B' Hxb H2 IH]; intros m HB; constructor.
    - destruct m; cbn in HB; [discriminate|]. inversion HB; subst. exact Hxb.
    - destruct m; cbn in HB; [discriminate|]. inversion HB; subst. apply (IH m). reflexivity.
  Qed.

  Lemma upw_inv m first e o ne no Σ : length e = m -> length o = m -> sigma_inv m Σ ->
    sigma_inv m (update_penalty_weights P first e o ne no Σ).
  Proof.
    intros Le Lo (LΣ & Hpos & Huni). split; [|split].
    - rewrite upw_length; congruence.
    - pose proof (upw_monotone m first e o ne no Σ Le Lo LΣ Huni) as Hm.
      clear -Hm Hpos. induction Hm; constructor; inversion Hpos; subst; [lra|auto].
    - intros Hs. unfold update_penalty_weights. destruct (_ <=? _)%num; [auto|]. rewrite Hs.
      unfold upd_single. destruct Σ as [|σ0 Σ']; [intros ? ? []|]. destruct (first || _); [apply uniform_map_const|auto].
  Qed.
End Kernel.

(* ------------------------------------------------------------------ initial penalties *)

Lemma initial_sigma_auto_bounds (P : alm_params (T:=R)) f0 g0 :
  p_min_pen P <= p_max_pen P -> p_min_pen P <= initial_sigma_auto P f0 g0 <= p_max_pen P.
Proof.
  intros H. unfold initial_sigma_auto, clamp. numR.
  set (σ := p_init_pen_factor P * _ / _). clearbody σ. rbool; lra.
Qed.

Lemma Forall_repeat {A} (Pr : A -> Prop) x n : Pr x -> Forall Pr (repeat x n).
Proof. intros; induction n; cbn; constructor; auto. Qed.
Lemma uniform_repeat x n : uniform (repeat x n).
Proof. intros a b Ha Hb. apply repeat_spec in Ha, Hb. congruence. Qed.

Lemma initial_sigma_cases (P : alm_params (T:=R)) m f0 g0 Σ0 :
  (exists s, Σ0 = Some s /\ sigma_accepted s = true /\ initial_sigma P m f0 g0 Σ0 = s) \/
  (0 < p_init_pen P /\ initial_sigma P m f0 g0 Σ0 = repeat (p_init_pen P) m) \/
  (p_init_pen P <= 0 /\ initial_sigma P m f0 g0 Σ0 = repeat (initial_sigma_auto P f0 g0) m).
Proof.
  unfold initial_sigma, vconst. numR.
  assert (Hfb : (0 < p_init_pen P /\ (if Rlt_bool 0 (p_init_pen P) then repeat (p_init_pen P) m else repeat (initial_sigma_auto P f0 g0) m) = repeat (p_init_pen P) m) \/
                (p_init_pen P <= 0 /\ (if Rlt_bool 0 (p_init_pen P) then repeat (p_init_pen P) m else repeat (initial_sigma_auto P f0 g0) m) = repeat (initial_sigma_auto P f0 g0) m)).
  { destruct (Rlt_bool_spec 0 (p_init_pen P)); [left|right]; split; auto. }
  destruct Σ0 as [s|]; [|right; exact Hfb].
  destruct (sigma_accepted s) eqn:Ha; [left; exists s; auto|right; exact Hfb].
Qed.

(* the penalties the loop starts from are positive, within max_penalty and (without a caller Σ) uniform *)
Lemma initial_sigma_ok (P : alm_params (T:=R)) m f0 g0 Σ0 :
  0 < p_min_pen P <= p_max_pen P -> p_init_pen P <= p_max_pen P ->
  (forall s, Σ0 = Some s -> sigma_accepted s = true ->
     length s = m /\ Forall (fun x => 0 < x <= p_max_pen P) s /\ (p_single P = true -> uniform s)) ->
  let S0 := initial_sigma P m f0 g0 Σ0 in
  length S0 = m /\ Forall (fun x => 0 < x <= p_max_pen P) S0 /\ (p_single P = true -> uniform S0).
Proof.
  intros Hmm Hip Hs. cbv zeta.
  destruct (initial_sigma_cases P m f0 g0 Σ0) as [(s & -> & Ha & ->)|[(Hp & ->)|(Hp & ->)]].
  - apply Hs; auto.
  - split; [apply repeat_length|]. split; [apply Forall_repeat; lra|intros _; apply uniform_repeat].
  - pose proof (initial_sigma_auto_bounds P f0 g0 (proj2 Hmm)).
    split; [apply repeat_length|]. split; [apply Forall_repeat; lra|intros _; apply uniform_repeat].
Qed.

(* ------------------------------------------------------------------ the loop, one step at a time *)

Notation stR := (st (T:=R)).
Notation iresR := (inner_res (T:=R)).
Notation irecR := (iter_rec (T:=R)).
Notation finalR := (final (T:=R)).

Section Loop.
  Variable P : alm_params (T:=R).
  Variable pb : alm_problem (T:=R).
  Let m := pb_m pb.

  Definition y_in_of (s : stR) : list R := proj_multipliers (pb_split pb) (pb_lb pb) (pb_ub pb) (p_M P) (s_y s).
  Definition err_of (s : stR) (r : iresR) : list R := pick m (ir_err r) (s_err s).
  Definition mkrec (i : nat) (s : stR) (r : iresR) : irecR :=
    {| it_i := i; it_y := y_in_of s; it_Sigma := s_Sigma s; it_tol := s_eps s; it_err_in := s_err s; it_res := r;
       it_err := err_of s r; it_err_old := s_err_old s; it_norm := vnorminf (err_of s r); it_norm_old := s_norm_old s |}.
  Definition fails_of (s : stR) (r : iresR) : nat := (s_fails s + (if is_converged (ir_status r) then 0 else 1))%nat.
  Definition next (i : nat) (s : stR) (r : iresR) : stR :=
    {| s_Sigma := update_penalty_weights P (Nat.eqb i 0) (err_of s r) (s_err_old s) (vnorminf (err_of s r)) (s_norm_old s) (s_Sigma s);
       s_err := s_err_old s; s_err_old := err_of s r; s_norm_old := vnorminf (err_of s r);
       s_eps := nfmax (p_rho P * s_eps s)%num (p_tol P); s_y := pick m (ir_y r) (y_in_of s);
       s_fails := fails_of s r; s_iters := (s_iters s + ir_iters r)%nat |}.
  Definition fin (i : nat) (s : stR) (r : iresR) (stat : status) : finalR :=
    {| f_status := stat; f_outer := S i; f_fails := fails_of s r; f_eps := Some (ir_eps r);
       f_delta := Some (vnorminf (err_of s r)); f_norm_pen := norm_penalty (s_Sigma s); f_Sigma := Some (s_Sigma s);
       f_y := pick m (ir_y r) (y_in_of s); f_iters := (s_iters s + ir_iters r)%nat; f_exhausted := false |}.

  (* the termination test of the outer loop, read off an iteration record *)
  Definition rec_conv (r : irecR) : bool :=
    (ir_eps (it_res r) <=? p_tol P)%num && is_converged (ir_status (it_res r)) && (it_norm r <=? p_dual_tol P)%num.
  Definition rec_ooi (r : irecR) : bool := Nat.eqb (S (it_i r)) (p_max_iter P).
  (* exit = alm_converged || out_of_iter || out_of_time || interrupted   (interrupted = ALM's own stop flag, ir_stop) *)
  Definition rec_exit (r : irecR) : bool := rec_conv r || rec_ooi r || ir_oot (it_res r) || ir_stop (it_res r).
  Definition rec_status (r : irecR) : status :=
    if is_interrupted (ir_status (it_res r)) then Interrupted
    else exit_status (rec_conv r) (ir_oot (it_res r)) (rec_ooi r) (ir_stop (it_res r)).
  (* the loop goes on after this iteration *)
  Definition continuing (r : irecR) : Prop :=
    is_interrupted (ir_status (it_res r)) = false /\ rec_exit r = false.

  Lemma alm_loop_nil i s : fst (alm_loop P pb i s []) = [] /\ f_exhausted (snd (alm_loop P pb i s [])) = true.
  Proof. split; reflexivity. Qed.

  Lemma alm_loop_cons i s r rest :
    alm_loop P pb i s (r :: rest) =
      if is_interrupted (ir_status r) then ([mkrec i s r], fin i s r Interrupted)
      else if rec_exit (mkrec i s r) then ([mkrec i s r], fin i s r (rec_status (mkrec i s r)))
      else (mkrec i s r :: fst (alm_loop P pb (S i) (next i s r) rest), snd (alm_loop P pb (S i) (next i s r) rest)).
  Proof.
    cbn [alm_loop]. unfold rec_status, rec_exit, rec_conv, rec_ooi. cbn [it_res it_norm it_i mkrec].
    fold m. fold (y_in_of s). fold (err_of s r).
    destruct (is_interrupted (ir_status r)); [reflexivity|].
    match goal with |- context [if ?c then _ else _] => destruct c end; [reflexivity|].
    fold (fails_of s r). fold (next i s r).
    destruct (alm_loop P pb (S i) (next i s r) rest); reflexivity.
  Qed.

  (* ---- generic induction principle over the trace ---- *)
  Lemma loop_trace_ind (Inv : nat -> stR -> Prop) (Pr : irecR -> Prop) (Q : irecR -> irecR -> Prop) :
    (forall i s r, Inv i s -> Pr (mkrec i s r)) ->
    (forall i s r, Inv i s -> continuing (mkrec i s r) -> Inv (S i) (next i s r)) ->
    (forall i s r r', Inv i s -> continuing (mkrec i s r) -> Q (mkrec i s r) (mkrec (S i) (next i s r) r')) ->
    forall script i s, Inv i s ->
      Forall Pr (fst (alm_loop P pb i s script)) /\ chain Q (fst (alm_loop P pb i s script)).
  Proof.
    intros HP HI HQ. induction script as [|r rest IH]; intros i s Hinv.
    - cbn. split; [constructor|exact I].
    - rewrite alm_loop_cons.
      destruct (is_interrupted (ir_status r)) eqn:Hint; [cbn; split; [constructor; auto|exact I]|].
      destruct (rec_exit (mkrec i s r)) eqn:Hex; [cbn; split; [constructor; auto|exact I]|].
      assert (Hc : continuing (mkrec i s r)) by (split; assumption).
      cbn [fst]. destruct (IH (S i) (next i s r) (HI _ _ _ Hinv Hc)) as [IH1 IH2]. split.
      + constructor; auto.
      + apply chain_cons. split; [|exact IH2].
        destruct rest as [|r' rest']; [cbn; exact I|]. rewrite alm_loop_cons.
        destruct (is_interrupted (ir_status r')); [cbn [fst]; apply HQ; assumption|].
        destruct (rec_exit (mkrec (S i) (next i s r) r')); cbn [fst]; apply HQ; assumption.
  Qed.

  (* ---- the final record ---- *)
  Lemma loop_final script : forall i s,
    f_exhausted (snd (alm_loop P pb i s script)) = false ->
    exists pre r, fst (alm_loop P pb i s script) = pre ++ [r] /\
      Forall continuing pre /\ ~ continuing r /\
      let f := snd (alm_loop P pb i s script) in
      f_status f = rec_status r /\ f_outer f = S (it_i r) /\ f_Sigma f = Some (it_Sigma r) /\
      f_eps f = Some (ir_eps (it_res r)) /\ f_delta f = Some (it_norm r) /\
      f_norm_pen f = norm_penalty (it_Sigma r) /\ f_y f = pick m (ir_y (it_res r)) (it_y r).
  Proof.
    induction script as [|r rest IH]; intros i s Hex; [cbn in Hex; discriminate|].
    rewrite alm_loop_cons in *.
    destruct (is_interrupted (ir_status r)) eqn:Hint.
    { exists [], (mkrec i s r). cbn. split; [reflexivity|]. split; [constructor|]. split.
      - intros [H _]. cbn in H. congruence.
      - unfold rec_status. cbn [it_res mkrec]. rewrite Hint. repeat split. }
    destruct (rec_exit (mkrec i s r)) eqn:Hx.
    { exists [], (mkrec i s r). cbn. split; [reflexivity|]. split; [constructor|]. split.
      - intros [_ H]. congruence.
      - repeat split. }
    cbn [fst snd] in *. destruct (IH _ _ Hex) as (pre & r' & Htr & Hpre & Hlast & Hf).
    exists (mkrec i s r :: pre), r'. split; [rewrite Htr; reflexivity|]. split; [constructor; [split; assumption|assumption]|].
    split; assumption.
  Qed.

  (* iteration numbering and the consumed prefix of the script *)
  Lemma loop_counts script : forall i s,
    let tr := fst (alm_loop P pb i s script) in
    let f := snd (alm_loop P pb i s script) in
    f_outer f = (i + length tr)%nat /\
    map it_res tr = firstn (length tr) script /\
    map it_i tr = seq i (length tr) /\
    f_iters f = (s_iters s + fold_right Nat.add 0%nat (map (fun r => ir_iters (it_res r)) tr))%nat /\
    f_fails f = (s_fails s + length (filter (fun r => negb (is_converged (ir_status (it_res r)))) tr))%nat.
  Proof.
    induction script as [|r rest IH]; intros i s; cbv zeta.
    - cbn. repeat split; lia.
    - rewrite alm_loop_cons.
      assert (Hone : forall stat, let tr := [mkrec i s r] in let f := fin i s r stat in
                f_outer f = (i + length tr)%nat /\ map it_res tr = firstn (length tr) (r :: rest) /\
                map it_i tr = seq i (length tr) /\
                f_iters f = (s_iters s + fold_right Nat.add 0%nat (map (fun r => ir_iters (it_res r)) tr))%nat /\
                f_fails f = (s_fails s + length (filter (fun r => negb (is_converged (ir_status (it_res r)))) tr))%nat).
      { intros stat. cbn. unfold fails_of. destruct (is_converged (ir_status r)); cbn; repeat split; lia. }
      destruct (is_interrupted (ir_status r)); [apply Hone|].
      destruct (rec_exit (mkrec i s r)); [apply Hone|].
      cbn [fst snd]. destruct (IH (S i) (next i s r)) as (H1 & H2 & H3 & H4 & H5).
      cbn [length map firstn seq fold_right filter it_res mkrec it_i]. rewrite H1, H2, H3, H4, H5.
      cbn [s_iters s_fails next]. unfold fails_of.
      destruct (is_converged (ir_status r)); cbn [negb length]; repeat split; try lia.
  Qed.

  Lemma loop_outer_le_max script : forall i s, (i < p_max_iter P)%nat ->
    (f_outer (snd (alm_loop P pb i s script)) <= p_max_iter P)%nat /\
    (length (fst (alm_loop P pb i s script)) <= p_max_iter P - i)%nat.
  Proof.
    induction script as [|r rest IH]; intros i s Hi; [cbn; lia|].
    rewrite alm_loop_cons.
    destruct (is_interrupted (ir_status r)); [cbn; lia|].
    destruct (rec_exit (mkrec i s r)) eqn:Hx; [cbn; lia|].
    unfold rec_exit, rec_ooi in Hx. cbn [it_i mkrec] in Hx.
    apply orb_false_iff in Hx. destruct Hx as [Hx _].
    apply orb_false_iff in Hx. destruct Hx as [Hx _]. apply orb_false_iff in Hx. destruct Hx as [_ Hx].
    apply Nat.eqb_neq in Hx. assert (Hi' : (S i < p_max_iter P)%nat) by lia.
    cbn [fst snd]. destruct (IH (S i) (next i s r) Hi'). cbn [length]. lia.
  Qed.

  (* the record after whose inner solve ALM's own flag is read as set is the last one of the trace *)
  Lemma loop_stop_ends script : forall i s pre r post,
    fst (alm_loop P pb i s script) = pre ++ r :: post -> ir_stop (it_res r) = true ->
    post = [] /\ f_exhausted (snd (alm_loop P pb i s script)) = false /\
    f_outer (snd (alm_loop P pb i s script)) = S (it_i r) /\
    f_status (snd (alm_loop P pb i s script)) = rec_status r /\ it_i r = (i + length pre)%nat.
  Proof.
    induction script as [|r0 rest IH]; intros i s pre r post Htr Hs; [destruct pre; discriminate|].
    rewrite alm_loop_cons in *.
    assert (Hone : [mkrec i s r0] = pre ++ r :: post ->
              post = [] /\ r = mkrec i s r0 /\ pre = []).
    { intros E. destruct pre as [|a pre]; cbn [app] in E; [inversion E; subst; auto|].
      inversion E as [[E1 E2]]. destruct pre; discriminate. }
    destruct (is_interrupted (ir_status r0)) eqn:Hint.
    { cbn [fst snd] in *. destruct (Hone Htr) as (-> & -> & ->). cbn [length].
      unfold rec_status. cbn [it_res mkrec it_i]. rewrite Hint. cbn. repeat split; lia. }
    destruct (rec_exit (mkrec i s r0)) eqn:Hx.
    { cbn [fst snd] in *. destruct (Hone Htr) as (-> & -> & ->). cbn [length]. cbn. repeat split; lia. }
    cbn [fst snd] in *. destruct pre as [|a pre]; cbn [app] in Htr.
    - exfalso. inversion Htr as [[E1 E2]]. subst r. cbn [it_res mkrec] in Hs.
      unfold rec_exit in Hx. cbn [it_res mkrec] in Hx. rewrite Hs in Hx. rewrite orb_true_r in Hx. discriminate.
    - inversion Htr as [[E1 E2]]. destruct (IH _ _ _ _ _ E2 Hs) as (A & B & C & D & E).
      repeat split; auto. cbn [length]. lia.
  Qed.
End Loop.

(* ------------------------------------------------------------------ invariants of the loop *)

Lemma is_converged_iff s : is_converged s = true <-> s = Converged.
Proof. destruct s; cbn; split; intros; try discriminate; auto. Qed.
Lemma is_interrupted_iff s : is_interrupted s = true <-> s = Interrupted.
Proof. destruct s; cbn; split; intros; try discriminate; auto. Qed.

Lemma pick_length m (w : option (list R)) old : length old = m -> length (pick m w old) = m.
Proof.
  intros H. unfold pick. destruct w as [v|]; [|exact H]. destruct (Nat.eqb (length v) m) eqn:E; [|exact H].
  apply Nat.eqb_eq; exact E.
Qed.

Section Invariants.
  Variable P : alm_params (T:=R).
  Variable pb : alm_problem (T:=R).
  Let m := pb_m pb.

  Lemma rec_conv_iff (r : irecR) :
    rec_conv P r = true <->
    ir_status (it_res r) = Converged /\ ir_eps (it_res r) <= p_tol P /\ it_norm r <= p_dual_tol P.
  Proof.
    unfold rec_conv. numR. rewrite !andb_true_iff, !Rle_bool_iff, is_converged_iff. tauto.
  Qed.

  (* what a state needs for the penalty theorems *)
  Definition len_inv (s : stR) : Prop :=
    length (s_Sigma s) = m /\ length (s_err s) = m /\ length (s_err_old s) = m.
  Definition st_inv (s : stR) : Prop :=
    sigma_inv P m (s_Sigma s) /\ length (s_err s) = m /\ length (s_err_old s) = m.

  Lemma err_of_length s r : length (s_err s) = m -> length (err_of pb s r) = m.
  Proof. intros. unfold err_of. apply pick_length. assumption. Qed.

  Lemma len_inv_next i s r : len_inv s -> len_inv (next P pb i s r).
  Proof.
    intros (H1 & H2 & H3). unfold len_inv. cbn [next s_Sigma s_err s_err_old].
    split; [|split; [assumption|apply err_of_length; assumption]].
    rewrite upw_length; [assumption| |congruence]. rewrite err_of_length; congruence.
  Qed.

  (* ---- (a) positivity, uniformity (single factor), size ---- *)
  Section Sigma.
    Lemma st_inv_next i s r : st_inv s -> st_inv (next P pb i s r).
    Proof.
      intros (H1 & H2 & H3). unfold st_inv. cbn [next s_Sigma s_err s_err_old].
      split; [|split; [assumption|apply err_of_length; assumption]].
      apply upw_inv; auto. apply err_of_length; assumption.
    Qed.

    Lemma loop_sigma_inv script i s : st_inv s ->
      Forall (fun r => sigma_inv P m (it_Sigma r)) (fst (alm_loop P pb i s script)).
    Proof.
      intros Hs.
      apply (loop_trace_ind P pb (fun _ s => st_inv s) (fun r => sigma_inv P m (it_Sigma r)) (fun _ _ => True)); auto.
      - intros ? ? ? (H & _). exact H.
      - intros. apply st_inv_next; assumption.
    Qed.

    (* ---- (b) never decrease — whatever the initial penalties are ---- *)
    Lemma loop_sigma_monotone script i s : st_inv s ->
      chain (fun a b => Forall2 Rle (it_Sigma a) (it_Sigma b)) (fst (alm_loop P pb i s script)).
    Proof.
      intros Hs.
      apply (loop_trace_ind P pb (fun _ s => st_inv s) (fun _ => True)
               (fun a b => Forall2 Rle (it_Sigma a) (it_Sigma b))); auto.
      - intros. apply st_inv_next; assumption.
      - intros i' s' r r' ((H1 & _ & H1u) & H2 & H3) _. cbn [mkrec it_Sigma next s_Sigma].
        apply upw_monotone with (m := m); auto. apply err_of_length; assumption.
    Qed.

    (* ---- (b') exact cap: every component stays below any bound dominating its initial value and max_penalty ---- *)
    Lemma loop_sigma_bound script i s B : st_inv s ->
      Forall (fun b => p_max_pen P <= b) B -> Forall2 Rle (s_Sigma s) B ->
      Forall (fun r => Forall2 Rle (it_Sigma r) B) (fst (alm_loop P pb i s script)).
    Proof.
      intros Hs HB H2.
      apply (loop_trace_ind P pb (fun _ s => st_inv s /\ Forall2 Rle (s_Sigma s) B)
               (fun r => Forall2 Rle (it_Sigma r) B) (fun _ _ => True)); auto.
      - intros ? ? ? (_ & H). exact H.
      - intros i' s' r (((H1 & H1p & H1u) & H3 & H4) & H5) _. split; [apply st_inv_next; repeat split; auto|].
        cbn [next s_Sigma]. apply upw_le_bound with (m := m); auto. apply err_of_length; assumption.
    Qed.
  End Sigma.

  (* ---- (c) growth only where the violation persists; bookkeeping of the error buffers (no hypotheses on parameters) ---- *)
  Definition growth_rule (a b : irecR) : Prop :=
    forall k, nth k (it_Sigma b) 0 <> nth k (it_Sigma a) 0 ->
      p_dual_tol P < it_norm a /\
      (it_i a = 0%nat \/
       if p_single P then p_theta P * it_norm_old a < it_norm a
       else p_theta P * Rabs (nth k (it_err_old a) 0) < Rabs (nth k (it_err a) 0)).
  Definition buffers_linked (a b : irecR) : Prop :=
    it_i b = S (it_i a) /\ it_err_old b = it_err a /\ it_norm_old b = it_norm a /\ it_err_in b = it_err_old a.
  Definition rec_wf (r : irecR) : Prop :=
    it_norm r = vnorminf (it_err r) /\ it_err r = pick m (ir_err (it_res r)) (it_err_in r) /\
    length (it_Sigma r) = m /\ length (it_err r) = m.

  Lemma loop_growth script i s : len_inv s ->
    Forall rec_wf (fst (alm_loop P pb i s script)) /\
    chain (fun a b => growth_rule a b /\ buffers_linked a b) (fst (alm_loop P pb i s script)).
  Proof.
    intros Hs.
    apply (loop_trace_ind P pb (fun _ s => len_inv s) rec_wf (fun a b => growth_rule a b /\ buffers_linked a b)); auto.
    - intros i' s' r (H1 & H2 & H3). unfold rec_wf. cbn [mkrec it_norm it_err it_res it_err_in it_Sigma].
      repeat split; auto. apply err_of_length; assumption.
    - intros. apply len_inv_next; assumption.
    - intros i' s' r r' (H1 & H2 & H3) _. split.
      + intros k. cbn [mkrec it_Sigma it_norm it_i it_norm_old it_err_old it_err next s_Sigma]. intros Hch.
        apply upw_changed in Hch.
        * destruct Hch as [Hd Hc]. split; [exact Hd|]. destruct Hc as [Hc|Hc]; [left; apply Nat.eqb_eq; exact Hc|right; exact Hc].
        * rewrite err_of_length; congruence.
        * congruence.
      + unfold buffers_linked. cbn. repeat split.
  Qed.

  (* ---- (d) tolerance sequence ---- *)
  Section Tol.
    Hypothesis Hrho : 0 <= p_rho P <= 1.

    Lemma loop_tol script i s : p_tol P <= s_eps s -> 0 <= s_eps s ->
      Forall (fun r => p_tol P <= it_tol r) (fst (alm_loop P pb i s script)) /\
      chain (fun a b => it_tol b <= it_tol a /\ it_tol b = Rmax (p_rho P * it_tol a) (p_tol P)) (fst (alm_loop P pb i s script)).
    Proof.
      intros H1 H2.
      apply (loop_trace_ind P pb (fun _ s => p_tol P <= s_eps s /\ 0 <= s_eps s) (fun r => p_tol P <= it_tol r)
               (fun a b => it_tol b <= it_tol a /\ it_tol b = Rmax (p_rho P * it_tol a) (p_tol P))); auto.
      - intros ? ? ? (H & _). exact H.
      - intros i' s' r (Ha & Hb) _. cbn [next s_eps]. unfold nfmax. cbn [nisnan NumR]. rewrite cmax_R. cbn [nmul NumR].
        unfold Rmax. destruct (Rle_dec _ _); split; nra.
      - intros i' s' r r' (Ha & Hb) _. cbn [mkrec it_tol next s_eps]. unfold nfmax. cbn [nisnan NumR]. rewrite cmax_R. cbn [nmul NumR].
        split; [|reflexivity]. unfold Rmax. destruct (Rle_dec _ _); nra.
    Qed.
  End Tol.

  (* ---- (e) multipliers handed to the inner solver ---- *)
  Definition y_ok (y : list R) : Prop :=
    length y = m /\
    forall k, (k < m)%nat ->
      let v := nth k y 0 in
      - p_M P <= v <= p_M P /\
      ((k < pb_split pb)%nat -> v = 0) /\
      (nth k (pb_lb pb) None = None -> 0 <= v) /\
      (nth k (pb_ub pb) None = None -> v <= 0).

  Section Y.
    Hypothesis HM : 0 <= p_M P.
    Hypothesis Hub : length (pb_ub pb) = m.

    Lemma y_in_ok s : length (s_y s) = m -> y_ok (y_in_of P pb s).
    Proof.
      intros Hy. unfold y_in_of.
      destruct (proj_multipliers_spec (pb_split pb) (pb_lb pb) (pb_ub pb) (p_M P) (s_y s) HM) as [L N];
        [symmetry; exact Hy|transitivity m; [exact Hub|symmetry; exact Hy]|].
      split; [congruence|]. intros k Hk. cbv zeta. rewrite <- Hy in Hk. destruct (N k Hk) as [N1 N2].
      destruct (Nat.lt_ge_cases k (pb_split pb)) as [Hlt|Hge].
      - rewrite (N1 Hlt). repeat split; intros; try lra; try lia.
      - rewrite (N2 Hge).
        destruct (proj_mult1_spec (nth k (pb_lb pb) None) (nth k (pb_ub pb) None) (p_M P) (nth k (s_y s) 0) HM) as (B & Hl & Hu & _).
        repeat split; intros; try apply B; auto; try lia.
    Qed.

    Lemma loop_y script i s : length (s_y s) = m ->
      Forall (fun r => y_ok (it_y r)) (fst (alm_loop P pb i s script)) /\
      chain (fun a b => it_y b = proj_multipliers (pb_split pb) (pb_lb pb) (pb_ub pb) (p_M P)
                                   (pick m (ir_y (it_res a)) (it_y a))) (fst (alm_loop P pb i s script)).
    Proof.
      intros Hy.
      apply (loop_trace_ind P pb (fun _ s => length (s_y s) = m) (fun r => y_ok (it_y r))
               (fun a b => it_y b = proj_multipliers (pb_split pb) (pb_lb pb) (pb_ub pb) (p_M P)
                                      (pick m (ir_y (it_res a)) (it_y a)))); [| | |exact Hy].
      - intros. cbn [mkrec it_y]. apply y_in_ok; assumption.
      - intros i' s' r H _. cbn [next s_y]. apply pick_length. apply (y_in_ok s' H).
      - intros. reflexivity.
    Qed.
  End Y.
End Invariants.

(* ------------------------------------------------------------------ the whole run: ALMSolver::operator() *)

Ltac run_cases script :=
  unfold alm_run;
  destruct (Nat.eqb (p_max_iter _) 0) eqn:Hmi;
  [ cbn [fst snd]
  | destruct (Nat.eqb (pb_m _) 0) eqn:Hm0;
    [ destruct script as [|r0 rest0]; cbn [fst snd] | ] ].

Lemma repeat_length' {A} (x : A) n : length (repeat x n) = n.
Proof. apply repeat_length. Qed.

Section Run.
  Variable P : alm_params (T:=R).
  Variable pb : alm_problem (T:=R).
  Variables (f0 : R) (g0 : list R) (nanv : R) (Σ0 : option (list R)) (y0 : list R).

  Lemma init_len_inv : length (initial_sigma P (pb_m pb) f0 g0 Σ0) = pb_m pb ->
    len_inv pb (init_state P pb f0 g0 nanv Σ0 y0).
  Proof. intros H. unfold len_inv, init_state, vconst; cbn. rewrite !repeat_length. auto. Qed.

  Lemma init_st_inv : sigma_inv P (pb_m pb) (initial_sigma P (pb_m pb) f0 g0 Σ0) ->
    st_inv P pb (init_state P pb f0 g0 nanv Σ0 y0).
  Proof. intros H. unfold st_inv, init_state, vconst; cbn. rewrite !repeat_length. auto. Qed.

  (* (1) penalties handed to the inner solver are positive (and uniform with single_penalty_factor) *)
  Lemma run_sigma_positive script :
    sigma_inv P (pb_m pb) (initial_sigma P (pb_m pb) f0 g0 Σ0) ->
    Forall (fun r => Forall (fun x => 0 < x) (it_Sigma r) /\ length (it_Sigma r) = pb_m pb)
           (fst (alm_run P pb f0 g0 nanv Σ0 y0 script)).
  Proof.
    intros Hinit. run_cases script.
    - constructor.
    - constructor.
    - constructor; [|constructor]. cbn. split; [constructor|]. symmetry. apply Nat.eqb_eq. exact Hm0.
    - eapply Forall_impl; [|apply loop_sigma_inv; auto; apply init_st_inv; exact Hinit].
      intros r (H1 & H2 & _). split; assumption.
  Qed.

  (* (2) never decrease — also when the initial penalties exceed max_penalty *)
  Lemma run_sigma_monotone script :
    sigma_inv P (pb_m pb) (initial_sigma P (pb_m pb) f0 g0 Σ0) ->
    chain (fun a b => Forall2 Rle (it_Sigma a) (it_Sigma b)) (fst (alm_run P pb f0 g0 nanv Σ0 y0 script)).
  Proof.
    intros Hinit. run_cases script; try exact I.
    apply loop_sigma_monotone. apply init_st_inv; exact Hinit.
  Qed.

  (* (2') exact cap: component k never exceeds max(initial Σ_k, max_penalty) *)
  Lemma run_sigma_bound script :
    sigma_inv P (pb_m pb) (initial_sigma P (pb_m pb) f0 g0 Σ0) ->
    Forall (fun r => Forall2 Rle (it_Sigma r) (map (fun s0 => Rmax s0 (p_max_pen P)) (initial_sigma P (pb_m pb) f0 g0 Σ0)))
           (fst (alm_run P pb f0 g0 nanv Σ0 y0 script)).
  Proof.
    intros Hinit. run_cases script.
    - constructor.
    - constructor.
    - constructor; [|constructor]. cbn [it_Sigma]. destruct Hinit as (L & _). apply Nat.eqb_eq in Hm0.
      rewrite Hm0 in L |- *. destruct (initial_sigma P 0 f0 g0 Σ0); [constructor|discriminate].
    - apply loop_sigma_bound.
      + apply init_st_inv; exact Hinit.
      + apply Forall_forall. intros b Hb. apply in_map_iff in Hb. destruct Hb as (? & <- & _). apply Rmax_r.
      + cbn [init_state s_Sigma]. generalize (initial_sigma P (pb_m pb) f0 g0 Σ0). intros l.
        induction l; cbn; constructor; [apply Rmax_l|assumption].
  Qed.

  (* (2'') hence never above max_penalty when the initial ones are not *)
  Lemma run_sigma_le_max script :
    sigma_inv P (pb_m pb) (initial_sigma P (pb_m pb) f0 g0 Σ0) ->
    Forall (fun x => x <= p_max_pen P) (initial_sigma P (pb_m pb) f0 g0 Σ0) ->
    Forall (fun r => Forall (fun x => x <= p_max_pen P) (it_Sigma r)) (fst (alm_run P pb f0 g0 nanv Σ0 y0 script)).
  Proof.
    intros Hinit Hcap. eapply Forall_impl; [|apply run_sigma_bound; exact Hinit].
    intros r H2. cbv beta in H2. revert H2 Hcap. generalize (it_Sigma r) (initial_sigma P (pb_m pb) f0 g0 Σ0).
    intros l l0 H2. remember (map (fun s0 : R => Rmax s0 (p_max_pen P)) l0) as B eqn:HB. revert l0 HB.
    induction H2 as [|x b l B' Hxb H2 IH]; intros l0 HB Hcap; constructor.
    - destruct l0 as [|s0 l0]; [discriminate|]. cbn in HB. inversion HB; subst. inversion Hcap; subst.
      rewrite Rmax_right in Hxb by assumption. exact Hxb.
    - destruct l0 as [|s0 l0]; [discriminate|]. cbn in HB. inversion HB; subst. inversion Hcap; subst. apply (IH l0); auto.
  Qed.

  (* (3) growth only where the violation persists (no hypothesis on the parameters at all) *)
  Lemma run_growth script :
    length (initial_sigma P (pb_m pb) f0 g0 Σ0) = pb_m pb ->
    Forall (rec_wf pb) (fst (alm_run P pb f0 g0 nanv Σ0 y0 script)) /\
    chain (fun a b => growth_rule P a b /\ buffers_linked a b) (fst (alm_run P pb f0 g0 nanv Σ0 y0 script)).
  Proof.
    intros Hlen. run_cases script.
    - split; [constructor|exact I].
    - split; [constructor|exact I].
    - split; [|exact I]. constructor; [|constructor]. apply Nat.eqb_eq in Hm0. unfold rec_wf. rewrite Hm0. cbn.
      repeat split. destruct (ir_err r0) as [[|? ?]|]; reflexivity.
    - apply loop_growth. apply init_len_inv; exact Hlen.
  Qed.

  (* (4) tolerances *)
  Lemma run_tol script :
    0 <= p_rho P <= 1 -> p_tol P <= p_init_tol P -> 0 <= p_init_tol P ->
    Forall (fun r => p_tol P <= it_tol r) (fst (alm_run P pb f0 g0 nanv Σ0 y0 script)) /\
    chain (fun a b => it_tol b <= it_tol a /\ it_tol b = Rmax (p_rho P * it_tol a) (p_tol P))
          (fst (alm_run P pb f0 g0 nanv Σ0 y0 script)).
  Proof.
    intros Hr Ht H0. run_cases script.
    - split; [constructor|exact I].
    - split; [constructor|exact I].
    - split; [|exact I]. constructor; [cbn; lra|constructor].
    - apply loop_tol; auto.
  Qed.

  (* (5) multipliers *)
  Lemma run_y script :
    0 <= p_M P -> length (pb_ub pb) = pb_m pb -> length y0 = pb_m pb ->
    Forall (fun r => y_ok P pb (it_y r)) (fst (alm_run P pb f0 g0 nanv Σ0 y0 script)).
  Proof.
    intros HM Hub Hy. run_cases script.
    - constructor.
    - constructor.
    - constructor; [|constructor]. cbn [it_y]. split; [exact Hy|]. apply Nat.eqb_eq in Hm0. intros k Hk. lia.
    - apply loop_y; auto.
  Qed.

  (* (6) number of outer iterations = number of inner solves <= max_iter; statistics are sums over the consumed prefix *)
  Lemma run_counts script :
    let tr := fst (alm_run P pb f0 g0 nanv Σ0 y0 script) in
    let f := snd (alm_run P pb f0 g0 nanv Σ0 y0 script) in
    (f_outer f <= p_max_iter P)%nat /\ f_outer f = length tr /\
    map it_res tr = firstn (length tr) script /\
    map it_i tr = seq 0 (length tr) /\
    f_iters f = fold_right Nat.add 0%nat (map (fun r => ir_iters (it_res r)) tr) /\
    f_fails f = length (filter (fun r => negb (is_converged (ir_status (it_res r)))) tr).
  Proof.
    cbv zeta. run_cases script.
    - cbn. repeat split; lia.
    - cbn. repeat split; lia.
    - apply Nat.eqb_neq in Hmi. cbn. destruct (is_converged (ir_status r0)); cbn; repeat split; lia.
    - apply Nat.eqb_neq in Hmi.
      destruct (loop_counts P pb script 0 (init_state P pb f0 g0 nanv Σ0 y0)) as (H1 & H2 & H3 & H4 & H5).
      destruct (loop_outer_le_max P pb script 0 (init_state P pb f0 g0 nanv Σ0 y0)) as (H6 & H7); [lia|].
      cbn [init_state s_iters s_fails] in *. repeat split; auto.
  Qed.

  (* (7) how the run ends when there are general constraints *)
  Lemma run_final script :
    p_max_iter P <> 0%nat -> pb_m pb <> 0%nat ->
    f_exhausted (snd (alm_run P pb f0 g0 nanv Σ0 y0 script)) = false ->
    exists (pre : list irecR) (r : irecR), fst (alm_run P pb f0 g0 nanv Σ0 y0 script) = pre ++ [r] /\
      Forall (continuing P) pre /\ ~ continuing P r /\ it_i r = length pre /\
      let f := snd (alm_run P pb f0 g0 nanv Σ0 y0 script) in
      f_status f = rec_status P r /\ f_outer f = S (it_i r) /\ f_Sigma f = Some (it_Sigma r) /\
      f_eps f = Some (ir_eps (it_res r)) /\ f_delta f = Some (it_norm r) /\
      f_norm_pen f = norm_penalty (it_Sigma r) /\ f_y f = pick (pb_m pb) (ir_y (it_res r)) (it_y r).
  Proof.
    intros Hmi' Hm0'. unfold alm_run.
    apply Nat.eqb_neq in Hmi', Hm0'. rewrite Hmi', Hm0'. intros Hex.
    destruct (loop_final P pb script 0 _ Hex) as (pre & r & Htr & Hpre & Hlast & Hf).
    exists pre, r. split; [exact Htr|]. split; [exact Hpre|]. split; [exact Hlast|]. split; [|exact Hf].
    destruct (loop_counts P pb script 0 (init_state P pb f0 g0 nanv Σ0 y0)) as (_ & _ & H3 & _).
    rewrite Htr in H3. rewrite map_app, app_length in H3. cbn [map length] in H3.
    rewrite Nat.add_1_r, seq_S in H3. apply app_inj_tail in H3. destruct H3 as [_ H3]. cbn in H3. exact H3.
  Qed.
End Run.

(* ------------------------------------------------------------------ consequences for the final status *)

Section Status.
  Variable P : alm_params (T:=R).

  Lemma exit_status_converged c oot ooi intr : exit_status c oot ooi intr = Converged <-> c = true.
  Proof. unfold exit_status. destruct c, oot, ooi, intr; split; intros; try discriminate; auto. Qed.
  (* Interrupted out of the exit block: ALM's own flag is set and no higher-ranked condition holds *)
  Lemma exit_status_interrupted c oot ooi intr :
    exit_status c oot ooi intr = Interrupted <-> c = false /\ oot = false /\ ooi = false /\ intr = true.
  Proof. unfold exit_status. destruct c, oot, ooi, intr; split; intros; try discriminate; try tauto; intuition discriminate. Qed.
  Lemma exit_status_no_flag c oot ooi : exit_status c oot ooi false <> Interrupted.
  Proof. unfold exit_status. destruct c, oot, ooi; discriminate. Qed.

  Lemma rec_status_converged_iff (r : irecR) :
    rec_status P r = Converged <->
    ir_status (it_res r) = Converged /\ ir_eps (it_res r) <= p_tol P /\ it_norm r <= p_dual_tol P.
  Proof.
    unfold rec_status. rewrite <- rec_conv_iff.
    destruct (is_interrupted (ir_status (it_res r))) eqn:Hi.
    - apply is_interrupted_iff in Hi. split; [discriminate|]. intros Hc. apply rec_conv_iff in Hc.
      destruct Hc as [Hc _]. congruence.
    - apply exit_status_converged.
  Qed.

  (* Interrupted: the inner solver said so, or ALM's own flag was set after a solve that ended otherwise and none of
     Converged / MaxTime / MaxIter applies *)
  Lemma rec_status_interrupted_iff (r : irecR) :
    rec_status P r = Interrupted <->
    ir_status (it_res r) = Interrupted \/
    (ir_stop (it_res r) = true /\ rec_conv P r = false /\ ir_oot (it_res r) = false /\ rec_ooi P r = false).
  Proof.
    unfold rec_status. destruct (is_interrupted (ir_status (it_res r))) eqn:Hi.
    - apply is_interrupted_iff in Hi. tauto.
    - rewrite exit_status_interrupted. split.
      + intros (A & B & C & D). right. tauto.
      + intros [H|H]; [apply is_interrupted_iff in H; congruence|tauto].
  Qed.

  (* the status of the record at which ALM's own flag is read as set: the ranking spelled out *)
  Lemma rec_status_stop (r : irecR) : ir_stop (it_res r) = true ->
    rec_exit P r = true /\
    rec_status P r =
      (if is_interrupted (ir_status (it_res r)) then Interrupted
       else if rec_conv P r then Converged else if ir_oot (it_res r) then MaxTime
       else if rec_ooi P r then MaxIter else Interrupted) /\
    (rec_status P r = Converged \/ rec_status P r = MaxTime \/ rec_status P r = MaxIter \/ rec_status P r = Interrupted).
  Proof.
    intros Hs. unfold rec_exit, rec_status, exit_status. rewrite Hs.
    destruct (is_interrupted _), (rec_conv P r), (ir_oot _), (rec_ooi P r); cbn; auto 10.
  Qed.

  (* Converged > MaxTime > MaxIter > Interrupted (own flag), and MaxIter only on the last permitted iteration *)
  Lemma rec_status_selection (r : irecR) : ~ continuing P r ->
    ir_status (it_res r) <> Interrupted -> rec_conv P r = false ->
    (ir_oot (it_res r) = true -> rec_status P r = MaxTime) /\
    (ir_oot (it_res r) = false -> S (it_i r) = p_max_iter P -> rec_status P r = MaxIter) /\
    (ir_oot (it_res r) = false -> S (it_i r) <> p_max_iter P -> rec_status P r = Interrupted /\ ir_stop (it_res r) = true).
  Proof.
    intros Hnc Hni Hc. unfold rec_status, continuing, rec_exit in *.
    destruct (is_interrupted (ir_status (it_res r))) eqn:Hi; [apply is_interrupted_iff in Hi; contradiction|].
    rewrite Hc in *. cbn [orb exit_status] in *. split; [|split]; intros Ho; rewrite Ho in *.
    - reflexivity.
    - intros Hooi. apply Nat.eqb_eq in Hooi. unfold rec_ooi. rewrite Hooi. reflexivity.
    - intros Hooi. apply Nat.eqb_neq in Hooi. unfold rec_ooi in *. rewrite Hooi in *. cbn [orb] in *.
      destruct (ir_stop (it_res r)); [split; reflexivity|]. exfalso. apply Hnc. split; reflexivity.
  Qed.

  Lemma continuing_facts (r : irecR) : continuing P r ->
    ir_status (it_res r) <> Interrupted /\ rec_conv P r = false /\ ir_oot (it_res r) = false /\
    S (it_i r) <> p_max_iter P /\ ir_stop (it_res r) = false.
  Proof.
    intros [Hi Hx]. unfold rec_exit in Hx. apply orb_false_iff in Hx. destruct Hx as [Hx Hs].
    apply orb_false_iff in Hx. destruct Hx as [Hx Ho].
    apply orb_false_iff in Hx. destruct Hx as [Hc Hooi]. repeat split; auto.
    - intros H. apply is_interrupted_iff in H. congruence.
    - apply Nat.eqb_neq. exact Hooi.
  Qed.
End Status.

(* ------------------------------------------------------------------ the two configuration edges *)

(* one more iteration follows a continuing one *)
Lemma loop_two_steps (P : alm_params (T:=R)) pb i s r1 r2 rest : continuing P (mkrec P pb i s r1) ->
  exists tr', fst (alm_loop P pb i s (r1 :: r2 :: rest)) = mkrec P pb i s r1 :: mkrec P pb (S i) (next P pb i s r1) r2 :: tr'.
Proof.
  intros [Hi Hx]. rewrite alm_loop_cons. cbn [it_res mkrec] in Hi. rewrite Hi, Hx. cbn [fst].
  rewrite alm_loop_cons. destruct (is_interrupted (ir_status r2)); [exists []; reflexivity|].
  destruct (rec_exit P (mkrec P pb (S i) (next P pb i s r1) r2)); [exists []; reflexivity|]. cbn [fst]. eexists; reflexivity.
Qed.

(* initial_tolerance < tolerance: the second inner solve gets a LARGER tolerance than the first *)
Lemma next_tol_increases (P : alm_params (T:=R)) pb i s r : s_eps s < p_tol P ->
  s_eps s < s_eps (next P pb i s r) /\ p_tol P <= s_eps (next P pb i s r).
Proof.
  intros H. cbn [next s_eps]. unfold nfmax. cbn [nisnan NumR]. rewrite cmax_R. cbn [nmul NumR].
  unfold Rmax. destruct (Rle_dec _ _); lra.
Qed.

(* ------------------------------------------------------------------ concrete witnesses *)

Section Witness.
  (* ALM parameters as in the test-suite style, with small dyadic numbers *)
  Definition wP (itol tol : R) : alm_params (T:=R) :=
    {| p_tol := tol; p_dual_tol := 1/4; p_Delta := 4; p_init_pen := 1; p_init_pen_factor := 20; p_init_tol := itol;
       p_rho := 1/2; p_theta := 1/2; p_M := 4; p_max_pen := 64; p_min_pen := 1/2; p_max_iter := 2; p_single := false |}.
  Definition wpb : alm_problem (T:=R) := {| pb_split := 0; pb_lb := [Some (-1)]; pb_ub := [Some 1] |}.
  (* an inner solve that hits its iteration limit and leaves a constraint violation of 1 *)
  Definition wr : iresR :=
    {| ir_status := MaxIter; ir_eps := 1; ir_err := Some [1]; ir_y := None; ir_iters := 1%nat; ir_oot := false;
       ir_stop := false |}.

  Lemma w_continuing itol tol Σ0 nanv :
    continuing (wP itol tol) (mkrec (wP itol tol) wpb 0 (init_state (wP itol tol) wpb 0 [0] nanv Σ0 [0]) wr).
  Proof.
    split; [reflexivity|]. unfold rec_exit. apply orb_false_iff. split; [|reflexivity].
    apply orb_false_iff. split; [apply orb_false_iff; split|reflexivity].
    - destruct (rec_conv _ _) eqn:E; [|reflexivity]. apply rec_conv_iff in E. destruct E as [E _]. discriminate E.
    - reflexivity.
  Qed.

  Lemma w_trace itol tol Σ0 nanv :
    let P := wP itol tol in
    let s := init_state P wpb 0 [0] nanv Σ0 [0] in
    exists tr', fst (alm_run P wpb 0 [0] nanv Σ0 [0] [wr; wr]) = mkrec P wpb 0 s wr :: mkrec P wpb 1 (next P wpb 0 s wr) wr :: tr'.
  Proof.
    cbv zeta. unfold alm_run. change (Nat.eqb (p_max_iter (wP itol tol)) 0) with false.
    change (Nat.eqb (pb_m wpb) 0) with false. cbv iota.
    apply loop_two_steps. apply w_continuing.
  Qed.

  Lemma w_accept x : 0 < x -> initial_sigma (wP 1 (1/4)) 1 0 [0] (Some [x]) = [x].
  Proof.
    intros Hx. unfold initial_sigma, sigma_accepted, vall_finite, vnorm2, vsqnorm, vsum, redux. cbn.
    assert (0 < sqrt (x * x)) by (apply sqrt_lt_R0; nra).
    destruct (Rlt_bool_spec 0 (sqrt (x * x))); [reflexivity|lra].
  Qed.

  Lemma w_next_sigma itol tol nanv S0 σ : 
    let P := wP itol tol in
    s_Sigma S0 = [σ] -> length (s_err S0) = 1%nat -> s_err_old S0 = [nanv] ->
    s_Sigma (next P wpb 0 S0 wr) = [upd1 P true (Rabs 1) 1 nanv σ].
  Proof.
    cbv zeta. intros HΣ He Ho. cbn [next s_Sigma]. unfold err_of. cbn [ir_err wr].
    change (pb_m wpb) with 1%nat. cbn [pick length Nat.eqb]. 
    change (vnorminf [1]) with (Rabs 1). unfold update_penalty_weights.
    cbn [p_dual_tol wP nleb NumR p_single]. rewrite Rabs_R1.
    destruct (Rle_bool_spec 1 (1/4)); [lra|]. rewrite HΣ, Ho. reflexivity.
  Qed.

  (* caller Σ = 128 > max_penalty = 64 (allowed by the property): the second inner solve gets exactly 128 again —
     not lowered to the cap, not raised either *)
  Lemma w_sigma_above_cap_kept :
    let P := wP 1 (1/4) in
    sigma_inv P (pb_m wpb) (initial_sigma P (pb_m wpb) 0 [0] (Some [128])) /\
    exists a b tr', fst (alm_run P wpb 0 [0] 0 (Some [128]) [0] [wr; wr]) = a :: b :: tr' /\
      it_Sigma a = [128] /\ it_Sigma b = [128] /\ p_max_pen P < 128.
  Proof.
    cbv zeta. change (pb_m wpb) with 1%nat. rewrite (w_accept 128) by lra. split.
    - split; [reflexivity|]. split; [repeat constructor; lra|discriminate].
    - destruct (w_trace 1 (1/4) (Some [128]) 0) as (tr' & ->).
      do 3 eexists. split; [reflexivity|]. cbn [it_Sigma mkrec].
      assert (Hi : s_Sigma (init_state (wP 1 (1 / 4)) wpb 0 [0] 0 (Some [128]) [0]) = [128]).
      { cbn [init_state s_Sigma]. change (pb_m wpb) with 1%nat. apply w_accept. lra. }
      split; [exact Hi|]. split; [|cbn; lra].
      rewrite (w_next_sigma 1 (1/4) 0 _ 128); [|exact Hi|reflexivity|reflexivity].
      rewrite upd1_above_cap_unchanged; [reflexivity|cbn; lra].
  Qed.

  (* initial_tolerance = 1/2 < tolerance = 1: first solve below the final tolerance, then the tolerance goes UP *)
  Lemma tol_refuted_if_initial_below_final :
    exists (P : alm_params (T:=R)) pb f0 g0 nanv Σ0 y0 script,
      0 <= p_rho P <= 1 /\ 0 <= p_init_tol P /\ p_init_tol P < p_tol P /\
      ~ Forall (fun r => p_tol P <= it_tol r) (fst (alm_run P pb f0 g0 nanv Σ0 y0 script)) /\
      ~ chain (fun a b => it_tol b <= it_tol a) (fst (alm_run P pb f0 g0 nanv Σ0 y0 script)).
  Proof.
    exists (wP (1/2) 1), wpb, 0, [0], 0, None, [0], [wr; wr].
    split; [cbn; lra|]. split; [cbn; lra|]. split; [cbn; lra|].
    destruct (w_trace (1/2) 1 None 0) as (tr' & ->). split.
    - intros H. inversion H as [|? ? H1 _]; subst. cbn in H1. lra.
    - intros [H _]. cbn [it_tol mkrec] in H.
      destruct (next_tol_increases (wP (1/2) 1) wpb 0 (init_state (wP (1/2) 1) wpb 0 [0] 0 None [0]) wr) as [Hlt _];
        [cbn; lra|]. lra.
  Qed.

  (* non-vacuity: a configuration satisfying every hypothesis of the positive theorems, on which the loop runs two
     iterations and really grows the penalty (1 -> 4) and tightens the tolerance (1 -> 1/2) *)
  Lemma w_hyps :
    let P := wP 1 (1/4) in
    0 < p_max_pen P /\ (p_single P = true -> 1 <= p_Delta P) /\
    sigma_inv P (pb_m wpb) (initial_sigma P (pb_m wpb) 0 [0] None) /\
    Forall (fun x => x <= p_max_pen P) (initial_sigma P (pb_m wpb) 0 [0] None) /\
    0 <= p_rho P <= 1 /\ p_tol P <= p_init_tol P /\ 0 <= p_init_tol P /\
    0 <= p_M P /\ length (pb_ub wpb) = pb_m wpb /\ length [0] = pb_m wpb.
  Proof.
    cbv zeta. assert (Hi : initial_sigma (wP 1 (1/4)) (pb_m wpb) 0 [0] None = [1]).
    { unfold initial_sigma. cbn. destruct (Rlt_bool_spec 0 1); [reflexivity|lra]. }
    rewrite Hi. cbn. repeat split; try lra; try discriminate; repeat constructor; lra.
  Qed.

  Lemma w_run_grows :
    let P := wP 1 (1/4) in
    exists a b tr', fst (alm_run P wpb 0 [0] 0 None [0] [wr; wr]) = a :: b :: tr' /\
      it_Sigma a = [1] /\ it_Sigma b = [4] /\ it_tol a = 1 /\ it_tol b = 1/2 /\ it_y a = [0].
  Proof.
    cbv zeta. destruct (w_trace 1 (1/4) None 0) as (tr' & ->).
    assert (Hi : initial_sigma (wP 1 (1/4)) (pb_m wpb) 0 [0] None = [1]).
    { unfold initial_sigma. cbn. destruct (Rlt_bool_spec 0 1); [reflexivity|lra]. }
    do 3 eexists. split; [reflexivity|]. cbn [it_Sigma it_tol it_y mkrec]. split; [exact Hi|]. split; [|split; [reflexivity|split]].
    - rewrite (w_next_sigma 1 (1/4) 0 _ 1); [|exact Hi|reflexivity|reflexivity].
      rewrite upd1_value. cbn [orb p_max_pen p_Delta wP]. rewrite Rabs_R1.
      replace (4 * 1 / 1) with 4 by field. rewrite (Rmax_left 4 1) by lra. replace (4 * 1) with 4 by ring.
      rewrite (Rmin_right 64 4) by lra. rewrite (Rmax_right 1 4) by lra. reflexivity.
    - cbn [next s_eps init_state p_init_tol p_rho p_tol wP]. unfold nfmax. cbn [nisnan NumR]. rewrite cmax_R. cbn [nmul NumR].
      unfold Rmax. destruct (Rle_dec _ _); lra.
    - unfold y_in_of. cbn. unfold proj_mult1. numR. rbool; try lra. f_equal; lra.
  Qed.
End Witness.

(* ------------------------------------------------------------------ run-level statements about the way the loop ends *)

Section RunEnd.
  Variable P : alm_params (T:=R).
  Variable pb : alm_problem (T:=R).
  Variables (f0 : R) (g0 : list R) (nanv : R) (Σ0 : option (list R)) (y0 : list R) (script : list iresR).
  Hypothesis Hmi : p_max_iter P <> 0%nat.
  Hypothesis Hm : pb_m pb <> 0%nat.
  Hypothesis Hex : f_exhausted (snd (alm_run P pb f0 g0 nanv Σ0 y0 script)) = false.

  Lemma run_converged_iff :
    exists (pre : list irecR) (r : irecR), fst (alm_run P pb f0 g0 nanv Σ0 y0 script) = pre ++ [r] /\
      let f := snd (alm_run P pb f0 g0 nanv Σ0 y0 script) in
      (f_status f = Converged <->
       ir_status (it_res r) = Converged /\ ir_eps (it_res r) <= p_tol P /\ it_norm r <= p_dual_tol P) /\
      f_eps f = Some (ir_eps (it_res r)) /\ f_delta f = Some (it_norm r) /\ it_norm r = vnorminf (it_err r).
  Proof.
    destruct (run_final P pb f0 g0 nanv Σ0 y0 script Hmi Hm Hex) as (pre & r & Htr & Hpre & Hlast & Hi & Hf).
    cbv zeta in Hf. destruct Hf as (H1 & H2 & H3 & H4 & H5 & _).
    exists pre, r. split; [exact Htr|]. cbv zeta. rewrite H1. split; [apply rec_status_converged_iff|].
    split; [exact H4|]. split; [exact H5|].
    assert (Hwf : Forall (fun r => it_norm r = vnorminf (it_err r)) (fst (alm_run P pb f0 g0 nanv Σ0 y0 script))).
    { unfold alm_run. apply Nat.eqb_neq in Hmi, Hm. rewrite Hmi, Hm.
      apply (loop_trace_ind P pb (fun _ _ => True) (fun r => it_norm r = vnorminf (it_err r)) (fun _ _ => True)); auto. }
    rewrite Htr in Hwf. apply Forall_app in Hwf. destruct Hwf as [_ Hwf]. inversion Hwf as [|? ? Hr _]; subst.
    exact Hr.
  Qed.

  (* Interrupted is returned at once: no inner solve follows an interrupted one or one after which ALM's own stop flag was
     read as set, and the status says so (Interrupted iff the last inner solve was interrupted, or the flag was set after it
     and none of Converged / MaxTime / MaxIter applies) *)
  Lemma run_interrupted_immediate :
    exists (pre : list irecR) (r : irecR), fst (alm_run P pb f0 g0 nanv Σ0 y0 script) = pre ++ [r] /\
      Forall (fun a => ir_status (it_res a) <> Interrupted /\ ir_stop (it_res a) = false) pre /\
      (f_status (snd (alm_run P pb f0 g0 nanv Σ0 y0 script)) = Interrupted <->
       ir_status (it_res r) = Interrupted \/
       (ir_stop (it_res r) = true /\ rec_conv P r = false /\ ir_oot (it_res r) = false /\ length (pre ++ [r]) <> p_max_iter P)).
  Proof.
    destruct (run_final P pb f0 g0 nanv Σ0 y0 script Hmi Hm Hex) as (pre & r & Htr & Hpre & Hlast & Hi & Hf).
    cbv zeta in Hf. destruct Hf as (H1 & _).
    exists pre, r. split; [exact Htr|]. split.
    - eapply Forall_impl; [|exact Hpre]. intros a Ha. destruct (continuing_facts P a Ha) as (A & _ & _ & _ & B). split; assumption.
    - rewrite H1, rec_status_interrupted_iff, app_length. cbn [length]. rewrite Nat.add_1_r, <- Hi. unfold rec_ooi.
      destruct (Nat.eqb_spec (S (it_i r)) (p_max_iter P)); intuition congruence.
  Qed.

  (* status selection Converged > MaxTime > MaxIter > Interrupted (ALM's own flag); the loop never goes on after an exit
     condition; hands back Σ last used *)
  Lemma run_status_selection :
    exists (pre : list irecR) (r : irecR), fst (alm_run P pb f0 g0 nanv Σ0 y0 script) = pre ++ [r] /\
      Forall (fun a => ir_status (it_res a) <> Interrupted /\ rec_conv P a = false /\ ir_oot (it_res a) = false /\
                       S (it_i a) <> p_max_iter P /\ ir_stop (it_res a) = false) pre /\
      let f := snd (alm_run P pb f0 g0 nanv Σ0 y0 script) in
      (ir_status (it_res r) <> Interrupted -> rec_conv P r = false ->
         (ir_oot (it_res r) = true -> f_status f = MaxTime) /\
         (ir_oot (it_res r) = false -> length (pre ++ [r]) = p_max_iter P -> f_status f = MaxIter) /\
         (ir_oot (it_res r) = false -> length (pre ++ [r]) <> p_max_iter P ->
            f_status f = Interrupted /\ ir_stop (it_res r) = true)) /\
      f_Sigma f = Some (it_Sigma r) /\ f_outer f = length (pre ++ [r]) /\
      f_y f = pick (pb_m pb) (ir_y (it_res r)) (it_y r) /\ f_norm_pen f = norm_penalty (it_Sigma r).
  Proof.
    destruct (run_final P pb f0 g0 nanv Σ0 y0 script Hmi Hm Hex) as (pre & r & Htr & Hpre & Hlast & Hi & Hf).
    cbv zeta in Hf. destruct Hf as (H1 & H2 & H3 & H4 & H5 & H6 & H7).
    exists pre, r. split; [exact Htr|]. split.
    - eapply Forall_impl; [|exact Hpre]. intros a Ha. apply (continuing_facts P a Ha).
    - cbv zeta. rewrite H1, H2, H3, H6, H7, app_length, Hi. cbn [length]. rewrite Nat.add_1_r. split; [|repeat split; lia].
      intros Hni Hc. rewrite <- Hi. exact (rec_status_selection P r Hlast Hni Hc).
  Qed.

End RunEnd.

Section RunStop.
  Variable P : alm_params (T:=R).
  Variable pb : alm_problem (T:=R).
  Variables (f0 : R) (g0 : list R) (nanv : R) (Σ0 : option (list R)) (y0 : list R) (script : list iresR).
  Hypothesis Hmi : p_max_iter P <> 0%nat.
  Hypothesis Hm : pb_m pb <> 0%nat.

  (* a stop request ends the run: the record after whose inner solve ALM's own flag is read as set is the LAST one — no
     further inner solve — and the status follows the ranking Interrupted (inner) / Converged > MaxTime > MaxIter > Interrupted.
     No hypothesis that the script is long enough: the run does not ask for another element. *)
  Lemma run_stop_request_ends_run :
    forall (pre : list irecR) (r : irecR) (post : list irecR),
      fst (alm_run P pb f0 g0 nanv Σ0 y0 script) = pre ++ r :: post -> ir_stop (it_res r) = true ->
      post = [] /\
      let f := snd (alm_run P pb f0 g0 nanv Σ0 y0 script) in
      f_exhausted f = false /\ f_outer f = S (length pre) /\
      f_status f =
        (if is_interrupted (ir_status (it_res r)) then Interrupted
         else if rec_conv P r then Converged else if ir_oot (it_res r) then MaxTime
         else if Nat.eqb (S (length pre)) (p_max_iter P) then MaxIter else Interrupted) /\
      (f_status f = Converged \/ f_status f = MaxTime \/ f_status f = MaxIter \/ f_status f = Interrupted).
  Proof.
    intros pre r post Htr Hs. unfold alm_run in *. apply Nat.eqb_neq in Hmi, Hm. rewrite Hmi, Hm in *.
    destruct (loop_stop_ends P pb script 0 _ pre r post Htr Hs) as (Hpost & He & Ho & Hst & Hi).
    destruct (rec_status_stop P r Hs) as (_ & Hf & Hcases).
    split; [exact Hpost|]. cbv zeta. split; [exact He|]. rewrite Nat.add_0_l in Hi. split; [rewrite Ho, Hi; reflexivity|].
    rewrite Hst. split; [|exact Hcases]. rewrite Hf. unfold rec_ooi. rewrite Hi. reflexivity.
  Qed.
End RunStop.

(* ------------------------------------------------------------------ the two shortcuts *)

Lemma run_max_iter_0 (P : alm_params (T:=R)) pb f0 g0 nanv Σ0 y0 script : p_max_iter P = 0%nat ->
  fst (alm_run P pb f0 g0 nanv Σ0 y0 script) = [] /\
  let f := snd (alm_run P pb f0 g0 nanv Σ0 y0 script) in
  f_status f = MaxIter /\ f_outer f = 0%nat /\ f_Sigma f = None /\ f_y f = y0.
Proof. intros H. unfold alm_run. rewrite H. cbn. repeat split. Qed.

Lemma run_m0 (P : alm_params (T:=R)) pb f0 g0 nanv Σ0 y0 r rest :
  p_max_iter P <> 0%nat -> pb_m pb = 0%nat ->
  exists a, fst (alm_run P pb f0 g0 nanv Σ0 y0 (r :: rest)) = [a] /\
    it_tol a = p_tol P /\ it_Sigma a = [] /\ it_res a = r /\ it_y a = y0 /\
    let f := snd (alm_run P pb f0 g0 nanv Σ0 y0 (r :: rest)) in
    f_status f = ir_status r /\ f_outer f = 1%nat /\ f_Sigma f = None /\ f_eps f = Some (ir_eps r) /\
    f_delta f = Some 0 /\ f_iters f = ir_iters r /\
    (* with the inner solver's own contract (asked for `tolerance`, Converged means ε <= tolerance): *)
    ((ir_status r = Converged -> ir_eps r <= p_tol P) ->
     (f_status f = Converged <-> ir_status r = Converged /\ ir_eps r <= p_tol P)).
Proof.
  intros Hmi Hm. unfold alm_run. apply Nat.eqb_neq in Hmi. rewrite Hmi, Hm. cbn [Nat.eqb fst snd].
  eexists. split; [reflexivity|]. cbn. repeat split; auto; tauto.
Qed.
