(* LbfgsGenLib.v — what the GENERATED file coq/gen/LbfgsGen.v (translate/gen_lbfgs.py) is written against.  No proofs here.
     store_ops   the abstract column store of LBFGSStorage / LBFGS: the accessors s(i), y(i), ρ(i), α(i) as get / set pairs,
                 the members idx, full, the sizes n(), history(), and sto.resize(n, history).
                 `α(i) = NaN<config_t>` is so_mark_alpha, `std::isnan(α(i))` is so_alpha_isnan (the exclusion mark of
                 apply_masked: see Lbfgs.v for why it is not an ordinary number over R).
     gparams     LBFGSParams (stepsize == BasedOnCurvature as a bool)
     gres        result of a bool function that may throw
     vupd        v(j) = x on a coefficient vector *)
From Coq Require Import List ZArith Bool.
From Alpaqa Require Import Num.
Import ListNotations.

Record store_ops (T St : Type) := {
  so_n : St -> nat;
  so_history : St -> nat;
  so_idx : St -> nat;
  so_full : St -> bool;
  so_s : St -> nat -> list T;
  so_y : St -> nat -> list T;
  so_rho : St -> nat -> T;
  so_alpha : St -> nat -> T;
  so_alpha_isnan : St -> nat -> bool;
  so_set_s : St -> nat -> list T -> St;
  so_set_y : St -> nat -> list T -> St;
  so_set_rho : St -> nat -> T -> St;
  so_set_alpha : St -> nat -> T -> St;
  so_mark_alpha : St -> nat -> St;
  so_set_idx : St -> nat -> St;
  so_set_full : St -> bool -> St;
  so_resize : St -> nat -> nat -> St
}.
Arguments so_n {T St}. Arguments so_history {T St}. Arguments so_idx {T St}. Arguments so_full {T St}.
Arguments so_s {T St}. Arguments so_y {T St}. Arguments so_rho {T St}. Arguments so_alpha {T St}. Arguments so_alpha_isnan {T St}.
Arguments so_set_s {T St}. Arguments so_set_y {T St}. Arguments so_set_rho {T St}. Arguments so_set_alpha {T St}.
Arguments so_mark_alpha {T St}. Arguments so_set_idx {T St}. Arguments so_set_full {T St}. Arguments so_resize {T St}.

Record gparams (T : Type) := {
  gp_memory : nat;
  gp_min_div_fac : T;
  gp_min_abs_s : T;
  gp_cbfgs_alpha : T;
  gp_cbfgs_eps : T;
  gp_force_pos_def : bool;
  gp_curvature : bool
}.
Arguments gp_memory {T}. Arguments gp_min_div_fac {T}. Arguments gp_min_abs_s {T}. Arguments gp_cbfgs_alpha {T}.
Arguments gp_cbfgs_eps {T}. Arguments gp_force_pos_def {T}. Arguments gp_curvature {T}.

Inductive gres := GThrow | GRet (b : bool).

Fixpoint vupd {A} (l : list A) (i : nat) (x : A) : list A :=
  match l, i with
  | [], _ => []
  | _ :: l', O => x :: l'
  | a :: l', S i' => a :: vupd l' i' x
  end.
