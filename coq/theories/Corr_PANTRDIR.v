(* Corr_PANTRDIR.v — whole-run correspondence of the SHIPPED PANTR stack: PantrDir.pantrD at binary64 with the provider instance
   DirectionsTR.newton_tr_dir (NewtonTRDirection over SteihaugCG = Steihaug.cg_solve), against
   PANTRSolver<NewtonTRDirection>::operator() as run by harness/drv_solve.cpp (solver "pantr", direction "newtontr" / "newtontr_obs",
   parameters via the accel. and dir. option prefixes).
   Problem oracles: the drv_solve family and the default compositions exactly as in Corr_PANOC.v; the Hessian-vector member
   eval_hess_ψ_prod of the driver's VProblem as in Corr_PANOCDIR.v; eval_grad_ψ for the finite-difference products.
   Every progress-callback record (x, x̂, p, q, Δ, ρ, accepted, γ, L, ε, φγ, ψ, ∇ψ, ...), the final status / iterations / ε / outputs, the
   statistics incl. direction_update_rejected, evaluation (incl. the Hessian products / finite-difference gradients made inside
   apply) and callback counts, every observed apply call (arguments, index set J, returned q and model value, evaluations inside
   the call), and provider exceptions must coincide.
   stop() injected at an evaluation index: the number of evaluations made inside apply calls is not part of Panoc.counters; the
   per-call counts are taken from a first run of the MODEL without the evaluation-index stop (the two runs coincide up to the stop). *)
From Coq Require Import Floats List ZArith Bool Arith.
From Alpaqa Require Import Num NumF Vec Prox SolverStatus SolverKernels AugLag Lbfgs LMQR Panoc Corr_PANOC ZeroFpr Pantr Corr_PANTR
                           Directions Corr_PANOCDIR Steihaug DirectionsTR PantrDir.
Import ListNotations.
Local Open Scope float_scope.

Definition eps64 : float := 0x1p-52.

(* one observed NewtonTRDirection::apply call *)
Record ycall := mkYC { yc_gamma : float; yc_x : list float; yc_p : list float; yc_grad : list float; yc_delta : float;
                       yc_q : list float; yc_val : float; yc_J : list nat; yc_evals : nat }.

Inductive tdcase :=
| TDCase (n : nat) (Q : list (list float)) (c w : list float) (A : list (list float)) (d : list float)
         (Clb Cub Dlb Dub l1 : list float) (x0 y0 S0 : list float)
         (prm : trparams (T:=float))
         (hvf : float) (fd : bool) (fdstep : float)                 (* NewtonTRDirectionParams *)
         (ts tsr tmax : float) (mitab : list Z)                     (* SteihaugCGParams; mitab: nJ |-> (index_t) round(nJ * max_iter_factor) *)
         (provide_hess : bool)
         (stop_eval stop_cb : Z) (time0 : bool) (fuel btfuel : nat)
         (* what the implementation did *)
         (exc : bool)
         (status : status) (iterations : nat) (eps : float) (x_out y_out errz : list float)
         (ist : list nat)        (* stepsize_backtracks accelerated_step_rejected direction_failures direction_update_rejected *)
         (fst_ : list float)     (* final_gamma final_psi final_h final_phi *)
         (evals cbs : nat) (recs : list yrec) (calls : list ycall).

Definition hcostT (m : nat) (fd : bool) : nat := if fd then match m with O => 1 | _ => 3 end else 1.
Definition nsum (l : list nat) : nat := fold_left Nat.add l 0%nat.

Section Run.
  Variable cs : tdcase.
  Definition run_with (stop : list nat -> counters -> bool) (tab : list nat) : tresultD (T:=float) (ntrstate float) :=
    match cs with
    | TDCase n Q c w A d Clb Cub Dlb Dub l1 x0 y0 S0 prm hvf fd fdstep ts tsr tmax mitab ph se sc time0 fuel btfuel _ _ _ _ _ _ _ _ _ _ _ _ _ =>
        let dlb := map lb_of_float Dlb in let dub := map ub_of_float Dub in
        let clb := map lb_of_float Clb in let cub := map ub_of_float Cub in
        let m := length y0 in
        pantrD (o_psi_grad_full n Q c w A d dlb dub y0 S0) (o_psi_yhat n Q c w A d dlb dub y0 S0)
               (o_grad_L n Q c w A d) (o_grad_psi n Q c w A d dlb dub y0 S0)
               clb cub l1 (ntrstate float)
               (newton_tr_dir clb cub l1
                              true ph ph (Nat.eqb m 0)          (* BoxConstrProblem: inactive indices; VProblem: Hessian members iff provide_hess *)
                              (fun x y Σ => o_grad_psi n Q c w A d dlb dub y Σ x)
                              (vp_hess_psi_prod n Q w A d Dlb Dub)
                              hvf fd fdstep ts tsr (ub_of_float tmax) (fun nJ => nth nJ mitab 0%Z) eps64)
               (stop tab) (fun _ => time0)
               prm x0 y0 S0 (repeat nan m) btfuel ntr_new fuel
    end.
End Run.

Definition case_parts (cs : tdcase) : nat * bool * Z * Z :=
  match cs with
  | TDCase n Q c w A d Clb Cub Dlb Dub l1 x0 y0 S0 prm hvf fd fdstep ts tsr tmax mitab ph se sc time0 fuel btfuel _ _ _ _ _ _ _ _ _ _ _ _ _ =>
      (length y0, fd, se, sc)
  end.

Definition prods_of (r : tresultD (T:=float) (ntrstate float)) : list nat :=
  match r with
  | TDoneD _ o => nt_prods (tod_dir _ o)
  | TThrewD _ _ d _ => nt_prods d
  | _ => []
  end.

Definition run_tdcase (cs : tdcase) : tresultD (T:=float) (ntrstate float) :=
  let '(m, fd, se, sc) := case_parts cs in
  let hc := hcostT m fd in
  let stop (tab : list nat) (cn : counters) :=
    after se (evals_of m cn + hc * nsum (firstn (c_apply cn) tab)) || after sc (c_cb cn) in
  if (se <? 0)%Z then run_with cs stop []
  else
    let tab := prods_of (run_with cs (fun _ cn => after sc (c_cb cn)) []) in
    run_with cs stop tab.

Definition ycall_agree (a b : ycall) : bool :=
  feq (yc_gamma a) (yc_gamma b) && vfeq (yc_x a) (yc_x b) && vfeq (yc_p a) (yc_p b) && vfeq (yc_grad a) (yc_grad b) &&
  feq (yc_delta a) (yc_delta b) && vfeq (yc_q a) (yc_q b) && feq (yc_val a) (yc_val b) &&
  list_agree Nat.eqb (yc_J a) (yc_J b) && Nat.eqb (yc_evals a) (yc_evals b).

Definition ycalls_of (cs : tdcase) (calls : list (tcall (T:=float))) (prods : list nat) : list ycall :=
  match cs with
  | TDCase n Q c w A d Clb Cub Dlb Dub l1 x0 y0 S0 prm hvf fd fdstep ts tsr tmax mitab ph se sc time0 fuel btfuel _ _ _ _ _ _ _ _ _ _ _ _ _ =>
      let clb := map lb_of_float Clb in let cub := map ub_of_float Cub in
      let hc := hcostT (length y0) fd in
      map2 (fun (cl : tcall (T:=float)) (pr : nat) =>
              let px := tc_prox cl in
              mkYC (igam px) (ix px) (ip px) (igrad px) (tc_delta cl) (tc_q cl) (tc_val cl)
                   (ntr_J clb cub l1 (igam px) (ix px) (igrad px)) (hc * pr)%nat)
           calls prods
  end.

Definition tist_ofD (o : toutputs (T:=float)) (rej : nat) : list nat := tist_of o ++ [rej].

Definition chkpantrdir (cs : tdcase) : bool :=
  match cs with
  | TDCase n Q c w A d Clb Cub Dlb Dub l1 x0 y0 S0 prm hvf fd fdstep ts tsr tmax mitab ph se sc time0 fuel btfuel
           exc status iterations eps x_out y_out errz ist fst_ evals cbs recs calls =>
      match run_tdcase cs with
      | TDoneD _ oD =>
          let o := tod_out _ oD in
          let prods := nt_prods (tod_dir _ oD) in
          negb exc &&
          status_eqb (to_status o) status && Nat.eqb (to_iterations o) iterations && feq (to_eps o) eps &&
          vfeq (to_x o) x_out && vfeq (to_y o) y_out && vfeq (to_errz o) errz &&
          list_agree Nat.eqb (tist_ofD o (tod_rej _ oD)) ist && vfeq (tfst_of o) fst_ &&
          Nat.eqb (evals_of (length y0) (to_cnt o) + hcostT (length y0) fd * nsum prods) evals && Nat.eqb (c_cb (to_cnt o)) cbs &&
          list_agree yrec_agree (map yrec_of (to_log o)) recs &&
          list_agree ycall_agree (ycalls_of cs (tod_calls _ oD) prods) calls
      | TNotFiniteLD _ _ =>
          negb exc &&
          status_eqb StNotFinite status && Nat.eqb 0 iterations && feq infinity eps &&
          vfexact x0 x_out && vfexact y0 y_out && vfexact (repeat nan (length y0)) errz &&
          list_agree Nat.eqb [0; 0; 0; 0]%nat ist && Nat.eqb 0 cbs && match recs with [] => true | _ => false end &&
          match calls with [] => true | _ => false end
      | TOutOfFuelD _ => false
      | TThrewD _ log dd cl =>
          exc && list_agree yrec_agree (map yrec_of log) recs && list_agree ycall_agree (ycalls_of cs cl (nt_prods dd)) calls
      end
  end.

(* printable summary of the model run (dump of the first disagreeing case) *)
Definition modelpantrdir (cs : tdcase) :=
  let '(m, fd, se, sc) := case_parts cs in
  match run_tdcase cs with
  | TDoneD _ oD =>
      let o := tod_out _ oD in
      let prods := nt_prods (tod_dir _ oD) in
      (Some (to_status o, to_iterations o, to_eps o, (to_x o, to_y o, to_errz o), (tist_ofD o (tod_rej _ oD), tfst_of o)),
       ((evals_of m (to_cnt o) + hcostT m fd * nsum prods)%nat, prods, c_cb (to_cnt o), c_polls (to_cnt o)),
       map yrec_of (to_log o), ycalls_of cs (tod_calls _ oD) prods)
  | TNotFiniteLD _ L => (None, (0, [], 0, 0)%nat, [], [])
  | TOutOfFuelD _ => (None, (1, [], 1, 1)%nat, [], [])
  | TThrewD _ log dd cl => (None, (3, nt_prods dd, 3, 3)%nat, map yrec_of log, ycalls_of cs cl (nt_prods dd))
  end.
