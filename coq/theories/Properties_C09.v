(* Properties_C09.v — C09: L-BFGS two-loop recursion equals the dense BFGS inverse Hessian of its history.
   Only theorem statements closed by `exact`, each followed by Print Assumptions.
   Model: Lbfgs.v (circular buffer idx/full/slots exactly as lbfgs.hpp / lbfgs.tpp; abstract bounded history;
   BFGS operator Hop by the recursion H⁺ = (I-ρsyᵀ)H(I-ρysᵀ)+ρssᵀ, H₀ = γI).  `pw` is std::pow (arbitrary). *)
From Coq Require Import Reals List ZArith Bool Arith Lra.
From Alpaqa Require Import Num NumR Vec Lbfgs LbfgsProofs LbfgsAlgebra LbfgsMasked LbfgsGenLib LbfgsGen LbfgsGenInst LbfgsGenEq.
Import ListNotations.
Local Open Scope R_scope.

(* (1) ring refinement — for ALL operation sequences (update_sy / update incl. forced, apply, apply_masked, reset,
       resize, scale_y), all memory >= 1 (otherwise the constructor throws: resize = None), any dimension:
       the pairs shown by the accessors in foreach_fwd order are the abstract bounded history (accepted or forced pair
       appended, oldest dropped beyond `memory`, rejected pair changes nothing, reset/resize empty it, scale_y rescales
       the y's); current_history() is its length <= memory; foreach_rev is the reverse of foreach_fwd, no index twice. *)
Theorem C09_ring_refinement : forall (pw : R -> R -> R) (P : params R) (n : nat) (st0 : state R) (ops : list (op R)),
  resize P n = Some st0 ->
  let st := run pw P ops st0 in
  pairs st = abs_run pw P ops [] /\
  current_history st = length (abs_run pw P ops []) /\
  (length (abs_run pw P ops []) <= p_memory P)%nat /\
  rev_idx st = rev (fwd_idx st) /\ NoDup (fwd_idx st).
Proof. exact (@ring_refinement R NumR). Qed.
Print Assumptions C09_ring_refinement.

(* one update in isolation: returns the acceptance decision; rejected => state untouched; accepted => (s, y, 1/yᵀs) pushed *)
Theorem C09_update_stores_iff_accepted : forall (pw : R -> R -> R) (P : params R) (st : state R) s y pp forced,
  inv P st ->
  let r := update_sy pw P st s y pp forced in
  fst r = accepted pw P s y pp forced /\
  inv P (snd r) /\
  (fst r = false -> snd r = st) /\
  (fst r = true -> hist3 (snd r) = push (p_memory P) (hist3 st) (s, y, Some (n1 / vdot y s))).
Proof. exact (@update_sy_spec R NumR). Qed.
Print Assumptions C09_update_stores_iff_accepted.

(* (2) update_valid is the documented test *)
Theorem C09_update_valid_is_documented_test : forall (pw : R -> R -> R) (P : params R) (yts sts ptp : R),
  let a := if p_force_pos_def P then yts else Rabs yts in
  update_valid pw P yts sts ptp = true <->
  (p_min_abs_s P < sts /\ p_min_div_fac P * sts < a /\
   (0 < p_cbfgs_ϵ P -> sts * p_cbfgs_ϵ P * pw ptp (p_cbfgs_α P / 2) <= a)).
Proof. exact update_valid_spec. Qed.
Print Assumptions C09_update_valid_is_documented_test.

Theorem C09_accepted_pairs_have_positive_curvature : forall pw (P : params R) yts sts ptp,
  p_force_pos_def P = true -> 0 <= p_min_div_fac P -> 0 <= p_min_abs_s P ->
  update_valid pw P yts sts ptp = true -> 0 < yts.
Proof. exact accepted_positive_curvature. Qed.
Print Assumptions C09_accepted_pairs_have_positive_curvature.

(* (3) two-loop recursion = dense BFGS operator, end to end: after ANY interleaving of update / forced update /
       apply / apply_masked / reset / resize / scale_y (no side condition on the operations: apply_masked never writes
       the stored ρ, whatever q, γ, J it is given), apply(q, γ) returns false and leaves q alone on an empty history,
       and otherwise returns true and q := H q, H = BFGS inverse Hessian of the abstract history with the documented
       initial scaling. *)
Theorem C09_apply_is_dense_bfgs_of_history : forall (pw : R -> R -> R) (P : params R) n st0 ops q γ,
  resize P n = Some st0 ->
  let st := run pw P ops st0 in
  let h := abs_run pw P ops [] in
  let o := snd (step pw P st (OApply q γ)) in
  match h with
  | [] => o_ret o = 0%nat /\ o_q o = q
  | _ => o_ret o = 1%nat /\ o_q o = Hbfgs h (doc_γ P h γ) q
  end.
Proof. exact apply_after_any_history. Qed.
Print Assumptions C09_apply_is_dense_bfgs_of_history.

(* stored ρ = 1/(yᵀs) is an invariant of EVERY operation, apply_masked included *)
Theorem C09_rho_ok_invariant : forall (pw : R -> R -> R) (P : params R) ops st,
  inv P st -> rho_ok st -> inv P (run pw P ops st) /\ rho_ok (run pw P ops st).
Proof. exact run_rho_ok. Qed.
Print Assumptions C09_rho_ok_invariant.

(* apply_masked (any q, γ, J; also when it throws or returns false) leaves the stored history alone: the
   (s, y, ρ) triples in foreach_fwd order, s / y / ρ of every slot, current_history(); it only writes the workspace α *)
Theorem C09_apply_masked_preserves_history : forall (pw : R -> R -> R) (P : params R) st q γ J,
  let st' := snd (apply_masked pw P st q γ J) in
  hist3 st' = hist3 st /\
  (forall j, sl_s (get st' j) = sl_s (get st j) /\ sl_y (get st' j) = sl_y (get st j) /\ sl_ρ (get st' j) = sl_ρ (get st j)) /\
  current_history st' = current_history st /\
  (rho_ok st -> rho_ok st').
Proof. exact apply_masked_keeps_history. Qed.
Print Assumptions C09_apply_masked_preserves_history.

(* the same for any single state whose stored ρ are intact *)
Theorem C09_apply_is_dense_bfgs_of_stored_pairs : forall (P : params R) st q γ,
  inv P st -> rho_ok st ->
  let r := apply P st q γ in
  if is_empty st then r = (false, q, st)
  else fst (fst r) = true /\ snd (fst r) = Hbfgs (pairs st) (doc_γ P (pairs st) γ) q.
Proof. exact apply_is_H. Qed.
Print Assumptions C09_apply_is_dense_bfgs_of_stored_pairs.

(* in any number system (also binary64, bit for bit): the two loops over the ring = the recursive two-loop over the slots *)
Theorem C09_two_loops_are_the_recursion : forall (P : params R) st q γ,
  inv P st -> is_empty st = false ->
  let r := apply P st q γ in
  fst (fst r) = true /\ snd (fst r) = TLrec (rev (hist st)) (apply_γ P st γ) q.
Proof. exact (@apply_is_TLrec R NumR). Qed.
Print Assumptions C09_two_loops_are_the_recursion.

Theorem C09_curvature_scaling : forall (P : params R) h s y γ,
  p_curvature P = true \/ γ < 0 -> doc_γ P (h ++ [(s, y)]) γ = rdot s y / rdot y y.
Proof. exact curvature_scaling. Qed.
Print Assumptions C09_curvature_scaling.

(* (4) the dense operator: symmetric, secant equation for the newest pair, positive definite *)
Theorem C09_H_symmetric : forall n h γ, wf n h -> forall u v, length u = n -> length v = n ->
  rdot (Hop h γ u) v = rdot u (Hop h γ v).
Proof. exact Hop_symmetric. Qed.
Print Assumptions C09_H_symmetric.

Theorem C09_H_secant : forall n s y h γ, wf n h -> length s = n -> length y = n -> rdot y s <> 0 ->
  Hop ((s, y) :: h) γ y = s.
Proof. exact Hop_secant. Qed.
Print Assumptions C09_H_secant.

Theorem C09_H_positive_definite : forall n h γ, wf n h -> 0 < γ -> Forall (fun p => 0 < rdot (snd p) (fst p)) h ->
  forall v, length v = n -> 0 <= rdot (Hop h γ v) v /\ (0 < rdot v v -> 0 < rdot (Hop h γ v) v).
Proof. exact Hop_posdef. Qed.
Print Assumptions C09_H_positive_definite.

(* positive definite when positive curvature is enforced: force_pos_def, nonnegative thresholds, no forced update,
   scale_y by positive factors only — for EVERY operation sequence (apply / apply_masked / reset / resize anywhere) *)
Theorem C09_positive_definite_when_curvature_enforced : forall pw (P : params R) ops n γ,
  p_force_pos_def P = true -> 0 <= p_min_div_fac P -> 0 <= p_min_abs_s P ->
  Forall enforcing ops ->
  let h := abs_run pw P ops [] in
  wf n h -> h <> [] -> (p_curvature P = true \/ γ <> 0) ->
  forall v, length v = n -> 0 < rdot v v -> 0 < rdot (Hbfgs h (doc_γ P h γ) v) v.
Proof. exact posdef_when_enforced. Qed.
Print Assumptions C09_positive_definite_when_curvature_enforced.

(* (5) masked variant: on the index set J the result is the same two-loop construction run on the J-restricted
       vectors with ρ recomputed on J and pairs that fail the documented test on J skipped; outside J q is untouched;
       the stored history and every stored ρ are unchanged (so rho_ok is kept).
       (J without repetition, in range; when J has n entries it is 0..n-1 in order, as an ascending index set is.)
       masked_plan = (pairs valid on J newest first, initial scaling: the given γ or, if curvature-based / γ < 0,
       1/(ρ yᵀy) of the most recent valid pair giving a non-negative value, success flag). *)
Theorem C09_masked_is_restricted_construction : forall (pw : R -> R -> R) (P : params R) st q γ J,
  inv P st -> is_empty st = false -> cbfgs_on P = false ->
  NoDup J -> (forall j, In j J -> (j < length q)%nat) ->
  (length J = length q -> J = seq 0 (length q)) ->
  (forall sl, In sl (hist st) -> length (sl_s sl) = length q /\ length (sl_y sl) = length q) ->
  let r := apply_masked pw P st q γ J in
  let '(kept, γ', ok) := masked_plan pw P J (rev (hist st)) (if p_curvature P then -1 else γ) in
  (hist3 (snd r) = hist3 st /\ (forall j, sl_ρ (get (snd r) j) = sl_ρ (get st j)) /\ (rho_ok st -> rho_ok (snd r))) /\
  (forall j, ~ In j J -> nth j (snd (fst r)) 0 = nth j q 0) /\
  length (snd (fst r)) = length q /\
  if ok then fst (fst r) = MRet true /\ restr J (snd (fst r)) = Hop kept γ' (restr J q)
  else fst (fst r) = MRet false.
Proof. exact apply_masked_restricted. Qed.
Print Assumptions C09_masked_is_restricted_construction.

(* (6) scale_y acts on the dense model as rescaling every stored y (and keeps ρ = 1/(yᵀs)) *)
Theorem C09_scale_y_is_dense_rescale : forall (P : params R) st f, inv P st ->
  inv P (scale_y st f) /\ hist3 (scale_y st f) = map (scale3 f) (hist3 st) /\ (rho_ok st -> rho_ok (scale_y st f)).
Proof. exact scale_y_dense. Qed.
Print Assumptions C09_scale_y_is_dense_rescale.

(* (7) the former finding F7 (repaired in /repo by 9c14560e5): apply_masked used to overwrite the stored ρ with the
       J-restricted values, so a later unmasked apply was not the BFGS operator of the stored pairs.  The old witness
       history now gives the dense result: memory 2, n 2, update(s=[1,1], y=[2,1]); apply_masked([1,0], γ=-1, J={0});
       apply([1,0], γ=-1) returns [7/15, 1/15] = H [1,0]; the stored ρ is still 1/(yᵀs) = 1/3 (not 1/(s₀y₀) = 1/2). *)
Example C09_apply_after_masked_is_dense_bfgs :
  let P := {| p_memory := 2; p_min_div_fac := 0; p_min_abs_s := 0; p_cbfgs_α := 1; p_cbfgs_ϵ := 0;
              p_force_pos_def := true; p_curvature := false |} in
  let pw := fun _ _ : R => 0 in
  let ops := [OUpdSy [1; 1] [2; 1] 0 false; OApplyM [1; 0] (-1) [0%nat]] in
  let st0 := {| st_n := 2; st_idx := 0; st_full := false; st_slots := repeat (slot0 2) 2 |} in
  resize P 2 = Some st0 /\ has_masked ops = true /\
  let st := run pw P ops st0 in
  pairs st = [([1; 1], [2; 1])] /\
  map (fun sl => ρval (sl_ρ sl)) (hist st) = [1/3] /\
  snd (step pw P st (OApply [1; 0] (-1))) = {| o_ret := 1; o_q := [7/15; 1/15] |} /\
  Hbfgs (pairs st) (doc_γ P (pairs st) (-1)) [1; 0] = [7/15; 1/15].
Proof. exact apply_after_masked_witness. Qed.
Print Assumptions C09_apply_after_masked_is_dense_bfgs.

(* non-vacuity: a concrete reachable state with wrap-around (memory 2, three accepted pairs, one rejected, an
   apply_masked on J = {1} in between) meets the hypotheses; the operator does something there *)
Example C09_nonvacuous :
  let P := {| p_memory := 2; p_min_div_fac := 0; p_min_abs_s := 0; p_cbfgs_α := 1; p_cbfgs_ϵ := 0;
              p_force_pos_def := true; p_curvature := true |} in
  let ops := [OUpdSy [1; 0] [2; 1] 0 false; OUpdSy [1; 1] [-1; 0] 0 false; OUpdSy [0; 1] [1; 3] 0 false; OApplyM [1; 1] 1 [1%nat]; OUpdSy [1; 1] [3; 1] 0 false] in
  exists st0, resize P 2 = Some st0 /\ has_masked ops = true /\
    abs_run wpw P ops [] = [([0; 1], [1; 3]); ([1; 1], [3; 1])] /\
    wf 2 (abs_run wpw P ops []) /\ Forall (fun p => 0 < rdot (snd p) (fst p)) (abs_run wpw P ops []) /\
    0 < doc_γ P (abs_run wpw P ops []) (-1).
Proof.
  cbn zeta. eexists; split; [reflexivity|]. split; [reflexivity|].
  assert (E : abs_run wpw {| p_memory := 2; p_min_div_fac := 0; p_min_abs_s := 0; p_cbfgs_α := 1; p_cbfgs_ϵ := 0;
              p_force_pos_def := true; p_curvature := true |}
              [OUpdSy [1; 0] [2; 1] 0 false; OUpdSy [1; 1] [-1; 0] 0 false; OUpdSy [0; 1] [1; 3] 0 false; OApplyM [1; 1] 1 [1%nat]; OUpdSy [1; 1] [3; 1] 0 false] []
            = [([0; 1], [1; 3]); ([1; 1], [3; 1])]) by (rcompute; reflexivity).
  rewrite E. split; [reflexivity|]. split; [repeat constructor|]. split; [repeat constructor; cbn; lra|].
  rcompute; lra.
Qed.

(* ---------------------------------------------------------------------------------------------------------------------------
   (8) The same statements for the code REGENERATED from lbfgs.tpp / lbfgs.hpp on every run (coq/gen/LbfgsGen.v, translator
       translate/gen_lbfgs.py): g_update_valid, g_update_sy_impl, g_apply (its two loop bodies g_apply_rev_step /
       g_apply_fwd_step over the generated iteration order g_foreach_rev / g_foreach_fwd), g_apply_masked_impl (g_..._rev_step,
       g_..._fwd_step, the lambdas dotJ / axmyJ / scalJ), g_scale_y, g_reset, g_resize — run on the column store of
       LbfgsGenInst.v.  They follow from the piece-by-piece equalities of LbfgsGenEq.v (g_<name>_eq), so a source change that
       changes a generated piece breaks the equality named after it, and with it these obligations. *)
Theorem C09_gen_update_valid_is_documented_test : forall (pw : R -> R -> R) (P : params R) (yts sts ptp : R),
  let a := if p_force_pos_def P then yts else Rabs yts in
  g_update_valid lbfgs_ops pw (gp_of P) yts sts ptp = true <->
  (p_min_abs_s P < sts /\ p_min_div_fac P * sts < a /\
   (0 < p_cbfgs_ϵ P -> sts * p_cbfgs_ϵ P * pw ptp (p_cbfgs_α P / 2) <= a)).
Proof. exact gen_update_valid_spec. Qed.
Print Assumptions C09_gen_update_valid_is_documented_test.

(* whole runs of the generated code from the constructor: ring refinement with the GENERATED order / current_history *)
Theorem C09_gen_ring_refinement : forall (pw : R -> R -> R) (P : params R) (n : nat) (st0 : state R) (ops : list (op R)),
  gctor pw P n = Some st0 ->
  let st := grun pw P ops st0 in
  gpairs pw P st = abs_run pw P ops [] /\
  g_current_history lbfgs_ops pw (gp_of P) st = length (abs_run pw P ops []) /\
  (length (abs_run pw P ops []) <= p_memory P)%nat /\
  g_foreach_rev lbfgs_ops pw (gp_of P) st = rev (g_foreach_fwd lbfgs_ops pw (gp_of P) st) /\
  NoDup (g_foreach_fwd lbfgs_ops pw (gp_of P) st).
Proof. exact gen_ring_refinement. Qed.
Print Assumptions C09_gen_ring_refinement.

Theorem C09_gen_update_stores_iff_accepted : forall (pw : R -> R -> R) (P : params R) (st : state R) s y pp forced,
  inv P st ->
  let r := g_update_sy_impl lbfgs_ops pw (gp_of P) st s y pp forced in
  fst r = accepted pw P s y pp forced /\
  inv P (snd r) /\
  (fst r = false -> snd r = st) /\
  (fst r = true -> hist3 (snd r) = push (p_memory P) (hist3 st) (s, y, Some (n1 / vdot y s))).
Proof. exact gen_update_stores_iff_accepted. Qed.
Print Assumptions C09_gen_update_stores_iff_accepted.

(* the generated two-loop recursion = dense BFGS operator of the abstract history, after ANY run of generated operations *)
Theorem C09_gen_apply_is_dense_bfgs_of_history : forall (pw : R -> R -> R) (P : params R) n st0 ops q γ,
  gctor pw P n = Some st0 ->
  let st := grun pw P ops st0 in
  let h := abs_run pw P ops [] in
  let o := snd (gstep pw P st (OApply q γ)) in
  match h with
  | [] => o_ret o = 0%nat /\ o_q o = q
  | _ => o_ret o = 1%nat /\ o_q o = Hbfgs h (doc_γ P h γ) q
  end.
Proof. exact gen_apply_after_any_history. Qed.
Print Assumptions C09_gen_apply_is_dense_bfgs_of_history.

Theorem C09_gen_apply_is_dense_bfgs_of_stored_pairs : forall (pw : R -> R -> R) (P : params R) st q γ,
  inv P st -> rho_ok st ->
  let r := g_apply lbfgs_ops pw (gp_of P) st q γ in
  if is_empty st then r = (false, q, st)
  else fst (fst r) = true /\ snd (fst r) = Hbfgs (pairs st) (doc_γ P (pairs st) γ) q.
Proof. exact gen_apply_is_H. Qed.
Print Assumptions C09_gen_apply_is_dense_bfgs_of_stored_pairs.

Theorem C09_gen_two_loops_are_the_recursion : forall (pw : R -> R -> R) (P : params R) st q γ,
  inv P st -> is_empty st = false ->
  let r := g_apply lbfgs_ops pw (gp_of P) st q γ in
  fst (fst r) = true /\ snd (fst r) = TLrec (rev (hist st)) (apply_γ P st γ) q.
Proof. exact gen_apply_is_TLrec. Qed.
Print Assumptions C09_gen_two_loops_are_the_recursion.

Theorem C09_gen_apply_masked_preserves_history : forall (pw : R -> R -> R) (P : params R) st q γ J,
  inv P st ->
  let st' := snd (g_apply_masked_impl lbfgs_ops pw (gp_of P) st q γ J) in
  hist3 st' = hist3 st /\
  (forall j, sl_s (get st' j) = sl_s (get st j) /\ sl_y (get st' j) = sl_y (get st j) /\ sl_ρ (get st' j) = sl_ρ (get st j)) /\
  current_history st' = current_history st /\
  (rho_ok st -> rho_ok st').
Proof. exact gen_apply_masked_keeps_history. Qed.
Print Assumptions C09_gen_apply_masked_preserves_history.

Theorem C09_gen_masked_is_restricted_construction : forall (pw : R -> R -> R) (P : params R) st q γ J,
  inv P st -> is_empty st = false -> cbfgs_on P = false ->
  NoDup J -> (forall j, In j J -> (j < length q)%nat) ->
  (length J = length q -> J = seq 0 (length q)) ->
  (forall sl, In sl (hist st) -> length (sl_s sl) = length q /\ length (sl_y sl) = length q) ->
  let r := g_apply_masked_impl lbfgs_ops pw (gp_of P) st q γ J in
  let '(kept, γ', ok) := masked_plan pw P J (rev (hist st)) (if p_curvature P then -1 else γ) in
  (hist3 (snd r) = hist3 st /\ (forall j, sl_ρ (get (snd r) j) = sl_ρ (get st j)) /\ (rho_ok st -> rho_ok (snd r))) /\
  (forall j, ~ In j J -> nth j (snd (fst r)) 0 = nth j q 0) /\
  length (snd (fst r)) = length q /\
  if ok then fst (fst r) = GRet true /\ restr J (snd (fst r)) = Hop kept γ' (restr J q)
  else fst (fst r) = GRet false.
Proof. exact gen_apply_masked_restricted. Qed.
Print Assumptions C09_gen_masked_is_restricted_construction.

Theorem C09_gen_scale_y_is_dense_rescale : forall (pw : R -> R -> R) (P : params R) st f, inv P st -> ρ_some st ->
  inv P (g_scale_y lbfgs_ops pw (gp_of P) st f) /\ hist3 (g_scale_y lbfgs_ops pw (gp_of P) st f) = map (scale3 f) (hist3 st) /\
  (rho_ok st -> rho_ok (g_scale_y lbfgs_ops pw (gp_of P) st f)).
Proof. exact gen_scale_y_dense. Qed.
Print Assumptions C09_gen_scale_y_is_dense_rescale.

(* non-vacuity for the generated code: the constructor succeeds, and the wrap-around run of C09_nonvacuous executed by the
   GENERATED functions stores the same two pairs (in the generated foreach_fwd order) *)
Example C09_gen_nonvacuous :
  let P := {| p_memory := 2; p_min_div_fac := 0; p_min_abs_s := 0; p_cbfgs_α := 1; p_cbfgs_ϵ := 0;
              p_force_pos_def := true; p_curvature := true |} in
  let ops := [OUpdSy [1; 0] [2; 1] 0 false; OUpdSy [1; 1] [-1; 0] 0 false; OUpdSy [0; 1] [1; 3] 0 false; OApplyM [1; 1] 1 [1%nat]; OUpdSy [1; 1] [3; 1] 0 false] in
  exists st0, gctor wpw P 2 = Some st0 /\
    gpairs wpw P (grun wpw P ops st0) = [([0; 1], [1; 3]); ([1; 1], [3; 1])] /\
    g_current_history lbfgs_ops wpw (gp_of P) (grun wpw P ops st0) = 2%nat.
Proof.
  cbn zeta. eexists; split; [reflexivity|].
  pose proof (C09_gen_ring_refinement wpw {| p_memory := 2; p_min_div_fac := 0; p_min_abs_s := 0; p_cbfgs_α := 1; p_cbfgs_ϵ := 0;
              p_force_pos_def := true; p_curvature := true |} 2 _
     [OUpdSy [1; 0] [2; 1] 0 false; OUpdSy [1; 1] [-1; 0] 0 false; OUpdSy [0; 1] [1; 3] 0 false; OApplyM [1; 1] 1 [1%nat]; OUpdSy [1; 1] [3; 1] 0 false]
     eq_refl) as (Hp & Hc & _). cbn zeta in Hp, Hc.
  assert (E : abs_run wpw {| p_memory := 2; p_min_div_fac := 0; p_min_abs_s := 0; p_cbfgs_α := 1; p_cbfgs_ϵ := 0;
              p_force_pos_def := true; p_curvature := true |}
              [OUpdSy [1; 0] [2; 1] 0 false; OUpdSy [1; 1] [-1; 0] 0 false; OUpdSy [0; 1] [1; 3] 0 false; OApplyM [1; 1] 1 [1%nat]; OUpdSy [1; 1] [3; 1] 0 false] []
            = [([0; 1], [1; 3]); ([1; 1], [3; 1])]) by (rcompute; reflexivity).
  rewrite E in Hp, Hc. split; [exact Hp|exact Hc].
Qed.
