(* ZeroFpr.v — executable model of the WHOLE of ZeroFPRSolver<Direction>::operator() (implementation/inner/zerofpr.tpp).
   Same structure and the same record types as Panoc.v (iterate, params, counters, stats, cbrec, outputs, result are re-used;
   the fields igradh / ihave of `iterate` are not part of ZeroFPR's Iterate: they are [] / false in the solver state and are used
   only in a progress-callback record, where they carry prox->grad_ψ, the `grad_ψ_hat` argument of the callback).
   Parameters re-use Panoc.params: p_tau_factor and p_eager are ignored (ZeroFPR halves τ and has no eager evaluation);
   update_direction_from_prox_step only selects the arguments of direction.update, which is a no-op for an oracle provider.
   Oracles as in Panoc.v; the direction oracle also sees the prox iterate: dir_apply j curr prox. *)
From Coq Require Import List ZArith Bool Arith.
From Alpaqa Require Import Num Vec Prox SolverStatus SolverKernels StopChain Panoc.
Import ListNotations.

Section ZeroFpr.
  Context {T : Type} `{Num T}.
  Local Open Scope num_scope.
  Notation iterate := (iterate (T:=T)).
  Notation stats := (stats (T:=T)).
  Notation lstate := (lstate (T:=T)).

  (* struct ProxIterate (ŷx̂ is never written) *)
  Record proxit := mkPx { px_xh : list T; px_grad : list T; px_p : list T; px_pp : T; px_gp : T; px_h : T }.

  Variable psi_grad_full : list T -> T * list T * list T.
  Variable psi_yhat : list T -> T * list T.
  Variable grad_L : list T -> list T -> list T.
  Variable grad_psi : list T -> list T.
  Variables (lb ub : list (option T)) (l1 : list T).
  Variable dir_apply : nat -> iterate -> proxit -> option (list T).
  Variable has_initial : bool.
  Variable stop_req : counters -> bool.
  Variable time_up : counters -> bool.
  Variable P : params (T:=T).
  Variables (x_in y_in Σ errz_in : list T).

  (* eval_cost_in_prox(i): ψx̂, ŷx̂ from eval_ψ(x̂) *)
  Definition eval_cost (i : iterate) : iterate :=
    let r := psi_yhat (ixh i) in
    mkIt (ix i) (ixh i) (igrad i) (igradh i) (ip i) (snd r) (ipsi i) (fst r) (igam i) (iL i) (ipp i) (igp i) (ih i) (ihave i).
  (* eval_grad_in_prox(i) + eval_prox_grad_step_in_prox(i):  prox from (γ, x̂, ŷx̂) of i *)
  Definition prox_step_in_prox (γ : T) (xh g : list T) : proxit :=
    let r := eval_prox_grad_step lb ub l1 γ xh g in
    let p := snd (fst r) in
    mkPx (fst (fst r)) g p (vsqnorm p) (vdot p g) (snd r).
  Definition eval_prox_it (i : iterate) : proxit := prox_step_in_prox (igam i) (ixh i) (grad_L (ixh i) (iyh i)).

  Fixpoint init_qub (fuel : nat) (i : iterate) (c : counters) (s : stats) : option (iterate * counters * stats) :=
    if (iL i <? p_Lmax P) && it_qub_violated P i then
      match fuel with
      | O => None
      | S f => init_qub f (eval_cost (eval_prox lb ub l1 (halve_it i))) (inc_py c) (inc_sbt s)
      end
    else Some (i, c, s).

  (* ------------------------------------------------------------------ line search *)
  Record ls_state := mkLs {
    ls_next : iterate; ls_tau : T; ls_tau_prev : T; ls_upd : bool; ls_updated : bool; ls_cnt : counters; ls_stats : stats }.
  Inductive ls_result := LsDone (s : ls_state) | LsStopped (s : ls_state) | LsFuel.

  (* take_safe_step: next.x = curr.x̂; next.ψx = curr.ψx̂; next.grad_ψ = prox.grad_ψ (a copy, curr and prox are not modified) *)
  Definition take_safe_step (curr : iterate) (prox : proxit) (next : iterate) : iterate :=
    mkIt (ixh curr) (ixh next) (px_grad prox) (igradh next) (ip next) (iyh next) (ipsih curr) (ipsih next)
         (igam next) (iL next) (ipp next) (igp next) (ih next) (ihave next).
  (* take_accelerated_step(τ): next.x = x̂ + q | x̂ + τ q; ψ, ∇ψ there *)
  Definition take_accel_step (τ : T) (q : list T) (curr next : iterate) : iterate :=
    eval_psi_grad psi_grad_full
      (mkIt (zerofpr_candidate τ (ixh curr) q) (ixh next) (igrad next) (igradh next) (ip next) (iyh next)
            (ipsi next) (ipsih next) (igam next) (iL next) (ipp next) (igp next) (ih next) (ihave next)).

  Fixpoint ls_loop (fuel : nat) (curr : iterate) (prox : proxit) (q : list T) (tau_init : T) (s : ls_state) : ls_result :=
    match fuel with
    | O => LsFuel
    | S f =>
      let stop := stop_req (ls_cnt s) in
      let c0 := inc_polls (ls_cnt s) in
      if stop then LsStopped (mkLs (ls_next s) (ls_tau s) (ls_tau_prev s) (ls_upd s) (ls_updated s) c0 (ls_stats s))
      else
        let τ := ls_tau s in
        let '(next, c1) :=
          if τ =? ls_tau_prev s then (ls_next s, c0)
          else if τ =? n0 then (take_safe_step curr prox (ls_next s), c0)
          else (take_accel_step τ q curr (ls_next s), inc_pg c0) in
        let τ_prev := τ in
        let fail := negb (nfinite (ipsi next)) || ((p_Lmax P <=? iL next) && negb (p_Lmax P <=? iL curr)) in
        if (n0 <? τ) && fail then
          ls_loop f curr prox q tau_init (mkLs (set_gamma_L next (igam curr) (iL curr)) n0 τ_prev false (ls_updated s) c1 (ls_stats s))
        else
          let next1 := eval_cost (eval_prox lb ub l1 next) in
          let c2 := inc_py c1 in
          if (iL next1 <? p_Lmax P) && it_qub_violated P next1 then
            ls_loop f curr prox q tau_init (mkLs (halve_it next1) (if n0 <? τ then tau_init else τ) τ_prev false (ls_updated s) c2
                                                  (inc_sbt (ls_stats s)))
          else
            let do_upd := ls_upd s && negb (ls_updated s) in
            let c3 := if do_upd then inc_dir c2 else c2 in
            let upd := if do_upd then false else ls_upd s in
            let updated := if do_upd then true else ls_updated s in
            if (n0 <? τ) && it_ls_violated P curr next1 then
              let τ1 := τ / n2 in                                   (* τ /= 2 *)
              let τ2 := if τ1 <? p_tau_min P then n0 else τ1 in
              ls_loop f curr prox q tau_init (mkLs next1 τ2 τ_prev upd updated c3 (inc_lbt (ls_stats s)))
            else LsDone (mkLs next1 τ τ_prev upd updated c3 (ls_stats s))
    end.

  (* ------------------------------------------------------------------ one pass of `while (true)` *)
  Inductive pass_result := PExit (o : outputs (T:=T)) | PCont (s : lstate) | PFuel.

  Definition zit_eps (i : iterate) (prox : proxit) : T :=
    crit_eps (p_crit P) lb ub l1 (ip i) (igam i) (ix i) (ixh i) (iyh i) (igrad i) (px_grad prox).
  (* the iterate as it appears in a progress-callback record: grad_ψ_hat = prox->grad_ψ *)
  Definition with_gradh (i : iterate) (g : list T) : iterate :=
    mkIt (ix i) (ixh i) (igrad i) g (ip i) (iyh i) (ipsi i) (ipsih i) (igam i) (iL i) (ipp i) (igp i) (ih i) true.

  Variable ls_fuel : nat.

  Definition pass (s : lstate) : pass_result :=
    let curr := st_curr s in
    (* eval_grad_in_prox(curr); eval_prox_grad_step_in_prox(curr) *)
    let prox := eval_prox_it curr in
    let c0 := inc_gl (st_cnt s) in
    let ε := zit_eps curr prox in
    let k := st_k s in
    let te := time_up c0 in
    let sr := stop_req c0 in
    let c1 := inc_polls c0 in
    let st := stop_status_helpers (o_tol P) ε te k (p_max_iter P) (st_np s) (p_max_no_progress P) sr in
    match st with
    | StBusy =>
        let c2 := if (k =? 0)%nat then inc_dir c1 else c1 in
        let use_dir := (0 <? k)%nat || has_initial in
        let r := if use_dir then dir_apply (c_apply c2) curr prox else None in
        let c3 := if use_dir then inc_apply c2 else c2 in
        let q := match r with Some q' => q' | None => st_q s end in
        let tau_init := match r with Some q' => if vall_finite q' then n1 else n0 | None => n0 end in
        let stats1 := if use_dir && negb (tau_init =? n1) then inc_dfail (st_stats s) else st_stats s in
        let ls0 := mkLs (set_gamma_L (st_next s) (igam curr) (iL curr)) tau_init (- n1) (p_upd_in_cand P) false c3 stats1 in
        match ls_loop ls_fuel curr prox q tau_init ls0 with
        | LsFuel => PFuel
        | LsStopped l => PCont (mkSt curr (ls_next l) k (st_np s) q (ls_cnt l) (ls_stats l) (st_log s))
        | LsDone l =>
            let next := ls_next l in let τ := ls_tau l in
            let z := ls_stats l in
            let stats2 := mkStats (s_stepsize_bt z) (s_ls_bt z)
                                  (s_ls_fail z + b2n ((τ =? n0) && (n0 <? tau_init)))
                                  (s_dir_fail z)
                                  (s_tau1 z + b2n (τ =? n1))
                                  (s_count_tau z + b2n (n0 <? tau_init))
                                  (s_sum_tau z + τ) in
            let np := match no_progress_update (st_np s) k (p_max_no_progress P) (veqb (ix curr) (ix next)) with
                      | Some v => v | None => st_np s end in
            (* recompute option: curr.γ, curr.L := next's; only the PROX iterate's step is recomputed (observed by nobody but
               direction.update); curr.x̂, curr.p keep the old step size *)
            let curr2 := if negb (ls_updated l) && negb (igam curr =? igam next) && p_recompute P
                         then set_gamma_L curr (igam next) (iL next) else curr in
            let c4 := if ls_updated l then ls_cnt l else inc_dir (ls_cnt l) in
            let rec := mkCb k (with_gradh curr2 (px_grad prox)) q τ ε StBusy in
            PCont (mkSt next curr2 (S k) np q (inc_cb c4) stats2 (rec :: st_log s))
        end
    | _ =>
        let rec := mkCb k (with_gradh curr (px_grad prox)) [] (- n1) ε st in
        let c2 := inc_cb c1 in
        let '(xo, yo, eo) := exit_block st (o_always P) x_in y_in errz_in (ixh curr) (iyh curr) Σ in
        PExit (mkOut st k ε xo yo eo curr (st_stats s) (rev (rec :: st_log s)) c2)
    end.

  Fixpoint loop (fuel : nat) (s : lstate) : result :=
    match fuel with
    | O => OutOfFuel
    | S f => match pass s with
             | PExit o => Done o
             | PCont s' => loop f s'
             | PFuel => OutOfFuel
             end
    end.

  Definition zerofpr (fuel : nat) : result :=
    let '(i0, c0) := init_L psi_grad_full grad_psi P x_in in
    if negb (nfinite (iL i0)) then NotFiniteL (iL i0)
    else
      let i1 := set_gamma_L i0 (p_Lgamma P / iL i0) (iL i0) in
      let i2 := eval_cost (eval_prox lb ub l1 i1) in
      match init_qub ls_fuel i2 (inc_py c0) stats0 with
      | None => OutOfFuel
      | Some (i3, c1, s1) => loop fuel (mkSt i3 it_blank 0 0 [] c1 s1 [])
      end.
End ZeroFpr.
