(* Properties_ZEROFPR.v — loop invariants of the WHOLE ZeroFPR solver loop (ZeroFpr.zerofpr = ZeroFPRSolver::operator()), over R,
   for every problem oracle, every direction provider (oracle), every stop / clock oracle and every parameter set.
   Only `exact` + Print Assumptions here; proofs in ZeroFprProofs.v.  The whole-run correspondence (Corr_ZEROFPR.chkzfpr,
   lib/vf/props/ZEROFPR.py) ties ZeroFpr.zerofpr at binary64 to the real solver. *)
From Coq Require Import Reals List ZArith Bool Lra.
From Flocq Require Import Raux.
From Alpaqa Require Import Num NumR Vec Prox ProxProofs SolverStatus SolverKernels SolverKernelsProofs DescentProofs
                           StopChain StopChainProofs KktProofs Panoc PanocProofs ZeroFpr ZeroFprProofs.
Import ListNotations.
Local Open Scope R_scope.

Section ZEROFPR.
  Variable psi_grad_full : list R -> R * list R * list R.   (* eval_ψ_grad_ψ *)
  Variable psi_yhat : list R -> R * list R.                 (* eval_ψ: (ψ, ŷ) *)
  Variable grad_L : list R -> list R -> list R.             (* eval_grad_L *)
  Variable grad_psi : list R -> list R.                     (* eval_grad_ψ (initial Lipschitz estimate) *)
  Variables (lb ub : list (option R)) (l1 : list R).
  Variable dir_apply : nat -> iterate (T:=R) -> proxit (T:=R) -> option (list R).
  Variable has_initial : bool.
  Variable stop_req : counters -> bool.
  Variable time_up : counters -> bool.
  Variable P : params (T:=R).
  Variables (x_in y_in Σ errz_in : list R).
  Variable ls_fuel : nat.

  Notation run := (zerofpr psi_grad_full psi_yhat grad_L grad_psi lb ub l1 dir_apply has_initial stop_req time_up P x_in y_in Σ errz_in ls_fuel).
  Notation Consistent := (zconsistent psi_grad_full psi_yhat grad_L lb ub l1).
  Notation Reachable := (reachable psi_grad_full psi_yhat grad_L grad_psi lb ub l1 dir_apply has_initial stop_req time_up P x_in y_in Σ errz_in ls_fuel).
  Notation Glrel0 := (glrel0 psi_grad_full grad_psi P x_in).
  Notation Qub_ok := (qub_ok P).
  Notation Rec_ok := (zrec_ok psi_grad_full psi_yhat grad_L grad_psi lb ub l1 P x_in).
  Notation Linit := (L_init psi_grad_full grad_psi P x_in).
  Notation Val_x := (zval_x psi_grad_full psi_yhat grad_L).
  Notation Proxof := (eval_prox_it grad_L lb ub l1).

  (* at EVERY evaluation of the stop check (after a completed iteration or after an interrupted line search): the current iterate
     is consistent, satisfies the QUB test or has L >= L_max, (γ, L) = initial pair after halvings only, k <= max_iter *)
  Theorem ZEROFPR_invariant_at_every_stop_check : forall s, Reachable s ->
    Consistent (st_curr s) /\ Qub_ok (st_curr s) /\ Glrel0 (st_curr s) /\ (st_k s <= p_max_iter P)%nat.
  Proof. exact (reachable_check psi_grad_full psi_yhat grad_L grad_psi lb ub l1 dir_apply has_initial stop_req time_up P x_in y_in Σ errz_in ls_fuel). Qed.

  Theorem ZEROFPR_consistent_means : forall i : iterate (T:=R), Consistent i ->
    ixh i = vadd (ix i) (ip i) /\
    eval_prox_grad_step lb ub l1 (igam i) (ix i) (igrad i) = (ixh i, ip i, ih i) /\
    ipp i = vsqnorm (ip i) /\ igp i = vdot (ip i) (igrad i) /\
    (ipsih i, iyh i) = psi_yhat (ixh i) /\ Val_x (ix i) (ipsi i) (igrad i).
  Proof. exact (zconsistent_explicit psi_grad_full psi_yhat grad_L grad_psi lb ub l1 dir_apply has_initial stop_req time_up P x_in y_in Σ errz_in ls_fuel). Qed.

  (* the PROX iterate the stop check, the direction and take_safe_step use: ∇ψ(x̂) = eval_grad_L(x̂, ŷ), prox step at x̂ with γ *)
  Theorem ZEROFPR_prox_iterate_means : forall i : iterate (T:=R),
    let p := Proxof i in
    px_grad p = grad_L (ixh i) (iyh i) /\
    eval_prox_grad_step lb ub l1 (igam i) (ixh i) (px_grad p) = (px_xh p, px_p p, px_h p) /\
    px_xh p = vadd (ixh i) (px_p p) /\
    px_pp p = vsqnorm (px_p p) /\ px_gp p = vdot (px_p p) (px_grad p).
  Proof. exact (prox_explicit psi_grad_full psi_yhat grad_L grad_psi lb ub l1 dir_apply has_initial stop_req time_up P x_in y_in Σ errz_in ls_fuel). Qed.

  (* hypothesis needed (and why): take_safe_step re-uses ψ(x̂ₖ), ∇ψ(x̂ₖ) = eval_grad_L(x̂ₖ, ŷ) as ψ(xₖ₊₁), ∇ψ(xₖ₊₁) *)
  Theorem ZEROFPR_consistent_under_coherent_oracles : forall i : iterate (T:=R),
    zcoherent psi_grad_full psi_yhat grad_L -> Consistent i ->
    (ipsi i, igrad i) = psi_grad psi_grad_full (ix i) /\ px_grad (Proxof i) = snd (psi_grad psi_grad_full (ixh i)).
  Proof. exact (zconsistent_coherent psi_grad_full psi_yhat grad_L grad_psi lb ub l1 dir_apply has_initial stop_req time_up P x_in y_in Σ errz_in ls_fuel). Qed.

  Theorem ZEROFPR_gamma_times_L : forall i : iterate (T:=R), Linit <> 0 -> Glrel0 i -> igam i * iL i = p_Lgamma P.
  Proof. exact (glrel0_product_factor psi_grad_full psi_yhat grad_L grad_psi lb ub l1 (fun _ _ => None) has_initial stop_req time_up P x_in y_in Σ errz_in ls_fuel). Qed.
  Theorem ZEROFPR_gamma_nonincreasing : forall a b : iterate (T:=R), halved a b -> 0 < igam a -> 0 < igam b <= igam a.
  Proof. exact (halved_nonincreasing psi_grad_full psi_yhat grad_L grad_psi lb ub l1 (fun _ _ => None) has_initial stop_req time_up P x_in y_in Σ errz_in ls_fuel). Qed.
  Theorem ZEROFPR_qub_or_Lmax : forall i : iterate (T:=R), Qub_ok i ->
    p_Lmax P <= iL i \/ ipsih i <= ipsi i + igp i + 1 / 2 * iL i * ipp i + (1 + Rabs (ipsi i)) * p_qub_tol P.
  Proof. exact (qub_ok_explicit psi_grad_full psi_yhat grad_L grad_psi lb ub l1 (fun _ _ => None) has_initial stop_req time_up P x_in y_in Σ errz_in ls_fuel). Qed.

  Theorem ZEROFPR_records : forall fuel o, run fuel = Done o ->
    Forall Rec_ok (out_log o) /\ chain P (rev (out_log o)) /\
    exists cf, hd_error (rev (out_log o)) =
               Some (mkCb (out_iterations o) (with_gradh cf (px_grad (Proxof cf))) [] (- 1) (out_eps o) (out_status o)) /\ Consistent cf.
  Proof. exact (zerofpr_records psi_grad_full psi_yhat grad_L grad_psi lb ub l1 dir_apply has_initial stop_req time_up P x_in y_in Σ errz_in ls_fuel). Qed.

  (* descent between consecutive reported iterates (ZeroFPR's tests have the same constants as PANOC's); default recompute = false *)
  Theorem ZEROFPR_descent_accelerated : forall r r' : cbrec (T:=R), desc P r r' ->
    p_recompute P = false -> p_force_ls P = false -> 0 < r_tau r ->
    let a := r_it r in
    it_fbe (r_it r') <= it_fbe a - p_beta P * (1 - igam a * iL a) / (2 * igam a) * ipp a + (1 + Rabs (it_fbe a)) * p_ls_tol P.
  Proof. exact (desc_accelerated psi_grad_full psi_yhat grad_L grad_psi lb ub l1 (fun _ _ => None) has_initial stop_req time_up P x_in y_in Σ errz_in ls_fuel). Qed.
  Theorem ZEROFPR_descent_safe_step : forall r r' : cbrec (T:=R), desc P r r' -> Rec_ok r -> Rec_ok r' ->
    p_recompute P = false -> l1 = [] ->
    r_tau r = 0 -> iL (r_it r) < p_Lmax P -> 0 < igam (r_it r) -> 0 < igam (r_it r') ->
    length ub = length lb -> length (ix (r_it r)) = length lb -> length (igrad (r_it r)) = length lb ->
    length (igrad (r_it r')) = length lb -> Forall2 box_ne lb ub ->
    let a := r_it r in
    it_fbe (r_it r') <= it_fbe a - (1 - igam a * iL a) / (2 * igam a) * ipp a + (1 + Rabs (ipsi a)) * p_qub_tol P.
  Proof. exact (zdesc_safe psi_grad_full psi_yhat grad_L grad_psi lb ub l1 dir_apply has_initial stop_req time_up P x_in y_in Σ errz_in ls_fuel). Qed.

  Theorem ZEROFPR_status_clauses : forall fuel o, run fuel = Done o ->
    (out_iterations o <= p_max_iter P)%nat /\
    out_status o <> StBusy /\
    (out_status o = StMaxIter -> out_iterations o = p_max_iter P) /\
    (out_status o = StConverged <-> out_eps o <= eff_tol (o_tol P)) /\
    (out_status o = StInterrupted -> exists c, stop_req c = true) /\
    (out_status o = StMaxTime -> exists c, time_up c = true) /\
    (out_status o = StNoProgress -> exists np, (p_max_no_progress P < np)%nat).
  Proof. exact (zerofpr_status_clauses psi_grad_full psi_yhat grad_L grad_psi lb ub l1 dir_apply has_initial stop_req time_up P x_in y_in Σ errz_in ls_fuel). Qed.

  Theorem ZEROFPR_exit : forall fuel o, run fuel = Done o ->
    exists cf : iterate (T:=R), Consistent cf /\ Qub_ok cf /\ Glrel0 cf /\
      out_eps o = zit_eps lb ub l1 P cf (Proxof cf) /\
      (overwrites (out_status o) (o_always P) = true ->
         out_x o = ixh cf /\ ixh cf = vadd (ix cf) (ip cf) /\
         out_y o = iyh cf /\ iyh cf = snd (psi_yhat (out_x o)) /\
         out_errz o = match errz_in with [] => [] | _ => vdiv (vsub (out_y o) y_in) Σ end) /\
      (overwrites (out_status o) (o_always P) = false -> out_x o = x_in /\ out_y o = y_in /\ out_errz o = errz_in).
  Proof. exact (zerofpr_exit psi_grad_full psi_yhat grad_L grad_psi lb ub l1 dir_apply has_initial stop_req time_up P x_in y_in Σ errz_in ls_fuel). Qed.

  (* inner_contract_zerofpr of DESIGN §4 / C01: the gradient in the residual is eval_grad_L(x_out, y_out) *)
  Theorem ZEROFPR_inner_contract : forall fuel o, run fuel = Done o ->
    out_status o = StConverged -> p_crit P = ApproxKKT -> l1 = [] ->
    exists (x grad : list R) (γ : R),
      let step := proj_grad_step lb ub γ x grad in
      let gradh := grad_L (out_x o) (out_y o) in
      out_x o = fst (fst step) /\
      out_y o = snd (psi_yhat (out_x o)) /\
      out_errz o = match errz_in with [] => [] | _ => vdiv (vsub (out_y o) y_in) Σ end /\
      out_eps o = vnorminf (kkt_residual γ (snd (fst step)) grad gradh) /\
      out_eps o <= eff_tol (o_tol P) /\
      (exists ψ, Val_x x ψ grad) /\
      (0 < p_Lgamma P -> 0 < Linit -> 0 < γ) /\
      (Linit <> 0 -> exists L, γ * L = p_Lgamma P).
  Proof. exact (zerofpr_inner_contract psi_grad_full psi_yhat grad_L grad_psi lb ub l1 dir_apply has_initial stop_req time_up P x_in y_in Σ errz_in ls_fuel). Qed.

  (* termination of the line search: τ is halved, so with (1/2)^nT < min_linesearch_coefficient and L_max <= L 2^nL the loop
     `while (!stop_requested)` makes at most (nL+1)(nT+3) passes; no pass of any run reports OutOfFuel for ls_fuel above the bound *)
  Theorem ZEROFPR_linesearch_terminates : forall (c0 : iterate (T:=R)) (prox : proxit (T:=R)) (nL nT : nat) (q : list R) (τi : R),
    0 < iL c0 -> p_Lmax P <= iL c0 * 2 ^ nL -> (1 / 2) ^ nT < p_tau_min P -> τi = 0 \/ τi = 1 ->
    forall (next : iterate (T:=R)) upd c st fuel, (ls_pass_bound nL nT <= fuel)%nat ->
    ls_loop psi_grad_full psi_yhat lb ub l1 stop_req P fuel c0 prox q τi
            (mkLs (set_gamma_L next (igam c0) (iL c0)) τi (- 1) upd false c st) <> LsFuel.
  Proof. exact (ls_terminates psi_grad_full psi_yhat grad_L grad_psi lb ub l1 dir_apply has_initial stop_req time_up P x_in y_in Σ errz_in ls_fuel). Qed.
  Theorem ZEROFPR_pass_never_out_of_fuel : forall (nL nT : nat) s, Reachable s ->
    0 < Linit -> p_Lmax P <= Linit * 2 ^ nL -> (1 / 2) ^ nT < p_tau_min P ->
    (ls_pass_bound nL nT <= ls_fuel)%nat ->
    pass psi_grad_full psi_yhat grad_L lb ub l1 dir_apply has_initial stop_req time_up P x_in y_in Σ errz_in ls_fuel s <> PFuel.
  Proof. exact (reachable_pass_never_out_of_fuel psi_grad_full psi_yhat grad_L grad_psi lb ub l1 dir_apply has_initial stop_req time_up P x_in y_in Σ errz_in ls_fuel). Qed.
End ZEROFPR.

Theorem ZEROFPR_contract_gives_stationarity : forall lb ub γ (x grad gradh : list R) (tol : R) n,
  0 < γ -> length lb = n -> length ub = n -> length x = n -> length grad = n -> length gradh = n ->
  (forall i, (i < n)%nat -> box_ne (nth i lb None) (nth i ub None)) ->
  let step := proj_grad_step lb ub γ x grad in
  let xh := fst (fst step) in let p := snd (fst step) in
  vnorminf (kkt_residual γ p grad gradh) <= tol ->
  forall i, (i < n)%nat ->
    exists r, (forall u, in_box (nth i lb None) (nth i ub None) u -> r * (u - nth i xh 0) <= 0) /\
              Rabs (- nth i gradh 0 - r) <= tol.
Proof. exact approx_kkt_stationarity. Qed.

Print Assumptions ZEROFPR_invariant_at_every_stop_check.
Print Assumptions ZEROFPR_consistent_means.
Print Assumptions ZEROFPR_prox_iterate_means.
Print Assumptions ZEROFPR_consistent_under_coherent_oracles.
Print Assumptions ZEROFPR_gamma_times_L.
Print Assumptions ZEROFPR_gamma_nonincreasing.
Print Assumptions ZEROFPR_qub_or_Lmax.
Print Assumptions ZEROFPR_records.
Print Assumptions ZEROFPR_descent_accelerated.
Print Assumptions ZEROFPR_descent_safe_step.
Print Assumptions ZEROFPR_status_clauses.
Print Assumptions ZEROFPR_exit.
Print Assumptions ZEROFPR_inner_contract.
Print Assumptions ZEROFPR_linesearch_terminates.
Print Assumptions ZEROFPR_pass_never_out_of_fuel.
Print Assumptions ZEROFPR_contract_gives_stationarity.

(* non-vacuity: `run fuel = Done o` is satisfiable over R (constant oracles, max_iter = 0) *)
Definition nvz_P : params (T:=R) := mkParams 0 10 1 (1/1000000) (1/1000000) (1/2) 1 1 ProjGradNorm 0 0 (1/2) (1/2) (1/4) false false false false true 0.
Definition nvz_run := zerofpr (T:=R) (fun _ => (0, [0], [])) (fun _ => (0, [])) (fun _ _ => [0]) (fun _ => [0]) [None] [None] []
                        (fun _ _ _ => None) false (fun _ => false) (fun _ => false) nvz_P [0] [] [] [] 1 1.
Example ZEROFPR_nonvacuous : exists o, nvz_run = Done o /\ out_iterations o = 0%nat /\ out_status o <> StBusy.
Proof.
  unfold nvz_run, zerofpr, init_L, nvz_P. cbn [p_L0 fst snd psi_grad].
  change (@nleb R NumR 1 (@n0 R NumR)) with (Rle_bool 1 0).
  destruct (Rle_bool_spec 1 0) as [H|_]; [lra|].
  cbn [iL nfinite NumR negb].
  cbv [eval_prox eval_cost set_gamma_L p_Lgamma iL igam ix igrad ixh ip iyh ipsi ipsih ipp igp ih ihave igradh
       eval_prox_grad_step proj_grad_step map5 proj_step1 clamp_hi clamp_lo osub option_map vadd map2 fst snd].
  cbn [ZeroFpr.init_qub iL p_Lmax]. change (@nltb R NumR 1 1) with (Rlt_bool 1 1).
  destruct (Rlt_bool_spec 1 1) as [H|_]; [lra|]. cbn [andb].
  cbn [ZeroFpr.loop]. unfold ZeroFpr.pass. cbn [st_curr st_cnt st_k st_np p_max_iter p_max_no_progress o_tol].
  unfold stop_status_helpers. cbn [Nat.eqb].
  match goal with |- context [if nleb ?a ?b then _ else _] => destruct (nleb a b) end.
  all: cbv [exit_block overwrites o_always ixh iyh]; eexists; split; [reflexivity|]; cbn [out_iterations out_status]; repeat split; try discriminate.
Qed.
