(* Properties_PANTRDIR.v — PANTR with the SHIPPED trust-region direction provider inside the model.
   PantrDir.pantrD is the loop of Pantr.v with a stateful provider (DirectionsTR.trdirops: initialize / update / apply / changed_γ / reset
   threaded exactly where pantr.tpp calls them).  PANTRDIR_refines_oracle_model: for EVERY provider (any state machine, in particular
   DirectionsTR.newton_tr_dir = NewtonTRDirection over SteihaugCG) every run of pantrD is a run of the verified oracle model Pantr.pantr,
   for the oracle "the j-th apply returned what the provider returned in that run" — with EQUAL outputs.  Hence every theorem of
   Properties_PANTR.v (stated for every direction oracle) holds for PANTRSolver<NewtonTRDirection>; the transported statements are given
   for every provider.  PANTRDIR_newtontr_step_is_feasible_and_beats_cauchy composes C11 with the loop: at every direction call of
   every run of PANTR<NewtonTRDirection> the returned step satisfies C11's guarantees on the reduced model.
   Only `exact` + Print Assumptions here; proofs in PantrDirProofs.v.  Tie to the real code: Corr_PANTRDIR.chkpantrdir
   (lib/vf/props/PANTRDIR.py): whole runs of the real solver with the real provider against pantrD at binary64. *)
From Coq Require Import Reals List ZArith Bool Lra.
From Flocq Require Import Raux.
From Alpaqa Require Import Num NumR Vec Prox ProxProofs SolverStatus SolverKernels SolverKernelsProofs DescentProofs
                           StopChain StopChainProofs KktProofs Panoc PanocProofs ZeroFpr ZeroFprProofs Pantr PantrProofs
                           Steihaug SteihaugProofs Directions PanocDirLbfgs DirectionsTR PantrDir PantrDirProofs.
Import ListNotations.
Local Open Scope R_scope.

Section PANTRDIR.
  (* the outside world: nothing is assumed about any of these *)
  Variable psi_grad_full : list R -> R * list R * list R.
  Variable psi_yhat : list R -> R * list R.
  Variable grad_L : list R -> list R -> list R.
  Variable grad_psi : list R -> list R.
  Variables (lb ub : list (option R)) (l1 : list R).
  Variable stop_req : counters -> bool.
  Variable time_up : counters -> bool.
  Variable TP : trparams (T:=R).
  Variables (x_in y_in Σ errz_in : list R).
  Variable bt_fuel : nat.

  Notation P := (tp_base TP).
  Notation runD D ops d0 := (pantrD psi_grad_full psi_yhat grad_L grad_psi lb ub l1 D ops stop_req time_up TP x_in y_in Σ errz_in bt_fuel d0).
  Notation stepD D ops := (passD psi_grad_full psi_yhat grad_L lb ub l1 D ops stop_req time_up TP x_in y_in Σ errz_in bt_fuel).
  Notation run O hi := (pantr psi_grad_full psi_yhat grad_L grad_psi lb ub l1 O hi stop_req time_up TP x_in y_in Σ errz_in bt_fuel).
  Notation ReachableD D ops d0 := (reachableD psi_grad_full psi_yhat grad_L grad_psi lb ub l1 D ops stop_req time_up TP x_in y_in Σ errz_in bt_fuel d0).
  Notation Reachable O hi := (reachable psi_grad_full psi_yhat grad_L grad_psi lb ub l1 O hi stop_req time_up TP x_in y_in Σ errz_in bt_fuel).
  Notation Is_apply_call D ops d0 := (is_apply_call psi_grad_full psi_yhat grad_L grad_psi lb ub l1 D ops stop_req time_up TP x_in y_in Σ errz_in bt_fuel d0).
  Notation Pass_prox := (pass_prox psi_grad_full grad_L lb ub l1 stop_req time_up TP).
  Notation Consistent := (tconsistent psi_grad_full psi_yhat grad_L lb ub l1).
  Notation Glrel0 := (glrel0 psi_grad_full grad_psi P x_in).
  Notation Qub_ok := (qub_ok P).
  Notation Rec_ok := (trec_ok psi_grad_full psi_yhat grad_L grad_psi lb ub l1 TP x_in).
  Notation Linit := (L_init psi_grad_full grad_psi P x_in).

  (* THE REFINEMENT: for every provider state type D, every provider ops, every initial provider state d0 and every completed run of
     PANTR-with-that-provider there is a trust-region direction oracle — the sequence of (q, q_model) returned by the provider's apply
     calls in that run — for which the verified oracle model Pantr.pantr returns THE SAME outputs: status, iterations, ε, x, y, err_z,
     final iterate, statistics, all event counters and the whole progress-callback log (every record incl. q, Δ, ρ, accepted). *)
  Theorem PANTRDIR_refines_oracle_model : forall (D : Type) (ops : trdirops R D) (d0 : D) fuel oD,
    runD D ops d0 fuel = TDoneD D oD ->
    exists (tr_apply : nat -> iterate (T:=R) -> R -> list R * R),
      (forall j it Δ, tr_apply j it Δ = match nth_error (tod_calls D oD) j with Some c => (tc_q c, tc_val c) | None => ([], 0) end) /\
      run tr_apply (td_has_initial D ops) fuel = TDone (tod_out D oD).
  Proof. exact (fun D ops d0 => pantrD_refines_R psi_grad_full psi_yhat grad_L grad_psi lb ub l1 D ops stop_req time_up TP x_in y_in Σ errz_in bt_fuel d0). Qed.

  (* the run that stops before the loop (non-finite Lipschitz estimate) does not involve the provider *)
  Theorem PANTRDIR_notfinite : forall (D : Type) (ops : trdirops R D) (d0 : D) fuel L tr_apply,
    runD D ops d0 fuel = TNotFiniteLD D L -> run tr_apply (td_has_initial D ops) fuel = TNotFiniteL L.
  Proof. exact (fun D ops d0 fuel L O => pantrD_notfinite psi_grad_full psi_yhat grad_L grad_psi lb ub l1 D ops stop_req time_up TP x_in y_in Σ errz_in bt_fuel d0 fuel L O). Qed.

  (* every state at the top of `while (true)` of PANTR-with-provider IS a reachable state of the oracle model *)
  Theorem PANTRDIR_reachable_refines : forall (D : Type) (ops : trdirops R D) (d0 : D) sD, ReachableD D ops d0 sD ->
    exists tr_apply, Reachable tr_apply (td_has_initial D ops) (tsd_st D sD).
  Proof.
    exact (fun D ops d0 sD H =>
             ex_intro _ _ (reachableD_refines psi_grad_full psi_yhat grad_L grad_psi lb ub l1 D ops stop_req time_up TP x_in y_in Σ errz_in bt_fuel d0 sD H [])).
  Qed.

  (* ---------------- the theorems of Properties_PANTR.v, for every provider ---------------- *)
  Theorem PANTRDIR_invariant_at_every_stop_check : forall (D : Type) (ops : trdirops R D) (d0 : D) sD, ReachableD D ops d0 sD ->
    let s := tsd_st D sD in
    Consistent (ts_curr s) /\ Qub_ok (ts_curr s) /\ Glrel0 (ts_curr s) /\ (ts_k s <= p_max_iter P)%nat /\ tp_min_radius TP <= ts_delta s.
  Proof. exact (fun D ops d0 => pantrD_check psi_grad_full psi_yhat grad_L grad_psi lb ub l1 D ops stop_req time_up TP x_in y_in Σ errz_in bt_fuel d0). Qed.

  (* one completed iteration: the fall-back forward-backward step x̂ₖ, or an accepted TR step — then q_model < 0, the reported ρ is the
     ratio of the FBS iterate at x̂ₖ and the candidate, and it passed the acceptance threshold; γ only halves *)
  Theorem PANTRDIR_step : forall (D : Type) (ops : trdirops R D) (d0 : D) sD sD', ReachableD D ops d0 sD -> stepD D ops sD = TContD D sD' ->
    let s := tsd_st D sD in let s' := tsd_st D sD' in
    ts_k s' = S (ts_k s) /\ halved (ts_curr s) (ts_curr s') /\
    (ts_acc s' = false -> ix (ts_curr s') = ixh (ts_curr s)) /\
    (ts_acc s' = true -> exists (px cd : iterate (T:=R)) (qm : R),
        tcons_x psi_grad_full px /\ cons_step lb ub l1 px /\ ix px = ixh (ts_curr s) /\ gl_of px = gl_of (ts_curr s) /\
        qm < 0 /\
        ts_rho s' = Some (tr_ratio (tp_ratio_approx TP) (it_fbe px) (it_fbe cd) qm (tp_tr_tol TP) (p_Lgamma P)) /\
        tp_thr_acc TP <= tr_ratio (tp_ratio_approx TP) (it_fbe px) (it_fbe cd) qm (tp_tr_tol TP) (p_Lgamma P) /\
        ix (ts_curr s') = ix cd /\ halved cd (ts_curr s') /\ halved px cd /\
        (tp_ratio_new_step TP = true -> ts_curr s' = cd)).
  Proof. exact (fun D ops d0 => pantrD_step psi_grad_full psi_yhat grad_L grad_psi lb ub l1 D ops stop_req time_up TP x_in y_in Σ errz_in bt_fuel d0). Qed.

  Theorem PANTRDIR_records : forall (D : Type) (ops : trdirops R D) (d0 : D) fuel oD, runD D ops d0 fuel = TDoneD D oD ->
    Forall Rec_ok (to_log (tod_out D oD)).
  Proof. exact (fun D ops d0 => pantrD_records psi_grad_full psi_yhat grad_L grad_psi lb ub l1 D ops stop_req time_up TP x_in y_in Σ errz_in bt_fuel d0). Qed.

  Theorem PANTRDIR_status_clauses : forall (D : Type) (ops : trdirops R D) (d0 : D) fuel oD, runD D ops d0 fuel = TDoneD D oD ->
    let o := tod_out D oD in
    (to_iterations o <= p_max_iter P)%nat /\
    to_status o <> StBusy /\ to_status o <> StNoProgress /\
    (to_status o = StMaxIter -> to_iterations o = p_max_iter P) /\
    (to_status o = StConverged <-> to_eps o <= eff_tol (o_tol P)) /\
    (to_status o = StInterrupted -> exists c, stop_req c = true) /\
    (to_status o = StMaxTime -> exists c, time_up c = true).
  Proof. exact (fun D ops d0 => pantrD_status_clauses psi_grad_full psi_yhat grad_L grad_psi lb ub l1 D ops stop_req time_up TP x_in y_in Σ errz_in bt_fuel d0). Qed.

  Theorem PANTRDIR_exit : forall (D : Type) (ops : trdirops R D) (d0 : D) fuel oD, runD D ops d0 fuel = TDoneD D oD ->
    let o := tod_out D oD in
    exists cf : iterate (T:=R), Consistent cf /\ Qub_ok cf /\ Glrel0 cf /\
      (exists gh, (crit_needs_gradh (p_crit P) = true -> gh = grad_L (ixh cf) (iyh cf)) /\
                  to_eps o = crit_eps (p_crit P) lb ub l1 (ip cf) (igam cf) (ix cf) (ixh cf) (iyh cf) (igrad cf) gh) /\
      (overwrites (to_status o) (o_always P) = true ->
         to_x o = ixh cf /\ ixh cf = vadd (ix cf) (ip cf) /\
         to_y o = iyh cf /\ iyh cf = snd (psi_yhat (to_x o)) /\
         to_errz o = match errz_in with [] => [] | _ => vdiv (vsub (to_y o) y_in) Σ end) /\
      (overwrites (to_status o) (o_always P) = false -> to_x o = x_in /\ to_y o = y_in /\ to_errz o = errz_in).
  Proof. exact (fun D ops d0 => pantrD_exit psi_grad_full psi_yhat grad_L grad_psi lb ub l1 D ops stop_req time_up TP x_in y_in Σ errz_in bt_fuel d0). Qed.

  (* inner_contract_pantr of DESIGN §4 / C01, for every provider *)
  Theorem PANTRDIR_inner_contract : forall (D : Type) (ops : trdirops R D) (d0 : D) fuel oD, runD D ops d0 fuel = TDoneD D oD ->
    let o := tod_out D oD in
    to_status o = StConverged -> p_crit P = ApproxKKT -> l1 = [] ->
    exists (x : list R) (γ : R),
      let grad := snd (psi_grad psi_grad_full x) in
      let step := proj_grad_step lb ub γ x grad in
      let gradh := grad_L (to_x o) (to_y o) in
      to_x o = fst (fst step) /\
      to_y o = snd (psi_yhat (to_x o)) /\
      to_errz o = match errz_in with [] => [] | _ => vdiv (vsub (to_y o) y_in) Σ end /\
      to_eps o = vnorminf (kkt_residual γ (snd (fst step)) grad gradh) /\
      to_eps o <= eff_tol (o_tol P) /\
      (0 < p_Lgamma P -> 0 < Linit -> 0 < γ) /\
      (Linit <> 0 -> exists L, γ * L = p_Lgamma P).
  Proof. exact (fun D ops d0 => pantrD_inner_contract psi_grad_full psi_yhat grad_L grad_psi lb ub l1 D ops stop_req time_up TP x_in y_in Σ errz_in bt_fuel d0). Qed.

  (* provider invariants: a predicate that initialize (as called by the loop: with the solver's y and Σ) establishes and
     update / apply / changed_γ / reset preserve holds for the provider at the top of every pass with k > 0 *)
  Theorem PANTRDIR_provider_invariant : forall (D : Type) (ops : trdirops R D) (d0 : D) (Iv : D -> Prop),
    (forall d γ x xh p g d', td_initialize D ops d y_in Σ γ x xh p g = Some d' -> Iv d') ->
    (forall d γ γn x xn p pn g gn, Iv d -> Iv (snd (td_update D ops d γ γn x xn p pn g gn))) ->
    (forall d γ x xh p g Δ q q' v d', Iv d -> td_apply D ops d γ x xh p g Δ q = Some (q', v, d') -> Iv d') ->
    (forall d a b, Iv d -> Iv (td_changed_gamma D ops d a b)) ->
    (forall d, Iv d -> Iv (td_reset D ops d)) ->
    forall sD, ReachableD D ops d0 sD -> ts_k (tsd_st D sD) = 0%nat \/ Iv (tsd_dir D sD).
  Proof. exact (fun D ops d0 => reachableD_I psi_grad_full psi_yhat grad_L grad_psi lb ub l1 D ops stop_req time_up TP x_in y_in Σ errz_in bt_fuel d0). Qed.

  (* the call log of a run: every entry IS a call of the provider's apply — made with a provider state satisfying the invariant, at the
     FBS iterate (x̂ₖ, its prox step and gradient) computed by a reachable state's pass, with that state's trust radius *)
  Theorem PANTRDIR_call_log : forall (D : Type) (ops : trdirops R D) (d0 : D) (Iv : D -> Prop),
    (forall d γ x xh p g d', td_initialize D ops d y_in Σ γ x xh p g = Some d' -> Iv d') ->
    (forall d γ γn x xn p pn g gn, Iv d -> Iv (snd (td_update D ops d γ γn x xn p pn g gn))) ->
    (forall d γ x xh p g Δ q q' v d', Iv d -> td_apply D ops d γ x xh p g Δ q = Some (q', v, d') -> Iv d') ->
    (forall d a b, Iv d -> Iv (td_changed_gamma D ops d a b)) ->
    (forall d, Iv d -> Iv (td_reset D ops d)) ->
    forall fuel oD, runD D ops d0 fuel = TDoneD D oD ->
    Forall (fun c : tcall (T:=R) =>
              exists sD d q0 d', ReachableD D ops d0 sD /\ Iv d /\ tc_delta c = ts_delta (tsd_st D sD) /\
                (exists c4, Pass_prox (tsd_st D sD) = Some (tc_prox c, c4)) /\
                td_apply D ops d (igam (tc_prox c)) (ix (tc_prox c)) (ixh (tc_prox c)) (ip (tc_prox c)) (igrad (tc_prox c)) (tc_delta c) q0
                  = Some (tc_q c, tc_val c, d'))
           (tod_calls D oD).
  Proof. exact (fun D ops d0 => pantrD_calls psi_grad_full psi_yhat grad_L grad_psi lb ub l1 D ops stop_req time_up TP x_in y_in Σ errz_in bt_fuel d0). Qed.

  (* ---------------- PANTRSolver<NewtonTRDirection>: every capability flag, Hessian member, DirectionParams and SteihaugCGParams field arbitrary ---------------- *)
  Section NewtonTR.
    Variables (prov_inactive prov_hess_L prov_hess_psi m_is_zero : bool).
    Variable grad_psi_at : list R -> list R -> list R -> list R.                    (* eval_grad_ψ (finite differences) *)
    Variable hess_psi_prod : list R -> list R -> list R -> R -> list R -> list R.    (* eval_hess_ψ_prod *)
    Variables (hvf : R) (fd : bool) (fd_step : R) (cg_ts cg_tsr : R) (cg_tmax : option R) (cg_max_iter : nat -> Z) (eps_mach : R).
    Hypothesis eps_pos : 0 < eps_mach.
    Notation Dn := (ntrstate R).
    Notation ntr := (newton_tr_dir lb ub l1 prov_inactive prov_hess_L prov_hess_psi m_is_zero grad_psi_at hess_psi_prod
                                   hvf fd fd_step cg_ts cg_tsr cg_tmax cg_max_iter eps_mach).
    Notation Jof := (ntr_J lb ub l1).
    Notation BJof := (ntr_BJ grad_psi_at hess_psi_prod fd fd_step).
    Notation solve := (ntr_solve lb ub l1 grad_psi_at hess_psi_prod hvf fd fd_step cg_ts cg_tsr cg_tmax cg_max_iter).

    (* C11 COMPOSED WITH THE LOOP.  At EVERY direction call of EVERY run of PANTR<NewtonTRDirection> (call c of the log: FBS iterate px =
       tc_prox c with x = x̂ₖ, its prox step p and gradient, step size γ; radius Δ = tc_delta c; returned q, q_model):
         Δ >= min_radius and Δ > 0;   q(K) = p(K) for the active indices K, q(J) = the CG step q_J on the inactive set J of the C15 model;
       and under C11's hypothesis — the reduced Hessian operator B_J handed to SteihaugCG (exact products or finite differences) is
       symmetric linear on R^|J| —
         ‖q_J‖ <= Δ,   q_model = r_J'q_J + 1/2 q_J'B_J q_J - ‖p_K‖²/(2γ),   q_model <= -‖p_K‖²/(2γ)  (<= 0 when γ > 0),
         q_model <= [reduced model at the Cauchy point of (B_J, r_J, Δ)] - ‖p_K‖²/(2γ). *)
    Theorem PANTRDIR_newtontr_step_is_feasible_and_beats_cauchy : forall fuel oD,
      runD Dn ntr ntr_new fuel = TDoneD Dn oD ->
      Forall (fun c : tcall (T:=R) =>
                let px := tc_prox c in let γ := igam px in let x := ix px in let p := ip px in let g := igrad px in
                let Δ := tc_delta c in let q := tc_q c in let v := tc_val c in
                let d := mkNT y_in Σ [] in
                let J := Jof γ x g in
                let BJ := BJof d J x g in
                let r := solve d γ x p g Δ in
                let rJ := ntr_rJ r in
                let qJ := res_step (ntr_cg r) in
                tp_min_radius TP <= Δ /\ 0 < Δ /\ q = merge_JK J (keep_active J p) qJ /\
                (forall i, (i < length p)%nat -> ~ In i J -> nth i q 0 = nth i p 0) /\
                (sym_linear_op (length J) BJ ->
                   vnorm2 qJ <= Δ /\
                   v = model BJ rJ qJ - sqnorm_active J p / (2 * γ) /\
                   v <= - (sqnorm_active J p / (2 * γ)) /\
                   (0 < γ -> v <= 0) /\
                   v <= model BJ rJ (cauchy_point BJ rJ Δ) - sqnorm_active J p / (2 * γ)))
             (tod_calls Dn oD).
    Proof.
      exact (pantrD_newtontr_calls lb ub l1 prov_inactive prov_hess_L prov_hess_psi m_is_zero grad_psi_at hess_psi_prod hvf fd fd_step cg_ts cg_tsr cg_tmax
                                   cg_max_iter eps_mach eps_pos psi_grad_full psi_yhat grad_L grad_psi stop_req time_up TP x_in y_in Σ errz_in bt_fuel).
    Qed.

    (* the same for the calls made so far at any reachable state (also of runs that never finish or end by an exception) *)
    Theorem PANTRDIR_newtontr_every_call_so_far : forall sD, ReachableD Dn ntr ntr_new sD ->
      Forall (ntr_call_ok lb ub l1 grad_psi_at hess_psi_prod hvf fd fd_step cg_ts cg_tsr cg_tmax cg_max_iter TP y_in Σ) (tsd_calls Dn sD).
    Proof.
      exact (reachD_newtontr_calls lb ub l1 prov_inactive prov_hess_L prov_hess_psi m_is_zero grad_psi_at hess_psi_prod hvf fd fd_step cg_ts cg_tsr cg_tmax
                                   cg_max_iter eps_mach eps_pos psi_grad_full psi_yhat grad_L grad_psi stop_req time_up TP x_in y_in Σ errz_in bt_fuel).
    Qed.

    (* a single apply call, outside any loop: whenever NewtonTRDirection::apply returns (does not throw), the guarantees hold *)
    Theorem PANTRDIR_newtontr_apply_guarantee : forall (d : Dn) γ x xh p g Δ q0 q v d',
      td_apply Dn ntr d γ x xh p g Δ q0 = Some (q, v, d') ->
      ntr_guarantee lb ub l1 grad_psi_at hess_psi_prod hvf fd fd_step cg_ts cg_tsr cg_tmax cg_max_iter (nt_y d) (nt_Σ d) γ x p g Δ q v.
    Proof.
      exact (ntr_apply_guarantee lb ub l1 prov_inactive prov_hess_L prov_hess_psi m_is_zero grad_psi_at hess_psi_prod hvf fd fd_step cg_ts cg_tsr cg_tmax
                                 cg_max_iter eps_mach eps_pos).
    Qed.

    (* apply throws exactly for a non-finite radius or a radius below ε_mach; update / changed_γ / reset do nothing *)
    Theorem PANTRDIR_newtontr_apply_throws_iff : forall (d : Dn) γ x xh p g Δ q0,
      td_apply Dn ntr d γ x xh p g Δ q0 = None <-> (negb (nfinite Δ) || nltb Δ eps_mach) = true.
    Proof.
      exact (ntr_apply_throws_iff lb ub l1 prov_inactive prov_hess_L prov_hess_psi m_is_zero grad_psi_at hess_psi_prod hvf fd fd_step cg_ts cg_tsr cg_tmax
                                  cg_max_iter eps_mach).
    Qed.

    Corollary PANTRDIR_NEWTONTR_invariant_at_every_stop_check : forall sD, ReachableD Dn ntr ntr_new sD ->
      let s := tsd_st Dn sD in
      Consistent (ts_curr s) /\ Qub_ok (ts_curr s) /\ Glrel0 (ts_curr s) /\ (ts_k s <= p_max_iter P)%nat /\ tp_min_radius TP <= ts_delta s.
    Proof. exact (PANTRDIR_invariant_at_every_stop_check Dn ntr ntr_new). Qed.

    Corollary PANTRDIR_NEWTONTR_records_and_status : forall fuel oD, runD Dn ntr ntr_new fuel = TDoneD Dn oD ->
      let o := tod_out Dn oD in
      Forall Rec_ok (to_log o) /\ (to_iterations o <= p_max_iter P)%nat /\ to_status o <> StBusy /\ to_status o <> StNoProgress /\
      (to_status o = StConverged <-> to_eps o <= eff_tol (o_tol P)).
    Proof.
      exact (fun fuel oD E =>
               let '(conj C1 (conj C2 (conj C3 (conj _ (conj C5 _))))) := PANTRDIR_status_clauses Dn ntr ntr_new fuel oD E in
               conj (PANTRDIR_records Dn ntr ntr_new fuel oD E) (conj C1 (conj C2 (conj C3 C5)))).
    Qed.
  End NewtonTR.
End PANTRDIR.

Print Assumptions PANTRDIR_refines_oracle_model.
Print Assumptions PANTRDIR_notfinite.
Print Assumptions PANTRDIR_reachable_refines.
Print Assumptions PANTRDIR_invariant_at_every_stop_check.
Print Assumptions PANTRDIR_step.
Print Assumptions PANTRDIR_records.
Print Assumptions PANTRDIR_status_clauses.
Print Assumptions PANTRDIR_exit.
Print Assumptions PANTRDIR_inner_contract.
Print Assumptions PANTRDIR_provider_invariant.
Print Assumptions PANTRDIR_call_log.
Print Assumptions PANTRDIR_newtontr_step_is_feasible_and_beats_cauchy.
Print Assumptions PANTRDIR_newtontr_every_call_so_far.
Print Assumptions PANTRDIR_newtontr_apply_guarantee.
Print Assumptions PANTRDIR_newtontr_apply_throws_iff.
Print Assumptions PANTRDIR_NEWTONTR_invariant_at_every_stop_check.
Print Assumptions PANTRDIR_NEWTONTR_records_and_status.

(* NewtonTRDirection's index set J over R = the C15 model of eval_inactive_indices_res_lna *)
Theorem PANTRDIR_newtontr_index_set_is_C15_model : forall (lb ub : list (option R)) l1 γ x g,
  ntr_J lb ub l1 γ x g = inactive_indices lb ub l1 γ x g.
Proof. exact inactive_indices_x_is_C15_model. Qed.
Print Assumptions PANTRDIR_newtontr_index_set_is_C15_model.

(* on the exact-Hessian path (finite_diff = false) the provider model is C11's model Steihaug.newton_tr_apply — in every number system *)
Theorem PANTRDIR_newtontr_exact_path_is_C11_model : forall (lb ub : list (option R)) (l1 : list R)
    (grad_psi_at : list R -> list R -> list R -> list R) (hess_psi_prod : list R -> list R -> list R -> R -> list R -> list R)
    (hvf fd_step cg_ts cg_tsr : R) (cg_tmax : option R) (cg_max_iter : nat -> Z) (d : ntrstate R) (γ : R) (x p g : list R) (Δ : R),
  length x = length p ->
  ntr_solve lb ub l1 grad_psi_at hess_psi_prod hvf false fd_step cg_ts cg_tsr cg_tmax cg_max_iter d γ x p g Δ
  = newton_tr_apply (hess_psi_prod x (nt_y d) (nt_Σ d) 1)
                    (ntr_params cg_ts cg_tsr cg_tmax cg_max_iter (length (ntr_J lb ub l1 γ x g))) hvf γ (ntr_J lb ub l1 γ x g) p Δ.
Proof. exact (@ntr_solve_is_C11_model R NumR). Qed.
Print Assumptions PANTRDIR_newtontr_exact_path_is_C11_model.

(* non-vacuity.  (1) NewtonTRDirection::apply returns (does not throw) on a concrete 1-dimensional call whose index set is J = {0} and whose
   reduced Hessian operator (v |-> 2 v) satisfies C11's hypothesis `sym_linear_op`: the premises of the composition theorem are satisfiable.
   (2) `runD ... = TDoneD oD` is satisfiable over R for PANTR<NewtonTRDirection> (constant oracles, max_iter = 0). *)
Definition nv_ntr := newton_tr_dir (T:=R) [None] [None] [] true true true true (fun x _ _ => x) (fun _ _ _ _ v => vscale 2 v)
                                   1 false (1/1024) 1 (1/2) None (fun nJ => Z.of_nat nJ) (1/4).
Lemma nv_J : ntr_J (T:=R) [None] [None] [] 1 [0] [1] = [0%nat].
Proof.
  unfold ntr_J, inactive_indices_x. cbn [l1_is_zero]. cbv [inactive_from_x inactive1_x l1_weight in_interior_x nth].
  cbn. destruct (Req_bool_spec 0 0) as [_|H]; [reflexivity|contradiction].
Qed.
Example PANTRDIR_newtontr_nonvacuous :
  exists r, td_apply _ nv_ntr (mkNT [] [] []) 1 [0] [-1] [-1] [1] 1 [] = Some r /\
            ntr_J (T:=R) [None] [None] [] 1 [0] [1] = [0%nat] /\
            sym_linear_op 1 (ntr_BJ (fun x _ _ => x) (fun _ _ _ _ v => vscale 2 v) false (1/1024) (mkNT [] [] []) [0%nat] [0] [1]).
Proof.
  eexists. split; [|split; [exact nv_J|]].
  - cbn [td_apply nv_ntr newton_tr_dir]. unfold ntr_apply.
    assert (E : (negb (nfinite (T:=R) 1) || nltb 1 (1/4)) = false).
    { cbn. apply Rlt_bool_false_iff. lra. }
    rewrite E. reflexivity.
  - unfold sym_linear_op, ntr_BJ. cbn [nt_y nt_Σ length].
    split; [|split; [|split]].
    + intros [|a [|]]; try discriminate. reflexivity.
    + intros [|a [|]] [|b [|]]; try discriminate. intros _ _. cbn. f_equal. ring.
    + intros t [|a [|]]; try discriminate. intros _. cbn. f_equal. ring.
    + intros [|a [|]] [|b [|]]; try discriminate. intros _ _. cbn. ring.
Qed.
Definition nvd_P : params (T:=R) := mkParams 0 10 1 (1/1000000) (1/1000000) (1/2) 1 1 ProjGradNorm 0 0 0 0 0 false false false false true 0.
Definition nvd_TP : trparams (T:=R) := mkTr nvd_P 0 (1/5) (4/5) (1/4) 1 2 (Some 1) (1/8) false true false true.
Definition nvd_run := pantrD (T:=R) (fun _ => (0, [0], [])) (fun _ => (0, [])) (fun _ _ => [0]) (fun _ => [0]) [None] [None] []
                        (ntrstate R) nv_ntr (fun _ => false) (fun _ => false) nvd_TP [0] [] [] [] 1 ntr_new 1.
Example PANTRDIR_nonvacuous : exists oD, nvd_run = TDoneD _ oD /\ to_iterations (tod_out _ oD) = 0%nat /\ to_status (tod_out _ oD) <> StBusy /\ tod_calls _ oD = [].
Proof.
  unfold nvd_run, pantrD, init_L, nvd_TP, nvd_P. cbn [tp_base p_L0 fst snd psi_grad].
  change (@nleb R NumR 1 (@n0 R NumR)) with (Rle_bool 1 0).
  destruct (Rle_bool_spec 1 0) as [H|_]; [lra|].
  cbn [iL nfinite NumR negb]. unfold backtrack, Pantr.P. cbn [tp_base].
  cbv [eval_prox eval_cost set_gamma_L p_Lgamma iL igam ix igrad ixh ip iyh ipsi ipsih ipp igp ih ihave igradh
       eval_prox_grad_step proj_grad_step map5 proj_step1 clamp_hi clamp_lo osub option_map vadd map2 fst snd].
  cbn [ZeroFpr.init_qub iL p_Lmax]. change (@nltb R NumR 1 1) with (Rlt_bool 1 1).
  destruct (Rlt_bool_spec 1 1) as [H|_]; [lra|]. cbn [andb].
  cbn [tloopD]. unfold passD, pass_prox, tpass, Pantr.P.
  cbn [tsd_st tsd_dir tsd_rej tsd_calls tp_base ts_curr ts_cnt ts_k p_max_iter p_max_no_progress o_tol p_crit crit_needs_gradh].
  unfold stop_status_helpers. cbn [Nat.eqb].
  match goal with |- context [if nleb ?a ?b then _ else _] => destruct (nleb a b) end.
  all: cbv [exit_block overwrites o_always ixh iyh]; eexists; split; [reflexivity|]; cbn [tod_out tod_calls to_iterations to_status]; repeat split; try discriminate.
Qed.
