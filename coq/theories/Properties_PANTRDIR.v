(* stub, replaced below *)
From Alpaqa Require Import Num PantrDir.
Theorem PANTRDIR_stub : True. Proof. exact I. Qed.
Print Assumptions PANTRDIR_stub.
