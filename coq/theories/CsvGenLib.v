(* CsvGenLib.v — what the GENERATED file coq/gen/CsvGen.v (translate/gen_csv.py) is written against.  No proofs here.
     The reader object is kept as in the C++: the character array `s` (a list; what lies beyond `bufidx` is stale), the fill
     level `bufidx`, the flag `keep_reading`.  Pointers into `s` are offsets from s.data().
     fc_result        what std::from_chars reports: ok (value, characters consumed) / invalid_argument (nothing consumed, value
                      untouched) / result_out_of_range (characters consumed, value untouched)
     cres / cbind     a member function that can throw read_error: the stream as it is at that moment, then error or result
     cslice / cput / cmove      [first, last) of the array; is.get(s.data() + off, ..) storing at an offset; std::copy to the front
     oceq             comparison of the int returned by peek() / get() with a character (EOF equals no character)
   The stream operations (s_peek, s_get1, s_getn) and the error names are those of Csv.v. *)
From Coq Require Import List Ascii Bool Arith.
From Alpaqa Require Import Csv.
Import ListNotations.

Inductive fc_result (V : Type) := FcOk (v : V) (k : nat) | FcInvalid | FcRange (k : nat).
Arguments FcOk {V} v k. Arguments FcInvalid {V}. Arguments FcRange {V} k.

Definition fc_adv {V} (r : fc_result V) : nat := match r with FcOk _ k => k | FcInvalid => 0 | FcRange k => k end.
Definition fc_ok {V} (r : fc_result V) : bool := match r with FcOk _ _ => true | _ => false end.     (* ec == std::errc{} *)
Definition fc_val {V} (r : fc_result V) (old : V) : V := match r with FcOk v _ => v | _ => old end.

(* the parser of Csv.v that a from_chars stands for *)
Definition parse_of {V} (fc : list ascii -> fc_result V) (l : list ascii) : option (V * nat) :=
  match fc l with FcOk v k => Some (v, k) | _ => None end.
Definition fc_of_parse {V} (p : list ascii -> option (V * nat)) (l : list ascii) : fc_result V :=
  match p l with Some (v, k) => FcOk v k | None => FcInvalid end.

Definition cres (A : Type) : Type := (stream * (err + A))%type.
Definition cbind {A B} (x : cres A) (f : stream -> A -> cres B) : cres B :=
  match x with
  | (s, inl e) => (s, inl e)
  | (s, inr a) => f s a
  end.
(* the same without a stream (static member functions) *)
Definition ebind {A B} (x : err + A) (f : A -> err + B) : err + B :=
  match x with inl e => inl e | inr a => f a end.
(* a static function called from a member function *)
Definition clift {A B} (is : stream) (x : err + A) (f : A -> cres B) : cres B :=
  match x with inl e => (is, inl e) | inr a => f a end.

Definition cslice (s : list ascii) (first last : nat) : list ascii := firstn (last - first) (skipn first s).
Definition cput (s : list ascii) (off : nat) (xs : list ascii) : list ascii := firstn off s ++ xs ++ skipn (off + length xs) s.
Definition cmove (s : list ascii) (first last : nat) : list ascii :=
  firstn (last - first) (skipn first s) ++ skipn (last - first) s.
Definition cnth (s : list ascii) (p : nat) : ascii := nth p s zero.
Definition oceq (c : option ascii) (d : ascii) : bool := match c with Some c' => Ascii.eqb c' d | None => false end.

(* `while (c) body` with fuel: cond and body on a state; None = out of fuel *)
Fixpoint cwhile {St} (fuel : nat) (step : stream -> St -> cres (St + St)) (is : stream) (st : St) : cres St :=
  match fuel with
  | 0 => (is, inl EFuel)
  | S f => cbind (step is st) (fun is r => match r with inl done => (is, inr done) | inr next => cwhile f step is next end)
  end.
