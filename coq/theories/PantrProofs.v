(* PantrProofs.v — loop invariants of the whole-run PANTR model (Pantr.v), over R, for every problem oracle, TR-direction oracle,
   stop / time oracle and parameter set.  Re-uses the notions of PanocProofs.v / ZeroFprProofs.v (zconsistent, qub_ok, glrel0, halved). *)
From Coq Require Import Reals List ZArith Lra Lia Bool Arith Psatz.
From Flocq Require Import Raux.
From Alpaqa Require Import Num NumR Vec Prox ProxProofs ProxVec SolverStatus SolverKernels SolverKernelsProofs DescentProofs
                           StopChain StopChainProofs LoopSkeleton KktProofs Panoc PanocProofs ZeroFpr ZeroFprProofs Pantr.
Import ListNotations.
Local Open Scope R_scope.

Section Proofs.
  Variable psi_grad_full : list R -> R * list R * list R.
  Variable psi_yhat : list R -> R * list R.
  Variable grad_L : list R -> list R -> list R.
  Variable grad_psi : list R -> list R.
  Variables (lb ub : list (option R)) (l1 : list R).
  Variable tr_apply : nat -> iterate (T:=R) -> R -> list R * R.
  Variable has_initial : bool.
  Variable stop_req : counters -> bool.
  Variable time_up : counters -> bool.
  Variable TP : trparams (T:=R).
  Variables (x_in y_in Σ errz_in : list R).
  Variable bt_fuel : nat.
  Set Default Proof Using "All".

  Notation it := (iterate (T:=R)).
  Notation P := (tp_base TP).
  Notation eprox := (eval_prox lb ub l1).
  Notation ecost := (eval_cost psi_yhat).
  Notation bt := (ZeroFpr.init_qub psi_yhat lb ub l1 P bt_fuel).
  Notation tpass_ := (tpass psi_grad_full psi_yhat grad_L lb ub l1 tr_apply has_initial stop_req time_up TP x_in y_in Σ errz_in bt_fuel).
  Notation tloop_ := (tloop psi_grad_full psi_yhat grad_L lb ub l1 tr_apply has_initial stop_req time_up TP x_in y_in Σ errz_in bt_fuel).
  Notation pantr_ := (pantr psi_grad_full psi_yhat grad_L grad_psi lb ub l1 tr_apply has_initial stop_req time_up TP x_in y_in Σ errz_in bt_fuel).
  Notation pgrad := (psi_grad psi_grad_full).
  Notation Glrel0 := (glrel0 psi_grad_full grad_psi P x_in).
  Notation Linit := (L_init psi_grad_full grad_psi P x_in).
  Notation Cstep := (cons_step lb ub l1).
  Notation Qok := (qub_ok P).
  Notation Zcons := (zconsistent psi_grad_full psi_yhat grad_L lb ub l1).
  Notation Zcons_x := (zcons_x psi_grad_full psi_yhat grad_L).

  (* in PANTR every iterate's (ψ, ∇ψ) comes from eval_ψ_grad_ψ at its own x *)
  Definition tcons_x (i : it) : Prop := (ipsi i, igrad i) = pgrad (ix i).
  Definition tconsistent (i : it) : Prop := tcons_x i /\ Zcons i.
  Lemma tcons_zcons (i : it) : tcons_x i -> Zcons_x i.
  Proof. intros E. left. exact E. Qed.

  (* x, ψ, ∇ψ freshly evaluated, then the prox step: what compute_FBS_step / compute_candidate_fbe build *)
  Lemma fresh_step (i : it) x γ L :
    let j := eprox (set_gamma_L (eval_psi_grad psi_grad_full (set_x i x)) γ L) in
    tcons_x j /\ Cstep j /\ gl_of j = (γ, L) /\ ix j = x.
  Proof.
    cbv zeta. unfold tcons_x, cons_step, eval_prox, set_gamma_L, eval_psi_grad, set_x, gl_of.
    cbn [ix ixh igrad ip ih igam iL ipp igp ipsi]. split; [destruct (pgrad x); reflexivity|]. split; [|split; reflexivity].
    repeat split. destruct (eval_prox_grad_step lb ub l1 γ x (snd (pgrad x))) as [[a b] c]; reflexivity.
  Qed.
  Lemma ecost_t (i : it) : tcons_x i -> Cstep i -> tconsistent (ecost i) /\ gl_of (ecost i) = gl_of i /\ ix (ecost i) = ix i.
  Proof.
    intros Hx Hs. split; [|split; reflexivity]. split; [exact Hx|]. apply (ecost_cons psi_grad_full psi_yhat grad_L grad_psi lb ub l1 (fun _ _ _ => None) has_initial stop_req time_up P x_in y_in Σ errz_in bt_fuel); [now apply tcons_zcons|exact Hs].
  Qed.
  (* backtrack_qub *)
  Lemma bt_facts : forall fuel i c st i' c' st', tconsistent i ->
    ZeroFpr.init_qub psi_yhat lb ub l1 P fuel i c st = Some (i', c', st') ->
    tconsistent i' /\ Qok i' /\ halved i i' /\ ix i' = ix i.
  Proof.
    induction fuel as [|fuel IH]; intros i c st i' c' st' Hc; cbn [ZeroFpr.init_qub];
      change (@nltb R NumR) with Rlt_bool;
      destruct (Rlt_bool (iL i) (p_Lmax P) && it_qub_violated P i) eqn:Eq; try discriminate.
    1,3: intros E; inversion E; subst; split; [exact Hc|split; [exact Eq|split; [apply (halved_refl psi_grad_full psi_yhat grad_L grad_psi lb ub l1 (fun _ _ => None) has_initial stop_req time_up P x_in y_in Σ errz_in bt_fuel)|reflexivity]]].
    intros E. destruct Hc as [Hx Hz].
    assert (Hx' : tcons_x (eprox (halve_it i))) by exact Hx.
    destruct (zeprox_cons psi_grad_full psi_yhat grad_L grad_psi lb ub l1 (fun _ _ _ => None) has_initial stop_req time_up P x_in y_in Σ errz_in bt_fuel (halve_it i)) as [_ B0]; [apply Hz|].
    destruct (ecost_t _ Hx' B0) as (C1 & C2 & C3).
    destruct (IH _ _ _ _ _ _ C1 E) as (D1 & D2 & D3 & D4).
    split; [exact D1|]. split; [exact D2|]. split; [|rewrite D4; reflexivity].
    apply (halved_trans psi_grad_full psi_yhat grad_L grad_psi lb ub l1 (fun _ _ => None) has_initial stop_req time_up P x_in y_in Σ errz_in bt_fuel i (ecost (eprox (halve_it i)))); [|exact D3].
    exists 1%nat. cbn [halve_n]. rewrite C2. apply (halve_it_gl psi_grad_full psi_yhat grad_L grad_psi lb ub l1 (fun _ _ => None) has_initial stop_req time_up P x_in y_in Σ errz_in bt_fuel).
  Qed.

  (* Rmax-like facts about the radius *)
  Lemma nfmax_ge_r (a b : R) : b <= nfmax a b.
  Proof. unfold nfmax. cbn [nisnan NumR]. unfold cmax. numR. rbool; lra. Qed.

  (* ------------------------------------------------------------------ records, invariant *)
  Definition acc_ok (acc : bool) (ρ : option R) : Prop := acc = true -> exists r, ρ = Some r /\ tp_thr_acc TP <= r.
  Definition trec_ok (r : trec (T:=R)) : Prop :=
    tconsistent (t_it r) /\ Qok (t_it r) /\ Glrel0 (t_it r) /\ (t_k r <= p_max_iter P)%nat /\
    (t_status r = StBusy -> (exists Δ, t_delta r = Some Δ /\ tp_min_radius TP <= Δ) /\ acc_ok (t_acc r) (t_rho r)).

  Record Inv (s : tstate (T:=R)) : Prop := {
    iv_cons : tconsistent (ts_curr s);
    iv_qub : Qok (ts_curr s);
    iv_gl : Glrel0 (ts_curr s);
    iv_k : (ts_k s <= p_max_iter P)%nat;
    iv_delta : tp_min_radius TP <= ts_delta s;
    iv_acc : acc_ok (ts_acc s) (ts_rho s);
    iv_log : Forall trec_ok (ts_log s) }.

  (* what one completed iteration did: accepted TR step (ratio test held for the candidate built from the FBS iterate at x̂ₖ)
     or fall-back to the forward-backward step x̂ₖ *)
  Definition step_facts (s s' : tstate (T:=R)) : Prop :=
    ts_k s' = S (ts_k s) /\ halved (ts_curr s) (ts_curr s') /\
    (ts_acc s' = false -> ix (ts_curr s') = ixh (ts_curr s)) /\
    (ts_acc s' = true -> exists (px cd : it) (qm : R),
        tcons_x px /\ Cstep px /\ ix px = ixh (ts_curr s) /\ gl_of px = gl_of (ts_curr s) /\
        qm < 0 /\
        ts_rho s' = Some (tr_ratio (tp_ratio_approx TP) (it_fbe px) (it_fbe cd) qm (tp_tr_tol TP) (p_Lgamma P)) /\
        tp_thr_acc TP <= tr_ratio (tp_ratio_approx TP) (it_fbe px) (it_fbe cd) qm (tp_tr_tol TP) (p_Lgamma P) /\
        ix (ts_curr s') = ix cd /\ halved cd (ts_curr s') /\ halved px cd /\
        (tp_ratio_new_step TP = true -> ts_curr s' = cd)).

  Notation trstep := (tr_step psi_grad_full psi_yhat lb ub l1 tr_apply TP bt_fuel).
  Notation finish := (finish_iter psi_yhat lb ub l1 TP bt_fuel).
  Notation fbs := (fbs_iterate psi_grad_full lb ub l1).

  Lemma fresh (j0 : it) :
    let j := eprox (eval_psi_grad psi_grad_full j0) in
    tcons_x j /\ Cstep j /\ gl_of j = gl_of j0 /\ ix j = ix j0.
  Proof.
    cbv zeta. unfold tcons_x, cons_step, eval_prox, eval_psi_grad, gl_of.
    cbn [ix ixh igrad ip ih igam iL ipp igp ipsi]. split; [destruct (pgrad (ix j0)); reflexivity|]. split; [|split; reflexivity].
    repeat split. destruct (eval_prox_grad_step lb ub l1 (igam j0) (ix j0) (snd (pgrad (ix j0)))) as [[a b] c]; reflexivity.
  Qed.

  (* facts about the TR step: radius floor, and what acceptance means *)
  Definition tr_facts (s : tstate (T:=R)) (prox : it) (r : trtuple (T:=R)) : Prop :=
    let '(cand, q, Δ, ρ, acc, c, st, ok) := r in
    tp_min_radius TP <= Δ /\
    (acc = true -> tcons_x cand /\ Cstep cand /\ halved prox cand /\
       (tp_ratio_new_step TP = true -> tconsistent cand /\ Qok cand) /\
       exists qm, qm < 0 /\
         ρ = Some (tr_ratio (tp_ratio_approx TP) (it_fbe prox) (it_fbe cand) qm (tp_tr_tol TP) (p_Lgamma P)) /\
         tp_thr_acc TP <= tr_ratio (tp_ratio_approx TP) (it_fbe prox) (it_fbe cand) qm (tp_tr_tol TP) (p_Lgamma P)).

  Lemma tr_step_facts s prox c4 accel : tp_min_radius TP <= ts_delta s -> tr_facts s prox (trstep s prox c4 accel).
  Proof.
    intros HΔ. unfold tr_step, tr_facts. cbv zeta.
    destruct (accel && negb (tp_disable_accel TP)); [|split; [exact HΔ|discriminate]].
    change (@nltb R NumR) with Rlt_bool. change (@nleb R NumR) with Rle_bool. change (@n0 R NumR) with 0.
    set (qa := tr_apply (c_apply c4) prox (ts_delta s)).
    destruct (vall_finite (fst qa) && Rlt_bool (snd qa) 0) eqn:Ec; [|split; [exact HΔ|discriminate]].
    apply andb_prop in Ec. destruct Ec as [_ Hq]. apply Rlt_bool_iff in Hq.
    set (cand0 := eprox (eval_psi_grad psi_grad_full (set_gamma_L (set_x (ts_cand s) (vadd (ix prox) (fst qa))) (igam prox) (iL prox)))).
    destruct (fresh (set_gamma_L (set_x (ts_cand s) (vadd (ix prox) (fst qa))) (igam prox) (iL prox))) as (F1 & F2 & F3 & F4).
    fold cand0 in F1, F2, F3, F4.
    assert (Hh0 : halved prox cand0) by (exists 0%nat; rewrite F3; reflexivity).
    destruct (tp_ratio_new_step TP) eqn:Ens.
    - destruct (ecost_t cand0 F1 F2) as (C1 & C2 & C3).
      unfold backtrack.
      match goal with |- context [ZeroFpr.init_qub ?a1 ?a2 ?a3 ?a4 ?a5 ?a6 ?a7 ?a8 ?a9] =>
        destruct (ZeroFpr.init_qub a1 a2 a3 a4 a5 a6 a7 a8 a9) as [[[cand1 c7] st2]|] eqn:Eb end;
        [|split; [exact HΔ|discriminate]].
      destruct (bt_facts _ _ _ _ _ _ _ C1 Eb) as (D1 & D2 & D3 & D4).
      split; [apply nfmax_ge_r|]. intros Hacc. apply Rle_bool_iff in Hacc.
      split; [apply D1|]. split; [apply D1|]. split.
      { apply (halved_trans psi_grad_full psi_yhat grad_L grad_psi lb ub l1 (fun _ _ => None) has_initial stop_req time_up P x_in y_in Σ errz_in bt_fuel prox (ecost cand0)); [|exact D3]. destruct Hh0 as [j Ej]. exists j. now rewrite C2. }
      split; [intros _; split; assumption|]. exists (snd qa). split; [exact Hq|]. split; [reflexivity|exact Hacc].
    - split; [apply nfmax_ge_r|]. intros Hacc. apply Rle_bool_iff in Hacc.
      split; [exact F1|]. split; [exact F2|]. split; [exact Hh0|]. split; [discriminate|].
      exists (snd qa). split; [exact Hq|]. split; [reflexivity|exact Hacc].
  Qed.

  Lemma finish_facts s curr prox gbuf2 ε accel r :
    Inv s -> curr = ts_curr s -> ts_k s <> p_max_iter P ->
    tcons_x prox -> Cstep prox -> ix prox = ixh curr -> gl_of prox = gl_of curr ->
    tr_facts s prox r ->
    match finish s curr prox gbuf2 ε accel r with
    | TCont s' => Inv s' /\ step_facts s s'
    | TFuel => True
    | TExit _ => False
    end.
  Proof.
    intros [Hc Hq Hgl Hk HΔ Hacc Hlog] Ecurr Hne Px Ps Pix Pgl. subst curr.
    destruct r as [[[[[[[cand q] Δ] ρ] acc] c8] st3] ok]. unfold tr_facts, finish_iter. intros [HΔ' Hcand].
    destruct ok; cbn [negb]; [|exact I].
    assert (Hpg : Glrel0 prox) by (destruct Hgl as [j Ej]; exists j; now rewrite Pgl).
    assert (Hrec : trec_ok (mkTrec (ts_k s) (ts_curr s) gbuf2 q (Some Δ) ρ acc ε StBusy)).
    { unfold trec_ok; cbn [t_it t_k t_status t_delta t_acc t_rho]. split; [exact Hc|]. split; [exact Hq|]. split; [exact Hgl|]. split; [exact Hk|].
      intros _. split; [exists Δ; split; [reflexivity|exact HΔ']|]. intros Ea. destruct (Hcand Ea) as (_ & _ & _ & _ & qm & H1 & H2 & H3). eauto. }
    destruct acc eqn:Eacc.
    - destruct (Hcand eq_refl) as (Cx & Cs & Chv & Cns & qm & Hqm & Hρ & Hthr).
      assert (Hbt : forall cand2 c10 st4,
                (if tp_ratio_new_step TP then Some (cand, inc_cb c8, st3) else backtrack psi_yhat lb ub l1 TP bt_fuel (ecost cand) (inc_py (inc_cb c8)) st3) = Some (cand2, c10, st4) ->
                tconsistent cand2 /\ Qok cand2 /\ halved cand cand2 /\ ix cand2 = ix cand /\ (tp_ratio_new_step TP = true -> cand2 = cand)).
      { intros cand2 c10 st4. destruct (tp_ratio_new_step TP) eqn:Ens.
        - intros E. inversion E; subst. destruct (Cns eq_refl) as [A1 A2]. split; [exact A1|]. split; [exact A2|]. split; [apply (halved_refl psi_grad_full psi_yhat grad_L grad_psi lb ub l1 (fun _ _ => None) has_initial stop_req time_up P x_in y_in Σ errz_in bt_fuel)|]. split; reflexivity.
        - unfold backtrack. intros E. destruct (ecost_t cand Cx Cs) as (C1 & C2 & C3).
          destruct (bt_facts _ _ _ _ _ _ _ C1 E) as (D1 & D2 & D3 & D4). split; [exact D1|]. split; [exact D2|]. split.
          { destruct D3 as [j Ej]. exists j. now rewrite <- C2. } split; [now rewrite D4|discriminate]. }
      match goal with |- match (match ?b with Some _ => _ | None => TFuel end) with _ => _ end => destruct b as [[[cand2 c10] st4]|] eqn:Eb; [|exact I] end.
      destruct (Hbt _ _ _ Eb) as (B1 & B2 & B3 & B4 & B5).
      assert (Hcc : halved (ts_curr s) cand2).
      { apply (halved_trans psi_grad_full psi_yhat grad_L grad_psi lb ub l1 (fun _ _ => None) has_initial stop_req time_up P x_in y_in Σ errz_in bt_fuel _ cand); [|exact B3]. destruct Chv as [j Ej]. exists j. now rewrite <- Pgl. }
      split.
      + constructor; cbn [ts_curr ts_k ts_delta ts_acc ts_rho ts_log].
        * exact B1.
        * exact B2.
        * apply (glrel0_halved psi_grad_full psi_yhat grad_L grad_psi lb ub l1 (fun _ _ => None) has_initial stop_req time_up P x_in y_in Σ errz_in bt_fuel (ts_curr s)); assumption.
        * lia.
        * exact HΔ'.
        * intros _. eauto.
        * constructor; assumption.
      + unfold step_facts; cbn [ts_curr ts_k ts_acc ts_rho]. split; [reflexivity|]. split; [exact Hcc|]. split; [discriminate|].
        intros _. exists prox, cand, qm. repeat (split; [assumption|]). exact B5.
    - set (st4 := if accel then _ else st3).
      destruct (ecost_t prox Px Ps) as (C1 & C2 & C3).
      unfold backtrack.
      match goal with |- context [ZeroFpr.init_qub ?a1 ?a2 ?a3 ?a4 ?a5 ?a6 ?a7 ?a8 ?a9] =>
        destruct (ZeroFpr.init_qub a1 a2 a3 a4 a5 a6 a7 a8 a9) as [[[prox2 c10] st5]|] eqn:Eb end; [|exact I].
      destruct (bt_facts _ _ _ _ _ _ _ C1 Eb) as (D1 & D2 & D3 & D4).
      assert (Hcc : halved (ts_curr s) prox2).
      { destruct D3 as [j Ej]. exists j. now rewrite <- Pgl, <- C2. }
      split.
      + constructor; cbn [ts_curr ts_k ts_delta ts_acc ts_rho ts_log].
        * exact D1.
        * exact D2.
        * apply (glrel0_halved psi_grad_full psi_yhat grad_L grad_psi lb ub l1 (fun _ _ => None) has_initial stop_req time_up P x_in y_in Σ errz_in bt_fuel (ts_curr s)); assumption.
        * lia.
        * exact HΔ'.
        * discriminate.
        * constructor; assumption.
      + unfold step_facts; cbn [ts_curr ts_k ts_acc ts_rho]. split; [reflexivity|]. split; [exact Hcc|]. split; [|discriminate].
        intros _. rewrite D4, C3. exact Pix.
  Qed.

  Record PostW (cf : it) (cnt : counters) (o : toutputs (T:=R)) : Prop := {
    po_cons : tconsistent cf;
    po_qub : Qok cf;
    po_gl : Glrel0 cf;
    po_final : to_final o = cf;
    po_eps : exists gh, (crit_needs_gradh (p_crit P) = true -> gh = grad_L (ixh cf) (iyh cf)) /\
                        to_eps o = crit_eps (p_crit P) lb ub l1 (ip cf) (igam cf) (ix cf) (ixh cf) (iyh cf) (igrad cf) gh;
    po_status : to_status o = stop_status_helpers (o_tol P) (to_eps o) (time_up cnt) (to_iterations o) (p_max_iter P)
                                                  0 (p_max_no_progress P) (stop_req cnt);
    po_notbusy : to_status o <> StBusy;
    po_iter : (to_iterations o <= p_max_iter P)%nat;
    po_exit : (to_x o, to_y o, to_errz o) = exit_block (to_status o) (o_always P) x_in y_in errz_in (ixh cf) (iyh cf) Σ;
    po_log : Forall trec_ok (to_log o) }.
  Definition Post (o : toutputs (T:=R)) : Prop := exists cf cnt, PostW cf cnt o.

  Lemma tpass_inv (s : tstate (T:=R)) : Inv s ->
    match tpass_ s with TCont s' => Inv s' /\ step_facts s s' | TExit o => Post o | TFuel => True end.
  Proof.
    intros HI. pose proof HI as [Hc Hq Hgl Hk HΔ Hacc Hlog]. unfold tpass, Pantr.P. cbv zeta.
    set (curr := ts_curr s) in *. set (need := crit_needs_gradh (p_crit P)).
    set (gbuf0 := if need then grad_L (ixh curr) (iyh curr) else ts_gbuf s).
    set (c0 := if need then inc_gl (ts_cnt s) else ts_cnt s).
    set (ε := crit_eps (p_crit P) lb ub l1 (ip curr) (igam curr) (ix curr) (ixh curr) (iyh curr) (igrad curr) gbuf0).
    destruct (stop_status_helpers (o_tol P) ε (time_up c0) (ts_k s) (p_max_iter P) 0 (p_max_no_progress P) (stop_req c0)) eqn:Est.
    2-8: match goal with |- context [exit_block ?st _ _ _ _ _ _ _] =>
           destruct (exit_block st (o_always P) x_in y_in errz_in (ixh curr) (iyh curr) Σ) as [[xo yo] eo] eqn:Eex;
           exists curr, c0; constructor; cbn [to_status to_iterations to_eps to_x to_y to_errz to_final to_log];
           [exact Hc|exact Hq|exact Hgl|reflexivity
           |exists gbuf0; split; [intros En; subst gbuf0 need; rewrite En; reflexivity|reflexivity]
           |now rewrite Est|discriminate|exact Hk|now rewrite Eex
           |apply Forall_rev; constructor; [|exact Hlog]; unfold trec_ok; cbn [t_it t_k t_status];
            split; [exact Hc|split; [exact Hq|split; [exact Hgl|split; [exact Hk|discriminate]]]]]
         end.
    apply busy_iff in Est. destruct Est as (_ & _ & Hne & _).
    match goal with |- context [finish s curr ?px ?g2 ε ?ac (trstep s ?px ?c4 ?ac)] =>
      set (prox := px); set (c4' := c4); set (accel := ac); set (g2' := g2) end.
    destruct (fresh (mkIt (ixh curr) (ixh (ts_prox s)) (if need then gbuf0 else grad_L (ixh curr) (iyh curr)) (igradh (ts_prox s)) (ip (ts_prox s))
                          (iyh (ts_prox s)) (ipsih curr) (ipsih (ts_prox s)) (igam curr) (iL curr) (ipp (ts_prox s)) (igp (ts_prox s))
                          (ih (ts_prox s)) (ihave (ts_prox s)))) as (F1 & F2 & F3 & F4).
    pose proof (finish_facts s curr prox g2' ε accel _ HI eq_refl Hne F1 F2 F4 F3 (tr_step_facts s prox c4' accel HΔ)) as Hf.
    destruct (finish s curr prox g2' ε accel (trstep s prox c4' accel)); [contradiction|exact Hf|exact I].
  Qed.

  Lemma tloop_inv : forall fuel s o, Inv s -> tloop_ fuel s = TDone o -> Post o.
  Proof.
    induction fuel as [|fuel IH]; intros s o HI; cbn [tloop]; [discriminate|].
    pose proof (tpass_inv s HI) as Hp. destruct (tpass_ s) as [o'|s'|].
    - intros E. inversion E. subst. exact Hp.
    - apply IH. apply Hp.
    - discriminate.
  Qed.

  Notation initL := (init_L psi_grad_full grad_psi P x_in).
  Definition first_iterate (i0 : it) : it := ecost (eprox (set_gamma_L i0 (p_Lgamma P / iL i0) (iL i0))).
  Definition first_state (i3 : it) (c1 : counters) (s1 : stats (T:=R)) : tstate (T:=R) :=
    mkTs i3 it_blank it_blank [] 0 [] (initial_delta TP (igrad i3)) None false c1 s1 [].
  Lemma init_inv i0 c0 i3 c1 s1 : initL = (i0, c0) ->
    bt (first_iterate i0) (inc_py c0) stats0 = Some (i3, c1, s1) -> Inv (first_state i3 c1 s1).
  Proof.
    intros E0 Eq.
    assert (Hx0 : tcons_x i0).
    { pose proof (f_equal fst E0) as Hf. cbn [fst] in Hf. rewrite <- Hf. unfold init_L, tcons_x. cbv zeta.
      destruct (nleb (p_L0 P) n0); cbn [fst ix ipsi igrad]; destruct (pgrad x_in); reflexivity. }
    assert (HL : Linit = iL i0) by (unfold L_init; now rewrite E0).
    set (i1 := set_gamma_L i0 (p_Lgamma P / iL i0) (iL i0)).
    destruct (zeprox_cons psi_grad_full psi_yhat grad_L grad_psi lb ub l1 (fun _ _ _ => None) has_initial stop_req time_up P x_in y_in Σ errz_in bt_fuel i1) as [_ B0]; [apply tcons_zcons; exact Hx0|].
    destruct (ecost_t (eprox i1) Hx0 B0) as (C1 & C2 & C3).
    destruct (bt_facts _ _ _ _ _ _ _ C1 Eq) as (D1 & D2 & D3 & D4).
    constructor; cbn [first_state ts_curr ts_k ts_delta ts_acc ts_rho ts_log].
    - exact D1.
    - exact D2.
    - destruct D3 as [j Ej]. exists j. rewrite Ej. unfold first_iterate. fold i1. rewrite C2. unfold gl_of, gl0. rewrite HL. reflexivity.
    - lia.
    - unfold initial_delta. apply nfmax_ge_r.
    - discriminate.
    - constructor.
  Qed.

  Theorem pantr_post fuel o : pantr_ fuel = TDone o -> Post o.
  Proof.
    unfold pantr, backtrack, Pantr.P, Pantr.ecost, Pantr.eprox. destruct initL as [i0 c0] eqn:E0.
    destruct (negb (nfinite (iL i0))); [discriminate|].
    change (@ndiv R NumR) with Rdiv. fold (first_iterate i0).
    destruct (bt (first_iterate i0) (inc_py c0) stats0) as [[[i3 c1] s1]|] eqn:Eq; [|discriminate].
    apply tloop_inv. exact (init_inv _ _ _ _ _ E0 Eq).
  Qed.

  Inductive reachable : tstate (T:=R) -> Prop :=
  | reach_init i0 c0 i3 c1 s1 : initL = (i0, c0) -> bt (first_iterate i0) (inc_py c0) stats0 = Some (i3, c1, s1) ->
      reachable (first_state i3 c1 s1)
  | reach_step s s' : reachable s -> tpass_ s = TCont s' -> reachable s'.
  Theorem reachable_inv s : reachable s -> Inv s.
  Proof.
    induction 1 as [i0 c0 i3 c1 s1 E0 Eq|s s' _ IH Ep]; [exact (init_inv _ _ _ _ _ E0 Eq)|].
    pose proof (tpass_inv s IH) as Hp. rewrite Ep in Hp. apply Hp.
  Qed.
  Theorem reachable_check s : reachable s ->
    tconsistent (ts_curr s) /\ Qok (ts_curr s) /\ Glrel0 (ts_curr s) /\ (ts_k s <= p_max_iter P)%nat /\ tp_min_radius TP <= ts_delta s.
  Proof. intros Hr. destruct (reachable_inv s Hr). tauto. Qed.
  Theorem reachable_step s s' : reachable s -> tpass_ s = TCont s' -> step_facts s s'.
  Proof. intros Hr Ep. pose proof (tpass_inv s (reachable_inv s Hr)) as Hp. rewrite Ep in Hp. apply Hp. Qed.

  (* accepted step: the ratio test held, hence the envelope did not increase from the FBS iterate to the candidate *)
  Lemma accept_nonincrease (φp φc qm : R) : qm < 0 -> 0 <= tp_thr_acc TP -> p_Lgamma P < 1 ->
    tp_thr_acc TP <= tr_ratio (tp_ratio_approx TP) φp φc qm (tp_tr_tol TP) (p_Lgamma P) ->
    φc <= φp + (1 + Rabs φp) * tp_tr_tol TP.
  Proof.
    intros Hq Ht HL Hr. apply (tr_accept_nonincrease φp φc qm (tp_tr_tol TP) (p_Lgamma P) 0 Hq (Rle_refl 0)).
    unfold tr_ratio in *. destruct (tp_ratio_approx TP); [|lra]. numR.
    set (ρ := (φp - φc + (1 + Rabs φp) * tp_tr_tol TP) / - qm) in *.
    assert (H1 : 0 < 1 - p_Lgamma P) by lra.
    assert (H2 : 0 <= ρ / (1 - p_Lgamma P)) by lra.
    apply (Rmult_le_compat_r (1 - p_Lgamma P)) in H2; [|lra].
    replace (ρ / (1 - p_Lgamma P) * (1 - p_Lgamma P)) with ρ in H2 by (field; lra). lra.
  Qed.

  Theorem pantr_status_clauses fuel o : pantr_ fuel = TDone o ->
    (to_iterations o <= p_max_iter P)%nat /\
    to_status o <> StBusy /\ to_status o <> StNoProgress /\
    (to_status o = StMaxIter -> to_iterations o = p_max_iter P) /\
    (to_status o = StConverged <-> to_eps o <= eff_tol (o_tol P)) /\
    (to_status o = StInterrupted -> exists c, stop_req c = true) /\
    (to_status o = StMaxTime -> exists c, time_up c = true).
  Proof.
    intros Hr. destruct (pantr_post fuel o Hr) as (cf & cnt & W). destruct W.
    split; [assumption|]. split; [assumption|]. split; [|split; [|split; [|split]]].
    - intros E. rewrite E in po_status0. symmetry in po_status0. apply noprogress_only_above_limit in po_status0. lia.
    - intros E. rewrite E in po_status0. symmetry in po_status0. now apply maxiter_only_at_limit in po_status0.
    - rewrite po_status0. rewrite converged_iff. apply Rle_bool_iff.
    - intros E. rewrite E in po_status0. symmetry in po_status0. apply interrupted_only_if_requested in po_status0. eauto.
    - intros E. rewrite E in po_status0. symmetry in po_status0. apply maxtime_only_if_exceeded in po_status0. eauto.
  Qed.

  Theorem pantr_exit fuel o : pantr_ fuel = TDone o ->
    exists cf : it, tconsistent cf /\ Qok cf /\ Glrel0 cf /\
      (exists gh, (crit_needs_gradh (p_crit P) = true -> gh = grad_L (ixh cf) (iyh cf)) /\
                  to_eps o = crit_eps (p_crit P) lb ub l1 (ip cf) (igam cf) (ix cf) (ixh cf) (iyh cf) (igrad cf) gh) /\
      (overwrites (to_status o) (o_always P) = true ->
         to_x o = ixh cf /\ ixh cf = vadd (ix cf) (ip cf) /\
         to_y o = iyh cf /\ iyh cf = snd (psi_yhat (to_x o)) /\
         to_errz o = match errz_in with [] => [] | _ => vdiv (vsub (to_y o) y_in) Σ end) /\
      (overwrites (to_status o) (o_always P) = false -> to_x o = x_in /\ to_y o = y_in /\ to_errz o = errz_in).
  Proof.
    intros Hr. destruct (pantr_post fuel o Hr) as (cf & cnt & W). destruct W.
    exists cf. repeat (split; [assumption|]). unfold exit_block in po_exit0.
    split; intros Ho; rewrite Ho in po_exit0;
      pose proof (f_equal (fun t => fst (fst t)) po_exit0) as X1; pose proof (f_equal (fun t => snd (fst t)) po_exit0) as X2;
      pose proof (f_equal snd po_exit0) as X3; cbn [fst snd] in X1, X2, X3; rewrite X1, X2, X3.
    - destruct po_cons0 as [_ Hz]. destruct (zconsistent_explicit psi_grad_full psi_yhat grad_L grad_psi lb ub l1 (fun _ _ _ => None) has_initial stop_req time_up P x_in y_in Σ errz_in bt_fuel cf Hz) as (E1 & _ & _ & _ & E5 & _).
      split; [reflexivity|]. split; [exact E1|]. split; [reflexivity|]. split; [rewrite <- E5; reflexivity|reflexivity].
    - repeat split.
  Qed.

  Theorem pantr_inner_contract fuel o : pantr_ fuel = TDone o ->
    to_status o = StConverged -> p_crit P = ApproxKKT -> l1 = [] ->
    exists (x : list R) (γ : R),
      let grad := snd (pgrad x) in
      let step := proj_grad_step lb ub γ x grad in
      let gradh := grad_L (to_x o) (to_y o) in
      to_x o = fst (fst step) /\
      to_y o = snd (psi_yhat (to_x o)) /\
      to_errz o = match errz_in with [] => [] | _ => vdiv (vsub (to_y o) y_in) Σ end /\
      to_eps o = vnorminf (kkt_residual γ (snd (fst step)) grad gradh) /\
      to_eps o <= eff_tol (o_tol P) /\
      (0 < p_Lgamma P -> 0 < Linit -> 0 < γ) /\
      (Linit <> 0 -> exists L, γ * L = p_Lgamma P).
  Proof.
    intros Hr Hst Hcrit Hl1. destruct (pantr_exit fuel o Hr) as (cf & Hc & Hq & Hg & (gh & Hgh & He) & Hov & _).
    assert (Hov' : overwrites (to_status o) (o_always P) = true) by (rewrite Hst; reflexivity).
    destruct (Hov Hov') as (O1 & O2 & O3 & O4 & O5).
    destruct Hc as [Hx Hz]. destruct (zconsistent_explicit psi_grad_full psi_yhat grad_L grad_psi lb ub l1 (fun _ _ _ => None) has_initial stop_req time_up P x_in y_in Σ errz_in bt_fuel cf Hz) as (E1 & E2 & E3 & E4 & E5 & E7).
    exists (ix cf), (igam cf). cbv zeta. unfold tcons_x in Hx.
    assert (Eg : snd (pgrad (ix cf)) = igrad cf) by (rewrite <- Hx; reflexivity). rewrite Eg.
    rewrite Hl1 in E2. cbn [eval_prox_grad_step] in E2. rewrite E2. cbn [fst snd].
    split; [exact O1|]. split; [now rewrite O3|]. split; [exact O5|]. split.
    { rewrite He, Hcrit. cbn [crit_eps]. rewrite (Hgh ltac:(rewrite Hcrit; reflexivity)), O1, O3. reflexivity. }
    split; [destruct (pantr_status_clauses fuel o Hr) as (_ & _ & _ & _ & Hcv & _); apply Hcv; exact Hst|].
    split; [intros; now apply (glrel0_pos psi_grad_full psi_yhat grad_L grad_psi lb ub l1 (fun _ _ => None) has_initial stop_req time_up P x_in y_in Σ errz_in bt_fuel)|].
    intros HL. exists (iL cf). now apply (glrel0_product_factor psi_grad_full psi_yhat grad_L grad_psi lb ub l1 (fun _ _ => None) has_initial stop_req time_up P x_in y_in Σ errz_in bt_fuel).
  Qed.

  Lemma tconsistent_explicit (i : it) : tconsistent i ->
    (ipsi i, igrad i) = pgrad (ix i) /\
    ixh i = vadd (ix i) (ip i) /\
    eval_prox_grad_step lb ub l1 (igam i) (ix i) (igrad i) = (ixh i, ip i, ih i) /\
    ipp i = vsqnorm (ip i) /\ igp i = vdot (ip i) (igrad i) /\
    (ipsih i, iyh i) = psi_yhat (ixh i).
  Proof.
    intros [Hx Hz]. destruct (zconsistent_explicit psi_grad_full psi_yhat grad_L grad_psi lb ub l1 (fun _ _ _ => None) has_initial stop_req time_up P x_in y_in Σ errz_in bt_fuel i Hz) as (E1 & E2 & E3 & E4 & E5 & _). repeat split; assumption.
  Qed.

  Theorem pantr_records fuel o : pantr_ fuel = TDone o -> Forall trec_ok (to_log o).
  Proof. intros Hr. destruct (pantr_post fuel o Hr) as (cf & cnt & W). apply W. Qed.
End Proofs.
