(* AlmPantrProofs.v — END-TO-END for ALM∘PANTR: the composed executable model AlmPantr.alm_pantr (ALM outer loop of Alm.v running the
   whole-loop PANTR model of Pantr.v on a problem given by its four basic functions through the type-erased interface of AugLag.v)
   returns `Converged` only with an approximate KKT point of the USER'S problem.  Over R; for every problem, every provider mix
   satisfying provider_ok, every trust-region direction oracle returning n-vectors, every stop / clock oracle, every parameter set.
   Instance of the generic lemma AlmComposeKkt.compose_converged_is_kkt; the inner contract comes from PantrLen.v. *)
From Coq Require Import Reals List ZArith Lra Lia Bool Arith Psatz.
From Flocq Require Import Raux.
From Alpaqa Require Import Num NumR Vec Prox ProxProofs ProxVec SolverStatus SolverKernels SolverKernelsProofs DescentProofs
                           StopChain StopChainProofs KktProofs AugLag AugLagProofs Panoc PanocProofs ZeroFpr ZeroFprProofs
                           Pantr PantrProofs PantrLen LiveVec
                           Alm AlmProofs AlmCompose AlmComposeProofs AlmComposeKkt AlmPanoc AlmPanocProofs AlmPantr.
Import ListNotations.
Local Open Scope R_scope.

Section E2E.
  Variable Pb : problem (T:=R).
  Variable prov : fn -> bool.
  Variable wm_supplied : list R -> list R.
  Variables (Clb Cub : list (option R)) (l1 : list R).
  Variable split : nat.
  Variable tr_dir : nat -> iterate (T:=R) -> R -> list R * R.
  Variable has_initial : bool.
  Variable stop_req : counters -> bool.
  Variable time_up : counters -> bool.
  Variable outer_oot : nat -> bool.
  Variable TP : trparams (T:=R).
  Variable AP : alm_params (T:=R).
  Variables (bt_fuel inner_fuel : nat).
  Variables (n m : nat).

  Hypothesis Hprov : provider_ok Pb prov.
  Hypothesis Hempty : grad_g_prod_empty_ok Pb.
  Hypothesis Hl1 : l1 = [].
  Hypothesis Hcrit : p_crit (tp_base TP) = ApproxKKT.
  Hypothesis HLg : 0 < p_Lgamma (tp_base TP).
  Hypothesis HL : 0 < p_L0 (tp_base TP) \/ 0 < p_Lmin (tp_base TP) <= p_Lmax (tp_base TP).
  Hypothesis HClb : length Clb = n.
  Hypothesis HCub : length Cub = n.
  Hypothesis HCne : Forall2 box_ne Clb Cub.
  Hypothesis Hgf : forall x, length x = n -> length (pgrad_f Pb x) = n.
  Hypothesis Hgg : forall x y, length x = n -> length (pgrad_g_prod Pb x y) = n.
  Hypothesis Hg : forall x, length x = n -> length (pg Pb x) = m.
  Hypothesis HDlb : length (plb Pb) = m.
  Hypothesis HDub : length (pub Pb) = m.
  Hypothesis HDne : Forall2 box_ne (plb Pb) (pub Pb).
  (* direction.apply leaves an n-vector in q whenever the FBS iterate it is given sits at an n-vector *)
  Hypothesis Hdir : forall j px Δ, length (ix px) = n -> length (fst (tr_dir j px Δ)) = n.

  Notation tinner_ := (tinner Pb prov wm_supplied Clb Cub l1 tr_dir has_initial stop_req time_up outer_oot TP bt_fuel inner_fuel).
  Notation opgf := (o_psi_grad_full Pb prov wm_supplied).
  Notation opy := (o_psi_yhat Pb prov).
  Notation ogL := (o_grad_L Pb prov).
  Notation ogp := (o_grad_psi Pb prov).

  (* ---- one inner solve *)
  Lemma tinner_spec w i x y Σ tol errz r x' lg w' : length x = n ->
    tinner_ w i x y Σ tol errz = Some (r, x', lg, w') ->
    length x' = n /\
    (ir_status r = Converged ->
       let yh := yhat_def Pb x' y Σ in
       ir_y r = Some yh /\
       ir_err r = Some (match errz with [] => [] | _ => vdiv (vsub yh y) Σ end) /\
       exists (xx grad : list R) (γ : R),
         let step := proj_grad_step Clb Cub γ xx grad in
         0 < γ /\ length xx = n /\ length grad = n /\ x' = fst (fst step) /\
         ir_eps r = vnorminf (kkt_residual γ (snd (fst step)) grad (grad_L_def Pb x' yh)) /\
         ir_eps r <= eff_tol tol).
  Proof.
    intros Hx. unfold tinner.
    match goal with |- context [match ?pr with TDone _ => _ | TNotFiniteL _ => _ | TOutOfFuel => _ end] => destruct pr as [o|L|] eqn:Er end.
    3: discriminate.
    2: { intros E. injection E as E1 E2 E3 E4. subst r x'. split; [exact Hx|]. cbn [ir_status]. discriminate. }
    intros E. injection E as E1 E2 E3 E4. subst r x'. cbn [ir_status ir_y ir_err ir_eps].
    assert (Hpg : forall z, length z = n -> length (snd (psi_grad (opgf y Σ) z)) = n).
    { intros z Hz. rewrite (opgf_grad Pb prov wm_supplied Hprov Hempty). unfold grad_psi_def. now apply (grad_L_def_length Pb n Hgf Hgg). }
    assert (Hdir' : forall j px Δ, length (ix px) = n -> length (fst ((fun j px Δ => tr_dir (c_apply w + j)%nat px Δ) j px Δ)) = n).
    { intros j px Δ Hpx. apply Hdir, Hpx. }
    split.
    { exact (pantr_out_x_length (opgf y Σ) (opy y Σ) ogL (ogp y Σ) Clb Cub l1 _ has_initial _ _ (tr_with_opts TP tol) x y Σ errz bt_fuel n
               Hl1 HClb HCub Hx Hpg Hdir' inner_fuel o Er). }
    intros Hst. apply alm_status_of_converged in Hst.
    destruct (pantr_inner_contract_len (opgf y Σ) (opy y Σ) ogL (ogp y Σ) Clb Cub l1 _ has_initial _ _ (tr_with_opts TP tol) x y Σ errz bt_fuel n
                Hl1 HClb HCub Hx Hpg Hdir' inner_fuel o Er Hst Hcrit)
      as (xx & γ & Lxx & Lgr & Lxo & Ex & Ey & Ee & Eeps & Etol & Hγ & _).
    cbv zeta in *. rewrite (opy_val Pb prov Hprov) in Ey. cbn [snd] in Ey.
    split; [now rewrite Ey|]. split; [now rewrite Ee, Ey|].
    exists xx, (snd (psi_grad (opgf y Σ) xx)), γ. split.
    { apply Hγ; [exact HLg|]. apply L_init_pos. exact HL. }
    split; [exact Lxx|]. split; [exact Lgr|]. split; [exact Ex|]. split; [|exact Etol].
    rewrite Eeps, (ogL_val Pb prov Hprov Hempty), Ey. reflexivity.
  Qed.

  (* every inner call satisfies the contract of the generic lemma *)
  Lemma tinner_contract : inner_contract_kkt counters (tresult (T:=R)) tinner_ Pb Clb Cub n.
  Proof. intros w i x y Σ tol errz r x' lg w' Hx Hi. exact (tinner_spec w i x y Σ tol errz r x' lg w' Hx Hi). Qed.

  (* ================================================================ THE theorem *)
  Theorem alm_pantr_converged_is_kkt outer_fuel nanv Σ0 y0 x0 co :
    length x0 = n -> length y0 = m ->
    Alm.p_max_iter AP <> 0%nat ->
    (m <> 0%nat -> sigma_inv AP m (initial_sigma AP m (pf Pb x0) (pg Pb x0) Σ0)) ->
    (m = 0%nat -> 0 < p_tol AP) ->
    alm_pantr Pb prov wm_supplied Clb Cub l1 split tr_dir has_initial stop_req time_up outer_oot TP AP bt_fuel inner_fuel
              outer_fuel nanv Σ0 y0 x0 = Some co ->
    f_status (co_final co) = Converged ->
    let x := co_x co in let y := f_y (co_final co) in
    length x = n /\ length y = m /\
    (forall i, (i < n)%nat -> in_box (nth i Clb None) (nth i Cub None) (nth i x 0)) /\
    (forall i, (i < n)%nat -> exists r,
        (forall u, in_box (nth i Clb None) (nth i Cub None) u -> r * (u - nth i x 0) <= 0) /\
        Rabs (- nth i (vadd (pgrad_f Pb x) (pgrad_g_prod Pb x y)) 0 - r) <= p_tol AP) /\
    (forall i, (i < m)%nat -> exists z,
        in_box (nth i (plb Pb) None) (nth i (pub Pb) None) z /\ Rabs (nth i (pg Pb x) 0 - z) <= p_dual_tol AP) /\
    (forall i, (i < m)%nat ->
        (0 < nth i y 0 -> exists u, nth i (pub Pb) None = Some u /\ Rabs (nth i (pg Pb x) 0 - u) <= p_dual_tol AP) /\
        (nth i y 0 < 0 -> exists l, nth i (plb Pb) None = Some l /\ Rabs (nth i (pg Pb x) 0 - l) <= p_dual_tol AP)).
  Proof.
    intros Hx0 Hy0 Hmi HΣ Htol Hrun Hst. unfold alm_pantr in Hrun.
    exact (compose_converged_is_kkt counters (tresult (T:=R)) tinner_ Pb Clb Cub split AP n m HClb HCub HCne Hgf Hgg Hg HDlb HDub HDne
             tinner_contract outer_fuel nanv Σ0 y0 x0 cnt0 co Hx0 Hy0 Hmi HΣ Htol Hrun Hst).
  Qed.
End E2E.

(* ================================================================ non-vacuity *)
(* a PANTR run whose first iterate already meets the tolerance (L_0 > 0 given, L_0 >= L_max so that no QUB backtracking applies,
   ApproxKKT): Converged at k = 0 with the first prox point *)
Section At0.
  Variable psi_grad_full : list R -> R * list R * list R.
  Variable psi_yhat : list R -> R * list R.
  Variable grad_L : list R -> list R -> list R.
  Variable grad_psi : list R -> list R.
  Variables (lb ub : list (option R)) (l1 : list R).
  Variable tr_apply : nat -> iterate (T:=R) -> R -> list R * R.
  Variable has_initial : bool.
  Variable stop_req : counters -> bool.
  Variable time_up : counters -> bool.
  Variable TP : trparams (T:=R).
  Variables (x_in y_in Σ errz_in : list R).
  Variable bt_fuel : nat.
  Variables (ψ0 ψh h ε : R) (g0 wm0 xh p yh gh : list R).
  Notation P := (tp_base TP).
  Hypothesis HL0 : 0 < p_L0 P.
  Hypothesis HLmax : p_Lmax P <= p_L0 P.
  Hypothesis Hcrit : p_crit P = ApproxKKT.
  Hypothesis H1 : psi_grad_full x_in = (ψ0, g0, wm0).
  Hypothesis H2 : eval_prox_grad_step lb ub l1 (p_Lgamma P / p_L0 P) x_in g0 = (xh, p, h).
  Hypothesis H3 : psi_yhat xh = (ψh, yh).
  Hypothesis H4 : grad_L xh yh = gh.
  Hypothesis H5 : vnorminf (kkt_residual (p_Lgamma P / p_L0 P) p g0 gh) = ε.
  Hypothesis H6 : ε <= eff_tol (o_tol P).

  Lemma pantr_converged_at_0 fuel :
    exists o, pantr psi_grad_full psi_yhat grad_L grad_psi lb ub l1 tr_apply has_initial stop_req time_up TP x_in y_in Σ errz_in bt_fuel (S fuel) = TDone o /\
      to_status o = StConverged /\ to_iterations o = 0%nat /\ to_eps o = ε /\ to_x o = xh /\ to_y o = yh /\
      to_errz o = match errz_in with [] => [] | _ => vdiv (vsub yh y_in) Σ end.
  Proof.
    unfold pantr, backtrack, Pantr.ecost, Pantr.eprox, Pantr.P, init_L, psi_grad. cbv zeta. rewrite H1. cbn [fst snd].
    change (@nleb R NumR) with Rle_bool. change (@n0 R NumR) with 0.
    destruct (Rle_bool_spec (p_L0 P) 0) as [Hc|_]; [lra|].
    cbn [iL nfinite NumR negb]. change (@ndiv R NumR) with Rdiv.
    unfold eval_prox, set_gamma_L. cbn [ix ixh igrad ip iyh ipsi ipsih igam iL ipp igp ih ihave igradh]. rewrite H2. cbn [fst snd].
    unfold eval_cost. cbn [ix ixh igrad ip iyh ipsi ipsih igam iL ipp igp ih ihave igradh]. rewrite H3. cbn [fst snd].
    assert (Hq : forall i c s, iL i = p_L0 P -> ZeroFpr.init_qub psi_yhat lb ub l1 P bt_fuel i c s = Some (i, c, s)).
    { intros i c s Hi. destruct bt_fuel; cbn [ZeroFpr.init_qub]; rewrite Hi; change (@nltb R NumR) with Rlt_bool;
        (destruct (Rlt_bool_spec (p_L0 P) (p_Lmax P)) as [Hc|_]; [lra|reflexivity]). }
    rewrite Hq by reflexivity.
    cbn [tloop]. unfold tpass, Pantr.P. cbv zeta. cbn [ts_curr ts_k ts_gbuf ts_cnt ts_log ts_acc ts_stats]. rewrite Hcrit. cbn [crit_needs_gradh].
    cbn [crit_eps ix ixh igrad ip iyh ipsi ipsih igam iL ipp igp ih ihave igradh]. rewrite H4, H5.
    rewrite tolerance_wins by (apply Rle_bool_iff; exact H6).
    unfold exit_block. cbn [overwrites].
    eexists. split; [reflexivity|]. cbn [to_status to_iterations to_eps to_x to_y to_errz]. repeat split.
  Qed.
End At0.

(* ---- the concrete instance of AlmPanocProofs (n = 1, m = 1: minimise x s.t. x in [0,1], g(x) = x <= 0, x0 = 0, y0 = 0) with PANTR:
   the first prox point of the first inner solve is x̂ = 0 with residual 0: PANTR converges at k = 0 (no TR step is ever computed),
   the slack error is 0, ALM returns Converged after one outer iteration *)
Definition nvTP : trparams (T:=R) := mkTr nvPP 0 (1/5) (4/5) (1/4) 1 2 None (1/100) false true false false.
Definition nv_trdir : nat -> iterate (T:=R) -> R -> list R * R := fun _ _ _ => ([0], 0).
Definition nv_trun :=
  alm_pantr nvPb nvprov (fun _ => []) [Some 0] [Some 1] [] 0 nv_trdir false nv_never nv_never (fun _ => false) nvTP nvAP 5 5 3 0 None [0] [0].

Lemma nv_tinner : exists lg w',
  tinner nvPb nvprov (fun _ => []) [Some 0] [Some 1] [] nv_trdir false nv_never nv_never (fun _ => false) nvTP 5 5 cnt0 0 [0] [0] [1] 1 [0]
  = Some ({| ir_status := Converged; ir_eps := 0; ir_err := Some [0]; ir_y := Some [0]; ir_iters := 0; ir_oot := false; ir_stop := false |}, [0], lg, w').
Proof.
  unfold tinner.
  set (pgf := o_psi_grad_full nvPb nvprov (fun _ => []) [0] [1]).
  destruct (pgf [0]) as [[ψ0 g0] wm0] eqn:H1.
  assert (Hg0 : g0 = [1 + 0]).
  { pose proof (opgf_grad nvPb nvprov (fun _ => []) nv_provider_ok nv_empty_ok [0] [1] [0]) as Hg. fold pgf in Hg.
    unfold psi_grad in Hg. rewrite H1 in Hg. cbn [fst snd] in Hg. rewrite Hg. unfold grad_psi_def. rewrite nv_yhat. reflexivity. }
  subst g0.
  assert (H2 : eval_prox_grad_step [Some 0] [Some 1] [] (p_Lgamma (tp_base (tr_with_opts nvTP 1)) / p_L0 (tp_base (tr_with_opts nvTP 1))) [0] [1 + 0] = ([0], [0], 0)).
  { rcomp. f_equal. f_equal; f_equal; lra. }
  assert (H3 : o_psi_yhat nvPb nvprov [0] [1] [0] = (psi_def nvPb [0] [0] [1], [0])).
  { rewrite (opy_val nvPb nvprov nv_provider_ok). now rewrite nv_yhat. }
  assert (H4 : o_grad_L nvPb nvprov [0] [0] = [1 + 0]).
  { rewrite (ogL_val nvPb nvprov nv_provider_ok nv_empty_ok). reflexivity. }
  assert (H5 : vnorminf (kkt_residual (p_Lgamma (tp_base (tr_with_opts nvTP 1)) / p_L0 (tp_base (tr_with_opts nvTP 1))) [0] [1 + 0] [1 + 0]) = 0).
  { cbv -[Rplus Rminus Rmult Rdiv Rinv Ropp Rle_bool Rlt_bool Req_bool Rabs IZR sqrt].
    replace (1 / (1 / 2 / 1) * 0 + (1 + 0 - (1 + 0))) with 0 by lra. apply Rabs_R0. }
  assert (H6 : 0 <= eff_tol (o_tol (tp_base (tr_with_opts nvTP 1)))).
  { unfold eff_tol. cbn [o_tol with_opts tr_with_opts tp_base]. change (@nltb R NumR) with Rlt_bool. change (@n0 R NumR) with 0.
    rewrite (Rlt_bool_true 0 1) by lra. lra. }
  destruct (pantr_converged_at_0 pgf (o_psi_yhat nvPb nvprov [0] [1]) (o_grad_L nvPb nvprov) (o_grad_psi nvPb nvprov [0] [1])
              [Some 0] [Some 1] [] (fun j px Δ => nv_trdir (c_apply cnt0 + j)%nat px Δ) false (fun c => nv_never (cadd cnt0 c)) (fun c => nv_never (cadd cnt0 c))
              (tr_with_opts nvTP 1) [0] [0] [1] [0] 5 ψ0 (psi_def nvPb [0] [0] [1]) 0 0 [1 + 0] wm0 [0] [0] [0] [1 + 0]
              ltac:(cbn; lra) ltac:(cbn; lra) eq_refl H1 H2 H3 H4 H5 H6 4)
    as (o & Hrun & O1 & O2 & O3 & O4 & O5 & O6).
  rewrite Hrun. rewrite O1, O2, O3, O4, O5, O6. cbn [alm_status_of].
  replace (vdiv (vsub [0] [0]) [1]) with [0] by (cbn; f_equal; lra).
  eexists. eexists. reflexivity.
Qed.

Lemma nv_tconverged : exists co, nv_trun = Some co /\ f_status (co_final co) = Converged /\ co_x co = [0] /\ f_y (co_final co) = [0].
Proof.
  destruct nv_tinner as (lg & w' & Hin).
  unfold nv_trun, alm_pantr, c_run, c_script_of.
  change (Nat.eqb (Alm.p_max_iter nvAP) 0) with false. change (Nat.eqb (pb_m (pb_of nvPb 0)) 0) with false. cbv iota.
  set (s0 := init_state nvAP (pb_of nvPb 0) (pf nvPb [0]) (pg nvPb [0]) 0 None [0]).
  assert (Es : s0 = {| s_Sigma := [1]; s_err := [0]; s_err_old := [0]; s_norm_old := 0; s_eps := 1; s_y := [0]; s_fails := 0; s_iters := 0 |})
    by (unfold s0; rcomp; reflexivity).
  assert (Ey : c_y_in nvAP (pb_of nvPb 0) s0 = [0]) by (rewrite Es; rcomp; reflexivity).
  set (r0 := {| ir_status := Converged; ir_eps := 0; ir_err := Some [0]; ir_y := Some [0]; ir_iters := 0; ir_oot := false; ir_stop := false |}) in *.
  assert (Ex : f_exhausted (snd (alm_loop nvAP (pb_of nvPb 0) 0 s0 [r0])) = false).
  { rewrite Es. cbv -[Rplus Rminus Rmult Rdiv Rinv Ropp Rle_bool Rlt_bool Req_bool Rabs IZR sqrt]. rewrite Rabs_R0. rbb. reflexivity. }
  rewrite c_loop_S. rewrite Ey.
  replace (s_Sigma s0) with [1] by (rewrite Es; reflexivity). replace (s_eps s0) with 1 by (rewrite Es; reflexivity).
  replace (s_err s0) with [0] by (rewrite Es; reflexivity). rewrite Hin. rewrite Ex.
  eexists. split; [reflexivity|]. cbn [co_final co_x c_script c_x].
  unfold alm_run. change (Nat.eqb (Alm.p_max_iter nvAP) 0) with false. change (Nat.eqb (pb_m (pb_of nvPb 0)) 0) with false. cbv iota.
  fold s0. rewrite Es.
  cbv -[Rplus Rminus Rmult Rdiv Rinv Ropp Rle_bool Rlt_bool Req_bool Rabs IZR sqrt]. rewrite !Rabs_R0. rbb. repeat split.
Qed.

(* the instance satisfies every hypothesis of the end-to-end theorem (n = 1, m = 1), hence its conclusion *)
Lemma nv_thypotheses :
  provider_ok nvPb nvprov /\ grad_g_prod_empty_ok nvPb /\ p_crit (tp_base nvTP) = ApproxKKT /\ 0 < p_Lgamma (tp_base nvTP) /\
  (0 < p_L0 (tp_base nvTP) \/ 0 < p_Lmin (tp_base nvTP) <= p_Lmax (tp_base nvTP)) /\
  Forall2 box_ne [Some 0] [Some 1] /\ Forall2 box_ne (plb nvPb) (pub nvPb) /\
  (forall x, length x = 1%nat -> length (pgrad_f nvPb x) = 1%nat) /\ (forall x y, length x = 1%nat -> length (pgrad_g_prod nvPb x y) = 1%nat) /\
  (forall x, length x = 1%nat -> length (pg nvPb x) = 1%nat) /\
  (forall j px Δ, length (ix px) = 1%nat -> length (fst (nv_trdir j px Δ)) = 1%nat) /\
  Alm.p_max_iter nvAP <> 0%nat /\ sigma_inv nvAP 1 (initial_sigma nvAP 1 (pf nvPb [0]) (pg nvPb [0]) None).
Proof.
  destruct nv_hypotheses as (A1 & A2 & A3 & A4 & A5 & A6 & A7 & A8 & A9 & A10 & _ & A12 & A13).
  repeat (split; [assumption|]). split; [reflexivity|]. split; assumption.
Qed.
