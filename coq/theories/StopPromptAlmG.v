(* StopPromptAlmG.v — C19 under ALM, generic in the inner solver, and its instances for ZeroFPR, PANTR and FISTA
   (AlmZeroFpr.v, AlmPantr.v, AlmFista.v; the PANOC instance is StopPromptAlm.v).  Over R.
   Generic part (any world type W, log type Lg, inner solver function): given a predicate `seen w` ("the request is visible in world
   w"), a predicate `one lg r` on (log, outcome) such that an inner solve STARTED in a world where the request is seen satisfies
   `one` and hands on a world where it is seen, and the fact that the outer loop's reading of ALM's own stop flag after an inner solve
   (Alm.ir_stop) is true when the request is seen in the world that solve hands on:  the outer iteration at whose end the request is
   seen is the LAST one of the run (AlmComposeProofs.run_ends_at: no further inner solve; status Interrupted (inner) / Converged >
   MaxTime > MaxIter > Interrupted); Interrupted is the last record of an ALM trace.
   Instances: `one` = start-up + ONE stop check, no iteration, no direction call; the request is seen at the end of an inner solve
   one of whose polls saw it (that solve is prompt as stand-alone) or which started with it visible. *)
From Coq Require Import Reals List ZArith Lra Lia Bool Arith.
From Alpaqa Require Import Num NumR Vec Prox SolverStatus SolverKernels StopChain StopChainProofs AugLag Panoc ZeroFpr Pantr FistaLoop
                           Alm AlmProofs AlmCompose AlmComposeProofs AlmPanoc AlmZeroFpr AlmPantr AlmFista
                           StopPrompt StopPromptZfpr StopPromptPantr StopPromptFista StopPromptAlm.
Import ListNotations.

Section Generic.
  Variables (W Lg : Type).
  Variable inner : W -> nat -> list R -> list R -> list R -> R -> list R -> option (inner_res (T:=R) * list R * Lg * W).
  Variable P : alm_params (T:=R).
  Variable pb : alm_problem (T:=R).
  Variable seen : W -> Prop.
  Variable one : Lg -> inner_res (T:=R) -> Prop.
  Hypothesis Hone : forall w i x y Σ tol e r x' lg w', seen w -> inner w i x y Σ tol e = Some (r, x', lg, w') -> one lg r /\ seen w'.
  (* ALMSolver::stop() sets ALM's own flag together with the inner solver's: what the outer loop reads after an inner solve *)
  Hypothesis Hflag : forall w i x y Σ tol e r x' lg w', inner w i x y Σ tol e = Some (r, x', lg, w') -> seen w' -> ir_stop r = true.

  Notation irecR := (iter_rec (T:=R)).
  Notation called_ := (called W Lg inner).

  Lemma gcalled_split : forall pre x0 w0 rc post xf wf, called_ x0 w0 (pre ++ rc :: post) xf wf ->
    exists x w x' lg w', called_ x0 w0 pre x w /\
      inner w (it_i rc) x (it_y rc) (it_Sigma rc) (it_tol rc) (it_err_in rc) = Some (it_res rc, x', lg, w') /\
      called_ x' w' post xf wf.
  Proof.
    induction pre as [|a pre IH]; intros x0 w0 rc post xf wf Hc; cbn [app] in Hc.
    - inversion Hc as [|? ? ? x' lg w' ? ? ? Ein Hrest]; subst. exists x0, w0, x', lg, w'. split; [constructor|split; assumption].
    - inversion Hc as [|? ? ? x' lg w' ? ? ? Ein Hrest]; subst.
      destruct (IH _ _ _ _ _ _ Hrest) as (x & w & x'' & lg' & w'' & A & B & C).
      exists x, w, x'', lg', w''. split; [econstructor; eassumption|split; assumption].
  Qed.

  Lemma gtrace_interrupted_last fuel f0 g0 nanv Σ0 y0 x0 w0 co : c_run W Lg inner P pb fuel f0 g0 nanv Σ0 y0 x0 w0 = Some co ->
    forall pre rc post, co_trace co = pre ++ rc :: post -> ir_status (it_res rc) = Interrupted ->
      post = [] /\ f_status (co_final co) = Interrupted.
  Proof.
    intros Hrun pre rc post Etr Hi.
    destruct (c_run_spec _ _ _ _ _ _ _ _ _ _ _ _ _ _ Hrun) as (script & Htr & Hfin & Hex & Hcalled & _ & Hne).
    destruct (Nat.eq_dec (Alm.p_max_iter P) 0) as [Hmi|Hmi].
    { exfalso. rewrite Htr in Etr. unfold alm_run in Etr. rewrite (proj2 (Nat.eqb_eq _ _) Hmi) in Etr. cbn [fst] in Etr.
      destruct pre; discriminate. }
    destruct (Nat.eq_dec (pb_m pb) 0) as [Hm|Hm].
    { rewrite Htr in Etr. rewrite Hfin. unfold alm_run in *. rewrite (proj2 (Nat.eqb_neq _ _) Hmi), (proj2 (Nat.eqb_eq _ _) Hm) in *.
      destruct script as [|r rest]; cbn [fst snd] in *; [destruct pre; discriminate|].
      destruct pre as [|a pre]; cbn [app] in Etr; [|destruct pre; discriminate].
      inversion Etr; subst. split; [reflexivity|]. cbn [it_res f_status] in *. exact Hi. }
    rewrite Hfin in Hex.
    destruct (run_interrupted_immediate P pb _ _ nanv Σ0 y0 script Hmi Hm Hex) as (pre' & rl & E1 & Hf & Hst).
    rewrite <- Htr in E1.
    assert (Hf' : Forall (fun a => ir_status (it_res a) <> Interrupted) pre') by (eapply Forall_impl; [|exact Hf]; intros a [Ha _]; exact Ha).
    assert (Hpost : post = []) by (eapply interrupted_is_last; eassumption).
    split; [exact Hpost|]. subst post. rewrite Hfin. apply Hst. left.
    rewrite Etr in E1. apply app_inj_tail in E1. destruct E1 as [_ <-]. exact Hi.
  Qed.

  (* the composed statement: rc = any outer iteration; w / w' = the worlds in which its inner solve started / which it handed on *)
  Theorem galm_stop_ends_run fuel f0 g0 nanv Σ0 y0 x0 w0 co : c_run W Lg inner P pb fuel f0 g0 nanv Σ0 y0 x0 w0 = Some co ->
    forall pre rc post, co_trace co = pre ++ rc :: post ->
    exists (x : list R) (w : W) (x' : list R) (lg : Lg) (w' : W),
      called_ x0 w0 pre x w /\
      inner w (it_i rc) x (it_y rc) (it_Sigma rc) (it_tol rc) (it_err_in rc) = Some (it_res rc, x', lg, w') /\
      (* the request is seen when the inner solve returns: the run ends at this outer iteration, no further inner solve *)
      (seen w' -> run_ends_at P pb pre rc post (co_final co)) /\
      (* it is, when it was seen before the solve started — that solve is then `one` *)
      (seen w -> one lg (it_res rc) /\ seen w') /\
      (ir_status (it_res rc) = Interrupted -> post = [] /\ f_status (co_final co) = Interrupted).
  Proof.
    intros Hrun pre rc post Etr.
    destruct (c_run_spec _ _ _ _ _ _ _ _ _ _ _ _ _ _ Hrun) as (script & _ & _ & _ & Hcalled & _).
    rewrite Etr in Hcalled. destruct (gcalled_split _ _ _ _ _ _ _ Hcalled) as (x & w & x' & lg & w' & A & B & C).
    exists x, w, x', lg, w'. split; [exact A|]. split; [exact B|].
    split; [intros Hs; apply (c_run_stop_ends_run _ _ _ _ _ _ _ _ _ _ _ _ _ _ Hrun pre rc post Etr); exact (Hflag _ _ _ _ _ _ _ _ _ _ _ B Hs)|].
    split; [intros Hw; exact (Hone _ _ _ _ _ _ _ _ _ _ _ Hw B)|].
    intros Hi; exact (gtrace_interrupted_last _ _ _ _ _ _ _ _ _ Hrun pre rc post Etr Hi).
  Qed.
End Generic.

(* ====================================================================== ZeroFPR *)
Section AlmZ.
  Variable Pb : problem (T:=R).
  Variable prov : fn -> bool.
  Variable wm_supplied : list R -> list R.
  Variables (Clb Cub : list (option R)) (l1 : list R).
  Variable split : nat.
  Variable dir : nat -> iterate (T:=R) -> proxit (T:=R) -> option (list R).
  Variable has_initial : bool.
  Variable stop_req : counters -> bool.
  Variable time_up : counters -> bool.
  Variable outer_oot : nat -> bool.
  Variable PP : params (T:=R).
  Variable AP : alm_params (T:=R).
  Variables (ls_fuel inner_fuel : nat).
  Hypothesis Hsticky : sticky stop_req.
  Notation zinner_ := (zinner Pb prov wm_supplied Clb Cub l1 dir has_initial stop_req time_up outer_oot PP ls_fuel inner_fuel).

  Definition zinner_polled (w : counters) (x y Σ : list R) (tol : R) (errz : list R) (pp : pollpt (T:=R)) : Prop :=
    zerofpr_polled (o_psi_grad_full Pb prov wm_supplied y Σ) (o_psi_yhat Pb prov y Σ) (o_grad_L Pb prov) (o_grad_psi Pb prov y Σ)
                   Clb Cub l1 (fun j it px => dir (c_apply w + j)%nat it px) has_initial (fun c => stop_req (cadd w c))
                   (fun c => time_up (cadd w c)) (with_opts PP tol) x y Σ errz ls_fuel pp.
  Definition zone_check (lg : result (T:=R)) (r : inner_res (T:=R)) : Prop :=
    match lg with
    | Done o => out_iterations o = 0%nat /\ c_polls (out_cnt o) = 1%nat /\ c_dir (out_cnt o) = 0%nat /\ c_apply (out_cnt o) = 0%nat /\
                c_cb (out_cnt o) = 1%nat /\ (evals (out_cnt o) <= 4 + s_stepsize_bt (out_stats o))%nat /\
                exit_statuses (out_status o) /\ ir_status r = alm_status_of (out_status o) /\ ir_iters r = 0%nat
    | NotFiniteL _ => ir_status r = NotFinite /\ ir_iters r = 0%nat
    | OutOfFuel => False
    end.

  Lemma zinner_after_request w i x y Σ tol e r x' lg w' : stop_req w = true -> zinner_ w i x y Σ tol e = Some (r, x', lg, w') ->
    zone_check lg r /\ stop_req w' = true.
  Proof.
    intros Hw Ein. unfold zinner in Ein. cbv zeta in Ein.
    match type of Ein with context [match ?X with Done _ => _ | NotFiniteL _ => _ | OutOfFuel => _ end] => destruct X as [o1|L|] eqn:Er end;
      [| |discriminate]; inversion Ein; subst; clear Ein; cbn [zone_check ir_status ir_iters];
      (split; [|apply (Hsticky w); [apply cadd_le_l|exact Hw]]); [|split; reflexivity].
    assert (H0 : stop_req (cadd w cnt0) = true) by (apply (Hsticky w); [apply cadd_le_l|exact Hw]).
    destruct (zerofpr_stop_before_start _ _ _ _ _ _ _ _ _ _ _ _ _ _ _ _ _ (sticky_shift stop_req w Hsticky) _ _ Er H0)
      as (A1 & A2 & A3 & A4 & A5 & A6 & A7 & A8).
    repeat (split; [assumption|]). split; [reflexivity|exact A3].
  Qed.

  Lemma zinner_request_during w i x y Σ tol e r x' o w' : zinner_ w i x y Σ tol e = Some (r, x', Done o, w') ->
    forall pp, zinner_polled w x y Σ tol e pp -> stop_req (cadd w (pp_cnt pp)) = true ->
    zprompt_after (with_opts PP tol) pp o /\ stop_req w' = true.
  Proof.
    intros Ein pp Hp Hs. unfold zinner in Ein. cbv zeta in Ein.
    match type of Ein with context [match ?X with Done _ => _ | NotFiniteL _ => _ | OutOfFuel => _ end] => destruct X as [o1|L|] eqn:Er end;
      [| |discriminate]; inversion Ein; subst; clear Ein.
    pose proof (zerofpr_stop_prompt _ _ _ _ _ _ _ _ _ _ _ _ _ _ _ _ _ (sticky_shift stop_req w Hsticky) _ _ Er pp Hp Hs) as Hpr.
    split; [exact Hpr|]. destruct Hpr as (_ & _ & A & _).
    apply (Hsticky (cadd w (pp_cnt pp))); [|exact Hs]. apply cadd_le_r. exact (adv_le _ _ _ _ _ _ _ A).
  Qed.

  Lemma zinner_stop_flag w i x y Σ tol e r x' lg w' : zinner_ w i x y Σ tol e = Some (r, x', lg, w') -> ir_stop r = stop_req w'.
  Proof.
    unfold zinner. cbv zeta.
    match goal with |- context [match ?X with Done _ => _ | NotFiniteL _ => _ | OutOfFuel => _ end] => destruct X as [o|L|] end;
      [| |discriminate]; intros E; inversion E; subst; clear E; reflexivity.
  Qed.

  Notation almz := (alm_zerofpr Pb prov wm_supplied Clb Cub l1 split dir has_initial stop_req time_up outer_oot PP AP ls_fuel inner_fuel).
  Theorem alm_zerofpr_stop_ends_run outer_fuel nanv Σ0 y0 x0 co : almz outer_fuel nanv Σ0 y0 x0 = Some co ->
    forall pre rc post, co_trace co = pre ++ rc :: post ->
    exists (x : list R) (w : counters) (x' : list R) (lg : result (T:=R)) (w' : counters),
      called counters (result (T:=R)) zinner_ x0 cnt0 pre x w /\
      zinner_ w (it_i rc) x (it_y rc) (it_Sigma rc) (it_tol rc) (it_err_in rc) = Some (it_res rc, x', lg, w') /\
      (stop_req w' = true -> run_ends_at AP (pb_of Pb split) pre rc post (co_final co)) /\
      (forall pp o, lg = Done o -> zinner_polled w x (it_y rc) (it_Sigma rc) (it_tol rc) (it_err_in rc) pp ->
         stop_req (cadd w (pp_cnt pp)) = true -> zprompt_after (with_opts PP (it_tol rc)) pp o /\ stop_req w' = true) /\
      (stop_req w = true -> zone_check lg (it_res rc) /\ stop_req w' = true) /\
      (ir_status (it_res rc) = Interrupted -> post = [] /\ f_status (co_final co) = Interrupted).
  Proof.
    intros Hrun pre rc post Etr. unfold alm_zerofpr in Hrun.
    destruct (galm_stop_ends_run counters (result (T:=R)) zinner_ AP (pb_of Pb split) (fun w => stop_req w = true) zone_check
                zinner_after_request (fun w i x y Σ tol e r x' lg w' E Hs => eq_trans (zinner_stop_flag w i x y Σ tol e r x' lg w' E) Hs)
                _ _ _ _ _ _ _ _ _ Hrun pre rc post Etr) as (x & w & x' & lg & w' & A & B & C & D & E).
    exists x, w, x', lg, w'. split; [exact A|]. split; [exact B|]. split; [exact C|]. split; [|split; [exact D|exact E]].
    intros pp o -> Hp Hs. exact (zinner_request_during _ _ _ _ _ _ _ _ _ _ _ B pp Hp Hs).
  Qed.
End AlmZ.

(* ====================================================================== PANTR *)
Section AlmT.
  Variable Pb : problem (T:=R).
  Variable prov : fn -> bool.
  Variable wm_supplied : list R -> list R.
  Variables (Clb Cub : list (option R)) (l1 : list R).
  Variable split : nat.
  Variable tr_dir : nat -> iterate (T:=R) -> R -> list R * R.
  Variable has_initial : bool.
  Variable stop_req : counters -> bool.
  Variable time_up : counters -> bool.
  Variable outer_oot : nat -> bool.
  Variable TP : trparams (T:=R).
  Variable AP : alm_params (T:=R).
  Variables (bt_fuel inner_fuel : nat).
  Hypothesis Hsticky : sticky stop_req.
  Notation tinner_ := (tinner Pb prov wm_supplied Clb Cub l1 tr_dir has_initial stop_req time_up outer_oot TP bt_fuel inner_fuel).

  Definition tinner_polled (w : counters) (x y Σ : list R) (tol : R) (errz : list R) (pp : pollpt (T:=R)) : Prop :=
    pantr_polled (o_psi_grad_full Pb prov wm_supplied y Σ) (o_psi_yhat Pb prov y Σ) (o_grad_L Pb prov) (o_grad_psi Pb prov y Σ)
                 Clb Cub l1 (fun j px Δ => tr_dir (c_apply w + j)%nat px Δ) has_initial (fun c => stop_req (cadd w c))
                 (fun c => time_up (cadd w c)) (tr_with_opts TP tol) x y Σ errz bt_fuel pp.
  Definition tone_check (lg : tresult (T:=R)) (r : inner_res (T:=R)) : Prop :=
    match lg with
    | TDone o => to_iterations o = 0%nat /\ c_polls (to_cnt o) = 1%nat /\ c_dir (to_cnt o) = 0%nat /\ c_apply (to_cnt o) = 0%nat /\
                 c_cb (to_cnt o) = 1%nat /\ (evals (to_cnt o) <= 4 + s_stepsize_bt (to_stats o))%nat /\
                 exit_statuses (to_status o) /\ ir_status r = alm_status_of (to_status o) /\ ir_iters r = 0%nat
    | TNotFiniteL _ => ir_status r = NotFinite /\ ir_iters r = 0%nat
    | TOutOfFuel => False
    end.

  Lemma tinner_after_request w i x y Σ tol e r x' lg w' : stop_req w = true -> tinner_ w i x y Σ tol e = Some (r, x', lg, w') ->
    tone_check lg r /\ stop_req w' = true.
  Proof.
    intros Hw Ein. unfold tinner in Ein. cbv zeta in Ein.
    match type of Ein with context [match ?X with TDone _ => _ | TNotFiniteL _ => _ | TOutOfFuel => _ end] => destruct X as [o1|L|] eqn:Er end;
      [| |discriminate]; inversion Ein; subst; clear Ein; cbn [tone_check ir_status ir_iters];
      (split; [|apply (Hsticky w); [apply cadd_le_l|exact Hw]]); [|split; reflexivity].
    assert (H0 : stop_req (cadd w cnt0) = true) by (apply (Hsticky w); [apply cadd_le_l|exact Hw]).
    destruct (pantr_stop_before_start _ _ _ _ _ _ _ _ _ _ _ _ _ _ _ _ _ (sticky_shift stop_req w Hsticky) _ _ Er H0)
      as (A1 & A2 & A3 & A4 & A5 & A6 & A7 & A8).
    repeat (split; [assumption|]). split; [reflexivity|exact A3].
  Qed.

  Lemma tinner_request_during w i x y Σ tol e r x' o w' : tinner_ w i x y Σ tol e = Some (r, x', TDone o, w') ->
    forall pp, tinner_polled w x y Σ tol e pp -> stop_req (cadd w (pp_cnt pp)) = true ->
    tprompt_after (tr_with_opts TP tol) pp o /\ stop_req w' = true.
  Proof.
    intros Ein pp Hp Hs. unfold tinner in Ein. cbv zeta in Ein.
    match type of Ein with context [match ?X with TDone _ => _ | TNotFiniteL _ => _ | TOutOfFuel => _ end] => destruct X as [o1|L|] eqn:Er end;
      [| |discriminate]; inversion Ein; subst; clear Ein.
    pose proof (pantr_stop_prompt _ _ _ _ _ _ _ _ _ _ _ _ _ _ _ _ _ _ _ Er pp Hp Hs) as Hpr.
    split; [exact Hpr|]. destruct Hpr as (_ & _ & A & _).
    apply (Hsticky (cadd w (pp_cnt pp))); [|exact Hs]. apply cadd_le_r. rewrite A. cnt_solve.
  Qed.

  Lemma tinner_stop_flag w i x y Σ tol e r x' lg w' : tinner_ w i x y Σ tol e = Some (r, x', lg, w') -> ir_stop r = stop_req w'.
  Proof.
    unfold tinner. cbv zeta.
    match goal with |- context [match ?X with TDone _ => _ | TNotFiniteL _ => _ | TOutOfFuel => _ end] => destruct X as [o|L|] end;
      [| |discriminate]; intros E; inversion E; subst; clear E; reflexivity.
  Qed.

  Notation almt := (alm_pantr Pb prov wm_supplied Clb Cub l1 split tr_dir has_initial stop_req time_up outer_oot TP AP bt_fuel inner_fuel).
  Theorem alm_pantr_stop_ends_run outer_fuel nanv Σ0 y0 x0 co : almt outer_fuel nanv Σ0 y0 x0 = Some co ->
    forall pre rc post, co_trace co = pre ++ rc :: post ->
    exists (x : list R) (w : counters) (x' : list R) (lg : tresult (T:=R)) (w' : counters),
      called counters (tresult (T:=R)) tinner_ x0 cnt0 pre x w /\
      tinner_ w (it_i rc) x (it_y rc) (it_Sigma rc) (it_tol rc) (it_err_in rc) = Some (it_res rc, x', lg, w') /\
      (stop_req w' = true -> run_ends_at AP (pb_of Pb split) pre rc post (co_final co)) /\
      (forall pp o, lg = TDone o -> tinner_polled w x (it_y rc) (it_Sigma rc) (it_tol rc) (it_err_in rc) pp ->
         stop_req (cadd w (pp_cnt pp)) = true -> tprompt_after (tr_with_opts TP (it_tol rc)) pp o /\ stop_req w' = true) /\
      (stop_req w = true -> tone_check lg (it_res rc) /\ stop_req w' = true) /\
      (ir_status (it_res rc) = Interrupted -> post = [] /\ f_status (co_final co) = Interrupted).
  Proof.
    intros Hrun pre rc post Etr. unfold alm_pantr in Hrun.
    destruct (galm_stop_ends_run counters (tresult (T:=R)) tinner_ AP (pb_of Pb split) (fun w => stop_req w = true) tone_check
                tinner_after_request (fun w i x y Σ tol e r x' lg w' E Hs => eq_trans (tinner_stop_flag w i x y Σ tol e r x' lg w' E) Hs)
                _ _ _ _ _ _ _ _ _ Hrun pre rc post Etr) as (x & w & x' & lg & w' & A & B & C & D & E).
    exists x, w, x', lg, w'. split; [exact A|]. split; [exact B|]. split; [exact C|]. split; [|split; [exact D|exact E]].
    intros pp o -> Hp Hs. exact (tinner_request_during _ _ _ _ _ _ _ _ _ _ _ B pp Hp Hs).
  Qed.
End AlmT.

(* ====================================================================== FISTA *)
Lemma fcadd_le_r w c c' : fcnt_le c c' -> fcnt_le (fcadd w c) (fcadd w c').
Proof. unfold fcadd. fcnt_solve. Qed.
Lemma fcadd_le_l w c : fcnt_le w (fcadd w c).
Proof. unfold fcadd. fcnt_solve. Qed.
Lemma fsticky_shift stop_req w : fsticky stop_req -> fsticky (fun c => stop_req (fcadd w c)).
Proof. intros Hs c c' Hle. apply Hs. now apply fcadd_le_r. Qed.

Section AlmF.
  Variable Pb : problem (T:=R).
  Variable prov : fn -> bool.
  Variables (Clb Cub : list (option R)) (l1 : list R).
  Variable split : nat.
  Variable stop_req : fcounters -> bool.
  Variable time_up : fcounters -> bool.
  Variable outer_oot : nat -> bool.
  Variable FP : fparams (T:=R).
  Variable AP : alm_params (T:=R).
  Variables (bt_fuel inner_fuel : nat).
  Hypothesis Hsticky : fsticky stop_req.
  Notation finner_ := (finner Pb prov Clb Cub l1 stop_req time_up outer_oot FP bt_fuel inner_fuel).

  Definition finner_polled (w : fcounters) (x y Σ : list R) (tol : R) (errz : list R) (pp : fpollpt (T:=R)) : Prop :=
    fista_polled (fo_psi_grad Pb prov y Σ) (fo_psi_yhat Pb prov y Σ) (fo_grad_L Pb prov) (fo_grad_psi Pb prov y Σ) Clb Cub l1
                 (fun c => stop_req (fcadd w c)) (fun c => time_up (fcadd w c)) (fwith_opts FP tol) x y Σ errz bt_fuel pp.
  Definition fone_check (lg : fresult (T:=R)) (r : inner_res (T:=R)) : Prop :=
    match lg with
    | FDone o => fo_iterations o = 0%nat /\ fc_polls (fo_cnt o) = 1%nat /\ fc_cb (fo_cnt o) = 1%nat /\
                 (fevals (fo_cnt o) <= 6 + fo_bt o)%nat /\ exit_statuses (fo_status o) /\
                 ir_status r = alm_status_of (fo_status o) /\ ir_iters r = 0%nat
    | FNotFiniteL _ => ir_status r = NotFinite /\ ir_iters r = 0%nat
    | FOutOfFuel => False
    end.

  Lemma finner_after_request w i x y Σ tol e r x' lg w' : stop_req w = true -> finner_ w i x y Σ tol e = Some (r, x', lg, w') ->
    fone_check lg r /\ stop_req w' = true.
  Proof.
    intros Hw Ein. unfold finner in Ein. cbv zeta in Ein.
    match type of Ein with context [match ?X with FDone _ => _ | FNotFiniteL _ => _ | FOutOfFuel => _ end] => destruct X as [o1|L|] eqn:Er end;
      [| |discriminate]; inversion Ein; subst; clear Ein; cbn [fone_check ir_status ir_iters];
      (split; [|apply (Hsticky w); [apply fcadd_le_l|exact Hw]]); [|split; reflexivity].
    assert (H0 : stop_req (fcadd w fcnt0) = true) by (apply (Hsticky w); [apply fcadd_le_l|exact Hw]).
    destruct (fista_stop_before_start _ _ _ _ _ _ _ _ _ _ _ _ _ _ _ (fsticky_shift stop_req w Hsticky) _ _ Er H0)
      as (A1 & A2 & A3 & A4 & A5 & A6).
    repeat (split; [assumption|]). split; [reflexivity|exact A3].
  Qed.

  Lemma finner_request_during w i x y Σ tol e r x' o w' : finner_ w i x y Σ tol e = Some (r, x', FDone o, w') ->
    forall pp, finner_polled w x y Σ tol e pp -> stop_req (fcadd w (fpp_cnt pp)) = true ->
    fprompt_after (fwith_opts FP tol) pp o /\ stop_req w' = true.
  Proof.
    intros Ein pp Hp Hs. unfold finner in Ein. cbv zeta in Ein.
    match type of Ein with context [match ?X with FDone _ => _ | FNotFiniteL _ => _ | FOutOfFuel => _ end] => destruct X as [o1|L|] eqn:Er end;
      [| |discriminate]; inversion Ein; subst; clear Ein.
    pose proof (fista_stop_prompt _ _ _ _ _ _ _ _ _ _ _ _ _ _ _ _ _ Er pp Hp Hs) as Hpr.
    split; [exact Hpr|]. destruct Hpr as (_ & _ & A & _).
    apply (Hsticky (fcadd w (fpp_cnt pp))); [|exact Hs]. apply fcadd_le_r. exact A.
  Qed.

  Lemma finner_stop_flag w i x y Σ tol e r x' lg w' : finner_ w i x y Σ tol e = Some (r, x', lg, w') -> ir_stop r = stop_req w'.
  Proof.
    unfold finner. cbv zeta.
    match goal with |- context [match ?X with FDone _ => _ | FNotFiniteL _ => _ | FOutOfFuel => _ end] => destruct X as [o|L|] end;
      [| |discriminate]; intros E; inversion E; subst; clear E; reflexivity.
  Qed.

  Notation almf := (alm_fista Pb prov Clb Cub l1 split stop_req time_up outer_oot FP AP bt_fuel inner_fuel).
  Theorem alm_fista_stop_ends_run outer_fuel nanv Σ0 y0 x0 co : almf outer_fuel nanv Σ0 y0 x0 = Some co ->
    forall pre rc post, co_trace co = pre ++ rc :: post ->
    exists (x : list R) (w : fcounters) (x' : list R) (lg : fresult (T:=R)) (w' : fcounters),
      called fcounters (fresult (T:=R)) finner_ x0 fcnt0 pre x w /\
      finner_ w (it_i rc) x (it_y rc) (it_Sigma rc) (it_tol rc) (it_err_in rc) = Some (it_res rc, x', lg, w') /\
      (stop_req w' = true -> run_ends_at AP (pb_of Pb split) pre rc post (co_final co)) /\
      (forall pp o, lg = FDone o -> finner_polled w x (it_y rc) (it_Sigma rc) (it_tol rc) (it_err_in rc) pp ->
         stop_req (fcadd w (fpp_cnt pp)) = true -> fprompt_after (fwith_opts FP (it_tol rc)) pp o /\ stop_req w' = true) /\
      (stop_req w = true -> fone_check lg (it_res rc) /\ stop_req w' = true) /\
      (ir_status (it_res rc) = Interrupted -> post = [] /\ f_status (co_final co) = Interrupted).
  Proof.
    intros Hrun pre rc post Etr. unfold alm_fista in Hrun.
    destruct (galm_stop_ends_run fcounters (fresult (T:=R)) finner_ AP (pb_of Pb split) (fun w => stop_req w = true) fone_check
                finner_after_request (fun w i x y Σ tol e r x' lg w' E Hs => eq_trans (finner_stop_flag w i x y Σ tol e r x' lg w' E) Hs)
                _ _ _ _ _ _ _ _ _ Hrun pre rc post Etr) as (x & w & x' & lg & w' & A & B & C & D & E).
    exists x, w, x', lg, w'. split; [exact A|]. split; [exact B|]. split; [exact C|]. split; [|split; [exact D|exact E]].
    intros pp o -> Hp Hs. exact (finner_request_during _ _ _ _ _ _ _ _ _ _ _ B pp Hp Hs).
  Qed.
End AlmF.
