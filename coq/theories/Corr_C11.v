(* Corr_C11.v — correspondence cases for C11: the SAME definitions of Steihaug.v run at binary64 and are
   compared with what SteihaugCG::solve / NewtonTRDirection::apply returned (drv_C11). *)
From Coq Require Import Floats List ZArith Bool.
From Alpaqa Require Import Num NumF Vec Prox Steihaug.
Import ListNotations.

Definition mkparams (ts tsr tmax : float) (mi : Z) : cg_params float :=
  {| tol_scale := ts; tol_scale_root := tsr; tol_max := ub_of_float tmax; max_iter := mi |}.

Inductive c11case :=
(* g, B (rows), radius, tol_scale, tol_scale_root, tol_max, max_iter | implementation: step, value, #hess_prod calls *)
| CCg (g : list float) (B : list (list float)) (Δ ts tsr tmax : float) (mi : Z)
      (s : list float) (q : float) (calls : Z)
(* box, γ, x, ∇ψ, H (rows), radius, hessian_vec_factor, cg params | implementation: p, J, q, value, #hess_ψ_prod calls *)
| CNtr (lb ub : list float) (γ : float) (x grad : list float) (H : list (list float)) (Δ hvf ts tsr tmax : float) (mi : Z)
       (p : list float) (J : list nat) (q : list float) (val : float) (calls : Z).

Definition nat_list_eqb (a b : list nat) : bool := list_agree Nat.eqb a b.

(* model outputs: vector, value, discrete (exit kind, #calls), J, p *)
Definition model11 (c : c11case) : list float * float * (cg_exit * Z) * list nat * list float :=
  match c with
  | CCg g B Δ ts tsr tmax mi _ _ _ =>
      let r := cg_solve (mat_vec B) g Δ (mkparams ts tsr tmax mi) in
      (res_step r, res_val r, (res_exit r, cg_hess_calls r), [], [])
  | CNtr lb ub γ x grad H Δ hvf ts tsr tmax mi _ _ _ _ _ =>
      let lbo := map lb_of_float lb in let ubo := map ub_of_float ub in
      let '(_, p, _) := eval_prox_grad_step lbo ubo [] γ x grad in
      let J := inactive_indices lbo ubo [] γ x grad in
      let r := newton_tr_apply (mat_vec H) (mkparams ts tsr tmax mi) hvf γ J p Δ in
      (ntr_q r, ntr_val r,
       (res_exit (ntr_cg r), (cg_hess_calls (ntr_cg r) + (if PrimFloat.eqb hvf 0 then 0 else 1))%Z), J, p)
  end.

Definition chk11 (c : c11case) : bool :=
  let '(v, val, (ex, calls), J, p) := model11 c in
  match c with
  | CCg _ _ _ _ _ _ _ s q k => vfeq v s && feq val q && Z.eqb calls k && negb (cg_exit_eqb ex ExFuel)
  | CNtr _ _ _ _ _ _ _ _ _ _ _ _ pp JJ q vv k =>
      vfeq p pp && nat_list_eqb J JJ && vfeq v q && feq val vv && Z.eqb calls k && negb (cg_exit_eqb ex ExFuel)
  end.
