(* PantrDirLen.v — the LENGTH invariant of PANTR with a STATEFUL trust-region direction provider (PantrDir.pantrD), over R, for every
   provider (DirectionsTR.trdirops) that keeps dimensions in the sense of `trdir_len` below (predicates I0 — as constructed —, Iv on
   provider states: initialize — IF it returns — establishes Iv from I0 or Iv; update / changed_γ / reset preserve Iv; apply — IF it
   returns — preserves Iv and leaves a vector of length n in q; each when handed vectors of length n).  Counterpart of ZeroFprDirLen.v:
     at the top of every pass the current iterate has x, ∇ψ(x), x̂, p of length n (PantrLen.good), the provider is sane (I0 or Iv before
     the first `initialize` of the solve, Iv after it) and every apply call so far returned a vector of length n; after a pass that
     continues, the iterate in `prox` has the lengths too (it is what pantr.tpp hands to direction.update together with the new current
     iterate).
   The invariant is proved on PantrDir.passD directly (one pass of the provider loop IS Pantr.tpass with the constant oracle "what this
   pass's apply call returned", so PantrLen's lemmas apply pass by pass); with the refinement theorem PantrDirProofs.pantrD_refines the
   inner contract with dimensions follows WITHOUT any hypothesis about a direction oracle:
     pantrD_out_x_length, pantrD_inner_contract_len, pantrD_out_dir (the provider a completed run hands back is sane again — what the
     composition across inner solves needs), pantrD_calls_len.
   NewtonTRDirection keeps dimensions with I0 = Iv = everything, for EVERY parameter set, exact Hessian products or finite differences,
   arbitrary eval_grad_ψ / eval_hess_ψ_prod members and every SteihaugCG outcome: apply returns merge_JK J (keep_active J p) qJ, whose
   length is that of p whatever the CG step qJ is (ntr_len). *)
From Coq Require Import Reals List ZArith Lra Lia Bool Arith Psatz.
From Flocq Require Import Raux.
From Alpaqa Require Import Num NumR Vec Prox ProxProofs ProxVec SolverStatus SolverKernels SolverKernelsProofs DescentProofs
                           StopChain StopChainProofs LoopSkeleton KktProofs Panoc PanocProofs ZeroFpr ZeroFprProofs Pantr PantrProofs PantrLen
                           LiveVec Steihaug SteihaugProofs Directions DirectionsTR PantrDir PantrDirProofs.
Import ListNotations.
Local Open Scope R_scope.

(* a trust-region direction provider keeps dimensions *)
Record trdir_len (n : nat) (D : Type) (ops : trdirops R D) (I0 Iv : D -> Prop) : Prop := mkTrDirLen {
  tdl_init : forall d y S γ x xh p g d', I0 d \/ Iv d -> length x = n -> length xh = n -> length p = n -> length g = n ->
    td_initialize D ops d y S γ x xh p g = Some d' -> Iv d';
  tdl_update : forall d γ γn x xn p pn g gn, Iv d ->
    length x = n -> length xn = n -> length p = n -> length pn = n -> length g = n -> length gn = n ->
    Iv (snd (td_update D ops d γ γn x xn p pn g gn));
  tdl_apply : forall d γ x xh p g Δ q q' v d', Iv d -> length x = n -> length xh = n -> length p = n -> length g = n ->
    td_apply D ops d γ x xh p g Δ q = Some (q', v, d') -> Iv d' /\ length q' = n;
  tdl_changed : forall d a b, Iv d -> Iv (td_changed_gamma D ops d a b);
  tdl_reset : forall d, Iv d -> Iv (td_reset D ops d) }.

(* ------------------------------------------------------------------ NewtonTRDirection: every parameter set, no hypothesis *)
Lemma merge_JK_length (J : list nat) (p s : list R) : length (merge_JK J (keep_active J p) s) = length p.
Proof.
  unfold merge_JK. rewrite keep_active_length.
  apply (ProxVec.map2_length _ _ _ (length p)).
  - rewrite combine_length, seq_length, keep_active_length. apply Nat.min_id.
  - apply scatter_from_length.
Qed.

Lemma ntr_len n (lb ub : list (option R)) (l1 : list R) (prov_inactive prov_hess_L prov_hess_psi m_is_zero : bool)
      (grad_psi_at : list R -> list R -> list R -> list R) (hess_psi_prod : list R -> list R -> list R -> R -> list R -> list R)
      (hvf : R) (fd : bool) (fd_step cg_ts cg_tsr : R) (cg_tmax : option R) (cg_max_iter : nat -> Z) (eps_mach : R) :
  trdir_len n (ntrstate R)
            (newton_tr_dir lb ub l1 prov_inactive prov_hess_L prov_hess_psi m_is_zero grad_psi_at hess_psi_prod
                           hvf fd fd_step cg_ts cg_tsr cg_tmax cg_max_iter eps_mach)
            (fun _ => True) (fun _ => True).
Proof.
  constructor; try (intros; exact I).
  intros d γ x xh p g Δ q q' v d' _ _ _ Hp _. cbn [td_apply newton_tr_dir]. unfold ntr_apply.
  destruct (negb (nfinite Δ) || nltb Δ eps_mach); [discriminate|].
  intros E. injection E as <- _ _. split; [exact I|].
  unfold ntr_solve, ntr_core. cbn [ntr_q]. rewrite merge_JK_length. exact Hp.
Qed.

Section DirLenT.
  Variable psi_grad_full : list R -> R * list R * list R.
  Variable psi_yhat : list R -> R * list R.
  Variable grad_L : list R -> list R -> list R.
  Variable grad_psi : list R -> list R.
  Variables (lb ub : list (option R)) (l1 : list R).
  Variable D : Type.
  Variable ops : trdirops R D.
  Variable stop_req : counters -> bool.
  Variable time_up : counters -> bool.
  Variable TP : trparams (T:=R).
  Variables (x_in y_in Σ errz_in : list R).
  Variable bt_fuel : nat.
  Variable d0 : D.

  Variable n : nat.
  Hypothesis Hl1 : l1 = [].
  Hypothesis Hlb : length lb = n.
  Hypothesis Hub : length ub = n.
  Hypothesis Hxin : length x_in = n.
  Hypothesis Hpg : forall x, length x = n -> length (snd (psi_grad psi_grad_full x)) = n.

  (* the provider keeps dimensions *)
  Variables (I0 Iv : D -> Prop).
  Hypothesis HDL : trdir_len n D ops I0 Iv.
  Hypothesis Hd0 : I0 d0 \/ Iv d0.

  Let I_init := tdl_init n D ops I0 Iv HDL.
  Let I_update := tdl_update n D ops I0 Iv HDL.
  Let I_apply := tdl_apply n D ops I0 Iv HDL.
  Let I_changed := tdl_changed n D ops I0 Iv HDL.
  Let I_reset := tdl_reset n D ops I0 Iv HDL.

  Notation it := (iterate (T:=R)).
  Notation P := (tp_base TP).
  Notation hasinit := (td_has_initial D ops).
  Notation eprox := (eval_prox lb ub l1).
  Notation ecost := (eval_cost psi_yhat).
  Notation bt := (ZeroFpr.init_qub psi_yhat lb ub l1 P).
  Notation tpass_ O := (tpass psi_grad_full psi_yhat grad_L lb ub l1 O hasinit stop_req time_up TP x_in y_in Σ errz_in bt_fuel).
  Notation pantr_ O := (pantr psi_grad_full psi_yhat grad_L grad_psi lb ub l1 O hasinit stop_req time_up TP x_in y_in Σ errz_in bt_fuel).
  Notation passprox := (pass_prox psi_grad_full grad_L lb ub l1 stop_req time_up TP).
  Notation passD_ := (passD psi_grad_full psi_yhat grad_L lb ub l1 D ops stop_req time_up TP x_in y_in Σ errz_in bt_fuel).
  Notation tloopD_ := (tloopD psi_grad_full psi_yhat grad_L lb ub l1 D ops stop_req time_up TP x_in y_in Σ errz_in bt_fuel).
  Notation pantrD_ := (pantrD psi_grad_full psi_yhat grad_L grad_psi lb ub l1 D ops stop_req time_up TP x_in y_in Σ errz_in bt_fuel d0).
  Notation reachableD_ := (reachableD psi_grad_full psi_yhat grad_L grad_psi lb ub l1 D ops stop_req time_up TP x_in y_in Σ errz_in bt_fuel d0).
  Notation trstep O := (tr_step psi_grad_full psi_yhat lb ub l1 O TP bt_fuel).
  Notation finish := (finish_iter psi_yhat lb ub l1 TP bt_fuel).
  Notation fbs := (fbs_iterate psi_grad_full lb ub l1).
  Notation Linit := (L_init psi_grad_full grad_psi P x_in).
  Notation good := (good n).
  Notation good_x := (good_x n).
  Notation calledb := (called D ops TP).

  Lemma good_gx (i : it) : good i -> good_x i.
  Proof. intros [H _]. exact H. Qed.

  (* ---- "Accept TR step" / "Fall back to proximal gradient step": BOTH iterates handed to direction.update have the lengths *)
  Lemma finish_good2 s curr prox gbuf2 ε accel r : good curr -> good prox ->
    (let '(cand, q, Δ, ρ, acc, c, st, ok) := r in acc = true -> good cand) ->
    match finish s curr prox gbuf2 ε accel r with TCont s' => good (ts_curr s') /\ good (ts_prox s') | TExit _ => False | TFuel => True end.
  Proof.
    intros Hcu Hp. destruct r as [[[[[[[cand q] Δ] ρ] acc] c8] st3] ok]. intros Hc. unfold finish_iter.
    destruct ok; cbn [negb]; [|exact I].
    destruct acc.
    - specialize (Hc eq_refl).
      destruct (tp_ratio_new_step TP).
      + cbn [ts_curr ts_prox]. split; [exact Hc|].
        match goal with |- context [if ?b then Pantr.eprox _ _ _ _ else _] => destruct b end; [unfold Pantr.eprox; apply (eprox_good lb ub l1 n Hl1 Hlb Hub); exact (good_gx _ Hp)|exact Hp].
      + unfold backtrack.
        match goal with |- context [ZeroFpr.init_qub ?a1 ?a2 ?a3 ?a4 ?a5 ?a6 ?a7 ?a8 ?a9] =>
          destruct (ZeroFpr.init_qub a1 a2 a3 a4 a5 a6 a7 a8 a9) as [[[cand2 c10] st4]|] eqn:Eb end; [|exact I].
        cbn [ts_curr ts_prox]. split.
        * eapply (bt_good psi_yhat lb ub l1 TP n Hl1 Hlb Hub); [|exact Eb]. exact Hc.
        * match goal with |- context [if ?b then Pantr.eprox _ _ _ _ else _] => destruct b end; [unfold Pantr.eprox; apply (eprox_good lb ub l1 n Hl1 Hlb Hub); exact (good_gx _ Hp)|exact Hp].
    - unfold backtrack.
      match goal with |- context [ZeroFpr.init_qub ?a1 ?a2 ?a3 ?a4 ?a5 ?a6 ?a7 ?a8 ?a9] =>
        destruct (ZeroFpr.init_qub a1 a2 a3 a4 a5 a6 a7 a8 a9) as [[[prox2 c10] st5]|] eqn:Eb end; [|exact I].
      cbn [ts_curr ts_prox]. split.
      + eapply (bt_good psi_yhat lb ub l1 TP n Hl1 Hlb Hub); [|exact Eb]. exact Hp.
      + match goal with |- context [if ?b then Pantr.eprox _ _ _ _ else _] => destruct b end; [unfold Pantr.eprox; apply (eprox_good lb ub l1 n Hl1 Hlb Hub); exact (good_gx _ Hcu)|exact Hcu].
  Qed.

  (* the FBS iterate of a pass that goes on *)
  Lemma pass_prox_good (s : tstate (T:=R)) prox c4 : good (ts_curr s) -> passprox s = Some (prox, c4) -> good prox.
  Proof.
    intros Hg. unfold pass_prox. cbv zeta.
    match goal with |- context [stop_status_helpers ?a ?b ?c ?d ?e ?f ?g ?h] => destruct (stop_status_helpers a b c d e f g h) end;
      try discriminate.
    intros E. injection E as <- _. unfold fbs_iterate.
    apply (fresh_good psi_grad_full lb ub l1 n Hl1 Hlb Hub Hpg). cbn [ix]. apply Hg.
  Qed.

  (* one pass of Pantr.tpass with an oracle returning n-vectors *)
  Lemma tpass_len2 (O : nat -> it -> R -> list R * R) (s : tstate (T:=R)) :
    (forall j px Δ, length (ix px) = n -> length (fst (O j px Δ)) = n) -> good (ts_curr s) ->
    match tpass_ O s with TCont s' => good (ts_curr s') /\ good (ts_prox s') | TExit o => to_final o = ts_curr s | TFuel => True end.
  Proof.
    intros HO Hg. unfold tpass, Pantr.P. cbv zeta.
    match goal with |- context [stop_status_helpers ?a ?b ?c ?d ?e ?f ?g ?h] => destruct (stop_status_helpers a b c d e f g h) end.
    2-8: match goal with |- context [exit_block ?a ?b ?c ?d ?e ?f ?g ?h] => destruct (exit_block a b c d e f g h) as [[xo yo] eo] end; reflexivity.
    match goal with |- context [finish s ?cu ?px ?g2 ?e ?ac (trstep O s ?px ?c4 ?ac)] =>
      set (prox := px); set (c4' := c4); set (accel := ac); set (g2' := g2); set (ε := e) end.
    assert (Gp : good prox).
    { subst prox. unfold fbs_iterate. apply (fresh_good psi_grad_full lb ub l1 n Hl1 Hlb Hub Hpg). cbn [ix]. apply Hg. }
    pose proof (finish_good2 s (ts_curr s) prox g2' ε accel _ Hg Gp
                  (tr_step_good psi_grad_full psi_yhat lb ub l1 O TP bt_fuel n Hl1 Hlb Hub Hpg HO s prox c4' accel Gp)) as Hf.
    destruct (finish s (ts_curr s) prox g2' ε accel (trstep O s prox c4' accel)); [contradiction|exact Hf|exact I].
  Qed.

  (* a pass without an apply call does not read the oracle *)
  Lemma tpass_nocall (O O' : nat -> it -> R -> list R * R) (s : tstate (T:=R)) : calledb s = false -> tpass_ O s = tpass_ O' s.
  Proof.
    intros Ec. unfold tpass, Pantr.P. cbv zeta.
    match goal with |- context [stop_status_helpers ?a ?b ?c ?d ?e ?f ?g ?h] => destruct (stop_status_helpers a b c d e f g h) end; try reflexivity.
    unfold tr_step. unfold called in Ec. rewrite Ec. reflexivity.
  Qed.

  Definition nvec : list R * R := (repeat 0 n, 0).
  Lemma oracle_const_len (q : list R) (v : R) : length q = n ->
    forall (j : nat) (px : it) (Δ : R), length (ix px) = n -> length (fst (oracle_const (q, v) j px Δ)) = n.
  Proof. intros Hq j px Δ _. exact Hq. Qed.

  (* ---- direction.changed_γ / direction.update after the step *)
  Lemma dir_after_len d curr prox (s' : tstate (T:=R)) : Iv d -> good (ts_curr s') -> good (ts_prox s') ->
    Iv (snd (dir_after D ops TP d curr prox s')).
  Proof.
    intros Hd ((C1 & C2) & C3 & C4) ((P1 & P2) & P3 & P4). unfold dir_after, dir_update. destruct (ts_acc s').
    - apply I_update; try assumption. destruct (negb _); [apply I_changed|]; exact Hd.
    - destruct (tp_upd_on_prox TP); [apply I_update; try assumption|cbn [snd]]; (destruct (negb _); [apply I_changed|]; exact Hd).
  Qed.

  (* ---- the invariant at the top of `while (true)` *)
  Definition tsaneD (d : D) : Prop := I0 d \/ Iv d.
  Definition call_len (c : tcall (T:=R)) : Prop := length (tc_q c) = n.
  Definition tgoodD (sD : tstateD (T:=R) D) : Prop :=
    good (ts_curr (tsd_st D sD)) /\
    ((ts_k (tsd_st D sD) = 0%nat /\ tsaneD (tsd_dir D sD)) \/ Iv (tsd_dir D sD)) /\
    Forall call_len (tsd_calls D sD).

  Lemma passD_len sD : tgoodD sD ->
    match passD_ sD with
    | TContD _ sD' => tgoodD sD' /\ good (ts_prox (tsd_st D sD'))
    | TExitD _ oD => tsaneD (tod_dir D oD) /\ to_final (tod_out D oD) = ts_curr (tsd_st D sD) /\ Forall call_len (tod_calls D oD)
    | _ => True
    end.
  Proof.
    destruct sD as [s d rej calls]. unfold tgoodD. cbn [tsd_st tsd_dir tsd_calls]. intros (Hg & Hk & Hcl).
    unfold passD. cbn [tsd_st tsd_dir tsd_rej tsd_calls].
    destruct (passprox s) as [[prox c4]|] eqn:Ep.
    - pose proof (pass_prox_good s prox c4 Hg Ep) as Gp. pose proof Gp as ((Px & Pg) & Pxh & Pp).
      destruct (if (ts_k s =? 0)%nat then td_initialize D ops d y_in Σ (igam prox) (ix prox) (ixh prox) (ip prox) (igrad prox) else Some d)
        as [d1|] eqn:Ed1; [|exact I].
      assert (H1 : Iv d1).
      { destruct (Nat.eqb_spec (ts_k s) 0) as [Ek|Ek].
        - refine (I_init _ _ _ _ _ _ _ _ _ _ Px Pxh Pp Pg Ed1). destruct Hk as [[_ Hk]|Hk]; [exact Hk|right; exact Hk].
        - injection Ed1 as <-. destruct Hk as [[Hk _]|Hk]; [contradiction|exact Hk]. }
      fold (calledb s).
      destruct (calledb s) eqn:Ec.
      + destruct (td_apply D ops d1 (igam prox) (ix prox) (ixh prox) (ip prox) (igrad prox) (ts_delta s) (ts_q s)) as [[[q qm] d2]|] eqn:Ea; [|exact I].
        destruct (I_apply _ _ _ _ _ _ _ _ _ _ _ H1 Px Pxh Pp Pg Ea) as [H2 Hq].
        pose proof (tpass_len2 (oracle_const (q, qm)) s (oracle_const_len q qm Hq) Hg) as Hp.
        destruct (tpass_ (oracle_const (q, qm)) s) as [o|s'|]; try exact I.
        destruct Hp as [G1 G2]. cbn [tsd_st tsd_dir tsd_calls].
        split; [|exact G2]. split; [exact G1|]. split.
        * right. apply dir_after_len; [|exact G1|exact G2].
          cbn [andb]. match goal with |- Iv (if ?b then _ else _) => destruct b end; [apply I_reset|]; exact H2.
        * apply Forall_app. split; [exact Hcl|]. constructor; [exact Hq|constructor].
      + rewrite (tpass_nocall (oracle_const (ts_q s, n0)) (oracle_const nvec) s Ec).
        pose proof (tpass_len2 (oracle_const nvec) s (oracle_const_len _ _ (repeat_length 0 n)) Hg) as Hp.
        destruct (tpass_ (oracle_const nvec) s) as [o|s'|]; try exact I.
        destruct Hp as [G1 G2]. cbn [tsd_st tsd_dir tsd_calls].
        split; [|exact G2]. split; [exact G1|]. split; [|exact Hcl].
        right. apply dir_after_len; [|exact G1|exact G2]. cbn [andb]. exact H1.
    - destruct (tpass_exit psi_grad_full psi_yhat grad_L lb ub l1 D ops stop_req time_up TP x_in y_in Σ errz_in bt_fuel
                  (oracle_const ([], n0)) (oracle_const nvec) s Ep) as [E _].
      rewrite E.
      pose proof (tpass_len2 (oracle_const nvec) s (oracle_const_len _ _ (repeat_length 0 n)) Hg) as Hp.
      destruct (tpass_ (oracle_const nvec) s) as [o|s'|]; try exact I.
      cbn [tod_dir tod_out tod_calls]. split; [|split; [exact Hp|exact Hcl]].
      destruct Hk as [[_ Hk]|Hk]; [exact Hk|right; exact Hk].
  Qed.

  Theorem reachableD_goodD sD : reachableD_ sD -> tgoodD sD.
  Proof.
    induction 1 as [i0 c0 i3 c1 s1 E0 Eq|sD sD' Hr IH Ep].
    - unfold tgoodD, first_stateD. cbn [tsd_st tsd_dir tsd_calls ts_curr ts_k].
      split; [|split; [left; split; [reflexivity|exact Hd0]|constructor]].
      exact (first_good psi_grad_full psi_yhat grad_psi lb ub l1 TP x_in bt_fuel n Hl1 Hlb Hub Hxin Hpg _ _ _ _ _ E0 Eq).
    - pose proof (passD_len sD IH) as Hp. rewrite Ep in Hp. exact (Logic.proj1 Hp).
  Qed.

  (* ---- every completed run ends in an exit pass from a reachable state *)
  Lemma tloopD_exit : forall fuel sD oD, reachableD_ sD -> tloopD_ fuel sD = TDoneD D oD -> exists sD', reachableD_ sD' /\ passD_ sD' = TExitD D oD.
  Proof.
    induction fuel as [|fuel IH]; intros sD oD Hr; cbn [tloopD]; [discriminate|].
    destruct (passD_ sD) as [o'|sD'| |] eqn:Ep.
    - intros E. inversion E; subst. exists sD. split; assumption.
    - apply IH. eapply reachD_step; eassumption.
    - discriminate.
    - discriminate.
  Qed.
  Theorem pantrD_exit_pass fuel oD : pantrD_ fuel = TDoneD D oD -> exists sD, reachableD_ sD /\ passD_ sD = TExitD D oD.
  Proof.
    unfold pantrD, Pantr.backtrack, Pantr.P. destruct (init_L psi_grad_full grad_psi P x_in) as [i0 c0] eqn:E0.
    destruct (negb (nfinite (iL i0))); [discriminate|].
    match goal with |- context [bt ?f ?i ?c ?st] => destruct (bt f i c st) as [[[i3 c1] s1]|] eqn:Eq end; [|discriminate].
    apply tloopD_exit. eapply reachD_init; [exact E0|exact Eq].
  Qed.

  (* the provider a completed run hands back is sane again *)
  Theorem pantrD_out_dir fuel oD : pantrD_ fuel = TDoneD D oD -> tsaneD (tod_dir D oD).
  Proof.
    intros Hr. destruct (pantrD_exit_pass fuel oD Hr) as (sD & Hreach & Hp).
    pose proof (passD_len sD (reachableD_goodD sD Hreach)) as H. rewrite Hp in H. exact (Logic.proj1 H).
  Qed.

  (* every apply call of a completed run returned an n-vector *)
  Theorem pantrD_calls_len fuel oD : pantrD_ fuel = TDoneD D oD -> Forall call_len (tod_calls D oD).
  Proof.
    intros Hr. destruct (pantrD_exit_pass fuel oD Hr) as (sD & Hreach & Hp).
    pose proof (passD_len sD (reachableD_goodD sD Hreach)) as H. rewrite Hp in H. exact (Logic.proj2 (Logic.proj2 H)).
  Qed.

  (* the iterate at the return statement of a completed run *)
  Theorem pantrD_final_good fuel oD : pantrD_ fuel = TDoneD D oD -> good (to_final (tod_out D oD)).
  Proof.
    intros Hr. destruct (pantrD_exit_pass fuel oD Hr) as (sD & Hreach & Hp).
    pose proof (reachableD_goodD sD Hreach) as Hg.
    pose proof (passD_len sD Hg) as H. rewrite Hp in H. destruct H as (_ & E & _). rewrite E. exact (Logic.proj1 Hg).
  Qed.

  (* ---- the primal buffer after any completed run has length n *)
  Theorem pantrD_out_x_length fuel oD : pantrD_ fuel = TDoneD D oD -> length (to_x (tod_out D oD)) = n.
  Proof.
    intros Hr. pose proof (pantrD_final_good fuel oD Hr) as Hg.
    pose proof (pantrD_refines psi_grad_full psi_yhat grad_L grad_psi lb ub l1 D ops stop_req time_up TP x_in y_in Σ errz_in bt_fuel d0 fuel oD Hr) as Eo.
    destruct (pantr_post psi_grad_full psi_yhat grad_L grad_psi lb ub l1 _ _ stop_req time_up TP x_in y_in Σ errz_in bt_fuel fuel _ Eo)
      as (cf & cnt & W). destruct W as [_ _ _ Hfin _ _ _ _ Hex _]. rewrite Hfin in Hg.
    unfold exit_block in Hex. destruct (overwrites (to_status (tod_out D oD)) (o_always P));
      pose proof (f_equal (fun t => fst (fst t)) Hex) as X1; cbn [fst snd] in X1; rewrite X1; [apply Hg|exact Hxin].
  Qed.

  (* ---- the inner contract with dimensions, for PANTR with the provider (PantrLen.pantr_inner_contract_len without its hypothesis on
     the direction oracle: the lengths come from the invariant above) *)
  Theorem pantrD_inner_contract_len fuel oD : pantrD_ fuel = TDoneD D oD ->
    let o := tod_out D oD in
    to_status o = StConverged -> p_crit P = ApproxKKT ->
    exists (x : list R) (γ : R),
      let grad := snd (psi_grad psi_grad_full x) in
      let step := proj_grad_step lb ub γ x grad in
      let gradh := grad_L (to_x o) (to_y o) in
      length x = n /\ length grad = n /\ length (to_x o) = n /\
      to_x o = fst (fst step) /\
      to_y o = snd (psi_yhat (to_x o)) /\
      to_errz o = match errz_in with [] => [] | _ => vdiv (vsub (to_y o) y_in) Σ end /\
      to_eps o = vnorminf (kkt_residual γ (snd (fst step)) grad gradh) /\
      to_eps o <= eff_tol (o_tol P) /\
      (0 < p_Lgamma P -> 0 < Linit -> 0 < γ).
  Proof.
    intros Hr o Hst Hcrit. pose proof (pantrD_final_good fuel oD Hr) as Hgood. pose proof (pantrD_out_x_length fuel oD Hr) as Lxo.
    pose proof (pantrD_refines psi_grad_full psi_yhat grad_L grad_psi lb ub l1 D ops stop_req time_up TP x_in y_in Σ errz_in bt_fuel d0 fuel oD Hr) as Eo.
    fold o in Hgood, Lxo, Eo.
    destruct (pantr_post psi_grad_full psi_yhat grad_L grad_psi lb ub l1 _ _ stop_req time_up TP x_in y_in Σ errz_in bt_fuel fuel o Eo)
      as (cf & cnt & W). destruct W as [Hc Hq Hg Hfin (gh & Hgh & He) Hstat _ _ Hex _]. rewrite Hfin in Hgood.
    destruct Hgood as ((Lx & Lg) & Lxh & Lp).
    unfold exit_block in Hex. rewrite Hst in Hex. cbn [overwrites] in Hex.
    pose proof (f_equal (fun t => fst (fst t)) Hex) as O1. pose proof (f_equal (fun t => snd (fst t)) Hex) as O3.
    pose proof (f_equal snd Hex) as O5. cbn [fst snd] in O1, O3, O5.
    destruct (tconsistent_explicit psi_grad_full psi_yhat grad_L grad_psi lb ub l1 (oracle_of (tod_calls D oD)) hasinit stop_req time_up TP x_in y_in Σ errz_in bt_fuel cf Hc)
      as (Hx & E1 & E2 & E3 & E4 & E5).
    exists (ix cf), (igam cf). cbv zeta.
    assert (Eg : snd (psi_grad psi_grad_full (ix cf)) = igrad cf) by (rewrite <- Hx; reflexivity). rewrite Eg.
    rewrite Hl1 in E2. cbn [eval_prox_grad_step] in E2. rewrite E2. cbn [fst snd].
    split; [exact Lx|]. split; [exact Lg|]. split; [exact Lxo|].
    split; [exact O1|]. split; [rewrite O3, O1, <- E5; reflexivity|]. split; [rewrite O5, O3; reflexivity|]. split.
    { rewrite He, Hcrit. cbn [crit_eps]. rewrite (Hgh ltac:(rewrite Hcrit; reflexivity)), O1, O3. reflexivity. }
    split.
    { destruct (pantr_status_clauses psi_grad_full psi_yhat grad_L grad_psi lb ub l1 _ _ stop_req time_up TP x_in y_in Σ errz_in bt_fuel fuel o Eo)
        as (_ & _ & _ & _ & Hcv & _). apply Hcv. exact Hst. }
    intros; now apply (glrel0_pos psi_grad_full psi_yhat grad_L grad_psi lb ub l1 (fun _ _ => None) hasinit stop_req time_up P x_in y_in Σ errz_in bt_fuel).
  Qed.
End DirLenT.
