(* Corr_C07.v — correspondence cases for C07: Alm.alm_run at binary64 on the same configuration and inner-solver
   script as the real ALMSolver<ScriptedInner> (drv_C07); the whole trace of inner-solver arguments and the final
   statistics must agree. *)
From Coq Require Import Floats List ZArith Bool Arith.
From Alpaqa Require Import Num NumF Vec Prox Alm.
Import ListNotations.

Definition status_of_nat (n : nat) : status :=
  match n with
  | 0 => Busy | 1 => Converged | 2 => MaxTime | 3 => MaxIter | 4 => NotFinite | 5 => NoProgress | 6 => Interrupted
  | _ => Exception
  end%nat.
Definition nat_of_status (s : status) : nat :=
  match s with
  | Busy => 0 | Converged => 1 | MaxTime => 2 | MaxIter => 3 | NotFinite => 4 | NoProgress => 5 | Interrupted => 6
  | Exception => 7
  end%nat.

(* script item: status code, ε, err written?, y written?, iterations, out-of-time flag observed by the driver,
   "ALMSolver::stop() had been called by the time this inner solve returned" (the scripted solver calls it from inside a solve) *)
Definition sitem := (nat * float * option (list float) * option (list float) * nat * bool * bool)%type.
Definition res_of (it : sitem) : inner_res (T:=float) :=
  let '(s, e, er, y, k, oot, stp) := it in
  {| ir_status := status_of_nat s; ir_eps := e; ir_err := er; ir_y := y; ir_iters := k; ir_oot := oot; ir_stop := stp |}.

(* one logged inner-solver call: y, Σ, opts.tolerance, err_z on entry, opts.outer_iter *)
Definition callrec := (list float * list float * float * list float * nat)%type.

Inductive c07case :=
| CAlm (par : list float)       (* tolerance dual_tolerance Δ initial_penalty initial_penalty_factor initial_tolerance
                                   tolerance_update_factor θ max_multiplier max_penalty min_penalty *)
       (max_iter : nat) (single : bool)
       (split : nat) (lb ub : list float) (f0 : float) (g0 : list float)
       (Σ0 : option (list float)) (y0 : list float) (script : list sitem)
       (* what the implementation did *)
       (calls : list callrec) (stat outer fails : nat) (eps delta normpen : float)
       (Σout yout : list float) (acc_iters : nat).

Definition params_of (par : list float) (max_iter : nat) (single : bool) : alm_params (T:=float) :=
  let g k := nth k par nan in
  {| p_tol := g 0%nat; p_dual_tol := g 1%nat; p_Delta := g 2%nat; p_init_pen := g 3%nat; p_init_pen_factor := g 4%nat;
     p_init_tol := g 5%nat; p_rho := g 6%nat; p_theta := g 7%nat; p_M := g 8%nat; p_max_pen := g 9%nat;
     p_min_pen := g 10%nat; p_max_iter := max_iter; p_single := single |}.

Definition run07 (c : c07case) : list (iter_rec (T:=float)) * final (T:=float) :=
  match c with
  | CAlm par max_iter single split lb ub f0 g0 Σ0 y0 script _ _ _ _ _ _ _ _ _ _ =>
      alm_run (params_of par max_iter single)
              {| pb_split := split; pb_lb := map lb_of_float lb; pb_ub := map ub_of_float ub |}
              f0 g0 nan Σ0 y0 (map res_of script)
  end.

Definition call_of (r : iter_rec (T:=float)) : callrec :=
  (it_y r, it_Sigma r, it_tol r, it_err_in r, it_i r).

(* printable summary of the model run (used to dump the first disagreeing case) *)
Definition model07 (c : c07case) :=
  let '(tr, f) := run07 c in
  (map call_of tr, (nat_of_status (f_status f), f_outer f, f_fails f), (f_eps f, f_delta f, f_norm_pen f),
   (f_Sigma f, f_y f, f_iters f, f_exhausted f)).

Definition call_agree (a b : callrec) : bool :=
  let '(y1, s1, t1, e1, i1) := a in
  let '(y2, s2, t2, e2, i2) := b in
  vfeq y1 y2 && vfeq s1 s2 && feq t1 t2 && vfeq e1 e2 && Nat.eqb i1 i2.

Definition odflt (o : option float) : float := match o with Some x => x | None => infinity end.

Definition chk07 (c : c07case) : bool :=
  let '(tr, f) := run07 c in
  match c with
  | CAlm _ _ _ _ _ _ _ _ Σ0 _ _ calls stat outer fails eps delta normpen Σout yout acc_iters =>
      negb (f_exhausted f) &&
      list_agree call_agree (map call_of tr) calls &&
      Nat.eqb (nat_of_status (f_status f)) stat && Nat.eqb (f_outer f) outer && Nat.eqb (f_fails f) fails &&
      feq (odflt (f_eps f)) eps && feq (odflt (f_delta f)) delta && feq (f_norm_pen f) normpen &&
      match Σ0, f_Sigma f with
      | Some _, Some s => vfeq s Σout            (* written back *)
      | Some s0, None => vfexact s0 Σout         (* left untouched *)
      | None, _ => true
      end &&
      vfeq (f_y f) yout && Nat.eqb (f_iters f) acc_iters
  end.

(* Lenient variant, used only on cases where chk07 disagrees: the content of the err_z buffer on entry (it_err_in) is
   not compared (the caller passes `Some observed_buffer` for solves that left err_z untouched), so a change that only
   affects the bookkeeping of the two error buffers — invisible to an inner solver that always writes err_z — is told
   apart from a change of the trace the property talks about. *)
Definition call_agree_l (a b : callrec) : bool :=
  let '(y1, s1, t1, _, i1) := a in
  let '(y2, s2, t2, _, i2) := b in
  vfeq y1 y2 && vfeq s1 s2 && feq t1 t2 && Nat.eqb i1 i2.

Definition chk07l (c : c07case) : bool :=
  let '(tr, f) := run07 c in
  match c with
  | CAlm _ _ _ _ _ _ _ _ Σ0 _ _ calls stat outer fails eps delta normpen Σout yout acc_iters =>
      negb (f_exhausted f) &&
      list_agree call_agree_l (map call_of tr) calls &&
      Nat.eqb (nat_of_status (f_status f)) stat && Nat.eqb (f_outer f) outer && Nat.eqb (f_fails f) fails &&
      feq (odflt (f_eps f)) eps && feq (odflt (f_delta f)) delta && feq (f_norm_pen f) normpen &&
      match Σ0, f_Sigma f with
      | Some _, Some s => vfeq s Σout
      | Some s0, None => vfexact s0 Σout
      | None, _ => true
      end &&
      vfeq (f_y f) yout && Nat.eqb (f_iters f) acc_iters
  end.
