(* OcpGenEq.v — tie 1 for C12 (translator G13): every piece that translate/gen_ocp.py regenerates from ocp-vars.hpp / lqr.hpp on
   every run (coq/gen/OcpGen.v) EQUALS the corresponding piece of the hand model Ocp.v — the one all theorems of OcpProofs.v /
   OcpMinProofs.v / Properties_C12.v are about.  A change of the source changes OcpGen.v and breaks the lemma named after the
   generated definition here (`g_<name>_eq`), which is a proof obligation of Properties_C12.v.
     1. storage layout:  every OCPVariables getter / accessor offset = the offsets of Ocp.v  (nat, all dimensions)
     2. forward:   the per-stage body on a flat storage laid out [.. x u h c x' ..] = Ocp.stage_fwd written into the h, c, x' slots with the
                   cost added to V; the loop; the function = Ocp.forward (storage and cost)       [over R: `V += l; V += ½d²` vs V + (l + ½d²)]
     3. backward:  the per-stage body (adjoint recursion through the qr buffer, ALM term) = one step of Ocp.adjoint on Ocp.lin_of; the function
                   = Ocp.backward, for problem functions that are the transposed-Jacobian products the model is stated with
     4. factor_masked / solve_masked: the per-stage bodies = Ocp.factor_step / the step of Ocp.solve_from, for callables that add the
                   masked blocks of the stage data; the functions = Ocp.factor_masked / Ocp.solve_masked
   The generated code reads a buffer after it wrote it (`put` then `seg`), so the lemmas carry the lengths of the buffers. *)
From Coq Require Import Reals List ZArith Lra Lia Bool Arith.
From Alpaqa Require Import Num NumR Vec Ocp OcpProofs OcpMinProofs OcpGenLib OcpGen.
Import ListNotations.

(* ================================================================== 0. buffers: seg / put on concatenations of blocks *)
Fixpoint sumlen {A} (bs : list (list A)) : nat := match bs with [] => 0 | b :: bs' => length b + sumlen bs' end.

Lemma seg_app_skip {A} (a b : list A) off n : seg (length a + off) n (a ++ b) = seg off n b.
Proof. unfold seg. rewrite skipn_app. rewrite skipn_all2 by lia. replace (length a + off - length a) with off by lia. reflexivity. Qed.

Lemma seg_0_app {A} (a b : list A) : seg 0 (length a) (a ++ b) = a.
Proof. unfold seg. cbn [skipn]. rewrite firstn_app. replace (length a - length a) with 0 by lia. cbn. rewrite firstn_all. apply app_nil_r. Qed.

Lemma put_app_skip {A} (a b v : list A) off : put (length a + off) v (a ++ b) = a ++ put off v b.
Proof.
  unfold put. rewrite firstn_app, skipn_app. rewrite firstn_all2 by lia. rewrite skipn_all2 by lia.
  replace (length a + off - length a) with off by lia. replace (length a + off + length v - length a) with (off + length v) by lia.
  cbn. rewrite <- app_assoc. reflexivity.
Qed.

Lemma put_0_app {A} (a b v : list A) : length v = length a -> put 0 v (a ++ b) = v ++ b.
Proof. intros E. unfold put. cbn [firstn Nat.add app]. rewrite E, skipn_app, skipn_all. replace (length a - length a) with 0 by lia. reflexivity. Qed.

Lemma seg_blocks {A} (k : nat) : forall (bs : list (list A)) off n, k < length bs -> off = sumlen (firstn k bs) -> n = length (nth k bs []) ->
  seg off n (concat bs) = nth k bs [].
Proof.
  induction k as [|k IH]; intros [|b bs] off n Hk Ho Hn; cbn in *; try lia; subst.
  - apply seg_0_app.
  - rewrite seg_app_skip. apply IH; auto; lia.
Qed.

Lemma put_blocks {A} (k : nat) : forall (bs : list (list A)) off v, k < length bs -> off = sumlen (firstn k bs) -> length v = length (nth k bs []) ->
  put off v (concat bs) = concat (lupd k v bs).
Proof.
  induction k as [|k IH]; intros [|b bs] off v Hk Ho Hn; cbn in *; try lia; subst.
  - apply put_0_app; assumption.
  - rewrite put_app_skip. f_equal. apply IH; auto; lia.
Qed.

Lemma put_length {A} off (v buf : list A) : off + length v <= length buf -> length (put off v buf) = length buf.
Proof. intros. unfold put. rewrite !app_length, firstn_length, skipn_length. lia. Qed.

Lemma seg_put_same {A} off (v buf : list A) n : off <= length buf -> n = length v -> seg off n (put off v buf) = v.
Proof.
  intros Ho ->. unfold put.
  replace off with (length (firstn off buf) + 0) at 1 by (rewrite firstn_length; lia).
  rewrite seg_app_skip. apply seg_0_app.
Qed.

Lemma seg_length {A} off n (buf : list A) : off + n <= length buf -> length (seg off n buf) = n.
Proof. intros. unfold seg. rewrite firstn_length, skipn_length. lia. Qed.

Lemma split_len {A} (v : list A) a b : length v = a + b -> exists v1 v2, v = v1 ++ v2 /\ length v1 = a /\ length v2 = b.
Proof. intros E. exists (firstn a v), (skipn a v). rewrite firstn_skipn, firstn_length, skipn_length. repeat split; lia. Qed.

Lemma nth_lupd_same {A} (l : list A) i x dflt : i < length l -> nth i (lupd i x l) dflt = x.
Proof. revert i. induction l; intros [|i] Hi; cbn in *; try lia; auto. apply IHl. lia. Qed.
Lemma nth_lupd_other {A} (l : list A) i j x dflt : i <> j -> nth i (lupd j x l) dflt = nth i l dflt.
Proof. revert i j. induction l; intros [|i] [|j] Hi; cbn in *; try lia; auto. Qed.
Lemma lupd_length {A} (l : list A) i x : length (lupd i x l) = length l.
Proof. revert i. induction l; intros [|i]; cbn; auto. Qed.
Lemma lupd_lupd {A} (l : list A) i x y : lupd i x (lupd i y l) = lupd i x l.
Proof. revert i. induction l; intros [|i]; cbn; auto. f_equal. apply IHl. Qed.

Ltac blk := repeat match goal with b := _ : list (list R) |- _ => progress unfold b end; cbn [length nth firstn sumlen app]; lia.
Ltac unblk := repeat match goal with b := _ : list (list R) |- _ => subst b end.
Ltac rd k B := match goal with |- context [seg ?off ?n (concat B)] => rewrite (seg_blocks k B off n) by blk end.
Ltac wr k B := match goal with |- context [put ?off ?v (concat B)] => rewrite (put_blocks k B off v) by blk end.

(* ================================================================== 1. storage layout *)
Section Layout.
  Context {T : Type} {HN : Num T}.
  Variable F : ocp_fns T.
  Variable L : lqr_fns T.
  Variable lsolve : list (list T) -> list T -> list T.
  Variable d : dims.
  Notation G f := (f T HN F L lsolve d) (only parsing).

  Ltac lay := intros; cbv [g_sizes g_sizes_N g_indices g_indices_N g_vars_N g_size g_size_N g_nx g_nu g_nxu g_nh g_nc g_nx_N g_nh_N g_nc_N
                              g_create_len g_create_qr_len g_xk_off g_xk_len g_xuk_off g_xuk_len g_uk_off g_uk_len g_hk_off g_hk_len
                              g_ck_off g_ck_len g_qk_off g_qk_len g_rk_off g_rk_len g_qrk_off g_qrk_len g_create_AB_rows g_create_AB_cols
                              g_ABk_off g_ABk_len g_Ak_off g_Ak_len g_Bk_off g_Bk_len g_N psum psum_from last nth
                              off_x off_u off_h off_c off_q off_r len_h len_c len_qr total_len stride];
                    destruct d; cbn [dN dnx dnu dnh dnc dnhN dncN];
                    repeat match goal with |- context [Nat.ltb ?a ?b] => destruct (Nat.ltb a b) end; lia.

  Lemma g_N_eq : G (@g_N) = dN d. Proof. reflexivity. Qed.
  Lemma g_nx_eq : G (@g_nx) = dnx d. Proof. lay. Qed.
  Lemma g_nu_eq : G (@g_nu) = dnu d. Proof. lay. Qed.
  Lemma g_nxu_eq : G (@g_nxu) = dnx d + dnu d. Proof. lay. Qed.
  Lemma g_nh_eq : G (@g_nh) = dnh d. Proof. lay. Qed.
  Lemma g_nc_eq : G (@g_nc) = dnc d. Proof. lay. Qed.
  Lemma g_nx_N_eq : G (@g_nx_N) = dnx d. Proof. lay. Qed.
  Lemma g_nh_N_eq : G (@g_nh_N) = dnhN d. Proof. lay. Qed.
  Lemma g_nc_N_eq : G (@g_nc_N) = dncN d. Proof. lay. Qed.
  Lemma g_create_len_eq : G (@g_create_len) = total_len d. Proof. lay. Qed.
  Lemma g_create_qr_len_eq : G (@g_create_qr_len) = len_qr d. Proof. lay. Qed.
  Lemma g_xk_off_eq t : G (@g_xk_off) t = off_x d t. Proof. lay. Qed.
  Lemma g_xk_len_eq t : G (@g_xk_len) t = dnx d. Proof. lay. Qed.
  Lemma g_xuk_off_eq t : G (@g_xuk_off) t = off_x d t. Proof. lay. Qed.
  Lemma g_xuk_len_eq t : G (@g_xuk_len) t = dnx d + dnu d. Proof. lay. Qed.
  Lemma g_uk_off_eq t : G (@g_uk_off) t = off_u d t. Proof. lay. Qed.
  Lemma g_uk_len_eq t : G (@g_uk_len) t = dnu d. Proof. lay. Qed.
  Lemma g_hk_off_eq t : G (@g_hk_off) t = off_h d t. Proof. lay. Qed.
  Lemma g_hk_len_eq t : G (@g_hk_len) t = len_h d t. Proof. lay. Qed.
  Lemma g_ck_off_eq t : G (@g_ck_off) t = off_c d t. Proof. lay. Qed.
  Lemma g_ck_len_eq t : G (@g_ck_len) t = len_c d t. Proof. lay. Qed.
  Lemma g_qk_off_eq t : G (@g_qk_off) t = off_q d t. Proof. lay. Qed.
  Lemma g_qk_len_eq t : G (@g_qk_len) t = dnx d. Proof. lay. Qed.
  Lemma g_rk_off_eq t : G (@g_rk_off) t = off_r d t. Proof. lay. Qed.
  Lemma g_rk_len_eq t : G (@g_rk_len) t = dnu d. Proof. lay. Qed.
  Lemma g_qrk_off_eq t : G (@g_qrk_off) t = off_q d t. Proof. lay. Qed.
  Lemma g_qrk_len_eq t : G (@g_qrk_len) t = dnx d + dnu d. Proof. lay. Qed.
  (* Jacobian storage: nx x ((nx+nu) N), stage t = columns [t (nx+nu), +nx) for A and [t (nx+nu) + nx, +nu) for B *)
  Lemma g_create_AB_eq : G (@g_create_AB_rows) = dnx d /\ G (@g_create_AB_cols) = (dnx d + dnu d) * dN d. Proof. split; lay. Qed.
  Lemma g_ABk_eq t : G (@g_ABk_off) t = t * (dnx d + dnu d) /\ G (@g_ABk_len) t = dnx d + dnu d. Proof. split; lay. Qed.
  Lemma g_Ak_eq t : G (@g_Ak_off) t = t * (dnx d + dnu d) /\ G (@g_Ak_len) t = dnx d. Proof. split; lay. Qed.
  Lemma g_Bk_eq t : G (@g_Bk_off) t = t * (dnx d + dnu d) + dnx d /\ G (@g_Bk_len) t = dnu d. Proof. split; lay. Qed.
End Layout.

(* ================================================================== 1b. the iteration ORDER of the four stage loops *)
Section Orders.
  Context {T : Type} {HN : Num T}.
  Variable F : ocp_fns T.
  Variable L : lqr_fns T.
  Variable lsolve : list (list T) -> list T -> list T.
  Variable d : dims.
  (* forward: t = 0 .. N-1;  backward: t = N-1 .. 0;  factor_masked: i = N-1 .. 0;  solve_masked: i = 0 .. N-1 *)
  Lemma g_forward_for1_order_eq n : g_forward_for1_order F L lsolve d n = seq 0 n. Proof. reflexivity. Qed.
  Lemma g_backward_for1_order_eq n : g_backward_for1_order F L lsolve d n = rev (seq 0 n). Proof. reflexivity. Qed.
  Lemma g_factor_masked_for1_order_eq n : g_factor_masked_for1_order F L lsolve d n = rev (seq 0 n). Proof. reflexivity. Qed.
  Lemma g_solve_masked_for1_order_eq n : g_solve_masked_for1_order F L lsolve d n = seq 0 n. Proof. reflexivity. Qed.
End Orders.

(* ================================================================== 2. forward *)
Lemma zeta_eq {T} `{Num T} (c y μ : list T) : vadd c (vdiv y μ) = zeta c y μ.
Proof.
  revert y μ. induction c as [|ci c IH]; intros y μ; destruct y as [|yi y], μ as [|mi μ]; cbn; try reflexivity.
  f_equal. apply IH.
Qed.

Section ForwardEq.
  Variable F : ocp_fns R.
  Variable L : lqr_fns R.
  Variable lsolve : list (list R) -> list R -> list R.
  Variable d : dims.
  Variables Dlb Dub DNlb DNub : list (option R).
  Variables y μ : list R.
  Notation f := (pf_eval_f F). Notation h := (pf_eval_h F). Notation hN := (pf_eval_h_N F). Notation l := (pf_eval_l F).
  Notation lN := (pf_eval_l_N F). Notation c := (pf_eval_constr F). Notation cN := (pf_eval_constr_N F).

  (* the problem functions return vectors of the declared sizes (only where the code calls them) *)
  Definition wf_fwd : Prop :=
    (forall t x u, length (f t x u) = dnx d) /\ (0 < dnh d -> forall t x u, length (h t x u) = dnh d) /\
    (0 < dnhN d -> forall x, length (hN x) = dnhN d) /\ (0 < dnc d -> forall t x, length (c t x) = dnc d) /\
    (0 < dncN d -> forall x, length (cN x) = dncN d).
  Hypothesis Hwf : wf_fwd.

  Ltac layout_rw := rewrite ?g_xk_off_eq, ?g_xk_len_eq, ?g_xuk_off_eq, ?g_xuk_len_eq, ?g_uk_off_eq, ?g_uk_len_eq, ?g_hk_off_eq, ?g_hk_len_eq,
                            ?g_ck_off_eq, ?g_ck_len_eq, ?g_nh_eq, ?g_nc_eq, ?g_nh_N_eq, ?g_nc_N_eq, ?g_N_eq, ?g_nx_eq, ?g_nu_eq.
  Ltac offs := unfold off_x, off_u, off_h, off_c, len_h, len_c, stride in *.

  (* the body of the stage loop of OCPEvaluator::forward on a storage [pre | x u h c | x' | post] *)
  Lemma g_forward_for1_step_eq t pre x u ho co xo post V :
    t < dN d -> length pre = off_x d t -> length x = dnx d -> length u = dnu d -> length ho = dnh d -> length co = dnc d -> length xo = dnx d ->
    g_forward_for1_step F L lsolve d Dlb Dub μ y (dnc d) (pre ++ x ++ u ++ ho ++ co ++ xo ++ post) V t
    = (let '(blk, v, xn) := stage_fwd f h l c d Dlb Dub t x u (seg (t * dnc d) (dnc d) y) (seg (t * dnc d) (dnc d) μ) in
       (pre ++ blk ++ xn ++ post, (V + v)%num)).
  Proof.
    intros Ht Lp Lx Lu Lh Lc Lxo. destruct Hwf as (Wf & Wh & _ & Wc & _).
    assert (Htb : (t <? dN d) = true) by (apply Nat.ltb_lt; exact Ht).
    unfold g_forward_for1_step, stage_fwd. layout_rw. offs. rewrite Htb in *.
    set (B0 := [pre; x; u; ho; co; xo; post]).
    assert (E0 : pre ++ x ++ u ++ ho ++ co ++ xo ++ post = concat B0) by (cbn; rewrite app_nil_r; reflexivity).
    assert (Lxn : length (f t x u) = dnx d) by apply Wf.
    destruct (Nat.ltb_spec 0 (dnh d)) as [Hh|Hh].
    - (* nh > 0 *)
      assert (Lhk : length (h t x u) = dnh d) by (apply Wh; lia).
      rewrite E0.
      rd 1 B0; rd 2 B0. cbn [nth B0].
      wr 3 B0. cbn [lupd B0].
      set (B1 := [pre; x; u; h t x u; co; xo; post]).
      rd 3 B1. cbn [nth B1].
      destruct (Nat.ltb_spec 0 (dnc d)) as [Hc|Hc].
      + assert (Lck : length (c t x) = dnc d) by (apply Wc; lia).
        rd 1 B1. cbn [nth B1].
        wr 4 B1. cbn [lupd B1].
        set (B2 := [pre; x; u; h t x u; c t x; xo; post]).
        rd 4 B2. cbn [nth B2].
        rd 1 B2; rd 2 B2. cbn [nth B2].
        wr 5 B2. cbn [lupd B2].
        rewrite zeta_eq. unfold penalty. cbn [concat]. rewrite app_nil_r, <- !app_assoc.
        f_equal. numR. unfold nhalf. numR. ring.
      + assert (dnc d = 0) by lia.
        rd 1 B1; rd 2 B1. cbn [nth B1].
        wr 5 B1. cbn [lupd B1].
        destruct co; [|cbn in Lc; lia]. cbn [concat]. rewrite app_nil_r, <- !app_assoc. reflexivity.
    - (* nh = 0: the cost is evaluated on [x u] *)
      assert (dnh d = 0) by lia. destruct ho; [|cbn in Lh; lia].
      assert (Exu : concat B0 = concat [pre; x ++ u; co; xo; post]) by (cbn; rewrite <- !app_assoc; reflexivity).
      rewrite E0.
      match goal with |- context [seg ?off (dnx d + dnu d) (concat B0)] =>
        replace (seg off (dnx d + dnu d) (concat B0)) with (x ++ u)
          by (rewrite Exu; symmetry; apply (seg_blocks 1); cbn [length nth firstn sumlen app]; rewrite ?app_length; lia) end.
      destruct (Nat.ltb_spec 0 (dnc d)) as [Hc|Hc].
      + assert (Lck : length (c t x) = dnc d) by (apply Wc; lia).
        rd 1 B0. cbn [nth B0].
        wr 4 B0. cbn [lupd B0].
        set (B2 := [pre; x; u; []; c t x; xo; post]).
        rd 4 B2. cbn [nth B2].
        rd 1 B2; rd 2 B2. cbn [nth B2].
        wr 5 B2. cbn [lupd B2].
        rewrite zeta_eq. unfold penalty. cbn [concat]. rewrite app_nil_r, <- !app_assoc.
        f_equal. numR. unfold nhalf. numR. ring.
      + assert (dnc d = 0) by lia.
        rd 1 B0; rd 2 B0. cbn [nth B0].
        wr 5 B0. cbn [lupd B0].
        destruct co; [|cbn in Lc; lia]. cbn [concat]. rewrite app_nil_r, <- !app_assoc. reflexivity.
  Qed.

  (* ---- the loop: model side, the stage blocks and the state after the last stage *)
  Fixpoint stages_from (t : nat) (x : list R) (us : list (list R)) (V : R) : list R * list R * R :=
    match us with
    | [] => ([], x, V)
    | u :: us' =>
        let '(blk, v, xn) := stage_fwd f h l c d Dlb Dub t x u (seg (t * dnc d) (dnc d) y) (seg (t * dnc d) (dnc d) μ) in
        let '(rest, xN, V') := stages_from (S t) xn us' (V + v)%num in
        (blk ++ rest, xN, V')
    end.

  Lemma forward_from_split : forall us t x V,
    forward_from f h hN l lN c cN d Dlb Dub DNlb DNub t x us y μ V =
    (let '(blks, xN, V') := stages_from t x us V in
     let '(blkN, v) := term_fwd hN lN cN d DNlb DNub xN (seg (dN d * dnc d) (dncN d) y) (seg (dN d * dnc d) (dncN d) μ) in
     (blks ++ blkN, (V' + v)%num)).
  Proof.
    induction us as [|u us IH]; intros t x V; cbn [forward_from stages_from].
    - destruct (term_fwd _ _ _ _ _ _ _ _ _) as [blkN v]. reflexivity.
    - destruct (stage_fwd _ _ _ _ _ _ _ _ _ _ _ _) as [[blk v] xn]. rewrite IH.
      destruct (stages_from (S t) xn us (V + v)%num) as [[rest xN] V'].
      destruct (term_fwd _ _ _ _ _ _ _ _ _) as [blkN vN]. rewrite <- app_assoc. reflexivity.
  Qed.

  (* storage behind x_t: per remaining stage [u | h-slot | c-slot | x-slot], then the terminal [h_N-slot | c_N-slot] *)
  Fixpoint fshape (us : list (list R)) (tail : list R) : Prop :=
    match us with
    | [] => length tail = dnhN d + dncN d
    | u :: us' => exists ho co xo tail', tail = u ++ ho ++ co ++ xo ++ tail' /\ length u = dnu d /\ length ho = dnh d /\ length co = dnc d /\ length xo = dnx d /\ fshape us' tail'
    end.

  Lemma stage_fwd_lengths t x u yt μt : length x = dnx d -> length u = dnu d ->
    length (fst (fst (stage_fwd f h l c d Dlb Dub t x u yt μt))) = stride d /\ length (snd (stage_fwd f h l c d Dlb Dub t x u yt μt)) = dnx d.
  Proof.
    intros Lx Lu. destruct Hwf as (Wf & Wh & _ & Wc & _). unfold stage_fwd, stride. cbn [fst snd]. rewrite !app_length, Wf. split; [|reflexivity].
    destruct (Nat.ltb_spec 0 (dnh d)); destruct (Nat.ltb_spec 0 (dnc d)); rewrite ?Wh, ?Wc by lia; cbn [length]; lia.
  Qed.

  Lemma g_forward_loop_eq : forall us t pre x tail V,
    t + length us = dN d -> length pre = off_x d t -> length x = dnx d -> fshape us tail ->
    exists tailN, length tailN = dnhN d + dncN d /\
      fold_left (fun '(s_storage_in, s_V_in) i_t => g_forward_for1_step F L lsolve d Dlb Dub μ y (dnc d) s_storage_in s_V_in i_t)
                (seq t (length us)) (pre ++ x ++ tail, V)
      = (let '(blks, xN, V') := stages_from t x us V in (pre ++ blks ++ xN ++ tailN, V')).
  Proof.
    induction us as [|u us IH]; intros t pre x tail V Ht Lp Lx Hs.
    - exists tail. split; [exact Hs|]. reflexivity.
    - destruct Hs as (ho & co & xo & tail' & -> & Lu & Lh & Lc & Lxo & Hs').
      cbn [length seq fold_left stages_from]. cbn [length] in Ht.
      rewrite g_forward_for1_step_eq by (auto; lia).
      pose proof (stage_fwd_lengths t x u (seg (t * dnc d) (dnc d) y) (seg (t * dnc d) (dnc d) μ) Lx Lu) as [Lb Ln].
      destruct (stage_fwd _ _ _ _ _ _ _ _ _ _ _ _) as [[blk v] xn]. cbn [fst snd] in Lb, Ln.
      destruct (IH (S t) (pre ++ blk) xn tail' (V + v)%num) as (tailN & LN & E); auto; try lia.
      { rewrite app_length, Lp, Lb. unfold off_x. lia. }
      exists tailN. split; [exact LN|].
      rewrite <- app_assoc in E. rewrite E.
      destruct (stages_from (S t) xn us (V + v)%num) as [[rest xN] V']. rewrite <- !app_assoc. reflexivity.
  Qed.

  Lemma stages_from_xN_length : forall us t x V, length x = dnx d -> Forall (fun u => length u = dnu d) us ->
    length (snd (fst (stages_from t x us V))) = dnx d /\ length (fst (fst (stages_from t x us V))) = length us * stride d.
  Proof.
    induction us as [|u us IH]; intros t x V Lx Hu; cbn [stages_from]; [cbn; auto|].
    pose proof (stage_fwd_lengths t x u (seg (t * dnc d) (dnc d) y) (seg (t * dnc d) (dnc d) μ) Lx (Forall_inv Hu)) as [Lb Ln].
    destruct (stage_fwd _ _ _ _ _ _ _ _ _ _ _ _) as [[blk v] xn]. cbn [fst snd] in Lb, Ln.
    destruct (IH (S t) xn (V + v)%num Ln (Forall_inv_tail Hu)) as [I1 I2].
    destruct (stages_from (S t) xn us (V + v)%num) as [[rest xN] V']. cbn [fst snd length] in *. rewrite app_length. split; [exact I1|lia].
  Qed.

  Lemma fshape_us : forall us tail, fshape us tail -> Forall (fun u => length u = dnu d) us.
  Proof. induction us as [|u us IH]; intros tail Hs; [constructor|]. destruct Hs as (?&?&?&?&?&?&?&?&?&?). constructor; eauto. Qed.

  (* ---- the function: storage [x0 | tail] with the inputs in their slots; the other slots hold anything *)
  Theorem g_forward_eq x0 us tail :
    length us = dN d -> length x0 = dnx d -> fshape us tail ->
    g_forward F L lsolve d (x0 ++ tail) Dlb Dub DNlb DNub μ y
    = (snd (forward f h hN l lN c cN d Dlb Dub DNlb DNub x0 us y μ), fst (forward f h hN l lN c cN d Dlb Dub DNlb DNub x0 us y μ)).
  Proof.
    intros LN Lx0 Hs. pose proof Hwf as (Wf & Wh & WhN & Wc & WcN).
    unfold g_forward, forward. cbv zeta. layout_rw. rewrite g_forward_for1_order_eq. rewrite <- LN at 1.
    destruct (g_forward_loop_eq us 0 [] x0 tail n0) as (tailN & LtN & E); [cbn; lia | reflexivity | exact Lx0 | exact Hs |].
    cbn [app] in E. rewrite E. rewrite forward_from_split.
    destruct (stages_from_xN_length us 0 x0 n0 Lx0 (fshape_us _ _ Hs)) as [LxN Lblk].
    destruct (stages_from 0 x0 us n0) as [[blks xN] V']. cbn [fst snd] in LxN, Lblk.
    rewrite <- (firstn_skipn (dnhN d) tailN).
    set (hNo := firstn (dnhN d) tailN). set (cNo := skipn (dnhN d) tailN).
    assert (LhNo : length hNo = dnhN d) by (unfold hNo; rewrite firstn_length; lia).
    assert (LcNo : length cNo = dncN d) by (unfold cNo; rewrite skipn_length; lia).
    unfold term_fwd. offs. rewrite Nat.ltb_irrefl. rewrite LN in Lblk.
    set (B0 := [blks; xN; hNo; cNo]).
    assert (E0 : blks ++ xN ++ hNo ++ cNo = concat B0) by (cbn; rewrite app_nil_r; reflexivity).
    rewrite E0.
    destruct (Nat.ltb_spec 0 (dnhN d)) as [Hh|Hh].
    - assert (LhN : length (hN xN) = dnhN d) by (apply WhN; lia).
      rd 1 B0. cbn [nth B0]. wr 2 B0. cbn [lupd B0].
      set (B1 := [blks; xN; hN xN; cNo]). rd 2 B1. cbn [nth B1].
      destruct (Nat.ltb_spec 0 (dncN d)) as [Hc|Hc].
      + assert (LcN : length (cN xN) = dncN d) by (apply WcN; lia).
        rd 1 B1. cbn [nth B1]. wr 3 B1. cbn [lupd B1].
        set (B2 := [blks; xN; hN xN; cN xN]). rd 3 B2. cbn [nth B2].
        rewrite zeta_eq. unfold penalty. unblk. cbn [concat fst snd app]. rewrite ?app_nil_r.
        f_equal. numR. unfold nhalf. numR. ring.
      + destruct cNo; [|cbn in LcNo; lia]. unblk. cbn [concat fst snd app]. rewrite ?app_nil_r. reflexivity.
    - destruct hNo; [|cbn in LhNo; lia].
      rd 1 B0. cbn [nth B0].
      destruct (Nat.ltb_spec 0 (dncN d)) as [Hc|Hc].
      + assert (LcN : length (cN xN) = dncN d) by (apply WcN; lia).
        wr 3 B0. cbn [lupd B0].
        set (B2 := [blks; xN; []; cN xN]). rd 3 B2. cbn [nth B2].
        rewrite zeta_eq. unfold penalty. unblk. cbn [concat fst snd app]. rewrite ?app_nil_r.
        f_equal. numR. unfold nhalf. numR. ring.
      + destruct cNo; [|cbn in LcNo; lia]. unblk. cbn [concat fst snd app]. rewrite ?app_nil_r. reflexivity.
  Qed.
End ForwardEq.

(* ================================================================== 3. backward *)
Lemma map3_length {A B C D} (g : A -> B -> C -> D) n : forall a b c, length a = n -> length b = n -> length c = n -> length (map3 g a b c) = n.
Proof. induction n; intros [|? a] [|? b] [|? c] La Lb Lc; cbn in *; try lia; auto. Qed.
Lemma vmul_length_n n (a b : list R) : length a = n -> length b = n -> length (vmul a b) = n.
Proof. intros. unfold vmul. rewrite map2_length; lia. Qed.
Lemma pen_grad_length n lb ub (c y μ : list R) : length lb = n -> length ub = n -> length c = n -> length y = n -> length μ = n ->
  length (pen_grad lb ub c y μ) = n.
Proof. intros. unfold pen_grad, pdiff, zeta. apply vmul_length_n; auto. apply map3_length; auto. apply map3_length; auto. Qed.

Section BackwardEq.
  Variable F : ocp_fns R.
  Variable L : lqr_fns R.
  Variable lsolve : list (list R) -> list R -> list R.
  Variable d : dims.
  Variables Dlb Dub DNlb DNub : list (option R).
  Variables y μ storage : list R.
  (* the Jacobians the problem's product functions are the transposed products of (the chain rule is outside the model, as in Ocp.v) *)
  Variables Aof Bof Jcof : nat -> list (list R).
  Variable JcN : list (list R).
  Notation nx := (dnx d). Notation nu := (dnu d). Notation nc := (dnc d). Notation ncN := (dncN d). Notation N := (dN d).
  Notation xk t := (seg (off_x d t) nx storage).
  Notation uk t := (seg (off_u d t) nu storage).
  Notation xuk t := (seg (off_x d t) (nx + nu) storage).
  Notation hk t := (seg (off_h d t) (len_h d t) storage).
  Notation ck t := (seg (off_c d t) (len_c d t) storage).

  Definition stage_of (t : nat) : bw_stage R :=
    {| bA := Aof t; bB := Bof t; bqr := pf_eval_qr F t (xuk t) (hk t); bJc := Jcof t; bc := ck t;
       by_ := seg (t * nc) nc y; bμ := seg (t * nc) nc μ |}.

  Definition wf_bwd : Prop :=
    (forall t λ, t < N -> pf_eval_grad_f_prod F t (xk t) (uk t) λ = mtv nx (Aof t) λ ++ mtv nu (Bof t) λ) /\
    (forall t v, t < N -> pf_eval_grad_constr_prod F t (xk t) v = mtv nx (Jcof t) v) /\
    (forall v, pf_eval_grad_constr_prod_N F (xk N) v = mtv nx JcN v) /\
    (forall t, t < N -> Forall (fun r => length r = nx) (Aof t) /\ Forall (fun r => length r = nu) (Bof t) /\
                        wfm nc nx (Jcof t) /\ length (pf_eval_qr F t (xuk t) (hk t)) = nx + nu) /\
    wfm ncN nx JcN /\
    length Dlb = nc /\ length Dub = nc /\ length DNlb = ncN /\ length DNub = ncN /\
    length y = N * nc + ncN /\ length μ = N * nc + ncN /\ length storage = total_len d.
  Hypothesis Hwf : wf_bwd.

  Ltac layout_rw := rewrite ?g_xk_off_eq, ?g_xk_len_eq, ?g_xuk_off_eq, ?g_xuk_len_eq, ?g_uk_off_eq, ?g_uk_len_eq, ?g_hk_off_eq, ?g_hk_len_eq,
                            ?g_ck_off_eq, ?g_ck_len_eq, ?g_nh_eq, ?g_nc_eq, ?g_nh_N_eq, ?g_nc_N_eq, ?g_N_eq, ?g_nx_eq, ?g_nu_eq,
                            ?g_qrk_off_eq, ?g_qrk_len_eq, ?g_qk_off_eq, ?g_qk_len_eq.

  Lemma mtv_firstn n (M : list (list R)) : forall v, mtv n M (firstn (length M) v) = mtv n M v.
  Proof. induction M as [|r M IH]; intros [|vi v]; cbn; try reflexivity. rewrite IH. reflexivity. Qed.

  Lemma seg_le_length (buf : list R) off n : length (seg off n buf) <= n.
  Proof. unfold seg. rewrite firstn_length. lia. Qed.

  (* the ALM term of stage t: the value the code leaves in work_c (first nc rows) *)
  Definition vk (t : nat) : list R := pen_grad Dlb Dub (ck t) (seg (t * nc) nc y) (seg (t * nc) nc μ).

  Lemma vk_length t : t < N -> length (vk t) = nc.
  Proof.
    intros Ht. destruct Hwf as (_&_&_&_&_&LDl&LDu&_&_&Ly&Lm&Ls).
    assert (t * nc + nc <= N * nc) by nia.
    unfold vk. apply pen_grad_length; auto; try (apply seg_length; lia).
    unfold off_c, len_c. replace (t <? N) with true by (symmetry; apply Nat.ltb_lt; exact Ht).
    apply seg_length. rewrite Ls. unfold total_len, stride. assert (t * (nx + nu + dnh d + nc) + (nx + nu + dnh d + nc) <= N * (nx + nu + dnh d + nc)) by nia. lia.
  Qed.

  (* the body of the stage loop of OCPEvaluator::backward: buffers g = [gpre | g_t | gpost], qr = [qpre | q_t r_t | qpost] *)
  Lemma g_backward_for1_step_eq t gpre go gpost qpre qo qpost wx λ wc :
    t < N -> length gpre = t * nu -> length go = nu -> length qpre = off_q d t -> length qo = nx + nu ->
    g_backward_for1_step F L lsolve d storage Dlb Dub μ y nc nu nx (gpre ++ go ++ gpost) (qpre ++ qo ++ qpost) wx λ wc t
    = (let s := lin_of nx nc Dlb Dub (stage_of t) in
       (gpre ++ vadd (mtv nu (lB s) λ) (lr s) ++ gpost,
        qpre ++ (lq s ++ lr s) ++ qpost,
        (if 0 <? nc then mtv nx (Jcof t) (vk t) else wx),
        vadd (mtv nx (lA s) λ) (lq s),
        (if 0 <? nc then put 0 (vk t) wc else wc))).
  Proof.
    intros Ht Lgp Lgo Lqp Lqo. destruct Hwf as (Hgfp & Hgcp & _ & Hsh & _).
    destruct (Hsh t Ht) as (WA & WB & WJ & Lqr).
    unfold g_backward_for1_step. layout_rw. rewrite (Hgfp t λ Ht).
    set (a := mtv nx (Aof t) λ). set (b := mtv nu (Bof t) λ).
    assert (La : length a = nx) by (apply mtv_length; exact WA).
    assert (Lb : length b = nu) by (apply mtv_length; exact WB).
    set (qrv := pf_eval_qr F t (xuk t) (hk t)) in *.
    set (q0 := firstn nx qrv). set (r0 := skipn nx qrv).
    assert (Eqr : qrv = q0 ++ r0) by (symmetry; apply firstn_skipn).
    assert (Lq0 : length q0 = nx) by (unfold q0; rewrite firstn_length; lia).
    assert (Lr0 : length r0 = nu) by (unfold r0; rewrite skipn_length; lia).
    replace (nx + nu - nu) with nx by lia.
    set (G0 := [gpre; go; gpost]).
    assert (EG : gpre ++ go ++ gpost = concat G0) by (cbn; rewrite app_nil_r; reflexivity).
    set (Q0 := [qpre; qo; qpost]).
    assert (EQ : qpre ++ qo ++ qpost = concat Q0) by (cbn; rewrite app_nil_r; reflexivity).
    rewrite EG, EQ. unfold off_q in *.
    assert (Lab : length (a ++ b) = nx + nu) by (rewrite app_length; lia).
    wr 1 Q0. cbn [lupd Q0].
    assert (EQ1 : concat [qpre; a ++ b; qpost] = concat [qpre; a; b; qpost]) by (cbn; rewrite <- !app_assoc; reflexivity).
    rewrite EQ1. set (Q1 := [qpre; a; b; qpost]).
    rd 1 Q1. rd 2 Q1. cbn [nth Q1].
    wr 1 G0. cbn [lupd G0]. set (G1 := [gpre; b; gpost]).
    assert (EQ1' : concat Q1 = concat [qpre; a ++ b; qpost]) by (symmetry; exact EQ1).
    rewrite EQ1'. set (Q1' := [qpre; a ++ b; qpost]).
    wr 1 Q1'. cbn [lupd Q1'].
    assert (EQ2 : concat [qpre; qrv; qpost] = concat [qpre; q0; r0; qpost]) by (rewrite Eqr at 1; cbn; rewrite <- !app_assoc; reflexivity).
    rewrite EQ2. set (Q2 := [qpre; q0; r0; qpost]).
    unfold lin_of, q_of, stage_of. cbn [bA bB bqr bJc bc by_ bμ lA lB lq lr]. fold qrv q0 r0.
    destruct (Nat.ltb_spec 0 nc) as [Hc|Hc].
    - pose proof (vk_length t Ht) as Lv.
      rewrite zeta_eq. fold (pen_grad Dlb Dub (ck t) (seg (t * nc) nc y) (seg (t * nc) nc μ)). fold (vk t).
      rewrite (seg_put_same 0 (vk t) wc nc) by (auto; lia).
      rewrite (Hgcp t _ Ht).
      rd 1 Q2. cbn [nth Q2]. set (q1 := vadd q0 (mtv nx (Jcof t) (vk t))).
      assert (Lq1 : length q1 = nx) by (unfold q1; apply vadd_length_n; [exact Lq0 | apply mtv_length, WJ]).
      wr 1 Q2. cbn [lupd Q2].
      set (Q3 := [qpre; q1; r0; qpost]).
      rd 1 Q3. rd 2 Q3. cbn [nth Q3]. rd 1 G1. cbn [nth G1]. assert (Lbr : length (vadd b r0) = nu) by (apply vadd_length_n; assumption). wr 1 G1. cbn [lupd G1].
      unblk. cbn [concat app]. rewrite ?app_nil_r, <- ?app_assoc. reflexivity.
    - rd 1 Q2. rd 2 Q2. cbn [nth Q2]. rd 1 G1. cbn [nth G1]. assert (Lbr : length (vadd b r0) = nu) by (apply vadd_length_n; assumption). wr 1 G1. cbn [lupd G1].
      unblk. cbn [concat app]. rewrite ?app_nil_r, <- ?app_assoc. reflexivity.
  Qed.


  (* the loop over t = t0+n-1 .. t0 : the adjoint recursion of Ocp.v on the stages t0 .. t0+n-1 *)
  Lemma g_backward_loop_eq : forall n t0 gpre gmid gpost qpre qmid qpost wx λN wc,
    t0 + n <= N -> length gpre = t0 * nu -> length gmid = n * nu -> length qpre = off_q d t0 -> length qmid = n * (nx + nu) ->
    exists wx' wc',
      fold_left (fun '(s_g_in, s_qrbuf_in, s_work_x_in, s_work_lam_in, s_work_c_in) i_t =>
                   g_backward_for1_step F L lsolve d storage Dlb Dub μ y nc nu nx s_g_in s_qrbuf_in s_work_x_in s_work_lam_in s_work_c_in i_t)
                (rev (seq t0 n)) (gpre ++ gmid ++ gpost, qpre ++ qmid ++ qpost, wx, λN, wc)
      = (let ls := map (fun t => lin_of nx nc Dlb Dub (stage_of t)) (seq t0 n) in
         (gpre ++ concat (fst (adjoint nx nu ls λN)) ++ gpost, qpre ++ concat (map (fun s => lq s ++ lr s) ls) ++ qpost,
          wx', snd (adjoint nx nu ls λN), wc')).
  Proof.
    induction n as [|n IH]; intros t0 gpre gmid gpost qpre qmid qpost wx λN wc Hn Lgp Lgm Lqp Lqm.
    - destruct gmid; [|cbn in Lgm; lia]. destruct qmid; [|cbn in Lqm; lia]. exists wx, wc. reflexivity.
    - destruct (split_len gmid nu (n * nu)) as (g0 & gm & -> & Lg0 & Lgm'); [cbn in Lgm; lia|].
      destruct (split_len qmid (nx + nu) (n * (nx + nu))) as (q0 & qm & -> & Lq0 & Lqm'); [cbn in Lqm; lia|].
      cbn [seq rev]. rewrite fold_left_app.
      replace (gpre ++ (g0 ++ gm) ++ gpost) with ((gpre ++ g0) ++ gm ++ gpost) by (rewrite <- !app_assoc; reflexivity).
      replace (qpre ++ (q0 ++ qm) ++ qpost) with ((qpre ++ q0) ++ qm ++ qpost) by (rewrite <- !app_assoc; reflexivity).
      destruct (IH (S t0) (gpre ++ g0) gm gpost (qpre ++ q0) qm qpost wx λN wc) as (wx1 & wc1 & E); try lia.
      { rewrite app_length. lia. } { rewrite app_length. unfold off_q in *. lia. }
      rewrite E. cbv zeta. cbn [fold_left map].
      set (ls := map (fun t => lin_of nx nc Dlb Dub (stage_of t)) (seq (S t0) n)).
      rewrite <- !app_assoc.
      rewrite g_backward_for1_step_eq by (auto; lia).
      eexists; eexists. cbn [adjoint]. fold ls. destruct (adjoint nx nu ls λN) as [gs λ']. cbn [fst snd concat map].
      rewrite <- !app_assoc. reflexivity.
  Qed.

  Definition vN : list R := pen_grad DNlb DNub (ck N) (seg (N * nc) ncN y) (seg (N * nc) ncN μ).
  Lemma vN_length : length vN = ncN.
  Proof.
    destruct Hwf as (_&_&_&_&_&_&_&LDl&LDu&Ly&Lm&Ls).
    unfold vN. apply pen_grad_length; auto; try (apply seg_length; lia).
    unfold off_c, len_c. rewrite Nat.ltb_irrefl. apply seg_length. rewrite Ls. unfold total_len, stride. lia.
  Qed.

  (* the function: gradient blocks, the qr buffer [q_0 r_0 .. q_N] and λ_0 are those of Ocp.backward on the stages read from the storage *)
  Theorem g_backward_eq g qr wx wλ wc :
    length g = N * nu -> length qr = len_qr d -> length (pf_eval_q_N F (xk N) (hk N)) = nx ->
    exists wx' wc',
      g_backward F L lsolve d storage g qr Dlb Dub DNlb DNub μ y wx wλ wc
      = (let '(gs, λ0, qrs, qN) := backward nx nu nc ncN Dlb Dub DNlb DNub (map stage_of (seq 0 N)) (pf_eval_q_N F (xk N) (hk N)) JcN (ck N)
                                            (seg (N * nc) ncN y) (seg (N * nc) ncN μ) in
         (concat gs, concat qrs ++ qN, wx', λ0, wc')).
  Proof.
    intros Lg Lqr LqN. pose proof Hwf as (_ & _ & HgcpN & _ & WJN & _).
    unfold g_backward, backward. cbv zeta. layout_rw. rewrite g_backward_for1_order_eq.
    set (qNc := pf_eval_q_N F (xk N) (hk N)) in *.
    set (qN := qN_of nx ncN DNlb DNub qNc JcN (ck N) (seg (N * nc) ncN y) (seg (N * nc) ncN μ)).
    assert (LqN' : length qN = nx).
    { unfold qN, qN_of. destruct (0 <? ncN); [|exact LqN]. apply vadd_length_n; [exact LqN|]. apply mtv_length, WJN. }
    destruct (split_len qr (N * (nx + nu)) nx) as (qm & qNo & -> & Lqm & LqNo); [unfold len_qr in Lqr; lia|].
    (* the terminal block leaves λ = qN (and work_x, work_c) whatever they were *)
    assert (Eterm : exists wx1 wc1,
      (if 0 <? ncN
       then (pf_eval_grad_constr_prod_N F (xk N)
               (seg 0 ncN (put 0 (vmul (seg (N * nc) ncN μ) (pdiff DNlb DNub (vadd (ck N) (vdiv (seg (N * nc) ncN y) (seg (N * nc) ncN μ))))) wc)),
             vadd qNc (pf_eval_grad_constr_prod_N F (xk N)
               (seg 0 ncN (put 0 (vmul (seg (N * nc) ncN μ) (pdiff DNlb DNub (vadd (ck N) (vdiv (seg (N * nc) ncN y) (seg (N * nc) ncN μ))))) wc))),
             put 0 (vmul (seg (N * nc) ncN μ) (pdiff DNlb DNub (vadd (ck N) (vdiv (seg (N * nc) ncN y) (seg (N * nc) ncN μ))))) wc)
       else (wx, qNc, wc)) = (wx1, qN, wc1)).
    { unfold qN, qN_of. destruct (0 <? ncN); [|eexists; eexists; reflexivity].
      rewrite zeta_eq. fold (pen_grad DNlb DNub (ck N) (seg (N * nc) ncN y) (seg (N * nc) ncN μ)). fold vN.
      rewrite (seg_put_same 0 vN wc ncN) by (try lia; symmetry; apply vN_length). rewrite HgcpN.
      eexists; eexists; reflexivity. }
    destruct Eterm as (wx1 & wc1 & Eterm). rewrite Eterm.
    set (Q0 := [qm; qNo]). assert (EQ : qm ++ qNo = concat Q0) by (cbn; rewrite app_nil_r; reflexivity).
    rewrite EQ. unfold off_q. wr 1 Q0. cbn [lupd Q0]. unblk. cbn [concat]. rewrite app_nil_r.
    destruct (g_backward_loop_eq N 0 [] g [] [] qm qN wx1 qN wc1) as (wx' & wc' & E); try (cbn; lia).
    cbn [app] in E. rewrite app_nil_r in E. rewrite E. cbv zeta.
    exists wx', wc'. rewrite (map_map stage_of (lin_of nx nc Dlb Dub)).
    destruct (adjoint nx nu (map (fun t => lin_of nx nc Dlb Dub (stage_of t)) (seq 0 N)) qN) as [gs λ0]. cbn [fst snd].
    rewrite app_nil_r. reflexivity.
  Qed.
End BackwardEq.

(* ================================================================== 4. masked Riccati: factor_masked / solve_masked *)
Lemma put_put_same {A} (a b buf : list A) : length a = length b -> put 0 a (put 0 b buf) = put 0 a buf.
Proof.
  intros E. unfold put. cbn [firstn app Nat.add]. f_equal.
  rewrite skipn_app, E. rewrite skipn_all. replace (length b - length b) with 0 by lia. reflexivity.
Qed.

Lemma mleft_app r a (X Y : list (list R)) : wfm r a X -> length Y = r -> mleft a (map2 (@app R) X Y) = X.
Proof.
  intros [LA WA]. revert r Y LA. induction X as [|x X IH]; intros r [|y Y] LA LB; cbn in *; try lia; auto.
  unfold mleft in *. cbn. inversion WA; subst. f_equal.
  - rewrite firstn_app, firstn_all. replace (length x - length x) with 0 by lia. cbn. apply app_nil_r.
  - apply (IH H2 (length X)); auto.
Qed.
Lemma mright_app r a b (X Y : list (list R)) : wfm r a X -> wfm r b Y -> mright b (map2 (@app R) X Y) = Y.
Proof.
  intros [LA WA] [LB WB]. revert r Y LA LB WB. induction X as [|x X IH]; intros r [|y Y] LA LB WB; cbn in *; try lia; auto.
  unfold mright in *. cbn. inversion WA; inversion WB; subst. f_equal.
  - rewrite app_length. replace (length x + length y - length y) with (length x + 0) by lia.
    rewrite skipn_app, skipn_all2 by lia. replace (length x + 0 - length x) with 0 by lia. reflexivity.
  - apply (IH H2 (length X)); auto.
Qed.

Lemma map2_cons_vneg (r : list R) : forall X, map (fun row => vneg row) (map2 cons r X) = map2 cons (vneg r) (map (fun row => vneg row) X).
Proof. induction r as [|a r IH]; intros [|x X]; cbn; try reflexivity. f_equal. apply IH. Qed.
Lemma mT_mneg n : forall M : list (list R), mT n (map (fun r => vneg r) M) = mneg (mT n M).
Proof.
  induction M as [|r M IH]; cbn [map mT].
  - unfold mneg. induction n; cbn; [reflexivity|]. f_equal. assumption.
  - rewrite IH. unfold mneg. rewrite map2_cons_vneg. reflexivity.
Qed.

Section RiccatiEq.
  Variable F : ocp_fns R.
  Variable L : lqr_fns R.
  Variable lsolve : list (list R) -> list R -> list R.
  Variable d : dims.
  Variables nx nu : nat.

  (* the callables handed to factor_masked at stage i are those of the stage data st: AB(i) = [A B], Q / R / S add the (masked) blocks
     into `out`, R_prod / S_prod add the products with the fixed inputs, q, r, u, J, K return the vectors / index sets *)
  Definition ops_match (i : nat) (st : lq_stage R) : Prop :=
    lf_AB L i = map2 (@app R) (sA st) (sB st) /\
    (forall M, lf_R L i (sJ st) M = madd M (selcols (sJ st) (selrows (sJ st) (sR st)))) /\
    (forall M, lf_S L i (sJ st) M = madd M (selrows (sJ st) (sS st))) /\
    (forall v, lf_R_prod L i (sJ st) (sK st) (sfix st) v = vadd v (mv (selcols (sK st) (selrows (sJ st) (sR st))) (sel (sK st) (sfix st)))) /\
    (forall v, lf_S_prod L i (sK st) (sfix st) v = vadd v (mtv nx (selrows (sK st) (sS st)) (sel (sK st) (sfix st)))) /\
    (forall M, lf_Q L i M = madd M (sQ st)) /\
    lf_q L i = sq st /\ lf_r L i = sr st /\ lf_u L i = sfix st /\ lf_J L i = sJ st /\ lf_K L i = sK st.

  (* the body of the stage loop of factor_masked = Ocp.factor_step (the gain is stored as the nJ x nx matrix K = (Kᵀ)ᵀ) *)
  Lemma g_factor_masked_for1_step_eq i st chol P gK e s c y t PA :
    ops_match i st -> wf_stage nx nu st -> wfm nx nx P -> length s = nx -> solves lsolve (oRbar (factor_step lsolve nx st P s)) ->
    i < length gK -> i < length e ->
    g_factor_masked_for1_step F L lsolve d nx nu chol P gK e s c y t PA i
    = (let o := factor_step lsolve nx st P s in
       ((if 0 <? i then oP o else P), lupd i (mT (length (sJ st)) (oKT o)) gK, lupd i (oe o) e, (if 0 <? i then os o else s),
        mv (selcols (sK st) (sB st)) (sel (sK st) (sfix st)), oy o, put 0 (ot o) t, mm nx P (sA st))).
  Proof.
    intros (HAB & HR & HS & HRp & HSp & HQ & Hq & Hr & Hu & HJ & HK) Hst HP Hs Hsol LgK Le.
    pose proof Hst as (WA & WB & _).
    unfold g_factor_masked_for1_step. rewrite HAB, Hu, HJ, HK, Hr, Hq.
    rewrite (mleft_app nx nx) by (auto; apply WB). rewrite (mright_app nx nx nu) by auto.
    set (o := factor_step lsolve nx st P s) in *.
    set (J := sJ st) in *. set (K := sK st) in *. set (nJ := length J).
    set (BJ := selcols J (sB st)). set (cc := mv (selcols K (sB st)) (sel K (sfix st))).
    set (t1 := mtv nJ BJ (vadd (mv P cc) s)).
    set (t2 := vadd t1 (sel J (sr st))).
    assert (Lt1 : length t1 = nJ) by (apply mtv_length; apply (wBJ nx nu st Hst)).
    assert (Lt2 : length t2 = nJ) by (apply vadd_length_n; [exact Lt1 | apply sel_length]).
    assert (Et3 : vadd t2 (mv (selcols K (selrows J (sR st))) (sel K (sfix st))) = ot o) by reflexivity.
    pose proof (lt_ lsolve nx nu st P s Hst) as Lt3. fold o J nJ in Lt3.
    cbv zeta.
    rewrite (seg_put_same 0 t1 t nJ) by (lia || auto). fold t2.
    rewrite (put_put_same t2 t1 t) by lia.
    rewrite (seg_put_same 0 t2 t nJ) by (lia || auto).
    rewrite HRp, Et3. rewrite (put_put_same (ot o) t2 t) by lia.
    rewrite (seg_put_same 0 (ot o) t nJ) by (lia || auto).
    rewrite HR, HS.
    change (madd (mm nJ (mT nJ BJ) (mm nJ P BJ)) (selcols J (selrows J (sR st)))) with (oRbar o).
    change (madd (mm nx (mT nJ BJ) (mm nx P (sA st))) (selrows J (sS st))) with (oSbar o).
    assert (EK : mneg (msolve lsolve nJ nx (oRbar o) (oSbar o)) = mT nJ (oKT o)).
    { unfold msolve. rewrite <- mT_mneg, map_map. reflexivity. }
    assert (Ee : vneg (lsolve (oRbar o) (ot o)) = oe o) by reflexivity.
    assert (EP : mm nx (mT nx (oSbar o)) (mT nJ (oKT o)) = map (fun ca => mv (oKT o) ca) (mT nx (oSbar o))).
    { unfold mm. apply map_ext_in. intros ca Hca. apply (mtv_mT nx nJ).
      - apply (wKT lsolve nx nu st P s Hst HP Hsol).
      - pose proof (wcols lsolve nx nu st P s Hst HP) as [_ Wc]. rewrite Forall_forall in Wc. apply Wc. exact Hca. }
    replace (if chol
             then (lupd i (msolve lsolve nJ nx (oRbar o) (oSbar o)) gK, lupd i (lsolve (oRbar o) (ot o)) e)
             else (lupd i (msolve lsolve nJ nx (oRbar o) (oSbar o)) gK, lupd i (lsolve (oRbar o) (ot o)) e))
      with (lupd i (msolve lsolve nJ nx (oRbar o) (oSbar o)) gK, lupd i (lsolve (oRbar o) (ot o)) e) by (destruct chol; reflexivity).
    cbv beta iota zeta.
    rewrite !(nth_lupd_same gK i), !(nth_lupd_same e i) by assumption. rewrite !lupd_lupd.
    rewrite !(nth_lupd_same gK i), !(nth_lupd_same e i) by assumption.
    rewrite EK, Ee, EP, HQ, HSp. destruct (0 <? i); reflexivity.
  Qed.

  Lemma mod2_cases i : (i mod 2 = 0 /\ S i mod 2 = 1) \/ (i mod 2 = 1 /\ S i mod 2 = 0).
  Proof.
    pose proof (Nat.div_mod i 2). pose proof (Nat.div_mod (S i) 2).
    pose proof (Nat.mod_upper_bound i 2). pose proof (Nat.mod_upper_bound (S i) 2). lia.
  Qed.

  (* what solve_masked needs of stage i: the system matrices, the index set, and the gain / feed-forward slots factor_masked left *)
  Definition solve_match (i : nat) (st : lq_stage R) (g : gain R) (gK : list (list (list R))) (e : list (list R)) : Prop :=
    lf_AB L i = map2 (@app R) (sA st) (sB st) /\ lf_J L i = sJ st /\
    nth i gK [] = mT (length (sJ st)) (gKT g) /\ nth i e [] = ge g /\ wfm nx (length (sJ st)) (gKT g) /\ i < length e.

  (* the body of the stage loop of solve_masked: Δu = [upre | fixed values of stage i | upost], Δx a 2 nx buffer holding δx_i in half i mod 2 *)
  Lemma g_solve_masked_for1_step_eq i st g gK e upre upost Δx δx :
    solve_match i st g gK e -> wf_stage nx nu st -> length upre = i * nu ->
    length Δx = 2 * nx -> seg ((i mod 2) * nx) nx Δx = δx ->
    exists Δx',
      g_solve_masked_for1_step F L lsolve d nx nu gK (upre ++ sfix st ++ upost) Δx e i
      = (let e' := vadd (ge g) (mtv (length (sJ st)) (gKT g) δx) in
         (upre ++ scatter (sJ st) e' (sfix st) ++ upost, Δx', lupd i e' e)) /\
      length Δx' = 2 * nx /\
      seg ((S i mod 2) * nx) nx Δx' = (let e' := vadd (ge g) (mtv (length (sJ st)) (gKT g) δx) in
                                       vadd (mv (sA st) δx) (mv (sB st) (scatter (sJ st) e' (sfix st)))).
  Proof.
    intros (HAB & HJ & HgK & He & WK & Li) Hst Lup LΔx Hδ.
    pose proof Hst as (WA & WB & _ & _ & _ & _ & _ & Lfix & _).
    unfold g_solve_masked_for1_step. rewrite HAB, HJ.
    rewrite (mleft_app nx nx) by (auto; apply WB). rewrite (mright_app nx nx nu) by auto.
    cbv zeta. rewrite Hδ, HgK, He. rewrite (nth_lupd_same e i) by exact Li.
    rewrite (mv_mT nx (length (sJ st))) by exact WK.
    set (e' := vadd (ge g) (mtv (length (sJ st)) (gKT g) δx)).
    set (U0 := [upre; sfix st; upost]).
    assert (EU : upre ++ sfix st ++ upost = concat U0) by (cbn; rewrite app_nil_r; reflexivity).
    rewrite EU. rd 1 U0. cbn [nth U0].
    set (Δu := scatter (sJ st) e' (sfix st)).
    assert (LΔu : length Δu = nu) by (unfold Δu; rewrite scatter_length; exact Lfix).
    wr 1 U0. cbn [lupd U0]. set (U1 := [upre; Δu; upost]). rd 1 U1. cbn [nth U1].
    assert (Lδ : length δx = nx) by (rewrite <- Hδ; apply seg_length; pose proof (Nat.mod_upper_bound i 2); nia).
    assert (LA : length (mv (sA st) δx) = nx) by (rewrite mv_length; apply WA).
    assert (LB : length (mv (sB st) Δu) = nx) by (rewrite mv_length; apply WB).
    assert (Lnew : length (vadd (mv (sA st) δx) (mv (sB st) Δu)) = nx) by (apply vadd_length_n; assumption).
    destruct (split_len Δx nx nx) as (h0 & h1 & -> & Lh0 & Lh1); [lia|].
    set (X0 := [h0; h1]). assert (EX : h0 ++ h1 = concat X0) by (cbn; rewrite app_nil_r; reflexivity).
    rewrite EX.
    destruct (mod2_cases i) as [[E0 E1]|[E0 E1]]; rewrite E1.
    - assert (EΔ : put (1 * nx) (vadd (seg (1 * nx) nx (put (1 * nx) (mv (sA st) δx) (concat X0))) (mv (sB st) Δu))
                       (put (1 * nx) (mv (sA st) δx) (concat X0)) = h0 ++ vadd (mv (sA st) δx) (mv (sB st) Δu)).
      { wr 1 X0. cbn [lupd X0]. set (X1 := [h0; mv (sA st) δx]). rd 1 X1. cbn [nth X1]. wr 1 X1. cbn [lupd X1 concat]. rewrite app_nil_r. reflexivity. }
      rewrite EΔ. eexists. split; [unblk; cbn [concat app]; rewrite ?app_nil_r; reflexivity|]. split.
      + rewrite app_length. lia.
      + replace (1 * nx) with (length h0 + 0) by lia. rewrite seg_app_skip. unfold seg. cbn [skipn]. rewrite <- Lnew. apply firstn_all.
    - assert (EΔ : put (0 * nx) (vadd (seg (0 * nx) nx (put (0 * nx) (mv (sA st) δx) (concat X0))) (mv (sB st) Δu))
                       (put (0 * nx) (mv (sA st) δx) (concat X0)) = vadd (mv (sA st) δx) (mv (sB st) Δu) ++ h1).
      { wr 0 X0. cbn [lupd X0]. set (X1 := [mv (sA st) δx; h1]). rd 0 X1. cbn [nth X1]. wr 0 X1. cbn [lupd X1 concat]. rewrite app_nil_r. reflexivity. }
      rewrite EΔ. eexists. split; [unblk; cbn [concat app]; rewrite ?app_nil_r; reflexivity|]. split.
      + rewrite app_length. lia.
      + cbn [Nat.mul]. rewrite <- Lnew. apply seg_0_app.
  Qed.

  (* ---- the loops and the functions *)
  Fixpoint all_ops (i0 : nat) (sts : list (lq_stage R)) : Prop :=
    match sts with [] => True | st :: sts' => ops_match i0 st /\ all_ops (S i0) sts' end.
  (* what factor_masked leaves in the per-stage stores for the stages i0, i0+1, .. *)
  Fixpoint stored (i0 : nat) (sts : list (lq_stage R)) (gs : list (gain R)) (gK : list (list (list R))) (e : list (list R)) : Prop :=
    match sts, gs with
    | [], [] => True
    | st :: sts', g :: gs' => nth i0 gK [] = mT (length (sJ st)) (gKT g) /\ nth i0 e [] = ge g /\ wfm nx (length (sJ st)) (gKT g) /\
                              stored (S i0) sts' gs' gK e
    | _, _ => False
    end.

  Lemma stored_frame : forall sts gs k gK e i x z, i < k -> stored k sts gs gK e -> stored k sts gs (lupd i x gK) (lupd i z e).
  Proof.
    induction sts as [|st sts IH]; intros [|g gs] k gK e i x z Hi Hs; cbn in *; auto.
    destruct Hs as (H1 & H2 & H3 & H4). rewrite !nth_lupd_other by lia. split; [exact H1|]. split; [exact H2|]. split; [exact H3|]. apply IH; auto.
  Qed.
  Lemma stored_frame_e : forall sts gs k gK e i z, i < k -> stored k sts gs gK e -> stored k sts gs gK (lupd i z e).
  Proof.
    induction sts as [|st sts IH]; intros [|g gs] k gK e i z Hi Hs; cbn in *; auto.
    destruct Hs as (H1 & H2 & H3 & H4). rewrite !nth_lupd_other by lia. split; [exact H1|]. split; [exact H2|]. split; [exact H3|]. apply IH; auto.
  Qed.

  Notation fstep chol := (fun '(s_P_in, s_gain_K_in, s_e_in, s_s_in, s_c_in, s_y_in, s_t_in, s_PA_in) i_i =>
      g_factor_masked_for1_step F L lsolve d nx nu chol s_P_in s_gain_K_in s_e_in s_s_in s_c_in s_y_in s_t_in s_PA_in i_i).

  (* stages i0 .. i0+n-1 with i0 >= 1 (every one of them updates P and s): the backward recursion Ocp.factor_all *)
  Lemma g_factor_masked_loop_eq chol : forall sts i0 QN qN gK e c y t PA,
    1 <= i0 -> all_ops i0 sts -> Forall (wf_stage nx nu) sts -> wfm nx nx QN -> selfadj nx QN -> length qN = nx ->
    solves_all lsolve nx sts QN qN -> i0 + length sts <= length gK -> i0 + length sts <= length e ->
    exists gK' e' c' y' t' PA',
      fold_left (fstep chol) (rev (seq i0 (length sts))) (QN, gK, e, qN, c, y, t, PA)
      = (snd (fst (factor_all lsolve nx sts QN qN)), gK', e', snd (factor_all lsolve nx sts QN qN), c', y', t', PA') /\
      stored i0 sts (fst (fst (factor_all lsolve nx sts QN qN))) gK' e' /\ length gK' = length gK /\ length e' = length e.
  Proof.
    induction sts as [|st sts IH]; intros i0 QN qN gK e c y t PA Hi Hops Hw HQ HQs Hq Hsol LgK Le.
    - exists gK, e, c, y, t, PA. cbn. auto.
    - destruct Hops as [Hop Hops]. pose proof (Forall_inv Hw) as Hst. pose proof (Forall_inv_tail Hw) as Hw'.
      destruct Hsol as [Hsol' Hsol]. cbn [length] in *.
      destruct (IH (S i0) QN qN gK e c y t PA) as (gK1 & e1 & c1 & y1 & t1 & PA1 & E & Hst1 & LgK1 & Le1); auto; try lia.
      destruct (factor_solve_kkt lsolve nx nu sts QN qN Hw' HQ HQs Hq Hsol') as (HP & _ & Hs & _).
      cbn [seq rev]. rewrite fold_left_app, E. cbn [fold_left].
      rewrite (g_factor_masked_for1_step_eq i0 st) by (auto; lia).
      replace (0 <? i0) with true by (symmetry; apply Nat.ltb_lt; lia).
      cbn [factor_all]. destruct (factor_all lsolve nx sts QN qN) as [[gs P] s]. cbn [fst snd] in *.
      do 6 eexists. split; [reflexivity|]. cbn [stored gKT ge].
      rewrite !nth_lupd_same by lia. split; [|split; [rewrite lupd_length; exact LgK1 | rewrite lupd_length; exact Le1]].
      split; [reflexivity|]. split; [reflexivity|]. split; [apply (wKT lsolve nx nu st P s Hst HP Hsol)|]. apply stored_frame; auto.
  Qed.

  Lemma madd_mzero_l r c (M : list (list R)) : wfm r c M -> madd (mzero r c) M = M.
  Proof.
    intros [<- W]. unfold madd, mzero. induction M as [|row M IH]; cbn; [reflexivity|]. inversion W; subst. f_equal; auto.
    clear. induction row as [|a row IH]; cbn; [reflexivity|]. f_equal; [numR; ring | exact IH].
  Qed.

  (* the function = Ocp.factor_masked: P and s are those of stage 1 (`if (i > 0)`), the stores hold every stage's gain and feed-forward *)
  Theorem g_factor_masked_eq chol sts QN qN P gK e s c y t PA :
    all_ops 0 sts -> (forall M, lf_Q L (length sts) M = madd M QN) -> lf_q L (length sts) = qN ->
    Forall (wf_stage nx nu) sts -> wfm nx nx QN -> selfadj nx QN -> length qN = nx -> solves_all lsolve nx sts QN qN ->
    length sts <= length gK -> length sts <= length e ->
    exists gK' e' c' y' t' PA',
      g_factor_masked F L lsolve d (length sts) nx nu chol P gK e s c y t PA
      = (snd (fst (factor_masked lsolve nx sts QN qN)), gK', e', snd (factor_masked lsolve nx sts QN qN), c', y', t', PA') /\
      stored 0 sts (fst (fst (factor_masked lsolve nx sts QN qN))) gK' e' /\ length gK' = length gK /\ length e' = length e.
  Proof.
    intros Hops HQN HqN Hw HQ HQs Hq Hsol LgK Le.
    unfold g_factor_masked. cbv zeta. rewrite g_factor_masked_for1_order_eq, HQN, HqN, (madd_mzero_l nx nx QN HQ).
    destruct sts as [|st sts].
    - exists gK, e, c, y, t, PA. cbn. auto.
    - destruct Hops as [Hop Hops]. pose proof (Forall_inv Hw) as Hst. pose proof (Forall_inv_tail Hw) as Hw'.
      destruct Hsol as [Hsol' Hsol]. cbn [length] in *.
      destruct (g_factor_masked_loop_eq chol sts 1 QN qN gK e c y t PA) as (gK1 & e1 & c1 & y1 & t1 & PA1 & E & Hst1 & LgK1 & Le1); auto; try lia.
      destruct (factor_solve_kkt lsolve nx nu sts QN qN Hw' HQ HQs Hq Hsol') as (HP & _ & Hs & _).
      cbn [seq rev]. rewrite fold_left_app, E. cbn [fold_left].
      rewrite (g_factor_masked_for1_step_eq 0 st) by (auto; lia).
      cbn [Nat.ltb Nat.leb factor_masked]. destruct (factor_all lsolve nx sts QN qN) as [[gs P1] s1]. cbn [fst snd] in *.
      do 6 eexists. split; [reflexivity|]. cbn [stored gKT ge].
      rewrite !nth_lupd_same by lia. split; [|split; [rewrite lupd_length; exact LgK1 | rewrite lupd_length; exact Le1]].
      split; [reflexivity|]. split; [reflexivity|]. split; [apply (wKT lsolve nx nu st P1 s1 Hst HP Hsol)|]. apply stored_frame; auto.
  Qed.

  Notation sstep gK := (fun '(s_Delu_eq_in, s_Delx_in, s_e_in) i_i => g_solve_masked_for1_step F L lsolve d nx nu gK s_Delu_eq_in s_Delx_in s_e_in i_i).

  (* the forward roll-out of solve_masked over the stages i0 .. : Ocp.solve_from *)
  Lemma g_solve_masked_loop_eq gK : forall sts gs i0 upre upost Δx e δx,
    all_ops i0 sts -> Forall (wf_stage nx nu) sts -> stored i0 sts gs gK e -> length upre = i0 * nu ->
    length Δx = 2 * nx -> seg ((i0 mod 2) * nx) nx Δx = δx -> i0 + length sts <= length e ->
    exists Δx' e',
      fold_left (sstep gK) (seq i0 (length sts)) (upre ++ concat (map (@sfix R) sts) ++ upost, Δx, e)
      = (upre ++ concat (solve_from sts gs δx) ++ upost, Δx', e').
  Proof.
    induction sts as [|st sts IH]; intros [|g gs] i0 upre upost Δx e δx Hops Hw Hsto Lup LΔx Hδ Le; cbn [stored] in Hsto; try contradiction.
    - exists Δx, e. reflexivity.
    - destruct Hops as [Hop Hops]. pose proof (Forall_inv Hw) as Hst. pose proof (Forall_inv_tail Hw) as Hw'.
      destruct Hsto as (HgK & He & WK & Hsto'). cbn [length] in Le.
      cbn [length seq fold_left map concat solve_from]. rewrite <- !app_assoc.
      destruct Hop as (HAB & _ & _ & _ & _ & _ & _ & _ & _ & HJ & _).
      assert (Hm : solve_match i0 st g gK e)
        by (unfold solve_match; split; [exact HAB|]; split; [exact HJ|]; split; [exact HgK|]; split; [exact He|]; split; [exact WK| lia]).
      destruct (g_solve_masked_for1_step_eq i0 st g gK e upre (concat (map (@sfix R) sts) ++ upost) Δx δx Hm Hst Lup LΔx Hδ) as (Δx1 & E & LΔx1 & Hδ1).
      rewrite E. cbv zeta in *.
      set (e' := vadd (ge g) (mtv (length (sJ st)) (gKT g) δx)) in *.
      set (Δu := scatter (sJ st) e' (sfix st)) in *.
      destruct (IH gs (S i0) (upre ++ Δu) upost Δx1 (lupd i0 e' e) (vadd (mv (sA st) δx) (mv (sB st) Δu))) as (Δx2 & e2 & E2); auto.
      { apply stored_frame_e; auto. }
      { rewrite app_length. unfold Δu. rewrite scatter_length. destruct Hst as (_&_&_&_&_&_&_&Lfix&_). rewrite Lfix. lia. }
      { rewrite lupd_length. lia. }
      rewrite <- !app_assoc in E2. rewrite E2. exists Δx2, e2. reflexivity.
  Qed.

  (* the function: Δu_eq enters holding the fixed inputs of every stage and leaves holding the step of Ocp.solve_masked *)
  Theorem g_solve_masked_eq sts gs gK e Δx :
    all_ops 0 sts -> Forall (wf_stage nx nu) sts -> stored 0 sts gs gK e -> length Δx = 2 * nx -> length sts <= length e ->
    exists Δx' e',
      g_solve_masked F L lsolve d (length sts) nx nu (concat (map (@sfix R) sts)) Δx gK e
      = (concat (solve_masked nx sts gs), Δx', e').
  Proof.
    intros Hops Hw Hsto LΔx Le. unfold g_solve_masked, solve_masked. cbv zeta. rewrite g_solve_masked_for1_order_eq.
    destruct (g_solve_masked_loop_eq gK sts gs 0 [] [] (put 0 (vconst nx n0) Δx) e (vconst nx n0)) as (Δx' & e' & E); auto.
    - rewrite put_length; [exact LΔx | rewrite vconst_length; lia].
    - cbn [Nat.modulo Nat.divmod fst snd Nat.sub Nat.mul]. apply seg_put_same; [lia | rewrite vconst_length; reflexivity].
    - cbn [app] in E. rewrite !app_nil_r in E. rewrite E. exists Δx', e'. reflexivity.
  Qed.

  (* factor_masked followed by solve_masked = Ocp.riccati_step *)
  Theorem g_riccati_step_eq chol sts QN qN P gK e s c y t PA Δx :
    all_ops 0 sts -> (forall M, lf_Q L (length sts) M = madd M QN) -> lf_q L (length sts) = qN ->
    Forall (wf_stage nx nu) sts -> wfm nx nx QN -> selfadj nx QN -> length qN = nx -> solves_all lsolve nx sts QN qN ->
    length sts <= length gK -> length sts <= length e -> length Δx = 2 * nx ->
    let '(_, gK', e', _, _, _, _, _) := g_factor_masked F L lsolve d (length sts) nx nu chol P gK e s c y t PA in
    fst (fst (g_solve_masked F L lsolve d (length sts) nx nu (concat (map (@sfix R) sts)) Δx gK' e'))
    = concat (riccati_step lsolve nx sts QN qN).
  Proof.
    intros Hops HQN HqN Hw HQ HQs Hq Hsol LgK Le LΔx.
    destruct (g_factor_masked_eq chol sts QN qN P gK e s c y t PA) as (gK' & e' & c' & y' & t' & PA' & E & Hsto & LgK' & Le'); auto.
    rewrite E.
    destruct (g_solve_masked_eq sts _ gK' e' Δx Hops Hw Hsto LΔx) as (Δx' & e'' & E2); [lia|].
    rewrite E2. reflexivity.
  Qed.
End RiccatiEq.

(* ================================================================== 5. the theorems of C12 carried over to the generated code *)
(* layout *)
Theorem g_layout_is_model (F : ocp_fns R) (L : lqr_fns R) lsolve d t :
  g_xk_off F L lsolve d t = off_x d t /\ g_uk_off F L lsolve d t = off_u d t /\
  g_hk_off F L lsolve d t = off_h d t /\ g_hk_len F L lsolve d t = len_h d t /\
  g_ck_off F L lsolve d t = off_c d t /\ g_ck_len F L lsolve d t = len_c d t /\
  g_qk_off F L lsolve d t = off_q d t /\ g_rk_off F L lsolve d t = off_r d t /\
  g_create_len F L lsolve d = total_len d /\ g_create_qr_len F L lsolve d = len_qr d.
Proof.
  repeat split; first [apply g_xk_off_eq | apply g_uk_off_eq | apply g_hk_off_eq | apply g_hk_len_eq | apply g_ck_off_eq | apply g_ck_len_eq |
                       apply g_qk_off_eq | apply g_rk_off_eq | apply g_create_len_eq | apply g_create_qr_len_eq].
Qed.

(* cost = sum *)
Theorem g_forward_is_sum (F : ocp_fns R) (L : lqr_fns R) lsolve d Dlb Dub DNlb DNub (y μ x0 : list R) us tail :
  wf_fwd F d -> length us = dN d -> length x0 = dnx d -> fshape d us tail ->
  fst (g_forward F L lsolve d (x0 ++ tail) Dlb Dub DNlb DNub μ y)
  = cost_sum (pf_eval_f F) (pf_eval_h F) (pf_eval_h_N F) (pf_eval_l F) (pf_eval_l_N F) (pf_eval_constr F) (pf_eval_constr_N F)
             d Dlb Dub DNlb DNub 0 x0 us y μ.
Proof. intros Hwf LN Lx Hs. rewrite (g_forward_eq F L lsolve d Dlb Dub DNlb DNub y μ Hwf x0 us tail LN Lx Hs). cbn [fst]. apply forward_is_sum. Qed.

(* gradient = derivative: the gradient blocks written by the generated backward pair with every perturbation δu to the first-order
   change of the cost along the linearised roll-out *)
Theorem g_backward_gradient_is_derivative (F : ocp_fns R) (L : lqr_fns R) lsolve d Dlb Dub DNlb DNub (y μ storage : list R) Aof Bof Jcof JcN g qr wx wλ wc :
  wf_bwd F d Dlb Dub DNlb DNub y μ storage Aof Bof Jcof JcN ->
  length g = dN d * dnu d -> length qr = len_qr d ->
  length (pf_eval_q_N F (seg (off_x d (dN d)) (dnx d) storage) (seg (off_h d (dN d)) (len_h d (dN d)) storage)) = dnx d ->
  let ls := map (fun t => lin_of (dnx d) (dnc d) Dlb Dub (stage_of F d y μ storage Aof Bof Jcof t)) (seq 0 (dN d)) in
  let qN := qN_of (dnx d) (dncN d) DNlb DNub (pf_eval_q_N F (seg (off_x d (dN d)) (dnx d) storage) (seg (off_h d (dN d)) (len_h d (dN d)) storage))
                  JcN (seg (off_c d (dN d)) (len_c d (dN d)) storage) (seg (dN d * dnc d) (dncN d) y) (seg (dN d * dnc d) (dncN d) μ) in
  Forall (wf_lin (dnx d) (dnu d)) ls ->
  forall δus, length δus = dN d -> Forall (fun δu : list R => length δu = dnu d) δus ->
  exists gs, fst (fst (fst (fst (g_backward F L lsolve d storage g qr Dlb Dub DNlb DNub μ y wx wλ wc)))) = concat gs /\
             dots gs δus = lin_cost ls qN (vconst (dnx d) 0%R) δus.
Proof.
  intros Hwf Lg Lqr LqN ls qN Hls δus Lδ Hδ.
  destruct (g_backward_eq F L lsolve d Dlb Dub DNlb DNub y μ storage Aof Bof Jcof JcN Hwf g qr wx wλ wc Lg Lqr LqN) as (wx' & wc' & E).
  rewrite E.
  assert (LqN' : length qN = dnx d).
  { destruct Hwf as (_ & _ & _ & _ & WJN & _). unfold qN, qN_of. destruct (0 <? dncN d); [|exact LqN].
    apply vadd_length_n; [exact LqN|]. apply mtv_length, WJN. }
  pose proof (backward_gradient_is_derivative (dnx d) (dnu d) (dnc d) (dncN d) Dlb Dub DNlb DNub
                (map (stage_of F d y μ storage Aof Bof Jcof) (seq 0 (dN d)))
                (pf_eval_q_N F (seg (off_x d (dN d)) (dnx d) storage) (seg (off_h d (dN d)) (len_h d (dN d)) storage))
                JcN (seg (off_c d (dN d)) (len_c d (dN d)) storage) (seg (dN d * dnc d) (dncN d) y) (seg (dN d * dnc d) (dncN d) μ)) as Hb.
  cbv zeta in Hb. rewrite (map_map (stage_of F d y μ storage Aof Bof Jcof) (lin_of (dnx d) (dnc d) Dlb Dub)) in Hb.
  specialize (Hb Hls LqN' δus). rewrite map_length, seq_length in Hb. specialize (Hb Lδ Hδ).
  destruct (backward _ _ _ _ _ _ _ _ _ _ _ _ _ _) as [[[gs λ0] qrs] qN0]. cbn [fst] in *.
  exists gs. split; [reflexivity | exact Hb].
Qed.

(* Riccati step = minimiser of the masked subproblem: what factor_masked + solve_masked (generated) leave in Δu_eq *)
Theorem g_riccati_step_is_unique_minimiser (F : ocp_fns R) (L : lqr_fns R) lsolve d nx nu chol sts QN qN P gK e s c y t PA Δx :
  all_ops L nx 0 sts -> (forall M, lf_Q L (length sts) M = madd M QN) -> lf_q L (length sts) = qN ->
  Forall (wf2 nx nu) sts -> wfm nx nx QN -> selfadj nx QN -> length qN = nx ->
  solves_all lsolve nx sts QN qN -> posdef_all lsolve nx sts QN qN ->
  length sts <= length gK -> length sts <= length e -> length Δx = 2 * nx ->
  let '(_, gK', e', _, _, _, _, _) := g_factor_masked F L lsolve d (length sts) nx nu chol P gK e s c y t PA in
  exists Δus, fst (fst (g_solve_masked F L lsolve d (length sts) nx nu (concat (map (@sfix R) sts)) Δx gK' e')) = concat Δus /\
    feasible nu sts Δus /\
    forall Δus', feasible nu sts Δus' ->
      (obj sts QN qN (vconst nx 0%R) Δus <= obj sts QN qN (vconst nx 0%R) Δus')%R /\
      ((obj sts QN qN (vconst nx 0%R) Δus' <= obj sts QN qN (vconst nx 0%R) Δus)%R -> Δus' = Δus).
Proof.
  intros Hops HQN HqN Hw HQ HQs Hq Hsol Hpd LgK Le LΔx.
  pose proof (g_riccati_step_eq F L lsolve d nx nu chol sts QN qN P gK e s c y t PA Δx Hops HQN HqN (wf2_wf nx nu sts Hw) HQ HQs Hq Hsol LgK Le LΔx) as E.
  destruct (g_factor_masked F L lsolve d (length sts) nx nu chol P gK e s c y t PA) as [[[[[[[P' gK'] e'] s'] c'] y'] t'] PA'].
  exists (riccati_step lsolve nx sts QN qN). split; [exact E|].
  exact (riccati_step_unique_minimiser lsolve nx nu sts QN qN Hw HQ HQs Hq Hsol Hpd).
Qed.
