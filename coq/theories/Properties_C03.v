(* Properties_C03.v — C03: written-back x, y and slack error are feasible and mutually consistent. *)
From Coq Require Import Reals List ZArith Bool Lra.
From Alpaqa Require Import Num NumR Vec Prox ProxProofs ProxVec SolverStatus SolverKernels SolverKernelsProofs.
Import ListNotations.
Local Open Scope R_scope.

(* the x written back is x̂ = x + p with p the projected-gradient step: every component lies in C, for any step size,
   any current point (feasible or not) and any gradient *)
Theorem C03_exit_x_in_box : forall lb ub γ x g n,
  length lb = n -> length ub = n -> length x = n -> length g = n ->
  forall i, (i < n)%nat -> box_ne (nth i lb None) (nth i ub None) ->
  in_box (nth i lb None) (nth i ub None) (nth i (fst (fst (proj_grad_step lb ub γ x g))) 0).
Proof. exact proj_grad_step_feasible. Qed.
Print Assumptions C03_exit_x_in_box.

(* the slack error written back, (ŷ - y)/Σ with ŷ = Σ(ζ - Π_D ζ), IS g(x̂) - Π_D(g(x̂) + y/Σ) *)
Theorem C03_exit_errz_is_g_minus_projection : forall lb ub g y σ, 0 < σ ->
  errz1 (yhat1 lb ub g y σ) y σ = g - proj1 lb ub (g + y / σ).
Proof. exact errz_identity. Qed.
Print Assumptions C03_exit_errz_is_g_minus_projection.

Theorem C03_exit_y_is_yin_plus_sigma_e : forall yh y σ, 0 < σ -> yh = y + σ * errz1 yh y σ.
Proof. exact y_is_yin_plus_sigma_e. Qed.
Print Assumptions C03_exit_y_is_yin_plus_sigma_e.

(* sign of the returned multipliers: >= 0 where D has no lower bound, <= 0 where it has no upper bound, 0 on free rows *)
Theorem C03_exit_y_sign : forall lb ub g y σ, 0 < σ -> box_ne lb ub ->
  (lb = None -> 0 <= yhat1 lb ub g y σ) /\ (ub = None -> yhat1 lb ub g y σ <= 0).
Proof. exact yhat_sign. Qed.
Theorem C03_exit_y_zero_on_unbounded_rows : forall g y σ, yhat1 None None g y σ = 0.
Proof. exact yhat_unbounded_row. Qed.
Theorem C03_exit_y_complementarity : forall lb ub g y σ, 0 < σ -> box_ne lb ub ->
  let ζ := g + y / σ in
  (0 < yhat1 lb ub g y σ -> exists u, ub = Some u /\ u < ζ) /\
  (yhat1 lb ub g y σ < 0 -> exists l, lb = Some l /\ ζ < l).
Proof. exact yhat_complementarity. Qed.
Print Assumptions C03_exit_y_sign.
Print Assumptions C03_exit_y_complementarity.

(* overwrite policy of the exit block *)
Theorem C03_overwrite_policy : forall st always,
  overwrites st always = true <-> st = StConverged \/ st = StInterrupted \/ always = true.
Proof. exact overwrites_spec. Qed.
Theorem C03_exit_no_overwrite : forall st (x_in y_in e_in xh yh Σ : list R),
  overwrites st false = false -> exit_block st false x_in y_in e_in xh yh Σ = (x_in, y_in, e_in).
Proof. exact exit_no_overwrite. Qed.
Theorem C03_exit_overwrite : forall st always (x_in y_in e_in xh yh Σ : list R),
  overwrites st always = true ->
  fst (fst (exit_block st always x_in y_in e_in xh yh Σ)) = xh /\
  snd (fst (exit_block st always x_in y_in e_in xh yh Σ)) = yh.
Proof. exact exit_overwrite. Qed.
Print Assumptions C03_exit_no_overwrite.

Example C03_nonvacuous :
  yhat1 None (Some 1) 3 2 2 = 6 /\ errz1 6 2 2 = 2 /\ overwrites StMaxIter false = false /\ overwrites StInterrupted false = true.
Proof.
  unfold yhat1, errz1, projdiff1, proj1, zeta1; cbn [clamp_lo clamp_hi overwrites]. numR. repeat split; rbool; lra.
Qed.
