(* Properties_C04.v — C04: augmented-Lagrangian evaluations obtained through the problem interface equal their
   definition, for EVERY subset `prov` of optional members the problem supplies.
   Only theorem statements closed by `exact`, each followed by Print Assumptions.
   P : problem  = the four basic functions f, ∇f, g, ∇g·y, the box D and the optional combined members;
   provider_ok  = each SUPPLIED optional member returns its closed form (the provider's obligation);
   grad_g_prod_empty_ok = ∇g(x)·[] is the zero n-vector (what eval_grad_g_prod writes when m = 0). *)
From Coq Require Import Reals List ZArith Lra Lia Bool.
From Coq Require String.
From Alpaqa Require Import Num NumR Vec Prox ProxProofs AugLag AugLagProofs Vtable VtableGen VtableProofs.
Import ListNotations.
Local Open Scope R_scope.

(* ---- (1) every vtable entry = closed form, for every provider mask ---- *)
Theorem C04_eval_f_grad_f_def : forall P prov, provider_ok P prov ->
  forall x, fst (te_f_grad_f P prov x) = (pf P x, pgrad_f P x).
Proof. exact te_f_grad_f_val. Qed.
Print Assumptions C04_eval_f_grad_f_def.

Theorem C04_eval_f_g_def : forall P prov, provider_ok P prov ->
  forall x, fst (te_f_g P prov x) = (pf P x, pg P x).
Proof. exact te_f_g_val. Qed.
Print Assumptions C04_eval_f_g_def.

Theorem C04_eval_grad_f_grad_g_prod_def : forall P prov, provider_ok P prov ->
  forall x y, fst (te_grad_f_grad_g_prod P prov x y) = (pgrad_f P x, pgrad_g_prod P x y).
Proof. exact te_grad_f_grad_g_prod_val. Qed.
Print Assumptions C04_eval_grad_f_grad_g_prod_def.

(* ∇L = ∇f + ∇g·y *)
Theorem C04_eval_grad_L_def : forall P prov, provider_ok P prov -> grad_g_prod_empty_ok P ->
  forall x y, fst (te_grad_L P prov x y) = vadd (pgrad_f P x) (pgrad_g_prod P x y).
Proof. exact te_grad_L_val. Qed.
Print Assumptions C04_eval_grad_L_def.

(* calc_ŷ_dᵀŷ (both Σ paths): dᵀŷ = dist²_Σ(ζ, D), ŷ = Σ(ζ − Π_D ζ) with ζ = g + Σ⁻¹y *)
Theorem C04_calc_yhat_dty_def : forall P g y Σ,
  let Σv := expand_sigma Σ (length y) in let ζ := zeta_of g y Σv in
  fst (calc_yhat P g y Σ) = (dist2_of (plb P) (pub P) Σv ζ, yhat_of (plb P) (pub P) Σv ζ).
Proof. exact calc_yhat_spec. Qed.
Print Assumptions C04_calc_yhat_dty_def.

(* ψ = f + ½ dist²_Σ(g + Σ⁻¹y, D) and ŷ = Σ(ζ − Π_D ζ) *)
Theorem C04_eval_psi_yhat_def : forall P prov, provider_ok P prov ->
  forall x y Σ, fst (te_psi P prov x y Σ) = (psi_def P x y Σ, yhat_def P x y Σ).
Proof. exact te_psi_val. Qed.
Print Assumptions C04_eval_psi_yhat_def.

(* ∇ψ = ∇f + ∇g·ŷ *)
Theorem C04_eval_grad_psi_def : forall P prov, provider_ok P prov -> grad_g_prod_empty_ok P ->
  forall x y Σ, fst (te_grad_psi P prov x y Σ) = vadd (pgrad_f P x) (pgrad_g_prod P x (yhat_def P x y Σ)).
Proof. exact te_grad_psi_val. Qed.
Print Assumptions C04_eval_grad_psi_def.

Theorem C04_eval_psi_grad_psi_def : forall P prov, provider_ok P prov -> grad_g_prod_empty_ok P ->
  forall x y Σ, fst (te_psi_grad_psi P prov x y Σ)
                = (psi_def P x y Σ, vadd (pgrad_f P x) (pgrad_g_prod P x (yhat_def P x y Σ))).
Proof. exact te_psi_grad_psi_val. Qed.
Print Assumptions C04_eval_psi_grad_psi_def.

(* the separate and the combined evaluation agree under every mask *)
Theorem C04_psi_and_grad_psi_consistent : forall P prov, provider_ok P prov -> grad_g_prod_empty_ok P ->
  forall x y Σ,
  fst (fst (te_psi P prov x y Σ)) = fst (fst (te_psi_grad_psi P prov x y Σ)) /\
  fst (te_grad_psi P prov x y Σ) = snd (fst (te_psi_grad_psi P prov x y Σ)).
Proof. exact psi_consistent. Qed.
Print Assumptions C04_psi_and_grad_psi_consistent.

(* ---- (2) scalar-Σ path, m = 0 shortcuts ---- *)
Theorem C04_scalar_sigma_path_agrees : forall P σ g y,
  fst (calc_yhat_scalar P σ g y) = fst (calc_yhat_vector P g y (repeat σ (length y))).
Proof. exact scalar_path_agrees. Qed.
Print Assumptions C04_scalar_sigma_path_agrees.

Theorem C04_m0_shortcuts : forall P prov x Σ, provider_ok P prov -> grad_g_prod_empty_ok P ->
  fst (te_psi P prov x [] Σ) = (pf P x, []) /\
  fst (te_grad_psi P prov x [] Σ) = pgrad_f P x /\
  fst (te_psi_grad_psi P prov x [] Σ) = (pf P x, pgrad_f P x) /\
  fst (te_grad_L P prov x []) = pgrad_f P x.
Proof. exact m0_shortcuts. Qed.
Print Assumptions C04_m0_shortcuts.

(* ---- (3) which user members get called ---- *)
(* no evaluation ever reaches an optional member the problem does not supply (no hypothesis on P) *)
Theorem C04_calls_only_provided_members : forall P prov x y Σ, all_logs_ok P prov x y Σ.
Proof. exact logs_only_provided. Qed.
Print Assumptions C04_calls_only_provided_members.

Theorem C04_default_composition_uses_required_members_only : forall P x y0 y Σ,
  yhat_def P x (y0 :: y) Σ <> [] ->
  snd (te_psi_grad_psi P (fun c => negb (fn_optional c)) x (y0 :: y) Σ)
    = [Fg; Ff; Fproj_diff_g; Fgrad_f; Fgrad_g_prod].
Proof. exact default_log_required_only. Qed.
Print Assumptions C04_default_composition_uses_required_members_only.

(* ---- (4) Hessian-vector product of ψ: the user's if supplied; for m = 0 the one of L; otherwise unavailable ---- *)
Theorem C04_hess_psi_prod_availability : forall (P : problem (T:=R)) prov m x y Σ scale v,
  fst (te_hess_psi_prod P prov m x y Σ scale v) =
    if prov Fhess_psi_prod then Some (uhess_psi_prod P x y Σ scale v)
    else if (m =? 0)%nat && prov Fhess_L_prod then Some (uhess_L_prod P x y scale v) else None.
Proof. exact te_hess_psi_prod_spec. Qed.
Print Assumptions C04_hess_psi_prod_availability.

Theorem C04_supports_hess_psi_prod_truthful : forall (P : problem (T:=R)) prov m x y Σ scale v,
  supports_hess_psi_prod prov m = true <-> fst (te_hess_psi_prod P prov m x y Σ scale v) <> None.
Proof. exact supports_hess_psi_prod_iff. Qed.
Print Assumptions C04_supports_hess_psi_prod_truthful.

(* ---- (5) facts about ŷ used by C01 / C03 ---- *)
(* (ŷ − y)/Σ = g − Π_D(g + y/Σ), row by row, single shared factor or vector Σ *)
Theorem C04_yhat_err_identity : forall P x y Σ m i,
  length (pg P x) = m -> length y = m -> length (plb P) = m -> length (pub P) = m ->
  length Σ = 1%nat \/ length Σ = m -> (i < m)%nat -> sigma_at Σ i <> 0 ->
  (nth i (yhat_def P x y Σ) 0 - nth i y 0) / sigma_at Σ i
  = nth i (pg P x) 0 - proj1 (nth i (plb P) None) (nth i (pub P) None) (nth i (pg P x) 0 + nth i y 0 / sigma_at Σ i).
Proof. exact yhat_err_identity_nth. Qed.
Print Assumptions C04_yhat_err_identity.

(* ŷ_i ≥ 0 where D has no lower bound, ≤ 0 where no upper bound, = 0 where ζ_i is feasible *)
Theorem C04_yhat_sign : forall P x y Σ m i,
  length (pg P x) = m -> length y = m -> length (plb P) = m -> length (pub P) = m ->
  length Σ = 1%nat \/ length Σ = m -> (i < m)%nat -> 0 <= sigma_at Σ i ->
  let li := nth i (plb P) None in let ui := nth i (pub P) None in
  (li = None -> 0 <= nth i (yhat_def P x y Σ) 0) /\ (ui = None -> nth i (yhat_def P x y Σ) 0 <= 0) /\
  (box_ne li ui -> in_box li ui (nth i (pg P x) 0 + nth i y 0 / sigma_at Σ i) -> nth i (yhat_def P x y Σ) 0 = 0).
Proof. exact yhat_sign_nth. Qed.
Print Assumptions C04_yhat_sign.

(* the summands of dist²_Σ are weighted squared DISTANCES to D: no feasible point is closer than Π_D ζ *)
Theorem C04_penalty_term_is_min_distance : forall l u σ ζ z, 0 <= σ -> box_ne l u -> in_box l u z ->
  σ * (projdiff1 l u ζ * projdiff1 l u ζ) <= σ * ((ζ - z) * (ζ - z)).
Proof. exact penalty_term_is_min_distance. Qed.
Print Assumptions C04_penalty_term_is_min_distance.

(* ---- (6) ∇ψ is the derivative of ψ ---- *)
(* 1-D: z ↦ ½σ·dist²(z,[l,u]) is differentiable everywhere (kinks included), derivative σ(z − Πz) *)
Theorem C04_penalty_derivative_1d : forall l u σ z, box_ne l u -> 0 <= σ ->
  derivable_pt_lim (pen1 l u σ) z (σ * projdiff1 l u z).
Proof. exact pen1_derivative. Qed.
Print Assumptions C04_penalty_derivative_1d.

Theorem C04_half_dist2_is_sum_of_1d_penalties : forall lb ub Σv ζ,
  half * dist2_of lb ub Σv ζ = sumr (map4 (fun l u σ z => pen1 l u σ z) lb ub Σv ζ).
Proof. exact half_dist2_as_pen1. Qed.
Print Assumptions C04_half_dist2_is_sum_of_1d_penalties.

(* ψ restricted to any line t ↦ x + t·e (F, G_j = f, g_j along the line, differentiable at t):
   derivative = F' + Σ_j G_j' ŷ_j, i.e. the component of ∇f + ∇g·ŷ in direction e *)
Theorem C04_psi_line_derivative : forall (F : R -> R) (F' : R) rows t,
  derivable_pt_lim F t F' -> Forall (row_ok t) rows ->
  derivable_pt_lim (fun s => F s + pen_sum rows s) t (F' + jac_yhat rows t).
Proof. exact psi_line_derivative. Qed.
Print Assumptions C04_psi_line_derivative.

(* ---- (7) ProblemWithCounters: transparent for the provider mask when the wrapped class has provides_eval_hess_ψ;
        REFUTED otherwise (defect of /repo: problem-with-counters.hpp, requires-clause of provides_eval_hess_ψ_prod
        tests provides_eval_hess_ψ) ---- *)
Theorem C04_counters_mask_transparent : forall prov c, counters_prov true prov c = prov c.
Proof. exact counters_prov_transparent. Qed.
Print Assumptions C04_counters_mask_transparent.

Theorem C04_counters_hess_psi_prod_refuted :
  exists (P : problem (T:=R)) prov,
    prov Fhess_psi_prod = false /\
    te_hess_psi_prod P prov 0 [] [] [] 1 [1] = (Some (uhess_L_prod P [] [] 1 [1]), [Fhess_L_prod]) /\
    te_hess_psi_prod P (counters_prov false prov) 0 [] [] [] 1 [1]
      = (Some (uhess_psi_prod P [] [] [] 1 [1]), [Fhess_psi_prod]) /\
    fst (te_hess_psi_prod P (counters_prov false prov) 0 [] [] [] 1 [1]) <> fst (te_hess_psi_prod P prov 0 [] [] [] 1 [1]).
Proof. exact counters_hess_psi_prod_opt_out_lost. Qed.
Print Assumptions C04_counters_hess_psi_prod_refuted.

(* ---- (8) tie to the sources: coq/gen/VtableGen.v is regenerated from type-erased-problem.hpp/.tpp on every run
        (translate/gen_C04_vtable.py). gcalc / gvt_X are Gallina terms built from the PARSED statement sequence of
        calc_ŷ_dᵀŷ and of the default_X bodies. They compute the same values and call the same user members (multiset)
        as the hand-written compositions above, so every theorem of (1)-(3) holds for what the sources say. ---- *)
Theorem C04_generated_calc_is_model : forall P g y Σ, m_equiv (gcalc P g y Σ) (calc_yhat P g y Σ).
Proof. exact gcalc_equiv. Qed.
Print Assumptions C04_generated_calc_is_model.

Theorem C04_generated_combined_defaults_are_model : forall P prov x y Σ,
  m_equiv (gvt_eval_f_grad_f P prov x) (te_f_grad_f P prov x) /\
  m_equiv (gvt_eval_f_g P prov x) (te_f_g P prov x) /\
  m_equiv (gvt_eval_grad_f_grad_g_prod P prov x y) (te_grad_f_grad_g_prod P prov x y) /\
  m_equiv (gvt_eval_grad_L P prov x y) (te_grad_L P prov x y) /\
  (forall yh_in, (y = [] -> yh_in = []) -> m_equiv (gvt_eval_psi P prov x y Σ yh_in) (te_psi P prov x y Σ)) /\
  m_equiv (gvt_eval_grad_psi P prov x y Σ) (te_grad_psi P prov x y Σ) /\
  m_equiv (gvt_eval_psi_grad_psi P prov x y Σ) (te_psi_grad_psi P prov x y Σ).
Proof.
  exact (fun P prov x y Σ =>
    conj (gvt_f_grad_f_equiv P prov x) (conj (gvt_f_g_equiv P prov x) (conj (gvt_grad_f_grad_g_prod_equiv P prov x y)
    (conj (gvt_grad_L_equiv P prov x y) (conj (gvt_psi_equiv P prov x y Σ) (conj (gvt_grad_psi_equiv P prov x y Σ)
    (gvt_psi_grad_psi_equiv P prov x y Σ))))))).
Qed.
Print Assumptions C04_generated_combined_defaults_are_model.

Theorem C04_generated_hess_psi_prod_is_model : forall (P : problem (T:=R)) prov m x y Σ scale v,
  gvt_eval_hess_psi_prod P prov m x y Σ scale v = te_hess_psi_prod P prov m x y Σ scale v.
Proof. exact gvt_hess_psi_prod_equiv. Qed.
Print Assumptions C04_generated_hess_psi_prod_is_model.

(* the property itself, for the generated terms *)
Theorem C04_generated_eval_psi_yhat_def : forall P prov, provider_ok P prov ->
  forall x y Σ yh_in, (y = [] -> yh_in = []) ->
  fst (gvt_eval_psi P prov x y Σ yh_in) = (psi_def P x y Σ, yhat_def P x y Σ).
Proof. exact gen_psi_def. Qed.
Print Assumptions C04_generated_eval_psi_yhat_def.

Theorem C04_generated_eval_grad_psi_def : forall P prov, provider_ok P prov -> grad_g_prod_empty_ok P ->
  forall x y Σ, fst (gvt_eval_grad_psi P prov x y Σ) = vadd (pgrad_f P x) (pgrad_g_prod P x (yhat_def P x y Σ)).
Proof. exact gen_grad_psi_def. Qed.
Print Assumptions C04_generated_eval_grad_psi_def.

Theorem C04_generated_eval_psi_grad_psi_def : forall P prov, provider_ok P prov -> grad_g_prod_empty_ok P ->
  forall x y Σ, fst (gvt_eval_psi_grad_psi P prov x y Σ)
                = (psi_def P x y Σ, vadd (pgrad_f P x) (pgrad_g_prod P x (yhat_def P x y Σ))).
Proof. exact gen_psi_grad_psi_def. Qed.
Print Assumptions C04_generated_eval_psi_grad_psi_def.

Theorem C04_generated_eval_grad_L_def : forall P prov, provider_ok P prov -> grad_g_prod_empty_ok P ->
  forall x y, fst (gvt_eval_grad_L P prov x y) = vadd (pgrad_f P x) (pgrad_g_prod P x y).
Proof. exact gen_grad_L_def. Qed.
Print Assumptions C04_generated_eval_grad_L_def.

Theorem C04_generated_calls_only_provided_members : forall (P : problem (T:=R)) prov x y Σ,
  log_ok prov (snd (gvt_eval_psi P prov x y Σ [])) /\ log_ok prov (snd (gvt_eval_grad_psi P prov x y Σ)) /\
  log_ok prov (snd (gvt_eval_psi_grad_psi P prov x y Σ)) /\ log_ok prov (snd (gvt_eval_grad_L P prov x y)).
Proof. exact gen_logs_only_provided. Qed.
Print Assumptions C04_generated_calls_only_provided_members.

(* ---- (9) finite theorems over the generated tables (the bound is the table itself) ---- *)
Theorem C04_vtable_methods_wellformed : forall m, In m vtable_methods -> chk_method m = true.
Proof. exact vtable_methods_wellformed. Qed.
Print Assumptions C04_vtable_methods_wellformed.

Theorem C04_vtable_ctor_complete :
  list_eqb vtable_ctor_names (map vm_name vtable_methods) = true /\
  list_eqb vtable_provides_names (map vm_name (filter (fun m => negb (vm_required m)) vtable_methods)) = true.
Proof. exact vtable_ctor_complete. Qed.
Print Assumptions C04_vtable_ctor_complete.

Theorem C04_throwing_defaults_throw_under_their_own_name : forall m, In m vtable_methods -> chk_throw_name m = true.
Proof. exact vtable_throwing_defaults_named. Qed.
Print Assumptions C04_throwing_defaults_throw_under_their_own_name.

Theorem C04_defaults_call_through_the_vtable : forall s, In s vtable_call_sites -> chk_site vtable_methods s = true.
Proof. exact vtable_call_sites_ok. Qed.
Print Assumptions C04_defaults_call_through_the_vtable.

Theorem C04_default_composition_acyclic : forall m, In m vtable_methods -> chk_acyclic vtable_methods m = true.
Proof. exact vtable_composition_acyclic. Qed.
Print Assumptions C04_default_composition_acyclic.

Theorem C04_supports_matches_conditional_default : forall s, In s vtable_supports -> chk_supports vtable_methods s = true.
Proof. exact vtable_supports_ok. Qed.
Print Assumptions C04_supports_matches_conditional_default.

Theorem C04_forwarders_pass_parameters_in_order : forall f, In f vtable_forwarders -> chk_forwarder f = true.
Proof. exact vtable_forwarders_ok. Qed.
Print Assumptions C04_forwarders_pass_parameters_in_order.

Theorem C04_casadi_call_args_ok : forall c, In c casadi_calls -> chk_casadi c = true.
Proof. exact casadi_call_args_ok. Qed.
Print Assumptions C04_casadi_call_args_ok.

(* ---- non-vacuity: a concrete problem (n = m = 1, f = x², g = x, D = [0,1]) satisfies the hypotheses, and the
   default composition (nothing supplied) and the all-supplied mask both give ψ = 9 + ½·2·(3.5 − 1)² = 15.25, ŷ = 5 ---- *)
Definition ex_base : problem (T:=R) :=
  {| pf := fun x => hd 0 x * hd 0 x; pgrad_f := fun x => [2 * hd 0 x]; pg := fun x => [hd 0 x];
     pgrad_g_prod := fun x y => [hd 0 y]; plb := [Some 0]; pub := [Some 1];
     uf_grad_f := fun _ => (0, []); uf_g := fun _ => (0, []); ugrad_f_grad_g_prod := fun _ _ => ([], []);
     ugrad_L := fun _ _ => []; upsi := fun _ _ _ => (0, []); ugrad_psi := fun _ _ _ => [];
     upsi_grad_psi := fun _ _ _ => (0, []); uhess_L_prod := fun _ _ _ _ => []; uhess_psi_prod := fun _ _ _ _ _ => [] |}.
Definition ex_problem : problem (T:=R) :=
  {| pf := pf ex_base; pgrad_f := pgrad_f ex_base; pg := pg ex_base; pgrad_g_prod := pgrad_g_prod ex_base;
     plb := plb ex_base; pub := pub ex_base;
     uf_grad_f := fun x => (pf ex_base x, pgrad_f ex_base x); uf_g := fun x => (pf ex_base x, pg ex_base x);
     ugrad_f_grad_g_prod := fun x y => (pgrad_f ex_base x, pgrad_g_prod ex_base x y);
     ugrad_L := grad_L_def ex_base;
     upsi := fun x y Σ => (psi_def ex_base x y Σ, yhat_def ex_base x y Σ);
     ugrad_psi := grad_psi_def ex_base;
     upsi_grad_psi := fun x y Σ => (psi_def ex_base x y Σ, grad_psi_def ex_base x y Σ);
     uhess_L_prod := fun _ _ _ _ => []; uhess_psi_prod := fun _ _ _ _ _ => [] |}.

Example C04_nonvacuous :
  (forall prov, provider_ok ex_problem prov) /\ grad_g_prod_empty_ok ex_problem /\
  te_psi ex_problem (fun c => negb (fn_optional c)) [3] [1] [2] = ((15.25, [5]), [Fg; Ff; Fproj_diff_g]) /\
  te_psi ex_problem (fun _ => true) [3] [1] [2] = ((15.25, [5]), [Fpsi]) /\
  fst (te_grad_psi ex_problem (fun c => negb (fn_optional c)) [3] [1] [2]) = [11] /\
  row_ok 3 {| r_l := Some 0; r_u := Some 1; r_σ := 2; r_y := 1; r_G := fun t => t; r_G' := 1 |}.
Proof.
  assert (Hpd : projdiff1 (T:=R) (Some 0) (Some 1) (3 + 1 / 2) = 5 / 2).
  { unfold projdiff1, proj1. numR. rbool; lra. }
  split; [intros prov; unfold provider_ok; repeat (split; [intros; reflexivity|]); intros; reflexivity|].
  split; [intros x; cbn; f_equal; numR; lra|].
  split.
  { cbv [te_psi negb fn_optional fn_code Nat.leb te_f_g calc_yhat calc_yhat_scalar bind ret call v_g v_f v_proj_diff_g
         fst snd app ex_problem ex_base pf pg plb pub hd projdiff map3 vadd vscale map2 map vdot vmul vsum redux fold_left half].
    cbn [n0 n1 nadd nsub nmul ndiv NumR n2]. unfold n2. cbn [n1 nadd NumR].
    replace (3 + 1 / 2 * 1) with (3 + 1 / 2) by lra. rewrite Hpd. repeat f_equal; lra. }
  split.
  { cbv [te_psi ex_problem upsi call psi_def yhat_def zeta_def zeta_of yhat_of dist2_of expand_sigma length repeat
         map3 map4 sumr ex_base pf pg plb pub hd half].
    cbn [n0 n1 nadd nsub nmul ndiv NumR]. unfold n2. cbn [n1 nadd NumR]. rewrite Hpd. repeat f_equal; lra. }
  split.
  { cbv [te_grad_psi negb fn_optional fn_code Nat.leb te_grad_L te_grad_f_grad_g_prod calc_yhat calc_yhat_scalar bind ret call
         v_g v_grad_f v_grad_g_prod v_proj_diff_g fst snd app ex_problem ex_base pgrad_f pgrad_g_prod pg plb pub hd projdiff
         map3 vadd vscale map2 map].
    cbn [n0 n1 nadd nsub nmul ndiv NumR].
    replace (3 + 1 / 2 * 1) with (3 + 1 / 2) by lra. rewrite Hpd. repeat f_equal; lra. }
  unfold row_ok; cbn. split; [lra|]. split; [lra|]. apply derivable_pt_lim_id.
Qed.

Import String.
Example C04_tables_nonvacuous :
  (28 <= List.length vtable_methods)%nat /\ (20 <= List.length vtable_call_sites)%nat /\ (10 <= List.length casadi_calls)%nat /\
  In ("default_eval_ψ"%string, calc_name, true, ["self"; "ŷ"; "y"; "Σ"; "vtable"]%string) vtable_call_sites.
Proof. vm_compute. repeat split; try lia. tauto. Qed.
