(* Corr_PANTR.v — whole-run correspondence: Pantr.pantr at binary64 against PANTRSolver<ScriptedTRDirection>::operator() as run by
   harness/drv_solve.cpp (problem family, stop injection and evaluation counting of Corr_PANOC.v). *)
From Coq Require Import Floats List ZArith Bool Arith.
From Alpaqa Require Import Num NumF Vec Prox SolverStatus SolverKernels AugLag Panoc Corr_PANOC ZeroFpr Pantr.
Import ListNotations.
Local Open Scope float_scope.

(* ScriptedTRDirection::clip / apply *)
Definition clipv (Δ : float) (v : list float) : list float :=
  let nrm := vnorm2 v in if Δ <? nrm then map (fun x => x * (Δ / nrm)) v else v.
Definition scripted_tr (script : list nat) (n : nat) (j : nat) (px : iterate (T:=float)) (Δ : float) : list float * float :=
  let p := ip px in let g := igrad px in
  match kind_at script j with
  | 1%nat => let q := clipv Δ p in (q, vdot q g)
  | 2%nat => let q := clipv Δ (map (fun v => 3 * v) p) in (q, vdot q g)
  | 3%nat => let q := clipv Δ (map (fun v => (- igam px) * v) g) in (q, vdot q g)
  | 4%nat => (clipv Δ (map (fun v => 10 * v) g), -1)
  | 5%nat => (repeat nan n, -1)
  | 6%nat => (clipv Δ p, -0x1.0624dd2f1a9fcp-10)
  | 7%nat => (clipv Δ p, nan)
  | 8%nat => let q := clipv Δ (map (fun v => 0x1.7d784p+26 * v) p) in (q, vdot q g)
  | _ => (repeat 0 n, 0)
  end.

Record yrec := mkY { y_k : nat; y_status : status; y_x : list float; y_p : list float; y_nsqp : float; y_xh : list float;
                     y_yh : list float; y_phi : float; y_psi : float; y_grad : list float; y_psih : float; y_gradh : list float;
                     y_L : float; y_gamma : float; y_eps : float; y_acc : float; y_q : list float; y_delta : float; y_rho : float }.

Inductive tcase :=
| TCase (n : nat) (Q : list (list float)) (c w : list float) (A : list (list float)) (d : list float)
        (Clb Cub Dlb Dub l1 : list float) (x0 y0 S0 : list float)
        (prm : trparams (T:=float)) (script : list nat) (initial : bool)
        (stop_eval stop_cb stop_dir : Z) (time0 : bool) (fuel btfuel : nat)
        (status : status) (iterations : nat) (eps : float) (x_out y_out errz : list float)
        (ist : list nat)        (* stepsize_backtracks accelerated_step_rejected direction_failures *)
        (fst_ : list float)     (* final_gamma final_psi final_h final_phi *)
        (evals dircalls cbs : nat) (recs : list yrec).

Definition run_case_t (cs : tcase) : tresult (T:=float) :=
  match cs with
  | TCase n Q c w A d Clb Cub Dlb Dub l1 x0 y0 S0 prm script initial se sc sd time0 fuel btfuel _ _ _ _ _ _ _ _ _ _ _ _ =>
      let dlb := map lb_of_float Dlb in let dub := map ub_of_float Dub in
      let m := length y0 in
      pantr (o_psi_grad_full n Q c w A d dlb dub y0 S0) (o_psi_yhat n Q c w A d dlb dub y0 S0)
            (o_grad_L n Q c w A d) (o_grad_psi n Q c w A d dlb dub y0 S0)
            (map lb_of_float Clb) (map ub_of_float Cub) l1
            (scripted_tr script n) initial
            (fun cn => after se (evals_of m cn) || after sc (c_cb cn) || after sd (c_dir cn))
            (fun _ => time0)
            prm x0 y0 S0 (repeat nan m) btfuel fuel
  end.

Definition ofl (o : option float) : float := match o with Some v => v | None => nan end.
Definition yrec_of (r : trec (T:=float)) : yrec :=
  let i := t_it r in
  mkY (t_k r) (t_status r) (ix i) (ip i) (ipp i) (ixh i) (iyh i) (it_fbe i) (ipsi i) (igrad i) (ipsih i) (t_gradh r)
      (iL i) (igam i) (t_eps r) (if t_acc r then 1 else 0) (t_q r) (ofl (t_delta r)) (ofl (t_rho r)).
Definition yrec_agree (a b : yrec) : bool :=
  Nat.eqb (y_k a) (y_k b) && status_eqb (y_status a) (y_status b) && vfeq (y_x a) (y_x b) && vfeq (y_p a) (y_p b) &&
  feq (y_nsqp a) (y_nsqp b) && vfeq (y_xh a) (y_xh b) && vfeq (y_yh a) (y_yh b) && feq (y_phi a) (y_phi b) &&
  feq (y_psi a) (y_psi b) && vfeq (y_grad a) (y_grad b) && feq (y_psih a) (y_psih b) &&
  (* never-written buffers (uninitialised memory in the C++) are [] in the model *)
  (match y_gradh a with [] => true | _ => vfeq (y_gradh a) (y_gradh b) end) &&
  feq (y_L a) (y_L b) && feq (y_gamma a) (y_gamma b) && feq (y_eps a) (y_eps b) && feq (y_acc a) (y_acc b) &&
  (match y_q a with [] => true | _ => vfeq (y_q a) (y_q b) end) &&
  feq (y_delta a) (y_delta b) && feq (y_rho a) (y_rho b).

Definition tist_of (o : toutputs (T:=float)) : list nat :=
  let s := to_stats o in [s_stepsize_bt s; s_ls_fail s; s_dir_fail s].
Definition tfst_of (o : toutputs (T:=float)) : list float :=
  let f := to_final o in [igam f; ipsih f; ih f; it_fbe f].

Definition chkpantr (cs : tcase) : bool :=
  match cs with
  | TCase n Q c w A d Clb Cub Dlb Dub l1 x0 y0 S0 prm script initial se sc sd time0 fuel btfuel
          status iterations eps x_out y_out errz ist fst_ evals dircalls cbs recs =>
      match run_case_t cs with
      | TDone o =>
          status_eqb (to_status o) status && Nat.eqb (to_iterations o) iterations && feq (to_eps o) eps &&
          vfeq (to_x o) x_out && vfeq (to_y o) y_out && vfeq (to_errz o) errz &&
          list_agree Nat.eqb (tist_of o) ist && vfeq (tfst_of o) fst_ &&
          Nat.eqb (evals_of (length y0) (to_cnt o)) evals && Nat.eqb (c_dir (to_cnt o)) dircalls && Nat.eqb (c_cb (to_cnt o)) cbs &&
          list_agree yrec_agree (map yrec_of (to_log o)) recs
      | TNotFiniteL _ =>
          status_eqb StNotFinite status && Nat.eqb 0 iterations && feq infinity eps &&
          vfexact x0 x_out && vfexact y0 y_out && vfexact (repeat nan (length y0)) errz &&
          list_agree Nat.eqb [0; 0; 0]%nat ist && Nat.eqb 0 cbs && match recs with [] => true | _ => false end
      | TOutOfFuel => false
      end
  end.

Definition tcase_m (cs : tcase) : nat :=
  match cs with
  | TCase n Q c w A d Clb Cub Dlb Dub l1 x0 y0 S0 prm script initial se sc sd time0 fuel btfuel
          status iterations eps x_out y_out errz ist fst_ evals dircalls cbs recs => length y0
  end.
Definition modelpantr (cs : tcase) :=
  match run_case_t cs with
  | TDone o => (Some (to_status o, to_iterations o, to_eps o, (to_x o, to_y o, to_errz o), (tist_of o, tfst_of o)),
                (evals_of (tcase_m cs) (to_cnt o), c_dir (to_cnt o), c_cb (to_cnt o), c_polls (to_cnt o)),
                map yrec_of (to_log o))
  | TNotFiniteL L => (None, (0, 0, 0, 0)%nat, [])
  | TOutOfFuel => (None, (1, 1, 1, 1)%nat, [])
  end.
