(* PantrDir.v — PANTRSolver<DirectionProviderT>::operator() with a STATEFUL trust-region direction provider (DirectionsTR.trdirops):
   the loop of Pantr.v with the provider state threaded through every call site of pantr.tpp:
     k == 0, after compute_FBS_step:          direction.initialize(problem, y, Σ, prox.γ, prox.x, prox.x̂, prox.p, prox.∇ψ)
     (k > 0 || has_initial_direction) && !disable_acceleration:
                                              q_model = direction.apply(prox.γ, prox.x, prox.x̂, prox.p, prox.∇ψ, Δ, q)
                                              !q.allFinite(): ++direction_failures; direction.reset(); q_model = +inf
                                              else q_model >= 0: ++direction_failures; direction.reset()
     accepted TR step:                        prox.γ != cand.γ: direction.changed_γ(cand.γ, prox.γ) [+ recompute prox step];
                                              direction_update_rejected += !direction.update(prox.γ, cand.γ, prox.x, cand.x, prox.p, cand.p, prox.∇ψ, cand.∇ψ)
     fall-back prox step:                     prox.γ != curr.γ: direction.changed_γ(prox.γ, curr.γ) [+ recompute curr step];
                                              update_direction_on_prox_step: direction_update_rejected += !direction.update(curr.γ, prox.γ, curr.x, prox.x, ...)
   Pantr.v only COUNTS these calls (inc_dir / inc_apply) and takes the result (q, q_model) of apply from an oracle.  Everything the
   solver itself computes in one pass of `while (true)` is Pantr.tpass, re-used here unchanged: one pass of this model is
        [stop check + compute_FBS_step (pass_prox, the head of Pantr.tpass)]  ->  initialize  ->  apply  ->  reset on failure
        ->  Pantr.tpass with the constant oracle "what this apply call returned"  ->  changed_γ / update on the iterates of the new state.
   An exception thrown by a provider call (NewtonTRDirection: capability checks in initialize, non-finite / too small radius in apply)
   leaves operator(): TThrewD with the callback log so far.
   Extra outputs w.r.t. Pantr.v: PANTRStats::direction_update_rejected, the final provider state, and the list of apply calls of the run
   (FBS iterate the direction was computed at, radius, returned q, returned model value) — the oracle of the refinement theorem
   (PantrDirProofs.v) and the subject of the C11 composition.   Model only; no proofs here. *)
From Coq Require Import List ZArith Bool Arith.
From Alpaqa Require Import Num Vec Prox SolverStatus SolverKernels StopChain Panoc ZeroFpr Pantr DirectionsTR.
Import ListNotations.

Section PantrDir.
  Context {T : Type} `{Num T}.
  Local Open Scope num_scope.
  Notation iterate := (iterate (T:=T)).
  Notation tstate := (tstate (T:=T)).
  Notation trec := (trec (T:=T)).
  Notation toutputs := (toutputs (T:=T)).

  (* the outside world, as in Pantr.v, without the direction oracle *)
  Variable psi_grad_full : list T -> T * list T * list T.
  Variable psi_yhat : list T -> T * list T.
  Variable grad_L : list T -> list T -> list T.
  Variable grad_psi : list T -> list T.
  Variables (lb ub : list (option T)) (l1 : list T).
  Variable D : Type.
  Variable ops : trdirops T D.
  Variable stop_req : counters -> bool.
  Variable time_up : counters -> bool.
  Variable TP : trparams (T:=T).
  Variables (x_in y_in Σ errz_in : list T).
  Variable bt_fuel : nat.

  Notation P := (tp_base TP).
  Notation tpass_ O := (tpass psi_grad_full psi_yhat grad_L lb ub l1 O (td_has_initial D ops) stop_req time_up TP x_in y_in Σ errz_in bt_fuel).

  (* one call of direction.apply: the FBS iterate it was computed at, the radius, the returned step and model value *)
  Record tcall := mkCall { tc_prox : iterate; tc_delta : T; tc_q : list T; tc_val : T }.

  Record tstateD := mkTsD {
    tsd_st : tstate;                 (* Pantr.v's loop state *)
    tsd_dir : D;                     (* the provider *)
    tsd_rej : nat;                   (* s.direction_update_rejected *)
    tsd_calls : list tcall }.        (* the apply calls so far, oldest first *)
  Record toutputsD := mkToutD { tod_out : toutputs; tod_rej : nat; tod_dir : D; tod_calls : list tcall }.
  Inductive tresultD := TDoneD (o : toutputsD) | TNotFiniteLD (L : T) | TOutOfFuelD
                      | TThrewD (log : list trec) (d : D) (calls : list tcall).   (* a provider call threw: the exception leaves operator() *)
  Inductive tpass_resultD := TExitD (o : toutputsD) | TContD (s : tstateD) | TFuelD | TThrowD (log : list trec) (d : D) (calls : list tcall).

  (* the head of Pantr.tpass: stopping criterion, stop check; when Busy, compute_FBS_step.
     Some (prox, c4): the FBS iterate handed to the provider and the event counters at the apply call;  None: the pass exits *)
  Definition pass_prox (s : tstate) : option (iterate * counters) :=
    let curr := ts_curr s in
    let need := crit_needs_gradh (p_crit P) in
    let gbuf0 := if need then grad_L (ixh curr) (iyh curr) else ts_gbuf s in
    let c0 := if need then inc_gl (ts_cnt s) else ts_cnt s in
    let ε := crit_eps (p_crit P) lb ub l1 (ip curr) (igam curr) (ix curr) (ixh curr) (iyh curr) (igrad curr) gbuf0 in
    let k := ts_k s in
    let te := time_up c0 in
    let sr := stop_req c0 in
    let c1 := inc_polls c0 in
    let st := stop_status_helpers (o_tol P) ε te k (p_max_iter P) 0 (p_max_no_progress P) sr in
    match st with
    | StBusy =>
        let gbuf1 := if need then gbuf0 else grad_L (ixh curr) (iyh curr) in
        let c2 := if need then c1 else inc_gl c1 in
        let prox := fbs_iterate psi_grad_full lb ub l1 curr (ts_prox s) gbuf1 in
        let c3 := inc_pg c2 in
        let c4 := if (k =? 0)%nat then inc_dir c3 else c3 in
        Some (prox, c4)
    | _ => None
    end.

  (* the oracle "this pass's apply returned r" *)
  Definition oracle_const (r : list T * T) : nat -> iterate -> T -> list T * T := fun _ _ _ => r.

  Definition dir_update (d : D) (a b : iterate) : bool * D :=
    td_update _ ops d (igam a) (igam b) (ix a) (ix b) (ip a) (ip b) (igrad a) (igrad b).

  (* "Accept TR step" / "Fall back to proximal gradient step": the provider calls, on the iterates of the new state s'
       accepted:  s' = (curr := cand [after its QUB loop], prox := prox [recomputed if γ changed and the flag is set], cand := old curr)
       rejected:  s' = (curr := prox [after its QUB loop], prox := old curr [recomputed ...], cand := cand)
     `curr`, `prox`: the iterates before the step (prox.γ / curr.γ are the OLD step sizes compared by the code) *)
  Definition dir_after (d : D) (curr prox : iterate) (s' : tstate) : bool * D :=
    if ts_acc s' then
      let cand2 := ts_curr s' in let prox2 := ts_prox s' in
      let d1 := if negb (igam prox =? igam cand2) then td_changed_gamma _ ops d (igam cand2) (igam prox) else d in
      dir_update d1 prox2 cand2
    else
      let prox2 := ts_curr s' in let curr2 := ts_prox s' in
      let d1 := if negb (igam prox2 =? igam curr) then td_changed_gamma _ ops d (igam prox2) (igam curr) else d in
      if tp_upd_on_prox TP then dir_update d1 curr2 prox2 else (true, d1).

  Definition passD (sD : tstateD) : tpass_resultD :=
    let s := tsd_st sD in
    match pass_prox s with
    | None =>
        match tpass_ (oracle_const ([], n0)) s with
        | TExit o => TExitD (mkToutD o (tsd_rej sD) (tsd_dir sD) (tsd_calls sD))
        | _ => TFuelD
        end
    | Some (prox, c4) =>
        let k := ts_k s in
        match (if (k =? 0)%nat
               then td_initialize _ ops (tsd_dir sD) y_in Σ (igam prox) (ix prox) (ixh prox) (ip prox) (igrad prox)
               else Some (tsd_dir sD)) with
        | None => TThrowD (rev (ts_log s)) (tsd_dir sD) (tsd_calls sD)
        | Some d1 =>
            let accelerated := (0 <? k)%nat || td_has_initial _ ops in
            let called := accelerated && negb (tp_disable_accel TP) in
            match (if called
                   then td_apply _ ops d1 (igam prox) (ix prox) (ixh prox) (ip prox) (igrad prox) (ts_delta s) (ts_q s)
                   else Some (ts_q s, n0, d1)) with
            | None => TThrowD (rev (ts_log s)) d1 (tsd_calls sD)
            | Some (q, qm, d2) =>
                (* Check if step is valid *)
                let d3 := if called && (negb (vall_finite q) || (n0 <=? qm)) then td_reset _ ops d2 else d2 in
                let calls := if called then tsd_calls sD ++ [mkCall prox (ts_delta s) q qm] else tsd_calls sD in
                match tpass_ (oracle_const (q, qm)) s with
                | TCont s' =>
                    let ud := dir_after d3 (ts_curr s) prox s' in
                    TContD (mkTsD s' (snd ud) (if fst ud then tsd_rej sD else S (tsd_rej sD)) calls)
                | _ => TFuelD
                end
            end
        end
    end.

  Fixpoint tloopD (fuel : nat) (s : tstateD) : tresultD :=
    match fuel with
    | O => TOutOfFuelD
    | S f => match passD s with
             | TExitD o => TDoneD o
             | TContD s' => tloopD f s'
             | TFuelD => TOutOfFuelD
             | TThrowD log d c => TThrewD log d c
             end
    end.

  Variable d0 : D.      (* the provider as constructed *)

  Definition pantrD (fuel : nat) : tresultD :=
    let '(i0, c0) := init_L psi_grad_full grad_psi P x_in in
    if negb (nfinite (iL i0)) then TNotFiniteLD (iL i0)
    else
      let i1 := set_gamma_L i0 (p_Lgamma P / iL i0) (iL i0) in
      let i2 := eval_cost psi_yhat (eval_prox lb ub l1 i1) in
      match backtrack psi_yhat lb ub l1 TP bt_fuel i2 (inc_py c0) stats0 with
      | None => TOutOfFuelD
      | Some (i3, c1, s1) =>
          tloopD fuel (mkTsD (mkTs i3 it_blank it_blank [] 0 [] (initial_delta TP (igrad i3)) None false c1 s1 []) d0 0 [])
      end.
End PantrDir.
