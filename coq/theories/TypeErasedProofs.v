(* TypeErasedProofs.v — invariants of the TypeErased model (TypeErased.v), for ALL operation sequences. *)
From Coq Require Import ZArith List Bool Lia Arith.
From Alpaqa Require Import TypeErased.
Import ListNotations.
Local Open Scope Z_scope.

Notation owns := size_indicates_ownership.

Lemma loc_eqb_spec a b : reflect (a = b) (loc_eqb a b).
Proof.
  destruct a as [x|x|x], b as [y|y|y]; simpl; try (constructor; congruence);
    destruct (Nat.eqb_spec x y); constructor; congruence.
Qed.
Lemma loc_eqb_refl a : loc_eqb a a = true.
Proof. destruct (loc_eqb_spec a a); congruence. Qed.

Ltac eqb_cases :=
  repeat match goal with
  | |- context [Nat.eqb ?a ?b] => destruct (Nat.eqb_spec a b); subst
  | H : context [Nat.eqb ?a ?b] |- _ => destruct (Nat.eqb_spec a b); subst
  | |- context [loc_eqb ?a ?b] => destruct (loc_eqb_spec a b); subst
  | H : context [loc_eqb ?a ?b] |- _ => destruct (loc_eqb_spec a b); subst
  end.

Section Inv.
Variable c : cfg.

Definition owner (st : state) (s : nat) (l : loc) : Prop :=
  exists w, pool st s = Some w /\ self w = Some l /\ owns (size w) = true.

(* what a wrapper's fields must mean *)
Definition wr_ok (st : state) (s : nat) (w : wr) : Prop :=
  forall l, self w = Some l ->
    (owns (size w) = false -> exists e, l = LExt e /\ (e < n_ext c)%nat) /\
    (owns (size w) = true ->
       (exists o, mem st l = Some o /\ osz o = size w) /\
       (size w <= sbo c -> l = LBuf s) /\
       (sbo c < size w -> exists b, l = LHeap b /\ blocks st b = Some (alloc w, size w))).

Record inv (st : state) : Prop := {
  i_err : errs st = [];
  i_wr : forall s w, pool st s = Some w -> wr_ok st s w;
  i_mem : forall l o, mem st l = Some o ->
            match l with LExt e => (e < n_ext c)%nat | _ => exists s, owner st s l end;
  i_ext : forall e, (e < n_ext c)%nat -> mem st (LExt e) <> None;
  i_uniq : forall s1 s2 l, owner st s1 l -> owner st s2 l -> s1 = s2;
  i_blk : forall b az, blocks st b = Some az -> exists s, owner st s (LHeap b);
  i_fresh : forall b, (next_blk st <= b)%nat -> blocks st b = None }.

Definition nonowner (st : state) (i : nat) : Prop := forall l, ~ owner st i l.
Definition valid_nonowner (w' : option wr) : Prop :=
  match w' with
  | None => True
  | Some x => forall l, self x = Some l -> owns (size x) = false /\ exists e, l = LExt e /\ (e < n_ext c)%nat
  end.

Lemma owner_facts st s l : inv st -> owner st s l ->
  exists w o, pool st s = Some w /\ self w = Some l /\ owns (size w) = true /\ mem st l = Some o /\ osz o = size w /\
    ((size w <= sbo c /\ l = LBuf s) \/ (sbo c < size w /\ exists b, l = LHeap b /\ blocks st b = Some (alloc w, size w))).
Proof.
  intros I (w & Hp & Hs & Ho). destruct (i_wr _ I _ _ Hp _ Hs) as [_ H]. destruct (H Ho) as ((o & Hm & Hz) & Hb & Hh).
  exists w, o. repeat split; auto. destruct (Z_le_gt_dec (size w) (sbo c)); [left | right]; split; auto; try lia. apply Hh; lia.
Qed.

Lemma owner_not_ext st s e : inv st -> ~ owner st s (LExt e).
Proof. intros I O. destruct (owner_facts _ _ _ I O) as (w & o & _ & _ & _ & _ & _ & [[_ H] | [_ (b & H & _)]]); discriminate. Qed.

Lemma owner_buf st s s' : inv st -> owner st s (LBuf s') -> s = s'.
Proof. intros I O. destruct (owner_facts _ _ _ I O) as (w & o & _ & _ & _ & _ & _ & [[_ H] | [_ (b & H & _)]]); congruence. Qed.

Lemma nonowner_buf_free st i : inv st -> nonowner st i -> mem st (LBuf i) = None.
Proof.
  intros I N. destruct (mem st (LBuf i)) eqn:E; auto. destruct (i_mem _ I _ _ E) as (s & O).
  pose proof (owner_buf _ _ _ I O); subst. elim (N _ O).
Qed.

Lemma fresh_heap_free st b : inv st -> (next_blk st <= b)%nat -> mem st (LHeap b) = None.
Proof.
  intros I F. destruct (mem st (LHeap b)) eqn:E; auto. destruct (i_mem _ I _ _ E) as (s & O).
  destruct (owner_facts _ _ _ I O) as (w & o' & _ & _ & _ & _ & _ & [[_ H] | [_ (b' & H & Hb)]]); try discriminate.
  inversion H; subst. rewrite (i_fresh _ I _ F) in Hb. discriminate.
Qed.

(* ---------------------------------------------------------------- abstract transitions preserving the invariant *)

(* T1: a slot that owns nothing is replaced by anything that owns nothing *)
Lemma inv_replace_nonowner st st' i w' :
  inv st -> nonowner st i -> valid_nonowner w' ->
  (forall s, pool st' s = if Nat.eqb s i then w' else pool st s) ->
  (forall l, mem st' l = mem st l) -> (forall b, blocks st' b = blocks st b) ->
  errs st' = [] -> (next_blk st <= next_blk st')%nat -> inv st'.
Proof.
  intros I N V Hp Hm Hb He Hn.
  assert (OW : forall s l, owner st' s l -> owner st s l).
  { intros s l (w & P & S & O). rewrite Hp in P. destruct (Nat.eqb_spec s i) as [->|Nsi].
    - destruct w' as [x|]; try discriminate. inversion P; subst. destruct (V _ S) as [F _]. congruence.
    - exists w; auto. }
  assert (OW' : forall s l, owner st s l -> owner st' s l).
  { intros s l (w & P & S & O). destruct (Nat.eqb_spec s i) as [->|Nsi].
    - elim (N l). exists w; auto.
    - exists w. rewrite Hp. destruct (Nat.eqb_spec s i); try congruence. auto. }
  constructor; auto.
  - intros s w P l S. rewrite Hp in P. destruct (Nat.eqb_spec s i) as [->|Nsi].
    + subst w'. destruct (V _ S) as [F E]. split; intros; auto; congruence.
    + destruct (i_wr _ I _ _ P _ S) as [A B]. split; auto. intros O. rewrite Hm. destruct (B O) as (B1 & B2 & B3).
      repeat split; auto. intros L. destruct (B3 L) as (b & -> & Bb). exists b. rewrite Hb; auto.
  - intros l o M. rewrite Hm in M. pose proof (i_mem _ I _ _ M). destruct l; auto; destruct H as (s' & O); eauto.
  - intros e E. rewrite Hm. apply (i_ext _ I); auto.
  - intros s1 s2 l O1 O2. eapply (i_uniq _ I); eauto.
  - intros b az B. rewrite Hb in B. destruct (i_blk _ I _ _ B) as (s & O). eauto.
  - intros b F. rewrite Hb. apply (i_fresh _ I). lia.
Qed.

(* T2: an owning slot gives up its payload: object destroyed, block (if any) freed, slot left empty or dead *)
Lemma inv_release st st' i l w' :
  inv st -> owner st i l ->
  (match w' with None => True | Some x => self x = None end) ->
  (forall s, pool st' s = if Nat.eqb s i then w' else pool st s) ->
  (forall l', mem st' l' = if loc_eqb l' l then None else mem st l') ->
  (forall b, blocks st' b = match l with LHeap b0 => if Nat.eqb b b0 then None else blocks st b | _ => blocks st b end) ->
  errs st' = [] -> (next_blk st <= next_blk st')%nat -> inv st'.
Proof.
  intros I O V Hp Hm Hb He Hn.
  assert (OW : forall s l2, owner st' s l2 -> owner st s l2 /\ s <> i).
  { intros s l2 (w & P & S & Ow). rewrite Hp in P. destruct (Nat.eqb_spec s i) as [->|Nsi].
    - destruct w' as [x|]; try discriminate. inversion P; subst. congruence.
    - split; auto. exists w; auto. }
  assert (OW' : forall s l2, owner st s l2 -> s <> i -> owner st' s l2).
  { intros s l2 (w & P & S & Ow) Ne. exists w. rewrite Hp. destruct (Nat.eqb_spec s i); try congruence. auto. }
  assert (NE : forall s l2, owner st s l2 -> s <> i -> l2 <> l).
  { intros s l2 O2 Ne ->. apply Ne. eapply (i_uniq _ I); eauto. }
  constructor; auto.
  - intros s w P l2 S. rewrite Hp in P. destruct (Nat.eqb_spec s i) as [->|Nsi].
    + destruct w' as [x|]; try discriminate. inversion P; subst. congruence.
    + destruct (i_wr _ I _ _ P _ S) as [A B]. split; auto. intros Ow.
      assert (l2 <> l) by (eapply NE; eauto; exists w; auto).
      rewrite Hm. destruct (loc_eqb_spec l2 l); try congruence.
      destruct (B Ow) as (B1 & B2 & B3). repeat split; auto. intros L. destruct (B3 L) as (b & -> & Bb). exists b. split; auto.
      rewrite Hb. destruct l; auto. destruct (Nat.eqb_spec b b0); subst; congruence.
  - intros l2 o M. rewrite Hm in M. destruct (loc_eqb_spec l2 l) as [|Nl]; try discriminate.
    pose proof (i_mem _ I _ _ M) as H.
    assert (K : forall s', owner st s' l2 -> owner st' s' l2).
    { intros s' O2. apply OW'; auto. intros ->. apply Nl.
      destruct O as (wa & Pa & Sa & _), O2 as (wb & Pb & Sb & _). congruence. }
    destruct l2; auto; destruct H as (s' & O2); exists s'; auto.
  - intros e E. rewrite Hm. destruct (loc_eqb_spec (LExt e) l); subst.
    + elim (owner_not_ext _ _ _ I O).
    + apply (i_ext _ I); auto.
  - intros s1 s2 l2 O1 O2. destruct (OW _ _ O1), (OW _ _ O2). eapply (i_uniq _ I); eauto.
  - intros b az B. rewrite Hb in B.
    assert (Bo : blocks st b = Some az /\ LHeap b <> l).
    { destruct l; try (split; auto; discriminate). destruct (Nat.eqb_spec b b0); try discriminate. split; auto. congruence. }
    destruct Bo as [Bo Nl]. destruct (i_blk _ I _ _ Bo) as (s & O2). exists s. apply OW'; auto.
    intros ->. apply Nl. destruct O as (wa & Pa & Sa & _), O2 as (wb & Pb & Sb & _). congruence.
  - intros b F. rewrite Hb. assert (blocks st b = None) by (apply (i_fresh _ I); lia). destruct l; auto. destruct (Nat.eqb b b0); auto.
Qed.

(* T3: an empty slot acquires a freshly constructed payload, in its own buffer or in a fresh block of ITS allocator *)
Lemma inv_acquire st st' i z a o l :
  inv st -> nonowner st i -> owns z = true -> osz o = z ->
  ((z <= sbo c /\ l = LBuf i) \/ (sbo c < z /\ l = LHeap (next_blk st) /\ (next_blk st < next_blk st')%nat)) ->
  (forall s, pool st' s = if Nat.eqb s i then Some {| self := Some l; size := z; alloc := a |} else pool st s) ->
  (forall l', mem st' l' = if loc_eqb l' l then Some o else mem st l') ->
  (forall b, blocks st' b = match l with LHeap b0 => if Nat.eqb b b0 then Some (a, z) else blocks st b | _ => blocks st b end) ->
  errs st' = [] -> (next_blk st <= next_blk st')%nat -> inv st'.
Proof.
  intros I N Oz Hz Hl Hp Hm Hb He Hn.
  assert (ML : mem st l = None).
  { destruct Hl as [[_ ->] | [_ [-> _]]]. apply nonowner_buf_free; auto. apply fresh_heap_free; auto. }
  assert (NX : forall e, l <> LExt e) by (intros e; destruct Hl as [[_ ->] | [_ [-> _]]]; discriminate).
  assert (OW : forall s l2, owner st' s l2 -> (s = i /\ l2 = l) \/ (s <> i /\ owner st s l2)).
  { intros s l2 (w & P & S & Ow). rewrite Hp in P. destruct (Nat.eqb_spec s i) as [->|Nsi].
    - inversion P; subst; simpl in *. left; split; congruence.
    - right. split; auto. exists w; auto. }
  assert (OW' : forall s l2, owner st s l2 -> owner st' s l2 /\ s <> i /\ l2 <> l).
  { intros s l2 O2. assert (s <> i) by (intros ->; elim (N _ O2)).
    destruct (owner_facts _ _ _ I O2) as (w & o2 & P & S & Ow & M & _). repeat split; auto; try congruence.
    exists w. rewrite Hp. destruct (Nat.eqb_spec s i); try congruence. auto. }
  assert (OI : owner st' i l).
  { eexists. rewrite Hp, Nat.eqb_refl. split; [reflexivity|]. simpl. auto. }
  constructor; auto.
  - intros s w P l2 S. rewrite Hp in P. destruct (Nat.eqb_spec s i) as [->|Nsi].
    + inversion P; subst; simpl in *. inversion S; subst. split; [congruence|]. intros _.
      rewrite Hm, loc_eqb_refl. split; [eauto|]. split.
      * intros L. destruct Hl as [[_ ->] | [L' _]]; auto; lia.
      * intros L. destruct Hl as [[L' _] | [_ [-> _]]]; try lia. eexists; split; eauto. rewrite Hb, Nat.eqb_refl. auto.
    + destruct (i_wr _ I _ _ P _ S) as [A B]. split; auto. intros Ow.
      assert (l2 <> l) by (eapply OW'; exists w; eauto).
      rewrite Hm. destruct (loc_eqb_spec l2 l); try congruence.
      destruct (B Ow) as (B1 & B2 & B3). repeat split; auto. intros L. destruct (B3 L) as (b & -> & Bb). exists b. split; auto.
      rewrite Hb. destruct l; auto. destruct (Nat.eqb_spec b b0); subst; congruence.
  - intros l2 o2 M. rewrite Hm in M. destruct (loc_eqb_spec l2 l); subst.
    + destruct l; try (exists i; auto). elim (NX e); auto.
    + pose proof (i_mem _ I _ _ M). destruct l2; auto; destruct H as (s' & O2); exists s'; apply OW'; auto.
  - intros e E. rewrite Hm. destruct (loc_eqb_spec (LExt e) l); try discriminate. apply (i_ext _ I); auto.
  - intros s1 s2 l2 O1 O2. destruct (OW _ _ O1) as [[-> ->] | [N1 O1']], (OW _ _ O2) as [[-> E2] | [N2 O2']]; auto.
    + destruct (OW' _ _ O2') as (_ & _ & X). congruence.
    + subst. destruct (OW' _ _ O1') as (_ & _ & X). congruence.
    + eapply (i_uniq _ I); eauto.
  - intros b az B. rewrite Hb in B. destruct l as [x|x|x]; try (destruct (i_blk _ I _ _ B) as (s & O2); exists s; apply OW'; auto).
    destruct (Nat.eqb_spec b x); subst; eauto. destruct (i_blk _ I _ _ B) as (s & O2); exists s; apply OW'; auto.
  - intros b F. rewrite Hb. assert (blocks st b = None) by (apply (i_fresh _ I); lia).
    destruct Hl as [[_ ->] | [_ [-> L]]]; auto. destruct (Nat.eqb_spec b (next_blk st)); auto. lia.
Qed.

(* T4: a heap payload changes hands between two slots with EQUAL allocators *)
Lemma inv_transfer st st' i j wj l wi' wj' :
  inv st -> i <> j -> nonowner st i -> pool st j = Some wj -> self wj = Some l -> owns (size wj) = true ->
  sbo c < size wj -> self wi' = Some l -> size wi' = size wj -> alloc wi' = alloc wj -> self wj' = None ->
  (forall s, pool st' s = if Nat.eqb s j then Some wj' else if Nat.eqb s i then Some wi' else pool st s) ->
  (forall l', mem st' l' = mem st l') -> (forall b, blocks st' b = blocks st b) ->
  errs st' = [] -> (next_blk st <= next_blk st')%nat -> inv st'.
Proof.
  intros I Nij N Pj Sj Oj Lj Si Zi Ai Sj' Hp Hm Hb He Hn.
  assert (OJ : owner st j l) by (exists wj; auto).
  assert (OW : forall s l2, owner st' s l2 -> (s = i /\ l2 = l) \/ (s <> i /\ s <> j /\ owner st s l2)).
  { intros s l2 (w & P & S & Ow). rewrite Hp in P. destruct (Nat.eqb_spec s j) as [->|Nsj].
    - inversion P; subst. congruence.
    - destruct (Nat.eqb_spec s i) as [->|Nsi].
      + inversion P; subst. left; split; congruence.
      + right. repeat split; auto. exists w; auto. }
  assert (OW' : forall s l2, owner st s l2 -> s <> j -> owner st' s l2 /\ s <> i /\ l2 <> l).
  { intros s l2 O2 Nj. assert (s <> i) by (intros ->; elim (N _ O2)). repeat split; auto.
    - destruct O2 as (w & P & S & Ow). exists w. rewrite Hp. destruct (Nat.eqb_spec s j); try congruence.
      destruct (Nat.eqb_spec s i); try congruence. auto.
    - intros ->. apply Nj. eapply (i_uniq _ I); eauto. }
  assert (OI : owner st' i l).
  { exists wi'. rewrite Hp. destruct (Nat.eqb_spec i j); try congruence. rewrite Nat.eqb_refl. repeat split; congruence. }
  destruct (owner_facts _ _ _ I OJ) as (w0 & o & P0 & _ & _ & M & Z & [[L' _] | [_ (b & -> & Bb)]]); try (rewrite Pj in P0; inversion P0; subst; lia).
  rewrite Pj in P0; inversion P0; subst w0.
  constructor; auto.
  - intros s w P l2 S. rewrite Hp in P. destruct (Nat.eqb_spec s j) as [->|Nsj].
    + inversion P; subst. congruence.
    + destruct (Nat.eqb_spec s i) as [->|Nsi].
      * inversion P; subst. assert (l2 = LHeap b) by congruence. subst. split; [congruence|]. intros _.
        rewrite Hm, Zi, Ai. split; [eauto|]. split; [lia|]. intros _. exists b. rewrite Hb. auto.
      * destruct (i_wr _ I _ _ P _ S) as [A B]. split; auto. intros Ow. rewrite Hm.
        destruct (B Ow) as (B1 & B2 & B3). repeat split; auto. intros L. destruct (B3 L) as (b' & -> & Bb'). exists b'. rewrite Hb; auto.
  - intros l2 o2 M2. rewrite Hm in M2. pose proof (i_mem _ I _ _ M2) as H.
    assert (K : forall s', owner st s' l2 -> exists s'', owner st' s'' l2).
    { intros s' O2. destruct (Nat.eq_dec s' j) as [->|Nj].
      - assert (l2 = LHeap b) by (destruct O2 as (wa & Pa & Sa & _); congruence). subst. eauto.
      - exists s'. apply OW'; auto. }
    destruct l2; auto; destruct H as (s' & O2); eauto.
  - intros e E. rewrite Hm. apply (i_ext _ I); auto.
  - intros s1 s2 l2 O1 O2. destruct (OW _ _ O1) as [[-> ->] | (N1 & N1' & O1')], (OW _ _ O2) as [[-> E2] | (N2 & N2' & O2')]; auto.
    + destruct (OW' _ _ O2' N2') as (_ & _ & X). congruence.
    + subst. destruct (OW' _ _ O1' N1') as (_ & _ & X). congruence.
    + eapply (i_uniq _ I); eauto.
  - intros b' az B. rewrite Hb in B. destruct (i_blk _ I _ _ B) as (s & O2).
    destruct (Nat.eq_dec s j).
    + subst. assert (LHeap b' = LHeap b) by (destruct O2 as (wa & Pa & Sa & _); congruence). rewrite H. eauto.
    + exists s. apply OW'; auto.
  - intros b' F. rewrite Hb. apply (i_fresh _ I). lia.
Qed.

(* T5: a write through a wrapper changes only the value of one live object *)
Lemma inv_write st st' l o v :
  inv st -> mem st l = Some o ->
  (forall s, pool st' s = pool st s) ->
  (forall l', mem st' l' = if loc_eqb l' l then Some {| oid := oid o; osz := osz o; oval := v |} else mem st l') ->
  (forall b, blocks st' b = blocks st b) -> errs st' = [] -> (next_blk st <= next_blk st')%nat -> inv st'.
Proof.
  intros I M Hp Hm Hb He Hn.
  assert (OW : forall s l2, owner st' s l2 <-> owner st s l2).
  { intros s l2; split; intros (w & P & S & Ow); exists w; [rewrite Hp in P | rewrite Hp]; auto. }
  constructor; auto.
  - intros s w P l2 S. rewrite Hp in P. destruct (i_wr _ I _ _ P _ S) as [A B]. split; auto. intros Ow.
    destruct (B Ow) as ((o2 & M2 & Z2) & B2 & B3). repeat split; auto.
    + rewrite Hm. destruct (loc_eqb_spec l2 l); subst; eauto. rewrite M in M2. inversion M2; subst. eexists; split; eauto.
    + intros L. destruct (B3 L) as (b & -> & Bb). exists b. rewrite Hb; auto.
  - intros l2 o2 M2. rewrite Hm in M2.
    assert (exists o3, mem st l2 = Some o3) as (o3 & M3) by (destruct (loc_eqb_spec l2 l); subst; eauto).
    pose proof (i_mem _ I _ _ M3). destruct l2; auto; destruct H as (s' & O2); exists s'; apply OW; auto.
  - intros e E. rewrite Hm. destruct (loc_eqb_spec (LExt e) l); try discriminate. apply (i_ext _ I); auto.
  - intros s1 s2 l2 O1 O2. apply OW in O1, O2. eapply (i_uniq _ I); eauto.
  - intros b az B. rewrite Hb in B. destruct (i_blk _ I _ _ B) as (s & O2). exists s. apply OW; auto.
  - intros b F. rewrite Hb. apply (i_fresh _ I). lia.
Qed.


(* ---------------------------------------------------------------- the C++ member functions preserve the invariant *)

Definition empty_at (st : state) (i : nat) : Prop := exists w, pool st i = Some w /\ self w = None.

Lemma empty_nonowner st i : (pool st i = None \/ empty_at st i) -> nonowner st i.
Proof. intros [H | (w & P & S)] l (w' & P' & S' & _); congruence. Qed.

Lemma setw_empty_inv st i w' :
  inv st -> nonowner st i -> match w' with None => True | Some x => self x = None end -> inv (setw i w' st).
Proof.
  intros I N V. eapply inv_replace_nonowner with (i := i) (w' := w'); eauto; simpl; auto.
  - destruct w'; simpl; auto. intros l S. congruence.
  - apply (i_err _ I).
Qed.

Lemma set_size_at_inv st i z : inv st -> (pool st i = None \/ empty_at st i) -> inv (set_size_at i z st).
Proof.
  intros I E. pose proof (empty_nonowner _ _ E) as N. unfold set_size_at. destruct E as [E | (w & P & S)].
  - rewrite E. auto.
  - rewrite P. apply setw_empty_inv; auto.
Qed.
Lemma set_alloc_at_inv st i a : inv st -> (pool st i = None \/ empty_at st i) -> inv (set_alloc_at i a st).
Proof.
  intros I E. pose proof (empty_nonowner _ _ E) as N. unfold set_alloc_at. destruct E as [E | (w & P & S)].
  - rewrite E. auto.
  - rewrite P. apply setw_empty_inv; auto.
Qed.

Lemma upd_eq {A} (f : nat -> A) k v : upd f k v k = v.
Proof. unfold upd. rewrite Nat.eqb_refl. auto. Qed.
Lemma upd_ne {A} (f : nat -> A) k v k' : k' <> k -> upd f k v k' = f k'.
Proof. unfold upd. intros. destruct (Nat.eqb_spec k' k); congruence. Qed.

(* cleanup(): always leaves slot i with self == nullptr and the same size / allocator; other slots untouched *)
Ltac frame := intros; simpl; try rewrite upd_eq; try rewrite upd_ne; auto; congruence.

Lemma cleanup_spec st i : inv st ->
  inv (cleanup c i st) /\ (forall s, s <> i -> pool (cleanup c i st) s = pool st s) /\
  (forall w, pool st i = Some w -> pool (cleanup c i st) i = Some (set_self w None)) /\
  (pool st i = None -> pool (cleanup c i st) i = None).
Proof.
  intros I. unfold cleanup. destruct (pool st i) as [w|] eqn:P.
  2:{ split; [auto | split; [auto | split; intros; congruence]]. }
  destruct (owns (size w)) eqn:Ow; simpl.
  2:{ split; [| split; [frame | split; frame]].
      apply setw_empty_inv; simpl; auto. intros l (w' & P' & S' & O'). congruence. }
  destruct (self w) as [l|] eqn:S.
  2:{ split; [auto | split; [auto | split; [|congruence]]]. intros w' E. inversion E; subst. rewrite P. destruct w'; unfold set_self; simpl in *; congruence. }
  assert (O : owner st i l) by (exists w; auto).
  destruct (owner_facts _ _ _ I O) as (w0 & o & P0 & _ & _ & M & Z & Hl). rewrite P in P0. inversion P0; subst w0.
  unfold p_destroy. rewrite M. unfold deallocate; simpl. rewrite P.
  destruct Hl as [[L ->] | [L (b & -> & Bb)]].
  - destruct (Z.gtb_spec (size w) (sbo c)); try lia. simpl.
    split; [| split; [frame | split; frame]].
    eapply inv_release with (i := i) (w' := Some (set_self w None)); eauto; simpl; auto. apply (i_err _ I).
  - destruct (Z.gtb_spec (size w) (sbo c)); try lia. rewrite S. unfold p_dealloc; simpl. rewrite Bb, Nat.eqb_refl, Z.eqb_refl. simpl.
    split; [| split; [frame | split; frame]].
    eapply inv_release with (i := i) (w' := Some (set_self w None)); eauto; simpl; auto. apply (i_err _ I).
Qed.


(* a payload is constructed for an empty slot: in its own small buffer ... *)
Lemma acquire_small st i a z v :
  inv st -> nonowner st i -> owns z = true -> z <= sbo c ->
  inv (p_construct (LBuf i) z v (setw i (Some {| self := Some (LBuf i); size := z; alloc := a |}) st)).
Proof.
  intros I N Oz L. unfold p_construct; simpl. rewrite (nonowner_buf_free _ _ I N).
  eapply inv_acquire with (i := i) (l := LBuf i) (z := z) (a := a) (o := {| oid := next_id st; osz := z; oval := v |}); eauto; simpl; auto. apply (i_err _ I).
Qed.
(* ... or in a fresh block obtained from the slot's allocator *)
Lemma acquire_heap st i a z v :
  inv st -> nonowner st i -> owns z = true -> sbo c < z ->
  inv (p_construct (LHeap (next_blk st)) z v
         (setw i (Some {| self := Some (LHeap (next_blk st)); size := z; alloc := a |}) (snd (p_alloc a z st)))).
Proof.
  intros I N Oz L. unfold p_construct; simpl. rewrite (fresh_heap_free _ _ I (le_n _)). rewrite upd_eq.
  eapply inv_acquire with (i := i) (l := LHeap (next_blk st)) (z := z) (a := a) (o := {| oid := next_id st; osz := z; oval := v |}); eauto; simpl; auto.
  apply (i_err _ I).
Qed.
(* the payload of an owning slot is destroyed (and its block returned to the slot's allocator) *)
Lemma release_small st j o lo :
  inv st -> pool st j = Some o -> self o = Some lo -> owns (size o) = true -> size o <= sbo c ->
  inv (setw j (Some (set_self o None)) (p_destroy lo st)).
Proof.
  intros I P S Ow L. assert (O : owner st j lo) by (exists o; auto).
  destruct (owner_facts _ _ _ I O) as (w0 & ob & P0 & _ & _ & M & Z & Hl). rewrite P in P0. inversion P0; subst w0.
  destruct Hl as [[_ ->] | [L' _]]; try lia. unfold p_destroy. rewrite M.
  eapply inv_release with (i := j) (w' := Some (set_self o None)); eauto; simpl; auto. apply (i_err _ I).
Qed.
Lemma release_heap st j o lo :
  inv st -> pool st j = Some o -> self o = Some lo -> owns (size o) = true -> sbo c < size o ->
  inv (setw j (Some (set_self o None)) (p_dealloc (alloc o) lo (size o) (p_destroy lo st))).
Proof.
  intros I P S Ow L. assert (O : owner st j lo) by (exists o; auto).
  destruct (owner_facts _ _ _ I O) as (w0 & ob & P0 & _ & _ & M & Z & Hl). rewrite P in P0. inversion P0; subst w0.
  destruct Hl as [[L' _] | [_ (b & -> & Bb)]]; try lia. unfold p_destroy. rewrite M.
  unfold p_dealloc; simpl. rewrite Bb, Nat.eqb_refl, Z.eqb_refl. simpl.
  eapply inv_release with (i := j) (w' := Some (set_self o None)); eauto; simpl; auto. apply (i_err _ I).
Qed.

Lemma empty_at_setw st j w : self w = None -> empty_at (setw j (Some w) st) j.
Proof. intros. exists w. simpl. rewrite upd_eq. auto. Qed.

Lemma steal_spec st i j wi o :
  inv st -> i <> j -> pool st i = Some wi -> self wi = None -> pool st j = Some o -> size wi = size o ->
  (owns (size o) = true -> self o <> None -> sbo c < size o /\ alloc wi = alloc o) ->
  inv (steal i j st) /\ empty_at (steal i j st) j.
Proof.
  intros I Nij Pi Si Pj Z H. unfold steal. rewrite Pi, Pj. split; [| apply empty_at_setw; auto].
  assert (Ni : nonowner st i) by (apply empty_nonowner; right; exists wi; auto).
  destruct (self o) as [lo|] eqn:So.
  2:{ apply setw_empty_inv; simpl; auto.
      - apply setw_empty_inv; simpl; auto.
      - apply empty_nonowner. right. exists o. simpl. rewrite upd_ne; auto. }
  destruct (owns (size o)) eqn:Ow.
  - destruct H as [L A]; auto; try congruence.
    eapply inv_transfer with (i := i) (j := j) (wj := o) (l := lo) (wi' := set_self wi (Some lo)) (wj' := set_self o None);
      eauto; simpl; auto. apply (i_err _ I).
  - destruct (i_wr _ I _ _ Pj _ So) as [R _]. destruct (R Ow) as (e & -> & E).
    apply setw_empty_inv; simpl; auto.
    + eapply inv_replace_nonowner with (i := i) (w' := Some (set_self wi (Some (LExt e)))); eauto; simpl; auto.
      * intros l El. inversion El; subst. rewrite Z. eauto.
      * apply (i_err _ I).
    + intros l (w' & P' & S' & O'). simpl in P'. rewrite upd_ne in P'; auto. congruence.
Qed.

Lemma move_small_spec st i j wi o lo :
  inv st -> i <> j -> pool st i = Some wi -> self wi = None -> pool st j = Some o -> self o = Some lo ->
  size wi = size o -> owns (size o) = true -> size o <= sbo c ->
  inv (move_small i j st) /\ empty_at (move_small i j st) j.
Proof.
  intros I Nij Pi Si Pj So Z Ow L. unfold move_small. rewrite Pi, Pj, So. split; [| apply empty_at_setw; auto].
  assert (Ni : nonowner st i) by (apply empty_nonowner; right; exists wi; auto).
  assert (O : owner st j lo) by (exists o; auto).
  destruct (owner_facts _ _ _ I O) as (w0 & ob & P0 & _ & _ & M & Zo & _). rewrite Pj in P0. inversion P0; subst w0.
  unfold p_move, p_copy. simpl. rewrite M. unfold set_self at 2. rewrite Z, <- Zo.
  apply release_small; auto.
  - apply acquire_small; auto; congruence.
  - unfold p_construct; simpl. rewrite (nonowner_buf_free _ _ I Ni). simpl. rewrite upd_ne; auto.
Qed.


Lemma move_realloc_spec st i j wi o lo :
  inv st -> i <> j -> pool st i = Some wi -> self wi = None -> pool st j = Some o -> self o = Some lo ->
  size wi = size o -> owns (size o) = true -> sbo c < size o ->
  inv (move_realloc (alloc o) i j st) /\ empty_at (move_realloc (alloc o) i j st) j.
Proof.
  intros I Nij Pi Si Pj So Z Ow L. unfold move_realloc. rewrite Pi, Pj, So. rewrite Z.
  assert (Ni : nonowner st i) by (apply empty_nonowner; right; exists wi; auto).
  assert (O : owner st j lo) by (exists o; auto).
  destruct (owner_facts _ _ _ I O) as (w0 & ob & P0 & _ & _ & M & Zo & _). rewrite Pj in P0. inversion P0; subst w0.
  unfold p_alloc at 1. cbv iota beta. split; [| apply empty_at_setw; auto].
  unfold p_move, p_copy. simpl mem. rewrite M. unfold set_self at 2. rewrite Z, Zo.
  apply release_heap; auto; try congruence.
  - exact (acquire_heap st i (alloc wi) (size o) (oval ob) I Ni Ow L).
  - unfold p_construct; simpl. rewrite (fresh_heap_free _ _ I (le_n _)). rewrite upd_eq. simpl. rewrite upd_ne; auto.
Qed.

(* allocate(z) on an empty slot, followed either by the construction of the payload or by the guard's deallocate() *)
Lemma allocate_spec st i w z v :
  inv st -> pool st i = Some w -> self w = None -> owns z = true ->
  (exists l, pool (allocate c i z st) i = Some {| self := Some l; size := z; alloc := alloc w |} /\
             inv (p_construct l z v (allocate c i z st)) /\ (forall l', mem (allocate c i z st) l' = mem st l')) /\
  inv (deallocate c i (allocate c i z st)) /\ empty_at (deallocate c i (allocate c i z st)) i.
Proof.
  intros I P S Oz. assert (Ni : nonowner st i) by (apply empty_nonowner; right; exists w; auto).
  unfold allocate. rewrite P. destruct (Z.leb_spec z (sbo c)) as [L|L].
  - split; [| split].
    + exists (LBuf i). simpl. rewrite upd_eq. split; auto. split; auto. apply acquire_small; auto.
    + unfold deallocate. simpl. rewrite upd_eq. simpl. destruct (Z.gtb_spec z (sbo c)); try lia.
      eapply inv_replace_nonowner with (i := i) (w' := Some {| self := None; size := z; alloc := alloc w |}); eauto; simpl; auto.
      * intros l; discriminate.
      * intros s. unfold upd. destruct (Nat.eqb s i); auto.
      * apply (i_err _ I).
    + unfold deallocate. simpl. rewrite upd_eq. simpl. destruct (Z.gtb_spec z (sbo c)); try lia. apply empty_at_setw; auto.
  - unfold p_alloc. cbv iota beta. split; [| split].
    + exists (LHeap (next_blk st)). simpl. rewrite upd_eq. split; auto. split; auto.
      exact (acquire_heap st i (alloc w) z v I Ni Oz L).
    + unfold deallocate. simpl. rewrite upd_eq. simpl. destruct (Z.gtb_spec z (sbo c)); try lia.
      unfold p_dealloc. simpl. rewrite upd_eq, Nat.eqb_refl, Z.eqb_refl. simpl.
      eapply inv_replace_nonowner with (i := i) (w' := Some {| self := None; size := z; alloc := alloc w |}); eauto; simpl; auto.
      * intros l; discriminate.
      * intros s. unfold upd. destruct (Nat.eqb s i); auto.
      * intros b. unfold upd. destruct (Nat.eqb_spec b (next_blk st)); auto. subst. symmetry. apply (i_fresh _ I). auto.
      * apply (i_err _ I).
    + unfold deallocate. simpl. rewrite upd_eq. simpl. destruct (Z.gtb_spec z (sbo c)); try lia.
      unfold p_dealloc. simpl. rewrite upd_eq, Nat.eqb_refl, Z.eqb_refl. simpl. apply empty_at_setw; auto.
Qed.

Lemma do_copy_assign_spec ca thr st i j wi o :
  inv st -> i <> j -> pool st i = Some wi -> self wi = None -> pool st j = Some o ->
  inv (fst (do_copy_assign c ca thr i j st)) /\
  (snd (do_copy_assign c ca thr i j st) = true -> empty_at (fst (do_copy_assign c ca thr i j st)) i).
Proof.
  intros I Nij Pi Si Pj. unfold do_copy_assign. rewrite Pi, Pj.
  set (w := if ca && pocca c then set_alloc wi (alloc o) else wi).
  assert (Sw : self w = None) by (unfold w; destruct (ca && pocca c); simpl; auto).
  assert (Ni : nonowner st i) by (apply empty_nonowner; right; exists wi; auto).
  assert (I1 : inv (setw i (Some w) st)) by (apply setw_empty_inv; auto).
  assert (P1 : pool (setw i (Some w) st) i = Some w) by (simpl; rewrite upd_eq; auto).
  destruct (self o) as [lo|] eqn:So; [| simpl; split; auto; discriminate].
  destruct (owns (size o)) eqn:Ow; simpl negb; cbv iota.
  - assert (O : owner st j lo) by (exists o; auto).
    destruct (owner_facts _ _ _ I O) as (w0 & ob & P0 & _ & _ & M & Zo & _). rewrite Pj in P0. inversion P0; subst w0.
    destruct (allocate_spec _ _ _ (size o) (oval ob) I1 P1 Sw Ow) as ((l & Pa & Ia & Ma) & Id & Ed).
    destruct thr; simpl; [split; auto|].
    rewrite Pa. simpl. unfold p_copy. rewrite Ma. simpl. rewrite M. rewrite Zo. split; auto; discriminate.
  - destruct (i_wr _ I _ _ Pj _ So) as [R _]. destruct (R Ow) as (e & -> & E). simpl. split; [| discriminate].
    eapply inv_replace_nonowner with (st := st) (i := i) (w' := Some {| self := Some (LExt e); size := size o; alloc := alloc w |}); eauto; simpl; auto.
    + intros l El. inversion El; subst. eauto.
    + intros s. unfold upd. destruct (Nat.eqb s i); auto.
    + apply (i_err _ I).
Qed.

Lemma construct_inplace_spec thr st i w z v :
  inv st -> pool st i = Some w -> self w = None -> owns z = true ->
  inv (fst (construct_inplace c thr i z v st)) /\
  (snd (construct_inplace c thr i z v st) = true -> empty_at (fst (construct_inplace c thr i z v st)) i).
Proof.
  intros I P S Oz. unfold construct_inplace.
  destruct (allocate_spec _ _ _ z v I P S Oz) as ((l & Pa & Ia & Ma) & Id & Ed).
  destruct thr; simpl; [split; auto|]. rewrite Pa. simpl. split; auto; discriminate.
Qed.

Lemma construct_ref_inv st i w e cst :
  inv st -> pool st i = Some w -> self w = None -> (e < n_ext c)%nat -> inv (construct_ref i e cst st).
Proof.
  intros I P S E. unfold construct_ref. rewrite P.
  eapply inv_replace_nonowner with (i := i)
    (w' := Some {| self := Some (LExt e); size := if cst then const_ref_size else mut_ref_size; alloc := alloc w |}); eauto; simpl; auto.
  - apply empty_nonowner; right; exists w; auto.
  - simpl. intros l El. inversion El; subst. split; eauto. destruct cst; reflexivity.
  - apply (i_err _ I).
Qed.

(* destructor of whatever is in slot i, followed by the member initialisers of a constructor *)
Lemma fresh_slot_spec st i a :
  inv st ->
  inv (new_empty i a (destroy_slot c i st)) /\
  pool (new_empty i a (destroy_slot c i st)) i = Some {| self := None; size := invalid_size; alloc := a |} /\
  (forall s, s <> i -> pool (new_empty i a (destroy_slot c i st)) s = pool st s).
Proof.
  intros I. destruct (cleanup_spec st i I) as (Ic & Fo & Fi & Fn).
  assert (D : inv (destroy_slot c i st) /\ pool (destroy_slot c i st) i = None /\ forall s, s <> i -> pool (destroy_slot c i st) s = pool st s).
  { unfold destroy_slot. destruct (pool st i) as [w|] eqn:P; [| auto].
    split; [| split; [simpl; apply upd_eq | intros; simpl; rewrite upd_ne; auto]].
    apply setw_empty_inv; simpl; auto. apply empty_nonowner. right. eexists. split; [apply Fi; eauto | auto]. }
  destruct D as (Id & Pd & Fd). unfold new_empty.
  split; [| split; [simpl; apply upd_eq | intros; simpl; rewrite upd_ne; auto]].
  apply setw_empty_inv; simpl; auto. apply empty_nonowner; auto.
Qed.


Lemma destroy_slot_spec st i : inv st ->
  inv (destroy_slot c i st) /\ pool (destroy_slot c i st) i = None /\ forall s, s <> i -> pool (destroy_slot c i st) s = pool st s.
Proof.
  intros I. destruct (cleanup_spec st i I) as (Ic & Fo & Fi & Fn).
  unfold destroy_slot. destruct (pool st i) as [w|] eqn:P; [| auto].
  split; [| split; [simpl; apply upd_eq | intros; simpl; rewrite upd_ne; auto]].
  apply setw_empty_inv; simpl; auto. apply empty_nonowner. right. eexists. split; [apply Fi; eauto | auto].
Qed.

Lemma set_size_at_pool st i w z : pool st i = Some w ->
  forall s, pool (set_size_at i z st) s = if Nat.eqb s i then Some (set_size w z) else pool st s.
Proof. intros P s. unfold set_size_at. rewrite P. reflexivity. Qed.
Lemma set_alloc_at_pool st i w a : pool st i = Some w ->
  forall s, pool (set_alloc_at i a st) s = if Nat.eqb s i then Some (set_alloc w a) else pool st s.
Proof. intros P s. unfold set_alloc_at. rewrite P. reflexivity. Qed.

Lemma neq_eqb i j : i <> j -> Nat.eqb j i = false /\ Nat.eqb i j = false.
Proof. intros; split; apply Nat.eqb_neq; auto. Qed.

Lemma move_ctor_body_inv st i j o :
  inv st -> i <> j -> pool st i = Some {| self := None; size := invalid_size; alloc := alloc o |} -> pool st j = Some o ->
  inv (move_ctor_body c i j st).
Proof.
  intros I Nij Pi Pj. destruct (neq_eqb _ _ Nij) as [Eji Eij]. unfold move_ctor_body. rewrite Pj.
  pose proof (set_size_at_pool st i _ (size o) Pi) as H1.
  assert (I1 : inv (set_size_at i (size o) st)) by (apply set_size_at_inv; auto; right; eexists; split; eauto).
  assert (P1i := H1 i). rewrite Nat.eqb_refl in P1i. assert (P1j := H1 j). rewrite Eji, Pj in P1j.
  apply set_size_at_inv.
  - destruct (negb (owns (size o)) || (size o >? sbo c)) eqn:C.
    + eapply steal_spec; eauto. intros Ow _. rewrite Ow in C. simpl in C. destruct (Z.gtb_spec (size o) (sbo c)); try discriminate. auto.
    + apply orb_false_elim in C. destruct C as [C1 C2]. apply negb_false_iff in C1.
      destruct (Z.gtb_spec (size o) (sbo c)); try discriminate.
      destruct (self o) eqn:So; auto. eapply move_small_spec; eauto.
  - right. destruct (negb (owns (size o)) || (size o >? sbo c)) eqn:C.
    + eapply steal_spec; eauto. intros Ow _. rewrite Ow in C. simpl in C. destruct (Z.gtb_spec (size o) (sbo c)); try discriminate. auto.
    + apply orb_false_elim in C. destruct C as [C1 C2]. apply negb_false_iff in C1.
      destruct (Z.gtb_spec (size o) (sbo c)); try discriminate.
      destruct (self o) eqn:So; [eapply move_small_spec; eauto | exists o; auto].
Qed.

(* the common part of the allocator-aware move constructor and of move assignment, after other.self != nullptr:
   this (slot i) is empty with allocator [alloc wi]; [steal_ok] says when a heap block may simply change hands *)
Lemma move_xfer_inv st i j wi o lo (steal_ok : bool) :
  inv st -> i <> j -> pool st i = Some wi -> self wi = None -> size wi = size o -> pool st j = Some o -> self o = Some lo ->
  (steal_ok = true -> alloc wi = alloc o) ->
  let st' := if negb (owns (size o)) then steal i j st
             else if size o >? sbo c then if steal_ok then steal i j st else move_realloc (alloc o) i j st
                  else move_small i j st in
  inv st' /\ empty_at st' j.
Proof.
  intros I Nij Pi Si Z Pj So A. simpl.
  destruct (owns (size o)) eqn:Ow; simpl.
  - destruct (Z.gtb_spec (size o) (sbo c)).
    + destruct steal_ok.
      * eapply steal_spec; eauto.
      * eapply move_realloc_spec; eauto.
    + eapply move_small_spec; eauto.
  - eapply steal_spec; eauto. intros; congruence.
Qed.

Lemma move_ctor_alloc_body_inv st i j a o :
  inv st -> i <> j -> pool st i = Some {| self := None; size := invalid_size; alloc := a |} -> pool st j = Some o ->
  inv (move_ctor_alloc_body c i j st).
Proof.
  intros I Nij Pi Pj. destruct (neq_eqb _ _ Nij) as [Eji Eij]. unfold move_ctor_alloc_body. rewrite Pi, Pj.
  destruct (self o) as [lo|] eqn:So; auto.
  pose proof (set_size_at_pool st i _ (size o) Pi) as H1.
  assert (I1 : inv (set_size_at i (size o) st)) by (apply set_size_at_inv; auto; right; eexists; split; eauto).
  assert (P1i := H1 i). rewrite Nat.eqb_refl in P1i. assert (P1j := H1 j). rewrite Eji, Pj in P1j.
  simpl alloc.
  destruct (move_xfer_inv _ i j _ o lo (Nat.eqb a (alloc o)) I1 Nij P1i eq_refl eq_refl P1j So) as [I2 E2].
  { intros E. apply Nat.eqb_eq in E. auto. }
  apply set_size_at_inv; auto.
Qed.

Lemma move_assign_inv st i j : inv st -> inv (move_assign c i j st).
Proof.
  intros I. unfold move_assign. destruct (Nat.eqb_spec i j) as [|Nij]; auto.
  destruct (neq_eqb _ _ Nij) as [Eji Eij].
  destruct (pool st i) as [wi|] eqn:Pi; auto. destruct (pool st j) as [o|] eqn:Pj; auto.
  destruct (cleanup_spec st i I) as (I1 & Fo & Fi & _).
  assert (P1i := Fi _ Pi). assert (P1j := Fo j (not_eq_sym Nij)). rewrite Pj in P1j.
  set (st2 := if pocma c then set_alloc_at i (alloc o) (cleanup c i st) else cleanup c i st).
  assert (H2 : inv st2 /\ pool st2 j = Some o /\
               exists w2, pool st2 i = Some w2 /\ self w2 = None /\ (pocma c = true -> alloc w2 = alloc o)).
  { unfold st2. destruct (pocma c).
    - split; [apply set_alloc_at_inv; auto; right; eexists; split; eauto |].
      pose proof (set_alloc_at_pool _ i _ (alloc o) P1i) as H. split.
      + rewrite H, Eji. auto.
      + eexists. rewrite H, Nat.eqb_refl. split; eauto.
    - split; auto. split; auto. eexists. split; eauto. split; auto. discriminate. }
  destruct H2 as (I2 & P2j & w2 & P2i & S2 & A2).
  destruct (self o) as [lo|] eqn:So; auto.
  pose proof (set_size_at_pool st2 i _ (size o) P2i) as H3.
  assert (I3 : inv (set_size_at i (size o) st2)) by (apply set_size_at_inv; auto; right; eexists; split; eauto).
  assert (P3i := H3 i). rewrite Nat.eqb_refl in P3i. assert (P3j := H3 j). rewrite Eji, P2j in P3j.
  rewrite P3i. simpl alloc.
  assert (D : (if pocma c then alloc w2 else alloc o) = alloc o \/ pocma c || Nat.eqb (alloc w2) (alloc o) = true).
  { destruct (pocma c); auto. }
  destruct (pocma c || Nat.eqb (alloc w2) (alloc o)) eqn:SO.
  - destruct (move_xfer_inv _ i j _ o lo true I3 Nij P3i S2 eq_refl P3j So) as [I4 E4].
    { intros _. apply orb_true_iff in SO. destruct SO as [Pm | E]; auto. apply Nat.eqb_eq in E. auto. }
    apply set_size_at_inv; auto.
  - apply orb_false_elim in SO. destruct SO as [Pm _]. rewrite Pm.
    destruct (move_xfer_inv _ i j _ o lo false I3 Nij P3i S2 eq_refl P3j So) as [I4 E4]; [discriminate|].
    apply set_size_at_inv; auto.
Qed.

Lemma copy_assign_inv thr st i j :
  inv st -> inv (fst (copy_assign c thr i j st)) /\
  (snd (copy_assign c thr i j st) = true -> empty_at (fst (copy_assign c thr i j st)) i).
Proof.
  intros I. unfold copy_assign. destruct (Nat.eqb_spec i j) as [|Nij]; [simpl; split; auto; discriminate|].
  destruct (pool st i) as [wi|] eqn:Pi; [| simpl; split; auto; discriminate].
  destruct (pool st j) as [o|] eqn:Pj; [| simpl; split; auto; discriminate].
  destruct (cleanup_spec st i I) as (I1 & Fo & Fi & _).
  eapply do_copy_assign_spec with (wi := set_self wi None) (o := o); eauto. rewrite Fo; auto.
Qed.

Lemma valid_size_owns z : valid_obj_size z = true -> owns z = true.
Proof.
  unfold valid_obj_size, size_indicates_ownership, max_obj_size, const_ref_size, mut_ref_size. intros H.
  apply andb_true_iff in H. destruct H as [_ H]. apply Z.ltb_lt in H.
  lia.
Qed.

Lemma nonempty_live st i w l : inv st -> nonempty st i = Some (w, l) -> exists ob, mem st l = Some ob.
Proof.
  unfold nonempty. intros I H. destruct (pool st i) as [w'|] eqn:P; try discriminate.
  destruct (self w') as [l'|] eqn:S; try discriminate. inversion H; subst.
  destruct (i_wr _ I _ _ P _ S) as [A B]. destruct (owns (size w)) eqn:Ow.
  - destruct (B eq_refl) as ((ob & M & _) & _). eauto.
  - destruct (A eq_refl) as (e & -> & E). pose proof (i_ext _ I _ E). destruct (mem st (LExt e)); eauto; congruence.
Qed.

Lemma p_write_inv st l ob v : inv st -> mem st l = Some ob -> inv (p_write l v st).
Proof.
  intros I M. unfold p_write. rewrite M. eapply inv_write with (l := l) (v := v); eauto; simpl; auto; try apply (i_err _ I).
Qed.

Theorem step_inv o st : inv st -> inv (fst (step c o st)).
Proof.
  intros I. destruct o; simpl.
  - (* MkEmpty *) apply fresh_slot_spec; auto.
  - (* MkVal *) destruct (valid_obj_size z) eqn:V; auto.
    destruct (fresh_slot_spec st i a I) as (I1 & P1 & _).
    destruct (construct_inplace_spec thr _ i _ z v I1 P1 eq_refl (valid_size_owns _ V)) as [I2 E2].
    destruct (construct_inplace c thr i z v _) as [st2 threw]. simpl in *. destruct threw; simpl; auto.
    apply setw_empty_inv; simpl; auto. apply empty_nonowner; auto.
  - (* MkRef *) destruct (Nat.ltb_spec e (n_ext c)); auto. simpl.
    destruct (fresh_slot_spec st i a I) as (I1 & P1 & _). eapply construct_ref_inv; eauto.
  - (* CopyCtor *) destruct (pool st j) as [o|] eqn:Pj; auto. destruct (Nat.eqb_spec i j) as [|Nij]; auto.
    match goal with |- context [new_empty i ?a _] => destruct (fresh_slot_spec st i a I) as (I1 & P1 & F1) end.
    rewrite <- (F1 j (not_eq_sym Nij)) in Pj.
    destruct (do_copy_assign_spec false thr _ i j _ o I1 Nij P1 eq_refl Pj) as [I2 E2].
    destruct (do_copy_assign c false thr i j _) as [st2 threw]. simpl in *. destruct threw; simpl; auto.
    apply setw_empty_inv; simpl; auto. apply empty_nonowner; auto.
  - (* CopyCtorA *) destruct (pool st j) as [o|] eqn:Pj; auto. destruct (Nat.eqb_spec i j) as [|Nij]; auto.
    destruct (fresh_slot_spec st i a I) as (I1 & P1 & F1).
    rewrite <- (F1 j (not_eq_sym Nij)) in Pj.
    destruct (do_copy_assign_spec false thr _ i j _ o I1 Nij P1 eq_refl Pj) as [I2 E2].
    destruct (do_copy_assign c false thr i j _) as [st2 threw]. simpl in *. destruct threw; simpl; auto.
    apply setw_empty_inv; simpl; auto. apply empty_nonowner; auto.
  - (* MoveCtor *) destruct (pool st j) as [o|] eqn:Pj; auto. destruct (Nat.eqb_spec i j) as [|Nij]; auto. simpl.
    destruct (fresh_slot_spec st i (alloc o) I) as (I1 & P1 & F1).
    rewrite <- (F1 j (not_eq_sym Nij)) in Pj. eapply move_ctor_body_inv; eauto.
  - (* MoveCtorA *) destruct (pool st j) as [o|] eqn:Pj; auto. destruct (Nat.eqb_spec i j) as [|Nij]; auto. simpl.
    destruct (fresh_slot_spec st i a I) as (I1 & P1 & F1).
    rewrite <- (F1 j (not_eq_sym Nij)) in Pj. eapply move_ctor_alloc_body_inv; eauto.
  - (* CopyAssign *) destruct (pool st i) eqn:Pi; auto. destruct (pool st j) eqn:Pj; auto.
    destruct (copy_assign_inv thr st i j I) as [I2 _]. destruct (copy_assign c thr i j st). auto.
  - (* MoveAssign *) destruct (pool st i) eqn:Pi; auto. destruct (pool st j) eqn:Pj; auto. simpl. apply move_assign_inv; auto.
  - (* Destroy *) destruct (pool st i) eqn:Pi; auto. simpl. apply destroy_slot_spec; auto.
  - (* CallGet *) destruct (nonempty st i) as [[w l]|] eqn:N; auto.
    destruct (nonempty_live _ _ _ _ I N) as (ob & M). rewrite M. auto.
  - (* CallSet *) destruct (nonempty st i) as [[w l]|] eqn:N; auto. destruct (size_indicates_const (size w)); auto.
    destruct (nonempty_live _ _ _ _ I N) as (ob & M). rewrite M. simpl. eapply p_write_inv; eauto.
  - (* AsSet *) destruct (nonempty st i) as [[w l]|] eqn:N; auto.
    destruct (nonempty_live _ _ _ _ I N) as (ob & M). rewrite M. destruct (negb (osz ob =? z)); auto.
    destruct (size_indicates_const (size w)); auto. simpl. eapply p_write_inv; eauto.
  - (* AsGet *) destruct (nonempty st i) as [[w l]|] eqn:N; auto.
    destruct (nonempty_live _ _ _ _ I N) as (ob & M). rewrite M. destruct (negb (osz ob =? z)); auto.
  - (* GetPtr *) destruct (nonempty st i) as [[w l]|] eqn:N; auto. destruct (size_indicates_const (size w)); auto.
Qed.

Lemma init_inv : inv (init c).
Proof.
  constructor; simpl; auto; try discriminate.
  - intros l o. destruct l; try discriminate. destruct (Nat.ltb_spec e (n_ext c)); auto; discriminate.
  - intros e E. destruct (Nat.ltb_spec e (n_ext c)); try lia. discriminate.
  - intros s1 s2 l (w & P & _). discriminate.
Qed.

Theorem run_inv ops : forall st, inv st -> inv (run c ops st).
Proof. induction ops; simpl; intros; auto. apply IHops. apply step_inv; auto. Qed.

Definition reachable (st : state) : Prop := exists ops, st = run c ops (init c).
Lemma reachable_inv st : reachable st -> inv st.
Proof. intros (ops & ->). apply run_inv, init_inv. Qed.

(* ---------------------------------------------------------------- the property, clause by clause *)

(* no operation of any history ever destroys a dead object, uses a dead object, constructs over a live one,
   frees a block twice, through another allocator or with another size *)
Theorem no_error_any_history ops : errs (run c ops (init c)) = [].
Proof. apply (i_err _ (run_inv ops _ init_inv)). Qed.

(* every live payload is an external object or is owned by exactly one wrapper *)
Theorem every_object_has_one_owner ops l o :
  let st := run c ops (init c) in
  mem st l = Some o ->
  (exists e, l = LExt e /\ (e < n_ext c)%nat) \/
  (exists s, owner st s l /\ forall s', owner st s' l -> s' = s).
Proof.
  intros st M. assert (I : inv st) by apply (run_inv ops _ init_inv).
  pose proof (i_mem _ I _ _ M) as H. destruct l; [right | right | left; eauto];
    destruct H as (s' & O); exists s'; split; auto; intros; eapply (i_uniq _ I); eauto.
Qed.

(* an owning wrapper points to a live payload of the recorded size, stored in ITS OWN small buffer when it fits
   and otherwise in an outstanding block obtained from ITS CURRENT allocator with exactly that size *)
Theorem owned_storage ops s w l :
  let st := run c ops (init c) in
  pool st s = Some w -> self w = Some l -> owns (size w) = true ->
  (exists o, mem st l = Some o /\ osz o = size w) /\
  (size w <= sbo c -> l = LBuf s) /\
  (sbo c < size w -> exists b, l = LHeap b /\ blocks st b = Some (alloc w, size w)).
Proof.
  intros st P S Ow. assert (I : inv st) by apply (run_inv ops _ init_inv).
  destruct (i_wr _ I _ _ P _ S) as [_ B]. auto.
Qed.

(* a non-owning wrapper refers to a live external object *)
Theorem reference_target ops s w l :
  let st := run c ops (init c) in
  pool st s = Some w -> self w = Some l -> owns (size w) = false ->
  exists e, l = LExt e /\ (e < n_ext c)%nat /\ mem st l <> None.
Proof.
  intros st P S Ow. assert (I : inv st) by apply (run_inv ops _ init_inv).
  destruct (i_wr _ I _ _ P _ S) as [A _]. destruct (A Ow) as (e & -> & E). exists e. repeat split; auto. apply (i_ext _ I); auto.
Qed.

(* once every wrapper has been destroyed nothing is left: no payload except the external objects, no block *)
Theorem no_leak_at_end ops :
  let st := run c ops (init c) in
  (forall s, pool st s = None) ->
  (forall l o, mem st l = Some o -> exists e, l = LExt e /\ (e < n_ext c)%nat) /\ (forall b, blocks st b = None).
Proof.
  intros st D. assert (I : inv st) by apply (run_inv ops _ init_inv). split.
  - intros l o M. pose proof (i_mem _ I _ _ M) as H. destruct l; eauto; destruct H as (s' & w & P & _); rewrite D in P; discriminate.
  - intros b. destruct (blocks st b) eqn:B; auto. destruct (i_blk _ I _ _ B) as (s' & w & P & _). rewrite D in P; discriminate.
Qed.

(* every outstanding block is held by a wrapper (no block is ever lost while wrappers are alive) *)
Theorem every_block_has_an_owner ops b az :
  let st := run c ops (init c) in blocks st b = Some az -> exists s, owner st s (LHeap b).
Proof. intros st B. apply (i_blk _ (run_inv ops _ init_inv) _ _ B). Qed.

(* two different wrappers see the same object only if both are references *)
Theorem shared_only_by_references st i j wi wj l :
  inv st -> i <> j -> nonempty st i = Some (wi, l) -> nonempty st j = Some (wj, l) ->
  owns (size wi) = false /\ owns (size wj) = false.
Proof.
  unfold nonempty. intros I Nij Hi Hj.
  destruct (pool st i) as [w1|] eqn:P1; try discriminate. destruct (self w1) eqn:S1; try discriminate. inversion Hi; subst.
  destruct (pool st j) as [w2|] eqn:P2; try discriminate. destruct (self w2) eqn:S2; try discriminate. inversion Hj; subst.
  assert (K : forall s w s' w', pool st s = Some w -> self w = Some l -> pool st s' = Some w' -> self w' = Some l -> s <> s' ->
              owns (size w) = true -> False).
  { intros s w s' w' P S P' S' Ne Ow. assert (O : owner st s l) by (exists w; auto).
    destruct (owns (size w')) eqn:Ow'.
    - apply Ne. eapply (i_uniq _ I); eauto. exists w'; auto.
    - destruct (i_wr _ I _ _ P' _ S') as [A _]. destruct (A Ow') as (e & -> & _). eapply owner_not_ext; eauto. }
  split.
  - destruct (owns (size wi)) eqn:E; auto. exfalso. eapply (K i wi j wj); eauto.
  - destruct (owns (size wj)) eqn:E; auto. exfalso. eapply (K j wj i wi); eauto.
Qed.

(* dispatch: a successful write through wrapper i is read back through wrapper i, and is invisible through every
   wrapper that points elsewhere (hence through every wrapper that owns its payload: copies are independent) *)
Theorem write_then_read st i w l v :
  inv st -> nonempty st i = Some (w, l) -> size_indicates_const (size w) = false ->
  let st' := fst (step c (CallSet i v) st) in
  (exists d, snd (step c (CallGet i) st') = ROk v d) /\
  (forall j wj lj, nonempty st j = Some (wj, lj) -> lj <> l -> snd (step c (CallGet j) st') = snd (step c (CallGet j) st)).
Proof.
  intros I N C. destruct (nonempty_live _ _ _ _ I N) as (ob & M). simpl. rewrite N, C, M. simpl.
  assert (NE : forall k, nonempty (p_write l v st) k = nonempty st k) by (intros; unfold nonempty, p_write; rewrite M; reflexivity).
  split.
  - rewrite NE, N. unfold p_write. rewrite M. simpl. unfold updl. rewrite loc_eqb_refl. simpl. eauto.
  - intros j wj lj Nj Ne. rewrite NE, Nj. unfold p_write. rewrite M. simpl. unfold updl.
    destruct (loc_eqb_spec lj l); try congruence. destruct (mem st lj); reflexivity.
Qed.

(* references alias: a write through one reference wrapper is read through any wrapper holding the same pointer *)
Theorem write_seen_by_aliases st i j w wj l v :
  inv st -> nonempty st i = Some (w, l) -> size_indicates_const (size w) = false -> nonempty st j = Some (wj, l) ->
  exists d, snd (step c (CallGet j) (fst (step c (CallSet i v) st))) = ROk v d.
Proof.
  intros I N C Nj. destruct (nonempty_live _ _ _ _ I N) as (ob & M). simpl. rewrite N, C, M. simpl.
  assert (NE : forall k, nonempty (p_write l v st) k = nonempty st k) by (intros; unfold nonempty, p_write; rewrite M; reflexivity).
  rewrite NE, Nj. unfold p_write. rewrite M. simpl. unfold updl. rewrite loc_eqb_refl. simpl. eauto.
Qed.

(* a copy holds an equal value in a different object (the copy of a reference holds the same pointer) *)

(* const-ness: every mutable access to a wrapper that references a const object is refused and changes nothing *)
Theorem const_violation_throws st i w l :
  nonempty st i = Some (w, l) -> size w = const_ref_size ->
  (forall v, step c (CallSet i v) st = (st, RConst)) /\
  step c (GetPtr i) st = (st, RConst) /\
  (forall z v, inv st -> step c (AsSet i z v) st = (st, RConst) \/ step c (AsSet i z v) st = (st, RType)).
Proof.
  intros N Z. simpl. rewrite N, Z. simpl. split; auto. split; auto.
  intros z v I. destruct (nonempty_live _ _ _ _ I N) as (ob & M). rewrite M. destruct (negb (osz ob =? z)); auto.
Qed.
Theorem wrong_type_throws st i w l ob z :
  nonempty st i = Some (w, l) -> mem st l = Some ob -> osz ob <> z ->
  (forall v, step c (AsSet i z v) st = (st, RType)) /\ step c (AsGet i z) st = (st, RType).
Proof.
  intros N M Ne. simpl. rewrite N, M. destruct (Z.eqb_spec (osz ob) z); try congruence. simpl. auto.
Qed.

(* a throwing payload constructor: whenever an assignment reports the exception the target is left EMPTY, whenever
   a constructor reports it no wrapper exists in the slot; in both cases the invariant (balanced ledger) holds *)
Theorem throwing_copy_assign st i j thr :
  inv st -> snd (step c (CopyAssign i j thr) st) = RThrew ->
  inv (fst (step c (CopyAssign i j thr) st)) /\ empty_at (fst (step c (CopyAssign i j thr) st)) i.
Proof.
  intros I. pose proof (step_inv (CopyAssign i j thr) st I) as I2. revert I2. simpl.
  destruct (pool st i) eqn:Pi; [| simpl; discriminate]. destruct (pool st j) eqn:Pj; [| simpl; discriminate].
  destruct (copy_assign_inv thr st i j I) as [_ E]. destruct (copy_assign c thr i j st) as [st2 threw]. simpl in *.
  destruct threw; [auto | discriminate].
Qed.
Theorem throwing_constructor st o :
  inv st -> snd (step c o st) = RThrew ->
  match o with
  | MkVal i _ _ _ _ | CopyCtor i _ _ | CopyCtorA i _ _ _ => pool (fst (step c o st)) i = None /\ inv (fst (step c o st))
  | _ => True
  end.
Proof.
  intros I. pose proof (step_inv o st I) as I2. revert I2. destruct o; auto; simpl.
  - destruct (valid_obj_size z); [| simpl; discriminate].
    destruct (construct_inplace c thr i z v _) as [st2 threw]. destruct threw; simpl; [| discriminate].
    intros; split; auto. apply upd_eq.
  - destruct (pool st j); [| simpl; discriminate]. destruct (Nat.eqb i j); [simpl; discriminate|].
    destruct (do_copy_assign c false thr i j _) as [st2 threw]. destruct threw; simpl; [| discriminate].
    intros; split; auto. apply upd_eq.
  - destruct (pool st j); [| simpl; discriminate]. destruct (Nat.eqb i j); [simpl; discriminate|].
    destruct (do_copy_assign c false thr i j _) as [st2 threw]. destruct threw; simpl; [| discriminate].
    intros; split; auto. apply upd_eq.
Qed.

End Inv.
