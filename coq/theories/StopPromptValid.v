(* StopPromptValid.v — C19 (d): an Interrupted exit writes back outputs that satisfy the exit relations of C03, on the whole-loop
   models.  Corollaries of the exit theorems of PanocProofs / ZeroFprProofs / PantrProofs / FistaLoopProofs (which hold for EVERY
   completed run, whatever the stop oracle does) with overwrites(Interrupted, ·) = true.  Over R. *)
From Coq Require Import Reals List ZArith Bool.
From Alpaqa Require Import Num NumR Vec Prox SolverStatus SolverKernels StopChain Panoc ZeroFpr Pantr FistaLoop.
From Alpaqa Require PanocProofs ZeroFprProofs PantrProofs FistaLoopProofs.
Import ListNotations.
Local Open Scope R_scope.

Section PanocValid.
  Variable psi_grad_full : list R -> R * list R * list R.
  Variable psi_yhat : list R -> R * list R.
  Variable grad_L : list R -> list R -> list R.
  Variable grad_psi : list R -> list R.
  Variables (lb ub : list (option R)) (l1 : list R).
  Variable dir_apply : nat -> iterate (T:=R) -> option (list R).
  Variable has_initial : bool.
  Variable stop_req : counters -> bool.
  Variable time_up : counters -> bool.
  Variable P : params (T:=R).
  Variables (x_in y_in Σ errz_in : list R).
  Variable ls_fuel : nat.
  Notation run := (panoc psi_grad_full psi_yhat grad_L grad_psi lb ub l1 dir_apply has_initial stop_req time_up P x_in y_in Σ errz_in ls_fuel).

  Lemma panoc_interrupted_valid fuel o : run fuel = Done o -> out_status o = StInterrupted ->
    exists cf : iterate (T:=R),
      PanocProofs.consistent psi_grad_full psi_yhat grad_L grad_psi lb ub l1 P cf /\ PanocProofs.qub_ok P cf /\
      PanocProofs.glrel0 psi_grad_full grad_psi P x_in cf /\ out_eps o = it_eps lb ub l1 P cf /\
      out_x o = ixh cf /\ ixh cf = vadd (ix cf) (ip cf) /\ out_y o = snd (psi_yhat (out_x o)) /\
      out_errz o = match errz_in with [] => [] | _ => vdiv (vsub (out_y o) y_in) Σ end.
  Proof.
    intros Hr Hst.
    destruct (PanocProofs.panoc_exit psi_grad_full psi_yhat grad_L grad_psi lb ub l1 dir_apply has_initial stop_req time_up P x_in y_in Σ
                errz_in ls_fuel fuel o Hr) as (cf & A & B & C & _ & E & F & _).
    rewrite Hst in F. destruct (F eq_refl) as (F1 & F2 & F3 & F4). exists cf. repeat (split; [assumption|]). assumption.
  Qed.
End PanocValid.

Section ZeroFprValid.
  Variable psi_grad_full : list R -> R * list R * list R.
  Variable psi_yhat : list R -> R * list R.
  Variable grad_L : list R -> list R -> list R.
  Variable grad_psi : list R -> list R.
  Variables (lb ub : list (option R)) (l1 : list R).
  Variable dir_apply : nat -> iterate (T:=R) -> proxit (T:=R) -> option (list R).
  Variable has_initial : bool.
  Variable stop_req : counters -> bool.
  Variable time_up : counters -> bool.
  Variable P : params (T:=R).
  Variables (x_in y_in Σ errz_in : list R).
  Variable ls_fuel : nat.
  Notation run := (zerofpr psi_grad_full psi_yhat grad_L grad_psi lb ub l1 dir_apply has_initial stop_req time_up P x_in y_in Σ errz_in ls_fuel).

  Lemma zerofpr_interrupted_valid fuel o : run fuel = Done o -> out_status o = StInterrupted ->
    exists cf : iterate (T:=R),
      ZeroFprProofs.zconsistent psi_grad_full psi_yhat grad_L lb ub l1 cf /\ PanocProofs.qub_ok P cf /\
      PanocProofs.glrel0 psi_grad_full grad_psi P x_in cf /\
      out_x o = ixh cf /\ ixh cf = vadd (ix cf) (ip cf) /\ out_y o = iyh cf /\ iyh cf = snd (psi_yhat (out_x o)) /\
      out_errz o = match errz_in with [] => [] | _ => vdiv (vsub (out_y o) y_in) Σ end.
  Proof.
    intros Hr Hst.
    destruct (ZeroFprProofs.zerofpr_exit psi_grad_full psi_yhat grad_L grad_psi lb ub l1 dir_apply has_initial stop_req time_up P x_in y_in Σ
                errz_in ls_fuel fuel o Hr) as (cf & A & B & C & _ & F & _).
    rewrite Hst in F. destruct (F eq_refl) as (F1 & F2 & F3 & F4 & F5). exists cf. repeat (split; [assumption|]). assumption.
  Qed.
End ZeroFprValid.

Section PantrValid.
  Variable psi_grad_full : list R -> R * list R * list R.
  Variable psi_yhat : list R -> R * list R.
  Variable grad_L : list R -> list R -> list R.
  Variable grad_psi : list R -> list R.
  Variables (lb ub : list (option R)) (l1 : list R).
  Variable tr_apply : nat -> iterate (T:=R) -> R -> list R * R.
  Variable has_initial : bool.
  Variable stop_req : counters -> bool.
  Variable time_up : counters -> bool.
  Variable TP : trparams (T:=R).
  Variables (x_in y_in Σ errz_in : list R).
  Variable bt_fuel : nat.
  Notation run := (pantr psi_grad_full psi_yhat grad_L grad_psi lb ub l1 tr_apply has_initial stop_req time_up TP x_in y_in Σ errz_in bt_fuel).

  Lemma pantr_interrupted_valid fuel o : run fuel = TDone o -> to_status o = StInterrupted ->
    exists cf : iterate (T:=R),
      PantrProofs.tconsistent psi_grad_full psi_yhat grad_L lb ub l1 cf /\ PanocProofs.qub_ok (tp_base TP) cf /\
      PanocProofs.glrel0 psi_grad_full grad_psi (tp_base TP) x_in cf /\
      to_x o = ixh cf /\ ixh cf = vadd (ix cf) (ip cf) /\ to_y o = iyh cf /\ iyh cf = snd (psi_yhat (to_x o)) /\
      to_errz o = match errz_in with [] => [] | _ => vdiv (vsub (to_y o) y_in) Σ end.
  Proof.
    intros Hr Hst.
    destruct (PantrProofs.pantr_exit psi_grad_full psi_yhat grad_L grad_psi lb ub l1 tr_apply has_initial stop_req time_up TP x_in y_in Σ
                errz_in bt_fuel fuel o Hr) as (cf & A & B & C & _ & F & _).
    rewrite Hst in F. destruct (F eq_refl) as (F1 & F2 & F3 & F4 & F5). exists cf. repeat (split; [assumption|]). assumption.
  Qed.
End PantrValid.

Section FistaValid.
  Variable psi_grad : fcounters -> list R -> R * list R.
  Variable psi_yhat : fcounters -> list R -> R * list R.
  Variable grad_L : fcounters -> list R -> list R -> list R.
  Variable grad_psi : fcounters -> list R -> list R.
  Variables (lb ub : list (option R)) (l1 : list R).
  Variable stop_req : fcounters -> bool.
  Variable time_up : fcounters -> bool.
  Variable P : fparams (T:=R).
  Variables (x_in y_in Σ errz_in : list R).
  Variable bt_fuel : nat.
  Notation run := (fista psi_grad psi_yhat grad_L grad_psi lb ub l1 stop_req time_up P x_in y_in Σ errz_in bt_fuel).

  Lemma fista_interrupted_valid fuel o : run fuel = FDone o -> fo_status o = StInterrupted ->
    exists cf : fiter (T:=R),
      FistaLoopProofs.checked psi_grad psi_yhat grad_L grad_psi lb ub l1 P cf /\ FistaLoopProofs.qub_ok P cf /\
      fo_x o = jxh cf /\ jxh cf = vadd (jx cf) (jp cf) /\ fo_y o = jyh (fo_final o) /\
      (exists c, (jpsih (fo_final o), fo_y o) = psi_yhat c (fo_x o)) /\
      fo_errz o = match errz_in with [] => [] | _ => vdiv (vsub (fo_y o) y_in) Σ end.
  Proof.
    intros Hr Hst.
    destruct (FistaLoopProofs.fista_exit psi_grad psi_yhat grad_L grad_psi lb ub l1 stop_req time_up P x_in y_in Σ errz_in bt_fuel fuel o Hr)
      as (cf & A & B & _ & _ & _ & _ & _ & _ & _ & F & _).
    rewrite Hst in F. destruct (F eq_refl) as (F1 & F2 & F3 & F4 & F5). exists cf. repeat (split; [assumption|]). assumption.
  Qed.
End FistaValid.
