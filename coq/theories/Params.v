(* Params.v — model of alpaqa::params::set_params / set_param (ParamString instantiation).   NO proofs here.
   Sources modelled (as they are):
     params/params.hpp      split_key, set_params (split at '=', then '.', prefix filter, `used` counting)
     implementation/params/params.tpp   struct setter (table lookup, recursion), enum setter, assert_key_empty
     src/params/params.cpp  bool / number (from_chars + suffix check) / duration / vec setters
     util/duration-parse.hpp parse_single_duration, parse_duration
   The attribute tables themselves are NOT written here: they are generated (coq/gen/ParamTables.v) as `schema` trees.
   A parameter structure is a tree of positional fields (header declaration order); a table entry maps a key to the
   index of the member it is bound to and to the schema of that member.
   External behaviour kept abstract (Section variables): the decimal->binary conversion of std::from_chars on a
   syntactically valid number (`conv`) and the rounding of a double number of units to ticks (`ticks`, modelled
   concretely in ParamsDur.v). *)
From Coq Require Import String Ascii List ZArith Bool Arith.
Import ListNotations.
Local Open Scope string_scope.

(* ------------------------------------------------------------------ strings *)
Fixpoint split_at (c : ascii) (s : string) : string * string :=   (* split_key: first occurrence; (s, "") if absent *)
  match s with
  | EmptyString => (EmptyString, EmptyString)
  | String a r => if Ascii.eqb a c then (EmptyString, r)
                  else let (k, m) := split_at c r in (String a k, m)
  end.
Fixpoint count_while (p : ascii -> bool) (s : string) : nat :=
  match s with String a r => if p a then S (count_while p r) else 0 | EmptyString => 0 end.
Fixpoint sdrop (n : nat) (s : string) : string :=
  match n, s with 0, _ => s | S n', String _ r => sdrop n' r | _, EmptyString => EmptyString end.
Fixpoint stake (n : nat) (s : string) : string :=
  match n, s with 0, _ => EmptyString | S n', String a r => String a (stake n' r) | _, EmptyString => EmptyString end.
Fixpoint count_char (c : ascii) (s : string) : nat :=
  match s with String a r => (if Ascii.eqb a c then 1 else 0) + count_char c r | EmptyString => 0 end.

Definition ch_dot : ascii := "."%char.
Definition ch_eq : ascii := "="%char.
Definition ch_comma : ascii := ","%char.
Definition is_digit (a : ascii) : bool := let n := nat_of_ascii a in Nat.leb 48 n && Nat.leb n 57.
Definition digit_val (a : ascii) : Z := Z.of_nat (nat_of_ascii a) - 48.
Definition is_alpha (a : ascii) : bool :=
  let n := nat_of_ascii a in (Nat.leb 65 n && Nat.leb n 90) || (Nat.leb 97 n && Nat.leb n 122).
Definition is_nchar (a : ascii) : bool := is_digit a || is_alpha a || Ascii.eqb a "_"%char.
Definition lower (a : ascii) : ascii :=
  let n := nat_of_ascii a in if Nat.leb 65 n && Nat.leb n 90 then ascii_of_nat (n + 32) else a.
(* p is given in lower case *)
Fixpoint prefix_ci (p s : string) : bool :=
  match p, s with
  | EmptyString, _ => true
  | String a p', String b s' => Ascii.eqb a (lower b) && prefix_ci p' s'
  | _, _ => false
  end.
Fixpoint digits_val (acc : Z) (s : string) : Z :=
  match s with EmptyString => acc | String a r => digits_val (10 * acc + digit_val a) r end.

Fixpoint assoc {A} (k : string) (l : list (string * A)) : option A :=   (* std::map::find; first entry wins on duplicates *)
  match l with [] => None | (k', a) :: l' => if String.eqb k k' then Some a else assoc k l' end.

(* ------------------------------------------------------------------ types *)
Inductive leafty :=
| LBool
| LInt (lo hi : Z)                       (* integral type with value range [lo, hi] *)
| LReal
| LDur (period : nat)                    (* chrono duration with integer rep; period index in `unit_ns` *)
| LEnum (tbl : list (string * Z))        (* ENUM_TABLE: name -> value *)
| LOpaque.                               (* a type the translator does not know *)

Inductive err :=
| EUnknownKey | EIndexScalar | EEnumUnknown | EDurValue | EDurUnits | EDurRange   (* alpaqa::params::invalid_param *)
| EBadBool | ENumInvalid | ENumRange | ENumSuffix                            (* std::invalid_argument *)
| EDurUB                                                                      (* conversion double -> rep would overflow although the range check passed (edge of the range): outside the model *)
| EOracle | EShape.                                                           (* model cannot answer (missing oracle entry / ill-shaped state) *)

Inductive exc_class := XNone | XInvalidParam | XInvalidArgument | XUndefined.
Definition class_of (e : option err) : exc_class :=
  match e with
  | None => XNone
  | Some (EUnknownKey | EIndexScalar | EEnumUnknown | EDurValue | EDurUnits | EDurRange) => XInvalidParam
  | Some (EBadBool | ENumInvalid | ENumRange | ENumSuffix) => XInvalidArgument
  | Some _ => XUndefined
  end.

Inductive schema :=
| SLeaf (t : leafty)
| SStruct (name : string) (tbl : list (string * (nat * schema))).   (* key -> (member index, member schema) *)

Inductive convres (F : Type) := CVal (x : F) | CRange | CMissing.
Arguments CVal {F} x. Arguments CRange {F}. Arguments CMissing {F}.

(* result of converting a floating number of units to ticks of the field's resolution:
   TOk z ; TRange = NaN / infinite / outside the range of the representation (the parser throws) ; TUB = outside the model *)
Inductive tickres := TOk (z : Z) | TRange | TUB.

Inductive leafval (F : Type) := VBool (b : bool) | VInt (z : Z) | VReal (x : F) | VDur (t : Z) | VEnum (z : Z).
Arguments VBool {F} b. Arguments VInt {F} z. Arguments VReal {F} x. Arguments VDur {F} t. Arguments VEnum {F} z.

Inductive value (F : Type) := VLeaf (l : leafval F) | VNode (fs : list (value F)).
Arguments VLeaf {F} l. Arguments VNode {F} fs.

(* ------------------------------------------------------------------ std::from_chars syntax *)
Inductive scan_int_res := IInvalid | IRange | IVal (z : Z) (rest : string).

(* base 10; '-' only for signed types; no '+', no leading white space; value unmodified on error *)
Definition scan_int (lo hi : Z) (s : string) : scan_int_res :=
  let neg := match s with String a _ => Ascii.eqb a "-"%char && (lo <? 0)%Z | EmptyString => false end in
  let s1 := if neg then sdrop 1 s else s in
  let n := count_while is_digit s1 in
  if Nat.eqb n 0 then IInvalid else
  let m := digits_val 0 (stake n s1) in
  let z := if neg then (- m)%Z else m in
  if (lo <=? z)%Z && (z <=? hi)%Z then IVal z (sdrop n s1) else IRange.

(* chars_format::general: length of the longest prefix matching
     -? ( nan | nan(n-char-seq) | infinity | inf | digits [. digits] | . digits ) ( [eE] [+-]? digits )?      (case-insensitive words)
   the exponent part is taken only when at least one digit follows. None = no match (errc::invalid_argument). *)
Definition is_e (a : ascii) : bool := Ascii.eqb a "e"%char || Ascii.eqb a "E"%char.
Definition is_sign (a : ascii) : bool := Ascii.eqb a "+"%char || Ascii.eqb a "-"%char.
Definition scan_real_len (s : string) : option nat :=
  let sg := match s with String a _ => if Ascii.eqb a "-"%char then 1 else 0 | EmptyString => 0 end in
  let s1 := sdrop sg s in
  if prefix_ci "nan" s1 then
    match sdrop 3 s1 with
    | String a r => if Ascii.eqb a "("%char then
                      let k := count_while is_nchar r in
                      match sdrop k r with
                      | String b _ => if Ascii.eqb b ")"%char then Some (sg + 3 + 1 + k + 1) else Some (sg + 3)
                      | EmptyString => Some (sg + 3)
                      end
                    else Some (sg + 3)
    | EmptyString => Some (sg + 3)
    end
  else if prefix_ci "infinity" s1 then Some (sg + 8)
  else if prefix_ci "inf" s1 then Some (sg + 3)
  else
    let d1 := count_while is_digit s1 in
    let '(dot, d2) := match sdrop d1 s1 with
                      | String a r => if Ascii.eqb a ch_dot then (1, count_while is_digit r) else (0, 0)
                      | EmptyString => (0, 0)
                      end in
    if Nat.eqb (d1 + d2) 0 then None else
    let m := d1 + dot + d2 in
    let e := match sdrop m s1 with
             | String a r => if is_e a then
                               let sg2 := match r with String b _ => if is_sign b then 1 else 0 | EmptyString => 0 end in
                               let d3 := count_while is_digit (sdrop sg2 r) in
                               if Nat.eqb d3 0 then 0 else 1 + sg2 + d3
                             else 0
             | EmptyString => 0
             end in
    Some (sg + m + e).

(* ------------------------------------------------------------------ durations *)
(* unit chain of util/duration-parse.hpp, in nanoseconds: ns us ms s min h *)
Definition unit_ns : list Z := [1; 1000; 1000000; 1000000000; 60000000000; 3600000000000]%Z.
Definition s_micro : string := String (ascii_of_nat 194) (String (ascii_of_nat 181) "s").   (* "µs" in UTF-8 *)
Definition unit_of (u : string) : option nat :=
  if (u =? "s") || (u =? "") then Some 3
  else if u =? "ms" then Some 2
  else if (u =? "us") || (u =? s_micro) then Some 1
  else if u =? "ns" then Some 0
  else if u =? "min" then Some 4
  else if u =? "h" then Some 5
  else None.
Definition is_trim (a : ascii) : bool := Ascii.eqb a "+"%char || Ascii.eqb a " "%char.   (* find_first_not_of("+ ") *)
Definition is_unit_stop (a : ascii) : bool :=
  is_sign a || is_digit a || Ascii.eqb a ch_dot || Ascii.eqb a " "%char.

Section Model.
  Variable F : Type.
  Variable conv : string -> convres F.             (* std::from_chars value on a syntactically valid prefix *)
  Variable ticks : nat -> nat -> F -> tickres.     (* ticks period unit x = range check, then round<duration<rep,period>>(duration<double,unit>{x}).count() *)

  (* parse_duration on a zero-initialised TEMPORARY of the caller, one parse_single_duration per unit of fuel *)
  Fixpoint parse_dur (fuel : nat) (period : nat) (s : string) (t : Z) : Z * option err :=
    match fuel with
    | 0 => (t, Some EOracle)
    | S fuel' =>
      match s with
      | EmptyString => (t, None)
      | _ =>
        let s1 := sdrop (count_while is_trim s) s in
        match s1 with
        | EmptyString => (t, None)
        | _ =>
          match scan_real_len s1 with
          | None => (t, Some EDurValue)
          | Some n =>
            match conv (stake n s1) with
            | CRange => (t, Some EDurValue)
            | CMissing => (t, Some EOracle)
            | CVal x =>
              let rest := sdrop n s1 in
              let k := count_while (fun a => negb (is_unit_stop a)) rest in
              match unit_of (stake k rest) with
              | None => (t, Some EDurUnits)
              | Some u =>
                match ticks period u x with
                | TUB => (t, Some EDurUB)
                | TRange => (t, Some EDurRange)
                | TOk dz => parse_dur fuel' period (sdrop k rest) (t + dz)%Z
                end
              end
            end
          end
        end
      end
    end.

  (* leaf setters; the returned value is what is stored when the call returns OR throws.
     Numbers, durations are parsed into a temporary and assigned only on success. *)
  Definition set_leaf (t : leafty) (old : leafval F) (key val : string) : leafval F * option err :=
    if negb (key =? "") then (old, Some EIndexScalar) else
    match t with
    | LBool => if (val =? "0") || (val =? "false") then (VBool false, None)
               else if (val =? "1") || (val =? "true") then (VBool true, None)
               else (old, Some EBadBool)
    | LInt lo hi => match scan_int lo hi val with
                    | IInvalid => (old, Some ENumInvalid)
                    | IRange => (old, Some ENumRange)
                    | IVal z rest => if rest =? "" then (VInt z, None) else (old, Some ENumSuffix)
                    end
    | LReal => match scan_real_len val with
               | None => (old, Some ENumInvalid)
               | Some n => match conv (stake n val) with
                           | CRange => (old, Some ENumRange)
                           | CMissing => (old, Some EOracle)
                           | CVal x => if sdrop n val =? "" then (VReal x, None) else (old, Some ENumSuffix)
                           end
               end
    | LEnum tbl => match assoc val tbl with
                   | Some z => (VEnum z, None)
                   | None => (old, Some EEnumUnknown)
                   end
    | LDur p => let (t', e) := parse_dur (S (String.length val)) p val 0%Z in
                match e with None => (VDur t', None) | Some er => (old, Some er) end
    | LOpaque => (old, Some EShape)
    end.

  Fixpoint upd_nth {A} (i : nat) (a : A) (l : list A) : list A :=
    match l, i with
    | [], _ => []
    | _ :: l', 0 => a :: l'
    | b :: l', S i' => b :: upd_nth i' a l'
    end.

  (* one step of the struct setter once the table entry has been found *)
  Definition set_member (rec : value F -> value F * option err) (i : nat) (v : value F) : value F * option err :=
    match v with
    | VNode fs => match nth_error fs i with
                  | Some fv => let (fv', e) := rec fv in (VNode (upd_nth i fv' fs), e)
                  | None => (v, Some EShape)
                  end
    | VLeaf _ => (v, Some EShape)
    end.

  (* set_param(T&, ParamString{key, value}) *)
  Fixpoint set_param (sch : schema) (v : value F) (key val : string) {struct sch} : value F * option err :=
    match sch with
    | SLeaf t => match v with
                 | VLeaf l => let (l', e) := set_leaf t l key val in (VLeaf l', e)
                 | VNode _ => (v, Some EShape)
                 end
    | SStruct _ tbl =>
      let (k, rem) := split_at ch_dot key in
      (fix go (l : list (string * (nat * schema))) : value F * option err :=
         match l with
         | [] => (v, Some EUnknownKey)
         | (k', (i, sub)) :: l' =>
           if String.eqb k k' then set_member (fun fv => set_param sub fv rem val) i v else go l'
         end) tbl
    end.

  Fixpoint incr_nth (i : nat) (l : list nat) : list nat :=
    match l, i with
    | [], _ => []
    | n :: l', 0 => S n :: l'
    | n :: l', S i' => n :: incr_nth i' l'
    end.

  (* set_params(t, prefix, options, used): stops at the first exception (index of the option, error) *)
  Fixpoint set_params (sch : schema) (v : value F) (prefix : string) (opts : list string) (used : list nat) (i : nat)
    : value F * list nat * option (nat * err) :=
    match opts with
    | [] => (v, used, None)
    | kv :: rest =>
      let (key, val) := split_at ch_eq kv in
      let (pfx, rem) := split_at ch_dot key in
      if negb (pfx =? prefix) then set_params sch v prefix rest used (S i)
      else
        let used' := incr_nth i used in
        let (v', e) := set_param sch v rem val in
        match e with
        | Some er => (v', used', Some (i, er))
        | None => set_params sch v' prefix rest used' (S i)
        end
    end.

  (* set_param(vec&, ParamString): assert_key_empty, then a temporary of (#commas + 1) elements is filled element by
     element and assigned to the target only when every element was accepted. *)
  Fixpoint set_vec_elems (n : nat) (s : string) (acc : list F) : list F * option err :=
    match n with
    | 0 => (rev acc, None)
    | S n' =>
      let (e1, rem) := split_at ch_comma s in
      match scan_real_len e1 with
      | None => (rev acc, Some ENumInvalid)
      | Some k => match conv (stake k e1) with
                  | CRange => (rev acc, Some ENumRange)
                  | CMissing => (rev acc, Some EOracle)
                  | CVal x => if sdrop k e1 =? "" then set_vec_elems n' rem (x :: acc)
                              else (rev acc, Some ENumSuffix)
                  end
      end
    end.
  Definition set_vec (old : list F) (key val : string) : list F * option err :=
    if negb (key =? "") then (old, Some EIndexScalar) else
    let (xs, e) := set_vec_elems (S (count_char ch_comma val)) val [] in
    match e with None => (xs, None) | Some er => (old, Some er) end.

  (* ---------------------------------------------------------------- paths (for the statements) *)
  Fixpoint get (v : value F) (p : list nat) : option (value F) :=
    match p with
    | [] => Some v
    | i :: p' => match v with
                 | VNode fs => match nth_error fs i with Some f => get f p' | None => None end
                 | VLeaf _ => None
                 end
    end.
  Fixpoint upd (v : value F) (p : list nat) (w : value F) : value F :=
    match p with
    | [] => w
    | i :: p' => match v with
                 | VNode fs => match nth_error fs i with
                               | Some f => VNode (upd_nth i (upd f p' w) fs)
                               | None => v
                               end
                 | VLeaf _ => v
                 end
    end.
  (* the member path a key addresses (down to a leaf, whole key consumed), with the leaf type found there *)
  Fixpoint resolve (sch : schema) (key : string) {struct sch} : option (list nat * leafty) :=
    match sch with
    | SLeaf t => if key =? "" then Some ([], t) else None
    | SStruct _ tbl =>
      let (k, rem) := split_at ch_dot key in
      (fix go (l : list (string * (nat * schema))) : option (list nat * leafty) :=
         match l with
         | [] => None
         | (k', (i, sub)) :: l' =>
           if String.eqb k k' then
             match resolve sub rem with Some (p, t) => Some (i :: p, t) | None => None end
           else go l'
         end) tbl
    end.
  Fixpoint disjoint (p q : list nat) : Prop :=
    match p, q with
    | i :: p', j :: q' => i <> j \/ disjoint p' q'
    | _, _ => False
    end.
End Model.

Arguments set_leaf {F}. Arguments set_param {F}. Arguments set_params {F}. Arguments set_vec {F}.
Arguments parse_dur {F}. Arguments get {F}. Arguments upd {F}. Arguments set_member {F}. Arguments upd_nth {A}.

(* ------------------------------------------------------------------ finite checks over generated tables *)
Definition str_in (s : string) (l : list string) : bool := existsb (String.eqb s) l.
Fixpoint nodupb (l : list string) : bool :=
  match l with [] => true | a :: l' => negb (str_in a l') && nodupb l' end.
Definition lookup_list {A} (k : string) (l : list (string * list A)) : list A :=
  match assoc k l with Some x => x | None => [] end.

(* fields of the header that have no key in the table, as (struct, field) *)
Definition missing_in (decl : list (string * list string)) (tables : list (string * list (string * string)))
  : list (string * string) :=
  flat_map (fun sd => let keys := map fst (lookup_list (fst sd) tables) in
                      map (fun f => (fst sd, f)) (filter (fun f => negb (str_in f keys)) (snd sd))) decl.
Definition pair_in (x : string * string) (l : list (string * string)) : bool :=
  existsb (fun y => String.eqb (fst x) (fst y) && String.eqb (snd x) (snd y)) l.
Definition all_keys_unique (tables : list (string * list (string * string))) : bool :=
  forallb (fun t => nodupb (map fst (snd t))) tables.
Definition all_keys_same_member (tables : list (string * list (string * string))) : bool :=
  forallb (fun t => forallb (fun e => String.eqb (fst e) (snd e)) (snd t)) tables.
Definition all_targets_declared (decl : list (string * list string)) (tables : list (string * list (string * string))) : bool :=
  forallb (fun t => forallb (fun e => str_in (snd e) (lookup_list (fst t) decl)) (snd t)) tables.
Definition aliases_ok (tables aliases : list (string * list (string * string))) : bool :=
  forallb (fun t => let keys := map fst (lookup_list (fst t) tables) in
                    forallb (fun e => str_in (snd e) keys && negb (str_in (fst e) keys)) (snd t)) aliases.

Fixpoint index_of (s : string) (l : list string) : option nat :=
  match l with [] => None | a :: l' => if String.eqb s a then Some 0 else option_map S (index_of s l') end.
(* schema of a struct: every key resolves to the index of the header field with the same name *)
Definition schema_binds_by_name (decl : list (string * list string)) (e : string * schema) : bool :=
  match snd e with
  | SStruct n tbl => String.eqb n (fst e) &&
      forallb (fun r => match index_of (fst r) (lookup_list n decl) with
                        | Some i => Nat.eqb i (fst (snd r))
                        | None => false
                        end) tbl
  | SLeaf _ => false
  end.
