(* Corr_ProxGen.v — translation validation at binary64: the GENERATED definitions of coq/gen/ProxGen.v (not the hand model)
   are run on the cases of Corr_C15 (the inputs drv_C15 runs) and compared with what the C++ implementation returned. *)
From Coq Require Import Floats List ZArith Bool.
From Alpaqa Require Import Num NumF Vec ProxGenLib ProxGen Corr_C15.
Import ListNotations.

Definition model15g (c : c15case) : list float * list float * float * list nat :=
  match c with
  | CStep lb ub l1 γ x g _ _ _ _ =>
      let '(xh, p, h) := g_eval_prox_grad_step (lbs lb) (ubs ub) l1 γ x g in
      (xh, p, h, g_inactive_indices (lbs lb) (ubs ub) l1 γ x g)
  | CMult k lb ub M y _ => (g_proj_multipliers k (lbs lb) (ubs ub) M y, [], 0%float, [])
  | CL1s λ γ v _ _ => let '(o, h) := g_l1_prox_scal λ γ v in (o, [], h, [])
  | CL1v λ γ v _ _ => let '(o, h) := g_l1_prox_vec λ γ v in (o, [], h, [])
  | CL1c λ γ v _ => (unpairs (map (g_l1c_prox1 λ γ) (pairs v)), [], 0%float, [])
  | CBoxProx lb ub v _ => (map3 g_box_prox1 (lbs lb) (ubs ub) v, [], 0%float, [])
  | CBoxStep lb ub γf x d _ _ =>
      let p := zmap4 (fun l u xi di => g_box_prox_step1 l u γf xi di) (lbs lb) (ubs ub) x d in
      (map2 g_box_prox_step_out1 x p, p, 0%float, [])
  | CProjDiff lb ub z _ => (g_proj_diff_g (lbs lb) (ubs ub) z, [], 0%float, [])
  end.

Definition chk15g (c : c15case) : bool :=
  let '(o1, o2, h, J) := model15g c in
  match c with
  | CStep _ _ _ _ _ _ xh p hh JJ => vfeq o1 xh && vfeq o2 p && feq h hh && nat_list_eqb J JJ
  | CMult _ _ _ _ _ yout => vfeq o1 yout
  | CL1s _ _ _ out hh => vfeq o1 out && feq h hh
  | CL1v _ _ _ out hh => vfeq o1 out && feq h hh
  | CL1c _ _ _ out => vfeq o1 out
  | CBoxProx _ _ _ out => vfeq o1 out
  | CBoxStep _ _ _ _ _ out p => vfeq o1 out && vfeq o2 p
  | CProjDiff _ _ _ out => vfeq o1 out
  end.
