(* ProxProofs.v — theorems about Prox.v at the real instance (C15). *)
From Coq Require Import Reals List ZArith Lra Lia Bool Psatz.
From Flocq Require Import Raux.
From Alpaqa Require Import Num NumR Vec Prox.
Import ListNotations.
Local Open Scope R_scope.

(* ---------- boxes with optional sides ---------- *)
Definition lb_ok (lb : option R) (v : R) : Prop := match lb with None => True | Some l => l <= v end.
Definition ub_ok (ub : option R) (v : R) : Prop := match ub with None => True | Some u => v <= u end.
Definition in_box (lb ub : option R) (v : R) : Prop := lb_ok lb v /\ ub_ok ub v.
Definition box_ne (lb ub : option R) : Prop :=
  match lb, ub with Some l, Some u => l <= u | _, _ => True end.

Ltac obox :=
  repeat match goal with
  | lb : option R |- _ => destruct lb
  end; cbn [lb_ok ub_ok in_box box_ne osub xsubo option_map clamp_lo clamp_hi] in *.

Ltac crush := numR; rbool; try lra; try nra.

(* ---------- projection ---------- *)
Lemma proj1_in_box lb ub v : box_ne lb ub -> in_box lb ub (proj1 lb ub v).
Proof. unfold proj1, in_box; obox; intros; crush. Qed.

Lemma proj1_fix lb ub v : in_box lb ub v -> proj1 lb ub v = v.
Proof. unfold proj1, in_box; obox; intros; crush. Qed.

(* variational inequality = optimality condition of the projection *)
Lemma proj1_variational lb ub v u :
  box_ne lb ub -> in_box lb ub u -> (v - proj1 lb ub v) * (u - proj1 lb ub v) <= 0.
Proof. unfold proj1, in_box; obox; intros; crush. Qed.

(* strong minimality: dist² to any feasible u exceeds dist² to the projection by (u-Πv)² *)
Lemma proj1_strong_argmin lb ub v u :
  box_ne lb ub -> in_box lb ub u ->
  (proj1 lb ub v - v)² + (u - proj1 lb ub v)² <= (u - v)².
Proof.
  intros Hne Hu. pose proof (proj1_variational lb ub v u Hne Hu) as Hv.
  unfold Rsqr. nra.
Qed.

Lemma proj_step1_is_proj lb ub γ x g :
  x + proj_step1 lb ub γ x g = proj1 lb ub (x - γ * g).
Proof. unfold proj_step1, proj1; obox; crush. Qed.

Lemma box_prox_step1_is_proj lb ub γf x d :
  x + box_prox_step1 lb ub γf x d = proj1 lb ub (x + γf * d).
Proof. unfold box_prox_step1, proj1; obox; crush. Qed.

Lemma projdiff1_zero_iff lb ub v : box_ne lb ub -> (projdiff1 lb ub v = 0 <-> in_box lb ub v).
Proof.
  intros Hne. unfold projdiff1. split; intros Hz.
  - replace v with (proj1 lb ub v) by (numR; lra). now apply proj1_in_box.
  - rewrite proj1_fix by assumption. numR; lra.
Qed.

(* ---------- l1 prox (soft threshold) ---------- *)
Definition obj_l1 (λ γ v u : R) : R := λ * Rabs u + (u - v)² / (2 * γ).

Lemma l1_prox1_cases λ γ v : 0 <= λ -> 0 < γ ->
  let o := l1_prox1 λ γ v in
  (v > λ * γ /\ o = v - λ * γ) \/ (v < - (λ * γ) /\ o = v + λ * γ) \/ (- (λ * γ) <= v <= λ * γ /\ o = 0).
Proof.
  intros Hl Hg. unfold l1_prox1. assert (0 <= λ * γ) by nra.
  cbv zeta. numR. rbool; lra.
Qed.

(* scaled objective: γ·obj = s|u| + (u-v)²/2 with s = λγ *)
Definition sobj (s v u : R) : R := s * Rabs u + (u - v)² / 2.
Lemma obj_l1_scaled λ γ v u : 0 < γ -> obj_l1 λ γ v u = sobj (λ * γ) v u / γ.
Proof. intros; unfold obj_l1, sobj, Rsqr; field; lra. Qed.

Lemma soft_strong_argmin_scaled s v u o : 0 <= s ->
  (v > s /\ o = v - s) \/ (v < - s /\ o = v + s) \/ (- s <= v <= s /\ o = 0) ->
  sobj s v o + (u - o)² / 2 <= sobj s v u.
Proof.
  intros Hs [[Hv Ho]|[[Hv Ho]|[Hv Ho]]]; subst o; unfold sobj, Rsqr.
  - rewrite (Rabs_pos_eq (v - s)) by lra. unfold Rabs; destruct (Rcase_abs u); nra.
  - rewrite (Rabs_left (v + s)) by lra. unfold Rabs; destruct (Rcase_abs u); nra.
  - rewrite Rabs_R0. unfold Rabs; destruct (Rcase_abs u); nra.
Qed.

Lemma scaled_to_obj λ γ v u o : 0 < γ ->
  sobj (λ * γ) v o + (u - o)² / 2 <= sobj (λ * γ) v u ->
  obj_l1 λ γ v o + (u - o)² / (2 * γ) <= obj_l1 λ γ v u.
Proof.
  intros Hg Hle. rewrite !obj_l1_scaled by assumption.
  replace ((u - o)² / (2 * γ)) with (((u - o)² / 2) / γ) by (field; lra).
  assert (Hi : 0 < / γ) by (apply Rinv_0_lt_compat; lra).
  set (A := sobj (λ * γ) v o) in *. set (B := (u - o)² / 2) in *. set (C := sobj (λ * γ) v u) in *.
  unfold Rdiv. set (i := / γ) in *. clearbody A B C i. nra.
Qed.

(* strong minimality: obj(u) >= obj(out) + (u-out)²/(2γ)  (=> argmin, and uniqueness) *)
Lemma l1_prox1_strong_argmin λ γ v u : 0 <= λ -> 0 < γ ->
  obj_l1 λ γ v (l1_prox1 λ γ v) + (u - l1_prox1 λ γ v)² / (2 * γ) <= obj_l1 λ γ v u.
Proof.
  intros Hl Hg. apply scaled_to_obj; [assumption|].
  apply soft_strong_argmin_scaled; [nra|]. exact (l1_prox1_cases λ γ v Hl Hg).
Qed.

(* subgradient form: (v - out)/γ ∈ λ ∂|.|(out) *)
Lemma l1_prox1_subgrad λ γ v : 0 <= λ -> 0 < γ ->
  let o := l1_prox1 λ γ v in
  (0 < o -> (v - o) / γ = λ) /\ (o < 0 -> (v - o) / γ = - λ) /\ (o = 0 -> Rabs ((v - o) / γ) <= λ).
Proof.
  intros Hl Hg o. assert (Hs : 0 <= λ * γ) by nra.
  destruct (l1_prox1_cases λ γ v Hl Hg) as [[Hv Ho]|[[Hv Ho]|[Hv Ho]]]; fold o in Ho; rewrite Ho.
  - split; [|split]; intros Hx; try lra. field; lra.
  - split; [|split]; intros Hx; try lra. field; lra.
  - split; [|split]; intros Hx; try lra.
    replace ((v - 0) / γ) with (v * / γ) by (field; lra).
    rewrite Rabs_mult, (Rabs_pos_eq (/ γ)) by (left; apply Rinv_0_lt_compat; lra).
    apply Rmult_le_reg_r with γ; [lra|]. rewrite Rmult_assoc, Rinv_l by lra.
    rewrite Rmult_1_r. apply Rabs_le. lra.
Qed.

(* ---------- box + l1 forward-backward step ---------- *)
Lemma box_l1_step1_cases lb ub λ γ x g :
  0 <= λ -> 0 < γ -> lb_ok lb 0 -> ub_ok ub 0 ->
  x + box_l1_step1 lb ub λ γ x g = proj1 lb ub (l1_prox1 λ γ (x - γ * g)).
Proof.
  intros Hl Hg Hlb Hub. assert (0 <= λ * γ) by nra.
  unfold box_l1_step1, proj1, l1_prox1; obox; cbv zeta; crush.
Qed.

(* For lb <= 0 <= ub the prox of λ|.| + δ_box is the projection of the soft threshold; strong minimality *)
Lemma box_soft_strong_argmin_scaled lb ub s v u t : 0 <= s ->
  (v > s /\ t = v - s) \/ (v < - s /\ t = v + s) \/ (- s <= v <= s /\ t = 0) ->
  lb_ok lb 0 -> ub_ok ub 0 -> in_box lb ub u ->
  sobj s v (proj1 lb ub t) + (u - proj1 lb ub t)² / 2 <= sobj s v u.
Proof.
  intros Hs Hc Hlb Hub Hu. unfold sobj, Rsqr, proj1, in_box in *.
  destruct Hc as [[Hv Ho]|[[Hv Ho]|[Hv Ho]]]; subst t; obox.
  all: numR; rbool; unfold Rabs in *; repeat destruct (Rcase_abs _); try lra; try nra.
Qed.

Lemma box_l1_strong_argmin lb ub λ γ v u :
  0 <= λ -> 0 < γ -> lb_ok lb 0 -> ub_ok ub 0 -> in_box lb ub u ->
  let o := proj1 lb ub (l1_prox1 λ γ v) in
  in_box lb ub o /\ obj_l1 λ γ v o + (u - o)² / (2 * γ) <= obj_l1 λ γ v u.
Proof.
  intros Hl Hg Hlb Hub Hu o.
  assert (Hne : box_ne lb ub) by (unfold box_ne; destruct lb, ub; cbn in *; lra).
  split; [apply proj1_in_box; assumption|].
  apply scaled_to_obj; [assumption|]. subst o.
  apply box_soft_strong_argmin_scaled; try assumption; [nra|].
  exact (l1_prox1_cases λ γ v Hl Hg).
Qed.

(* ---------- inactive indices = where the step is locally the identity shift ---------- *)
Definition fb1 lb ub λ γ (w : R) : R := proj1 lb ub (l1_prox1 λ γ w).   (* w = x - γ g *)

Lemma inactive1_locally_shift lb ub λ γ x g :
  0 <= λ -> 0 < γ -> lb_ok lb 0 -> ub_ok ub 0 ->
  inactive1 lb ub λ γ x g = true ->
  exists ε, 0 < ε /\ forall δ, Rabs δ < ε ->
     fb1 lb ub λ γ (x - γ * g + δ) = fb1 lb ub λ γ (x - γ * g) + δ.
Proof.
  intros Hl Hg Hlb Hub. unfold inactive1, in_interior, fb1. cbv zeta.
  set (w := x - γ * g). assert (Hs : 0 <= γ * λ) by nra.
  numR. fold w.
  destruct (Req_bool_spec λ 0) as [Hz|Hz].
  - (* λ = 0: prox is identity *)
    subst λ. intros Hin.
    assert (Hgap : exists ε, 0 < ε /\ lb_ok lb (w - ε) /\ ub_ok ub (w + ε)).
    { destruct lb as [l|], ub as [u|]; cbn in *; rbool; try discriminate.
      - exists (Rmin (w - l) (u - w) / 2). unfold Rmin; destruct (Rle_dec _ _); repeat split; lra.
      - exists ((w - l) / 2); repeat split; lra.
      - exists ((u - w) / 2); repeat split; lra.
      - exists 1; repeat split; lra. }
    destruct Hgap as (ε & He & Hl' & Hu'). exists ε; split; [assumption|]. intros δ Hd.
    apply Rabs_def2 in Hd.
    unfold proj1, l1_prox1; obox; cbv zeta; crush.
  - intros Hin.
    assert (Hgap : exists ε, 0 < ε /\
       ((γ * λ + ε < w /\ lb_ok lb (w - γ * λ - ε) /\ ub_ok ub (w - γ * λ + ε)) \/
        (w < - (γ * λ) - ε /\ lb_ok lb (w + γ * λ - ε) /\ ub_ok ub (w + γ * λ + ε)))).
    { destruct (Rlt_bool_spec (γ * λ) w) as [Hw|Hw].
      - destruct lb as [l|], ub as [u|]; cbn in *; rbool; try discriminate.
        + exists (Rmin (Rmin (w - γ * λ - l) (u - (w - γ * λ))) (w - γ * λ) / 2). split.
          * unfold Rmin; repeat destruct (Rle_dec _ _); lra.
          * left. unfold Rmin; repeat destruct (Rle_dec _ _); repeat split; lra.
        + exists (Rmin (w - γ * λ - l) (w - γ * λ) / 2). split.
          * unfold Rmin; repeat destruct (Rle_dec _ _); lra.
          * left. unfold Rmin; repeat destruct (Rle_dec _ _); repeat split; lra.
        + exists (Rmin (u - (w - γ * λ)) (w - γ * λ) / 2). split.
          * unfold Rmin; repeat destruct (Rle_dec _ _); lra.
          * left. unfold Rmin; repeat destruct (Rle_dec _ _); repeat split; lra.
        + exists ((w - γ * λ) / 2). split; [lra|]. left; repeat split; lra.
      - destruct (Rlt_bool_spec w (- (γ * λ))) as [Hw2|Hw2]; [|discriminate].
        destruct lb as [l|], ub as [u|]; cbn in *; rbool; try discriminate.
        + exists (Rmin (Rmin (w + γ * λ - l) (u - (w + γ * λ))) (- (w + γ * λ)) / 2). split.
          * unfold Rmin; repeat destruct (Rle_dec _ _); lra.
          * right. unfold Rmin; repeat destruct (Rle_dec _ _); repeat split; lra.
        + exists (Rmin (w + γ * λ - l) (- (w + γ * λ)) / 2). split.
          * unfold Rmin; repeat destruct (Rle_dec _ _); lra.
          * right. unfold Rmin; repeat destruct (Rle_dec _ _); repeat split; lra.
        + exists (Rmin (u - (w + γ * λ)) (- (w + γ * λ)) / 2). split.
          * unfold Rmin; repeat destruct (Rle_dec _ _); lra.
          * right. unfold Rmin; repeat destruct (Rle_dec _ _); repeat split; lra.
        + exists ((- (w + γ * λ)) / 2). split; [lra|]. right; repeat split; lra. }
    destruct Hgap as (ε & He & Hcase). exists ε; split; [assumption|]. intros δ Hd.
    apply Rabs_def2 in Hd. replace (λ * γ) with (γ * λ) in * by ring.
    unfold proj1, l1_prox1; cbv zeta; replace (λ * γ) with (γ * λ) by ring.
    destruct Hcase as [(H1 & H2 & H3)|(H1 & H2 & H3)]; obox; crush.
Qed.

(* converse: if the index is NOT reported, the map is not locally a shift *)
Lemma l1_prox1_mono λ γ a b : 0 <= λ -> 0 < γ -> a <= b -> l1_prox1 λ γ a <= l1_prox1 λ γ b.
Proof.
  intros Hl Hg Hab. assert (0 <= λ * γ) by nra.
  destruct (l1_prox1_cases λ γ a Hl Hg) as [[Ha Ho]|[[Ha Ho]|[Ha Ho]]]; rewrite Ho;
  destruct (l1_prox1_cases λ γ b Hl Hg) as [[Hb Hp]|[[Hb Hp]|[Hb Hp]]]; rewrite Hp;
  lra.
Qed.
Lemma proj1_low l ub t : ub_ok ub l -> t <= l -> proj1 (Some l) ub t = l.
Proof. unfold proj1; destruct ub; cbn; intros; crush. Qed.
Lemma proj1_high lb u t : lb_ok lb u -> u <= t -> proj1 lb (Some u) t = u.
Proof. unfold proj1; destruct lb; cbn; intros; crush. Qed.
Lemma not_interior lb ub t : in_interior lb ub t = false ->
  (exists l, lb = Some l /\ t <= l) \/ (exists u, ub = Some u /\ u <= t).
Proof.
  unfold in_interior. destruct lb as [l|], ub as [u|]; numR; rbool; cbn; intros; try discriminate;
    (left; eexists; split; [reflexivity|lra]) || (right; eexists; split; [reflexivity|lra]).
Qed.

Lemma not_inactive1_not_shift lb ub λ γ x g :
  0 <= λ -> 0 < γ -> lb_ok lb 0 -> ub_ok ub 0 ->
  inactive1 lb ub λ γ x g = false ->
  forall ε, 0 < ε -> exists δ, Rabs δ < ε /\
     fb1 lb ub λ γ (x - γ * g + δ) <> fb1 lb ub λ γ (x - γ * g) + δ.
Proof.
  intros Hl Hg Hlb Hub.
  assert (Hne : box_ne lb ub) by (unfold box_ne; destruct lb, ub; cbn in *; lra).
  unfold inactive1, fb1. cbv zeta. set (w := x - γ * g). assert (Hs : 0 <= λ * γ) by nra.
  intros Hin ε He.
  (* the three regimes of the soft threshold at w *)
  assert (Hneg : Rabs (- (ε / 2)) < ε) by (rewrite Rabs_Ropp, Rabs_pos_eq; lra).
  assert (Hpos : Rabs (ε / 2) < ε) by (rewrite Rabs_pos_eq; lra).
  (* generic facts: pinned at a bound *)
  assert (Hlowpin : forall l t, lb = Some l -> t <= l ->
            exists δ, Rabs δ < ε /\ forall t', t' <= t -> True).
  { intros; exists 0; split; [rewrite Rabs_R0; lra|trivial]. }
  clear Hlowpin.
  pose proof (l1_prox1_cases λ γ w Hl Hg) as Hc. cbv zeta in Hc.
  revert Hin. numR. fold w. clearbody w.
  destruct (Req_bool_spec λ 0) as [Hz|Hz].
  - (* λ = 0: soft threshold is the identity *)
    intros Hin. apply not_interior in Hin.
    assert (Hid : forall t, l1_prox1 λ γ t = t).
    { intros t. subst λ. unfold l1_prox1. cbv zeta. numR. rbool; lra. }
    destruct Hin as [(l & El & Hle)|(u & Eu & Hle)]; subst.
    + exists (- (ε / 2)). split; [assumption|]. rewrite !Hid.
      rewrite !proj1_low; try lra; destruct ub; unfold lb_ok, ub_ok, box_ne in *; lra.
    + exists (ε / 2). split; [assumption|]. rewrite !Hid.
      rewrite !proj1_high; try lra; destruct lb; unfold lb_ok, ub_ok, box_ne in *; lra.
  - assert (Hsp : 0 < λ * γ) by nra. replace (γ * λ) with (λ * γ) by ring.
    destruct (Rlt_bool_spec (λ * γ) w) as [Hw|Hw].
    + (* w > s: output w - s, pinned at a bound *)
      intros Hin. apply not_interior in Hin.
      destruct Hc as [[_ Ho]|[[Hv _]|[Hv _]]]; [| lra | lra].
      destruct Hin as [(l & El & Hle)|(u & Eu & Hle)]; subst lb || subst ub.
      * exists (- (ε / 2)). split; [assumption|].
        assert (Hm : l1_prox1 λ γ (w + - (ε / 2)) <= l1_prox1 λ γ w) by (apply l1_prox1_mono; lra).
        rewrite !proj1_low; try lra; destruct ub; unfold lb_ok, ub_ok, box_ne in *; lra.
      * exists (ε / 2). split; [assumption|].
        assert (Hm : l1_prox1 λ γ w <= l1_prox1 λ γ (w + ε / 2)) by (apply l1_prox1_mono; lra).
        rewrite !proj1_high; try lra; destruct lb; unfold lb_ok, ub_ok, box_ne in *; lra.
    + destruct (Rlt_bool_spec w (- (λ * γ))) as [Hw2|Hw2].
      * intros Hin. apply not_interior in Hin.
        destruct Hc as [[Hv _]|[[_ Ho]|[Hv _]]]; [lra| | lra].
        destruct Hin as [(l & El & Hle)|(u & Eu & Hle)]; subst lb || subst ub.
        -- exists (- (ε / 2)). split; [assumption|].
           assert (Hm : l1_prox1 λ γ (w + - (ε / 2)) <= l1_prox1 λ γ w) by (apply l1_prox1_mono; lra).
           rewrite !proj1_low; try lra; destruct ub; unfold lb_ok, ub_ok, box_ne in *; lra.
        -- exists (ε / 2). split; [assumption|].
           assert (Hm : l1_prox1 λ γ w <= l1_prox1 λ γ (w + ε / 2)) by (apply l1_prox1_mono; lra).
           rewrite !proj1_high; try lra; destruct lb; unfold lb_ok, ub_ok, box_ne in *; lra.
      * (* |w| <= s: output 0 on a neighbourhood side *)
        intros _.
        assert (Hz0 : forall t, - (λ * γ) <= t <= λ * γ -> proj1 lb ub (l1_prox1 λ γ t) = 0).
        { intros t Ht. destruct (l1_prox1_cases λ γ t Hl Hg) as [[Hv _]|[[Hv _]|[_ Ho]]]; try lra.
          rewrite Ho. apply proj1_fix. split; assumption. }
        destruct (Rle_dec w 0) as [Hw0|Hw0].
        -- exists (Rmin (ε / 2) (λ * γ)). split.
           { rewrite Rabs_pos_eq; unfold Rmin; destruct (Rle_dec (ε / 2) (λ * γ)); lra. }
           rewrite !Hz0; unfold Rmin; destruct (Rle_dec (ε / 2) (λ * γ)); lra.
        -- exists (- Rmin (ε / 2) (λ * γ)). split.
           { rewrite Rabs_Ropp, Rabs_pos_eq; unfold Rmin; destruct (Rle_dec (ε / 2) (λ * γ)); lra. }
           rewrite !Hz0; unfold Rmin; destruct (Rle_dec (ε / 2) (λ * γ)); lra.
Qed.

(* ---------- multiplier projection ---------- *)
Lemma proj_mult1_spec lb ub M y : 0 <= M ->
  let o := proj_mult1 lb ub M y in
  - M <= o <= M /\ (lb = None -> 0 <= o) /\ (ub = None -> o <= 0) /\
  (forall l u, lb = Some l -> ub = Some u -> o = Rmax (- M) (Rmin y M)) /\
  ((lb = None -> 0 <= y) -> (ub = None -> y <= 0) -> - M <= y <= M -> o = y).
Proof.
  intros HM. unfold proj_mult1. destruct lb, ub; cbv zeta; numR; unfold Rmax, Rmin;
    repeat split; intros; try discriminate; rbool; repeat destruct (Rle_dec _ _); try lra.
  all: try (specialize (H eq_refl)); try (specialize (H0 eq_refl)); try lra.
Qed.

(* ---------- complex l1 (group soft threshold in R²) ---------- *)
Definition nrm2 (a b : R) : R := sqrt (a * a + b * b).
Definition obj_l1c (λ γ : R) (v u : R * R) : R :=
  λ * nrm2 (fst u) (snd u) + ((fst u - fst v)² + (snd u - snd v)²) / (2 * γ).

Lemma nrm2_nonneg a b : 0 <= nrm2 a b. Proof. apply sqrt_pos. Qed.
Lemma nrm2_sq a b : nrm2 a b * nrm2 a b = a * a + b * b.
Proof. unfold nrm2. apply sqrt_sqrt. nra. Qed.
Lemma cauchy2 a b c d : a * c + b * d <= nrm2 a b * nrm2 c d.
Proof.
  destruct (Rle_dec (a * c + b * d) 0) as [Hn|Hp].
  - pose proof (nrm2_nonneg a b); pose proof (nrm2_nonneg c d). nra.
  - apply Rsqr_incr_0_var; [|pose proof (nrm2_nonneg a b); pose proof (nrm2_nonneg c d); nra].
    unfold Rsqr. pose proof (nrm2_sq a b). pose proof (nrm2_sq c d).
    replace (nrm2 a b * nrm2 c d * (nrm2 a b * nrm2 c d))
      with ((nrm2 a b * nrm2 a b) * (nrm2 c d * nrm2 c d)) by ring.
    rewrite H, H0. pose proof (Rle_0_sqr (a * d - b * c)) as Hq; unfold Rsqr in Hq. nra.
Qed.

Lemma nrm2_scale a b f : 0 <= f -> nrm2 (a * f) (b * f) = f * nrm2 a b.
Proof.
  intros Hf. unfold nrm2.
  replace (a * f * (a * f) + b * f * (b * f)) with ((f * f) * (a * a + b * b)) by ring.
  rewrite sqrt_mult_alt by nra. rewrite sqrt_square by assumption. reflexivity.
Qed.

Lemma l1c_prox1_argmin λ γ v u : 0 <= λ -> 0 < γ ->
  obj_l1c λ γ v (l1c_prox1 λ γ v) <= obj_l1c λ γ v u.
Proof.
  intros Hl Hg. destruct v as [a b], u as [c d].
  (* scaled objective *)
  set (s := γ * λ). assert (Hs : 0 <= s) by (unfold s; nra).
  assert (Hsc : forall p q, obj_l1c λ γ (a, b) (p, q) =
            (s * nrm2 p q + ((p - a)² + (q - b)²) / 2) / γ).
  { intros; unfold obj_l1c, s; cbn [fst snd]; field; lra. }
  destruct (l1c_prox1 λ γ (a, b)) as [oa ob] eqn:Eo.
  rewrite !Hsc. unfold Rdiv at 1 3.
  apply Rmult_le_compat_r; [left; apply Rinv_0_lt_compat; lra|].
  pose proof (nrm2_nonneg a b) as Hn. pose proof (nrm2_sq a b) as Hsq.
  pose proof (nrm2_nonneg c d) as Hn'. pose proof (nrm2_sq c d) as Hsq'.
  pose proof (cauchy2 a b c d) as Hcs.
  set (r := nrm2 a b) in *. set (ρ := nrm2 c d) in *.
  revert Eo. unfold l1c_prox1. numR. fold s.
  destruct (Rle_bool_spec (a * a + b * b) (s * s)) as [Hsmall|Hbig]; intros Eo; inversion Eo; subst oa ob; clear Eo.
  - (* output 0 *)
    assert (Hrs : r <= s) by nra.
    replace (nrm2 0 0) with 0 by (unfold nrm2; rewrite Rmult_0_l, Rplus_0_l, sqrt_0; reflexivity).
    assert (H1 : 0 <= (s - r) * ρ) by nra.
    unfold Rsqr. nra.
  - (* output (1 - s/|v|) v *)
    assert (Hrs : s < r) by nra. assert (Hpos : 0 < r) by lra.
    change (sqrt (a * a + b * b)) with r. set (t := s / r).
    assert (Ht : t * r = s) by (unfold t; field; lra).
    assert (Ht0 : 0 <= 1 - t).
    { assert (t < 1); [|lra]. apply Rmult_lt_reg_r with r; [lra|]. rewrite Ht. lra. }
    rewrite (nrm2_scale a b (1 - t) Ht0). fold r.
    assert (E1 : (a * (1 - t) - a)² + (b * (1 - t) - b)² = s * s).
    { unfold Rsqr. replace (s * s) with ((t * r) * (t * r)) by (rewrite Ht; ring).
      replace (t * r * (t * r)) with (t * t * (r * r)) by ring. rewrite Hsq. ring. }
    rewrite E1.
    replace (s * ((1 - t) * r)) with (s * r - s * s) by (rewrite <- Ht at 2; ring).
    assert (E2 : (c - a)² + (d - b)² = ρ * ρ - 2 * (a * c + b * d) + r * r).
    { unfold Rsqr. rewrite Hsq, Hsq'. ring. }
    rewrite E2.
    pose proof (Rle_0_sqr (ρ - (r - s))) as Hq. unfold Rsqr in Hq. nra.
Qed.
