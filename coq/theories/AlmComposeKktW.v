(* AlmComposeKktW.v — the generic end-to-end lemma of C01 (AlmComposeKkt.compose_converged_is_kkt) with an INVARIANT OF THE WORLD:
   the inner solver has to satisfy the inner contract only when the world it is handed satisfies WI, and has to re-establish WI.
   Needed for inner solvers whose persistent part (the direction provider object that lives across inner solves) must be in a sane
   state for the contract to hold — AndersonDirection: `resize` keeps the storage it finds when the sizes match.
   Same proof as AlmComposeKkt.compose_converged_is_kkt, with `called_last` carrying the joint invariant (|x| = n, WI w).
   Also: `kkt_point`, the conclusion of all end-to-end theorems as one definition.  Over R. *)
From Coq Require Import Reals List ZArith Lra Lia Bool Arith Psatz.
From Flocq Require Import Raux.
From Alpaqa Require Import Num NumR Vec Prox ProxProofs ProxVec SolverStatus SolverKernels SolverKernelsProofs DescentProofs
                           StopChain StopChainProofs KktProofs AugLag AugLagProofs LiveVec
                           Alm AlmProofs AlmCompose AlmComposeProofs AlmComposeKkt.
Import ListNotations.
Local Open Scope R_scope.

(* (x, y) is an approximate KKT point of  min f(x) s.t. x in C = [Clb, Cub], g(x) in D = [plb, pub]  with tolerances (tol, dtol) *)
Definition kkt_point (Pb : problem (T:=R)) (Clb Cub : list (option R)) (n m : nat) (tol dtol : R) (x y : list R) : Prop :=
  length x = n /\ length y = m /\
  (forall i, (i < n)%nat -> in_box (nth i Clb None) (nth i Cub None) (nth i x 0)) /\
  (forall i, (i < n)%nat -> exists r,
      (forall u, in_box (nth i Clb None) (nth i Cub None) u -> r * (u - nth i x 0) <= 0) /\
      Rabs (- nth i (vadd (pgrad_f Pb x) (pgrad_g_prod Pb x y)) 0 - r) <= tol) /\
  (forall i, (i < m)%nat -> exists z,
      in_box (nth i (plb Pb) None) (nth i (pub Pb) None) z /\ Rabs (nth i (pg Pb x) 0 - z) <= dtol) /\
  (forall i, (i < m)%nat ->
      (0 < nth i y 0 -> exists u, nth i (pub Pb) None = Some u /\ Rabs (nth i (pg Pb x) 0 - u) <= dtol) /\
      (nth i y 0 < 0 -> exists l, nth i (plb Pb) None = Some l /\ Rabs (nth i (pg Pb x) 0 - l) <= dtol)).

Section GenericKktW.
  Variables (W Lg : Type).
  Variable inner : W -> nat -> list R -> list R -> list R -> R -> list R -> option (inner_res (T:=R) * list R * Lg * W).
  Variable WI : W -> Prop.
  Variable Pb : problem (T:=R).
  Variables (Clb Cub : list (option R)).
  Variable split : nat.
  Variable AP : alm_params (T:=R).
  Variables (n m : nat).

  (* the inner contract, required in sane worlds only; every call on an n-vector keeps the world sane *)
  Definition inner_contract_kkt_W : Prop :=
    forall w i x y Σ tol errz r x' lg w', WI w -> length x = n ->
    inner w i x y Σ tol errz = Some (r, x', lg, w') ->
    WI w' /\ length x' = n /\
    (ir_status r = Converged ->
       let yh := yhat_def Pb x' y Σ in
       ir_y r = Some yh /\
       ir_err r = Some (match errz with [] => [] | _ => vdiv (vsub yh y) Σ end) /\
       exists (xx grad : list R) (γ : R),
         let step := proj_grad_step Clb Cub γ xx grad in
         0 < γ /\ length xx = n /\ length grad = n /\ x' = fst (fst step) /\
         ir_eps r = vnorminf (kkt_residual γ (snd (fst step)) grad (grad_L_def Pb x' yh)) /\
         ir_eps r <= eff_tol tol).

  Hypothesis HClb : length Clb = n.
  Hypothesis HCub : length Cub = n.
  Hypothesis HCne : Forall2 box_ne Clb Cub.
  Hypothesis Hgf : forall x, length x = n -> length (pgrad_f Pb x) = n.
  Hypothesis Hgg : forall x y, length x = n -> length (pgrad_g_prod Pb x y) = n.
  Hypothesis Hg : forall x, length x = n -> length (pg Pb x) = m.
  Hypothesis HDlb : length (plb Pb) = m.
  Hypothesis HDub : length (pub Pb) = m.
  Hypothesis HDne : Forall2 box_ne (plb Pb) (pub Pb).

  Notation calledW := (called W Lg inner).

  (* `called` with the joint invariant: every call of the trace was made in a sane world on an n-vector *)
  Lemma called_last_W : inner_contract_kkt_W ->
    forall pre rc x0 w0 xf wf, WI w0 -> length x0 = n -> calledW x0 w0 (pre ++ [rc]) xf wf ->
      exists x w lg, WI w /\ length x = n /\
        inner w (it_i rc) x (it_y rc) (it_Sigma rc) (it_tol rc) (it_err_in rc) = Some (it_res rc, xf, lg, wf).
  Proof.
    intros HQ. induction pre as [|a pre IH]; intros rc x0 w0 xf wf W0 Q0 Hc; cbn [app] in Hc.
    - inversion Hc as [|? ? ? x' lg w' ? ? ? Ein Hrest]; subst. inversion Hrest; subst. exists x0, w0, lg. repeat split; assumption.
    - inversion Hc as [|? ? ? x' lg w' ? ? ? Ein Hrest]; subst.
      destruct (HQ _ _ _ _ _ _ _ _ _ _ _ W0 Q0 Ein) as (A & B & _). apply (IH rc x' w' xf wf A B Hrest).
  Qed.

  Lemma called_WI : inner_contract_kkt_W ->
    forall tr x0 w0 xf wf, WI w0 -> length x0 = n -> calledW x0 w0 tr xf wf -> WI wf /\ length xf = n.
  Proof.
    intros HQ. induction tr as [|a tr IH]; intros x0 w0 xf wf W0 Q0 Hc.
    - inversion Hc; subst. split; assumption.
    - inversion Hc as [|? ? ? x' lg w' ? ? ? Ein Hrest]; subst.
      destruct (HQ _ _ _ _ _ _ _ _ _ _ _ W0 Q0 Ein) as (A & B & _). apply (IH x' w' xf wf A B Hrest).
  Qed.

  (* every completed composed run from a sane world ends in a sane world, with an n-vector in the primal buffer *)
  Theorem compose_keeps_world :
    inner_contract_kkt_W ->
    forall (pb : alm_problem (T:=R)) outer_fuel f0 g0 nanv Σ0 y0 x0 w0 co, WI w0 -> length x0 = n ->
    c_run W Lg inner AP pb outer_fuel f0 g0 nanv Σ0 y0 x0 w0 = Some co -> WI (co_w co) /\ length (co_x co) = n.
  Proof.
    intros HQ pb outer_fuel f0 g0 nanv Σ0 y0 x0 w0 co W0 Q0 Hrun.
    destruct (c_run_spec _ _ _ AP pb _ _ _ _ _ _ _ _ co Hrun) as (script & _ & _ & _ & Hcalled & _).
    exact (called_WI HQ _ _ _ _ _ W0 Q0 Hcalled).
  Qed.

  (* ================================================================ the generic theorem, with a world invariant *)
  Theorem compose_converged_is_kkt_W :
    inner_contract_kkt_W ->
    forall outer_fuel nanv Σ0 y0 x0 w0 co,
    WI w0 ->
    length x0 = n -> length y0 = m ->
    Alm.p_max_iter AP <> 0%nat ->
    (m <> 0%nat -> sigma_inv AP m (initial_sigma AP m (pf Pb x0) (pg Pb x0) Σ0)) ->
    (m = 0%nat -> 0 < p_tol AP) ->
    c_run W Lg inner AP (kkt_pb Pb split) outer_fuel (pf Pb x0) (pg Pb x0) nanv Σ0 y0 x0 w0 = Some co ->
    f_status (co_final co) = Converged ->
    kkt_point Pb Clb Cub n m (p_tol AP) (p_dual_tol AP) (co_x co) (f_y (co_final co)).
  Proof.
    intros inner_spec outer_fuel nanv Σ0 y0 x0 w0 co Hw0 Hx0 Hy0 Hmi HΣ Htol Hrun Hst. unfold kkt_point.
    set (pb := kkt_pb Pb split) in *.
    assert (Hpm : pb_m pb = m) by exact HDlb.
    destruct (c_run_spec _ _ _ AP pb _ _ _ _ _ _ _ _ co Hrun) as (script & Htr & Hfin & Hex & Hcalled & _ & Hne).
    specialize (Hne Hmi).
    destruct (Nat.eq_dec m 0) as [Hm0|Hm0].
    - (* ---- no general constraints: one inner solve at the final tolerance *)
      destruct script as [|r0 rest]; [contradiction|].
      unfold alm_run in Htr, Hfin. apply Nat.eqb_neq in Hmi. rewrite Hmi in Htr, Hfin.
      assert (Hpm0 : Nat.eqb (pb_m pb) 0 = true) by (apply Nat.eqb_eq; lia).
      rewrite Hpm0 in Htr, Hfin. cbn [fst snd] in Htr, Hfin.
      rewrite Htr in Hcalled.
      destruct (called_last_W inner_spec [] _ x0 w0 (co_x co) (co_w co) Hw0 Hx0 Hcalled) as (x & w & lg & Ww & Lx & Hin).
      cbn [it_i it_y it_Sigma it_tol it_err_in it_res] in Hin.
      destruct (inner_spec _ _ _ _ _ _ _ _ _ _ _ Ww Lx Hin) as (_ & Lxo & Hconv).
      rewrite Hfin in Hst. cbn [f_status] in Hst. destruct (Hconv Hst) as (Ey & _ & xx & grad & γ & Hγ & Lxx & Lgr & Ex & Eeps & Etol).
      cbv zeta in *.
      assert (Ey0 : y0 = []) by (destruct y0; [reflexivity|cbn in Hy0; lia]).
      assert (Eyh : yhat_def Pb (co_x co) y0 [] = []) by (rewrite Ey0; apply yhat_def_empty).
      assert (Efy : f_y (co_final co) = []).
      { rewrite Hfin. cbn [f_y]. rewrite Ey, Eyh, Ey0. reflexivity. }
      rewrite Efy. rewrite Eyh in Eeps.
      assert (Heff : eff_tol (p_tol AP) = p_tol AP).
      { unfold eff_tol. change (@nltb R NumR) with Rlt_bool. change (@n0 R NumR) with 0.
        destruct (Raux.Rlt_bool_spec 0 (p_tol AP)) as [_|Hle]; [reflexivity|]. specialize (Htol Hm0). lra. }
      rewrite Heff in Etol.
      destruct (primal_part Pb Clb Cub n HClb HCub HCne Hgf Hgg (co_x co) [] xx grad γ (ir_eps r0) (p_tol AP) Hγ Lxx Lgr Lxo Ex Eeps Etol) as (P1 & P2).
      split; [exact Lxo|]. split; [cbn; lia|]. split; [exact P1|]. split; [exact P2|].
      split; intros i Hi; lia.
    - (* ---- general constraints: the last record of the trace *)
      assert (Hm : pb_m pb <> 0%nat) by (rewrite Hpm; exact Hm0).
      specialize (HΣ Hm0). rewrite <- Hpm in HΣ.
      rewrite Hfin in Hex, Hst.
      destruct (run_final AP pb _ _ nanv Σ0 y0 script Hmi Hm Hex) as (pre & r & Htr' & _ & _ & _ & Hf).
      cbv zeta in Hf. destruct Hf as (F1 & _ & _ & _ & _ & _ & F7).
      rewrite F1 in Hst. apply rec_status_converged_iff in Hst. destruct Hst as (Hc1 & Hc2 & Hc3).
      pose proof (run_growth AP pb (pf Pb x0) (pg Pb x0) nanv Σ0 y0 script ltac:(destruct HΣ as [A _]; exact A)) as [Hwf _].
      pose proof (run_sigma_positive AP pb (pf Pb x0) (pg Pb x0) nanv Σ0 y0 script HΣ) as Hsp.
      pose proof (run_y_length AP pb (pf Pb x0) (pg Pb x0) nanv Σ0 y0 script Hmi Hm (eq_trans HDub (eq_sym Hpm)) (eq_trans Hy0 (eq_sym Hpm))) as Hyl.
      rewrite Htr' in Hwf, Hsp, Hyl. apply Forall_last in Hwf, Hsp, Hyl.
      destruct Hwf as (W1 & W2 & W3 & W4). destruct Hsp as (S1 & _). rewrite Hpm in *.
      rewrite Htr, Htr' in Hcalled.
      destruct (called_last_W inner_spec pre r x0 w0 (co_x co) (co_w co) Hw0 Hx0 Hcalled) as (x & w & lg & Ww & Lx & Hin).
      destruct (inner_spec _ _ _ _ _ _ _ _ _ _ _ Ww Lx Hin) as (_ & Lxo & Hconv).
      destruct (Hconv Hc1) as (Ey & Ee & xx & grad & γ & Hγ & Lxx & Lgr & Ex & Eeps & _). cbv zeta in *.
      set (xh := co_x co) in *. set (yh := yhat_def Pb xh (it_y r) (it_Sigma r)) in *.
      assert (Lyh : length yh = m) by (apply yhat_def_length; try assumption; now apply Hg).
      assert (Efy : f_y (co_final co) = yh).
      { rewrite Hfin, F7, Ey. unfold pick. rewrite Lyh, Nat.eqb_refl. reflexivity. }
      assert (Eerr : it_err r = vdiv (vsub yh (it_y r)) (it_Sigma r)).
      { rewrite W2, Ee. destruct (it_err_in r) as [|e0 ein] eqn:Ein.
        - exfalso. rewrite W2, Ee in W4. unfold pick in W4. cbn [length] in W4. destruct (Nat.eqb 0 m); cbn in W4; lia.
        - unfold pick.
          assert (Lv : length (vdiv (vsub yh (it_y r)) (it_Sigma r)) = m)
            by (unfold vdiv, vsub; apply ProxVec.map2_length; [apply ProxVec.map2_length|]; assumption).
          rewrite Lv, Nat.eqb_refl. reflexivity. }
      rewrite W1, Eerr in Hc3.
      destruct (primal_part Pb Clb Cub n HClb HCub HCne Hgf Hgg xh yh xx grad γ (ir_eps (it_res r)) (p_tol AP) Hγ Lxx Lgr Lxo Ex Eeps Hc2) as (P1 & P2).
      destruct (dual_part Pb Clb Cub n m HClb HCub Hg HDlb HDub HDne xh (it_y r) (it_Sigma r) (p_dual_tol AP) Lxo Hyl W3 S1 Hc3) as (D1 & D2).
      rewrite Efy. split; [exact Lxo|]. split; [exact Lyh|]. split; [exact P1|]. split; [exact P2|]. split; [exact D1|exact D2].
  Qed.
End GenericKktW.
