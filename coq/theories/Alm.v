(* Alm.v — model of the ALM outer loop (C07).  Model only, no proofs.
   Sources: implementation/outer/alm.tpp  (ALMSolver<InnerSolverT>::operator()),
            implementation/outer/internal/alm-helpers.tpp (update_penalty_weights, initialize_penalty),
            outer/alm.hpp (ALMParams, Stats), problem/box-constr-problem.hpp (eval_proj_multipliers_box = Prox.proj_multipliers).
   The inner solver is a *script*: a list of outcomes (status, ε, slack error written or not, multipliers written or not,
   iteration count, "clock says out of time after this call", "ALM's stop flag is set when the outer loop reads it after
   this call").  The model consumes the script exactly like the C++ loop
   consumes inner-solver calls and records, per outer iteration, what the inner solver was handed. *)
From Coq Require Import List ZArith Bool Arith.
From Alpaqa Require Import Num Vec Prox.
Import ListNotations.

(* alpaqa::SolverStatus, in declaration order *)
Inductive status := Busy | Converged | MaxTime | MaxIter | NotFinite | NoProgress | Interrupted | Exception.
Definition is_converged (s : status) : bool := match s with Converged => true | _ => false end.
Definition is_interrupted (s : status) : bool := match s with Interrupted => true | _ => false end.
Definition status_eqb (a b : status) : bool :=
  match a, b with
  | Busy, Busy | Converged, Converged | MaxTime, MaxTime | MaxIter, MaxIter | NotFinite, NotFinite
  | NoProgress, NoProgress | Interrupted, Interrupted | Exception, Exception => true
  | _, _ => false
  end.

Section Alm.
  Context {T : Type} `{Num T}.
  Local Open Scope num_scope.

  (* ALMParams (print_* omitted; max_time enters through the per-call out-of-time flag of the script) *)
  Record alm_params := {
    p_tol : T;            (* tolerance *)
    p_dual_tol : T;       (* dual_tolerance *)
    p_Delta : T;          (* penalty_update_factor *)
    p_init_pen : T;       (* initial_penalty *)
    p_init_pen_factor : T;(* initial_penalty_factor *)
    p_init_tol : T;       (* initial_tolerance *)
    p_rho : T;            (* tolerance_update_factor *)
    p_theta : T;          (* rel_penalty_increase_threshold *)
    p_M : T;              (* max_multiplier *)
    p_max_pen : T;        (* max_penalty *)
    p_min_pen : T;        (* min_penalty *)
    p_max_iter : nat;     (* max_iter *)
    p_single : bool       (* single_penalty_factor *)
  }.

  (* the part of the problem the outer loop looks at: box D (None = infinite side) and penalty_alm_split *)
  Record alm_problem := { pb_split : nat; pb_lb : list (option T); pb_ub : list (option T) }.
  Definition pb_m (pb : alm_problem) : nat := length (pb_lb pb).

  (* one inner-solver outcome *)
  Record inner_res := {
    ir_status : status;
    ir_eps : T;
    ir_err : option (list T);   (* Some e: the solver wrote err_z := e;  None: left the buffer untouched *)
    ir_y : option (list T);     (* Some y: the solver wrote y := y;      None: left y untouched *)
    ir_iters : nat;             (* Stats::iterations of this call *)
    ir_oot : bool;              (* elapsed > max_time when the outer loop reads the clock after this call *)
    ir_stop : bool              (* ALM's own stop flag (set by ALMSolver::stop(), which also forwards to the inner solver) is set
                                   when the outer loop reads it after this call: `stop_signal.stop_requested()`, read once per
                                   outer iteration, after the inner solve and after the Interrupted-inner return *)
  }.

  (* ---------------- alm-helpers.tpp ---------------- *)

  (* one component of the non-single branch:
       if (first_iter || |e_i| > θ |old_e_i|) {
           new_Σ = fmin(max_penalty, fmax(Δ |e_i| / norm_e, 1) * Σ_i);
           Σ_i   = fmax(Σ_i, new_Σ);      // never lower a penalty (the caller's may exceed max_penalty)
       } *)
  Definition upd1 (P : alm_params) (first : bool) (norm_e : T) (e olde σ : T) : T :=
    if first || (p_theta P * nabs olde <? nabs e)
    then nfmax σ (nfmin (p_max_pen P) (nfmax (p_Delta P * nabs e / norm_e) n1 * σ))
    else σ.

  (* single_penalty_factor branch:
       if (first_iter || norm_e > θ old_norm_e) {
           new_Σ = fmin(max_penalty, Δ Σ(0));  Σ.setConstant(fmax(Σ(0), new_Σ));
       } *)
  Definition upd_single (P : alm_params) (first : bool) (norm_e old_norm : T) (Σ : list T) : list T :=
    match Σ with
    | [] => []
    | σ0 :: _ =>
        if first || (p_theta P * old_norm <? norm_e)
        then map (fun _ => nfmax σ0 (nfmin (p_max_pen P) (p_Delta P * σ0))) Σ
        else Σ
    end.

  Definition update_penalty_weights (P : alm_params) (first : bool) (e olde : list T) (norm_e old_norm : T)
      (Σ : list T) : list T :=
    if norm_e <=? p_dual_tol P then Σ
    else if p_single P then upd_single P first norm_e old_norm Σ
    else map3 (upd1 P first norm_e) e olde Σ.

  (* std::clamp(v, lo, hi); libstdc++: std::min(std::max(v, lo), hi)  (same as the standard's wording when lo <= hi) *)
  Definition clamp (v lo hi : T) : T := cmin (cmax v lo) hi.

  (* initialize_penalty (TypeErasedProblem overload):
       σ = initial_penalty_factor * max(1, |f0|) / max(1, 0.5 * ‖g0‖²);  σ = clamp(σ, min_penalty, max_penalty) *)
  Definition initial_sigma_auto (P : alm_params) (f0 : T) (g0 : list T) : T :=
    clamp (p_init_pen_factor P * cmax n1 (nabs f0) / cmax n1 ((n1 / n2) * vsqnorm g0)) (p_min_pen P) (p_max_pen P).

  (* caller-supplied Σ is used iff  Σ && Σ->allFinite() && Σ->norm() > 0 *)
  Definition sigma_accepted (Σ0 : list T) : bool := vall_finite Σ0 && (n0 <? vnorm2 Σ0).

  Definition initial_sigma (P : alm_params) (m : nat) (f0 : T) (g0 : list T) (Σ0 : option (list T)) : list T :=
    let fallback := if n0 <? p_init_pen P then vconst m (p_init_pen P) else vconst m (initial_sigma_auto P f0 g0) in
    match Σ0 with
    | Some s => if sigma_accepted s then s else fallback
    | None => fallback
    end.

  (* ---------------- alm.tpp ---------------- *)

  (* loop-carried state *)
  Record st := {
    s_Sigma : list T;     (* Σ_curr *)
    s_err : list T;       (* buffer `error` as the inner solver will find it *)
    s_err_old : list T;   (* buffer `error_old` *)
    s_norm_old : T;       (* norm_e_old *)
    s_eps : T;            (* ε, the inner tolerance *)
    s_y : list T;         (* y *)
    s_fails : nat;        (* s.inner_convergence_failures *)
    s_iters : nat         (* s.inner.iterations (a Sum field of the accumulator) *)
  }.

  (* what happened in outer iteration it_i *)
  Record iter_rec := {
    it_i : nat;             (* opts.outer_iter *)
    it_y : list T;          (* y handed to the inner solver (after eval_proj_multipliers) *)
    it_Sigma : list T;      (* Σ handed to the inner solver *)
    it_tol : T;             (* opts.tolerance *)
    it_err_in : list T;     (* content of the err_z buffer on entry *)
    it_res : inner_res;     (* what the inner solver returned *)
    it_err : list T;        (* `error` after the call *)
    it_err_old : list T;    (* `error_old` during this iteration *)
    it_norm : T;            (* norm_e *)
    it_norm_old : T         (* norm_e_old *)
  }.

  (* ALMSolver::Stats + written-back arguments.  None = field keeps its default (ε, δ = +inf; Σ not written back) *)
  Record final := {
    f_status : status;
    f_outer : nat;            (* outer_iterations *)
    f_fails : nat;            (* inner_convergence_failures *)
    f_eps : option T;         (* ε *)
    f_delta : option T;       (* δ *)
    f_norm_pen : T;           (* norm_penalty *)
    f_Sigma : option (list T);(* Σ_curr assigned to *Σ (when the caller passed one) *)
    f_y : list T;             (* y on return *)
    f_iters : nat;            (* inner.iterations *)
    f_exhausted : bool        (* the script ended before the loop did (never happens for a real inner solver) *)
  }.

  (* a write of the scripted solver into a buffer of size m *)
  Definition pick (m : nat) (w : option (list T)) (old : list T) : list T :=
    match w with Some v => if Nat.eqb (length v) m then v else old | None => old end.

  Definition norm_penalty (Σ : list T) : T := vnorm2 Σ / nsqrt (nofZ (Z.of_nat (length Σ))).

  (* s.status = alm_converged ? Converged : out_of_time ? MaxTime : out_of_iter ? MaxIter : interrupted ? Interrupted : Busy *)
  Definition exit_status (alm_conv oot ooi intr : bool) : status :=
    if alm_conv then Converged else if oot then MaxTime else if ooi then MaxIter else if intr then Interrupted else Busy.

  Fixpoint alm_loop (P : alm_params) (pb : alm_problem) (i : nat) (s : st) (script : list inner_res)
      : list iter_rec * final :=
    match script with
    | [] => ([], {| f_status := Busy; f_outer := i; f_fails := s_fails s; f_eps := None; f_delta := None;
                    f_norm_pen := n0; f_Sigma := Some (s_Sigma s); f_y := s_y s; f_iters := s_iters s;
                    f_exhausted := true |})
    | r :: rest =>
        let m := pb_m pb in
        (* p.eval_proj_multipliers(y, params.max_multiplier) *)
        let y_in := proj_multipliers (pb_split pb) (pb_lb pb) (pb_ub pb) (p_M P) (s_y s) in
        (* auto ps = inner_solver(p, opts, x, y, Σ_curr, error) *)
        let err := pick m (ir_err r) (s_err s) in
        let y' := pick m (ir_y r) y_in in
        let conv := is_converged (ir_status r) in
        let fails := (s_fails s + (if conv then 0 else 1))%nat in
        let iters := (s_iters s + ir_iters r)%nat in
        let norm_e := vnorminf err in
        let rec := {| it_i := i; it_y := y_in; it_Sigma := s_Sigma s; it_tol := s_eps s; it_err_in := s_err s;
                      it_res := r; it_err := err; it_err_old := s_err_old s; it_norm := norm_e;
                      it_norm_old := s_norm_old s |} in
        let fin (stat : status) :=
          {| f_status := stat; f_outer := S i; f_fails := fails; f_eps := Some (ir_eps r); f_delta := Some norm_e;
             f_norm_pen := norm_penalty (s_Sigma s); f_Sigma := Some (s_Sigma s); f_y := y'; f_iters := iters;
             f_exhausted := false |} in
        if is_interrupted (ir_status r) then ([rec], fin Interrupted)
        else
          let alm_conv := (ir_eps r <=? p_tol P) && conv && (norm_e <=? p_dual_tol P) in
          let ooi := Nat.eqb (S i) (p_max_iter P) in
          (* bool interrupted = stop_signal.stop_requested();  exit = alm_converged || out_of_iter || out_of_time || interrupted *)
          let intr := ir_stop r in
          if alm_conv || ooi || ir_oot r || intr then ([rec], fin (exit_status alm_conv (ir_oot r) ooi intr))
          else
            let Σ' := update_penalty_weights P (Nat.eqb i 0) err (s_err_old s) norm_e (s_norm_old s) (s_Sigma s) in
            let ε' := nfmax (p_rho P * s_eps s) (p_tol P) in
            (* norm_e_old = norm_e; error.swap(error_old) *)
            let s' := {| s_Sigma := Σ'; s_err := s_err_old s; s_err_old := err; s_norm_old := norm_e; s_eps := ε';
                         s_y := y'; s_fails := fails; s_iters := iters |} in
            let '(tr, f) := alm_loop P pb (S i) s' rest in
            (rec :: tr, f)
    end.

  Definition init_state (P : alm_params) (pb : alm_problem) (f0 : T) (g0 : list T) (nanv : T)
      (Σ0 : option (list T)) (y0 : list T) : st :=
    let m := pb_m pb in
    {| s_Sigma := initial_sigma P m f0 g0 Σ0; s_err := vconst m nanv; s_err_old := vconst m nanv;
       s_norm_old := nanv; s_eps := p_init_tol P; s_y := y0; s_fails := 0; s_iters := 0 |}.

  (* ALMSolver::operator().  nanv = the value the C++ fills error/error_old/norm_e_old with (NaN);
     f0, g0 = eval_f(x0), eval_g(x0) (only looked at by the automatic penalty initialisation). *)
  Definition alm_run (P : alm_params) (pb : alm_problem) (f0 : T) (g0 : list T) (nanv : T)
      (Σ0 : option (list T)) (y0 : list T) (script : list inner_res) : list iter_rec * final :=
    if Nat.eqb (p_max_iter P) 0 then
      ([], {| f_status := MaxIter; f_outer := 0; f_fails := 0; f_eps := None; f_delta := None; f_norm_pen := n0;
              f_Sigma := None; f_y := y0; f_iters := 0; f_exhausted := false |})
    else if Nat.eqb (pb_m pb) 0 then
      (* no general constraints: one inner solve at the final tolerance, y not projected, Σ not written back *)
      match script with
      | [] => ([], {| f_status := Busy; f_outer := 0; f_fails := 0; f_eps := None; f_delta := None; f_norm_pen := n0;
                      f_Sigma := None; f_y := y0; f_iters := 0; f_exhausted := true |})
      | r :: _ =>
          let conv := is_converged (ir_status r) in
          ([ {| it_i := 0; it_y := y0; it_Sigma := []; it_tol := p_tol P; it_err_in := []; it_res := r;
                it_err := []; it_err_old := []; it_norm := n0; it_norm_old := n0 |} ],
           {| f_status := ir_status r; f_outer := 1; f_fails := if conv then 0 else 1; f_eps := Some (ir_eps r);
              f_delta := Some n0; f_norm_pen := n0; f_Sigma := None; f_y := pick 0 (ir_y r) y0;
              f_iters := ir_iters r; f_exhausted := false |})
      end
    else alm_loop P pb 0 (init_state P pb f0 g0 nanv Σ0 y0) script.
End Alm.
