(* PanocDirLive.v — LIVENESS of PANOC with a SHIPPED (stateful) direction provider: PanocDir.panocD over R.
   Route chosen: the liveness proof is run on PanocDir DIRECTLY, pass by pass, with the oracle-level lemmas:
     one pass of passD is simulated by one pass of Panoc.pass with the oracle "trace of this pass" (PanocDirProofs.pass_sim),
     PanocLiveKkt.pass_live_g (liveness of one oracle pass, abstract stopping criterion) gives Converged or the next invariant,
   and what pass_sim leaves open is closed here: the provider never throws and the line search never runs out of fuel
   (passD_struct: provider invariant Iv of DirWf.dir_wf, threaded through ls_loopD with a length invariant; PanocProofs.ls_terminates).
   The refinement theorem PANOCDIR_refines_oracle_model is for COMPLETED runs; this file supplies the completion.
   Result (panocD_live_g): the run returns Converged within N iterations, every vector in the trace of apply results has length n
   (so the oracle-level theorems apply to the induced oracle: QP corollary by refinement). *)
From Coq Require Import Reals List ZArith Lra Lia Bool Arith Psatz.
From Flocq Require Import Raux.
From Alpaqa Require Import Num NumR Vec Prox ProxProofs ProxVec SolverStatus SolverKernels SolverKernelsProofs DescentProofs
                           StopChain StopChainProofs LoopSkeleton KktProofs QpBound Panoc PanocProofs LiveVec PanocLive PanocLiveN
                           PanocLiveKkt QpLive Directions PanocDir PanocDirProofs DirWf.
Import ListNotations.
Local Open Scope R_scope.

Section DirLive.
  Variable psi_grad_full : list R -> R * list R * list R.
  Variable psi_yhat : list R -> R * list R.
  Variable grad_L : list R -> list R -> list R.
  Variable grad_psi : list R -> list R.
  Variables (lb ub : list (option R)).
  Variable D : Type.
  Variable ops : dirops R D.
  Variable P : params (T:=R).
  Variables (x_in y_in Σ errz_in : list R).
  Variable ls_fuel : nat.
  Variable d0 : D.

  Notation l1 := (@nil R).
  Notation never := (fun _ : counters => false).
  Notation dummy := (fun (_ : nat) (_ : iterate (T:=R)) => @None (list R)).
  Notation hasinit := (d_has_initial D ops).
  Notation PP f := (f psi_grad_full psi_yhat grad_L grad_psi lb ub l1 dummy hasinit never never P x_in y_in Σ errz_in ls_fuel).
  Notation PL f := (f psi_grad_full psi_yhat grad_L grad_psi lb ub dummy hasinit P x_in y_in Σ errz_in ls_fuel).

  Notation it := (iterate (T:=R)).
  Notation eprox := (eval_prox lb ub l1).
  Notation epsih := (eval_psih psi_grad_full psi_yhat P).
  Notation egradh := (eval_gradh grad_L grad_psi P).
  Notation lsloop := (ls_loop psi_grad_full psi_yhat grad_L grad_psi lb ub l1 never P).
  Notation lsloopD := (ls_loopD psi_grad_full psi_yhat grad_L grad_psi lb ub l1 D ops never P).
  Notation passD_ := (passD psi_grad_full psi_yhat grad_L grad_psi lb ub l1 D ops never never P x_in y_in Σ errz_in ls_fuel).
  Notation loopD_ := (loopD psi_grad_full psi_yhat grad_L grad_psi lb ub l1 D ops never never P x_in y_in Σ errz_in ls_fuel).
  Notation panocD_ := (panocD psi_grad_full psi_yhat grad_L grad_psi lb ub l1 D ops never never P x_in y_in Σ errz_in ls_fuel d0).
  Notation pass_ O := (pass psi_grad_full psi_yhat grad_L grad_psi lb ub l1 O hasinit never never P x_in y_in Σ errz_in ls_fuel).
  Notation pgrad := (psi_grad psi_grad_full).
  Notation eps_of := (it_eps lb ub l1 P).
  Notation Consistent := (consistent psi_grad_full psi_yhat grad_L grad_psi lb ub l1 P).
  Notation Cons_x := (cons_x psi_grad_full psi_yhat grad_L grad_psi P).
  Notation Glrel0 := (glrel0 psi_grad_full grad_psi P x_in).
  Notation Linit := (L_init psi_grad_full grad_psi P x_in).
  Notation Inv_ := (Inv psi_grad_full psi_yhat grad_L grad_psi lb ub l1 P x_in).

  Variables (ψ : list R -> R) (g : list R -> list R) (n : nat) (Lf ψinf : R).
  Hypothesis Hpsi : forall x, pgrad x = (ψ x, g x).
  Hypothesis Hco : coherent psi_grad_full psi_yhat grad_L grad_psi P.
  Hypothesis Hglen : forall x, length x = n -> length (g x) = n.
  Hypothesis Hqub : forall u d, length u = n -> length d = n ->
    ψ (vadd u d) <= ψ u + vdot (g u) d + Lf / 2 * vsqnorm d.
  Hypothesis Hinf : forall z, all_in_box lb ub z -> ψinf <= ψ z.
  Hypothesis Hlb : length lb = n.
  Hypothesis Hub : length ub = n.
  Hypothesis Hne : Forall2 box_ne lb ub.
  Hypothesis Hxin : length x_in = n.
  Hypothesis HLg : 0 < p_Lgamma P < 1.
  Hypothesis HL0 : 0 < Linit.
  Hypothesis HLmax : Lf <= p_Lmax P.
  Hypothesis Hqt : p_qub_tol P = 0.
  Hypothesis Hlt : p_ls_tol P = 0.
  Hypothesis Hbeta : 0 < p_beta P <= 1.
  Hypothesis Hforce : p_force_ls P = false.
  Variables (nL nT : nat).
  Hypothesis HnL : p_Lmax P <= Linit * 2 ^ nL.
  Hypothesis Hfac : 0 <= p_tau_factor P <= 1.
  Hypothesis Hmin : p_tau_factor P ^ nT < p_tau_min P.
  Hypothesis Hfuel : (ls_pass_bound nL nT <= ls_fuel)%nat.

  (* the provider: the only provider-specific obligation *)
  Variables I0 Iv : D -> Prop.
  Hypothesis Hwf : dir_wf n D ops I0 Iv.
  Hypothesis HI0 : I0 d0.

  Notation tol := (tol P).
  Notation Phi0 := (Phi0 psi_grad_full grad_psi lb ub P x_in ψ g Lf).
  Notation facts := (facts lb ub ψ g n).
  Notation good := (good psi_grad_full grad_psi lb ub P x_in ψ g n Lf).
  Notation Lbar := (Lbar psi_grad_full grad_psi P x_in Lf).

  (* ------------------------------------------------------------------ lengths *)
  Definition lens_x (i : it) : Prop := length (ix i) = n /\ length (igrad i) = n.
  Definition lens (i : it) : Prop := lens_x i /\ length (ixh i) = n /\ length (ip i) = n.

  Lemma cons_x_lens (i : it) : Cons_x i -> length (ix i) = n -> lens_x i.
  Proof.
    intros Hc Hl. split; [exact Hl|].
    pose proof (PP val_x_coherent (ix i) (ipsi i) (igrad i) Hco Hc) as E. rewrite Hpsi in E. inversion E as [[Ep Eg]]. rewrite Eg. now apply Hglen.
  Qed.
  Lemma consistent_lens (i : it) : Consistent i -> length (ix i) = n -> lens i.
  Proof.
    intros Hc Hl. pose proof (consistent_facts psi_grad_full psi_yhat grad_L grad_psi lb ub dummy hasinit P x_in y_in Σ errz_in ls_fuel ψ g n
                                Hpsi Hco Hglen Hlb Hub Hne Hxin i Hc Hl) as F.
    split; [apply cons_x_lens; [apply Hc|exact Hl]|]. split; [apply (f_lenxh _ _ _ _ _ i F)|apply (f_lenp _ _ _ _ _ i F)].
  Qed.
  Lemma prox_psih_lens (i : it) : lens_x i -> lens (epsih (eprox i)).
  Proof.
    intros [Hx Hg]. unfold eval_prox. cbn [eval_prox_grad_step].
    destruct (proj_grad_step_length lb ub (igam i) (ix i) (igrad i) n Hlb Hub Hx Hg) as [Lxh Lp].
    unfold lens, lens_x, eval_psih. destruct (p_eager P); cbn [ix ixh igrad ip]; repeat split; assumption.
  Qed.
  Lemma prox_lens (i : it) : lens_x i -> lens (eprox i).
  Proof.
    intros [Hx Hg]. unfold eval_prox. cbn [eval_prox_grad_step].
    destruct (proj_grad_step_length lb ub (igam i) (ix i) (igrad i) n Hlb Hub Hx Hg) as [Lxh Lp].
    unfold lens, lens_x. cbn [ix ixh igrad ip]. repeat split; assumption.
  Qed.

  Lemma dir_update_wf d (a b : it) : Iv d -> lens a -> lens b -> Iv (snd (dir_update D ops d a b)).
  Proof.
    intros Hd ((A1 & A2) & A3 & A4) ((B1 & B2) & B3 & B4). unfold dir_update. now apply (wf_update n D ops I0 Iv Hwf).
  Qed.

  (* ------------------------------------------------------------------ the provider through the line search *)
  Definition LenD (τi : R) (s : ls_state (T:=R)) : Prop :=
    Consistent (ls_curr s) /\ length (ix (ls_curr s)) = n /\
    (lens_x (ls_next s) \/ (ls_tau_prev s = - 1 /\ ls_tau s = τi)) /\
    (τi = 0 -> ls_tau s = 0).

  Lemma ls_loopD_wf q τi : (τi = 0 \/ τi = 1) -> (τi = 1 -> length q = n) -> forall fuel s d rej, LenD τi s -> Iv d ->
    Iv (snd (fst (lsloopD fuel q τi s d rej))) /\
    match fst (fst (lsloopD fuel q τi s d rej)) with LsDone l => lens (ls_curr l) /\ lens (ls_next l) | _ => True end.
  Proof.
    intros Hτi Hq. induction fuel as [|fuel IH]; intros s d rej HI Hd; [split; [exact Hd|exact I]|].
    cbn [ls_loopD].
    change (@nltb R NumR) with Rlt_bool. change (@neqb R NumR) with Req_bool. change (@nleb R NumR) with Rle_bool.
    change (@n0 R NumR) with 0. change (@n1 R NumR) with 1.
    set (τ := ls_tau s) in *.
    set (ph := if Req_bool τ (ls_tau_prev s) then (ls_curr s, ls_next s, inc_polls (ls_cnt s))
               else if Req_bool τ 0 then take_safe_step grad_L grad_psi P (ls_curr s) (ls_next s) (inc_polls (ls_cnt s))
               else (ls_curr s, take_accel_step psi_grad_full τ q (ls_curr s) (ls_next s), inc_pg (inc_polls (ls_cnt s)))).
    destruct HI as (Hc & Hlx & Hn & Hz). fold τ in Hn, Hz.
    pose proof (consistent_lens _ Hc Hlx) as Lc.
    assert (F : Consistent (fst (fst ph)) /\ length (ix (fst (fst ph))) = n /\ lens_x (snd (fst ph))).
    { subst ph. destruct (Req_bool_spec τ (ls_tau_prev s)) as [Et|Et].
      - cbn [fst snd]. split; [exact Hc|]. split; [exact Hlx|]. destruct Hn as [Hn|[Hp Ht]]; [exact Hn|].
        exfalso. rewrite Ht, Hp in Et. destruct Hτi; lra.
      - destruct (Req_bool_spec τ 0) as [E0|E0].
        + pose proof (PP safe_step_facts (ls_curr s) (ls_next s) (inc_polls (ls_cnt s)) Hc) as Hf. cbv zeta in Hf.
          destruct Hf as (H1 & H2 & H3 & H4 & _).
          split; [exact H1|]. split.
          { apply (PP core_fields) in H2. destruct H2 as (E & _). now rewrite E. }
          apply cons_x_lens; [exact H3|]. rewrite H4. apply Lc.
        + cbn [fst snd]. split; [exact Hc|]. split; [exact Hlx|].
          destruct (PP accel_step_facts τ q (ls_curr s) (ls_next s)) as (H1 & _).
          apply cons_x_lens; [exact H1|]. unfold take_accel_step, eval_psi_grad. cbn [ix].
          apply panoc_candidate_length; [exact Hlx|apply Lc|]. apply Hq.
          destruct Hτi as [Ei|Ei]; [|exact Ei]. exfalso. apply E0, Hz, Ei. }
    destruct ph as [[curr next] c1]. cbn [fst snd] in F. destruct F as (Fc & Fl & Fn).
    (* fail branch *)
    match goal with |- context [if ?b then lsloopD fuel q τi ?s1 ?d1 ?r1 else _] => destruct b eqn:Efail; [apply (IH s1 d1 r1)|] end.
    { unfold LenD; cbn [ls_curr ls_next ls_tau ls_tau_prev]. split; [exact Fc|]. split; [exact Fl|]. split; [left; exact Fn|]. reflexivity. }
    { apply (wf_reset n D ops I0 Iv Hwf), Hd. }
    set (next1 := epsih (eprox next)).
    assert (N1 : lens next1) by (apply prox_psih_lens, Fn).
    (* QUB branch *)
    match goal with |- context [if ?b then lsloopD fuel q τi ?s1 ?d1 ?r1 else _] => destruct b eqn:Equb; [apply (IH s1 d1 r1)|] end.
    { unfold LenD; cbn [ls_curr ls_next ls_tau ls_tau_prev]. split; [exact Fc|]. split; [exact Fl|]. split; [left; apply N1|].
      intros Ei. destruct (Rlt_bool_spec 0 τ) as [Hp|Hp]; [exact Ei|apply Hz, Ei]. }
    { exact Hd. }
    (* the update in the candidate *)
    set (ud := if ls_upd s && negb (ls_updated s) then dir_update D ops d curr next1 else (true, d)).
    assert (Hu : Iv (snd ud)).
    { subst ud. destruct (ls_upd s && negb (ls_updated s)); [|exact Hd].
      apply dir_update_wf; [exact Hd|now apply consistent_lens|exact N1]. }
    (* line-search branch *)
    match goal with |- context [if ?b then lsloopD fuel q τi ?s1 ?d1 ?r1 else _] => destruct b eqn:Els; [apply (IH s1 d1 r1)|] end.
    { unfold LenD; cbn [ls_curr ls_next ls_tau ls_tau_prev]. split; [exact Fc|]. split; [exact Fl|]. split; [left; apply N1|].
      intros Ei. exfalso. apply andb_prop in Els. destruct Els as [Hpos _]. apply Rlt_bool_iff in Hpos.
      specialize (Hz Ei). lra. }
    { exact Hu. }
    cbn [fst snd ls_curr ls_next]. split; [exact Hu|]. split; [now apply consistent_lens|exact N1].
  Qed.

  (* ------------------------------------------------------------------ one pass: no throw, no fuel exhaustion, the provider invariant, the trace *)
  Definition lenok (r : option (list R)) : Prop := forall q, r = Some q -> length q = n.

  Lemma good_check (c : it) : Consistent c -> good c ->
    let curr := if need_gradh P && negb (ihave c) then egradh c else c in
    Consistent curr /\ good curr.
  Proof.
    intros Hc G. cbv zeta. destruct (need_gradh P && negb (ihave c)); [|split; assumption].
    destruct (PP egradh_cons c Hc) as (A & B & _). split; [exact A|].
    apply (good_core psi_grad_full psi_yhat grad_L grad_psi lb ub dummy hasinit P x_in y_in Σ errz_in ls_fuel ψ g n Lf c); [now symmetry|exact G].
  Qed.

  Lemma passD_struct (sD : lstateD D) :
    Consistent (st_curr (sd_st D sD)) -> good (st_curr (sd_st D sD)) ->
    ((st_k (sd_st D sD) = 0%nat /\ I0 (sd_dir D sD)) \/ Iv (sd_dir D sD)) ->
    match passD_ sD with
    | PThrowD _ _ => False
    | PFuelD _ => False
    | PContD _ sD' => Iv (sd_dir D sD') /\ exists ext, sd_trace D sD' = sd_trace D sD ++ ext /\ Forall lenok ext
    | PExitD _ _ => True
    end.
  Proof.
    destruct sD as [[curr0 next0 k np q0 cnt stats log] d rej tr]. cbn [sd_st sd_dir sd_trace st_curr st_k]. intros Hc0 G0 Hk.
    unfold passD. cbn [sd_st sd_dir sd_rej sd_trace st_curr st_next st_k st_np st_q st_cnt st_stats st_log].
    match goal with |- context [stop_status_helpers ?a ?b ?c ?d ?e ?f ?g ?h] => destruct (stop_status_helpers a b c d e f g h) end.
    2-8: (cbv zeta; match goal with |- context [exit_block ?a ?b ?c ?d ?e ?f ?g ?h] => destruct (exit_block a b c d e f g h) as [[xo yo] eo] end; exact I).
    destruct (good_check curr0 Hc0 G0) as [Cc G]. cbv zeta in Cc, G.
    set (curr := if need_gradh P && negb (ihave curr0) then egradh curr0 else curr0) in *.
    pose proof (g_len _ _ _ _ _ _ _ _ _ _ curr G) as Hlx.
    pose proof (consistent_lens curr Cc Hlx) as ((L1 & L2) & L3 & L4).
    (* initialize *)
    assert (Hk' : I0 d \/ Iv d) by (destruct Hk as [[_ Hk]|Hk]; [now left|now right]).
    destruct (if (k =? 0)%nat then d_initialize D ops d y_in Σ (igam curr) (ix curr) (ixh curr) (ip curr) (igrad curr) else Some d)
      as [d1|] eqn:Ed1.
    2:{ destruct (Nat.eqb_spec k 0) as [Ek|Ek]; [|discriminate].
        destruct (wf_init n D ops I0 Iv Hwf d y_in Σ (igam curr) (ix curr) (ixh curr) (ip curr) (igrad curr) Hk' L1 L3 L4 L2) as (d' & E & _).
        rewrite E in Ed1. discriminate. }
    assert (H1 : Iv d1).
    { destruct (Nat.eqb_spec k 0) as [Ek|Ek].
      - destruct (wf_init n D ops I0 Iv Hwf d y_in Σ (igam curr) (ix curr) (ixh curr) (ip curr) (igrad curr) Hk' L1 L3 L4 L2) as (d' & E & Hd').
        rewrite E in Ed1. now injection Ed1 as <-.
      - injection Ed1 as <-. destruct Hk as [[Hk _]|Hk]; [contradiction|exact Hk]. }
    (* the common tail: line search, changed_γ, update *)
    assert (Tail : forall (q : list R) (τi : R) (c3 : counters) (stats1 : Panoc.stats (T:=R)) (d3 : D) (tr' : list (option (list R))),
              (τi = 0 \/ τi = 1) -> (τi = 1 -> length q = n) -> Iv d3 ->
              (exists ext, tr' = tr ++ ext /\ Forall lenok ext) ->
              match (match lsloopD ls_fuel q τi (mkLs curr (set_gamma_L next0 (igam curr) (iL curr)) τi (- 1) (p_upd_in_cand P) false c3 stats1) d3 rej with
                     | (LsFuel, _, _) => PFuelD D
                     | (LsStopped l, d4, rej') => PContD D (mkStD D (mkSt (ls_curr l) (ls_next l) k np q (ls_cnt l) (ls_stats l) log) d4 rej' tr')
                     | (LsDone l, d4, rej') =>
                         let curr1 := ls_curr l in let next := ls_next l in let τ := ls_tau l in
                         let z := ls_stats l in
                         let stats2 := mkStats (s_stepsize_bt z) (s_ls_bt z) (s_ls_fail z + b2n (Req_bool τ 0 && Rlt_bool 0 τi)) (s_dir_fail z)
                                               (s_tau1 z + b2n (Req_bool τ 1)) (s_count_tau z + b2n (Rlt_bool 0 τi)) (s_sum_tau z + τ) in
                         let np' := match no_progress_update np k (p_max_no_progress P) (veqb (ix curr1) (ix next)) with Some v => v | None => np end in
                         let changed := negb (Req_bool (igam curr1) (igam next)) in
                         let curr2 := if negb (ls_updated l) && changed && p_recompute P then eprox (set_gamma_L curr1 (igam next) (iL next)) else curr1 in
                         let d5 := if negb (ls_updated l) && changed then d_changed_gamma D ops d4 (igam next) (igam curr1) else d4 in
                         let ud := if ls_updated l then (true, d5) else dir_update D ops d5 curr2 next in
                         let rej'' := if fst ud then rej' else S rej' in
                         let c4 := if ls_updated l then ls_cnt l else inc_dir (ls_cnt l) in
                         PContD D (mkStD D (mkSt next curr2 (S k) np' q (inc_cb c4) stats2
                                                 (mkCb k curr2 q τ (it_eps lb ub l1 P curr) StBusy :: log)) (snd ud) rej'' tr')
                     end) with
              | PThrowD _ _ => False
              | PFuelD _ => False
              | PContD _ sD' => Iv (sd_dir D sD') /\ exists ext, sd_trace D sD' = tr ++ ext /\ Forall lenok ext
              | PExitD _ _ => True
              end).
    { intros q τi c3 stats1 d3 tr' Hτ Hq H3 Htr.
      set (ls0 := mkLs curr (set_gamma_L next0 (igam curr) (iL curr)) τi (- 1) (p_upd_in_cand P) false c3 stats1).
      assert (HI : LenD τi ls0).
      { unfold LenD, ls0; cbn [ls_curr ls_next ls_tau ls_tau_prev]. split; [exact Cc|]. split; [exact Hlx|]. split; [right; split; reflexivity|].
        intros E; exact E. }
      pose proof (ls_loopD_wf q τi Hτ Hq ls_fuel ls0 d3 rej HI H3) as [H4 H5].
      pose proof (ls_loopD_fst psi_grad_full psi_yhat grad_L grad_psi lb ub l1 D ops never P ls_fuel q τi ls0 d3 rej) as Hls.
      (* the line search terminates *)
      destruct (g_gl _ _ _ _ _ _ _ _ _ _ curr G) as [j Ej].
      assert (EL : iL curr = Linit * 2 ^ j).
      { pose proof (PP halve_n_L j (p_Lgamma P / Linit) Linit) as Hh. fold (gl0 psi_grad_full grad_psi P x_in) in Hh. rewrite <- Ej in Hh. exact Hh. }
      assert (Hp1 : 1 <= 2 ^ j) by (apply pow_R1_Rle; lra).
      assert (Hp2 : 0 < 2 ^ nL) by (apply pow_lt; lra).
      assert (HcL : 0 < iL curr) by (rewrite EL; nra).
      assert (HLm' : p_Lmax P <= iL curr * 2 ^ nL).
      { rewrite EL. assert (0 <= Linit * 2 ^ nL * (2 ^ j - 1)) by (apply Rmult_le_pos; [apply Rmult_le_pos; lra|lra]). lra. }
      pose proof (PP ls_terminates (iL curr) nL nT q τi HcL HLm' Hfac Hmin Hτ curr next0 (p_upd_in_cand P) c3 stats1 eq_refl ls_fuel Hfuel) as Ht.
      fold ls0 in Ht. rewrite <- Hls in Ht.
      destruct (lsloopD ls_fuel q τi ls0 d3 rej) as [[lr d4] rej4]. cbn [fst snd] in H4, H5, Ht.
      destruct lr as [l|l|]; [| |apply Ht; reflexivity].
      - destruct H5 as [Lcu Lnx]. cbv zeta. cbn [sd_dir sd_trace]. split; [|exact Htr].
        destruct (ls_updated l); cbn [negb andb snd]; [exact H4|].
        apply dir_update_wf; [| |exact Lnx].
        + destruct (negb (Req_bool (igam (ls_curr l)) (igam (ls_next l)))); [apply (wf_changed n D ops I0 Iv Hwf), H4|exact H4].
        + destruct (negb (Req_bool (igam (ls_curr l)) (igam (ls_next l))) && p_recompute P); [|exact Lcu].
          apply prox_lens. apply Lcu.
      - cbn [sd_dir sd_trace]. split; [exact H4|exact Htr]. }
    unfold dir_phase.
    change (@nltb R NumR) with Rlt_bool. change (@neqb R NumR) with Req_bool.
    change (@n0 R NumR) with 0. change (@n1 R NumR) with 1. change (@nopp R NumR) with Ropp.
    destruct ((0 <? k)%nat || hasinit).
    - destruct (wf_apply n D ops I0 Iv Hwf d1 (igam curr) (ix curr) (ixh curr) (ip curr) (igrad curr) q0 H1 L1 L3 L4 L2) as (b & q' & d2 & Ea & H2 & Hb).
      rewrite Ea.
      set (r := if b then Some q' else None).
      assert (Hr : lenok r) by (unfold lenok, r; destruct b; [intros q1 E; injection E as <-; now apply Hb|discriminate]).
      apply Tail.
      + destruct r as [q1|]; [destruct (vall_finite q1)|]; auto.
      + intros E. destruct r as [q1|] eqn:Er; [|exfalso; lra]. unfold r in Er. destruct b; [|discriminate]. now apply Hb.
      + match goal with |- Iv (if ?c then _ else _) => destruct c end; [apply (wf_reset n D ops I0 Iv Hwf), H2|exact H2].
      + exists [r]. split; [reflexivity|]. constructor; [exact Hr|constructor].
    - cbn [andb]. apply Tail.
      + now left.
      + intros E; exfalso; lra.
      + exact H1.
      + exists []. split; [now rewrite app_nil_r|constructor].
  Qed.

  (* ------------------------------------------------------------------ the abstract stopping criterion (as in PanocLiveKkt.LiveGen) *)
  Variable δ : R.
  Hypothesis Hδ : 0 < δ.
  Hypothesis Heps : forall i, Consistent i -> (need_gradh P = true -> ihave i = true) -> good i -> ipp i <= δ * δ -> eps_of i <= tol.
  Notation decg := (decg psi_grad_full grad_psi P x_in δ).
  Variable Φ0 : R.
  Variable N : nat.
  Hypothesis HN : Φ0 - ψinf < INR N * decg.
  Hypothesis HNmax : (N <= p_max_iter P)%nat.
  Hypothesis HPhi : Phi0 <= Φ0.

  Notation LInvG_ := (LInvG psi_grad_full psi_yhat grad_L grad_psi lb ub P x_in ψ g n Lf δ Φ0).
  Notation Final_ok := (final_ok psi_grad_full psi_yhat grad_L grad_psi lb ub P x_in ψ g n Lf).

  Lemma oracle_len TR : Forall lenok TR -> forall j (i : it) q, oracle_of TR j i = Some q -> length q = n.
  Proof.
    intros HF j i q. unfold oracle_of. destruct (nth_in_or_default j TR None) as [Hin|E]; [|rewrite E; discriminate].
    rewrite Forall_forall in HF. apply (HF _ Hin).
  Qed.

  (* the invariant at the top of `while (true)`; s is the state of the oracle model that simulates sD *)
  Record DInv (sD : lstateD D) : Prop := {
    di_sim : exists s, st_sim (sd_st D sD) s /\ LInvG_ s;
    di_tr : length (sd_trace D sD) = c_apply (st_cnt (sd_st D sD));
    di_len : Forall lenok (sd_trace D sD);
    di_prov : (st_k (sd_st D sD) = 0%nat /\ I0 (sd_dir D sD)) \/ Iv (sd_dir D sD) }.

  Lemma final_ok_sim (o o' : outputs (T:=R)) : out_sim o o' -> Final_ok o' -> Final_ok o.
  Proof.
    intros (_ & _ & E3 & E4 & _) (cf & A & B & C & Ex & Ee). exists cf. repeat (split; [assumption|]). split; congruence.
  Qed.

  Lemma passD_live sD : DInv sD ->
    (exists oD, passD_ sD = PExitD D oD /\ out_status (od_out D oD) = StConverged /\ out_iterations (od_out D oD) = st_k (sd_st D sD) /\
                Final_ok (od_out D oD) /\ od_trace D oD = sd_trace D sD) \/
    (exists sD', passD_ sD = PContD D sD' /\ DInv sD' /\ st_k (sd_st D sD') = S (st_k (sd_st D sD))).
  Proof.
    intros [(s & Hsim & HL) Htr Hlen Hprov].
    pose proof Hsim as (E1 & _ & E3 & _ & E5 & _).
    assert (Hl : length (sd_trace D sD) = c_apply (st_cnt s)) by (now rewrite <- E5).
    pose proof (passD_struct sD) as Hst. rewrite E1 in Hst. specialize (Hst ltac:(apply HL) ltac:(apply HL) Hprov).
    pose proof (fun O Hdir => pass_live_g psi_grad_full psi_yhat grad_L grad_psi lb ub O hasinit P x_in y_in Σ errz_in ls_fuel ψ g n Lf ψinf
                  Hpsi Hco Hglen Hqub Hinf Hlb Hub Hne Hxin Hdir HLg HL0 HLmax Hqt Hlt Hbeta Hforce nL nT HnL Hfac Hmin Hfuel δ Hδ Heps Φ0 N HN HNmax s HL)
      as Hlive.
    destruct (passD_ sD) as [oD|sD'| |] eqn:Ep; [| |contradiction|contradiction].
    - left. exists oD. split; [reflexivity|].
      pose proof (pass_sim eq00R lt00R psi_grad_full psi_yhat grad_L grad_psi lb ub l1 D ops never never P x_in y_in Σ errz_in ls_fuel sD s [] Hsim Hl) as Hp.
      rewrite Ep in Hp. destruct Hp as (o & Eo & Ho & Et).
      destruct (Hlive (oracle_of []) (oracle_len [] (Forall_nil _))) as [(o' & Eo' & Es & Ek & Ef)|(s' & Es' & _)]; [|rewrite Eo in Es'; discriminate].
      rewrite Eo in Eo'. injection Eo' as <-.
      pose proof Ho as (O1 & O2 & _).
      split; [now rewrite O1|]. split; [now rewrite O2, Ek, E3|]. split; [exact (final_ok_sim _ _ Ho Ef)|exact Et].
    - right. exists sD'. split; [reflexivity|].
      destruct Hst as (HIv & ext & Eext & Hext).
      assert (Hlen' : Forall lenok (sd_trace D sD')) by (rewrite Eext; apply Forall_app; split; assumption).
      pose proof (pass_sim eq00R lt00R psi_grad_full psi_yhat grad_L grad_psi lb ub l1 D ops never never P x_in y_in Σ errz_in ls_fuel sD s (sd_trace D sD') Hsim Hl) as Hp.
      rewrite Ep in Hp. destruct Hp as [_ Hall]. destruct (Hall [] (eq_sym (app_nil_r _))) as (s' & Es' & Hsim' & Hl').
      destruct (Hlive (oracle_of (sd_trace D sD')) (oracle_len _ Hlen')) as [(o' & Eo' & _)|(s'' & Es'' & HL'' & Ek)]; [rewrite Es' in Eo'; discriminate|].
      rewrite Es' in Es''. injection Es'' as <-.
      pose proof Hsim' as (_ & _ & E3' & _ & E5' & _).
      split; [|now rewrite E3', Ek, E3].
      constructor; [exists s'; split; assumption|now rewrite E5'|exact Hlen'|right; exact HIv].
  Qed.

  Record DoneOk (oD : outputsD D) : Prop := {
    do_status : out_status (od_out D oD) = StConverged;
    do_iter : (out_iterations (od_out D oD) < N)%nat;
    do_final : Final_ok (od_out D oD);
    do_trace : Forall lenok (od_trace D oD) }.

  Lemma DInv_k sD : DInv sD -> (st_k (sd_st D sD) < N)%nat.
  Proof.
    intros [(s & (_ & _ & E3 & _) & HL) _ _ _]. rewrite E3.
    exact (LInvG_k psi_grad_full psi_yhat grad_L grad_psi lb ub dummy hasinit P x_in y_in Σ errz_in ls_fuel ψ g n Lf ψinf
             Hqub Hinf HLg HL0 HLmax Hqt Hbeta δ Hδ Φ0 N HN s HL).
  Qed.

  Lemma loopD_live : forall fuel sD, DInv sD -> (N < fuel + st_k (sd_st D sD))%nat ->
    exists oD, loopD_ fuel sD = DoneD D oD /\ DoneOk oD.
  Proof.
    induction fuel as [|fuel IH]; intros sD HI Hf; pose proof (DInv_k sD HI) as Hk; [lia|].
    cbn [loopD]. destruct (passD_live sD HI) as [(oD & Ep & Es & Ei & Efin & Et)|(sD' & Ep & HI' & Ek)]; rewrite Ep.
    - exists oD. split; [reflexivity|]. constructor; [exact Es|lia|exact Efin|rewrite Et; apply HI].
    - apply IH; [exact HI'|lia].
  Qed.

  Theorem panocD_live_g fuel : (N < fuel)%nat -> exists oD, panocD_ fuel = DoneD D oD /\ DoneOk oD.
  Proof.
    intros Hf. unfold panocD.
    destruct (init_L psi_grad_full grad_psi P x_in) as [i0 c0] eqn:E0.
    cbn [nfinite NumR negb]. change (@ndiv R NumR) with Rdiv. fold (first_iterate psi_grad_full psi_yhat lb ub l1 P i0).
    set (i2 := first_iterate psi_grad_full psi_yhat lb ub l1 P i0).
    assert (HLi : Linit = iL i0) by (unfold L_init; now rewrite E0).
    assert (Hx0 : ix i0 = x_in) by (pose proof (PP init_L_x) as Hx; now rewrite E0 in Hx).
    pose proof (PP init_L_cons_x) as Hcx. rewrite E0 in Hcx. cbn [fst] in Hcx.
    set (i1 := set_gamma_L i0 (p_Lgamma P / iL i0) (iL i0)).
    destruct (PP eprox_cons i1 Hcx) as [A B].
    assert (Hc2 : Consistent i2) by (apply (PP epsih_cons); assumption).
    destruct (PP epsih_fields (eval_prox lb ub l1 i1)) as (F1 & _ & _ & _ & _ & F6 & F7 & _).
    assert (Hgl2 : gl_of i2 = halve_n 0 (gl0 psi_grad_full grad_psi P x_in)).
    { cbn [halve_n]. unfold gl_of, gl0, i2, first_iterate. fold i1. rewrite F6, F7, HLi. reflexivity. }
    assert (Hx2 : ix i2 = x_in) by (unfold i2, first_iterate; fold i1; rewrite F1; exact Hx0).
    assert (HL2 : iL i2 <= Lbar).
    { unfold i2, first_iterate. fold i1. rewrite F7. change (iL (eval_prox lb ub l1 i1)) with (iL i0). rewrite <- HLi. apply Rmax_l. }
    pose proof (PL init_qub_live ψ g n Lf) as Hiq. spec Hiq. specialize (Hiq nL nT). spec Hiq. specialize (Hiq N). spec Hiq.
    destruct (Hiq ls_fuel i2 (cnt_psih P c0) stats0 0%nat Hc2 Hgl2 Hx2 HL2) as (i3 & c1 & s1 & Eq & Hx3 & HL3).
    { unfold ls_pass_bound in Hfuel. nia. }
    rewrite Eq.
    pose proof (PP init_inv i0 c0 i3 c1 s1 E0 Eq) as Hinv.
    assert (G3 : good i3).
    { destruct Hinv as [Hc Hq Hgl _ _ _ _]. cbn [st_curr] in *. constructor; try assumption; [|now rewrite Hx3].
      pose proof (PL consistent_facts ψ g n) as Hcf. spec Hcf. apply Hcf; [exact Hc|now rewrite Hx3]. }
    apply loopD_live; [|cbn [sd_st st_k]; lia].
    constructor; cbn [sd_st sd_trace sd_dir st_k st_cnt].
    - eexists. split; [apply st_sim_refl|].
      constructor; cbn [st_curr st_np st_k]; [exact Hinv|exact G3|reflexivity|].
      pose proof (PL fbe_le_Phi0 ψ g n Lf) as Hfp. spec Hfp. specialize (Hfp nL nT). spec Hfp. specialize (Hfp N). spec Hfp.
      specialize (Hfp i3 G3 Hx3). cbn [INR]. lra.
    - cbn [length]. rewrite (init_qub_c_apply psi_grad_full psi_yhat lb ub l1 P _ _ _ _ _ _ _ Eq), c_apply_psih.
      pose proof (init_L_c_apply psi_grad_full grad_psi P x_in) as H0. rewrite E0 in H0. now symmetry.
    - constructor.
    - left; split; [reflexivity|exact HI0].
  Qed.
End DirLive.

(* ====================================================================================================================
   instances: the criteria ProjGradNorm[2] / FPRNorm[2], the default criterion ApproxKKT, the end-to-end QP statement
   ==================================================================================================================== *)
Section DirLiveInst.
  Variable psi_grad_full : list R -> R * list R * list R.
  Variable psi_yhat : list R -> R * list R.
  Variable grad_L : list R -> list R -> list R.
  Variable grad_psi : list R -> list R.
  Variables (lb ub : list (option R)).
  Variable D : Type.
  Variable ops : dirops R D.
  Variable P : params (T:=R).
  Variables (x_in y_in Σ errz_in : list R).
  Variable ls_fuel : nat.
  Variable d0 : D.
  Notation l1 := (@nil R).
  Notation never := (fun _ : counters => false).
  Notation dummy := (fun (_ : nat) (_ : iterate (T:=R)) => @None (list R)).
  Notation hasinit := (d_has_initial D ops).
  Notation PL f := (f psi_grad_full psi_yhat grad_L grad_psi lb ub dummy hasinit P x_in y_in Σ errz_in ls_fuel).
  Notation panocD_ := (panocD psi_grad_full psi_yhat grad_L grad_psi lb ub l1 D ops never never P x_in y_in Σ errz_in ls_fuel d0).
  Notation pgrad := (psi_grad psi_grad_full).
  Notation Linit := (L_init psi_grad_full grad_psi P x_in).
  Variables (ψ : list R -> R) (g : list R -> list R) (n : nat) (Lf ψinf : R).
  Hypothesis Hpsi : forall x, pgrad x = (ψ x, g x).
  Hypothesis Hco : coherent psi_grad_full psi_yhat grad_L grad_psi P.
  Hypothesis Hglen : forall x, length x = n -> length (g x) = n.
  Hypothesis Hqub : forall u d, length u = n -> length d = n ->
    ψ (vadd u d) <= ψ u + vdot (g u) d + Lf / 2 * vsqnorm d.
  Hypothesis Hinf : forall z, all_in_box lb ub z -> ψinf <= ψ z.
  Hypothesis Hlb : length lb = n.
  Hypothesis Hub : length ub = n.
  Hypothesis Hne : Forall2 box_ne lb ub.
  Hypothesis Hxin : length x_in = n.
  Hypothesis HLg : 0 < p_Lgamma P < 1.
  Hypothesis HL0 : 0 < Linit.
  Hypothesis HLmax : Lf <= p_Lmax P.
  Hypothesis Hqt : p_qub_tol P = 0.
  Hypothesis Hlt : p_ls_tol P = 0.
  Hypothesis Hbeta : 0 < p_beta P <= 1.
  Hypothesis Hforce : p_force_ls P = false.
  Variables (nL nT : nat).
  Hypothesis HnL : p_Lmax P <= Linit * 2 ^ nL.
  Hypothesis Hfac : 0 <= p_tau_factor P <= 1.
  Hypothesis Hmin : p_tau_factor P ^ nT < p_tau_min P.
  Hypothesis Hfuel : (ls_pass_bound nL nT <= ls_fuel)%nat.
  Variables I0 Iv : D -> Prop.
  Hypothesis Hwf : dir_wf n D ops I0 Iv.
  Hypothesis HI0 : I0 d0.

  Notation Phi0 := (Phi0 psi_grad_full grad_psi lb ub P x_in ψ g Lf).
  Notation DoneOk_ := (DoneOk psi_grad_full psi_yhat grad_L grad_psi lb ub D P x_in ψ g n Lf).

  (* ---- ProjGradNorm[2] / FPRNorm[2] *)
  Theorem panocD_live_4 :
    p_crit P = ProjGradNorm \/ p_crit P = ProjGradNorm2 \/ p_crit P = FPRNorm \/ p_crit P = FPRNorm2 ->
    forall N fuel : nat, Phi0 - ψinf < INR N * dec psi_grad_full grad_psi P x_in Lf -> (N <= p_max_iter P)%nat -> (N < fuel)%nat ->
    exists oD, panocD_ fuel = DoneD D oD /\ DoneOk_ N oD.
  Proof.
    intros Hcrit N fuel HN Hmax Hf.
    pose proof (PL eps_small ψ g n Lf) as He. spec He.
    apply (panocD_live_g psi_grad_full psi_yhat grad_L grad_psi lb ub D ops P x_in y_in Σ errz_in ls_fuel d0 ψ g n Lf ψinf
             Hpsi Hco Hglen Hqub Hinf Hlb Hub Hne Hxin HLg HL0 HLmax Hqt Hlt Hbeta Hforce nL nT HnL Hfac Hmin Hfuel I0 Iv Hwf HI0
             (delta psi_grad_full grad_psi P x_in Lf) ltac:(now apply delta_pos) (fun i _ _ G Hs => He i G Hs) Phi0 N HN Hmax (Rle_refl _) fuel Hf).
  Qed.

  Theorem panocD_returns_converged :
    p_crit P = ProjGradNorm \/ p_crit P = ProjGradNorm2 \/ p_crit P = FPRNorm \/ p_crit P = FPRNorm2 ->
    forall N fuel : nat, Phi0 - ψinf < INR N * dec psi_grad_full grad_psi P x_in Lf -> (N <= p_max_iter P)%nat -> (N < fuel)%nat ->
    exists oD, panocD_ fuel = DoneD D oD /\ out_status (od_out D oD) = StConverged /\ (out_iterations (od_out D oD) < N)%nat.
  Proof.
    intros Hcrit N fuel HN Hmax Hf. destruct (panocD_live_4 Hcrit N fuel HN Hmax Hf) as (oD & E & [A B _ _]). exists oD. repeat split; assumption.
  Qed.

  (* ---- ApproxKKT, ∇ψ Lipschitz *)
  Variable Lg : R.
  Hypothesis Hlip : forall u d, length u = n -> length d = n ->
    vsqnorm (vsub (g u) (g (vadd u d))) <= Lg * Lg * vsqnorm d.
  Hypothesis HLg0 : 0 <= Lg.

  Theorem panocD_live_kkt : p_crit P = ApproxKKT ->
    forall N fuel : nat, Phi0 - ψinf < INR N * dec_kkt psi_grad_full grad_psi P x_in Lf Lg -> (N <= p_max_iter P)%nat -> (N < fuel)%nat ->
    exists oD, panocD_ fuel = DoneD D oD /\ DoneOk_ N oD.
  Proof.
    intros Hcrit N fuel HN Hmax Hf.
    pose proof (PL eps_small_kkt ψ g n Lf Lg) as He. spec He.
    apply (panocD_live_g psi_grad_full psi_yhat grad_L grad_psi lb ub D ops P x_in y_in Σ errz_in ls_fuel d0 ψ g n Lf ψinf
             Hpsi Hco Hglen Hqub Hinf Hlb Hub Hne Hxin HLg HL0 HLmax Hqt Hlt Hbeta Hforce nL nT HnL Hfac Hmin Hfuel I0 Iv Hwf HI0
             (delta_kkt psi_grad_full grad_psi P x_in Lf Lg) ltac:(now apply (delta_kkt_pos psi_grad_full grad_psi P x_in Lf Lg)) He
             Phi0 N HN Hmax (Rle_refl _) fuel Hf).
  Qed.

  Theorem panocD_returns_converged_kkt : p_crit P = ApproxKKT ->
    forall N fuel : nat, Phi0 - ψinf < INR N * dec_kkt psi_grad_full grad_psi P x_in Lf Lg -> (N <= p_max_iter P)%nat -> (N < fuel)%nat ->
    exists oD, panocD_ fuel = DoneD D oD /\ out_status (od_out D oD) = StConverged /\ (out_iterations (od_out D oD) < N)%nat.
  Proof.
    intros Hcrit N fuel HN Hmax Hf. destruct (panocD_live_kkt Hcrit N fuel HN Hmax Hf) as (oD & E & [A B _ _]). exists oD. repeat split; assumption.
  Qed.

  (* ---- end to end on a box-constrained strongly convex QP, by REFINEMENT from QpLive.panoc_qp_converges_near_minimiser:
          the completed provider run is the oracle run with the oracle "its own trace", whose vectors have length n *)
  Variables (Qmul : list R -> list R) (c : list R) (μ : R) (xs rs : list R).
  Hypothesis Hgrad_qp : forall x, length x = n -> g x = vplus (Qmul x) c.
  Hypothesis HQlen : forall x, length x = n -> length (Qmul x) = n.
  Hypothesis Hclen : length c = n.
  Hypothesis Hxs : length xs = n /\ length rs = n.
  Hypothesis Hsc : forall x, length x = n -> μ_ok μ Qmul x xs.
  Hypothesis Hkkt_stat : vplus (Qmul xs) c = map Ropp rs.
  Hypothesis Hkkt_C : in_boxv lb ub xs /\ in_ncone lb ub xs rs.

  Theorem panocD_qp_converges_near_minimiser : p_crit P = ApproxKKT ->
    forall N fuel : nat, Phi0 - ψinf < INR N * dec_kkt psi_grad_full grad_psi P x_in Lf Lg -> (N <= p_max_iter P)%nat -> (N < fuel)%nat ->
    exists oD, panocD_ fuel = DoneD D oD /\ out_status (od_out D oD) = StConverged /\ (out_iterations (od_out D oD) < N)%nat /\
      μ * dot (vminus (out_x (od_out D oD)) xs) (vminus (out_x (od_out D oD)) xs)
        <= eff_tol (o_tol P) * norm1 (vminus (out_x (od_out D oD)) xs).
  Proof.
    intros Hcrit N fuel HN Hmax Hf.
    destruct (panocD_live_kkt Hcrit N fuel HN Hmax Hf) as (oD & Erun & [Hs Hi _ Htr]).
    exists oD. split; [exact Erun|]. split; [exact Hs|]. split; [exact Hi|].
    destruct (panocD_refines_R psi_grad_full psi_yhat grad_L grad_psi lb ub l1 D ops never never P x_in y_in Σ errz_in ls_fuel d0 fuel oD Erun)
      as (O & o & HO & Eo & Hsim).
    assert (HdirO : forall j i q, O j i = Some q -> length q = n).
    { intros j i q. rewrite HO. destruct (nth_in_or_default j (od_trace D oD) None) as [Hin|E]; [|rewrite E; discriminate].
      rewrite Forall_forall in Htr. apply (Htr _ Hin). }
    destruct (panoc_qp_converges_near_minimiser psi_grad_full psi_yhat grad_L grad_psi lb ub O hasinit P x_in y_in Σ errz_in ls_fuel
                ψ g n Lf ψinf Lg Qmul c μ xs rs Hgrad_qp HQlen Hclen Hxs Hsc Hkkt_stat Hkkt_C Hpsi Hco Hglen Hqub Hlip HLg0 Hinf Hlb Hub Hne Hxin
                HdirO HLg HL0 HLmax Hqt Hlt Hbeta Hforce Hcrit nL nT HnL Hfac Hmin Hfuel N fuel HN Hmax Hf) as (o' & Eo' & _ & _ & Hb).
    rewrite Eo in Eo'. injection Eo' as <-.
    destruct Hsim as (_ & _ & _ & Ex & _). rewrite Ex. exact Hb.
  Qed.
End DirLiveInst.
