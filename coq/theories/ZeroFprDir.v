(* ZeroFprDir.v — ZeroFPRSolver<DirectionProviderT>::operator() with a STATEFUL direction provider (Directions.dirops): the loop of
   ZeroFpr.v with the provider state threaded through every call site of zerofpr.tpp:
     k == 0:                         direction.initialize(problem, y, Σ, curr.γ, curr.x̂, prox.x̂, prox.p, prox.∇ψ)
     k > 0 || has_initial_direction: direction.apply(curr.γ, curr.x̂, prox.x̂, prox.p, prox.∇ψ, q); q.allFinite(); τ_init != 1: ++lbfgs_failures; direction.reset()
     line search, τ > 0 && fail:     direction.reset()
     line search, candidate passed the QUB test, update_direction_in_candidate, first time, no step-size change so far:
         update_direction_from_prox_step ? direction.update(curr.γ, next.γ, curr.x̂, next.x, prox.p, next.p, prox.∇ψ, next.∇ψ)
                                         : direction.update(curr.γ, next.γ, curr.x, next.x, curr.p, next.p, curr.∇ψ, next.∇ψ)
     after the search, !updated:     γ changed: direction.changed_γ(next.γ, curr.γ) [+ recompute: curr.γ, curr.L := next's; prox step of the PROX iterate redone];
                                     τ > 0 && update_direction_from_prox_step ? update(... curr.x̂ ... prox.p ... prox.∇ψ ...) : update(... curr.x ... curr.p ... curr.∇ψ ...)
   ZeroFpr.v only counts these calls.  Extra parameter w.r.t. ZeroFpr.v: update_direction_from_prox_step (it only selects arguments of update).
   Model only; the refinement theorem is in ZeroFprDirProofs.v. *)
From Coq Require Import List ZArith Bool Arith.
From Alpaqa Require Import Num Vec Prox SolverStatus SolverKernels StopChain Panoc ZeroFpr Directions.
Import ListNotations.

Section ZeroFprDir.
  Context {T : Type} `{Num T}.
  Local Open Scope num_scope.
  Notation iterate := (iterate (T:=T)).
  Notation stats := (stats (T:=T)).
  Notation lstate := (lstate (T:=T)).
  Notation proxit := (proxit (T:=T)).
  Notation ls_state := (ZeroFpr.ls_state (T:=T)).

  Variable psi_grad_full : list T -> T * list T * list T.
  Variable psi_yhat : list T -> T * list T.
  Variable grad_L : list T -> list T -> list T.
  Variable grad_psi : list T -> list T.
  Variables (lb ub : list (option T)) (l1 : list T).
  Variable D : Type.
  Variable ops : dirops T D.
  Variable stop_req : counters -> bool.
  Variable time_up : counters -> bool.
  Variable P : params (T:=T).
  Variable from_prox : bool.                   (* params.update_direction_from_prox_step *)
  Variables (x_in y_in Σ errz_in : list T).

  (* the two argument selections of direction.update *)
  Definition zdir_update (use_prox : bool) (d : D) (curr : iterate) (prox : proxit) (next : iterate) : bool * D :=
    if use_prox
    then d_update _ ops d (igam curr) (igam next) (ixh curr) (ix next) (px_p prox) (ip next) (px_grad prox) (igrad next)
    else d_update _ ops d (igam curr) (igam next) (ix curr) (ix next) (ip curr) (ip next) (igrad curr) (igrad next).

  Fixpoint zls_loopD (fuel : nat) (curr : iterate) (prox : proxit) (q : list T) (tau_init : T) (s : ls_state) (d : D) (rej : nat)
    : ZeroFpr.ls_result (T:=T) * D * nat :=
    match fuel with
    | O => (ZeroFpr.LsFuel, d, rej)
    | S f =>
      let stop := stop_req (ZeroFpr.ls_cnt s) in
      let c0 := inc_polls (ZeroFpr.ls_cnt s) in
      if stop then (ZeroFpr.LsStopped (ZeroFpr.mkLs (ZeroFpr.ls_next s) (ZeroFpr.ls_tau s) (ZeroFpr.ls_tau_prev s) (ZeroFpr.ls_upd s)
                                                     (ZeroFpr.ls_updated s) c0 (ZeroFpr.ls_stats s)), d, rej)
      else
        let τ := ZeroFpr.ls_tau s in
        let '(next, c1) :=
          if τ =? ZeroFpr.ls_tau_prev s then (ZeroFpr.ls_next s, c0)
          else if τ =? n0 then (ZeroFpr.take_safe_step curr prox (ZeroFpr.ls_next s), c0)
          else (ZeroFpr.take_accel_step psi_grad_full τ q curr (ZeroFpr.ls_next s), inc_pg c0) in
        let τ_prev := τ in
        let fail := negb (nfinite (ipsi next)) || ((p_Lmax P <=? iL next) && negb (p_Lmax P <=? iL curr)) in
        if (n0 <? τ) && fail then
          zls_loopD f curr prox q tau_init
                    (ZeroFpr.mkLs (set_gamma_L next (igam curr) (iL curr)) n0 τ_prev false (ZeroFpr.ls_updated s) c1 (ZeroFpr.ls_stats s))
                    (d_reset _ ops d) rej
        else
          let next1 := eval_cost psi_yhat (eval_prox lb ub l1 next) in
          let c2 := inc_py c1 in
          if (iL next1 <? p_Lmax P) && it_qub_violated P next1 then
            zls_loopD f curr prox q tau_init
                      (ZeroFpr.mkLs (halve_it next1) (if n0 <? τ then tau_init else τ) τ_prev false (ZeroFpr.ls_updated s) c2
                                    (inc_sbt (ZeroFpr.ls_stats s))) d rej
          else
            let do_upd := ZeroFpr.ls_upd s && negb (ZeroFpr.ls_updated s) in
            let c3 := if do_upd then inc_dir c2 else c2 in
            let upd := if do_upd then false else ZeroFpr.ls_upd s in
            let updated := if do_upd then true else ZeroFpr.ls_updated s in
            let ud := if do_upd then zdir_update from_prox d curr prox next1 else (true, d) in
            let d' := snd ud in
            let rej' := if fst ud then rej else S rej in
            if (n0 <? τ) && it_ls_violated P curr next1 then
              let τ1 := τ / n2 in
              let τ2 := if τ1 <? p_tau_min P then n0 else τ1 in
              zls_loopD f curr prox q tau_init (ZeroFpr.mkLs next1 τ2 τ_prev upd updated c3 (inc_lbt (ZeroFpr.ls_stats s))) d' rej'
            else (ZeroFpr.LsDone (ZeroFpr.mkLs next1 τ τ_prev upd updated c3 (ZeroFpr.ls_stats s)), d', rej')
    end.

  (* loop state / outputs: Panoc.v's records + provider, lbfgs_rejected, trace of apply results *)
  Record zstateD := mkZD { zd_st : lstate; zd_dir : D; zd_rej : nat; zd_trace : list (option (list T)) }.
  Record zoutD := mkZOut { zo_out : outputs (T:=T); zo_rej : nat; zo_dir : D; zo_trace : list (option (list T)) }.
  Inductive zresultD := ZDoneD (o : zoutD) | ZNotFiniteLD (L : T) | ZOutOfFuelD | ZThrewD (log : list (cbrec (T:=T))).
  Inductive zpass_resultD := ZExitD (o : zoutD) | ZContD (s : zstateD) | ZFuelD | ZThrowD (log : list (cbrec (T:=T))).

  Definition zdir_phase (use_dir : bool) (d : D) (curr : iterate) (prox : proxit) (q : list T) : option (option (list T) * list T * D) :=
    if use_dir then
      match d_apply _ ops d (igam curr) (ixh curr) (px_xh prox) (px_p prox) (px_grad prox) q with
      | None => None
      | Some (b, q', d') => Some (if b then Some q' else None, q', d')
      end
    else Some (None, q, d).

  Variable ls_fuel : nat.

  Definition zpassD (sD : zstateD) : zpass_resultD :=
    let s := zd_st sD in
    let curr := st_curr s in
    let prox := eval_prox_it grad_L lb ub l1 curr in
    let c0 := inc_gl (st_cnt s) in
    let ε := zit_eps lb ub l1 P curr prox in
    let k := st_k s in
    let te := time_up c0 in
    let sr := stop_req c0 in
    let c1 := inc_polls c0 in
    let st := stop_status_helpers (o_tol P) ε te k (p_max_iter P) (st_np s) (p_max_no_progress P) sr in
    match st with
    | StBusy =>
        let c2 := if (k =? 0)%nat then inc_dir c1 else c1 in
        match (if (k =? 0)%nat
               then d_initialize _ ops (zd_dir sD) y_in Σ (igam curr) (ixh curr) (px_xh prox) (px_p prox) (px_grad prox)
               else Some (zd_dir sD)) with
        | None => ZThrowD (rev (st_log s))
        | Some d1 =>
        let use_dir := (0 <? k)%nat || d_has_initial _ ops in
        match zdir_phase use_dir d1 curr prox (st_q s) with
        | None => ZThrowD (rev (st_log s))
        | Some (r, q, d2) =>
        let c3 := if use_dir then inc_apply c2 else c2 in
        let tr := if use_dir then zd_trace sD ++ [r] else zd_trace sD in
        let tau_init := match r with Some q' => if vall_finite q' then n1 else n0 | None => n0 end in
        let dfail := use_dir && negb (tau_init =? n1) in
        let stats1 := if dfail then inc_dfail (st_stats s) else st_stats s in
        let d3 := if dfail then d_reset _ ops d2 else d2 in
        let ls0 := ZeroFpr.mkLs (set_gamma_L (st_next s) (igam curr) (iL curr)) tau_init (- n1) (p_upd_in_cand P) false c3 stats1 in
        match zls_loopD ls_fuel curr prox q tau_init ls0 d3 (zd_rej sD) with
        | (ZeroFpr.LsFuel, _, _) => ZFuelD
        | (ZeroFpr.LsStopped l, d4, rej) =>
            ZContD (mkZD (mkSt curr (ZeroFpr.ls_next l) k (st_np s) q (ZeroFpr.ls_cnt l) (ZeroFpr.ls_stats l) (st_log s)) d4 rej tr)
        | (ZeroFpr.LsDone l, d4, rej) =>
            let next := ZeroFpr.ls_next l in let τ := ZeroFpr.ls_tau l in
            let z := ZeroFpr.ls_stats l in
            let stats2 := mkStats (s_stepsize_bt z) (s_ls_bt z)
                                  (s_ls_fail z + b2n ((τ =? n0) && (n0 <? tau_init)))
                                  (s_dir_fail z)
                                  (s_tau1 z + b2n (τ =? n1))
                                  (s_count_tau z + b2n (n0 <? tau_init))
                                  (s_sum_tau z + τ) in
            let np := match no_progress_update (st_np s) k (p_max_no_progress P) (veqb (ix curr) (ix next)) with
                      | Some v => v | None => st_np s end in
            let changed := negb (igam curr =? igam next) in
            let recomp := negb (ZeroFpr.ls_updated l) && changed && p_recompute P in
            let curr2 := if recomp then set_gamma_L curr (igam next) (iL next) else curr in
            (* eval_prox_grad_step_in_prox(curr) with the new step size: prox.x̂, prox.p from (γ_next, curr.x̂, prox.∇ψ) *)
            let prox2 := if recomp then prox_step_in_prox lb ub l1 (igam next) (ixh curr) (px_grad prox) else prox in
            let d5 := if negb (ZeroFpr.ls_updated l) && changed then d_changed_gamma _ ops d4 (igam next) (igam curr) else d4 in
            let ud := if ZeroFpr.ls_updated l then (true, d5) else zdir_update ((n0 <? τ) && from_prox) d5 curr2 prox2 next in
            let rej' := if fst ud then rej else S rej in
            let c4 := if ZeroFpr.ls_updated l then ZeroFpr.ls_cnt l else inc_dir (ZeroFpr.ls_cnt l) in
            let rec := mkCb k (with_gradh curr2 (px_grad prox)) q τ ε StBusy in
            ZContD (mkZD (mkSt next curr2 (S k) np q (inc_cb c4) stats2 (rec :: st_log s)) (snd ud) rej' tr)
        end end end
    | _ =>
        let rec := mkCb k (with_gradh curr (px_grad prox)) [] (- n1) ε st in
        let c2 := inc_cb c1 in
        let '(xo, yo, eo) := exit_block st (o_always P) x_in y_in errz_in (ixh curr) (iyh curr) Σ in
        ZExitD (mkZOut (mkOut st k ε xo yo eo curr (st_stats s) (rev (rec :: st_log s)) c2) (zd_rej sD) (zd_dir sD) (zd_trace sD))
    end.

  Fixpoint zloopD (fuel : nat) (s : zstateD) : zresultD :=
    match fuel with
    | O => ZOutOfFuelD
    | S f => match zpassD s with
             | ZExitD o => ZDoneD o
             | ZContD s' => zloopD f s'
             | ZFuelD => ZOutOfFuelD
             | ZThrowD log => ZThrewD log
             end
    end.

  Variable d0 : D.

  Definition zerofprD (fuel : nat) : zresultD :=
    let '(i0, c0) := init_L psi_grad_full grad_psi P x_in in
    if negb (nfinite (iL i0)) then ZNotFiniteLD (iL i0)
    else
      let i1 := set_gamma_L i0 (p_Lgamma P / iL i0) (iL i0) in
      let i2 := eval_cost psi_yhat (eval_prox lb ub l1 i1) in
      match ZeroFpr.init_qub psi_yhat lb ub l1 P ls_fuel i2 (inc_py c0) stats0 with
      | None => ZOutOfFuelD
      | Some (i3, c1, s1) => zloopD fuel (mkZD (mkSt i3 it_blank 0 0 [] c1 s1 []) d0 0 [])
      end.
End ZeroFprDir.
