(* SteihaugGenEq.v — tie 1 for C11 (translator G11b): every piece that translate/gen_steihaug.py regenerates from steihaugcg.hpp
   on every run (coq/gen/SteihaugGen.v) EQUALS the corresponding definition of the hand model Steihaug.v — the one all theorems
   of SteihaugProofs.v / Properties_C11.v are about:
     g_bnd                = bnd_intersections            (root formula with copysign, fmin / fmax ordering)
     g_solve_eval         = cg_eval                      (the lambda `eval`)
     g_tolerance          = cg_tolerance                 (min(tol_max, tol_scale·‖g‖·min(tol_scale_root, sqrt‖g‖)))
     g_solve_while_step   = cg_step                      (the body of `while (true)`: inl = return, inr = next state)
     g_solve              = cg_solve                     (initialisation, zero-gradient return, the loop)
   A change of the source changes SteihaugGen.v and breaks the lemma named after the generated definition (`g_<name>_eq`),
   which is a proof obligation of Properties_C11.v.
   Over R (4 is `nofZ 4` in the generated text and 2 + 2 in the model; the NaN exit `!isfinite(alpha)` is dead over R).
   tol_max: the generated code takes a number (inf<config_t> at binary64); the model has `None` for +inf.  `tolmax_repr` says which
   numbers stand for the model's value: the number itself, or anything not below the other argument of the outer fmin. *)
From Coq Require Import Reals List ZArith Lra Lia Bool Arith.
From Flocq Require Import Raux.
From Alpaqa Require Import Num NumR Vec Steihaug SteihaugProofs SteihaugGenLib SteihaugGen.
Import ListNotations.
Local Open Scope R_scope.

Lemma gcopysign_eq {T} `{Num T} (x s : T) : gcopysign x s = ncopysign x s.
Proof. reflexivity. Qed.

Section Eq.
  Variable B : list R -> list R.
  Variable g : list R.
  Variable Δ : R.
  Variable P : cg_params R.
  Variable tm : R.                      (* the number passed as params.tol_max *)
  Notation ts := (tol_scale P).
  Notation tsr := (tol_scale_root P).
  Notation mi := (max_iter P).

  Lemma g_bnd_eq z d r : g_bnd B ts tsr tm mi z d r = bnd_intersections z d r.
  Proof.
    assert (E : (nofZ 4 : R) = n4) by (unfold n4; numR; lra).
    unfold g_bnd, bnd_intersections. cbv zeta. rewrite E. reflexivity.
  Qed.

  Lemma g_solve_eval_eq p : g_solve_eval B ts tsr tm mi g p = cg_eval B g p.
  Proof. reflexivity. Qed.

  Definition tolmax_repr : Prop :=
    match tol_max P with
    | Some t => tm = t
    | None => ts * vnorm2 g * nfmin tsr (nsqrt (vnorm2 g)) <= tm
    end.

  Lemma g_tolerance_eq : tolmax_repr -> g_tolerance B ts tsr tm mi (vnorm2 g) = cg_tolerance P g.
  Proof.
    unfold tolmax_repr, g_tolerance, cg_tolerance, fmin_opt. destruct (tol_max P) as [t|]; [intros ->; reflexivity|].
    intros Hle. numR. cbn in Hle |- *.
    match goal with |- (if Rlt_bool ?X tm then _ else _) = _ => destruct (Rlt_bool_spec X tm) end; lra.
  Qed.

  (* the body of `while (true)` *)
  Definition emb_step (i : Z) (Bd' : list R) (r : cg_result R + cg_state R) :
      (R * list R) + (list R * list R * list R * list R * list R * R * Z) :=
    match r with
    | inl res => inl (res_val res, res_step res)
    | inr st' => inr (st_z st', st_r st', st_d st', Bd', st_z st', st_rsq st', Z.succ i)
    end.

  Lemma g_solve_while_step_eq tol i st Bd s :
    g_solve_while_step B ts tsr tm mi g Δ tol mi (st_z st) (st_r st) (st_d st) Bd s (st_rsq st) i
    = emb_step i (B (st_d st)) (cg_step B g Δ P tol i st).
  Proof.
    unfold g_solve_while_step, cg_step, axpy. cbv zeta. rewrite !g_bnd_eq.
    destruct (vdot (st_d st) (B (st_d st)) <=? n0)%num.
    - destruct (bnd_intersections (st_z st) (st_d st) Δ) as [ta tb]. rewrite !g_solve_eval_eq.
      destruct (_ =? _)%num; reflexivity.
    - cbn [nfinite NumR negb].
      destruct (Δ <=? vnorm2 (vadd (st_z st) (vscale (st_rsq st / vdot (st_d st) (B (st_d st)))%num (st_d st))))%num.
      + destruct (bnd_intersections (st_z st) (st_d st) Δ) as [ta tb]. rewrite !g_solve_eval_eq. reflexivity.
      + destruct (_ || _ || _); [rewrite !g_solve_eval_eq; reflexivity|reflexivity].
  Qed.

  Definition out_of (res : cg_result R) : option (R * list R) :=
    if cg_exit_eqb (res_exit res) ExFuel then None else Some (res_val res, res_step res).

  Lemma cg_step_exit_not_fuel tol i st res : cg_step B g Δ P tol i st = inl res -> cg_exit_eqb (res_exit res) ExFuel = false.
  Proof.
    unfold cg_step. cbv zeta.
    destruct (vdot (st_d st) (B (st_d st)) <=? n0)%num.
    - destruct (bnd_intersections (st_z st) (st_d st) Δ) as [ta tb]. destruct (_ =? _)%num; intros [= <-]; reflexivity.
    - destruct (negb _); [intros [= <-]; reflexivity|].
      destruct (Δ <=? _)%num.
      + destruct (bnd_intersections (st_z st) (st_d st) Δ) as [ta tb]. intros [= <-]; reflexivity.
      + destruct (_ || _ || _); [intros [= <-]; reflexivity|discriminate].
  Qed.

  Lemma g_loop_eq tol fuel : forall i st Bd s,
    while_fuel fuel (fun '(z, r, d, Bd, s, rsq, i) => g_solve_while_step B ts tsr tm mi g Δ tol mi z r d Bd s rsq i)
               (st_z st, st_r st, st_d st, Bd, s, st_rsq st, i)
    = out_of (cg_loop B g Δ P fuel tol i st).
  Proof.
    induction fuel as [|f IH]; intros i st Bd s; [reflexivity|].
    cbn [while_fuel cg_loop]. rewrite g_solve_while_step_eq.
    destruct (cg_step B g Δ P tol i st) as [res|st'] eqn:E; cbn [emb_step].
    - unfold out_of. rewrite (cg_step_exit_not_fuel _ _ _ _ E). reflexivity.
    - apply IH.
  Qed.

  Lemma map_const_len {A C} (c : C) (l l' : list A) : length l = length l' -> map (fun _ => c) l = map (fun _ => c) l'.
  Proof. revert l'; induction l as [|a l IH]; intros [|a' l'] Hl; cbn in *; try discriminate; [reflexivity|]. f_equal. apply IH. lia. Qed.

  (* the whole function: the work vectors z, r, d, Bd, work_eval and the incoming step have n = grad.size() rows *)
  Lemma g_solve_eq z0 r0 d0 Bd0 we0 s0 : tolmax_repr -> length z0 = length g -> length s0 = length g ->
    g_solve B ts tsr tm mi (cg_fuel P) z0 r0 d0 Bd0 we0 g Δ s0 = out_of (cg_solve B g Δ P).
  Proof.
    intros Ht Hz Hs. unfold g_solve, cg_solve. cbv zeta. cbn [st_rsq cg_init].
    destruct (vsqnorm g =? n0)%num.
    - unfold out_of. cbn. rewrite (map_const_len 0 s0 g Hs). reflexivity.
    - change (nfmin tm (ts * vnorm2 g * nfmin tsr (nsqrt (vnorm2 g))))%num with (g_tolerance B ts tsr tm mi (vnorm2 g)).
      rewrite (g_tolerance_eq Ht), (map_const_len (n0 : R) z0 g Hz).
      exact (g_loop_eq (cg_tolerance P g) (cg_fuel P) 0%Z (cg_init g) Bd0 s0).
  Qed.
End Eq.

(* ------------------------------------------------------------------ the main theorems of C11, restated for the GENERATED solve
   (used by Properties_C11.v with `exact`): for every symmetric linear operator B, every g, Δ > 0, all parameters, and work
   vectors of n rows, the generated function returns (never runs out of fuel: max_iter + 2 passes suffice), and what it returns
   is feasible, is the model value of the returned step, is <= 0 and no worse than the Cauchy point. *)
Theorem gen_solve_guarantees n B g Δ P tm z0 r0 d0 Bd0 we0 s0 :
  sym_linear_op n B -> length g = n -> 0 < Δ -> tolmax_repr g P tm -> length z0 = n -> length s0 = n ->
  exists val s,
    g_solve B (tol_scale P) (tol_scale_root P) tm (max_iter P) (cg_fuel P) z0 r0 d0 Bd0 we0 g Δ s0 = Some (val, s) /\
    val = res_val (cg_solve B g Δ P) /\ s = res_step (cg_solve B g Δ P) /\
    vnorm2 s <= Δ /\
    val = vdot g s + / 2 * vdot s (B s) /\
    val <= 0 /\
    val <= model B g (cauchy_point B g Δ).
Proof.
  intros HB Hl HΔ Ht Hz Hs.
  rewrite (g_solve_eq B g Δ P tm z0 r0 d0 Bd0 we0 s0 Ht) by congruence.
  destruct (P_terminates n B g Δ P HB Hl HΔ) as (Hf & _ & _).
  unfold out_of. destruct (cg_exit_eqb (res_exit (cg_solve B g Δ P)) ExFuel) eqn:E.
  - exfalso. apply Hf. destruct (res_exit (cg_solve B g Δ P)); try discriminate; reflexivity.
  - exists (res_val (cg_solve B g Δ P)), (res_step (cg_solve B g Δ P)). repeat split.
    + exact (P_norm_le_radius n B g Δ P HB Hl HΔ).
    + exact (P_value_is_model n B g Δ P HB Hl HΔ).
    + exact (P_nonpositive n B g Δ P HB Hl HΔ).
    + exact (P_le_cauchy n B g Δ P HB Hl HΔ).
Qed.

(* one pass of the generated loop body keeps the CG invariant and does not increase the model *)
Theorem gen_step_invariant n B g Δ P tm tol i st Bd s nxt :
  sym_linear_op n B -> length g = n -> 0 < Δ -> cg_invariant n B g Δ st ->
  g_solve_while_step B (tol_scale P) (tol_scale_root P) tm (max_iter P) g Δ tol (max_iter P) (st_z st) (st_r st) (st_d st) Bd s (st_rsq st) i
    = inr nxt ->
  let '(z', r', d', _, _, rsq', i') := nxt in
  let st' := {| st_z := z'; st_r := r'; st_d := d'; st_rsq := rsq' |} in
  i' = Z.succ i /\ cg_invariant n B g Δ st' /\ model B g z' <= model B g (st_z st).
Proof.
  intros HB Hl HΔ Hinv. rewrite g_solve_while_step_eq.
  destruct (cg_step B g Δ P tol i st) as [res|st'] eqn:E; cbn [emb_step]; [discriminate|].
  intros [= <-]. destruct (P_invariant_step n B g Δ P HB Hl HΔ tol i st st' Hinv E) as [H1 H2].
  destruct st' as [z' r' d' rsq']. cbn [st_z st_r st_d st_rsq] in *. auto.
Qed.

(* the generated root formula brackets zero: the roots of ||z + t d|| = Δ with ||z|| < Δ, d <> 0 *)
Theorem gen_bnd_is_model B (P : cg_params R) tm z d Δ :
  g_bnd B (tol_scale P) (tol_scale_root P) tm (max_iter P) z d Δ = bnd_intersections z d Δ.
Proof. apply g_bnd_eq. Qed.
