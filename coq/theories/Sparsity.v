(* Sparsity.v — model of alpaqa's sparsity patterns and their conversions (C14).
   Sources: src/alpaqa/include/alpaqa/problem/sparsity.hpp, problem/sparsity-conversions.hpp, util/sparse-ops.hpp.

   MODEL ONLY (no proofs).  Part 1 transcribes the code as it is (one function per
   SparsityConverter<From,To> specialisation, `convert` = the std::visit dispatch of
   SparsityConverter<Sparsity<Conf>,To>).  Part 2 is the SPECIFICATION side: what matrix a
   (pattern, value vector) pair denotes (`sem`), when a pattern is well formed (`valid`), `dense_of`.

   Conventions.
   * dimensions / positions in the value vector are nat; COO indices are Z (they carry first_index,
     which may be any integer); CSC inner indices and outer pointers are nat (a negative one is an
     out-of-bounds access in the C++, i.e. outside every contract).
   * index WIDTHS (int / long / long long) are only a tag `ityp` (they select the "same type, reuse storage"
     branches); overflow of narrow types is not modelled.
   * this build (g++ 12.2) has ALPAQA_HAVE_COO_CSC_CONVERSIONS undefined: COO->CSC and CSC row sorting throw
     std::runtime_error.  That is what is modelled; drv_C14 reports the macro state on every run.
   * values are an arbitrary type T with a distinguished `zero` (Eigen setZero). *)
From Coq Require Import List ZArith Bool Arith.
Import ListNotations.

Inductive symmetry := Unsym | Upper | Lower.
Inductive ityp := TInt | TLong | TLongLong.
Inductive csc_order := CscUnsorted | CscSortedRows.
Inductive coo_order := CooUnsorted | CooSortedByColsAndRows | CooSortedByColsOnly
                     | CooSortedByRowsAndCols | CooSortedByRowsOnly.

Definition ityp_eqb (a b : ityp) : bool :=
  match a, b with TInt, TInt | TLong, TLong | TLongLong, TLongLong => true | _, _ => false end.

Record dense := mkDense { d_rows : nat; d_cols : nat; d_sym : symmetry }.
Record csc := mkCSC { c_ity : ityp; c_rows : nat; c_cols : nat; c_sym : symmetry;
                      c_inner : list nat; c_outer : list nat; c_order : csc_order }.
Record coo := mkCOO { o_ity : ityp; o_rows : nat; o_cols : nat; o_sym : symmetry;
                      o_row : list Z; o_col : list Z; o_order : coo_order; o_first : Z }.

Inductive sparsity := SDense (d : dense) | SCSC (s : csc) | SCOO (o : coo).

(* SparsityConversionRequest<To> together with the target type To *)
Inductive request :=
| RDense
| RCSC (t : ityp) (order : option csc_order)
| RCOO (t : ityp) (first_index : option Z).

Inductive outcome (A : Type) :=
| Ok (a : A)
| ThrowInvalidArgument            (* std::invalid_argument *)
| ThrowRuntimeError.              (* std::runtime_error ("this build does not support ...") *)
Arguments Ok {A} a.
Arguments ThrowInvalidArgument {A}.
Arguments ThrowRuntimeError {A}.

(* how convert_values moves the numbers (decided at pattern-conversion time) *)
Inductive vconv :=
| VCopy                                                        (* from(to) *)
| VPackUpper (rows cols : nat)                                 (* Dense(Upper) -> sparse: column-wise upper triangle *)
| VScatter (sym : symmetry) (rows cols : nat) (keys : list (Z * Z)).   (* sparse -> Dense: setZero + T(r,c) = work(l) *)

Definition rows_of (s : sparsity) : nat :=
  match s with SDense d => d_rows d | SCSC s => c_rows s | SCOO o => o_rows o end.
Definition cols_of (s : sparsity) : nat :=
  match s with SDense d => d_cols d | SCSC s => c_cols s | SCOO o => o_cols o end.
Definition sym_of (s : sparsity) : symmetry :=
  match s with SDense d => d_sym d | SCSC s => c_sym s | SCOO o => o_sym o end.
(* get_nnz *)
Definition nnz (s : sparsity) : nat :=
  match s with SDense d => d_rows d * d_cols d | SCSC s => length (c_inner s) | SCOO o => length (o_row o) end.

(* ------------------------------------------------------------------ part 1: the code *)

(* `from.symmetry != Unsymmetric && from.rows != from.cols` -> throw *)
Definition sym_square_ok (sym : symmetry) (rows cols : nat) : bool :=
  match sym with Unsym => true | _ => rows =? cols end.

(* the (r, c) pairs visited by
     for (c = 0; c < from.cols; ++c) for (i = outer_ptr(c); i < outer_ptr(c+1); ++i) r = inner_idx(i)
   in visiting order (the running counter l is the position in this list) *)
Definition csc_col_rows (s : csc) (c : nat) : list nat :=
  let a := nth c (c_outer s) 0 in
  let b := nth (S c) (c_outer s) 0 in
  map (fun i => nth i (c_inner s) 0) (seq a (b - a)).
Definition csc_expand (s : csc) : list (nat * nat) :=
  flat_map (fun c => map (fun r => (r, c)) (csc_col_rows s c)) (seq 0 (c_cols s)).
Definition zkey (k : nat * nat) : Z * Z := (Z.of_nat (fst k), Z.of_nat (snd k)).

(* r = row_indices(l) - first_index, c = col_indices(l) - first_index, l = 0 .. nnz-1 *)
Definition coo_keys (o : coo) : list (Z * Z) :=
  map (fun rc => (fst rc - o_first o, snd rc - o_first o)%Z) (combine (o_row o) (o_col o)).

(* the (r, c) pairs of `for c < cols: for r < rows` resp. `for r <= c` *)
Definition dense_entries (sym : symmetry) (rows cols : nat) : list (nat * nat) :=
  flat_map (fun c => map (fun r => (r, c)) (seq 0 (match sym with Unsym => rows | _ => S c end))) (seq 0 cols).

Definition conv_dense_dense (d : dense) : outcome (sparsity * vconv) :=
  if sym_square_ok (d_sym d) (d_rows d) (d_cols d) then Ok (SDense d, VCopy) else ThrowInvalidArgument.

Definition conv_csc_dense (s : csc) : outcome (sparsity * vconv) :=
  if sym_square_ok (c_sym s) (c_rows s) (c_cols s)
  then Ok (SDense (mkDense (c_rows s) (c_cols s) (c_sym s)),
           VScatter (c_sym s) (c_rows s) (c_cols s) (map zkey (csc_expand s)))
  else ThrowInvalidArgument.

Definition conv_coo_dense (o : coo) : outcome (sparsity * vconv) :=
  if sym_square_ok (o_sym o) (o_rows o) (o_cols o)
  then Ok (SDense (mkDense (o_rows o) (o_cols o) (o_sym o)),
           VScatter (o_sym o) (o_rows o) (o_cols o) (coo_keys o))
  else ThrowInvalidArgument.

Definition req_delta (first : option Z) : Z := match first with Some f => f | None => 0%Z end.

Definition conv_dense_coo (d : dense) (t : ityp) (first : option Z) : outcome (sparsity * vconv) :=
  let Δ := req_delta first in
  let mk es := mkCOO t (d_rows d) (d_cols d) (d_sym d)
                     (map (fun k => (Z.of_nat (fst k) + Δ)%Z) es) (map (fun k => (Z.of_nat (snd k) + Δ)%Z) es)
                     CooSortedByColsAndRows (req_delta first) in
  match d_sym d with
  | Unsym => Ok (SCOO (mk (dense_entries Unsym (d_rows d) (d_cols d))), VCopy)
  | Upper => if d_rows d =? d_cols d
             then Ok (SCOO (mk (dense_entries Upper (d_rows d) (d_cols d))), VPackUpper (d_rows d) (d_cols d))
             else ThrowInvalidArgument
  | Lower => ThrowInvalidArgument       (* "Lower-triangular symmetry currently not supported" *)
  end.

Definition conv_csc_coo (s : csc) (t : ityp) (first : option Z) : outcome (sparsity * vconv) :=
  let Δ := req_delta first in
  let es := csc_expand s in
  Ok (SCOO (mkCOO t (c_rows s) (c_cols s) (c_sym s)
                  (map (fun k => (Z.of_nat (fst k) + Δ)%Z) es) (map (fun k => (Z.of_nat (snd k) + Δ)%Z) es)
                  (match c_order s with CscSortedRows => CooSortedByColsAndRows | CscUnsorted => CooSortedByColsOnly end)
                  (req_delta first)),
      VCopy).

Definition conv_coo_coo (o : coo) (t : ityp) (first : option Z) : outcome (sparsity * vconv) :=
  let Δ := match first with Some f => (f - o_first o)%Z | None => 0%Z end in
  if ityp_eqb (o_ity o) t && (Δ =? 0)%Z
  then Ok (SCOO o, VCopy)                                   (* `return from;` indices reused without change *)
  else Ok (SCOO (mkCOO t (o_rows o) (o_cols o) (o_sym o)
                       (map (fun i => (i + Δ)%Z) (o_row o)) (map (fun i => (i + Δ)%Z) (o_col o))
                       (o_order o)
                       (match first with Some f => f | None => o_first o end)),
           VCopy).

(* #if !ALPAQA_HAVE_COO_CSC_CONVERSIONS *)
Definition conv_coo_csc (o : coo) (t : ityp) (order : option csc_order) : outcome (sparsity * vconv) :=
  ThrowRuntimeError.

Definition conv_csc_csc (s : csc) (t : ityp) (order : option csc_order) : outcome (sparsity * vconv) :=
  let sorted_requested := match order with Some CscSortedRows => true | _ => false end in
  let need_sorting := sorted_requested && match c_order s with CscUnsorted => true | CscSortedRows => false end in
  if need_sorting then ThrowRuntimeError      (* sort_indices(): "does not support sorting matrices in CSC format" *)
  else Ok (SCSC (mkCSC t (c_rows s) (c_cols s) (c_sym s) (c_inner s) (c_outer s)
                       (if sorted_requested then CscSortedRows else c_order s)),
           VCopy).

(* outer_ptr[c] = l; for r ...: inner_idx[l++] = r;   finally outer_ptr[cols] = l *)
Fixpoint dense_csc_loop (colf : nat -> list nat) (cs : list nat) (l : nat) : list nat * list nat :=
  match cs with
  | [] => ([], [l])
  | c :: cs' =>
      let col := colf c in
      let '(inn, out) := dense_csc_loop colf cs' (l + length col) in
      (col ++ inn, l :: out)
  end.

Definition conv_dense_csc (d : dense) (t : ityp) (order : option csc_order) : outcome (sparsity * vconv) :=
  let mk (io : list nat * list nat) :=
      mkCSC t (d_rows d) (d_cols d) (d_sym d) (fst io) (snd io) CscSortedRows in
  match d_sym d with
  | Unsym => Ok (SCSC (mk (dense_csc_loop (fun _ => seq 0 (d_rows d)) (seq 0 (d_cols d)) 0)), VCopy)
  | Upper => if d_rows d =? d_cols d
             then Ok (SCSC (mk (dense_csc_loop (fun c => seq 0 (S c)) (seq 0 (d_cols d)) 0)),
                      VPackUpper (d_rows d) (d_cols d))
             else ThrowInvalidArgument
  | Lower => ThrowInvalidArgument
  end.

(* SparsityConverter<Sparsity<Conf>, To>: std::visit over the source alternative *)
Definition convert (from : sparsity) (req : request) : outcome (sparsity * vconv) :=
  match req, from with
  | RDense, SDense d => conv_dense_dense d
  | RDense, SCSC s => conv_csc_dense s
  | RDense, SCOO o => conv_coo_dense o
  | RCOO t f, SDense d => conv_dense_coo d t f
  | RCOO t f, SCSC s => conv_csc_coo s t f
  | RCOO t f, SCOO o => conv_coo_coo o t f
  | RCSC t ord, SDense d => conv_dense_csc d t ord
  | RCSC t ord, SCSC s => conv_csc_csc s t ord
  | RCSC t ord, SCOO o => conv_coo_csc o t ord
  end.

Fixpoint upd {A} (n : nat) (x : A) (l : list A) : list A :=
  match l, n with
  | [], _ => []
  | _ :: t, O => x :: t
  | h :: t, S n' => h :: upd n' x t
  end.

(* position of T(r, c) in the column-major vector `to` *)
Definition flat (rows : nat) (r c : Z) : nat := Z.to_nat (r + c * Z.of_nat rows).

Section Values.
  Context {T : Type} (zero : T).

  (* the loop body of SparsityConverter<SparseCSC|SparseCOO, Dense>::convert_values *)
  Fixpoint scatter_loop (sym : symmetry) (rows : nat) (kv : list ((Z * Z) * T)) (acc : list T) : outcome (list T) :=
    match kv with
    | [] => Ok acc
    | ((r, c), x) :: kv' =>
        match sym with
        | Unsym => scatter_loop sym rows kv' (upd (flat rows r c) x acc)
        | Upper => if (c <? r)%Z then ThrowInvalidArgument     (* r > c: element below the diagonal *)
                   else scatter_loop sym rows kv' (upd (flat rows c r) x (upd (flat rows r c) x acc))
        | Lower => if (r <? c)%Z then ThrowInvalidArgument     (* r < c: element above the diagonal *)
                   else scatter_loop sym rows kv' (upd (flat rows c r) x (upd (flat rows r c) x acc))
        end
    end.

  (* copy_backward(f.col(c).topRows(c + 1), t += c + 1) for c < cols, f = work.reshaped(rows, cols) *)
  Definition pack_upper (rows cols : nat) (v : list T) : list T :=
    flat_map (fun c => map (fun r => nth (r + c * rows) v zero) (seq 0 (S c))) (seq 0 cols).

  Definition convert_values (a : vconv) (v : list T) : outcome (list T) :=
    match a with
    | VCopy => Ok v
    | VPackUpper rows cols => Ok (pack_upper rows cols v)
    | VScatter sym rows cols keys => scatter_loop sym rows (combine keys v) (repeat zero (rows * cols))
    end.

  (* ---------------------------------------------------------------- part 2: the specification side *)

  (* first-match association-list lookup; `zero` when absent (structural zero) *)
  Fixpoint lookup {K} (eqb : K -> K -> bool) (kv : list (K * T)) (k : K) : T :=
    match kv with
    | [] => zero
    | (k', x) :: kv' => if eqb k' k then x else lookup eqb kv' k
    end.

  Definition zz_eqb (a b : Z * Z) : bool := ((fst a =? fst b) && (snd a =? snd b))%Z.

  (* which stored position represents entry (i, j): symmetric patterns store one triangle *)
  Definition tri_pick (sym : symmetry) (i j : nat) : nat * nat :=
    match sym with
    | Unsym => (i, j)
    | Upper => if i <=? j then (i, j) else (j, i)
    | Lower => if j <=? i then (i, j) else (j, i)
    end.

  (* Dense: column-major, ALL elements stored ("symmetric dense matrices always store all elements"):
     entry (i, j) is simply the stored element, whatever the symmetry tag *)
  Definition sem_dense (d : dense) (v : list T) (i j : nat) : T := nth (i + j * d_rows d) v zero.

  (* a value vector fits a pattern: only a symmetric-tagged Dense constrains the numbers (they must be symmetric) *)
  Definition values_ok (s : sparsity) (v : list T) : Prop :=
    match s with
    | SDense d => d_sym d <> Unsym -> forall i j, i < d_rows d -> j < d_cols d ->
                  nth (i + j * d_rows d) v zero = nth (j + i * d_rows d) v zero
    | _ => True
    end.

  (* COO: the value paired with the triplet whose (row - first_index, col - first_index) = (i, j) *)
  Definition sem_coo (o : coo) (v : list T) (i j : nat) : T :=
    let ab := tri_pick (o_sym o) i j in
    lookup zz_eqb (combine (coo_keys o) v) (Z.of_nat (fst ab), Z.of_nat (snd ab)).

  (* CSC, textbook reading: column b occupies positions outer[b] .. outer[b+1]-1 of inner_idx AND of the value
     vector; entry (a, b) is the value at the position of that slice whose row index is a
     (csc_col_rows s b = the row indices at those positions) *)
  Definition csc_get (s : csc) (v : list T) (a b : nat) : T :=
    lookup Nat.eqb (combine (csc_col_rows s b) (skipn (nth b (c_outer s) 0) v)) a.
  Definition sem_csc (s : csc) (v : list T) (i j : nat) : T :=
    let ab := tri_pick (c_sym s) i j in csc_get s v (fst ab) (snd ab).

  Definition sem (s : sparsity) (v : list T) (i j : nat) : T :=
    match s with SDense d => sem_dense d v i j | SCSC s => sem_csc s v i j | SCOO o => sem_coo o v i j end.

  Definition tabulate (rows cols : nat) (f : nat -> nat -> T) : list T :=
    flat_map (fun j => map (fun i => f i j) (seq 0 rows)) (seq 0 cols).
End Values.

(* -- well-formedness of a pattern *)
Definition in_tri (sym : symmetry) (r c : Z) : bool :=
  match sym with Unsym => true | Upper => (r <=? c)%Z | Lower => (c <=? r)%Z end.

Fixpoint nodupb {K} (eqb : K -> K -> bool) (l : list K) : bool :=
  match l with [] => true | k :: l' => negb (existsb (eqb k) l') && nodupb eqb l' end.

Definition key_ok (sym : symmetry) (rows cols : nat) (k : Z * Z) : bool :=
  ((0 <=? fst k) && (fst k <? Z.of_nat rows) && (0 <=? snd k) && (snd k <? Z.of_nat cols))%Z && in_tri sym (fst k) (snd k).

(* every stored entry inside the matrix and inside the stored triangle; no entry stored twice *)
Definition keys_ok (sym : symmetry) (rows cols : nat) (keys : list (Z * Z)) : bool :=
  forallb (key_ok sym rows cols) keys && nodupb zz_eqb keys.

Definition valid_dense (d : dense) : bool := sym_square_ok (d_sym d) (d_rows d) (d_cols d).

Definition valid_coo (o : coo) : bool :=
  (length (o_row o) =? length (o_col o)) && sym_square_ok (o_sym o) (o_rows o) (o_cols o)
  && keys_ok (o_sym o) (o_rows o) (o_cols o) (coo_keys o).

(* outer_ptr has cols+1 entries, starts at 0, is non-decreasing, ends at nnz *)
Definition outer_ok (s : csc) : bool :=
  (length (c_outer s) =? S (c_cols s)) && (nth 0 (c_outer s) 0 =? 0)
  && forallb (fun c => nth c (c_outer s) 0 <=? nth (S c) (c_outer s) 0) (seq 0 (c_cols s))
  && (nth (c_cols s) (c_outer s) 0 =? length (c_inner s)).

Definition valid_csc (s : csc) : bool :=
  outer_ok s && sym_square_ok (c_sym s) (c_rows s) (c_cols s)
  && keys_ok (c_sym s) (c_rows s) (c_cols s) (map zkey (csc_expand s)).

Definition valid (s : sparsity) : bool :=
  match s with SDense d => valid_dense d | SCSC s => valid_csc s | SCOO o => valid_coo o end.

(* the matrix denoted by (pattern, values): (rows, cols, column-major entries); None = not a matrix *)
Definition dense_of {T} (zero : T) (s : sparsity) (v : list T) : option (nat * nat * list T) :=
  if valid s && (length v =? nnz s)
  then Some (rows_of s, cols_of s, tabulate (rows_of s) (cols_of s) (sem zero s v))
  else None.

(* -- is the order tag truthful? *)
Fixpoint pairwise {K} (le : K -> K -> bool) (l : list K) : bool :=
  match l with [] => true | a :: t => forallb (le a) t && pairwise le t end.

Definition le_cols_rows (a b : Z * Z) : bool := ((snd a <? snd b) || ((snd a =? snd b) && (fst a <=? fst b)))%Z.
Definition le_cols (a b : Z * Z) : bool := (snd a <=? snd b)%Z.
Definition le_rows_cols (a b : Z * Z) : bool := ((fst a <? fst b) || ((fst a =? fst b) && (snd a <=? snd b)))%Z.
Definition le_rows (a b : Z * Z) : bool := (fst a <=? fst b)%Z.

Definition coo_order_true (o : coo) : bool :=
  let ks := combine (o_row o) (o_col o) in
  match o_order o with
  | CooUnsorted => true
  | CooSortedByColsAndRows => pairwise le_cols_rows ks
  | CooSortedByColsOnly => pairwise le_cols ks
  | CooSortedByRowsAndCols => pairwise le_rows_cols ks
  | CooSortedByRowsOnly => pairwise le_rows ks
  end.

Definition csc_order_true (s : csc) : bool :=
  match c_order s with
  | CscUnsorted => true
  | CscSortedRows => forallb (fun c => pairwise Nat.leb (csc_col_rows s c)) (seq 0 (c_cols s))
  end.

Definition order_true (s : sparsity) : bool :=
  match s with SDense _ => true | SCSC s => csc_order_true s | SCOO o => coo_order_true o end.
