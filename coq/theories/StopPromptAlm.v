(* StopPromptAlm.v — C19 under ALM: promptness of stop() for ALMSolver<PANOCSolver> on the composed whole-run model
   (AlmCompose.v / AlmPanoc.v), for a STICKY request.  Over R, for every problem, direction provider, clock, parameter set.

   ALMSolver::stop() sets ALM's own flag and forwards to the inner solver; neither flag is cleared.  In the composed model both are the
   one oracle stop_req, a function of the CUMULATIVE event counters (world w = sum over the finished solves): the inner solver polls
   it at its stop checks, the outer loop reads it once per outer iteration, after the inner solve (Alm.ir_stop = stop_req at the
   world the solve hands on).

   Proved:
     inner_request_during      the inner solve in which a poll sees the request returns after at most ONE further poll, <= 2 oracle
                               calls, no direction call, no iterate update (StopPrompt.prompt_after), and the world it hands on is
                               one in which the request is visible
     inner_after_request       an inner solve STARTED with the request visible is start-up + one stop check: no iteration, no
                               direction call, <= 5 + (initial step-size halvings) oracle calls (`one_check`), and hands the request on
     inner_stop_flag           what the outer loop reads after an inner solve is the request at the world that solve hands on
     alm_panoc_stop_ends_run   MAIN: the outer iteration at whose end the request is visible is the LAST one — no further inner solve
                               is started — with status Interrupted (inner) / Converged > MaxTime > MaxIter > Interrupted
                               (AlmComposeProofs.run_ends_at); the request is visible there whenever a poll of that inner solve saw it
                               (that solve is then prompt) or it was visible when the solve started (that solve is then one-check)
   Before the repair of ALMSolver::stop() (which only forwarded to the inner solver) the last statement was FALSE: while the inner
   solves ended at their first check with a status ranked above Interrupted (Converged: the warm start already meets the inner
   tolerance) the outer loop ran on until its own exit test fired (known_findings: C19:alm-runs-on-after-stop-request). *)
From Coq Require Import Reals List ZArith Lra Lia Bool Arith.
From Alpaqa Require Import Num NumR Vec Prox SolverStatus SolverKernels StopChain StopChainProofs AugLag Panoc
                           Alm AlmProofs AlmCompose AlmComposeProofs AlmPanoc StopPrompt.
Import ListNotations.

Lemma cadd_le_r w c c' : cnt_le c c' -> cnt_le (cadd w c) (cadd w c').
Proof. unfold cadd. cnt_solve. Qed.
Lemma cadd_le_l w c : cnt_le w (cadd w c).
Proof. unfold cadd. cnt_solve. Qed.
Lemma sticky_shift stop_req w : sticky stop_req -> sticky (fun c => stop_req (cadd w c)).
Proof. intros Hs c c' Hle. apply Hs. now apply cadd_le_r. Qed.

Section AlmStop.
  Variable Pb : problem (T:=R).
  Variable prov : fn -> bool.
  Variable wm_supplied : list R -> list R.
  Variables (Clb Cub : list (option R)) (l1 : list R).
  Variable split : nat.
  Variable dir : nat -> iterate (T:=R) -> option (list R).
  Variable has_initial : bool.
  Variable stop_req : counters -> bool.
  Variable time_up : counters -> bool.
  Variable outer_oot : nat -> bool.
  Variable PP : params (T:=R).
  Variable AP : alm_params (T:=R).
  Variables (ls_fuel inner_fuel : nat).

  Hypothesis Hsticky : sticky stop_req.

  Notation inner_ := (inner Pb prov wm_supplied Clb Cub l1 dir has_initial stop_req time_up outer_oot PP ls_fuel inner_fuel).
  Notation resR := (result (T:=R)).
  Notation irecR := (iter_rec (T:=R)).
  Notation called_ := (called counters resR inner_).

  (* the polls of the inner solve that ALM starts in world w on (x, y, Σ, tol, err_z) *)
  Definition inner_polled (w : counters) (x y Σ : list R) (tol : R) (errz : list R) (pp : pollpt (T:=R)) : Prop :=
    panoc_polled (o_psi_grad_full Pb prov wm_supplied y Σ) (o_psi_yhat Pb prov y Σ) (o_grad_L Pb prov) (o_grad_psi Pb prov y Σ)
                 Clb Cub l1 (fun j it => dir (c_apply w + j)%nat it) has_initial (fun c => stop_req (cadd w c))
                 (fun c => time_up (cadd w c)) (with_opts PP tol) x y Σ errz ls_fuel pp.
  Definition inner_prompt_after (tol : R) (pp : pollpt (T:=R)) (o : outputs (T:=R)) : Prop :=
    prompt_after (with_opts PP tol) pp o.

  Lemma inner_world w i x y Σ tol e r x' lg w' : inner_ w i x y Σ tol e = Some (r, x', lg, w') ->
    cnt_le w w' /\
    match lg with
    | Done o => w' = cadd w (out_cnt o) /\ ir_status r = alm_status_of (out_status o) /\ ir_iters r = out_iterations o /\ x' = out_x o
    | NotFiniteL _ => ir_status r = NotFinite /\ ir_iters r = 0%nat /\ x' = x
    | OutOfFuel => False
    end.
  Proof.
    unfold inner. cbv zeta.
    match goal with |- context [match ?X with Done _ => _ | NotFiniteL _ => _ | OutOfFuel => _ end] => destruct X as [o|L|] end;
      [| |discriminate]; intros E; inversion E; subst; clear E; (split; [apply cadd_le_l|]); cbn [ir_status ir_iters]; repeat split.
  Qed.

  (* what the outer loop reads from ALM's own flag after this inner solve: the request, at the world the solve hands on *)
  Lemma inner_stop_flag w i x y Σ tol e r x' lg w' : inner_ w i x y Σ tol e = Some (r, x', lg, w') -> ir_stop r = stop_req w'.
  Proof.
    unfold inner. cbv zeta.
    match goal with |- context [match ?X with Done _ => _ | NotFiniteL _ => _ | OutOfFuel => _ end] => destruct X as [o|L|] end;
      [| |discriminate]; intros E; inversion E; subst; clear E; reflexivity.
  Qed.

  (* the inner solve during which a poll sees the request *)
  Theorem inner_request_during w i x y Σ tol e r x' o w' : inner_ w i x y Σ tol e = Some (r, x', Done o, w') ->
    forall pp, inner_polled w x y Σ tol e pp -> stop_req (cadd w (pp_cnt pp)) = true ->
    inner_prompt_after tol pp o /\ stop_req w' = true.
  Proof.
    intros Ein pp Hp Hs. destruct (inner_world _ _ _ _ _ _ _ _ _ _ _ Ein) as (_ & Ew & _).
    unfold inner in Ein. cbv zeta in Ein.
    match type of Ein with context [match ?X with Done _ => _ | NotFiniteL _ => _ | OutOfFuel => _ end] => destruct X as [o1|L|] eqn:Er end;
      [| |discriminate]; inversion Ein; subst; clear Ein.
    pose proof (panoc_stop_prompt _ _ _ _ _ _ _ _ _ _ _ _ _ _ _ _ _ (sticky_shift stop_req w Hsticky) _ _ Er pp Hp Hs) as Hpr.
    split; [exact Hpr|]. destruct Hpr as (_ & _ & A & _).
    apply (Hsticky (cadd w (pp_cnt pp))); [|exact Hs]. apply cadd_le_r. exact (adv_le _ _ _ _ _ _ _ A).
  Qed.

  (* an inner solve that is start-up + ONE stop check *)
  Definition one_check (lg : resR) (r : inner_res (T:=R)) : Prop :=
    match lg with
    | Done o => out_iterations o = 0%nat /\ c_polls (out_cnt o) = 1%nat /\ c_dir (out_cnt o) = 0%nat /\ c_apply (out_cnt o) = 0%nat /\
                c_cb (out_cnt o) = 1%nat /\ (evals (out_cnt o) <= 5 + s_stepsize_bt (out_stats o))%nat /\
                exit_statuses (out_status o) /\ ir_status r = alm_status_of (out_status o) /\ ir_iters r = 0%nat
    | NotFiniteL _ => ir_status r = NotFinite /\ ir_iters r = 0%nat       (* aborted in the start-up: <= 2 oracle calls, no poll *)
    | OutOfFuel => False
    end.

  Theorem inner_after_request w i x y Σ tol e r x' lg w' : stop_req w = true -> inner_ w i x y Σ tol e = Some (r, x', lg, w') ->
    one_check lg r /\ stop_req w' = true.
  Proof.
    intros Hw Ein. destruct (inner_world _ _ _ _ _ _ _ _ _ _ _ Ein) as (Hle & Ew).
    split; [|exact (Hsticky w w' Hle Hw)].
    unfold inner in Ein. cbv zeta in Ein.
    match type of Ein with context [match ?X with Done _ => _ | NotFiniteL _ => _ | OutOfFuel => _ end] => destruct X as [o1|L|] eqn:Er end;
      [| |discriminate]; inversion Ein; subst; clear Ein; cbn [one_check ir_status ir_iters]; [|split; reflexivity].
    assert (H0 : stop_req (cadd w cnt0) = true) by (apply (Hsticky w); [apply cadd_le_l|exact Hw]).
    destruct (panoc_stop_before_start _ _ _ _ _ _ _ _ _ _ _ _ _ _ _ _ _ (sticky_shift stop_req w Hsticky) _ _ Er H0)
      as (A1 & A2 & A3 & A4 & A5 & A6 & A7 & A8).
    repeat (split; [assumption|]). split; [reflexivity|exact A3].
  Qed.

  Lemma called_split : forall pre x0 w0 rc post xf wf, called_ x0 w0 (pre ++ rc :: post) xf wf ->
    exists x w x' lg w', called_ x0 w0 pre x w /\
      inner_ w (it_i rc) x (it_y rc) (it_Sigma rc) (it_tol rc) (it_err_in rc) = Some (it_res rc, x', lg, w') /\
      called_ x' w' post xf wf.
  Proof.
    induction pre as [|a pre IH]; intros x0 w0 rc post xf wf Hc; cbn [app] in Hc.
    - inversion Hc as [|? ? ? x' lg w' ? ? ? Ein Hrest]; subst. exists x0, w0, x', lg, w'. split; [constructor|split; assumption].
    - inversion Hc as [|? ? ? x' lg w' ? ? ? Ein Hrest]; subst.
      destruct (IH _ _ _ _ _ _ Hrest) as (x & w & x'' & lg' & w'' & A & B & C).
      exists x, w, x'', lg', w''. split; [econstructor; eassumption|split; assumption].
  Qed.

  (* nothing follows an Interrupted inner solve in an ALM trace *)
  Lemma interrupted_is_last (tr pre' : list irecR) (rl : irecR) pre rc post :
    tr = pre' ++ [rl] -> Forall (fun a => ir_status (it_res a) <> Interrupted) pre' ->
    tr = pre ++ rc :: post -> ir_status (it_res rc) = Interrupted -> post = [].
  Proof.
    intros E1 Hf E2 Hi. destruct post as [|p post] using rev_ind; [reflexivity|]. exfalso. clear IHpost.
    rewrite E1 in E2. rewrite app_comm_cons, app_assoc in E2. apply app_inj_tail in E2. destruct E2 as [E2 _].
    rewrite E2 in Hf. apply Forall_app in Hf. destruct Hf as [_ Hf]. inversion Hf; subst. contradiction.
  Qed.

  Notation almp := (alm_panoc Pb prov wm_supplied Clb Cub l1 split dir has_initial stop_req time_up outer_oot PP AP ls_fuel inner_fuel).

  (* the trace of a composed run is an ALM trace: Interrupted only in the last record *)
  Lemma alm_trace_interrupted_last outer_fuel nanv Σ0 y0 x0 co : almp outer_fuel nanv Σ0 y0 x0 = Some co ->
    forall pre rc post, co_trace co = pre ++ rc :: post -> ir_status (it_res rc) = Interrupted ->
      post = [] /\ f_status (co_final co) = Interrupted.
  Proof.
    intros Hrun pre rc post Etr Hi. unfold alm_panoc in Hrun.
    destruct (c_run_spec _ _ _ _ _ _ _ _ _ _ _ _ _ _ Hrun) as (script & Htr & Hfin & Hex & Hcalled & _ & Hne).
    set (pb := pb_of Pb split) in *.
    destruct (Nat.eq_dec (Alm.p_max_iter AP) 0) as [Hmi|Hmi].
    { exfalso. rewrite Htr in Etr. unfold alm_run in Etr. rewrite (proj2 (Nat.eqb_eq _ _) Hmi) in Etr. cbn [fst] in Etr.
      destruct pre; discriminate. }
    destruct (Nat.eq_dec (pb_m pb) 0) as [Hm|Hm].
    { rewrite Htr in Etr. rewrite Hfin. unfold alm_run in *. rewrite (proj2 (Nat.eqb_neq _ _) Hmi), (proj2 (Nat.eqb_eq _ _) Hm) in *.
      destruct script as [|r rest]; cbn [fst snd] in *; [destruct pre; discriminate|].
      destruct pre as [|a pre]; cbn [app] in Etr; [|destruct pre; discriminate].
      inversion Etr; subst. split; [reflexivity|]. cbn [it_res f_status] in *. exact Hi. }
    rewrite Hfin in Hex.
    destruct (run_interrupted_immediate AP pb _ _ nanv Σ0 y0 script Hmi Hm Hex) as (pre' & rl & E1 & Hf & Hst).
    rewrite <- Htr in E1.
    assert (Hf' : Forall (fun a => ir_status (it_res a) <> Interrupted) pre') by (eapply Forall_impl; [|exact Hf]; intros a [Ha _]; exact Ha).
    assert (Hpost : post = []) by (eapply interrupted_is_last; eassumption).
    split; [exact Hpost|]. subst post. rewrite Hfin. apply Hst. left.
    rewrite Etr in E1. apply app_inj_tail in E1. destruct E1 as [_ <-]. exact Hi.
  Qed.

  (* MAIN.  rc = any outer iteration of the run; w / w' = the worlds in which its inner solve started / which it handed on *)
  Theorem alm_panoc_stop_ends_run outer_fuel nanv Σ0 y0 x0 co : almp outer_fuel nanv Σ0 y0 x0 = Some co ->
    forall pre rc post, co_trace co = pre ++ rc :: post ->
    exists (x : list R) (w : counters) (x' : list R) (lg : resR) (w' : counters),
      (* the x buffer and the world in which that inner solve started, and what it returned *)
      called_ x0 cnt0 pre x w /\
      inner_ w (it_i rc) x (it_y rc) (it_Sigma rc) (it_tol rc) (it_err_in rc) = Some (it_res rc, x', lg, w') /\
      (* (A) the request is visible when the inner solve returns: the RUN ends at this outer iteration, no further inner solve *)
      (stop_req w' = true -> run_ends_at AP (pb_of Pb split) pre rc post (co_final co)) /\
      (* (B) it is, when a poll of this inner solve sees the request — and that solve then returns after at most one further poll /
             2 oracle calls / no direction call / no iterate update *)
      (forall pp, inner_polled w x (it_y rc) (it_Sigma rc) (it_tol rc) (it_err_in rc) pp -> stop_req (cadd w (pp_cnt pp)) = true ->
         (exists o, lg = Done o /\ inner_prompt_after (it_tol rc) pp o) /\ stop_req w' = true) /\
      (* (C) it is, when the request was visible before this inner solve started — and that solve is then start-up + ONE stop check *)
      (stop_req w = true -> one_check lg (it_res rc) /\ stop_req w' = true) /\
      (* (D) Interrupted from the inner solver is propagated at once *)
      (ir_status (it_res rc) = Interrupted -> post = [] /\ f_status (co_final co) = Interrupted).
  Proof.
    intros Hrun pre rc post Etr. pose proof Hrun as Hrun'. unfold alm_panoc in Hrun'.
    destruct (c_run_spec _ _ _ _ _ _ _ _ _ _ _ _ _ _ Hrun') as (script & _ & _ & _ & Hcalled & _).
    rewrite Etr in Hcalled. destruct (called_split _ _ _ _ _ _ _ Hcalled) as (x & w & x' & lg & w' & A & B & C).
    exists x, w, x', lg, w'. split; [exact A|]. split; [exact B|].
    split.
    { intros Hs. apply (c_run_stop_ends_run _ _ _ _ _ _ _ _ _ _ _ _ _ _ Hrun' pre rc post Etr).
      rewrite (inner_stop_flag _ _ _ _ _ _ _ _ _ _ _ B). exact Hs. }
    split.
    { intros pp Hp Hs. destruct lg as [o|L|].
      - destruct (inner_request_during _ _ _ _ _ _ _ _ _ _ _ B pp Hp Hs) as [D E]. split; [exists o; split; [reflexivity|exact D]|exact E].
      - (* a solve aborted in the start-up has no poll *)
        exfalso. destruct Hp as (s0 & Hs0 & _).
        unfold inner in B. cbv zeta in B.
        match type of B with context [match ?X with Done _ => _ | NotFiniteL _ => _ | OutOfFuel => _ end] => destruct X as [o1|L1|] eqn:Er end;
          [discriminate| |discriminate].
        exact (panoc_notfinite_no_start _ _ _ _ _ _ _ _ _ _ _ _ _ _ _ _ _ _ _ Er s0 Hs0).
      - destruct (inner_world _ _ _ _ _ _ _ _ _ _ _ B) as (_ & []). }
    split; [intros Hw; exact (inner_after_request _ _ _ _ _ _ _ _ _ _ _ Hw B)|].
    intros Hi; exact (alm_trace_interrupted_last _ _ _ _ _ _ Hrun pre rc post Etr Hi).
  Qed.
End AlmStop.
