(* StopChainProofs.v — theorems about the GENERATED stop-status functions (gen/StopChain.v, translated on every run
   from check_all_stop_conditions in panoc-helpers.tpp and its copy in panoc-ocp.tpp).  (C06, C19) *)
From Coq Require Import Reals ZArith List Bool Arith Lia Lra Floats.
From Alpaqa Require Import Num NumR NumF SolverStatus StopChain.
Import ListNotations.

Section Generic.
  Context {T : Type} `{Num T}.

  Definition eff_tol (opts_tol : T) : T := if nltb n0 opts_tol then opts_tol else default_tolerance_helpers.

  Lemma converged_iff opts_tol eps te it mi np mnp sr :
    stop_status_helpers opts_tol eps te it mi np mnp sr = StConverged <-> nleb eps (eff_tol opts_tol) = true.
  Proof.
    unfold stop_status_helpers, eff_tol. cbv zeta.
    destruct (nleb eps _); [tauto|].
    split; [|discriminate].
    destruct te, (Nat.eqb it mi), (negb (nfinite eps)), (Nat.ltb mnp np), sr; discriminate.
  Qed.

  (* a satisfied tolerance wins over every limit reached at the same moment *)
  Lemma tolerance_wins opts_tol eps te it mi np mnp sr :
    nleb eps (eff_tol opts_tol) = true -> stop_status_helpers opts_tol eps te it mi np mnp sr = StConverged.
  Proof. intros Hc. now apply converged_iff. Qed.

  Lemma maxiter_only_at_limit opts_tol eps te it mi np mnp sr :
    stop_status_helpers opts_tol eps te it mi np mnp sr = StMaxIter -> it = mi.
  Proof.
    unfold stop_status_helpers. cbv zeta. destruct (nleb eps _); [discriminate|].
    destruct te; [discriminate|]. destruct (Nat.eqb_spec it mi); [auto|].
    destruct (negb (nfinite eps)), (Nat.ltb mnp np), sr; discriminate.
  Qed.

  Lemma maxtime_only_if_exceeded opts_tol eps te it mi np mnp sr :
    stop_status_helpers opts_tol eps te it mi np mnp sr = StMaxTime -> te = true.
  Proof.
    unfold stop_status_helpers. cbv zeta. destruct (nleb eps _); [discriminate|].
    destruct te; [auto|]. destruct (Nat.eqb it mi), (negb (nfinite eps)), (Nat.ltb mnp np), sr; discriminate.
  Qed.

  Lemma notfinite_only_nonfinite opts_tol eps te it mi np mnp sr :
    stop_status_helpers opts_tol eps te it mi np mnp sr = StNotFinite -> nfinite eps = false.
  Proof.
    unfold stop_status_helpers. cbv zeta. destruct (nleb eps _); [discriminate|].
    destruct te; [discriminate|]. destruct (Nat.eqb it mi); [discriminate|].
    destruct (nfinite eps); [|auto]. cbn [negb]. destruct (Nat.ltb mnp np), sr; discriminate.
  Qed.

  Lemma noprogress_only_above_limit opts_tol eps te it mi np mnp sr :
    stop_status_helpers opts_tol eps te it mi np mnp sr = StNoProgress -> (mnp < np)%nat.
  Proof.
    unfold stop_status_helpers. cbv zeta. destruct (nleb eps _); [discriminate|].
    destruct te; [discriminate|]. destruct (Nat.eqb it mi); [discriminate|].
    destruct (negb (nfinite eps)); [discriminate|].
    destruct (Nat.ltb_spec mnp np); [auto|]. destruct sr; discriminate.
  Qed.

  Lemma interrupted_only_if_requested opts_tol eps te it mi np mnp sr :
    stop_status_helpers opts_tol eps te it mi np mnp sr = StInterrupted -> sr = true.
  Proof.
    unfold stop_status_helpers. cbv zeta. destruct (nleb eps _); [discriminate|].
    destruct te; [discriminate|]. destruct (Nat.eqb it mi); [discriminate|].
    destruct (negb (nfinite eps)); [discriminate|]. destruct (Nat.ltb mnp np); [discriminate|].
    destruct sr; [auto|discriminate].
  Qed.

  (* a stop request always ends the solve at the next check: the status is never Busy *)
  Lemma stop_request_never_busy opts_tol eps te it mi np mnp :
    stop_status_helpers opts_tol eps te it mi np mnp true <> StBusy.
  Proof.
    unfold stop_status_helpers. cbv zeta.
    destruct (nleb eps _), te, (Nat.eqb it mi), (negb (nfinite eps)), (Nat.ltb mnp np); discriminate.
  Qed.

  Lemma busy_iff opts_tol eps te it mi np mnp sr :
    stop_status_helpers opts_tol eps te it mi np mnp sr = StBusy <->
    nleb eps (eff_tol opts_tol) = false /\ te = false /\ it <> mi /\ nfinite eps = true /\ (np <= mnp)%nat /\ sr = false.
  Proof.
    unfold stop_status_helpers, eff_tol. cbv zeta.
    destruct (nleb eps _); [split; [discriminate|intros (?&_); discriminate]|].
    destruct te; [split; [discriminate|intros (_&?&_); discriminate]|].
    destruct (Nat.eqb_spec it mi); [split; [discriminate|intros (_&_&?&_); contradiction]|].
    destruct (nfinite eps); cbn [negb]; [|split; [discriminate|intros (_&_&_&?&_); discriminate]].
    destruct (Nat.ltb_spec mnp np); [split; [discriminate|intros (_&_&_&_&?&_); lia]|].
    destruct sr; [split; [discriminate|intros (_&_&_&_&_&?); discriminate]|].
    split; auto. intros _. repeat split; auto.
  Qed.

  (* the OCP solver's private copy decides exactly like the shared helper *)
  Lemma ocp_chain_same opts_tol eps te it mi np mnp sr :
    stop_status_ocp opts_tol eps te it mi np mnp sr = stop_status_helpers opts_tol eps te it mi np mnp sr.
  Proof. reflexivity. Qed.
End Generic.

(* documented precedence of the statuses *)
Lemma chain_order_documented :
  chain_order_helpers = [StConverged; StMaxTime; StMaxIter; StNotFinite; StNoProgress; StInterrupted] /\
  chain_order_ocp = chain_order_helpers.
Proof. split; reflexivity. Qed.

(* default tolerance: opts.tolerance <= 0 selects 1e-8 *)
Lemma default_tolerance_R (opts_tol : R) : (opts_tol <= 0)%R -> eff_tol opts_tol = (1 / 10 ^ 8)%R.
Proof.
  intros Hle. unfold eff_tol, default_tolerance_helpers. numR. rbool; [lra|].
  change (10 ^ 8)%Z with 100000000%Z. simpl IZR. lra.
Qed.

(* ---------- at binary64: a non-finite residual is never reported as Converged ---------- *)
Definition sf_finite (x : spec_float) : bool :=
  match x with S754_zero _ | S754_finite _ _ _ => true | _ => false end.

Lemma SFleb_finite (se st : spec_float) :
  sf_finite st = true -> SFleb se st = true -> sf_finite se = true \/ se = S754_infinity true.
Proof.
  destruct se as [s|[|]| |s m e]; intros Ht Hl; auto.
  all: destruct st as [s'|[|]| |s' m' e']; try discriminate Ht; try destruct s'; discriminate Hl.
Qed.

Lemma SFcompare_refl_finite s m e : SFcompare (S754_finite s m e) (S754_finite s m e) = Some Eq.
Proof.
  unfold SFcompare. destruct s; rewrite Z.compare_refl, ?Pos.compare_refl; cbn; rewrite ?Pos.compare_refl; reflexivity.
Qed.

Lemma f_finite_spec (x : float) : f_finite x = sf_finite (Prim2SF x).
Proof.
  unfold f_finite. rewrite eqb_spec, ltb_spec, abs_spec.
  change (Prim2SF infinity) with (S754_infinity false).
  destruct (Prim2SF x) as [s|s| |s m e]; try reflexivity.
  - destruct s; reflexivity.
  - unfold SFeqb. rewrite SFcompare_refl_finite. reflexivity.
Qed.

Lemma leb_finite_tol_implies_finite_or_neginf (eps tol : float) :
  f_finite tol = true -> PrimFloat.leb eps tol = true ->
  f_finite eps = true \/ Prim2SF eps = S754_infinity true.
Proof.
  rewrite !f_finite_spec, leb_spec. apply SFleb_finite.
Qed.

(* Converged at binary64 => the residual is finite, or -inf (impossible for a norm) *)
Lemma nonfinite_never_converged_F (opts_tol eps : float) te it mi np mnp sr :
  f_finite opts_tol = true ->
  stop_status_helpers (T:=float) opts_tol eps te it mi np mnp sr = StConverged ->
  f_finite eps = true \/ Prim2SF eps = S754_infinity true.
Proof.
  intros Hf Hc. apply converged_iff in Hc.
  apply (leb_finite_tol_implies_finite_or_neginf eps (eff_tol opts_tol)); [|exact Hc].
  unfold eff_tol. destruct (nltb n0 opts_tol); [exact Hf|]. reflexivity.
Qed.
