(* StopPromptFista.v — C19 on the WHOLE-LOOP FISTA model (FistaLoop.v).  For every number system, oracle and parameter set.
   FISTA polls the flag ONCE per iteration (check_all_stop_conditions, after the prox step / backtracking of that iteration);
   its backtracking loop `while (L < L_max && qub_violated)` has no stop test.  So
     - a poll that sees the request returns at once: at most ONE further oracle call (the late eval_ψ(x̂) of the exit block, only
       in fixed-step mode when the criterion does not need ∇ψ(x̂)), the final callback, *curr untouched (x, x̂, p, γ, L);
     - a request that lands between two polls is seen after the pass in progress has completed: one pass costs at most
       4 oracle calls + the step-size halvings of its backtracking loop (fpass_cont_adv) — not a constant: the loop is unpolled. *)
From Coq Require Import List ZArith Bool Arith Lia.
From Alpaqa Require Import Num Vec Prox SolverStatus SolverKernels StopChain StopChainProofs FistaGen FistaLoop StopPrompt.
Import ListNotations.

Definition fcnt_le (a b : fcounters) : Prop :=
  (fc_polls a <= fc_polls b /\ fc_pg a <= fc_pg b /\ fc_py a <= fc_py b /\ fc_gl a <= fc_gl b /\ fc_gpsi a <= fc_gpsi b /\
   fc_cb a <= fc_cb b)%nat.
Definition fevals (c : fcounters) : nat := (fc_pg c + fc_py c + fc_gl c + fc_gpsi c)%nat.
Definition fsticky (stop_req : fcounters -> bool) : Prop :=
  forall c c', fcnt_le c c' -> stop_req c = true -> stop_req c' = true.

Ltac fcnt_unfold :=
  unfold fcnt_le, fevals, finc_polls, finc_pg, finc_py, finc_gl, finc_gpsi, finc_cb, fcnt0 in *;
  cbn [fc_polls fc_pg fc_py fc_gl fc_gpsi fc_cb] in *.
Ltac fcnt_solve := fcnt_unfold; lia.

Section PromptF.
  Context {T : Type} `{Num T}.
  Local Open Scope num_scope.

  Variable psi_grad : fcounters -> list T -> T * list T.
  Variable psi_yhat : fcounters -> list T -> T * list T.
  Variable grad_L : fcounters -> list T -> list T -> list T.
  Variable grad_psi : fcounters -> list T -> list T.
  Variables (lb ub : list (option T)) (l1 : list T).
  Variable stop_req : fcounters -> bool.
  Variable time_up : fcounters -> bool.
  Variable P : fparams (T:=T).
  Variables (x_in y_in Σ errz_in : list T).
  Variable bt_fuel : nat.

  Notation fstT := (fstate (T:=T)).
  Notation fitT := (fiter (T:=T)).
  Notation fbt := (fbacktrack psi_yhat lb ub l1 P).
  Notation fstep := (fpass_step psi_yhat grad_L lb ub l1 P bt_fuel).
  Notation fpass_ := (fpass psi_grad psi_yhat grad_L grad_psi lb ub l1 stop_req time_up P x_in y_in Σ errz_in bt_fuel).
  Notation floop_ := (floop psi_grad psi_yhat grad_L grad_psi lb ub l1 stop_req time_up P x_in y_in Σ errz_in bt_fuel).
  Notation fista_ := (fista psi_grad psi_yhat grad_L grad_psi lb ub l1 stop_req time_up P x_in y_in Σ errz_in bt_fuel).
  Notation fexit_ := (fexit psi_yhat P x_in y_in Σ errz_in).
  Notation fcont_ := (fcont psi_grad grad_psi P).
  Notation finitL := (finit_L psi_grad grad_psi P x_in).

  Definition fpoll_status (s : fstT) (curr : fitT) (c5 : fcounters) : status :=
    stop_status_helpers (fp_tol P) (fit_eps lb ub l1 P curr) (time_up c5) (fs_k s) (fp_max_iter P) (fnp P s curr)
                        (fp_max_no_progress P) (stop_req c5).

  Lemma fpass_eq s : fpass_ s = match fstep s with
                                | None => FFuel
                                | Some (curr, c5, bt) =>
                                    match fpoll_status s curr c5 with
                                    | StBusy => FCont (fcont_ s curr (finc_polls c5) bt (fnp P s curr) (fit_eps lb ub l1 P curr))
                                    | st => FExit (fexit_ s curr (finc_polls c5) bt (fit_eps lb ub l1 P curr) st)
                                    end
                                end.
  Proof.
    unfold fpass, fpoll_status. destruct (fstep s) as [[[curr c5] bt]|]; [|reflexivity]. cbv zeta.
    match goal with |- context [stop_status_helpers ?a ?b ?c ?d ?e ?f ?g ?h] => destruct (stop_status_helpers a b c d e f g h) end;
      reflexivity.
  Qed.

  (* same x, x̂, p, γ, L, ψ(x), ∇ψ(x): everything but ψ(x̂), ŷ, which the exit block may fill in late *)
  Definition fsame_point (a b : fitT) : Prop :=
    jx a = jx b /\ jxh a = jxh b /\ jp a = jp b /\ jgrad a = jgrad b /\ jgradh a = jgradh b /\ jpsi a = jpsi b /\ jgam a = jgam b /\
    jL a = jL b /\ jpp a = jpp b /\ jgp a = jgp b /\ jh a = jh b.

  Lemma fexit_facts s curr c6 bt ε st :
    let o := fexit_ s curr c6 bt ε st in
    fo_status o = st /\ fo_iterations o = fs_k s /\ fo_eps o = ε /\ fo_bt o = bt /\
    fcnt_le c6 (fo_cnt o) /\ fc_polls (fo_cnt o) = fc_polls c6 /\ fc_cb (fo_cnt o) = S (fc_cb c6) /\
    (fevals (fo_cnt o) <= fevals c6 + 1)%nat /\
    fsame_point curr (fo_final o) /\
    (overwrites st (fp_always P) = true -> fo_x o = jxh curr) /\
    (overwrites st (fp_always P) = false -> fo_x o = x_in /\ fo_y o = y_in /\ fo_errz o = errz_in).
  Proof.
    unfold fexit. cbv zeta. cbn [fo_status fo_iterations fo_eps fo_bt fo_cnt fo_final fo_x fo_y fo_errz].
    set (late := ffixed P && negb (fneed P)).
    assert (Exh : jxh (if late then feval_psih psi_yhat (finc_cb c6) curr else curr) = jxh curr) by (destruct late; reflexivity).
    unfold exit_block. rewrite Exh.
    repeat (split; [reflexivity|]).
    split; [destruct late; fcnt_solve|]. split; [destruct late; fcnt_solve|]. split; [destruct late; fcnt_solve|].
    split; [destruct late; fcnt_solve|]. split; [destruct late; repeat split|].
    destruct (overwrites st (fp_always P)); cbn [fst snd]; split; try discriminate; intros _; repeat split.
  Qed.

  (* the stop check that sees the request returns *)
  Theorem fpass_exit_at_request s curr c5 bt : fstep s = Some (curr, c5, bt) -> stop_req c5 = true ->
    fpass_ s = FExit (fexit_ s curr (finc_polls c5) bt (fit_eps lb ub l1 P curr) (fpoll_status s curr c5)) /\
    fpoll_status s curr c5 <> StBusy /\ exit_statuses (fpoll_status s curr c5) /\
    (fpoll_status s curr c5 = StInterrupted <->
       (nleb (fit_eps lb ub l1 P curr) (eff_tol (fp_tol P)) = false /\ time_up c5 = false /\ fs_k s <> fp_max_iter P /\
        nfinite (fit_eps lb ub l1 P curr) = true /\ (fnp P s curr <= fp_max_no_progress P)%nat)).
  Proof.
    intros Es E. rewrite fpass_eq, Es. unfold fpoll_status. rewrite E.
    destruct (chain_with_request (fp_tol P) (fit_eps lb ub l1 P curr) (time_up c5) (fs_k s) (fp_max_iter P) (fnp P s curr)
                (fp_max_no_progress P)) as (A & B & C).
    cbv zeta in A, B, C. split; [|split; [exact A|split; [exact B|exact C]]].
    destruct (stop_status_helpers _ _ _ _ _ _ _ true); [contradiction|reflexivity..].
  Qed.

  Record fpollpt := mkFPP { fpp_cnt : fcounters; fpp_curr : fitT; fpp_k : nat }.
  Inductive fpolled_from : fstT -> fpollpt -> Prop :=
  | fpf_top s curr c5 bt : fstep s = Some (curr, c5, bt) -> fpolled_from s (mkFPP c5 curr (fs_k s))
  | fpf_next s s' pp : fpass_ s = FCont s' -> fpolled_from s' pp -> fpolled_from s pp.

  Definition fprompt_after (pp : fpollpt) (o : foutputs (T:=T)) : Prop :=
    fo_status o <> StBusy /\ exit_statuses (fo_status o) /\
    fcnt_le (fpp_cnt pp) (fo_cnt o) /\ fc_polls (fo_cnt o) = S (fc_polls (fpp_cnt pp)) /\       (* no further poll *)
    (fevals (fo_cnt o) <= fevals (fpp_cnt pp) + 1)%nat /\ fc_cb (fo_cnt o) = S (fc_cb (fpp_cnt pp)) /\
    fo_iterations o = fpp_k pp /\ fsame_point (fpp_curr pp) (fo_final o) /\
    (overwrites (fo_status o) (fp_always P) = true -> fo_x o = jxh (fpp_curr pp)).

  Theorem floop_stop_prompt : forall fuel s o, floop_ fuel s = FDone o ->
    forall pp, fpolled_from s pp -> stop_req (fpp_cnt pp) = true -> fprompt_after pp o.
  Proof.
    induction fuel as [|fuel IH]; intros s o Hr pp Hp Hs; [discriminate|]. cbn [floop] in Hr.
    destruct Hp as [s curr c5 bt Es|s s' pp Ep Hp'].
    - cbn [fpp_cnt] in Hs. destruct (fpass_exit_at_request s curr c5 bt Es Hs) as (Ep & B & C & _). rewrite Ep in Hr. inversion Hr; subst o.
      destruct (fexit_facts s curr (finc_polls c5) bt (fit_eps lb ub l1 P curr) (fpoll_status s curr c5))
        as (F1 & F2 & F3 & F4 & F5 & F6 & F7 & F8 & F9 & F10 & F11). cbv zeta in *.
      unfold fprompt_after. cbn [fpp_cnt fpp_curr fpp_k]. rewrite F1, F2.
      split; [exact B|]. split; [exact C|]. split; [fcnt_solve|]. split; [fcnt_solve|]. split; [fcnt_solve|]. split; [fcnt_solve|].
      split; [reflexivity|]. split; [exact F9|exact F10].
    - rewrite Ep in Hr. exact (IH s' o Hr pp Hp' Hs).
  Qed.

  (* ------------------------------------------------------------------ the cost of the pass in progress *)
  Lemma fbt_cnt : forall fuel i c bt ch i' c' bt' ch', fbt fuel i c bt ch = Some (i', c', bt', ch') ->
    fcnt_le c c' /\ fc_polls c' = fc_polls c /\ fc_cb c' = fc_cb c /\ (fevals c' + bt = fevals c + bt')%nat /\ (bt <= bt')%nat.
  Proof.
    induction fuel as [|fuel IH]; intros i c bt ch i' c' bt' ch'; cbn [fbacktrack]; destruct (fit_backtrack P i); try discriminate.
    1,3: intros E; inversion E; subst; fcnt_unfold; repeat split; lia.
    intros E. destruct (IH _ _ _ _ _ _ _ _ E) as (A1 & A2 & A3 & A4 & A5). fcnt_unfold; repeat split; lia.
  Qed.

  (* from the top of a pass to its stop check: no poll, no callback, <= 3 oracle calls + this pass' step-size halvings *)
  Lemma fstep_cnt s curr c5 bt : fstep s = Some (curr, c5, bt) ->
    fcnt_le (fs_cnt s) c5 /\ fc_polls c5 = fc_polls (fs_cnt s) /\ fc_cb c5 = fc_cb (fs_cnt s) /\
    (fevals c5 + fs_bt s <= fevals (fs_cnt s) + bt + 3)%nat /\ (fs_bt s <= bt)%nat.
  Proof.
    unfold fpass_step. cbv zeta.
    match goal with |- context [fbt bt_fuel ?i ?c ?b false] => destruct (fbt bt_fuel i c b false) as [[[[i4 c4] bt4] ch]|] eqn:Eb; [|discriminate] end.
    destruct (fbt_cnt _ _ _ _ _ _ _ _ _ Eb) as (A1 & A2 & A3 & A4 & A5).
    intros E. inversion E; subst; clear E.
    destruct (negb (ffixed P) || fneed P); destruct (fneed P); destruct ch; cbn [andb] in *; fcnt_unfold; repeat split; lia.
  Qed.

  (* one whole pass that ends Busy: one poll, one callback, <= 4 oracle calls + this pass' step-size halvings *)
  Theorem fpass_cont_adv s s' : fpass_ s = FCont s' ->
    fcnt_le (fs_cnt s) (fs_cnt s') /\ fc_polls (fs_cnt s') = S (fc_polls (fs_cnt s)) /\ fc_cb (fs_cnt s') = S (fc_cb (fs_cnt s)) /\
    (fevals (fs_cnt s') + fs_bt s <= fevals (fs_cnt s) + fs_bt s' + 4)%nat /\ fs_k s' = S (fs_k s).
  Proof.
    rewrite fpass_eq. destruct (fstep s) as [[[curr c5] bt]|] eqn:Es; [|discriminate].
    destruct (fstep_cnt _ _ _ _ Es) as (A1 & A2 & A3 & A4 & A5).
    destruct (fpoll_status s curr c5); try discriminate. intros E. inversion E; subst s'; clear E.
    unfold fcont. cbv zeta. cbn [fs_cnt fs_bt fs_k]. destruct (ffixed P); fcnt_unfold; repeat split; lia.
  Qed.

  (* ------------------------------------------------------------------ operator() *)
  Definition fista_start (s0 : fstT) : Prop :=
    exists i0 c0, finitL = (i0, c0) /\ nfinite (jL i0) = true /\
      s0 = mkFSt (fset_gamma_L i0 (gamma_of_L (fp_Lgamma P) (jL i0)) (jL i0)) 0 n1 0 c0 0 [].
  Definition fista_polled (pp : fpollpt) : Prop := exists s0, fista_start s0 /\ fpolled_from s0 pp.

  Lemma fista_done_start fuel o : fista_ fuel = FDone o -> exists s0, fista_start s0 /\ floop_ fuel s0 = FDone o.
  Proof.
    unfold fista. destruct finitL as [i0 c0] eqn:E0. destruct (nfinite (jL i0)) eqn:Ef; cbn [negb]; [|discriminate].
    intros Hr. eexists. split; [|exact Hr]. exists i0, c0. repeat split; assumption.
  Qed.

  Theorem fista_stop_prompt fuel o : fista_ fuel = FDone o ->
    forall pp, fista_polled pp -> stop_req (fpp_cnt pp) = true -> fprompt_after pp o.
  Proof.
    intros Hr pp (s0 & Hs0 & Hp) Hs. destruct (fista_done_start fuel o Hr) as (s0' & Hs0' & Hl).
    assert (s0' = s0).
    { destruct Hs0 as (i0 & c0 & E0 & _ & ->). destruct Hs0' as (i0' & c0' & E0' & _ & ->).
      rewrite E0 in E0'. inversion E0'; subst. reflexivity. }
    subst s0'. exact (floop_stop_prompt fuel s0 o Hl pp Hp Hs).
  Qed.

  Lemma finit_L_cnt : let c := snd finitL in fc_polls c = 0%nat /\ fc_cb c = 0%nat /\ (fevals c <= 2)%nat.
  Proof. unfold finit_L. cbv zeta. destruct (ffixed P); [|destruct (fp_L0 P <=? n0)]; cbn [snd]; fcnt_unfold; repeat split; lia. Qed.

  Hypothesis Hsticky : fsticky stop_req.

  (* request visible before the solve starts: start-up, ONE pass up to its stop check, exit *)
  Theorem fista_stop_before_start fuel o : fista_ fuel = FDone o -> stop_req fcnt0 = true ->
    fo_status o <> StBusy /\ exit_statuses (fo_status o) /\ fo_iterations o = 0%nat /\
    fc_polls (fo_cnt o) = 1%nat /\ fc_cb (fo_cnt o) = 1%nat /\ (fevals (fo_cnt o) <= 6 + fo_bt o)%nat.
  Proof.
    intros Hr H0. destruct (fista_done_start fuel o Hr) as (s0 & (i0 & c0 & E0 & _ & ->) & Hl).
    pose proof finit_L_cnt as A. cbv zeta in A. rewrite E0 in A. cbn [snd] in A. destruct A as (A1 & A2 & A3).
    destruct fuel as [|fuel]; [discriminate|]. cbn [floop] in Hl.
    set (s0 := mkFSt _ 0 n1 0 c0 0 []) in *.
    destruct (fstep s0) as [[[curr c5] bt]|] eqn:Es; [|rewrite fpass_eq, Es in Hl; discriminate].
    destruct (fstep_cnt _ _ _ _ Es) as (B1 & B2 & B3 & B4 & B5). subst s0. cbn [fs_cnt fs_bt] in *.
    assert (Hs : stop_req c5 = true) by (apply (Hsticky fcnt0); [fcnt_solve|exact H0]).
    destruct (fpass_exit_at_request _ curr c5 bt Es Hs) as (Ep & B & C & _). rewrite Ep in Hl. inversion Hl; subst o.
    match goal with |- context [fexit_ ?s ?cu ?c ?b ?e ?st] => destruct (fexit_facts s cu c b e st) as (F1 & F2 & F3 & F4 & F5 & F6 & F7 & F8 & _) end.
    cbv zeta in *. rewrite F1, F2, F4. cbn [fs_k].
    split; [exact B|]. split; [exact C|]. split; [reflexivity|]. fcnt_unfold. repeat split; lia.
  Qed.
End PromptF.
