(* ParamTablesProofs.v — finite theorems over the GENERATED tables (coq/gen/ParamTables.v): closed by computation,
   lifted from the boolean checks of Params.v to quantified statements. The bound is the table itself. *)
From Coq Require Import String Ascii List ZArith Bool Arith Lia.
From Alpaqa Require Import Params ParamTables.
Import ListNotations.
Local Open Scope string_scope.

Definition keys_of (s : string) : list string := map fst (lookup_list s table_entries).
Definition enum_names_of (s : string) : list string := map fst (lookup_list s enum_table_entries).

Lemma str_in_In : forall s l, str_in s l = true -> In s l.
Proof.
  unfold str_in. intros s l H. apply existsb_exists in H. destruct H as (x & Hx & E).
  apply String.eqb_eq in E. now subst.
Qed.
Lemma In_str_in : forall s l, In s l -> str_in s l = true.
Proof. unfold str_in. intros. apply existsb_exists. exists s. split; auto. apply String.eqb_refl. Qed.
Lemma pair_in_In : forall x l, pair_in x l = true -> In x l.
Proof.
  unfold pair_in. intros [a b] l H. apply existsb_exists in H. destruct H as ([c d] & Hx & E).
  simpl in E. apply andb_true_iff in E. destruct E as [E1 E2].
  apply String.eqb_eq in E1. apply String.eqb_eq in E2. now subst.
Qed.
Lemma missing_in_complete : forall decl tables s fs f,
  In (s, fs) decl -> In f fs ->
  In f (map fst (lookup_list s tables)) \/ In (s, f) (missing_in decl tables).
Proof.
  intros. destruct (str_in f (map fst (lookup_list s tables))) eqn:E.
  - left. now apply str_in_In.
  - right. unfold missing_in. apply in_flat_map. exists (s, fs). split; auto. simpl.
    apply in_map. apply filter_In. split; auto. now rewrite E.
Qed.
Lemma missing_in_sound : forall decl tables s f,
  In (s, f) (missing_in decl tables) -> ~ In f (map fst (lookup_list s tables)).
Proof.
  unfold missing_in. intros decl tables s f H. apply in_flat_map in H. destruct H as ([s' fs] & _ & H). simpl in H.
  apply in_map_iff in H. destruct H as (f' & E & H). inversion E; subst. apply filter_In in H. destruct H as [_ H].
  intro C. apply In_str_in in C. rewrite C in H. discriminate.
Qed.
Lemma nodupb_NoDup : forall l, nodupb l = true -> NoDup l.
Proof.
  induction l; simpl; intros H; constructor.
  - apply andb_true_iff in H. destruct H as [H _]. intro C. apply In_str_in in C. rewrite C in H. discriminate.
  - apply andb_true_iff in H. destruct H as [_ H]. auto.
Qed.

(* ---- fields: every field declared in a header has a key ---- *)
Lemma fields_gap_check : missing_in header_fields table_entries = [].
Proof. vm_compute. reflexivity. Qed.

Theorem every_field_registered : forall s fs f,
  In (s, fs) header_fields -> In f fs -> In f (keys_of s).
Proof.
  intros s fs f H1 H2. destruct (missing_in_complete _ table_entries _ _ _ H1 H2) as [H|H]; [exact H|].
  rewrite fields_gap_check in H. contradiction.
Qed.

(* ---- enumerators: every (non-deprecated) enumerator of an enum that has an ENUM_TABLE has a name in it ---- *)
Lemma enums_gap_check : missing_in enum_enumerators enum_table_entries = [].
Proof. vm_compute. reflexivity. Qed.

Theorem every_enumerator_registered : forall en es e,
  In (en, es) enum_enumerators -> In e es -> In e (enum_names_of en).
Proof.
  intros s fs f H1 H2. destruct (missing_in_complete _ enum_table_entries _ _ _ H1 H2) as [H|H]; [exact H|].
  rewrite enums_gap_check in H. contradiction.
Qed.

(* ---- keys unique, bound to the member of the same name, member declared ---- *)
Lemma keys_unique_check : all_keys_unique table_entries && all_keys_unique enum_table_entries = true.
Proof. vm_compute. reflexivity. Qed.
Theorem keys_unique : forall s t, In (s, t) table_entries \/ In (s, t) enum_table_entries -> NoDup (map fst t).
Proof.
  pose proof keys_unique_check as G. apply andb_true_iff in G. destruct G as [G1 G2].
  unfold all_keys_unique in *. rewrite forallb_forall in G1, G2.
  intros s t [H|H]; apply nodupb_NoDup; [apply (G1 _ H)|apply (G2 _ H)].
Qed.

Lemma same_member_check :
  all_keys_same_member table_entries && all_keys_same_member enum_table_entries
  && all_targets_declared header_fields table_entries = true.
Proof. vm_compute. reflexivity. Qed.
Theorem key_bound_to_same_named_member : forall s t k m,
  In (s, t) table_entries -> In (k, m) t -> k = m /\ In m (lookup_list s header_fields).
Proof.
  pose proof same_member_check as G. apply andb_true_iff in G. destruct G as [G G3].
  apply andb_true_iff in G. destruct G as [G1 _].
  unfold all_keys_same_member, all_targets_declared in *. rewrite forallb_forall in G1, G3.
  intros s t k m H1 H2. split.
  - specialize (G1 _ H1). simpl in G1. rewrite forallb_forall in G1. specialize (G1 _ H2). now apply String.eqb_eq in G1.
  - specialize (G3 _ H1). simpl in G3. rewrite forallb_forall in G3. specialize (G3 _ H2). now apply str_in_In in G3.
Qed.
Theorem enum_name_bound_to_same_enumerator : forall s t k m,
  In (s, t) enum_table_entries -> In (k, m) t -> k = m.
Proof.
  pose proof same_member_check as G. apply andb_true_iff in G. destruct G as [G _].
  apply andb_true_iff in G. destruct G as [_ G2].
  unfold all_keys_same_member in *. rewrite forallb_forall in G2.
  intros s t k m H1 H2. specialize (G2 _ H1). simpl in G2. rewrite forallb_forall in G2. specialize (G2 _ H2).
  now apply String.eqb_eq in G2.
Qed.

Lemma aliases_check : aliases_ok table_entries alias_entries = true.
Proof. vm_compute. reflexivity. Qed.
Theorem aliases_point_to_fields : forall s t a k,
  In (s, t) alias_entries -> In (a, k) t -> In k (keys_of s) /\ ~ In a (keys_of s).
Proof.
  pose proof aliases_check as G. unfold aliases_ok in G. rewrite forallb_forall in G.
  intros s t a k H1 H2. specialize (G _ H1). simpl in G. rewrite forallb_forall in G. specialize (G _ H2). simpl in G.
  apply andb_true_iff in G. destruct G as [Ga Gb]. split; [now apply str_in_In|].
  intro C. apply In_str_in in C. unfold keys_of in C. rewrite C in Gb. discriminate.
Qed.

(* ---- the schema trees the model runs on bind every key to the header position of the member with the key's name ---- *)
Lemma index_of_nth : forall s l i, index_of s l = Some i -> nth_error l i = Some s.
Proof.
  induction l; simpl; intros i H; [discriminate|].
  destruct (String.eqb s a) eqn:E.
  - inversion H; subst. apply String.eqb_eq in E. now subst.
  - destruct (index_of s l); [|discriminate]. inversion H; subst. simpl. auto.
Qed.
Lemma schemas_check : forallb (schema_binds_by_name header_fields) schemas = true.
Proof. vm_compute. reflexivity. Qed.
Theorem schema_keys_address_same_named_field : forall s sch,
  In (s, sch) schemas ->
  exists tbl, sch = SStruct s tbl /\
              forall k i sub, In (k, (i, sub)) tbl -> nth_error (lookup_list s header_fields) i = Some k.
Proof.
  pose proof schemas_check as G. rewrite forallb_forall in G.
  intros s sch H. specialize (G _ H). unfold schema_binds_by_name in G. simpl in G.
  destruct sch as [t|n tbl]; [discriminate|]. apply andb_true_iff in G. destruct G as [G1 G2].
  apply String.eqb_eq in G1. subst. exists tbl. split; auto.
  intros k i sub Hin. rewrite forallb_forall in G2. specialize (G2 _ Hin). simpl in G2.
  destruct (index_of k (lookup_list s header_fields)) eqn:E; [|discriminate].
  apply Nat.eqb_eq in G2. subst. now apply index_of_nth.
Qed.
