(* AugLag.v — model of the augmented-Lagrangian evaluations of the problem interface (C04).
   Sources: implementation/problem/type-erased-problem.tpp (calc_ŷ_dᵀŷ, default_eval_xxx),
            problem/type-erased-problem.hpp (ProblemVTable: optional entries default to compositions),
            util/required-method.hpp (ALPAQA_TE_OPTIONAL_METHOD: a member is installed in the vtable iff it
            exists and its provides_* returns true), problem/box-constr-problem.hpp (eval_proj_diff_g).
   The vtable is modelled by `prov : fn -> bool` (which optional members the problem supplies); every
   evaluation is a computation in a writer monad whose log is the sequence of USER functions invoked.
   Second part: the closed forms (the definition the property refers to).  No proofs here. *)
From Coq Require Import List ZArith Bool.
From Alpaqa Require Import Num Vec Prox.
Import ListNotations.

(* user-supplied member functions that can appear in the call log *)
Inductive fn :=
| Ff | Fgrad_f | Fg | Fgrad_g_prod | Fproj_diff_g                               (* required *)
| Ff_grad_f | Ff_g | Fgrad_f_grad_g_prod | Fgrad_L | Fpsi | Fgrad_psi | Fpsi_grad_psi   (* optional, combined *)
| Fhess_L_prod | Fhess_psi_prod.                                                (* optional, second order *)

Definition fn_code (c : fn) : nat :=
  match c with
  | Ff => 0 | Fgrad_f => 1 | Fg => 2 | Fgrad_g_prod => 3 | Fproj_diff_g => 4
  | Ff_grad_f => 5 | Ff_g => 6 | Fgrad_f_grad_g_prod => 7 | Fgrad_L => 8
  | Fpsi => 9 | Fgrad_psi => 10 | Fpsi_grad_psi => 11 | Fhess_L_prod => 12 | Fhess_psi_prod => 13
  end.
Definition fn_optional (c : fn) : bool := Nat.leb 5 (fn_code c).
(* provider mask from an integer: bit k <-> optional function with code 5+k *)
Definition prov_of_bits (bits : nat) (c : fn) : bool :=
  if fn_optional c then Nat.testbit bits (fn_code c - 5) else true.

(* ProblemWithCounters<Problem> forwards provides_X() only where the wrapped class has that member; its
   provides_eval_hess_ψ_prod is declared under `requires { p.provides_eval_hess_ψ() }` (problem-with-counters.hpp):
   for a class WITHOUT a provides_eval_hess_ψ member the wrapper has no provides_eval_hess_ψ_prod at all, so
   ALPAQA_TE_OPTIONAL_METHOD installs the wrapper's eval_hess_ψ_prod unconditionally. *)
Definition counters_prov (has_provides_hess_psi : bool) (prov : fn -> bool) (c : fn) : bool :=
  match c with
  | Fhess_psi_prod => if has_provides_hess_psi then prov c else true
  | _ => prov c
  end.

(* writer monad: value + log of user calls *)
Definition M (A : Type) : Type := (A * list fn)%type.
Definition ret {A} (a : A) : M A := (a, []).
Definition bind {A B} (m : M A) (k : A -> M B) : M B :=
  (fst (k (fst m)), snd m ++ snd (k (fst m))).
Definition call {A} (c : fn) (a : A) : M A := (a, [c]).
Notation "x <- m ;; k" := (bind m (fun x => k)) (at level 61, m at next level, right associativity).

Section AugLag.
  Context {T : Type} `{Num T}.
  Local Open Scope num_scope.

  (* a problem: the four basic functions, the box D, and the optional combined members *)
  Record problem := {
    pf : list T -> T;                                  (* eval_f *)
    pgrad_f : list T -> list T;                        (* eval_grad_f *)
    pg : list T -> list T;                             (* eval_g *)
    pgrad_g_prod : list T -> list T -> list T;         (* eval_grad_g_prod x y = ∇g(x) y *)
    plb : list (option T); pub : list (option T);      (* D (eval_proj_diff_g = projecting difference onto D) *)
    uf_grad_f : list T -> T * list T;
    uf_g : list T -> T * list T;
    ugrad_f_grad_g_prod : list T -> list T -> list T * list T;
    ugrad_L : list T -> list T -> list T;
    upsi : list T -> list T -> list T -> T * list T;          (* (ψ, ŷ) *)
    ugrad_psi : list T -> list T -> list T -> list T;
    upsi_grad_psi : list T -> list T -> list T -> T * list T; (* (ψ, ∇ψ) *)
    uhess_L_prod : list T -> list T -> T -> list T -> list T;             (* x y scale v *)
    uhess_psi_prod : list T -> list T -> list T -> T -> list T -> list T  (* x y Σ scale v *)
  }.

  Variable P : problem.
  Variable prov : fn -> bool.

  (* ---- required members ---- *)
  Definition v_f (x : list T) : M T := call Ff (pf P x).
  Definition v_grad_f (x : list T) : M (list T) := call Fgrad_f (pgrad_f P x).
  Definition v_g (x : list T) : M (list T) := call Fg (pg P x).
  Definition v_grad_g_prod (x y : list T) : M (list T) := call Fgrad_g_prod (pgrad_g_prod P x y).
  Definition v_proj_diff_g (z : list T) : M (list T) := call Fproj_diff_g (projdiff (plb P) (pub P) z).

  (* ---- vtable entries: the user's member if provided, else the default composition ---- *)
  (* default_eval_f_grad_f: grad_f first, then f *)
  Definition te_f_grad_f (x : list T) : M (T * list T) :=
    if prov Ff_grad_f then call Ff_grad_f (uf_grad_f P x)
    else gf <- v_grad_f x ;; fx <- v_f x ;; ret (fx, gf).
  (* default_eval_f_g: g first, then f *)
  Definition te_f_g (x : list T) : M (T * list T) :=
    if prov Ff_g then call Ff_g (uf_g P x)
    else g <- v_g x ;; fx <- v_f x ;; ret (fx, g).
  Definition te_grad_f_grad_g_prod (x y : list T) : M (list T * list T) :=
    if prov Fgrad_f_grad_g_prod then call Fgrad_f_grad_g_prod (ugrad_f_grad_g_prod P x y)
    else gf <- v_grad_f x ;; gg <- v_grad_g_prod x y ;; ret (gf, gg).
  (* default_eval_grad_L: y.size()==0 -> grad_f; else grad_L = grad_f; grad_L += work_n *)
  Definition te_grad_L (x y : list T) : M (list T) :=
    if prov Fgrad_L then call Fgrad_L (ugrad_L P x y)
    else match y with
         | [] => v_grad_f x
         | _ => r <- te_grad_f_grad_g_prod x y ;; ret (vadd (fst r) (snd r))
         end.

  (* calc_ŷ_dᵀŷ: input g(x); returns (dᵀŷ, ŷ).  Σ of size 1 = single shared factor. *)
  Definition calc_yhat_scalar (σ : T) (g y : list T) : M (T * list T) :=
    let ζ := vadd g (vscale (n1 / σ) y) in              (* g_ŷ += (1 / Σ(0)) * y *)
    d <- v_proj_diff_g ζ ;;                              (* d = ζ - Π_D ζ *)
    ret (σ * vdot d d, map (fun di => di * σ) d).        (* Σ(0) * d.dot(d);  g_ŷ *= Σ(0) *)
  Definition calc_yhat_vector (g y Σ : list T) : M (T * list T) :=
    let ζ := vadd g (vdiv y Σ) in                        (* g_ŷ += y.cwiseQuotient(Σ) *)
    d <- v_proj_diff_g ζ ;;
    ret (fold_left nadd (map2 (fun di σi => di * σi * di) d Σ) n0,   (* dᵀŷ += d_i * Σ_i * d_i *)
         map2 (fun di σi => σi * di) d Σ).                           (* ŷ_i = Σ_i * d_i *)
  Definition calc_yhat (g y Σ : list T) : M (T * list T) :=
    match Σ with
    | [σ] => calc_yhat_scalar σ g y                      (* if (Σ.size() == 1) *)
    | _ => calc_yhat_vector g y Σ
    end.

  Definition half : T := n1 / n2.

  (* default_eval_ψ: returns (ψ, ŷ) *)
  Definition te_psi (x y Σ : list T) : M (T * list T) :=
    if prov Fpsi then call Fpsi (upsi P x y Σ)
    else match y with
         | [] => fx <- v_f x ;; ret (fx, [])
         | _ => r <- te_f_g x ;; c <- calc_yhat (snd r) y Σ ;;
                ret (fst r + half * fst c, snd c)
         end.
  (* default_eval_grad_ψ *)
  Definition te_grad_psi (x y Σ : list T) : M (list T) :=
    if prov Fgrad_psi then call Fgrad_psi (ugrad_psi P x y Σ)
    else match y with
         | [] => v_grad_f x
         | _ => g <- v_g x ;; c <- calc_yhat g y Σ ;; te_grad_L x (snd c)
         end.
  (* default_eval_ψ_grad_ψ: returns (ψ, ∇ψ) *)
  Definition te_psi_grad_psi (x y Σ : list T) : M (T * list T) :=
    if prov Fpsi_grad_psi then call Fpsi_grad_psi (upsi_grad_psi P x y Σ)
    else match y with
         | [] => te_f_grad_f x
         | _ => r <- te_f_g x ;; c <- calc_yhat (snd r) y Σ ;; gr <- te_grad_L x (snd c) ;;
                ret (fst r + half * fst c, gr)
         end.
  (* default_eval_hess_ψ_prod: only for m = 0 and a provided eval_hess_L_prod; None = throws not_implemented *)
  Definition te_hess_psi_prod (m : nat) (x y Σ : list T) (scale : T) (v : list T) : M (option (list T)) :=
    if prov Fhess_psi_prod then call Fhess_psi_prod (Some (uhess_psi_prod P x y Σ scale v))
    else if Nat.eqb m 0 && prov Fhess_L_prod then call Fhess_L_prod (Some (uhess_L_prod P x y scale v))
    else ret None.
  Definition supports_hess_psi_prod (m : nat) : bool :=
    prov Fhess_psi_prod || (Nat.eqb m 0 && prov Fhess_L_prod).

  (* ================= closed forms (the definition) ================= *)
  Fixpoint map4 {A B C D E} (f : A -> B -> C -> D -> E)
      (a : list A) (b : list B) (c : list C) (d : list D) : list E :=
    match a, b, c, d with
    | x1 :: a', x2 :: b', x3 :: c', x4 :: d' => f x1 x2 x3 x4 :: map4 f a' b' c' d'
    | _, _, _, _ => []
    end.
  Fixpoint sumr (v : list T) : T := match v with [] => n0 | x :: v' => x + sumr v' end.

  (* penalty vector: a single shared factor stands for the constant vector *)
  Definition expand_sigma (Σ : list T) (m : nat) : list T :=
    match Σ with [σ] => repeat σ m | _ => Σ end.
  (* ζ = g(x) + Σ⁻¹ y *)
  Definition zeta_of (g y Σv : list T) : list T := map3 (fun gi yi σi => gi + yi / σi) g y Σv.
  (* ŷ = Σ (ζ − Π_D ζ) *)
  Definition yhat_of (lb ub : list (option T)) (Σv ζ : list T) : list T :=
    map4 (fun l u σi ζi => σi * projdiff1 l u ζi) lb ub Σv ζ.
  (* dist²_Σ(ζ, D) = Σ_i σ_i (ζ_i − Π ζ_i)² *)
  Definition dist2_of (lb ub : list (option T)) (Σv ζ : list T) : T :=
    sumr (map4 (fun l u σi ζi => σi * (projdiff1 l u ζi * projdiff1 l u ζi)) lb ub Σv ζ).

  Definition zeta_def (x y Σ : list T) : list T := zeta_of (pg P x) y (expand_sigma Σ (length y)).
  Definition yhat_def (x y Σ : list T) : list T :=
    yhat_of (plb P) (pub P) (expand_sigma Σ (length y)) (zeta_def x y Σ).
  Definition psi_def (x y Σ : list T) : T :=
    pf P x + half * dist2_of (plb P) (pub P) (expand_sigma Σ (length y)) (zeta_def x y Σ).
  Definition grad_L_def (x y : list T) : list T := vadd (pgrad_f P x) (pgrad_g_prod P x y).
  Definition grad_psi_def (x y Σ : list T) : list T := grad_L_def x (yhat_def x y Σ).
  Definition dty_def (g y Σ : list T) : T :=
    dist2_of (plb P) (pub P) (expand_sigma Σ (length y)) (zeta_of g y (expand_sigma Σ (length y))).
End AugLag.

(* ================= the concrete problem family used by the correspondence run =================
   f(x) = ½ xᵀQx + cᵀx,  g_j(x) = A_j·x + b_j + ½ w_j xᵀx,  ∇g(x) y = Aᵀy + (wᵀy) x   (At = transpose of A),
   optional members = the closed forms above.  Operation order = harness/drv_C04.cpp. *)
Section Family.
  Context {T : Type} `{Num T}.
  Local Open Scope num_scope.

  Definition q_f (Q : list (list T)) (c x : list T) : T :=
    half * vdot x (map (fun row => vdot row x) Q) + vdot c x.
  Definition q_grad_f (Q : list (list T)) (c x : list T) : list T :=
    map2 (fun row ci => vdot row x + ci) Q c.
  Definition q_g (A : list (list T)) (b w x : list T) : list T :=
    let xx := vdot x x in map3 (fun row bj wj => (vdot row x + bj) + (half * wj) * xx) A b w.
  Definition q_grad_g_prod (At : list (list T)) (w x y : list T) : list T :=
    let s := vdot w y in map2 (fun col xi => vdot col y + s * xi) At x.
  Definition q_hess_L_prod (Q : list (list T)) (w x y : list T) (scale : T) (v : list T) : list T :=
    let s := vdot w y in map2 (fun row vi => scale * vdot row v + s * vi) Q v.

  Definition quad_base Q c A At b w lb ub : problem :=
    {| pf := q_f Q c; pgrad_f := q_grad_f Q c; pg := q_g A b w; pgrad_g_prod := q_grad_g_prod At w;
       plb := lb; pub := ub;
       uf_grad_f := fun _ => (n0, []); uf_g := fun _ => (n0, []);
       ugrad_f_grad_g_prod := fun _ _ => ([], []); ugrad_L := fun _ _ => [];
       upsi := fun _ _ _ => (n0, []); ugrad_psi := fun _ _ _ => [];
       upsi_grad_psi := fun _ _ _ => (n0, []);
       uhess_L_prod := fun _ _ _ _ => []; uhess_psi_prod := fun _ _ _ _ _ => [] |}.

  (* generalized Hessian-vector product of ψ: scale Q v + (wᵀŷ) v + Σ_j [ŷ_j ≠ 0] σ_j (J_j·v) J_j,  J_j = A_j + w_j x *)
  Definition q_hess_psi_prod Q c A At b w lb ub (x y Σ : list T) (scale : T) (v : list T) : list T :=
    let B := quad_base Q c A At b w lb ub in
    let yh := yhat_def B x y Σ in
    let rows := map4 (fun row wj σj yhj => (row, wj, σj, yhj)) A w (expand_sigma Σ (length y)) yh in
    fold_left (fun Hv (r : list T * T * T * T) =>
                 let '(row, wj, σj, yhj) := r in
                 if yhj =? n0 then Hv
                 else let Jj := map2 (fun a xi => a + wj * xi) row x in
                      let jv := vdot Jj v in
                      map2 (fun h Ji => h + (σj * jv) * Ji) Hv Jj)
              rows (q_hess_L_prod Q w x yh scale v).

  Definition quad_problem Q c A At b w lb ub : problem :=
    let B := quad_base Q c A At b w lb ub in
    {| pf := pf B; pgrad_f := pgrad_f B; pg := pg B; pgrad_g_prod := pgrad_g_prod B;
       plb := lb; pub := ub;
       uf_grad_f := fun x => (pf B x, pgrad_f B x);
       uf_g := fun x => (pf B x, pg B x);
       ugrad_f_grad_g_prod := fun x y => (pgrad_f B x, pgrad_g_prod B x y);
       ugrad_L := grad_L_def B;
       upsi := fun x y Σ => (psi_def B x y Σ, yhat_def B x y Σ);
       ugrad_psi := grad_psi_def B;
       upsi_grad_psi := fun x y Σ => (psi_def B x y Σ, grad_psi_def B x y Σ);
       uhess_L_prod := q_hess_L_prod Q w;
       uhess_psi_prod := q_hess_psi_prod Q c A At b w lb ub |}.
End Family.
