(* SolverKernelsProofs.v — theorems over R about SolverKernels.v (C01, C03, C05, C06). *)
From Coq Require Import Reals List ZArith Lra Lia Bool Psatz.
From Flocq Require Import Raux.
From Alpaqa Require Import Num NumR Vec Prox ProxProofs ProxVec SolverStatus SolverKernels.
Import ListNotations.
Local Open Scope R_scope.

Ltac kern := unfold fbe, qub_violated, qub_rhs, ls_violated, ls_rhs, ls_sigma, nhalf1, tr_ratio,
                    zeta1, yhat1, errz1, projdiff1, proj1 in *.
Lemma one_plus_one : 1 + 1 = 2. Proof. lra. Qed.
Ltac fix2 := rewrite ?one_plus_one in *.

(* ================= C05: descent ================= *)

(* leaving the line search with an accelerated step (condition not violated) IS the sufficient decrease *)
Lemma ls_accept_descent β γ L φ pp φnext tol :
  ls_violated false β γ L φ pp φnext tol = false ->
  φnext <= φ - β * (1 - γ * L) / (2 * γ) * pp + (1 + Rabs φ) * tol.
Proof. kern. numR. fix2. rbool; intros; try discriminate; lra. Qed.

(* forced line search: the condition is never tested *)
Lemma ls_forced β γ L φ pp φnext tol : ls_violated true β γ L φ pp φnext tol = false.
Proof. reflexivity. Qed.

(* quadratic upper bound satisfied => cost at x̂ is below the envelope at x by c‖p‖² *)
Lemma qub_safe_step_descent ψx ψxh hxh gp L pp γ tol : 0 < γ ->
  qub_violated ψx ψxh gp L pp tol = false ->
  ψxh + hxh <= fbe ψx hxh pp γ gp - (1 - γ * L) / (2 * γ) * pp + (1 + Rabs ψx) * tol.
Proof.
  intros Hg. kern. numR. fix2. rbool; intros; try discriminate.
  replace (ψx + hxh + pp / (2 * γ) + gp - (1 - γ * L) / (2 * γ) * pp)
    with (ψx + hxh + gp + L / 2 * pp) by (field; lra). lra.
Qed.

(* prox minimality with competitor u = z: the envelope at a feasible point is below the cost there
   (one component; v = z - γ g is the forward point, o the prox output, p = o - z) *)
Lemma fbe_component_le lb ub λ γ z g :
  0 <= λ -> 0 < γ -> lb_ok lb 0 -> ub_ok ub 0 -> in_box lb ub z ->
  let o := proj1 lb ub (l1_prox1 λ γ (z - γ * g)) in
  g * (o - z) + (o - z)² / (2 * γ) + λ * Rabs o <= λ * Rabs z.
Proof.
  intros Hl Hg Hlo Hup Hz o.
  destruct (box_l1_strong_argmin lb ub λ γ (z - γ * g) z Hl Hg Hlo Hup Hz) as [_ Hm]. fold o in Hm. clearbody o.
  unfold obj_l1 in Hm.
  assert (Hsq : 0 <= (z - o)² / (2 * γ)).
  { apply Rmult_le_pos; [apply Rle_0_sqr|left; apply Rinv_0_lt_compat; lra]. }
  assert (E1 : (o - (z - γ * g))² / (2 * γ) = (o - z)² / (2 * γ) + g * (o - z) + γ * g * g / 2)
    by (unfold Rsqr; field; lra).
  assert (E2 : (z - (z - γ * g))² / (2 * γ) = γ * g * g / 2) by (unfold Rsqr; field; lra).
  rewrite E1, E2 in Hm. lra.
Qed.

(* pure projection (no l1 term): arbitrary box *)
Lemma fbe_component_le_box lb ub γ z g :
  0 < γ -> box_ne lb ub -> in_box lb ub z ->
  let o := proj1 lb ub (z - γ * g) in
  g * (o - z) + (o - z)² / (2 * γ) <= 0.
Proof.
  intros Hg Hne Hz o.
  pose proof (proj1_strong_argmin lb ub (z - γ * g) z Hne Hz) as Hm. fold o in Hm. clearbody o.
  assert (Hi : 0 < / (2 * γ)) by (apply Rinv_0_lt_compat; lra).
  unfold Rsqr in *. unfold Rdiv.
  assert (Hs : 0 <= (o - z) * (o - z)) by (apply Rle_0_sqr).
  assert (H2 : (o - z) * (o - z) + 2 * γ * g * (o - z) <= 0) by (ring_simplify in Hm; ring_simplify in Hs; ring_simplify; lra).
  replace (g * (o - z) + (o - z) * (o - z) * / (2 * γ))
    with (((o - z) * (o - z) + 2 * γ * g * (o - z)) * / (2 * γ)) by (field; lra).
  nra.
Qed.

(* step-size backtracking keeps γ·L *)
Lemma halve_keeps_product (γ L : R) : fst (halve_step (γ, L)) * snd (halve_step (γ, L)) = γ * L.
Proof. unfold halve_step; cbn. numR. fix2. field. Qed.
Lemma halve_decreases (γ L : R) : 0 < γ -> fst (halve_step (γ, L)) < γ.
Proof. unfold halve_step; cbn. numR. fix2. lra. Qed.

(* trust-region acceptance: ratio above a positive threshold with a negative model value => non-increase *)
Lemma tr_accept_nonincrease φprox φcand qmodel tol Lγ thr :
  qmodel < 0 -> 0 <= thr -> thr <= tr_ratio false φprox φcand qmodel tol Lγ ->
  φcand <= φprox + (1 + Rabs φprox) * tol.
Proof.
  intros Hq Ht. kern. numR. intros Hr.
  assert (Hm : 0 < - qmodel) by lra.
  assert (0 <= (φprox - φcand + (1 + Rabs φprox) * tol) / - qmodel) by lra.
  assert (0 <= φprox - φcand + (1 + Rabs φprox) * tol).
  { apply Rmult_le_reg_r with (/ - qmodel); [apply Rinv_0_lt_compat; lra|]. rewrite Rmult_0_l. exact H. }
  lra.
Qed.

(* ================= C03: exit block ================= *)

Lemma errz_identity lb ub g y σ : 0 < σ ->
  errz1 (yhat1 lb ub g y σ) y σ = g - proj1 lb ub (g + y / σ).
Proof.
  intros Hs. unfold errz1, yhat1, projdiff1, zeta1. numR. set (P := proj1 lb ub (g + y / σ)). field. lra.
Qed.

Lemma y_is_yin_plus_sigma_e yh y σ : 0 < σ -> yh = y + σ * errz1 yh y σ.
Proof. intros Hs. kern. numR. field. lra. Qed.

Lemma yhat_sign lb ub g y σ : 0 < σ -> box_ne lb ub ->
  (lb = None -> 0 <= yhat1 lb ub g y σ) /\ (ub = None -> yhat1 lb ub g y σ <= 0).
Proof.
  intros Hs Hne. kern. set (ζ := g + y / σ). split; intros ->.
  - destruct ub as [u|]; cbn [clamp_lo clamp_hi]; numR; fold ζ; rbool; nra.
  - destruct lb as [l|]; cbn [clamp_lo clamp_hi box_ne] in *; numR; fold ζ; rbool; nra.
Qed.
Lemma yhat_unbounded_row g y σ : yhat1 None None g y σ = 0.
Proof. kern. cbn. numR. ring. Qed.

(* the candidate multiplier is zero exactly where ζ is feasible; positive only above ub, negative only below lb *)
Lemma yhat_complementarity lb ub g y σ : 0 < σ -> box_ne lb ub ->
  let ζ := g + y / σ in
  (0 < yhat1 lb ub g y σ -> exists u, ub = Some u /\ u < ζ) /\
  (yhat1 lb ub g y σ < 0 -> exists l, lb = Some l /\ ζ < l).
Proof.
  intros Hs Hne ζ. kern. fold ζ. destruct lb as [l|], ub as [u|]; cbn [clamp_lo clamp_hi box_ne] in *; numR; fold ζ;
    rbool; split; intros Hy; try nra; eauto; try (eexists; split; [reflexivity|nra]).
Qed.

Lemma exit_no_overwrite st (x_in y_in e_in xh yh Σ : list R) :
  overwrites st false = false -> exit_block st false x_in y_in e_in xh yh Σ = (x_in, y_in, e_in).
Proof. unfold exit_block. intros ->. reflexivity. Qed.
Lemma overwrites_spec st always :
  overwrites st always = true <-> st = StConverged \/ st = StInterrupted \/ always = true.
Proof. destruct st, always; cbn; split; intros; auto; try discriminate; destruct H as [H|[H|H]]; discriminate. Qed.
Lemma exit_overwrite st always (x_in y_in e_in xh yh Σ : list R) :
  overwrites st always = true ->
  fst (fst (exit_block st always x_in y_in e_in xh yh Σ)) = xh /\
  snd (fst (exit_block st always x_in y_in e_in xh yh Σ)) = yh.
Proof. unfold exit_block. intros ->. split; reflexivity. Qed.

(* ================= C01: projected step residual lies in the normal cone ================= *)
(* r = (x - x̂)/γ - g with x̂ = Π_C(x - γ g) satisfies r (u - x̂) <= 0 for every u in C *)
Lemma proj_residual_in_normal_cone lb ub γ x g u : 0 < γ -> box_ne lb ub -> in_box lb ub u ->
  let xh := proj1 lb ub (x - γ * g) in
  ((x - xh) / γ - g) * (u - xh) <= 0.
Proof.
  intros Hg Hne Hu xh.
  pose proof (proj1_variational lb ub (x - γ * g) u Hne Hu) as Hv. fold xh in Hv.
  assert (Hi : 0 < / γ) by (apply Rinv_0_lt_compat; lra).
  replace ((x - xh) / γ - g) with ((x - γ * g - xh) * / γ) by (field; lra).
  nra.
Qed.

(* hence -∇ψ(x̂) is within |ε_i| of the normal cone, ε_i = p_i/γ + (∇ψ_i - ∇ψ̂_i) the reported residual *)
Lemma approx_stationarity_component lb ub γ x g gh : 0 < γ -> box_ne lb ub ->
  let xh := proj1 lb ub (x - γ * g) in
  let p := xh - x in
  exists r, (forall u, in_box lb ub u -> r * (u - xh) <= 0) /\ Rabs (- gh - r) = Rabs (p / γ + (g - gh)).
Proof.
  intros Hg Hne xh p. exists ((x - xh) / γ - g). split.
  - intros u Hu. now apply proj_residual_in_normal_cone.
  - unfold p. replace (- gh - ((x - xh) / γ - g)) with ((xh - x) / γ + (g - gh)) by (field; lra). reflexivity.
Qed.

(* ================= C06: reported ε = documented formula ================= *)
Definition neg_rel (u v : list R) : Prop := Forall2 (fun a b => a = - b) u v.

Lemma vabs_neg_rel u v : neg_rel u v -> vabs u = vabs v.
Proof. induction 1; cbn; [reflexivity|]. f_equal; [subst; numR; apply Rabs_Ropp|assumption]. Qed.
Lemma sq_neg_rel u v : neg_rel u v -> map (fun x : R => nmul x x) u = map (fun x => nmul x x) v.
Proof. induction 1; cbn; [reflexivity|]. f_equal; [subst; numR; ring|assumption]. Qed.
Lemma vnorminf_neg_rel u v : neg_rel u v -> vnorminf u = vnorminf v.
Proof. intros Hr. unfold vnorminf. now rewrite (vabs_neg_rel u v Hr). Qed.
Lemma vnorm2_neg_rel u v : neg_rel u v -> vnorm2 u = vnorm2 v.
Proof. intros Hr. unfold vnorm2, vsqnorm. now rewrite (sq_neg_rel u v Hr). Qed.
Lemma vnorm1_neg_rel u v : neg_rel u v -> vnorm1 u = vnorm1 v.
Proof. intros Hr. unfold vnorm1. now rewrite (vabs_neg_rel u v Hr). Qed.

(* documented residual: γ⁻¹(x - x̂) + ∇ψ̂ - ∇ψ *)
Definition kkt_residual_doc (γ : R) (x xh grad gradh : list R) : list R :=
  vadd (vscale (1 / γ) (vsub x xh)) (vsub gradh grad).

Lemma kkt_residual_neg γ (x p grad gradh : list R) : length x = length p ->
  neg_rel (kkt_residual_doc γ x (vadd x p) grad gradh) (kkt_residual γ p grad gradh).
Proof.
  unfold kkt_residual_doc, kkt_residual, vadd, vsub, vscale, neg_rel.
  revert p grad gradh; induction x as [|a x IH]; intros [|b p] [|c g] [|d gh] Hlen; cbn in *;
    try discriminate; try constructor.
  - ring.
  - apply IH. lia.
Qed.

Definition crit_doc (c : stopcrit) (lb ub : list (option R)) (γ : R) (x xh yh grad gradh : list R) : R :=
  let pg γ' := vsub x (proj lb ub (vsub x (vscale γ' grad))) in     (* x - Π_C(x - γ'∇ψ(x)) *)
  match c with
  | ApproxKKT => vnorminf (kkt_residual_doc γ x xh grad gradh)
  | ApproxKKT2 => vnorm2 (kkt_residual_doc γ x xh grad gradh)
  | ProjGradNorm => vnorminf (pg γ)
  | ProjGradNorm2 => vnorm2 (pg γ)
  | ProjGradUnitNorm => vnorminf (pg 1)
  | ProjGradUnitNorm2 => vnorm2 (pg 1)
  | FPRNorm => / γ * vnorminf (pg γ)
  | FPRNorm2 => / γ * vnorm2 (pg γ)
  | Ipopt =>
      let v := vsub xh gradh in
      let w := vsub v (proj lb ub v) in
      let e' := vnorminf (vsub xh (proj lb ub v)) in
      let n := (2 * (length yh + length xh))%nat in
      match n with O => e' | _ => e' / (Rmax 100 ((vnorm1 yh + vnorm1 w) / INR n) / 100) end
  | LBFGSBpp => vnorminf (pg 1) / Rmax 1 (vnorm2 x)
  end.

(* the projected step equals minus (x - Π_C(x - γ∇ψ)) *)
Lemma proj_step_neg lb ub γ (x g : list R) :
  neg_rel (vsub x (proj lb ub (vsub x (vscale γ g)))) (snd (fst (proj_grad_step lb ub γ x g))).
Proof.
  unfold proj_grad_step, vsub, vscale, proj, neg_rel; cbn [fst snd].
  revert ub x g; induction lb as [|l lb IH]; intros [|u ub] [|a x] [|b g]; cbn; try constructor.
  - change (nsub a ?t) with (a - t). change (nmul γ b) with (γ * b).
    pose proof (proj_step1_is_proj l u γ a b). lra.
  - apply IH.
Qed.

Section Crit.
  Variables (lb ub : list (option R)) (γ : R) (x grad gradh yh : list R).
  Let step := proj_grad_step lb ub γ x grad.
  Let xh := fst (fst step).
  Let p := snd (fst step).

  Lemma xh_is_x_plus_p : xh = vadd x p.
  Proof. reflexivity. Qed.

  Lemma crit_matches_doc_ApproxKKT : length x = length p ->
    crit_eps ApproxKKT lb ub [] p γ x xh yh grad gradh = crit_doc ApproxKKT lb ub γ x xh yh grad gradh.
  Proof. intros Hl. unfold crit_eps, crit_doc. symmetry. apply vnorminf_neg_rel. exact (kkt_residual_neg γ x p grad gradh Hl). Qed.
  Lemma crit_matches_doc_ApproxKKT2 : length x = length p ->
    crit_eps ApproxKKT2 lb ub [] p γ x xh yh grad gradh = crit_doc ApproxKKT2 lb ub γ x xh yh grad gradh.
  Proof. intros Hl. unfold crit_eps, crit_doc. symmetry. apply vnorm2_neg_rel. exact (kkt_residual_neg γ x p grad gradh Hl). Qed.
  Lemma crit_matches_doc_ProjGradNorm :
    crit_eps ProjGradNorm lb ub [] p γ x xh yh grad gradh = crit_doc ProjGradNorm lb ub γ x xh yh grad gradh.
  Proof. unfold crit_eps, crit_doc. symmetry. apply vnorminf_neg_rel. apply (proj_step_neg lb ub γ x grad). Qed.
  Lemma crit_matches_doc_ProjGradNorm2 :
    crit_eps ProjGradNorm2 lb ub [] p γ x xh yh grad gradh = crit_doc ProjGradNorm2 lb ub γ x xh yh grad gradh.
  Proof. unfold crit_eps, crit_doc. symmetry. apply vnorm2_neg_rel. apply (proj_step_neg lb ub γ x grad). Qed.
  Lemma crit_matches_doc_FPRNorm : γ <> 0 ->
    crit_eps FPRNorm lb ub [] p γ x xh yh grad gradh = crit_doc FPRNorm lb ub γ x xh yh grad gradh.
  Proof.
    intros Hg. unfold crit_eps, crit_doc.
    pose proof (vnorminf_neg_rel _ _ (proj_step_neg lb ub γ x grad)) as E.
    change (snd (fst (proj_grad_step lb ub γ x grad))) with p in E. rewrite E. numR. field. exact Hg.
  Qed.
  Lemma crit_matches_doc_FPRNorm2 : γ <> 0 ->
    crit_eps FPRNorm2 lb ub [] p γ x xh yh grad gradh = crit_doc FPRNorm2 lb ub γ x xh yh grad gradh.
  Proof.
    intros Hg. unfold crit_eps, crit_doc.
    pose proof (vnorm2_neg_rel _ _ (proj_step_neg lb ub γ x grad)) as E.
    change (snd (fst (proj_grad_step lb ub γ x grad))) with p in E. rewrite E. numR. field. exact Hg.
  Qed.
  Lemma crit_matches_doc_ProjGradUnitNorm :
    crit_eps ProjGradUnitNorm lb ub [] p γ x xh yh grad gradh = crit_doc ProjGradUnitNorm lb ub γ x xh yh grad gradh.
  Proof. unfold crit_eps, crit_doc, unit_step, eval_prox_grad_step. symmetry. apply vnorminf_neg_rel. apply (proj_step_neg lb ub 1 x grad). Qed.
  Lemma crit_matches_doc_ProjGradUnitNorm2 :
    crit_eps ProjGradUnitNorm2 lb ub [] p γ x xh yh grad gradh = crit_doc ProjGradUnitNorm2 lb ub γ x xh yh grad gradh.
  Proof. unfold crit_eps, crit_doc, unit_step, eval_prox_grad_step. symmetry. apply vnorm2_neg_rel. apply (proj_step_neg lb ub 1 x grad). Qed.
  Lemma crit_matches_doc_LBFGSBpp :
    crit_eps LBFGSBpp lb ub [] p γ x xh yh grad gradh = crit_doc LBFGSBpp lb ub γ x xh yh grad gradh.
  Proof.
    unfold crit_eps, crit_doc, unit_step, eval_prox_grad_step.
    rewrite (vnorminf_neg_rel _ _ (proj_step_neg lb ub 1 x grad)).
    change (@n1 R NumR) with 1. unfold nfmax. cbn [nisnan NumR]. rewrite cmax_R. reflexivity.
  Qed.
End Crit.

(* Ipopt criterion (after fix e9cea5112): code = documented formula *)
Lemma ipopt_w_eq lb ub (xh gh : list R) :
  vsub (vneg (snd (fst (proj_grad_step lb ub 1 xh gh)))) gh
  = vsub (vsub xh gh) (proj lb ub (vsub xh gh)).
Proof.
  unfold proj_grad_step, vsub, vneg, proj; cbn [fst snd].
  revert ub xh gh; induction lb as [|l lb IH]; intros [|u ub] [|a xh] [|b gh]; cbn; try reflexivity.
  f_equal; [|apply IH].
  pose proof (proj_step1_is_proj l u 1 a b) as E. numR. replace (a - 1 * b) with (a - b) in E by ring. lra.
Qed.
Lemma ipopt_err_neg lb ub (xh gh : list R) :
  neg_rel (vsub xh (proj lb ub (vsub xh gh))) (snd (fst (proj_grad_step lb ub 1 xh gh))).
Proof.
  pose proof (proj_step_neg lb ub 1 xh gh) as Hn.
  replace (vsub xh (vscale 1 gh)) with (vsub xh gh) in Hn; [exact Hn|].
  unfold vsub, vscale. clear. revert gh; induction xh as [|a xh IH]; intros [|b gh]; cbn; try reflexivity.
  f_equal; [numR; ring|apply IH].
Qed.

Lemma crit_matches_doc_Ipopt lb ub γ (p x xh yh grad gradh : list R) :
  crit_eps Ipopt lb ub [] p γ x xh yh grad gradh = crit_doc Ipopt lb ub γ x xh yh grad gradh.
Proof.
  unfold crit_eps, crit_doc, unit_step, eval_prox_grad_step.
  change (@n1 R NumR) with 1.
  rewrite ipopt_w_eq. rewrite <- (vnorminf_neg_rel _ _ (ipopt_err_neg lb ub xh gradh)).
  destruct (2 * (length yh + length xh))%nat eqn:En; [reflexivity|].
  rewrite cmax_R. unfold nofnat. cbn [nofZ NumR]. rewrite <- INR_IZR_INZ.
  numR. rewrite (Rplus_comm (vnorm1 yh)). reflexivity.
Qed.
