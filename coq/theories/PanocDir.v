(* PanocDir.v — PANOCSolver<DirectionProviderT>::operator() with a STATEFUL direction provider (Directions.dirops):
   the SAME loop as Panoc.v (all iterate-level lambdas, the initial Lipschitz estimate and the initial QUB loop are re-used from
   Panoc.v; the line search and the pass of `while (true)` are written again), threading the provider state through every call
   site of panoc.tpp:
     k == 0:                         direction.initialize(problem, y, Σ, γ, x, x̂, p, ∇ψ)         [again after an interrupted line search at k = 0]
     k > 0 || has_initial_direction: direction.apply(γ, x, x̂, p, ∇ψ, q); q.allFinite();  τ_init != 1: ++lbfgs_failures; direction.reset()
     line search, τ > 0 && fail:     direction.reset()
     line search, candidate passed the QUB test, update_direction_in_candidate, first time, no step-size change so far:
                                     lbfgs_rejected += !direction.update(curr.γ, next.γ, curr.x, next.x, curr.p, next.p, curr.∇ψ, next.∇ψ)
     after the search, !updated:     γ changed: direction.changed_γ(next.γ, curr.γ) [+ recompute_last_prox_step...]; direction.update(...)
   Panoc.v only COUNTS these calls (inc_dir / inc_apply) and takes the result of apply from an oracle.
   The buffer q: `vec q(n)` is uninitialised until the first apply ([] here, as in Panoc.v); a provider may write it also when it
   returns false (LBFGSDirection: q = p), and that content is what the progress callback reports.
   Extra outputs w.r.t. Panoc.v: PANOCStats::lbfgs_rejected, the final provider state, the trace of apply results
   (Some q when apply returned true, None when it returned false) — the oracle of the refinement theorem (PanocDirProofs.v).
   Model only; no proofs here. *)
From Coq Require Import List ZArith Bool Arith.
From Alpaqa Require Import Num Vec Prox SolverStatus SolverKernels StopChain Panoc Directions.
Import ListNotations.

Section PanocDir.
  Context {T : Type} `{Num T}.
  Local Open Scope num_scope.

  (* the outside world, as in Panoc.v, without the direction oracle *)
  Variable psi_grad_full : list T -> T * list T * list T.
  Variable psi_yhat : list T -> T * list T.
  Variable grad_L : list T -> list T -> list T.
  Variable grad_psi : list T -> list T.
  Variables (lb ub : list (option T)) (l1 : list T).
  Variable D : Type.
  Variable ops : dirops T D.
  Variable stop_req : counters -> bool.
  Variable time_up : counters -> bool.
  Variable P : params (T:=T).
  Variables (x_in y_in Σ errz_in : list T).

  Notation eprox := (eval_prox lb ub l1).
  Notation epsih := (eval_psih psi_grad_full psi_yhat P).

  (* direction.update(curr.γ, next.γ, curr.x, next.x, curr.p, next.p, curr.grad_ψ, next.grad_ψ) *)
  Definition dir_update (d : D) (curr next : iterate (T:=T)) : bool * D :=
    d_update _ ops d (igam curr) (igam next) (ix curr) (ix next) (ip curr) (ip next) (igrad curr) (igrad next).

  (* ------------------------------------------------------------------ line search (Panoc.ls_loop + provider state, lbfgs_rejected) *)
  Fixpoint ls_loopD (fuel : nat) (q : list T) (tau_init : T) (s : ls_state (T:=T)) (d : D) (rej : nat)
    : ls_result (T:=T) * D * nat :=
    match fuel with
    | O => (LsFuel, d, rej)
    | S f =>
      let stop := stop_req (ls_cnt s) in
      let c0 := inc_polls (ls_cnt s) in
      if stop then (LsStopped (mkLs (ls_curr s) (ls_next s) (ls_tau s) (ls_tau_prev s) (ls_upd s) (ls_updated s) c0 (ls_stats s)), d, rej)
      else
        let τ := ls_tau s in
        let '(curr, next, c1) :=
          if τ =? ls_tau_prev s then (ls_curr s, ls_next s, c0)
          else if τ =? n0 then take_safe_step grad_L grad_psi P (ls_curr s) (ls_next s) c0
          else (ls_curr s, take_accel_step psi_grad_full τ q (ls_curr s) (ls_next s), inc_pg c0) in
        let τ_prev := τ in
        let fail := negb (nfinite (ipsi next)) || ((p_Lmax P <=? iL next) && negb (p_Lmax P <=? iL curr)) in
        if (n0 <? τ) && fail then
          (* next->L = curr->L; next->γ = curr->γ; τ = 0; direction.reset(); update_lbfgs_in_linesearch = false *)
          ls_loopD f q tau_init (mkLs curr (set_gamma_L next (igam curr) (iL curr)) n0 τ_prev false (ls_updated s) c1 (ls_stats s))
                   (d_reset _ ops d) rej
        else
          let next1 := epsih (eprox next) in
          let c2 := cnt_psih P c1 in
          if (iL next1 <? p_Lmax P) && it_qub_violated P next1 then
            ls_loopD f q tau_init (mkLs curr (halve_it next1) (if n0 <? τ then tau_init else τ) τ_prev false (ls_updated s) c2
                                         (inc_sbt (ls_stats s))) d rej
          else
            let do_upd := ls_upd s && negb (ls_updated s) in
            let c3 := if do_upd then inc_dir c2 else c2 in
            let upd := if do_upd then false else ls_upd s in
            let updated := if do_upd then true else ls_updated s in
            (* s.lbfgs_rejected += dir_rejected = not direction.update(...) *)
            let ud := if do_upd then dir_update d curr next1 else (true, d) in
            let d' := snd ud in
            let rej' := if fst ud then rej else S rej in
            if (n0 <? τ) && it_ls_violated P curr next1 then
              let τ1 := τ * p_tau_factor P in
              let τ2 := if τ1 <? p_tau_min P then n0 else τ1 in
              ls_loopD f q tau_init (mkLs curr next1 τ2 τ_prev upd updated c3 (inc_lbt (ls_stats s))) d' rej'
            else (LsDone (mkLs curr next1 τ τ_prev upd updated c3 (ls_stats s)), d', rej')
    end.

  (* ------------------------------------------------------------------ one pass of `while (true)` *)
  Record lstateD := mkStD {
    sd_st : lstate (T:=T);                   (* Panoc.v's loop state: curr, next, k, no_progress, q, counters, stats, log *)
    sd_dir : D;                              (* the provider *)
    sd_rej : nat;                            (* s.lbfgs_rejected *)
    sd_trace : list (option (list T)) }.     (* results of the apply calls so far, oldest first *)

  Record outputsD := mkOutD {
    od_out : outputs (T:=T);
    od_rej : nat;
    od_dir : D;
    od_trace : list (option (list T)) }.
  Inductive resultD := DoneD (o : outputsD) | NotFiniteLD (L : T) | OutOfFuelD
                     | ThrewD (log : list (cbrec (T:=T))).   (* a provider call threw: the exception leaves operator() *)
  Inductive pass_resultD := PExitD (o : outputsD) | PContD (s : lstateD) | PFuelD | PThrowD (log : list (cbrec (T:=T))).

  (* the apply call: (what the oracle of Panoc.v would have returned, the buffer q after the call, the provider) *)
  Definition dir_phase (use_dir : bool) (d : D) (curr : iterate (T:=T)) (q : list T) : option (option (list T) * list T * D) :=
    if use_dir then
      match d_apply _ ops d (igam curr) (ix curr) (ixh curr) (ip curr) (igrad curr) q with
      | None => None
      | Some (b, q', d') => Some (if b then Some q' else None, q', d')
      end
    else Some (None, q, d).

  Variable ls_fuel : nat.

  Definition passD (sD : lstateD) : pass_resultD :=
    let s := sd_st sD in
    let need := need_gradh P && negb (ihave (st_curr s)) in
    let curr := if need then eval_gradh grad_L grad_psi P (st_curr s) else st_curr s in
    let c0 := if need then cnt_gradh P (st_cnt s) else st_cnt s in
    let ε := it_eps lb ub l1 P curr in
    let k := st_k s in
    let te := time_up c0 in
    let sr := stop_req c0 in
    let c1 := inc_polls c0 in
    let st := stop_status_helpers (o_tol P) ε te k (p_max_iter P) (st_np s) (p_max_no_progress P) sr in
    match st with
    | StBusy =>
        let c2 := if (k =? 0)%nat then inc_dir c1 else c1 in
        match (if (k =? 0)%nat
               then d_initialize _ ops (sd_dir sD) y_in Σ (igam curr) (ix curr) (ixh curr) (ip curr) (igrad curr)
               else Some (sd_dir sD)) with
        | None => PThrowD (rev (st_log s))
        | Some d1 =>
        let use_dir := (0 <? k)%nat || d_has_initial _ ops in
        match dir_phase use_dir d1 curr (st_q s) with
        | None => PThrowD (rev (st_log s))
        | Some (r, q, d2) =>
        let c3 := if use_dir then inc_apply c2 else c2 in
        let tr := if use_dir then sd_trace sD ++ [r] else sd_trace sD in
        let tau_init := match r with Some q' => if vall_finite q' then n1 else n0 | None => n0 end in
        let dfail := use_dir && negb (tau_init =? n1) in
        let stats1 := if dfail then inc_dfail (st_stats s) else st_stats s in
        let d3 := if dfail then d_reset _ ops d2 else d2 in
        let ls0 := mkLs curr (set_gamma_L (st_next s) (igam curr) (iL curr)) tau_init (- n1) (p_upd_in_cand P) false c3 stats1 in
        match ls_loopD ls_fuel q tau_init ls0 d3 (sd_rej sD) with
        | (LsFuel, _, _) => PFuelD
        | (LsStopped l, d4, rej) =>
            PContD (mkStD (mkSt (ls_curr l) (ls_next l) k (st_np s) q (ls_cnt l) (ls_stats l) (st_log s)) d4 rej tr)
        | (LsDone l, d4, rej) =>
            let curr := ls_curr l in let next := ls_next l in let τ := ls_tau l in
            let z := ls_stats l in
            let stats2 := mkStats (s_stepsize_bt z) (s_ls_bt z)
                                  (s_ls_fail z + b2n ((τ =? n0) && (n0 <? tau_init)))
                                  (s_dir_fail z)
                                  (s_tau1 z + b2n (τ =? n1))
                                  (s_count_tau z + b2n (n0 <? tau_init))
                                  (s_sum_tau z + τ) in
            let np := match no_progress_update (st_np s) k (p_max_no_progress P) (veqb (ix curr) (ix next)) with
                      | Some v => v | None => st_np s end in
            (* if (!updated_lbfgs) { if (curr->γ != next->γ) { direction.changed_γ(next->γ, curr->γ); [recompute] } direction.update(...) } *)
            let changed := negb (igam curr =? igam next) in
            let curr2 := if negb (ls_updated l) && changed && p_recompute P
                         then eprox (set_gamma_L curr (igam next) (iL next)) else curr in
            let d5 := if negb (ls_updated l) && changed then d_changed_gamma _ ops d4 (igam next) (igam curr) else d4 in
            let ud := if ls_updated l then (true, d5) else dir_update d5 curr2 next in
            let rej' := if fst ud then rej else S rej in
            let c4 := if ls_updated l then ls_cnt l else inc_dir (ls_cnt l) in
            let rec := mkCb k curr2 q τ ε StBusy in
            PContD (mkStD (mkSt next curr2 (S k) np q (inc_cb c4) stats2 (rec :: st_log s)) (snd ud) rej' tr)
        end end end
    | _ =>
        let rec := mkCb k curr [] (- n1) ε st in
        let c2 := inc_cb c1 in
        let ow := overwrites st (o_always P) in
        let curr_f := if ow && p_eager P then eval_psih_exit psi_yhat curr else curr in
        let c3 := if ow && p_eager P then inc_py c2 else c2 in
        let '(xo, yo, eo) := exit_block st (o_always P) x_in y_in errz_in (ixh curr_f) (iyh curr_f) Σ in
        PExitD (mkOutD (mkOut st k ε xo yo eo curr_f (st_stats s) (rev (rec :: st_log s)) c3) (sd_rej sD) (sd_dir sD) (sd_trace sD))
    end.

  Fixpoint loopD (fuel : nat) (s : lstateD) : resultD :=
    match fuel with
    | O => OutOfFuelD
    | S f => match passD s with
             | PExitD o => DoneD o
             | PContD s' => loopD f s'
             | PFuelD => OutOfFuelD
             | PThrowD log => ThrewD log
             end
    end.

  (* ------------------------------------------------------------------ operator() *)
  Variable d0 : D.      (* the provider as constructed *)

  Definition panocD (fuel : nat) : resultD :=
    let '(i0, c0) := init_L psi_grad_full grad_psi P x_in in
    if negb (nfinite (iL i0)) then NotFiniteLD (iL i0)
    else
      let i1 := set_gamma_L i0 (p_Lgamma P / iL i0) (iL i0) in
      let i2 := epsih (eprox i1) in
      match init_qub psi_grad_full psi_yhat lb ub l1 P ls_fuel i2 (cnt_psih P c0) stats0 with
      | None => OutOfFuelD
      | Some (i3, c1, s1) => loopD fuel (mkStD (mkSt i3 it_blank 0 0 [] c1 s1 []) d0 0 [])
      end.
End PanocDir.
