(* PanocDirLbfgs.v — PANOCSolver<LBFGSDirection>: the C09 theorems about alpaqa::LBFGS composed with the loop.
   The buffer invariant of LbfgsProofs.v (inv) and "every stored ρ is 1/(yᵀs)" (rho_ok) are established by LBFGSDirection::initialize
   and preserved by update / apply / changed_γ (reset or scale_y) / reset; by PanocDirProofs.reachableD_I they hold for the provider at
   every apply call of every run, so (C09_apply_is_dense_bfgs_of_stored_pairs) every direction the solver receives is the dense BFGS
   inverse-Hessian operator of the stored pairs applied to p, and apply fails exactly when the history is empty. *)
From Coq Require Import Reals List ZArith Bool Arith Lia Lra.
From Alpaqa Require Import Num NumR Vec Prox SolverStatus SolverKernels StopChain Lbfgs LbfgsProofs LbfgsAlgebra Panoc Directions PanocDir PanocDirProofs.
Import ListNotations.
Local Open Scope R_scope.

Section LbfgsInLoop.
  Variable psi_grad_full : list R -> R * list R * list R.
  Variable psi_yhat : list R -> R * list R.
  Variable grad_L : list R -> list R -> list R.
  Variable grad_psi : list R -> list R.
  Variables (lb ub : list (option R)) (l1 : list R).
  Variable stop_req : counters -> bool.
  Variable time_up : counters -> bool.
  Variable P : Panoc.params (T:=R).
  Variables (x_in y_in Σ errz_in : list R).
  Variable ls_fuel : nat.
  Variables (n : nat) (pw : R -> R -> R) (LP : Lbfgs.params R) (rescale : bool).

  Notation Dl := (Lbfgs.state R).
  Notation lbfgs := (lbfgs_dir n pw LP rescale).
  Notation ReachableD := (reachableD psi_grad_full psi_yhat grad_L grad_psi lb ub l1 Dl lbfgs stop_req time_up P x_in y_in Σ errz_in ls_fuel lbfgs_unsized).

  Definition lbfgs_ok (st : Lbfgs.state R) : Prop := inv LP st /\ rho_ok st.

  Lemma step_ok st o : lbfgs_ok st -> lbfgs_ok (fst (Lbfgs.step pw LP st o)).
  Proof. intros [A B]. exact (run_rho_ok pw LP [o] st A B). Qed.

  Lemma ok_init d y S γ x xh p g d' : d_initialize Dl lbfgs d y S γ x xh p g = Some d' -> lbfgs_ok d'.
  Proof.
    cbn [d_initialize lbfgs_dir]. intros E. split; [exact (resize_inv _ _ _ E)|].
    unfold rho_ok. rewrite (resize_hist3 _ _ _ E). constructor.
  Qed.
  Lemma ok_update d γ γn x xn p pn g gn : lbfgs_ok d -> lbfgs_ok (snd (d_update Dl lbfgs d γ γn x xn p pn g gn)).
  Proof.
    intros Hd. cbn [d_update lbfgs_dir]. pose proof (step_ok d (OUpd x xn p pn false false) Hd) as Hs. cbn [Lbfgs.step] in Hs.
    destruct (Lbfgs.update pw LP d x xn p pn false false) as [b st']. exact Hs.
  Qed.
  Lemma ok_apply d γ x xh p g q b q' d' : lbfgs_ok d -> d_apply Dl lbfgs d γ x xh p g q = Some (b, q', d') -> lbfgs_ok d'.
  Proof.
    intros Hd. cbn [d_apply lbfgs_dir]. intros E. pose proof (step_ok d (OApply p γ) Hd) as Hs. cbn [Lbfgs.step] in Hs.
    destruct (Lbfgs.apply LP d p γ) as [[b0 q0] st']. injection E as _ _ <-. exact Hs.
  Qed.
  Lemma ok_changed d a b : lbfgs_ok d -> lbfgs_ok (d_changed_gamma Dl lbfgs d a b).
  Proof.
    intros Hd. cbn [d_changed_gamma lbfgs_dir]. destruct rescale.
    - exact (step_ok d (OScale (@ndiv R NumR a b)) Hd).
    - exact (step_ok d (OReset (T:=R)) Hd).
  Qed.
  Lemma ok_reset d : lbfgs_ok d -> lbfgs_ok (d_reset Dl lbfgs d).
  Proof. intros Hd. exact (step_ok d (OReset (T:=R)) Hd). Qed.

  (* at the top of every pass with k > 0 — i.e. at every apply call — the provider's buffer is well formed and every stored ρ = 1/(yᵀs) *)
  Theorem lbfgs_ok_at_every_apply sD : ReachableD sD -> (0 < st_k (sd_st Dl sD))%nat -> lbfgs_ok (sd_dir Dl sD).
  Proof.
    intros Hr Hk.
    destruct (reachableD_I psi_grad_full psi_yhat grad_L grad_psi lb ub l1 Dl lbfgs stop_req time_up P x_in y_in Σ errz_in ls_fuel lbfgs_unsized
                           lbfgs_ok ok_init ok_update ok_apply ok_changed ok_reset sD Hr) as [E|Hok]; [lia|exact Hok].
  Qed.

  (* hence: the apply call of that pass,  q = p; lbfgs.apply(q, γ),  fails iff the history is empty (q = p then) and otherwise returns
     the dense BFGS operator of the stored pairs (H₀ = γ I, or sᵀy/yᵀy of the newest pair) applied to p *)
  Theorem lbfgs_direction_is_dense_bfgs sD : ReachableD sD -> (0 < st_k (sd_st Dl sD))%nat ->
    let st := sd_dir Dl sD in
    forall γ x xh p g q,
      exists r, d_apply Dl lbfgs st γ x xh p g q = Some r /\
        if is_empty st then r = (false, p, st)
        else fst (fst r) = true /\ snd (fst r) = Hbfgs (pairs st) (doc_γ LP (pairs st) γ) p.
  Proof.
    intros Hr Hk st γ x xh p g q. destruct (lbfgs_ok_at_every_apply sD Hr Hk) as [A B].
    exists (Lbfgs.apply LP st p γ). split; [reflexivity|]. exact (apply_is_H LP st p γ A B).
  Qed.
End LbfgsInLoop.

(* StructuredLBFGSDirection: the index set it uses is the C15 model of eval_inactive_indices_res_lna (the `_x` variant of Directions.v only
   spells out the comparisons with infinite bounds for non-finite arguments, which do not exist over R) *)
Lemma in_interior_x_R (lb ub : option R) v : in_interior_x lb ub v = in_interior lb ub v.
Proof. unfold in_interior_x, in_interior. destruct lb, ub; reflexivity. Qed.
Lemma inactive1_x_R (lb ub : option R) λ γ x g : inactive1_x lb ub λ γ x g = inactive1 lb ub λ γ x g.
Proof. unfold inactive1_x, inactive1. now rewrite !in_interior_x_R. Qed.
Lemma inactive_from_x_R : forall (lb ub : list (option R)) i l1 γ x g, inactive_from_x i lb ub l1 γ x g = inactive_from i lb ub l1 γ x g.
Proof.
  induction lb as [|l lb IH]; intros ub i l1 γ x g; [reflexivity|].
  destruct ub as [|u ub], x as [|xi x], g as [|gi g]; try reflexivity.
Qed.
Theorem inactive_indices_x_is_C15_model (lb ub : list (option R)) l1 γ x g :
  inactive_indices_x lb ub l1 γ x g = inactive_indices lb ub l1 γ x g.
Proof. unfold inactive_indices_x, inactive_indices. now rewrite !inactive_from_x_R. Qed.
