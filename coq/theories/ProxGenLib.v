(* ProxGenLib.v — the few list combinators the GENERATED file coq/gen/ProxGen.v (translate/gen_prox.py) is written with.
   No proofs here (they are in ProxGenEq.v).
     zmap4/zmap5  coefficient-wise expression over four / five vectors (Eigen evaluates coefficient by coefficient)
     vslice       v.segment(off, len)   (head(k) = segment(0,k); tail(n) = segment(size-n, n); topRows/bottomRows likewise)
     vsplice      assignment to such a block: the vector with the block replaced
     idx_filter4  `for (index_t i = 0; i < n; ++i) if (c(i, a(i), b(i), c(i), d(i))) J(nJ++) = i;` *)
From Coq Require Import List ZArith Bool.
Import ListNotations.

Fixpoint zmap4 {A B C D E} (f : A -> B -> C -> D -> E) (a : list A) (b : list B) (c : list C) (d : list D) : list E :=
  match a, b, c, d with
  | x1 :: a', x2 :: b', x3 :: c', x4 :: d' => f x1 x2 x3 x4 :: zmap4 f a' b' c' d'
  | _, _, _, _ => []
  end.

Fixpoint zmap5 {A B C D E F} (f : A -> B -> C -> D -> E -> F)
    (a : list A) (b : list B) (c : list C) (d : list D) (e : list E) : list F :=
  match a, b, c, d, e with
  | x1 :: a', x2 :: b', x3 :: c', x4 :: d', x5 :: e' => f x1 x2 x3 x4 x5 :: zmap5 f a' b' c' d' e'
  | _, _, _, _, _ => []
  end.

Definition vslice {A} (off len : nat) (l : list A) : list A := firstn len (skipn off l).
Definition vsplice {A} (off len : nat) (new l : list A) : list A := firstn off l ++ new ++ skipn (off + len) l.

Fixpoint idx_filter4 {A B C D} (f : nat -> A -> B -> C -> D -> bool) (i : nat)
    (a : list A) (b : list B) (c : list C) (d : list D) : list nat :=
  match a, b, c, d with
  | x1 :: a', x2 :: b', x3 :: c', x4 :: d' =>
      let rest := idx_filter4 f (S i) a' b' c' d' in
      if f i x1 x2 x3 x4 then i :: rest else rest
  | _, _, _, _ => []
  end.
