(* AlmZeroFprDir.v — the SHIPPED stack ALMSolver<ZeroFPRSolver<DirectionProviderT>>: the ALM outer loop (Alm.v, composed by AlmCompose.v)
   with ZeroFprDir.zerofprD (the ZeroFPR loop with a STATEFUL direction provider, Directions.dirops) as its inner solver, on a user
   problem given by its four basic functions through the vtable model of AugLag.v (problem view and counters as in AlmZeroFpr.v /
   AlmPanoc.v).  As for PANOC (AlmPanocDir.v) the provider lives inside the inner solver object, which ALM owns: its state PERSISTS
   across inner solves — the world threaded through AlmCompose is (cumulative counters, provider state) — and `initialize` is called at
   k = 0 of every inner solve (ZeroFprDir.zpassD) with the y and Σ of that solve and the FIRST PROX iterate (x̂₀, x̂̂₀, p̂₀, ∇ψ(x̂₀)).
   A solve that returns NotFinite before the loop does not touch the provider.  An exception thrown by a provider call leaves
   ZeroFPRSolver::operator() and ALMSolver::operator(): the composed run has no result (None).
   Extra parameter w.r.t. AlmZeroFpr.v: update_direction_from_prox_step (selects the arguments of direction.update).
   Model only; proofs in AlmZeroFprDirProofs.v / AlmZeroFprDirRefine.v, theorems in Properties_C01.v. *)
From Coq Require Import List ZArith Bool Arith.
From Alpaqa Require Import Num Vec Prox SolverStatus SolverKernels StopChain AugLag Panoc ZeroFpr Directions ZeroFprDir Alm AlmCompose AlmPanoc.
Import ListNotations.

Section AlmZeroFprDir.
  Context {T : Type} `{Num T}.
  Local Open Scope num_scope.

  Variable Pb : problem (T:=T).
  Variable prov : fn -> bool.
  Variable wm_supplied : list T -> list T.
  Variables (Clb Cub : list (option T)) (l1 : list T).
  Variable split : nat.
  Variable D : Type.
  Variable ops : dirops T D.                    (* the provider (LBFGSDirection, StructuredLBFGSDirection, AndersonDirection, NoopDirection, …) *)
  Variable stop_req : counters -> bool.
  Variable time_up : counters -> bool.
  Variable outer_oot : nat -> bool.
  Variable PP : params (T:=T).                  (* ZeroFPRParams (ZeroFpr.v reads Panoc.params; τ-factor and eager are ignored) *)
  Variable from_prox : bool.                    (* ZeroFPRParams::update_direction_from_prox_step *)
  Variable AP : alm_params (T:=T).
  Variables (ls_fuel inner_fuel : nat).

  (* one inner solve as the outer loop sees it; the world is (cumulative counters, provider) *)
  (* ir_stop: ALMSolver::stop() sets ALM's own flag and the inner solver's flag in the same call, so the one oracle stop_req serves both:
     the outer loop reads its flag after the inner solve, i.e. at the cumulative counters the solve hands on *)
  Definition zdinner (w : counters * D) (i : nat) (x y Σ : list T) (tol : T) (errz : list T)
      : option (inner_res (T:=T) * list T * zresultD D * (counters * D)) :=
    let r := zerofprD (o_psi_grad_full Pb prov wm_supplied y Σ) (o_psi_yhat Pb prov y Σ) (o_grad_L Pb prov) (o_grad_psi Pb prov y Σ) Clb Cub l1
                      D ops (fun c => stop_req (cadd (fst w) c)) (fun c => time_up (cadd (fst w) c))
                      (with_opts PP tol) from_prox x y Σ errz ls_fuel (snd w) inner_fuel in
    match r with
    | ZDoneD _ oD =>
        let o := zo_out D oD in
        Some ({| ir_status := alm_status_of (out_status o); ir_eps := out_eps o; ir_err := Some (out_errz o);
                 ir_y := Some (out_y o); ir_iters := out_iterations o; ir_oot := outer_oot i;
                 ir_stop := stop_req (cadd (fst w) (out_cnt o)) |},
              out_x o, r, (cadd (fst w) (out_cnt o), zo_dir D oD))
    | ZNotFiniteLD _ L =>
        Some ({| ir_status := NotFinite; ir_eps := ninf; ir_err := None; ir_y := None; ir_iters := 0; ir_oot := outer_oot i;
                 ir_stop := stop_req (cadd (fst w) (snd (init_L (o_psi_grad_full Pb prov wm_supplied y Σ) (o_grad_psi Pb prov y Σ) (with_opts PP tol) x))) |},
              x, r, (cadd (fst w) (snd (init_L (o_psi_grad_full Pb prov wm_supplied y Σ) (o_grad_psi Pb prov y Σ) (with_opts PP tol) x)), snd w))
    | ZOutOfFuelD _ => None
    | ZThrewD _ _ => None
    end.

  (* ALMSolver<ZeroFPRSolver<DirectionProviderT>>::operator()(p, x, y, Σ);  d0 = the provider as constructed *)
  Definition alm_zerofpr_dir (d0 : D) (outer_fuel : nat) (nanv : T) (Σ0 : option (list T)) (y0 x0 : list T)
      : option (cout (T:=T) (counters * D) (zresultD D)) :=
    c_run (counters * D)%type (zresultD D) zdinner AP (pb_of Pb split) outer_fuel (pf Pb x0) (pg Pb x0) nanv Σ0 y0 x0 (cnt0, d0).
End AlmZeroFprDir.
