(* AlmPanocProofs.v — END-TO-END: the composed executable model AlmPanoc.alm_panoc (ALM outer loop of Alm.v running the whole-loop PANOC
   model of Panoc.v on a problem given by its four basic functions through the type-erased interface of AugLag.v) returns `Converged`
   only with an approximate KKT point of the USER'S problem.  Over R; for every problem (f, ∇f, g, ∇g·y arbitrary functions), every
   provider mix satisfying provider_ok, every direction / stop / clock oracle, every parameter set. *)
From Coq Require Import Reals List ZArith Lra Lia Bool Arith Psatz.
From Flocq Require Import Raux.
From Alpaqa Require Import Num NumR Vec Prox ProxProofs ProxVec SolverStatus SolverKernels SolverKernelsProofs DescentProofs
                           StopChain StopChainProofs KktProofs AugLag AugLagProofs Panoc PanocProofs PanocLen LiveVec
                           Alm AlmProofs AlmCompose AlmComposeProofs AlmComposeKkt AlmPanoc.
Import ListNotations.
Local Open Scope R_scope.

(* L_init > 0 in every solve *)
Lemma L_init_pos (pgf : list R -> R * list R * list R) (gpsi : list R -> list R) (P : params (T:=R)) x :
  0 < p_L0 P \/ 0 < p_Lmin P <= p_Lmax P -> 0 < L_init pgf gpsi P x.
Proof.
  intros H. unfold L_init, init_L. cbv zeta. change (@nleb R NumR) with Rle_bool. change (@n0 R NumR) with 0.
  destruct (Rle_bool_spec (p_L0 P) 0) as [Hle|Hgt]; cbn [fst iL]; [|exact Hgt].
  destruct H as [H|H]; [lra|]. unfold initial_lipschitz. cbv zeta. unfold std_clamp.
  change (@nltb R NumR) with Rlt_bool. set (v := ndiv _ _). clearbody v.
  destruct (Rlt_bool_spec v (p_Lmin P)); [lra|]. destruct (Rlt_bool_spec (p_Lmax P) v); lra.
Qed.

Lemma alm_status_of_converged s : alm_status_of s = Converged -> s = StConverged.
Proof. destruct s; cbn; intros H; try discriminate; reflexivity. Qed.

Section E2E.
  Variable Pb : problem (T:=R).
  Variable prov : fn -> bool.
  Variable wm_supplied : list R -> list R.
  Variables (Clb Cub : list (option R)) (l1 : list R).
  Variable split : nat.
  Variable dir : nat -> iterate (T:=R) -> option (list R).
  Variable has_initial : bool.
  Variable stop_req : counters -> bool.
  Variable time_up : counters -> bool.
  Variable outer_oot : nat -> bool.
  Variable PP : params (T:=R).
  Variable AP : alm_params (T:=R).
  Variables (ls_fuel inner_fuel : nat).
  Variables (n m : nat).

  Hypothesis Hprov : provider_ok Pb prov.
  Hypothesis Hempty : grad_g_prod_empty_ok Pb.
  Hypothesis Hl1 : l1 = [].
  Hypothesis Hcrit : p_crit PP = ApproxKKT.
  Hypothesis HLg : 0 < p_Lgamma PP.
  Hypothesis HL : 0 < p_L0 PP \/ 0 < p_Lmin PP <= p_Lmax PP.
  Hypothesis HClb : length Clb = n.
  Hypothesis HCub : length Cub = n.
  Hypothesis HCne : Forall2 box_ne Clb Cub.
  Hypothesis Hgf : forall x, length x = n -> length (pgrad_f Pb x) = n.
  Hypothesis Hgg : forall x y, length x = n -> length (pgrad_g_prod Pb x y) = n.
  Hypothesis Hg : forall x, length x = n -> length (pg Pb x) = m.
  Hypothesis HDlb : length (plb Pb) = m.
  Hypothesis HDub : length (pub Pb) = m.
  Hypothesis HDne : Forall2 box_ne (plb Pb) (pub Pb).
  Hypothesis Hdir : forall j i q, dir j i = Some q -> length q = n.

  Notation inner_ := (inner Pb prov wm_supplied Clb Cub l1 dir has_initial stop_req time_up outer_oot PP ls_fuel inner_fuel).
  Notation opgf := (o_psi_grad_full Pb prov wm_supplied).
  Notation opy := (o_psi_yhat Pb prov).
  Notation ogL := (o_grad_L Pb prov).
  Notation ogp := (o_grad_psi Pb prov).

  (* ---- the problem as the inner solver sees it = the closed forms of C04 *)
  Lemma opgf_grad y Σ x : snd (psi_grad (opgf y Σ) x) = grad_psi_def Pb x y Σ.
  Proof. unfold psi_grad, o_psi_grad_full. cbn [fst snd]. now rewrite te_psi_grad_psi_val. Qed.
  Lemma opy_val y Σ x : opy y Σ x = (psi_def Pb x y Σ, yhat_def Pb x y Σ).
  Proof. unfold o_psi_yhat. now apply te_psi_val. Qed.
  Lemma ogL_val x yh : ogL x yh = grad_L_def Pb x yh.
  Proof. unfold o_grad_L. now apply te_grad_L_val. Qed.
  Lemma ogp_val y Σ x : ogp y Σ x = grad_psi_def Pb x y Σ.
  Proof. unfold o_grad_psi. now apply te_grad_psi_val. Qed.
  (* ---- one inner solve *)
  Lemma inner_spec w i x y Σ tol errz r x' lg w' : length x = n ->
    inner_ w i x y Σ tol errz = Some (r, x', lg, w') ->
    length x' = n /\
    (ir_status r = Converged ->
       let yh := yhat_def Pb x' y Σ in
       ir_y r = Some yh /\
       ir_err r = Some (match errz with [] => [] | _ => vdiv (vsub yh y) Σ end) /\
       exists (xx grad : list R) (γ : R),
         let step := proj_grad_step Clb Cub γ xx grad in
         0 < γ /\ length xx = n /\ length grad = n /\ x' = fst (fst step) /\
         ir_eps r = vnorminf (kkt_residual γ (snd (fst step)) grad (grad_L_def Pb x' yh)) /\
         ir_eps r <= eff_tol tol).
  Proof.
    intros Hx. unfold inner.
    match goal with |- context [match ?pr with Done _ => _ | NotFiniteL _ => _ | OutOfFuel => _ end] => destruct pr as [o|L|] eqn:Er end.
    3: discriminate.
    2: { intros E. injection E as E1 E2 E3 E4. subst r x'. split; [exact Hx|]. cbn [ir_status]. discriminate. }
    intros E. injection E as E1 E2 E3 E4. subst r x'. cbn [ir_status ir_y ir_err ir_eps].
    assert (Hpg : forall z, length z = n -> length (snd (psi_grad (opgf y Σ) z)) = n).
    { intros z Hz. rewrite opgf_grad. unfold grad_psi_def. now apply (grad_L_def_length Pb n Hgf Hgg). }
    assert (HgL' : forall z yh, length z = n -> length (ogL z yh) = n).
    { intros z yh Hz. rewrite ogL_val. now apply (grad_L_def_length Pb n Hgf Hgg). }
    assert (Hgp' : forall z, length z = n -> length (ogp y Σ z) = n).
    { intros z Hz. rewrite ogp_val. unfold grad_psi_def. now apply (grad_L_def_length Pb n Hgf Hgg). }
    assert (Hdir' : forall j it q, (fun j it => dir (c_apply w + j)%nat it) j it = Some q -> length q = n).
    { intros j it q Hq. eapply Hdir. exact Hq. }
    split.
    { exact (panoc_out_x_length (opgf y Σ) (opy y Σ) ogL (ogp y Σ) Clb Cub l1 _ has_initial _ _ (with_opts PP tol) x y Σ errz ls_fuel n
               Hl1 HClb HCub Hx Hpg HgL' Hgp' Hdir' inner_fuel o Er). }
    intros Hst. apply alm_status_of_converged in Hst.
    destruct (panoc_inner_contract_len (opgf y Σ) (opy y Σ) ogL (ogp y Σ) Clb Cub l1 _ has_initial _ _ (with_opts PP tol) x y Σ errz ls_fuel n
                Hl1 HClb HCub Hx Hpg HgL' Hgp' Hdir' inner_fuel o Er Hst Hcrit)
      as (xx & grad & gradh & γ & Lxx & Lgr & Lgh & Ex & Lxo & Ey & Egh & Ee & Eeps & Etol & Hγ).
    cbv zeta in *. rewrite opy_val in Ey. cbn [snd] in Ey.
    assert (Egh' : gradh = grad_L_def Pb (out_x o) (yhat_def Pb (out_x o) y Σ)).
    { change (p_eager (with_opts PP tol)) with (p_eager PP) in Egh. destruct (p_eager PP).
      - destruct Egh as [->| ->]; [rewrite opgf_grad|rewrite ogp_val]; reflexivity.
      - rewrite Egh, ogL_val, Ey. reflexivity. }
    split; [now rewrite Ey|]. split; [now rewrite Ee, Ey|].
    exists xx, grad, γ. split.
    { apply Hγ; [exact HLg|]. apply L_init_pos. exact HL. }
    split; [exact Lxx|]. split; [exact Lgr|]. split; [exact Ex|]. split; [now rewrite Eeps, Egh'|exact Etol].
  Qed.

  Lemma inner_keeps_length w i x y Σ tol e r x' lg w' : length x = n -> inner_ w i x y Σ tol e = Some (r, x', lg, w') -> length x' = n.
  Proof. intros Hx Hi. destruct (inner_spec w i x y Σ tol e r x' lg w' Hx Hi) as [A _]. exact A. Qed.

  (* every inner call satisfies the contract of the generic lemma *)
  Lemma inner_contract : inner_contract_kkt counters (result (T:=R)) inner_ Pb Clb Cub n.
  Proof. intros w i x y Σ tol errz r x' lg w' Hx Hi. exact (inner_spec w i x y Σ tol errz r x' lg w' Hx Hi). Qed.

  (* ================================================================ THE theorem *)
  Theorem alm_panoc_converged_is_kkt outer_fuel nanv Σ0 y0 x0 co :
    length x0 = n -> length y0 = m ->
    Alm.p_max_iter AP <> 0%nat ->
    (m <> 0%nat -> sigma_inv AP m (initial_sigma AP m (pf Pb x0) (pg Pb x0) Σ0)) ->
    (m = 0%nat -> 0 < p_tol AP) ->
    alm_panoc Pb prov wm_supplied Clb Cub l1 split dir has_initial stop_req time_up outer_oot PP AP ls_fuel inner_fuel
              outer_fuel nanv Σ0 y0 x0 = Some co ->
    f_status (co_final co) = Converged ->
    let x := co_x co in let y := f_y (co_final co) in
    length x = n /\ length y = m /\
    (forall i, (i < n)%nat -> in_box (nth i Clb None) (nth i Cub None) (nth i x 0)) /\
    (forall i, (i < n)%nat -> exists r,
        (forall u, in_box (nth i Clb None) (nth i Cub None) u -> r * (u - nth i x 0) <= 0) /\
        Rabs (- nth i (vadd (pgrad_f Pb x) (pgrad_g_prod Pb x y)) 0 - r) <= p_tol AP) /\
    (forall i, (i < m)%nat -> exists z,
        in_box (nth i (plb Pb) None) (nth i (pub Pb) None) z /\ Rabs (nth i (pg Pb x) 0 - z) <= p_dual_tol AP) /\
    (forall i, (i < m)%nat ->
        (0 < nth i y 0 -> exists u, nth i (pub Pb) None = Some u /\ Rabs (nth i (pg Pb x) 0 - u) <= p_dual_tol AP) /\
        (nth i y 0 < 0 -> exists l, nth i (plb Pb) None = Some l /\ Rabs (nth i (pg Pb x) 0 - l) <= p_dual_tol AP)).
  Proof.
    intros Hx0 Hy0 Hmi HΣ Htol Hrun Hst. unfold alm_panoc in Hrun.
    exact (compose_converged_is_kkt counters (result (T:=R)) inner_ Pb Clb Cub split AP n m HClb HCub HCne Hgf Hgg Hg HDlb HDub HDne
             inner_contract outer_fuel nanv Σ0 y0 x0 cnt0 co Hx0 Hy0 Hmi HΣ Htol Hrun Hst).
  Qed.
End E2E.

(* ================================================================ non-vacuity *)
(* a PANOC run whose first iterate already meets the tolerance (L_0 > 0 given, L_0 >= L_max so that no QUB backtracking applies, lazy
   gradient evaluation, ApproxKKT): Converged at k = 0 with the first prox point *)
Section At0.
  Variable psi_grad_full : list R -> R * list R * list R.
  Variable psi_yhat : list R -> R * list R.
  Variable grad_L : list R -> list R -> list R.
  Variable grad_psi : list R -> list R.
  Variables (lb ub : list (option R)) (l1 : list R).
  Variable dir_apply : nat -> iterate (T:=R) -> option (list R).
  Variable has_initial : bool.
  Variable stop_req : counters -> bool.
  Variable time_up : counters -> bool.
  Variable P : params (T:=R).
  Variables (x_in y_in Σ errz_in : list R).
  Variable ls_fuel : nat.
  Variables (ψ0 ψh h ε : R) (g0 wm0 xh p yh gh : list R).
  Hypothesis HL0 : 0 < p_L0 P.
  Hypothesis HLmax : p_Lmax P <= p_L0 P.
  Hypothesis Heager : p_eager P = false.
  Hypothesis Hcrit : p_crit P = ApproxKKT.
  Hypothesis H1 : psi_grad_full x_in = (ψ0, g0, wm0).
  Hypothesis H2 : eval_prox_grad_step lb ub l1 (p_Lgamma P / p_L0 P) x_in g0 = (xh, p, h).
  Hypothesis H3 : psi_yhat xh = (ψh, yh).
  Hypothesis H4 : grad_L xh yh = gh.
  Hypothesis H5 : vnorminf (kkt_residual (p_Lgamma P / p_L0 P) p g0 gh) = ε.
  Hypothesis H6 : ε <= eff_tol (o_tol P).

  Lemma panoc_converged_at_0 fuel :
    exists o, panoc psi_grad_full psi_yhat grad_L grad_psi lb ub l1 dir_apply has_initial stop_req time_up P x_in y_in Σ errz_in ls_fuel (S fuel) = Done o /\
      out_status o = StConverged /\ out_iterations o = 0%nat /\ out_eps o = ε /\ out_x o = xh /\ out_y o = yh /\
      out_errz o = match errz_in with [] => [] | _ => vdiv (vsub yh y_in) Σ end.
  Proof.
    unfold panoc, init_L, psi_grad. cbv zeta. rewrite H1. cbn [fst snd].
    change (@nleb R NumR) with Rle_bool. change (@n0 R NumR) with 0.
    destruct (Rle_bool_spec (p_L0 P) 0) as [Hc|_]; [lra|].
    cbn [iL nfinite NumR negb]. change (@ndiv R NumR) with Rdiv.
    unfold eval_prox, set_gamma_L. cbn [ix ixh igrad ip iyh ipsi ipsih igam iL ipp igp ih ihave igradh]. rewrite H2. cbn [fst snd].
    unfold eval_psih. rewrite Heager. cbn [ix ixh igrad ip iyh ipsi ipsih igam iL ipp igp ih ihave igradh]. rewrite H3. cbn [fst snd].
    assert (Hq : forall i c s, iL i = p_L0 P -> init_qub psi_grad_full psi_yhat lb ub l1 P ls_fuel i c s = Some (i, c, s)).
    { intros i c s Hi. destruct ls_fuel; cbn [init_qub]; rewrite Hi; change (@nltb R NumR) with Rlt_bool;
        (destruct (Rlt_bool_spec (p_L0 P) (p_Lmax P)) as [Hc|_]; [lra|reflexivity]). }
    rewrite Hq by reflexivity.
    cbn [loop]. unfold pass. cbn [st_curr ihave]. unfold need_gradh. rewrite Hcrit. cbn [crit_needs_gradh negb andb].
    unfold eval_gradh. rewrite Heager. cbn [ix ixh igrad ip iyh ipsi ipsih igam iL ipp igp ih ihave igradh]. rewrite H4.
    unfold it_eps. rewrite Hcrit. cbn [crit_eps ix ixh igrad ip iyh ipsi ipsih igam iL ipp igp ih ihave igradh]. rewrite H5.
    rewrite tolerance_wins by (apply Rle_bool_iff; exact H6).
    cbn [overwrites]. rewrite !andb_false_r. unfold exit_block. cbn [overwrites ixh iyh].
    eexists. split; [reflexivity|]. cbn [out_status out_iterations out_eps out_x out_y out_errz st_k]. repeat split.
  Qed.
End At0.

(* ---- a concrete instance: n = 1, m = 1.   minimise x  s.t.  x in C = [0,1],  g(x) = x in D = (-inf, 0];  x0 = 0, y0 = 0.
   The first prox point of the first inner solve is x̂ = 0 with residual 0: PANOC converges at k = 0, the slack error is 0,
   ALM returns Converged after one outer iteration (KKT multiplier of the bound x >= 0 is r = -1). *)
Definition nvPb : problem (T:=R) :=
  {| pf := fun x => hd 0 x; pgrad_f := fun _ => [1]; pg := fun x => [hd 0 x];
     pgrad_g_prod := fun _ y => [hd 0 y]; plb := [None]; pub := [Some 0];
     uf_grad_f := fun _ => (0, []); uf_g := fun _ => (0, []); ugrad_f_grad_g_prod := fun _ _ => ([], []);
     ugrad_L := fun _ _ => []; upsi := fun _ _ _ => (0, []); ugrad_psi := fun _ _ _ => [];
     upsi_grad_psi := fun _ _ _ => (0, []); uhess_L_prod := fun _ _ _ _ => []; uhess_psi_prod := fun _ _ _ _ _ => [] |}.
Definition nvprov : fn -> bool := fun _ => false.
Definition nvPP : params (T:=R) :=
  mkParams 10 10 1 (1/1000000) (1/1000000) (1/2) 1 1 ApproxKKT 0 0 (1/2) (1/2) (1/4) false false false false true 0.
Definition nvAP : alm_params (T:=R) :=
  {| p_tol := 1; p_dual_tol := 1; p_Delta := 2; p_init_pen := 1; p_init_pen_factor := 1; p_init_tol := 1; p_rho := 1/2; p_theta := 1/4;
     p_M := 10; p_max_pen := 100; p_min_pen := 1/100; Alm.p_max_iter := 5; p_single := false |}.
Definition nv_dir : nat -> iterate (T:=R) -> option (list R) := fun _ _ => None.
Definition nv_never : counters -> bool := fun _ => false.
Definition nv_run :=
  alm_panoc nvPb nvprov (fun _ => []) [Some 0] [Some 1] [] 0 nv_dir false nv_never nv_never (fun _ => false) nvPP nvAP 5 5 3 0 None [0] [0].

Ltac rbb := repeat (match goal with
  | |- context [Rle_bool ?a ?b] => (rewrite (Rle_bool_true a b) by lra) || (rewrite (Rle_bool_false a b) by lra)
  | |- context [Rlt_bool ?a ?b] => (rewrite (Rlt_bool_true a b) by lra) || (rewrite (Rlt_bool_false a b) by lra)
  end; cbv iota beta).
Ltac rcomp := cbv -[Rplus Rminus Rmult Rdiv Rinv Ropp Rle_bool Rlt_bool Req_bool Rabs IZR sqrt]; rbb.

Lemma nv_provider_ok : provider_ok nvPb nvprov.
Proof. unfold provider_ok, nvprov. repeat split; discriminate. Qed.
Lemma nv_empty_ok : grad_g_prod_empty_ok nvPb.
Proof. intros x. cbn. f_equal. lra. Qed.

Lemma nv_yhat : yhat_def nvPb [0] [0] [1] = [0].
Proof. rcomp. f_equal. lra. Qed.

Lemma nv_inner : exists lg w',
  inner nvPb nvprov (fun _ => []) [Some 0] [Some 1] [] nv_dir false nv_never nv_never (fun _ => false) nvPP 5 5 cnt0 0 [0] [0] [1] 1 [0]
  = Some ({| ir_status := Converged; ir_eps := 0; ir_err := Some [0]; ir_y := Some [0]; ir_iters := 0; ir_oot := false; ir_stop := false |}, [0], lg, w').
Proof.
  unfold inner.
  set (pgf := o_psi_grad_full nvPb nvprov (fun _ => []) [0] [1]).
  destruct (pgf [0]) as [[ψ0 g0] wm0] eqn:H1.
  assert (Hg0 : g0 = [1 + 0]).
  { pose proof (opgf_grad nvPb nvprov (fun _ => []) nv_provider_ok nv_empty_ok [0] [1] [0]) as Hg. fold pgf in Hg.
    unfold psi_grad in Hg. rewrite H1 in Hg. cbn [fst snd] in Hg. rewrite Hg. unfold grad_psi_def. rewrite nv_yhat. reflexivity. }
  subst g0.
  assert (H2 : eval_prox_grad_step [Some 0] [Some 1] [] (p_Lgamma (with_opts nvPP 1) / p_L0 (with_opts nvPP 1)) [0] [1 + 0] = ([0], [0], 0)).
  { rcomp. f_equal. f_equal; f_equal; lra. }
  assert (H3 : o_psi_yhat nvPb nvprov [0] [1] [0] = (psi_def nvPb [0] [0] [1], [0])).
  { rewrite (opy_val nvPb nvprov nv_provider_ok). now rewrite nv_yhat. }
  assert (H4 : o_grad_L nvPb nvprov [0] [0] = [1 + 0]).
  { rewrite (ogL_val nvPb nvprov nv_provider_ok nv_empty_ok). reflexivity. }
  assert (H5 : vnorminf (kkt_residual (p_Lgamma (with_opts nvPP 1) / p_L0 (with_opts nvPP 1)) [0] [1 + 0] [1 + 0]) = 0).
  { cbv -[Rplus Rminus Rmult Rdiv Rinv Ropp Rle_bool Rlt_bool Req_bool Rabs IZR sqrt].
    replace (1 / (1 / 2 / 1) * 0 + (1 + 0 - (1 + 0))) with 0 by lra. apply Rabs_R0. }
  assert (H6 : 0 <= eff_tol (o_tol (with_opts nvPP 1))).
  { unfold eff_tol. cbn [o_tol with_opts]. change (@nltb R NumR) with Rlt_bool. change (@n0 R NumR) with 0.
    rewrite (Rlt_bool_true 0 1) by lra. lra. }
  destruct (panoc_converged_at_0 pgf (o_psi_yhat nvPb nvprov [0] [1]) (o_grad_L nvPb nvprov) (o_grad_psi nvPb nvprov [0] [1])
              [Some 0] [Some 1] [] (fun j it => nv_dir (c_apply cnt0 + j)%nat it) false (fun c => nv_never (cadd cnt0 c)) (fun c => nv_never (cadd cnt0 c))
              (with_opts nvPP 1) [0] [0] [1] [0] 5 ψ0 (psi_def nvPb [0] [0] [1]) 0 0 [1 + 0] wm0 [0] [0] [0] [1 + 0]
              ltac:(cbn; lra) ltac:(cbn; lra) eq_refl eq_refl H1 H2 H3 H4 H5 H6 4)
    as (o & Hrun & O1 & O2 & O3 & O4 & O5 & O6).
  rewrite Hrun. rewrite O1, O2, O3, O4, O5, O6. cbn [alm_status_of].
  replace (vdiv (vsub [0] [0]) [1]) with [0] by (cbn; f_equal; lra).
  eexists. eexists. reflexivity.
Qed.

Lemma c_loop_S (W Lg : Type) inner (P : alm_params (T:=R)) pb f i s x w :
  c_loop W Lg inner P pb (S f) i s x w =
    match inner w i x (c_y_in P pb s) (s_Sigma s) (s_eps s) (s_err s) with
    | None => None
    | Some (r, x', lg, w') =>
        if f_exhausted (snd (alm_loop P pb i s [r])) then
          match c_loop W Lg inner P pb f (S i) (c_next P pb i s r) x' w' with
          | None => None
          | Some c => Some (mkC W Lg (r :: c_script c) (lg :: c_logs c) (c_x c) (c_w c))
          end
        else Some (mkC W Lg [r] [lg] x' w')
    end.
Proof. reflexivity. Qed.

Lemma nv_converged : exists co, nv_run = Some co /\ f_status (co_final co) = Converged /\ co_x co = [0] /\ f_y (co_final co) = [0].
Proof.
  destruct nv_inner as (lg & w' & Hin).
  unfold nv_run, alm_panoc, c_run, c_script_of.
  change (Nat.eqb (Alm.p_max_iter nvAP) 0) with false. change (Nat.eqb (pb_m (pb_of nvPb 0)) 0) with false. cbv iota.
  set (s0 := init_state nvAP (pb_of nvPb 0) (pf nvPb [0]) (pg nvPb [0]) 0 None [0]).
  assert (Es : s0 = {| s_Sigma := [1]; s_err := [0]; s_err_old := [0]; s_norm_old := 0; s_eps := 1; s_y := [0]; s_fails := 0; s_iters := 0 |})
    by (unfold s0; rcomp; reflexivity).
  assert (Ey : c_y_in nvAP (pb_of nvPb 0) s0 = [0]) by (rewrite Es; rcomp; reflexivity).
  set (r0 := {| ir_status := Converged; ir_eps := 0; ir_err := Some [0]; ir_y := Some [0]; ir_iters := 0; ir_oot := false; ir_stop := false |}) in *.
  assert (Ex : f_exhausted (snd (alm_loop nvAP (pb_of nvPb 0) 0 s0 [r0])) = false).
  { rewrite Es. cbv -[Rplus Rminus Rmult Rdiv Rinv Ropp Rle_bool Rlt_bool Req_bool Rabs IZR sqrt]. rewrite Rabs_R0. rbb. reflexivity. }
  rewrite c_loop_S. rewrite Ey.
  replace (s_Sigma s0) with [1] by (rewrite Es; reflexivity). replace (s_eps s0) with 1 by (rewrite Es; reflexivity).
  replace (s_err s0) with [0] by (rewrite Es; reflexivity). rewrite Hin. rewrite Ex.
  eexists. split; [reflexivity|]. cbn [co_final co_x c_script c_x].
  unfold alm_run. change (Nat.eqb (Alm.p_max_iter nvAP) 0) with false. change (Nat.eqb (pb_m (pb_of nvPb 0)) 0) with false. cbv iota.
  fold s0. rewrite Es.
  cbv -[Rplus Rminus Rmult Rdiv Rinv Ropp Rle_bool Rlt_bool Req_bool Rabs IZR sqrt]. rewrite !Rabs_R0. rbb. repeat split.
Qed.

(* the instance satisfies every hypothesis of the end-to-end theorem (n = 1, m = 1), hence its conclusion *)
Lemma nv_hypotheses :
  provider_ok nvPb nvprov /\ grad_g_prod_empty_ok nvPb /\ p_crit nvPP = ApproxKKT /\ 0 < p_Lgamma nvPP /\
  (0 < p_L0 nvPP \/ 0 < p_Lmin nvPP <= p_Lmax nvPP) /\ Forall2 box_ne [Some 0] [Some 1] /\ Forall2 box_ne (plb nvPb) (pub nvPb) /\
  (forall x, length x = 1%nat -> length (pgrad_f nvPb x) = 1%nat) /\ (forall x y, length x = 1%nat -> length (pgrad_g_prod nvPb x y) = 1%nat) /\
  (forall x, length x = 1%nat -> length (pg nvPb x) = 1%nat) /\ (forall j i q, nv_dir j i = Some q -> length q = 1%nat) /\
  Alm.p_max_iter nvAP <> 0%nat /\ sigma_inv nvAP 1 (initial_sigma nvAP 1 (pf nvPb [0]) (pg nvPb [0]) None).
Proof.
  split; [exact nv_provider_ok|]. split; [exact nv_empty_ok|]. split; [reflexivity|]. split; [cbn; lra|]. split; [left; cbn; lra|].
  split; [constructor; [cbn; lra|constructor]|]. split; [constructor; [exact I|constructor]|].
  split; [reflexivity|]. split; [reflexivity|]. split; [reflexivity|]. split; [discriminate|]. split; [discriminate|].
  assert (E : initial_sigma nvAP 1 (pf nvPb [0]) (pg nvPb [0]) None = [1]) by (rcomp; reflexivity).
  rewrite E. split; [reflexivity|]. split; [constructor; [lra|constructor]|discriminate].
Qed.
