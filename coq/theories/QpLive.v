(* QpLive.v — C02 end to end for PANOC stand-alone on box-constrained strongly convex QPs (m = 0), default criterion ApproxKKT:
   liveness (PanocLiveKkt.panoc_live_kkt_final) gives Converged at an iterate whose reported ε is the ∞-norm of the KKT residual;
   that iterate is an approximate KKT point in the sense of QpBound.qp_error_bound, hence
        μ ‖x̂ - x*‖² <= tol ‖x̂ - x*‖₁ . *)
From Coq Require Import Reals List ZArith Lra Lia Bool Arith Psatz.
From Flocq Require Import Raux.
From Alpaqa Require Import Num NumR Vec Prox ProxProofs ProxVec SolverStatus SolverKernels SolverKernelsProofs DescentProofs
                           StopChain StopChainProofs KktProofs QpBound Panoc PanocProofs LiveVec PanocLive PanocLiveKkt.
Import ListNotations.
Local Open Scope R_scope.

(* r = (x - x̂)/γ - ∇ψ(x) = -p/γ - ∇ψ(x) lies in the normal cone of the box at x̂ *)
Definition ncone_elem (γ : R) (p gx : list R) : list R := map2 (fun pi gi => - pi / γ - gi) p gx.

Lemma ncone_of_step γ : 0 < γ -> forall (lb ub : list (option R)) (x gx : list R),
  length ub = length lb -> length x = length lb -> length gx = length lb -> Forall2 box_ne lb ub ->
  in_ncone lb ub (fst (fst (proj_grad_step lb ub γ x gx))) (ncone_elem γ (snd (fst (proj_grad_step lb ub γ x gx))) gx).
Proof.
  intros Hg. unfold in_ncone, ncone_elem, proj_grad_step; cbn [fst snd].
  induction lb as [|l lb IH]; intros [|u ub] [|a x] [|b gx] H1 H2 H3 Hne; cbn in *; try discriminate; constructor.
  - inversion Hne; subst. cbn [fst snd]. intros u0 Hu0.
    pose proof (proj_residual_in_normal_cone l u γ a b u0 Hg ltac:(assumption) Hu0) as Hr. cbv zeta in Hr.
    pose proof (proj_step1_is_proj l u γ a b) as Ep.
    change (nadd a ?t) with (a + t). rewrite <- Ep in Hr.
    replace (- proj_step1 l u γ a b / γ - b) with ((a - (a + proj_step1 l u γ a b)) / γ - b) by (field; lra). exact Hr.
  - inversion Hne; subst. apply IH; try lia; assumption.
Qed.

Lemma residual_decomposition γ : γ <> 0 -> forall (p gx gh : list R), length gx = length p -> length gh = length p ->
  gh = map Ropp (vplus (ncone_elem γ p gx) (kkt_residual γ p gx gh)).
Proof.
  intros Hg. unfold ncone_elem, kkt_residual, vplus, vadd, vscale, vsub.
  induction p as [|a p IH]; intros [|b gx] [|c gh] H1 H2; cbn in *; try discriminate; [reflexivity|].
  f_equal; [|apply IH; lia]. change (@n1 R NumR) with 1. change (@ndiv R NumR) with Rdiv. change (@nmul R NumR) with Rmult.
  change (@nadd R NumR) with Rplus. change (@nsub R NumR) with Rminus. field. exact Hg.
Qed.

Lemma in_boxv_of_all_in_box lb ub z : all_in_box lb ub z -> in_boxv lb ub z.
Proof. unfold all_in_box, in_boxv. induction 1 as [|a b la lb' [Hin _] _ IH]; constructor; assumption. Qed.

Lemma dot_zero_l n0 : forall v, dot (vminus (repeat 0 n0) (repeat 0 n0)) v = 0.
Proof. unfold dot, vminus. induction n0 as [|k IH]; intros [|a v]; cbn; try lra. rewrite IH. lra. Qed.
Lemma vplus_zero_r : forall (v : list R), vplus v (repeat 0 (length v)) = v.
Proof. unfold vplus. induction v as [|a v IH]; cbn; [reflexivity|]. rewrite IH. f_equal. lra. Qed.

Section QpLive.
  Variable psi_grad_full : list R -> R * list R * list R.
  Variable psi_yhat : list R -> R * list R.
  Variable grad_L : list R -> list R -> list R.
  Variable grad_psi : list R -> list R.
  Variables (lb ub : list (option R)).
  Variable dir_apply : nat -> iterate (T:=R) -> option (list R).
  Variable has_initial : bool.
  Variable P : params (T:=R).
  Variables (x_in y_in Σ errz_in : list R).
  Variable ls_fuel : nat.
  Notation l1 := (@nil R).
  Notation never := (fun _ : counters => false).
  Notation PP f := (f psi_grad_full psi_yhat grad_L grad_psi lb ub l1 dir_apply has_initial never never P x_in y_in Σ errz_in ls_fuel).
  Notation PL f := (f psi_grad_full psi_yhat grad_L grad_psi lb ub dir_apply has_initial P x_in y_in Σ errz_in ls_fuel).
  Notation panoc_ := (panoc psi_grad_full psi_yhat grad_L grad_psi lb ub l1 dir_apply has_initial never never P x_in y_in Σ errz_in ls_fuel).
  Notation pgrad := (psi_grad psi_grad_full).
  Notation Linit := (L_init psi_grad_full grad_psi P x_in).
  Variables (ψ : list R -> R) (g : list R -> list R) (n : nat) (Lf ψinf Lg : R).
  (* the QP data: ∇ψ(x) = Qx + c;  strong convexity modulus μ;  exact KKT point xs with normal-cone element rs *)
  Variables (Qmul : list R -> list R) (c : list R) (μ : R) (xs rs : list R).
  Hypothesis Hgrad_qp : forall x, length x = n -> g x = vplus (Qmul x) c.
  Hypothesis HQlen : forall x, length x = n -> length (Qmul x) = n.
  Hypothesis Hclen : length c = n.
  Hypothesis Hxs : length xs = n /\ length rs = n.
  Hypothesis Hsc : forall x, length x = n -> μ_ok μ Qmul x xs.
  Hypothesis Hkkt_stat : vplus (Qmul xs) c = map Ropp rs.
  Hypothesis Hkkt_C : in_boxv lb ub xs /\ in_ncone lb ub xs rs.

  Hypothesis Hpsi : forall x, pgrad x = (ψ x, g x).
  Hypothesis Hco : coherent psi_grad_full psi_yhat grad_L grad_psi P.
  Hypothesis Hglen : forall x, length x = n -> length (g x) = n.
  Hypothesis Hqub : forall u d, length u = n -> length d = n ->
    ψ (vadd u d) <= ψ u + vdot (g u) d + Lf / 2 * vsqnorm d.
  Hypothesis Hlip : forall u d, length u = n -> length d = n ->
    vsqnorm (vsub (g u) (g (vadd u d))) <= Lg * Lg * vsqnorm d.
  Hypothesis HLg0 : 0 <= Lg.
  Hypothesis Hinf : forall z, all_in_box lb ub z -> ψinf <= ψ z.
  Hypothesis Hlb : length lb = n.
  Hypothesis Hub : length ub = n.
  Hypothesis Hne : Forall2 box_ne lb ub.
  Hypothesis Hxin : length x_in = n.
  Hypothesis Hdir : forall j i q, dir_apply j i = Some q -> length q = n.
  Hypothesis HLg : 0 < p_Lgamma P < 1.
  Hypothesis HL0 : 0 < Linit.
  Hypothesis HLmax : Lf <= p_Lmax P.
  Hypothesis Hqt : p_qub_tol P = 0.
  Hypothesis Hlt : p_ls_tol P = 0.
  Hypothesis Hbeta : 0 < p_beta P <= 1.
  Hypothesis Hforce : p_force_ls P = false.
  Hypothesis Hcrit : p_crit P = ApproxKKT.
  Variables (nL nT : nat).
  Hypothesis HnL : p_Lmax P <= Linit * 2 ^ nL.
  Hypothesis Hfac : 0 <= p_tau_factor P <= 1.
  Hypothesis Hmin : p_tau_factor P ^ nT < p_tau_min P.
  Hypothesis Hfuel : (ls_pass_bound nL nT <= ls_fuel)%nat.

  Notation Phi0 := (Phi0 psi_grad_full grad_psi lb ub P x_in ψ g Lf).
  Notation Dec := (dec_kkt psi_grad_full grad_psi P x_in Lf Lg).

  Theorem panoc_qp_converges_near_minimiser (N fuel : nat) :
    Phi0 - ψinf < INR N * Dec -> (N <= p_max_iter P)%nat -> (N < fuel)%nat ->
    exists o, panoc_ fuel = Done o /\ out_status o = StConverged /\ (out_iterations o < N)%nat /\
      μ * dot (vminus (out_x o) xs) (vminus (out_x o) xs) <= eff_tol (o_tol P) * norm1 (vminus (out_x o) xs).
  Proof.
    intros HN Hmax Hf.
    pose proof (PL panoc_live_kkt_final ψ g n Lf ψinf Lg) as X. spec X. specialize (X nL nT). spec X.
    destruct (X N fuel HN Hmax Hf) as (o & Hrun & Hst & Hit & cf & Hc & Hhave & G & Ex & Ee). clear X.
    exists o. split; [exact Hrun|]. split; [exact Hst|]. split; [exact Hit|].
    (* the reported ε is within the tolerance *)
    destruct (PP panoc_status_clauses fuel o Hrun) as (_ & _ & _ & Hcv & _). apply Hcv in Hst. rewrite Ee in Hst.
    (* the final iterate *)
    pose proof (g_facts _ _ _ _ _ _ _ _ _ _ cf G) as F. pose proof (g_len _ _ _ _ _ _ _ _ _ _ cf G) as Hlx.
    pose proof (PL good_gam ψ g n Lf) as Hgg. spec Hgg. destruct (Hgg cf G) as (Hg & _).
    assert (Hh : ihave cf = true) by (apply Hhave; unfold need_gradh; now rewrite Hcrit).
    destruct (PP consistent_coherent cf Hco Hc) as [_ E2]. specialize (E2 Hh). rewrite Hpsi in E2. cbn [snd] in E2.
    unfold it_eps, crit_eps in Hst. rewrite Hcrit in Hst. rewrite (f_grad _ _ _ _ _ cf F), E2 in Hst.
    set (xh := ixh cf) in *. set (p := ip cf) in *. set (γ := igam cf) in *. set (x := ix cf) in *.
    assert (Lxh : length xh = n) by apply (f_lenxh _ _ _ _ _ cf F).
    assert (Lp : length p = n) by apply (f_lenp _ _ _ _ _ cf F).
    set (s := kkt_residual γ p (g x) (g xh)) in *.
    set (r := ncone_elem γ p (g x)).
    assert (Lr : length r = n) by (unfold r, ncone_elem; apply map2_length; [exact Lp|now apply Hglen]).
    assert (Ls : length s = n).
    { unfold s, kkt_residual. apply vadd_length; [now rewrite vscale_length|]. unfold vsub. apply map2_length; now apply Hglen. }
    rewrite Ex.
    pose proof (qp_error_bound Qmul (fun _ => []) (fun _ => repeat 0 n) c lb ub [] [] μ n 0%nat xs [] xh [] rs r s [] [] (eff_tol (o_tol P)) 0) as B.
    destruct Hxs as [Lxs Lrs].
    assert (B' : μ * dot (vminus xh xs) (vminus xh xs) <= eff_tol (o_tol P) * norm1 (vminus xh xs) + 0 * norm1 (vminus [] [])).
    { apply B; clear B.
      - repeat split; try assumption; try (now apply HQlen); apply repeat_length.
      - repeat split; reflexivity.
      - now apply Hsc.
      - rewrite dot_zero_l. reflexivity.
      - rewrite <- Hkkt_stat. rewrite <- (vplus_zero_r (vplus (Qmul xs) c)) at 2. f_equal. f_equal.
        unfold vplus. symmetry. apply map2_length; [now apply HQlen|exact Hclen].
      - exact Hkkt_C.
      - split; constructor.
      - replace (repeat 0 n) with (repeat 0 (length (vplus (Qmul xh) c))).
        2:{ f_equal. unfold vplus. apply map2_length; [now apply HQlen|exact Hclen]. }
        rewrite vplus_zero_r, <- (Hgrad_qp xh Lxh). unfold r, s.
        apply residual_decomposition; [lra| |]; rewrite Lp; now apply Hglen.
      - split.
        + apply in_boxv_of_all_in_box. apply (f_box _ _ _ _ _ cf F).
        + pose proof (ncone_of_step γ Hg lb ub x (g x) ltac:(lia) ltac:(lia) ltac:(rewrite Hglen; lia) Hne) as Hn.
          unfold γ, x in Hn. rewrite (f_step _ _ _ _ _ cf F) in Hn. cbn [fst snd] in Hn. exact Hn.
      - apply vnorminf_le_bound. exact Hst.
      - reflexivity.
      - split; constructor.
      - constructor. }
    lra.
  Qed.
End QpLive.
