(* PantrDirProofs.v — PantrDir.pantrD (PANTR with a stateful trust-region direction provider) REFINES Pantr.pantr (PANTR with a
   direction oracle): for every provider (any trdirops over any state type) and every run of pantrD, the oracle
        tr_apply j _ _ := (q, q_model) returned by the j-th apply call of that run
   makes Pantr.pantr produce EXACTLY the same outputs (status, iteration count, ε, written-back x / y / err_z, final iterate,
   statistics, event counters and the whole progress-callback log incl. q, Δ, ρ).  Generic in the number system (no numeric fact used).
   Then, over R: the theorems of PantrProofs.v for every provider, provider invariants, the call log (every entry IS an apply call of
   the provider at a reachable FBS iterate with a radius >= min_radius), and the composition with C11 for NewtonTRDirection. *)
From Coq Require Import List ZArith Bool Arith Lia.
From Alpaqa Require Import Num Vec Prox SolverStatus SolverKernels StopChain Panoc ZeroFpr Pantr DirectionsTR PantrDir.
Import ListNotations.

Section Refine.
  Context {T : Type} `{Num T}.
  Local Open Scope num_scope.

  Variable psi_grad_full : list T -> T * list T * list T.
  Variable psi_yhat : list T -> T * list T.
  Variable grad_L : list T -> list T -> list T.
  Variable grad_psi : list T -> list T.
  Variables (lb ub : list (option T)) (l1 : list T).
  Variable D : Type.
  Variable ops : trdirops T D.
  Variable stop_req : counters -> bool.
  Variable time_up : counters -> bool.
  Variable TP : trparams (T:=T).
  Variables (x_in y_in Σ errz_in : list T).
  Variable bt_fuel : nat.

  Notation P := (tp_base TP).
  Notation hasinit := (td_has_initial D ops).
  Notation tpass_ O := (tpass psi_grad_full psi_yhat grad_L lb ub l1 O hasinit stop_req time_up TP x_in y_in Σ errz_in bt_fuel).
  Notation tloop_ O := (tloop psi_grad_full psi_yhat grad_L lb ub l1 O hasinit stop_req time_up TP x_in y_in Σ errz_in bt_fuel).
  Notation pantr_ O := (pantr psi_grad_full psi_yhat grad_L grad_psi lb ub l1 O hasinit stop_req time_up TP x_in y_in Σ errz_in bt_fuel).
  Notation passprox := (pass_prox psi_grad_full grad_L lb ub l1 stop_req time_up TP).
  Notation passD_ := (passD psi_grad_full psi_yhat grad_L lb ub l1 D ops stop_req time_up TP x_in y_in Σ errz_in bt_fuel).
  Notation tloopD_ := (tloopD psi_grad_full psi_yhat grad_L lb ub l1 D ops stop_req time_up TP x_in y_in Σ errz_in bt_fuel).
  Notation pantrD_ := (pantrD psi_grad_full psi_yhat grad_L grad_psi lb ub l1 D ops stop_req time_up TP x_in y_in Σ errz_in bt_fuel).
  Notation bt := (ZeroFpr.init_qub psi_yhat lb ub l1 P bt_fuel).
  Notation tstate := (tstate (T:=T)).
  Notation iterate := (iterate (T:=T)).

  (* the acceleration test of the pass *)
  Definition called (s : tstate) : bool := ((0 <? ts_k s)%nat || hasinit) && negb (tp_disable_accel TP).

  (* ------------------------------------------------------------------ Pantr.tpass reads its oracle at one point only *)
  Lemma tpass_at (O : nat -> iterate -> T -> list T * T) (s : tstate) prox c4 :
    passprox s = Some (prox, c4) -> tpass_ O s = tpass_ (oracle_const (O (c_apply c4) prox (ts_delta s))) s.
  Proof.
    unfold pass_prox, tpass, Pantr.P. cbv zeta.
    match goal with |- context [stop_status_helpers ?a ?b ?c ?d ?e ?f ?g ?h] => destruct (stop_status_helpers a b c d e f g h) end;
      try discriminate.
    intros E. injection E as <- <-. unfold tr_step, oracle_const. reflexivity.
  Qed.

  Lemma tpass_exit (O O' : nat -> iterate -> T -> list T * T) (s : tstate) :
    passprox s = None -> tpass_ O s = tpass_ O' s /\ forall s', tpass_ O s <> TCont s'.
  Proof.
    unfold pass_prox, tpass, Pantr.P. cbv zeta.
    match goal with |- context [stop_status_helpers ?a ?b ?c ?d ?e ?f ?g ?h] => destruct (stop_status_helpers a b c d e f g h) end;
      try discriminate; intros _;
      match goal with |- context [exit_block ?a ?b ?c ?d ?e ?f ?g ?h] => destruct (exit_block a b c d e f g h) as [[xo yo] eo] end;
      (split; [reflexivity|discriminate]).
  Qed.

  Lemma tpass_busy (O : nat -> iterate -> T -> list T * T) (s : tstate) prox c4 :
    passprox s = Some (prox, c4) -> forall o, tpass_ O s <> TExit o.
  Proof.
    unfold pass_prox, tpass, Pantr.P. cbv zeta.
    match goal with |- context [stop_status_helpers ?a ?b ?c ?d ?e ?f ?g ?h] => destruct (stop_status_helpers a b c d e f g h) end;
      try discriminate.
    intros _ o. unfold finish_iter.
    match goal with |- context [tr_step ?a ?b ?c ?d ?e ?f ?g ?h ?i ?j ?k ?l] => destruct (tr_step a b c d e f g h i j k l) as [[[[[[[cand q] Δ] ρ] acc] c8] st3] ok] end.
    destruct ok; cbn [negb]; [|discriminate].
    destruct acc.
    - match goal with |- context [match ?b with Some _ => _ | None => _ end] => destruct b as [[[? ?] ?]|] end; discriminate.
    - match goal with |- context [match ?b with Some _ => _ | None => _ end] => destruct b as [[[? ?] ?]|] end; discriminate.
  Qed.

  (* ------------------------------------------------------------------ the apply counter *)
  Lemma bt_c_apply : forall fuel i c st i' c' st',
    ZeroFpr.init_qub psi_yhat lb ub l1 P fuel i c st = Some (i', c', st') -> c_apply c' = c_apply c.
  Proof.
    induction fuel as [|f IH]; intros i c st i' c' st'; cbn [ZeroFpr.init_qub];
      destruct ((iL i <? p_Lmax P) && it_qub_violated P i); try discriminate.
    - intros E. now injection E as _ <- _.
    - intros E. rewrite (IH _ _ _ _ _ _ E). reflexivity.
    - intros E. now injection E as _ <- _.
  Qed.

  Lemma pass_prox_c_apply (s : tstate) prox c4 : passprox s = Some (prox, c4) -> c_apply c4 = c_apply (ts_cnt s).
  Proof.
    unfold pass_prox. cbv zeta.
    match goal with |- context [stop_status_helpers ?a ?b ?c ?d ?e ?f ?g ?h] => destruct (stop_status_helpers a b c d e f g h) end;
      try discriminate.
    intros E. injection E as _ <-.
    destruct (crit_needs_gradh (p_crit P)); destruct (ts_k s =? 0)%nat; reflexivity.
  Qed.

  Lemma tpass_c_apply (O : nat -> iterate -> T -> list T * T) (s s' : tstate) :
    tpass_ O s = TCont s' -> c_apply (ts_cnt s') = (c_apply (ts_cnt s) + (if called s then 1 else 0))%nat.
  Proof.
    unfold tpass, Pantr.P, called. cbv zeta.
    match goal with |- context [stop_status_helpers ?a ?b ?c ?d ?e ?f ?g ?h] => destruct (stop_status_helpers a b c d e f g h) end.
    2-8: (match goal with |- context [exit_block ?a ?b ?c ?d ?e ?f ?g ?h] => destruct (exit_block a b c d e f g h) as [[xo yo] eo] end; discriminate).
    set (c4 := if (ts_k s =? 0)%nat then _ else _).
    assert (Hc4 : c_apply c4 = c_apply (ts_cnt s)).
    { unfold c4. destruct (crit_needs_gradh (p_crit P)); destruct (ts_k s =? 0)%nat; reflexivity. }
    unfold tr_step, finish_iter, Pantr.backtrack, Pantr.P.
    destruct (((0 <? ts_k s)%nat || hasinit) && negb (tp_disable_accel TP)).
    - match goal with |- context [O ?a ?b ?c] => destruct (O a b c) as [q qm] end. cbn [fst snd].
      destruct (vall_finite q && (qm <? n0)).
      + destruct (tp_ratio_new_step TP).
        * match goal with |- context [bt ?i ?c ?st] => destruct (bt i c st) as [[[cand1 c7] st2]|] eqn:Eb end; cbn [negb]; [|discriminate].
          pose proof (bt_c_apply _ _ _ _ _ _ _ Eb) as Hb. cbn [c_apply inc_py inc_pg inc_apply] in Hb.
          match goal with |- context [if ?b then _ else _] => destruct b end.
          -- intros E. injection E as <-. cbn [ts_cnt c_apply inc_dir inc_cb]. lia.
          -- match goal with |- context [bt ?i ?c ?st] => destruct (bt i c st) as [[[p2 c10] st5]|] eqn:Eb2 end; [|discriminate].
             pose proof (bt_c_apply _ _ _ _ _ _ _ Eb2) as Hb2. cbn [c_apply inc_py inc_cb] in Hb2.
             intros E. injection E as <-. cbn [ts_cnt]. destruct (tp_upd_on_prox TP); cbn [c_apply inc_dir]; lia.
        * cbn [negb].
          match goal with |- context [if ?b then _ else _] => destruct b end.
          -- match goal with |- context [bt ?i ?c ?st] => destruct (bt i c st) as [[[cand2 c10] st4]|] eqn:Eb end; [|discriminate].
             pose proof (bt_c_apply _ _ _ _ _ _ _ Eb) as Hb. cbn [c_apply inc_py inc_pg inc_apply inc_cb] in Hb.
             intros E. injection E as <-. cbn [ts_cnt c_apply inc_dir]. lia.
          -- match goal with |- context [bt ?i ?c ?st] => destruct (bt i c st) as [[[p2 c10] st5]|] eqn:Eb2 end; [|discriminate].
             pose proof (bt_c_apply _ _ _ _ _ _ _ Eb2) as Hb2. cbn [c_apply inc_py inc_cb inc_pg inc_apply] in Hb2.
             intros E. injection E as <-. cbn [ts_cnt]. destruct (tp_upd_on_prox TP); cbn [c_apply inc_dir]; lia.
      + cbn [negb].
        match goal with |- context [bt ?i ?c ?st] => destruct (bt i c st) as [[[p2 c10] st5]|] eqn:Eb2 end; [|discriminate].
        pose proof (bt_c_apply _ _ _ _ _ _ _ Eb2) as Hb2. cbn [c_apply inc_py inc_cb inc_apply] in Hb2.
        intros E. injection E as <-. cbn [ts_cnt]. destruct (tp_upd_on_prox TP); cbn [c_apply inc_dir]; lia.
    - cbn [negb].
      match goal with |- context [bt ?i ?c ?st] => destruct (bt i c st) as [[[p2 c10] st5]|] eqn:Eb2 end; [|discriminate].
      pose proof (bt_c_apply _ _ _ _ _ _ _ Eb2) as Hb2. cbn [c_apply inc_py inc_cb] in Hb2.
      intros E. injection E as <-. cbn [ts_cnt]. destruct (tp_upd_on_prox TP); cbn [c_apply inc_dir]; lia.
  Qed.

  (* ------------------------------------------------------------------ the oracle read off the call log *)
  Definition oracle_of (calls : list (tcall (T:=T))) : nat -> iterate -> T -> list T * T :=
    fun j _ _ => match nth_error calls j with Some c => (tc_q c, tc_val c) | None => ([], n0) end.

  Lemma nth_error_mid {A} (a : list A) (x : A) (b : list A) : nth_error ((a ++ [x]) ++ b) (length a) = Some x.
  Proof. rewrite <- app_assoc. rewrite nth_error_app2 by lia. now rewrite Nat.sub_diag. Qed.

  Definition InvD (sD : tstateD (T:=T) D) : Prop := length (tsd_calls D sD) = c_apply (ts_cnt (tsd_st D sD)).

  (* ------------------------------------------------------------------ one pass *)
  Lemma pass_sim (sD : tstateD (T:=T) D) : InvD sD ->
    match passD_ sD with
    | TExitD _ oD => (forall TR, tpass_ (oracle_of TR) (tsd_st D sD) = TExit (tod_out D oD)) /\ tod_calls D oD = tsd_calls D sD
    | TContD _ sD' =>
        (exists ext, tsd_calls D sD' = tsd_calls D sD ++ ext) /\ InvD sD' /\
        (forall ext', tpass_ (oracle_of (tsd_calls D sD' ++ ext')) (tsd_st D sD) = TCont (tsd_st D sD'))
    | _ => True
    end.
  Proof.
    destruct sD as [s d rej calls]. unfold InvD. cbn [tsd_st tsd_calls]. intros Hi.
    unfold passD. cbn [tsd_st tsd_dir tsd_rej tsd_calls].
    destruct (passprox s) as [[prox c4]|] eqn:Ep.
    - destruct (if (ts_k s =? 0)%nat then td_initialize D ops d y_in Σ (igam prox) (ix prox) (ixh prox) (ip prox) (igrad prox) else Some d)
        as [d1|]; [|exact I].
      fold (called s).
      destruct (called s) eqn:Ec.
      + destruct (td_apply D ops d1 (igam prox) (ix prox) (ixh prox) (ip prox) (igrad prox) (ts_delta s) (ts_q s)) as [[[q qm] d2]|]; [|exact I].
        destruct (tpass_ (oracle_const (q, qm)) s) as [o|s'|] eqn:Et; try exact I.
        cbn [tsd_st tsd_calls]. split; [eexists; reflexivity|]. split.
        * rewrite app_length. cbn [length]. rewrite (tpass_c_apply _ _ _ Et), Ec. lia.
        * intros ext'. rewrite (tpass_at _ s prox c4 Ep).
          assert (E : oracle_of ((calls ++ [mkCall prox (ts_delta s) q qm]) ++ ext') (c_apply c4) prox (ts_delta s) = (q, qm)).
          { unfold oracle_of. rewrite (pass_prox_c_apply _ _ _ Ep), <- Hi, nth_error_mid. reflexivity. }
          rewrite E. exact Et.
      + destruct (tpass_ (oracle_const (ts_q s, n0)) s) as [o|s'|] eqn:Et; try exact I.
        cbn [tsd_st tsd_calls]. split; [exists []; now rewrite app_nil_r|]. split.
        * rewrite (tpass_c_apply _ _ _ Et), Ec. lia.
        * intros ext'. rewrite <- Et.
          (* no apply call in this pass: tr_step ignores the oracle *)
          clear Et. unfold tpass, Pantr.P. cbv zeta.
          match goal with |- context [stop_status_helpers ?a ?b ?c ?d ?e ?f ?g ?h] => destruct (stop_status_helpers a b c d e f g h) end; try reflexivity.
          unfold tr_step. unfold called in Ec. rewrite Ec. reflexivity.
    - destruct (tpass_exit (oracle_const ([], n0)) (oracle_const ([], n0)) s Ep) as [_ Hn].
      destruct (tpass_ (oracle_const ([], n0)) s) as [o|s'|] eqn:Et; try exact I.
      cbn [tod_out tod_calls]. split; [|reflexivity].
      intros TR. destruct (tpass_exit (oracle_of TR) (oracle_const ([], n0)) s Ep) as [E _]. rewrite E. exact Et.
  Qed.

  Lemma loop_sim : forall fuel sD oD, InvD sD -> tloopD_ fuel sD = TDoneD D oD ->
    (exists ext, tod_calls D oD = tsd_calls D sD ++ ext) /\
    tloop_ (oracle_of (tod_calls D oD)) fuel (tsd_st D sD) = TDone (tod_out D oD).
  Proof.
    induction fuel as [|f IH]; intros sD oD Hi; [discriminate|].
    cbn [tloopD tloop]. pose proof (pass_sim sD Hi) as Hp.
    destruct (passD_ sD) as [o|sD'| |]; try discriminate.
    - intros E. injection E as <-. destruct Hp as [Hp Hc]. split; [exists []; now rewrite app_nil_r, Hc|].
      now rewrite Hp.
    - intros E. destruct Hp as ([ext1 E1] & Hi' & Hall). destruct (IH _ _ Hi' E) as ([ext2 E2] & Hl).
      split; [exists (ext1 ++ ext2); now rewrite E2, E1, app_assoc|].
      pose proof (Hall ext2) as Ht. rewrite <- E2 in Ht. rewrite Ht. exact Hl.
  Qed.

  Lemma init_L_c_apply0 : c_apply (snd (init_L psi_grad_full grad_psi P x_in)) = 0%nat.
  Proof. unfold init_L. destruct (p_L0 P <=? n0); reflexivity. Qed.

  Variable d0 : D.

  Theorem pantrD_refines fuel oD : pantrD_ d0 fuel = TDoneD D oD ->
    pantr_ (oracle_of (tod_calls D oD)) fuel = TDone (tod_out D oD).
  Proof.
    unfold pantrD, pantr, Pantr.backtrack, Pantr.ecost, Pantr.eprox, Pantr.P. pose proof init_L_c_apply0 as H0.
    destruct (init_L psi_grad_full grad_psi P x_in) as [i0 c0]. cbn [snd] in H0.
    destruct (negb (nfinite (iL i0))); [discriminate|].
    match goal with |- context [bt ?i ?c ?st] => destruct (bt i c st) as [[[i3 c1] s1]|] eqn:Eb end; [|discriminate].
    intros E. apply loop_sim in E; [exact (proj2 E)|].
    unfold InvD. cbn [tsd_calls tsd_st ts_cnt length]. rewrite (bt_c_apply _ _ _ _ _ _ _ Eb). cbn [c_apply inc_py]. now symmetry.
  Qed.

  Lemma tloopD_never_nf : forall fuel sD L, tloopD_ fuel sD <> TNotFiniteLD D L.
  Proof.
    induction fuel as [|f IH]; intros sD L; [discriminate|]. cbn [tloopD]. destruct (passD_ sD); try discriminate. apply IH.
  Qed.
  Theorem pantrD_notfinite fuel L O : pantrD_ d0 fuel = TNotFiniteLD D L -> pantr_ O fuel = TNotFiniteL L.
  Proof.
    unfold pantrD, pantr, Pantr.backtrack, Pantr.ecost, Pantr.eprox, Pantr.P.
    destruct (init_L psi_grad_full grad_psi P x_in) as [i0 c0].
    destruct (negb (nfinite (iL i0))); [intros E; now injection E as <-|].
    match goal with |- context [bt ?i ?c ?st] => destruct (bt i c st) as [[[i3 c1] s1]|] end; [|discriminate].
    intros E. exfalso. exact (tloopD_never_nf _ _ _ E).
  Qed.

  (* ------------------------------------------------------------------ the states at the top of `while (true)` *)
  Definition first_stateD (i3 : iterate) (c1 : counters) (s1 : stats (T:=T)) : tstateD (T:=T) D :=
    mkTsD D (mkTs i3 it_blank it_blank [] 0 [] (initial_delta TP (igrad i3)) None false c1 s1 []) d0 0 [].
  Inductive reachableD : tstateD (T:=T) D -> Prop :=
  | reachD_init i0 c0 i3 c1 s1 : init_L psi_grad_full grad_psi P x_in = (i0, c0) ->
      bt (eval_cost psi_yhat (eval_prox lb ub l1 (set_gamma_L i0 (p_Lgamma P / iL i0) (iL i0)))) (inc_py c0) stats0 = Some (i3, c1, s1) ->
      reachableD (first_stateD i3 c1 s1)
  | reachD_step sD sD' : reachableD sD -> passD_ sD = TContD D sD' -> reachableD sD'.

  Lemma reachableD_inv sD : reachableD sD -> InvD sD.
  Proof.
    induction 1 as [i0 c0 i3 c1 s1 E0 Eb|sD sD' _ IH Ep].
    - unfold InvD. cbn [first_stateD tsd_calls tsd_st ts_cnt length]. rewrite (bt_c_apply _ _ _ _ _ _ _ Eb). cbn [c_apply inc_py].
      pose proof init_L_c_apply0 as H0. rewrite E0 in H0. now symmetry.
    - pose proof (pass_sim sD IH) as Hp. rewrite Ep in Hp. apply Hp.
  Qed.

  (* ------------------------------------------------------------------ provider invariants *)
  Section ProviderInv.
    Variable Iv : D -> Prop.
    Hypothesis I_init : forall d γ x xh p g d', td_initialize D ops d y_in Σ γ x xh p g = Some d' -> Iv d'.
    Hypothesis I_update : forall d γ γn x xn p pn g gn, Iv d -> Iv (snd (td_update D ops d γ γn x xn p pn g gn)).
    Hypothesis I_apply : forall d γ x xh p g Δ q q' v d', Iv d -> td_apply D ops d γ x xh p g Δ q = Some (q', v, d') -> Iv d'.
    Hypothesis I_changed : forall d a b, Iv d -> Iv (td_changed_gamma D ops d a b).
    Hypothesis I_reset : forall d, Iv d -> Iv (td_reset D ops d).

    Lemma dir_after_I d curr prox s' : Iv d -> Iv (snd (dir_after D ops TP d curr prox s')).
    Proof.
      intros Hd. unfold dir_after, dir_update. destruct (ts_acc s').
      - apply I_update. destruct (negb _); [apply I_changed|]; exact Hd.
      - destruct (tp_upd_on_prox TP); [apply I_update|cbn [snd]]; (destruct (negb _); [apply I_changed|]; exact Hd).
    Qed.

    Lemma passD_I sD : (ts_k (tsd_st D sD) = 0%nat \/ Iv (tsd_dir D sD)) ->
      match passD_ sD with TContD _ sD' => Iv (tsd_dir D sD') | _ => True end.
    Proof.
      destruct sD as [s d rej calls]. cbn [tsd_st tsd_dir]. intros Hk.
      unfold passD. cbn [tsd_st tsd_dir tsd_rej tsd_calls].
      destruct (passprox s) as [[prox c4]|]; [|destruct (tpass_ _ s); exact I].
      destruct (if (ts_k s =? 0)%nat then td_initialize D ops d y_in Σ (igam prox) (ix prox) (ixh prox) (ip prox) (igrad prox) else Some d)
        as [d1|] eqn:Ed1; [|exact I].
      assert (H1 : Iv d1).
      { destruct (Nat.eqb_spec (ts_k s) 0) as [Ek|Ek]; [exact (I_init _ _ _ _ _ _ _ Ed1)|].
        injection Ed1 as <-. destruct Hk as [Hk|Hk]; [contradiction|exact Hk]. }
      destruct (((0 <? ts_k s)%nat || hasinit) && negb (tp_disable_accel TP)).
      - destruct (td_apply D ops d1 (igam prox) (ix prox) (ixh prox) (ip prox) (igrad prox) (ts_delta s) (ts_q s)) as [[[q qm] d2]|] eqn:Ea; [|exact I].
        pose proof (I_apply _ _ _ _ _ _ _ _ _ _ _ H1 Ea) as H2.
        destruct (tpass_ (oracle_const (q, qm)) s); try exact I. cbn [tsd_dir].
        apply dir_after_I. cbn [andb]. destruct (negb (vall_finite q) || (n0 <=? qm)); [apply I_reset|]; exact H2.
      - destruct (tpass_ (oracle_const (ts_q s, n0)) s); try exact I. cbn [tsd_dir andb].
        apply dir_after_I. exact H1.
    Qed.
    Lemma reachableD_I sD : reachableD sD -> ts_k (tsd_st D sD) = 0%nat \/ Iv (tsd_dir D sD).
    Proof.
      induction 1 as [i0 c0 i3 c1 s1 E0 Eq|sD sD' _ IH Ep]; [left; reflexivity|].
      right. pose proof (passD_I sD IH) as Hp. rewrite Ep in Hp. exact Hp.
    Qed.
    (* ------------------------------------------------------------------ the call log: every entry IS an apply call of the provider, made at
       the FBS iterate of a reachable state with that state's radius *)
    Definition is_apply_call (c : tcall (T:=T)) : Prop :=
      exists sD d q0 d',
        reachableD sD /\ Iv d /\ tc_delta c = ts_delta (tsd_st D sD) /\
        (exists c4, passprox (tsd_st D sD) = Some (tc_prox c, c4)) /\
        td_apply D ops d (igam (tc_prox c)) (ix (tc_prox c)) (ixh (tc_prox c)) (ip (tc_prox c)) (igrad (tc_prox c)) (tc_delta c) q0
          = Some (tc_q c, tc_val c, d').

    Lemma passD_calls sD : reachableD sD -> Forall is_apply_call (tsd_calls D sD) ->
      match passD_ sD with
      | TContD _ sD' => Forall is_apply_call (tsd_calls D sD')
      | TExitD _ oD => Forall is_apply_call (tod_calls D oD)
      | _ => True
      end.
    Proof.
      intros Hr Hc. pose proof (reachableD_I sD Hr) as Hk. unfold passD.
      destruct (passprox (tsd_st D sD)) as [[prox c4]|] eqn:Ep.
      - destruct (if (ts_k (tsd_st D sD) =? 0)%nat then _ else Some (tsd_dir D sD)) as [d1|] eqn:Ed1; [|exact I].
        assert (H1 : Iv d1).
        { destruct (Nat.eqb_spec (ts_k (tsd_st D sD)) 0) as [Ek|Ek]; [exact (I_init _ _ _ _ _ _ _ Ed1)|].
          injection Ed1 as <-. destruct Hk as [Hk|Hk]; [contradiction|exact Hk]. }
        destruct (((0 <? ts_k (tsd_st D sD))%nat || hasinit) && negb (tp_disable_accel TP)).
        + destruct (td_apply D ops d1 (igam prox) (ix prox) (ixh prox) (ip prox) (igrad prox) (ts_delta (tsd_st D sD)) (ts_q (tsd_st D sD)))
            as [[[q qm] d2]|] eqn:Ea; [|exact I].
          destruct (tpass_ (oracle_const (q, qm)) (tsd_st D sD)); try exact I. cbn [tsd_calls].
          apply Forall_app. split; [exact Hc|]. constructor; [|constructor].
          exists sD, d1, (ts_q (tsd_st D sD)), d2. cbn [tc_prox tc_delta tc_q tc_val].
          split; [exact Hr|]. split; [exact H1|]. split; [reflexivity|]. split; [exists c4; exact Ep|exact Ea].
        + destruct (tpass_ (oracle_const (ts_q (tsd_st D sD), n0)) (tsd_st D sD)); try exact I. exact Hc.
      - destruct (tpass_ (oracle_const ([], n0)) (tsd_st D sD)); try exact I. exact Hc.
    Qed.

    Lemma reachableD_calls sD : reachableD sD -> Forall is_apply_call (tsd_calls D sD).
    Proof.
      induction 1 as [i0 c0 i3 c1 s1 E0 Eq|sD sD' Hr IH Ep]; [constructor|].
      pose proof (passD_calls sD Hr IH) as Hp. rewrite Ep in Hp. exact Hp.
    Qed.

    Lemma tloopD_calls : forall fuel sD oD, reachableD sD -> tloopD_ fuel sD = TDoneD D oD -> Forall is_apply_call (tod_calls D oD).
    Proof.
      induction fuel as [|f IH]; intros sD oD Hr; [discriminate|].
      cbn [tloopD]. pose proof (passD_calls sD Hr (reachableD_calls sD Hr)) as Hp.
      destruct (passD_ sD) as [o|sD'| |] eqn:Ep; try discriminate.
      - intros E. injection E as <-. exact Hp.
      - apply IH. exact (reachD_step _ _ Hr Ep).
    Qed.

    Theorem pantrD_calls fuel oD : pantrD_ d0 fuel = TDoneD D oD -> Forall is_apply_call (tod_calls D oD).
    Proof.
      unfold pantrD, Pantr.backtrack, Pantr.P.
      destruct (init_L psi_grad_full grad_psi P x_in) as [i0 c0] eqn:E0.
      destruct (negb (nfinite (iL i0))); [discriminate|].
      match goal with |- context [bt ?i ?c ?st] => destruct (bt i c st) as [[[i3 c1] s1]|] eqn:Eb end; [|discriminate].
      apply tloopD_calls. exact (reachD_init _ _ _ _ _ E0 Eb).
    Qed.
  End ProviderInv.
End Refine.

(* ====================================================================== over R: the theorems of PantrProofs.v for every provider *)
From Coq Require Import Reals Lra.
From Flocq Require Import Raux.
From Alpaqa Require Import NumR ProxVec StopChainProofs KktProofs PanocProofs ZeroFprProofs PantrProofs Steihaug SteihaugProofs Directions.
Local Open Scope R_scope.

Section RefineR.
  Variable psi_grad_full : list R -> R * list R * list R.
  Variable psi_yhat : list R -> R * list R.
  Variable grad_L : list R -> list R -> list R.
  Variable grad_psi : list R -> list R.
  Variables (lb ub : list (option R)) (l1 : list R).
  Variable D : Type.
  Variable ops : trdirops R D.
  Variable stop_req : counters -> bool.
  Variable time_up : counters -> bool.
  Variable TP : trparams (T:=R).
  Variables (x_in y_in Σ errz_in : list R).
  Variable bt_fuel : nat.
  Variable d0 : D.

  Notation P := (tp_base TP).
  Notation hasinit := (td_has_initial D ops).
  Notation passD_ := (passD psi_grad_full psi_yhat grad_L lb ub l1 D ops stop_req time_up TP x_in y_in Σ errz_in bt_fuel).
  Notation pantrD_ := (pantrD psi_grad_full psi_yhat grad_L grad_psi lb ub l1 D ops stop_req time_up TP x_in y_in Σ errz_in bt_fuel d0).
  Notation reachableD_ := (reachableD psi_grad_full psi_yhat grad_L grad_psi lb ub l1 D ops stop_req time_up TP x_in y_in Σ errz_in bt_fuel d0).
  Notation pantr_ O := (pantr psi_grad_full psi_yhat grad_L grad_psi lb ub l1 O hasinit stop_req time_up TP x_in y_in Σ errz_in bt_fuel).
  Notation tpass_ O := (tpass psi_grad_full psi_yhat grad_L lb ub l1 O hasinit stop_req time_up TP x_in y_in Σ errz_in bt_fuel).
  Notation reachable_ O := (reachable psi_grad_full psi_yhat grad_L grad_psi lb ub l1 O hasinit stop_req time_up TP x_in y_in Σ errz_in bt_fuel).
  Notation Consistent := (tconsistent psi_grad_full psi_yhat grad_L lb ub l1).
  Notation Glrel0 := (glrel0 psi_grad_full grad_psi P x_in).
  Notation Qub_ok := (qub_ok P).
  Notation Rec_ok := (trec_ok psi_grad_full psi_yhat grad_L grad_psi lb ub l1 TP x_in).
  Notation Step_facts := (step_facts psi_grad_full lb ub l1 TP).
  Notation Linit := (L_init psi_grad_full grad_psi P x_in).

  (* the refinement, with the oracle spelled out *)
  Theorem pantrD_refines_R fuel oD : pantrD_ fuel = TDoneD D oD ->
    exists (O : nat -> iterate (T:=R) -> R -> list R * R),
      (forall j it Δ, O j it Δ = match nth_error (tod_calls D oD) j with Some c => (tc_q c, tc_val c) | None => ([], 0) end) /\
      pantr_ O fuel = TDone (tod_out D oD).
  Proof.
    intros E. exists (oracle_of (tod_calls D oD)). split; [reflexivity|].
    exact (pantrD_refines psi_grad_full psi_yhat grad_L grad_psi lb ub l1 D ops stop_req time_up TP x_in y_in Σ errz_in bt_fuel d0 fuel oD E).
  Qed.

  Theorem reachableD_refines sD : reachableD_ sD ->
    forall ext, reachable_ (oracle_of (tsd_calls D sD ++ ext)) (tsd_st D sD).
  Proof.
    induction 1 as [i0 c0 i3 c1 s1 E0 Eb|sD sD' Hr IH Ep]; intros ext.
    - exact (reach_init psi_grad_full psi_yhat grad_L grad_psi lb ub l1 _ _ stop_req time_up TP x_in y_in Σ errz_in bt_fuel _ _ _ _ _ E0 Eb).
    - pose proof (reachableD_inv psi_grad_full psi_yhat grad_L grad_psi lb ub l1 D ops stop_req time_up TP x_in y_in Σ errz_in bt_fuel d0 sD Hr) as Hi.
      pose proof (pass_sim psi_grad_full psi_yhat grad_L lb ub l1 D ops stop_req time_up TP x_in y_in Σ errz_in bt_fuel sD Hi) as Hp.
      rewrite Ep in Hp. destruct Hp as ([ext1 E1] & _ & Hall).
      specialize (IH (ext1 ++ ext)). rewrite app_assoc, <- E1 in IH.
      exact (reach_step psi_grad_full psi_yhat grad_L grad_psi lb ub l1 _ _ stop_req time_up TP x_in y_in Σ errz_in bt_fuel _ _ IH (Hall ext)).
  Qed.

  Theorem pantrD_check sD : reachableD_ sD ->
    let s := tsd_st D sD in
    Consistent (ts_curr s) /\ Qub_ok (ts_curr s) /\ Glrel0 (ts_curr s) /\ (ts_k s <= p_max_iter P)%nat /\ tp_min_radius TP <= ts_delta s.
  Proof.
    intros Hr. pose proof (reachableD_refines sD Hr []) as Hs.
    exact (reachable_check psi_grad_full psi_yhat grad_L grad_psi lb ub l1 _ _ stop_req time_up TP x_in y_in Σ errz_in bt_fuel _ Hs).
  Qed.

  Theorem pantrD_step sD sD' : reachableD_ sD -> passD_ sD = TContD D sD' -> Step_facts (tsd_st D sD) (tsd_st D sD').
  Proof.
    intros Hr Ep.
    pose proof (reachableD_inv psi_grad_full psi_yhat grad_L grad_psi lb ub l1 D ops stop_req time_up TP x_in y_in Σ errz_in bt_fuel d0 sD Hr) as Hi.
    pose proof (pass_sim psi_grad_full psi_yhat grad_L lb ub l1 D ops stop_req time_up TP x_in y_in Σ errz_in bt_fuel sD Hi) as Hp.
    rewrite Ep in Hp. destruct Hp as ([ext1 E1] & _ & Hall).
    pose proof (reachableD_refines sD Hr (ext1 ++ [])) as Hs. rewrite app_assoc, <- E1 in Hs.
    exact (reachable_step psi_grad_full psi_yhat grad_L grad_psi lb ub l1 _ _ stop_req time_up TP x_in y_in Σ errz_in bt_fuel _ _ Hs (Hall [])).
  Qed.

  Theorem pantrD_records fuel oD : pantrD_ fuel = TDoneD D oD -> Forall Rec_ok (to_log (tod_out D oD)).
  Proof.
    intros E. destruct (pantrD_refines_R fuel oD E) as (O & _ & Eo).
    exact (pantr_records psi_grad_full psi_yhat grad_L grad_psi lb ub l1 _ _ stop_req time_up TP x_in y_in Σ errz_in bt_fuel fuel _ Eo).
  Qed.

  Theorem pantrD_status_clauses fuel oD : pantrD_ fuel = TDoneD D oD ->
    let o := tod_out D oD in
    (to_iterations o <= p_max_iter P)%nat /\
    to_status o <> StBusy /\ to_status o <> StNoProgress /\
    (to_status o = StMaxIter -> to_iterations o = p_max_iter P) /\
    (to_status o = StConverged <-> to_eps o <= eff_tol (o_tol P)) /\
    (to_status o = StInterrupted -> exists c, stop_req c = true) /\
    (to_status o = StMaxTime -> exists c, time_up c = true).
  Proof.
    intros E. destruct (pantrD_refines_R fuel oD E) as (O & _ & Eo).
    exact (pantr_status_clauses psi_grad_full psi_yhat grad_L grad_psi lb ub l1 _ _ stop_req time_up TP x_in y_in Σ errz_in bt_fuel fuel _ Eo).
  Qed.

  Theorem pantrD_exit fuel oD : pantrD_ fuel = TDoneD D oD ->
    let o := tod_out D oD in
    exists cf : iterate (T:=R), Consistent cf /\ Qub_ok cf /\ Glrel0 cf /\
      (exists gh, (crit_needs_gradh (p_crit P) = true -> gh = grad_L (ixh cf) (iyh cf)) /\
                  to_eps o = crit_eps (p_crit P) lb ub l1 (ip cf) (igam cf) (ix cf) (ixh cf) (iyh cf) (igrad cf) gh) /\
      (overwrites (to_status o) (o_always P) = true ->
         to_x o = ixh cf /\ ixh cf = vadd (ix cf) (ip cf) /\
         to_y o = iyh cf /\ iyh cf = snd (psi_yhat (to_x o)) /\
         to_errz o = match errz_in with [] => [] | _ => vdiv (vsub (to_y o) y_in) Σ end) /\
      (overwrites (to_status o) (o_always P) = false -> to_x o = x_in /\ to_y o = y_in /\ to_errz o = errz_in).
  Proof.
    intros E. destruct (pantrD_refines_R fuel oD E) as (O & _ & Eo).
    exact (pantr_exit psi_grad_full psi_yhat grad_L grad_psi lb ub l1 _ _ stop_req time_up TP x_in y_in Σ errz_in bt_fuel fuel _ Eo).
  Qed.

  Theorem pantrD_inner_contract fuel oD : pantrD_ fuel = TDoneD D oD ->
    let o := tod_out D oD in
    to_status o = StConverged -> p_crit P = ApproxKKT -> l1 = [] ->
    exists (x : list R) (γ : R),
      let grad := snd (psi_grad psi_grad_full x) in
      let step := proj_grad_step lb ub γ x grad in
      let gradh := grad_L (to_x o) (to_y o) in
      to_x o = fst (fst step) /\
      to_y o = snd (psi_yhat (to_x o)) /\
      to_errz o = match errz_in with [] => [] | _ => vdiv (vsub (to_y o) y_in) Σ end /\
      to_eps o = vnorminf (kkt_residual γ (snd (fst step)) grad gradh) /\
      to_eps o <= eff_tol (o_tol P) /\
      (0 < p_Lgamma P -> 0 < Linit -> 0 < γ) /\
      (Linit <> 0 -> exists L, γ * L = p_Lgamma P).
  Proof.
    intros E. destruct (pantrD_refines_R fuel oD E) as (O & _ & Eo).
    exact (pantr_inner_contract psi_grad_full psi_yhat grad_L grad_psi lb ub l1 _ _ stop_req time_up TP x_in y_in Σ errz_in bt_fuel fuel _ Eo).
  Qed.

  (* the radius of every apply call is at least min_radius *)
  Lemma apply_call_radius (Iv : D -> Prop) c :
    is_apply_call psi_grad_full psi_yhat grad_L grad_psi lb ub l1 D ops stop_req time_up TP x_in y_in Σ errz_in bt_fuel d0 Iv c ->
    tp_min_radius TP <= tc_delta c.
  Proof.
    intros (sD & d & q0 & d' & Hr & _ & -> & _). exact (proj2 (proj2 (proj2 (proj2 (pantrD_check sD Hr))))).
  Qed.
End RefineR.

(* ====================================================================== C11 composed with the loop: NewtonTRDirection inside PANTR *)
Section NtrC11.
  Variables (lb ub : list (option R)) (l1 : list R).
  Variables (prov_inactive prov_hess_L prov_hess_psi m_is_zero : bool).
  Variable grad_psi_at : list R -> list R -> list R -> list R.
  Variable hess_psi_prod : list R -> list R -> list R -> R -> list R -> list R.
  Variables (hvf : R) (fd : bool) (fd_step : R) (cg_ts cg_tsr : R) (cg_tmax : option R) (cg_max_iter : nat -> Z) (eps_mach : R).
  Hypothesis eps_pos : 0 < eps_mach.

  Notation ntr := (newton_tr_dir lb ub l1 prov_inactive prov_hess_L prov_hess_psi m_is_zero grad_psi_at hess_psi_prod
                                 hvf fd fd_step cg_ts cg_tsr cg_tmax cg_max_iter eps_mach).
  Notation Jof := (ntr_J lb ub l1).
  Notation BJof := (ntr_BJ grad_psi_at hess_psi_prod fd fd_step).
  Notation solve := (ntr_solve lb ub l1 grad_psi_at hess_psi_prod hvf fd fd_step cg_ts cg_tsr cg_tmax cg_max_iter).

  (* the guarantees of one NewtonTRDirection::apply call with stored multipliers / penalties (y, Σ), at (γ, x, p, ∇ψ) with radius Δ,
     returning (q, v):  Δ > 0;  q(K) = p(K), q(J) = the CG step;  and, when the reduced Hessian operator handed to SteihaugCG is a
     symmetric linear operator on R^|J| (C11's hypothesis): ‖q_J‖ <= Δ, v = reduced model at q_J minus ‖p_K‖²/(2γ), v <= -‖p_K‖²/(2γ) (<= 0
     for γ > 0), and v <= the value at the Cauchy point of the reduced model minus ‖p_K‖²/(2γ) *)
  Definition ntr_guarantee (y Σ : list R) (γ : R) (x p g : list R) (Δ : R) (q : list R) (v : R) : Prop :=
    let d := mkNT y Σ [] in
    let J := Jof γ x g in
    let BJ := BJof d J x g in
    let r := solve d γ x p g Δ in
    let rJ := ntr_rJ r in
    let qJ := res_step (ntr_cg r) in
    0 < Δ /\ q = merge_JK J (keep_active J p) qJ /\
    (forall i, (i < length p)%nat -> ~ In i J -> nth i q 0 = nth i p 0) /\
    (sym_linear_op (length J) BJ ->
       vnorm2 qJ <= Δ /\
       v = model BJ rJ qJ - sqnorm_active J p / (2 * γ) /\
       v <= - (sqnorm_active J p / (2 * γ)) /\
       (0 < γ -> v <= 0) /\
       v <= model BJ rJ (cauchy_point BJ rJ Δ) - sqnorm_active J p / (2 * γ)).

  Lemma merge_active (J : list nat) (p s : list R) i :
    (i < length p)%nat -> ~ In i J -> nth i (merge_JK J (keep_active J p) s) 0 = nth i p 0.
  Proof.
    intros Hi HnJ. unfold merge_JK. rewrite keep_active_length.
    assert (Hm : memb i J = false).
    { unfold memb. destruct (existsb (Nat.eqb i) J) eqn:E; [|reflexivity].
      apply existsb_exists in E. destruct E as (j & Hj & Hij). apply Nat.eqb_eq in Hij. subst j. contradiction. }
    rewrite (map2_nth _ _ _ (length p) i (0%nat, 0) 0 0).
    - rewrite combine_nth by (rewrite seq_length, keep_active_length; reflexivity).
      rewrite seq_nth by assumption. cbn [fst snd plus]. rewrite Hm.
      rewrite keep_active_nth by assumption. rewrite Hm. reflexivity.
    - rewrite combine_length, seq_length, keep_active_length. apply Nat.min_id.
    - apply scatter_from_length.
    - assumption.
  Qed.

  Lemma ntr_state_irrelevant d γ x p g Δ : solve d γ x p g Δ = solve (mkNT (nt_y d) (nt_Σ d) []) γ x p g Δ.
  Proof. destruct d. reflexivity. Qed.

  Lemma ntr_core_facts (BJ : list R -> list R) (hterm : option (list R)) (Pm : cg_params R) γ (J : list nat) (p : list R) Δ :
    0 < Δ -> match hterm with Some h => length h = length J | None => True end ->
    sym_linear_op (length J) BJ ->
    let r := ntr_core BJ hterm Pm γ J p Δ in
    let rJ := ntr_rJ r in let qJ := res_step (ntr_cg r) in
    vnorm2 qJ <= Δ /\
    ntr_val r = model BJ rJ qJ - sqnorm_active J p / (2 * γ) /\
    ntr_val r <= - (sqnorm_active J p / (2 * γ)) /\
    ntr_val r <= model BJ rJ (cauchy_point BJ rJ Δ) - sqnorm_active J p / (2 * γ).
  Proof.
    intros HΔ Hh HB r rJ qJ.
    assert (Hl : length rJ = length J).
    { unfold rJ, r, ntr_core. cbn [ntr_rJ].
      assert (H0 : length (vscale (- n1 / γ) (gather J p)) = length J) by (rewrite vscale_length; unfold gather; now rewrite map_length).
      destruct hterm as [h|]; [apply vadd_length; assumption|exact H0]. }
    pose proof (P_norm_le_radius _ _ _ Δ Pm HB Hl HΔ) as H1.
    pose proof (P_value_is_model _ _ _ Δ Pm HB Hl HΔ) as H2.
    pose proof (P_nonpositive _ _ _ Δ Pm HB Hl HΔ) as H3.
    pose proof (P_le_cauchy _ _ _ Δ Pm HB Hl HΔ) as H4.
    change (cg_solve BJ rJ Δ Pm) with (ntr_cg r) in H1, H2, H3, H4. fold qJ in H1, H2.
    assert (Hv : ntr_val r = res_val (ntr_cg r) - sqnorm_active J p / (2 * γ)).
    { unfold r, ntr_core. cbn [ntr_val ntr_cg]. numR. replace (1 + 1) with 2 by ring. reflexivity. }
    split; [exact H1|]. split; [rewrite Hv, H2; reflexivity|]. split; rewrite Hv; lra.
  Qed.

  Lemma sqnorm_active_nonneg (J : list nat) (p : list R) : 0 <= sqnorm_active J p.
  Proof. unfold sqnorm_active. rewrite vsqnorm_rdot. apply rdot_nonneg. Qed.

  (* every apply call that returns, returns a guaranteed step *)
  Theorem ntr_apply_guarantee (d : ntrstate R) γ x xh p g Δ q0 q v d' :
    td_apply _ ntr d γ x xh p g Δ q0 = Some (q, v, d') -> ntr_guarantee (nt_y d) (nt_Σ d) γ x p g Δ q v.
  Proof.
    cbn [td_apply newton_tr_dir]. unfold ntr_apply.
    destruct (negb (nfinite Δ) || nltb Δ eps_mach) eqn:Eg; [discriminate|].
    intros E. injection E as <- <- _.
    assert (HΔ : 0 < Δ).
    { apply orb_false_elim in Eg. destruct Eg as [_ Eg]. revert Eg. numR. intros Eg. apply Rlt_bool_false_iff in Eg. lra. }
    unfold ntr_guarantee. cbv zeta. rewrite <- ntr_state_irrelevant.
    split; [exact HΔ|]. split; [reflexivity|]. split.
    - intros i Hi Hn. unfold ntr_solve, ntr_core. cbn [ntr_q]. now apply merge_active.
    - intros HB. unfold ntr_solve.
      assert (Hh : match ntr_hterm grad_psi_at hess_psi_prod hvf fd fd_step d (Jof γ x g) x g (keep_active (Jof γ x g) p) with
                   | Some h => length h = length (Jof γ x g) | None => True end).
      { unfold ntr_hterm. destruct (ntr_hvf_on hvf); [|exact I]. destruct fd; unfold gather; now rewrite !map_length. }
      assert (HB' : sym_linear_op (length (Jof γ x g)) (BJof d (Jof γ x g) x g)) by (destruct d; exact HB).
      destruct (ntr_core_facts _ _ (ntr_params cg_ts cg_tsr cg_tmax cg_max_iter (length (Jof γ x g))) γ _ p Δ HΔ Hh HB') as (A1 & A2 & A3 & A4).
      assert (EB : BJof d (Jof γ x g) x g = BJof (mkNT (nt_y d) (nt_Σ d) []) (Jof γ x g) x g) by (destruct d; reflexivity).
      rewrite <- EB.
      split; [exact A1|]. split; [exact A2|]. split; [exact A3|]. split; [|exact A4].
      intros Hγ. pose proof (sqnorm_active_nonneg (Jof γ x g) p) as Hs.
      assert (0 <= sqnorm_active (Jof γ x g) p / (2 * γ)) by (unfold Rdiv; apply Rmult_le_pos; [exact Hs|]; left; apply Rinv_0_lt_compat; lra).
      eapply Rle_trans; [exact A3|]. lra.
  Qed.

  Lemma ntr_apply_throws_iff (d : ntrstate R) γ x xh p g Δ q0 :
    td_apply _ ntr d γ x xh p g Δ q0 = None <-> (negb (nfinite Δ) || nltb Δ eps_mach) = true.
  Proof.
    cbn [td_apply newton_tr_dir]. unfold ntr_apply.
    destruct (negb (nfinite Δ) || nltb Δ eps_mach); split; intros; try reflexivity; discriminate.
  Qed.

  (* ---------------- inside the loop ---------------- *)
  Variable psi_grad_full : list R -> R * list R * list R.
  Variable psi_yhat : list R -> R * list R.
  Variable grad_L : list R -> list R -> list R.
  Variable grad_psi : list R -> list R.
  Variable stop_req : counters -> bool.
  Variable time_up : counters -> bool.
  Variable TP : trparams (T:=R).
  Variables (x_in y_in Σ errz_in : list R).
  Variable bt_fuel : nat.

  Notation runD := (pantrD psi_grad_full psi_yhat grad_L grad_psi lb ub l1 (ntrstate R) ntr stop_req time_up TP x_in y_in Σ errz_in bt_fuel (ntr_new (T:=R))).
  Notation reachD := (reachableD psi_grad_full psi_yhat grad_L grad_psi lb ub l1 (ntrstate R) ntr stop_req time_up TP x_in y_in Σ errz_in bt_fuel (ntr_new (T:=R))).

  Definition ntr_stores (d : ntrstate R) : Prop := nt_y d = y_in /\ nt_Σ d = Σ.

  Definition ntr_call_ok (c : tcall (T:=R)) : Prop :=
    let px := tc_prox c in
    tp_min_radius TP <= tc_delta c /\
    ntr_guarantee y_in Σ (igam px) (ix px) (ip px) (igrad px) (tc_delta c) (tc_q c) (tc_val c).

  Lemma is_call_ok c :
    is_apply_call psi_grad_full psi_yhat grad_L grad_psi lb ub l1 (ntrstate R) ntr stop_req time_up TP x_in y_in Σ errz_in bt_fuel ntr_new ntr_stores c ->
    ntr_call_ok c.
  Proof.
    intros Hc. split; [exact (apply_call_radius _ _ _ _ _ _ _ _ _ _ _ _ _ _ _ _ _ _ _ _ Hc)|].
    destruct Hc as (sD & d & q0 & d' & _ & [Ey ES] & _ & _ & Ea).
    pose proof (ntr_apply_guarantee _ _ _ _ _ _ _ _ _ _ _ Ea) as Hg. rewrite Ey, ES in Hg. exact Hg.
  Qed.

  Lemma ntr_stores_init : forall d γ x xh p g d', td_initialize _ ntr d y_in Σ γ x xh p g = Some d' -> ntr_stores d'.
  Proof. intros d γ x xh p g d'. cbn [td_initialize newton_tr_dir]. destruct (ntr_init_ok _ _ _ _ _); [|discriminate]. intros E. injection E as <-. split; reflexivity. Qed.
  Lemma ntr_stores_apply : forall d γ x xh p g Δ q q' v d', ntr_stores d -> td_apply _ ntr d γ x xh p g Δ q = Some (q', v, d') -> ntr_stores d'.
  Proof.
    intros d γ x xh p g Δ q q' v d' Hd. cbn [td_apply newton_tr_dir]. unfold ntr_apply.
    destruct (negb (nfinite Δ) || nltb Δ eps_mach); [discriminate|]. intros E. injection E as _ _ <-. exact Hd.
  Qed.

  Theorem pantrD_newtontr_calls fuel oD : runD fuel = TDoneD _ oD -> Forall ntr_call_ok (tod_calls _ oD).
  Proof.
    intros E.
    pose proof (pantrD_calls psi_grad_full psi_yhat grad_L grad_psi lb ub l1 (ntrstate R) ntr stop_req time_up TP x_in y_in Σ errz_in bt_fuel ntr_new
                             ntr_stores ntr_stores_init (fun d _ _ _ _ _ _ _ _ H => H) ntr_stores_apply (fun d _ _ H => H) (fun d H => H) fuel oD E) as Hc.
    eapply Forall_impl; [|exact Hc]. exact is_call_ok.
  Qed.

  Theorem reachD_newtontr_calls sD : reachD sD -> Forall ntr_call_ok (tsd_calls _ sD).
  Proof.
    intros Hr.
    pose proof (reachableD_calls psi_grad_full psi_yhat grad_L grad_psi lb ub l1 (ntrstate R) ntr stop_req time_up TP x_in y_in Σ errz_in bt_fuel ntr_new
                                 ntr_stores ntr_stores_init (fun d _ _ _ _ _ _ _ _ H => H) ntr_stores_apply (fun d _ _ H => H) (fun d H => H) sD Hr) as Hc.
    eapply Forall_impl; [|exact Hc]. exact is_call_ok.
  Qed.
End NtrC11.

(* on the exact-Hessian path the provider model IS C11's model Steihaug.newton_tr_apply (any number system) *)
Lemma ntr_solve_is_C11_model {T : Type} `{Num T} (lb ub : list (option T)) (l1 : list T)
      (grad_psi_at : list T -> list T -> list T -> list T) (hess_psi_prod : list T -> list T -> list T -> T -> list T -> list T)
      (hvf fd_step cg_ts cg_tsr : T) (cg_tmax : option T) (cg_max_iter : nat -> Z) (d : ntrstate T) (γ : T) (x p g : list T) (Δ : T) :
  length x = length p ->
  ntr_solve lb ub l1 grad_psi_at hess_psi_prod hvf false fd_step cg_ts cg_tsr cg_tmax cg_max_iter d γ x p g Δ
  = newton_tr_apply (hess_psi_prod x (nt_y d) (nt_Σ d) n1)
                    (ntr_params cg_ts cg_tsr cg_tmax cg_max_iter (length (ntr_J lb ub l1 γ x g))) hvf γ (ntr_J lb ub l1 γ x g) p Δ.
Proof.
  intros El. unfold ntr_solve, ntr_core, newton_tr_apply, ntr_hterm, ntr_hvf_on, ntr_BJ. rewrite El.
  destruct (neqb hvf n0); reflexivity.
Qed.
