(* AlmComposeKkt.v — the GENERIC end-to-end lemma of C01 over AlmCompose: for ANY inner solver (a function, as in AlmCompose.v),
     if every inner call that ends Converged satisfies `inner_contract_kkt`
       (x̂ = Π_C(x − γ∇) of some n-vectors x, ∇ with γ > 0;  y = ŷ(x̂) of the closed form of C04 for the (y, Σ) handed over;
        err_z = (ŷ − y)/Σ;  ε = ‖p/γ + ∇ψ(x̂) − ∇‖∞ with ∇ψ(x̂) = ∇f(x̂) + ∇g(x̂)ᵀŷ;  ε <= the effective tolerance; lengths kept)
     then a composed run (ALM outer loop of Alm.v calling that solver) that returns Converged returns an approximate KKT point of the
     USER'S problem: x in C, stationarity within `tolerance`, feasibility within `dual_tolerance`, complementarity.
   Instantiated for PANOC (AlmPanocProofs.v), ZeroFPR (AlmZeroFprProofs.v), PANTR (AlmPantrProofs.v), FISTA (AlmFistaProofs.v) and
   PANOC with a stateful direction provider (AlmPanocDirProofs.v).  Over R. *)
From Coq Require Import Reals List ZArith Lra Lia Bool Arith Psatz.
From Flocq Require Import Raux.
From Alpaqa Require Import Num NumR Vec Prox ProxProofs ProxVec SolverStatus SolverKernels SolverKernelsProofs DescentProofs
                           StopChain StopChainProofs KktProofs AugLag AugLagProofs LiveVec
                           Alm AlmProofs AlmCompose AlmComposeProofs.
Import ListNotations.
Local Open Scope R_scope.

(* ---------------------------------------------------------------- small generic facts *)
Lemma Forall_last {A} (Pr : A -> Prop) pre (r : A) : Forall Pr (pre ++ [r]) -> Pr r.
Proof. intros H. apply Forall_app in H. destruct H as [_ H]. inversion H; assumption. Qed.

Lemma Forall2_box_ne_nth (lb ub : list (option R)) i : Forall2 box_ne lb ub -> box_ne (nth i lb None) (nth i ub None).
Proof.
  intros H. revert i. induction H as [|l u lb ub Hlu H IH]; intros [|i]; cbn; try exact I; [exact Hlu|apply IH].
Qed.

Lemma Forall_nth_pos (l : list R) i : Forall (fun x => 0 < x) l -> (i < length l)%nat -> 0 < nth i l 0.
Proof. intros H Hi. rewrite Forall_forall in H. apply H, nth_In, Hi. Qed.

Lemma map4_length_eq {A B C D E} (f : A -> B -> C -> D -> E) a b c d k :
  length a = k -> length b = k -> length c = k -> length d = k -> length (map4 f a b c d) = k.
Proof.
  revert b c d k; induction a as [|x a IH]; intros [|y b] [|z c] [|w d] k Ha Hb Hc Hd; simpl in *; try lia.
  destruct k; [lia|]. f_equal. apply IH; lia.
Qed.

Lemma sigma_at_nth (Σ : list R) i : (i < length Σ)%nat -> sigma_at Σ i = nth i Σ 0.
Proof. unfold sigma_at. destruct Σ as [|σ [|σ' Σ']]; cbn [length]; intros Hi; try reflexivity. destruct i; [reflexivity|lia]. Qed.

Lemma proj_multipliers_length k (lb ub : list (option R)) M y mm :
  length lb = mm -> length ub = mm -> length y = mm -> length (proj_multipliers k lb ub M y) = mm.
Proof.
  revert k ub y mm. induction lb as [|l lb IH]; intros k [|u ub] [|yi y] mm H1 H2 H3; cbn in *; try lia.
  destruct mm; [lia|]. destruct k; cbn [length]; f_equal; apply IH; lia.
Qed.

(* length of ŷ from the definition *)
Lemma yhat_def_length (Pb : problem (T:=R)) x y Σ mm :
  length (pg Pb x) = mm -> length y = mm -> length Σ = mm -> length (plb Pb) = mm -> length (pub Pb) = mm ->
  length (yhat_def Pb x y Σ) = mm.
Proof.
  intros Hg Hy HS Hl Hu. unfold yhat_def, yhat_of, zeta_def, zeta_of.
  assert (HE : length (expand_sigma Σ (length y)) = mm) by (rewrite Hy; apply expand_sigma_length; right; exact HS).
  apply map4_length_eq; try assumption. apply map3_length_eq; assumption.
Qed.

(* the y handed to every inner solve has the length of the constraint vector *)
Lemma run_y_length (P : alm_params (T:=R)) pb f0 g0 nanv Σ0 y0 script :
  Alm.p_max_iter P <> 0%nat -> pb_m pb <> 0%nat -> length (pb_ub pb) = pb_m pb -> length y0 = pb_m pb ->
  Forall (fun r => length (it_y r) = pb_m pb) (fst (alm_run P pb f0 g0 nanv Σ0 y0 script)).
Proof.
  intros Hmi Hm Hub Hy. unfold alm_run. apply Nat.eqb_neq in Hmi, Hm. rewrite Hmi, Hm.
  apply (loop_trace_ind P pb (fun _ s => length (s_y s) = pb_m pb) (fun r => length (it_y r) = pb_m pb) (fun _ _ => True)).
  - intros i s r Hs. cbn [mkrec it_y]. unfold y_in_of. apply proj_multipliers_length; [reflexivity|exact Hub|exact Hs].
  - intros i s r Hs _. cbn [next s_y]. apply pick_length. unfold y_in_of. apply proj_multipliers_length; [reflexivity|exact Hub|exact Hs].
  - intros; exact I.
  - exact Hy.
Qed.

(* the ALM view of a problem given by its basic functions: only the box D and penalty_alm_split matter to the outer loop *)
Definition kkt_pb (Pb : problem (T:=R)) (split : nat) : alm_problem (T:=R) :=
  {| pb_split := split; pb_lb := plb Pb; pb_ub := pub Pb |}.

Section GenericKkt.
  Variables (W Lg : Type).
  Variable inner : W -> nat -> list R -> list R -> list R -> R -> list R -> option (inner_res (T:=R) * list R * Lg * W).
  Variable Pb : problem (T:=R).
  Variables (Clb Cub : list (option R)).
  Variable split : nat.
  Variable AP : alm_params (T:=R).
  Variables (n m : nat).

  (* what a Converged inner call must deliver (the inner contract with dimensions, in terms of the USER'S functions) *)
  Definition inner_contract_kkt : Prop :=
    forall w i x y Σ tol errz r x' lg w', length x = n ->
    inner w i x y Σ tol errz = Some (r, x', lg, w') ->
    length x' = n /\
    (ir_status r = Converged ->
       let yh := yhat_def Pb x' y Σ in
       ir_y r = Some yh /\
       ir_err r = Some (match errz with [] => [] | _ => vdiv (vsub yh y) Σ end) /\
       exists (xx grad : list R) (γ : R),
         let step := proj_grad_step Clb Cub γ xx grad in
         0 < γ /\ length xx = n /\ length grad = n /\ x' = fst (fst step) /\
         ir_eps r = vnorminf (kkt_residual γ (snd (fst step)) grad (grad_L_def Pb x' yh)) /\
         ir_eps r <= eff_tol tol).

  Hypothesis HClb : length Clb = n.
  Hypothesis HCub : length Cub = n.
  Hypothesis HCne : Forall2 box_ne Clb Cub.
  Hypothesis Hgf : forall x, length x = n -> length (pgrad_f Pb x) = n.
  Hypothesis Hgg : forall x y, length x = n -> length (pgrad_g_prod Pb x y) = n.
  Hypothesis Hg : forall x, length x = n -> length (pg Pb x) = m.
  Hypothesis HDlb : length (plb Pb) = m.
  Hypothesis HDub : length (pub Pb) = m.
  Hypothesis HDne : Forall2 box_ne (plb Pb) (pub Pb).

  Lemma grad_L_def_length x yh : length x = n -> length (grad_L_def Pb x yh) = n.
  Proof. intros Hx. unfold grad_L_def. apply vadd_length; [apply Hgf|apply Hgg]; exact Hx. Qed.

  (* ---- the primal clauses from the data of a converged inner solve *)
  Lemma primal_part xh yh xx grad γ eps tol :
    0 < γ -> length xx = n -> length grad = n -> length xh = n ->
    xh = fst (fst (proj_grad_step Clb Cub γ xx grad)) ->
    eps = vnorminf (kkt_residual γ (snd (fst (proj_grad_step Clb Cub γ xx grad))) grad (grad_L_def Pb xh yh)) ->
    eps <= tol ->
    (forall i, (i < n)%nat -> in_box (nth i Clb None) (nth i Cub None) (nth i xh 0)) /\
    (forall i, (i < n)%nat -> exists r,
        (forall u, in_box (nth i Clb None) (nth i Cub None) u -> r * (u - nth i xh 0) <= 0) /\
        Rabs (- nth i (vadd (pgrad_f Pb xh) (pgrad_g_prod Pb xh yh)) 0 - r) <= tol).
  Proof.
    intros Hγ Lxx Lgr Lxh Ex Eeps Htol. split.
    - intros i Hi. destruct (proj_grad_step_nth Clb Cub γ xx grad n HClb HCub Lxx Lgr i Hi) as (E1 & _).
      rewrite Ex, E1. apply proj1_in_box. now apply Forall2_box_ne_nth.
    - intros i Hi.
      assert (Lgh : length (grad_L_def Pb xh yh) = n) by now apply grad_L_def_length.
      assert (Hres : vnorminf (kkt_residual γ (snd (fst (proj_grad_step Clb Cub γ xx grad))) grad (grad_L_def Pb xh yh)) <= tol)
        by (rewrite <- Eeps; exact Htol).
      destruct (approx_kkt_stationarity Clb Cub γ xx grad (grad_L_def Pb xh yh) tol n Hγ HClb HCub Lxx Lgr Lgh
                  (fun j _ => Forall2_box_ne_nth Clb Cub j HCne) Hres i Hi) as (r & Hr1 & Hr2).
      exists r. split; [intros u Hu; rewrite Ex; apply Hr1, Hu|exact Hr2].
  Qed.

  (* ---- the dual clauses from ŷ = Σ(ζ − Π_D ζ), e = (ŷ − y)/Σ, ‖e‖∞ <= δ *)
  Lemma dual_part xh yin Σ δ :
    length xh = n -> length yin = m -> length Σ = m -> Forall (fun s => 0 < s) Σ ->
    vnorminf (vdiv (vsub (yhat_def Pb xh yin Σ) yin) Σ) <= δ ->
    let y := yhat_def Pb xh yin Σ in
    (forall i, (i < m)%nat -> exists z, in_box (nth i (plb Pb) None) (nth i (pub Pb) None) z /\ Rabs (nth i (pg Pb xh) 0 - z) <= δ) /\
    (forall i, (i < m)%nat ->
       (0 < nth i y 0 -> exists u, nth i (pub Pb) None = Some u /\ Rabs (nth i (pg Pb xh) 0 - u) <= δ) /\
       (nth i y 0 < 0 -> exists l, nth i (plb Pb) None = Some l /\ Rabs (nth i (pg Pb xh) 0 - l) <= δ)).
  Proof.
    intros Lxh Ly LS Hpos Hn y.
    assert (Lg' : length (pg Pb xh) = m) by now apply Hg.
    assert (Lyh : length y = m) by (apply yhat_def_length; assumption).
    set (e := vdiv (vsub y yin) Σ) in *.
    assert (Le : length e = m) by (unfold e, vdiv, vsub; apply map2_length; [apply map2_length|]; assumption).
    assert (Hcomp : forall i, (i < m)%nat ->
              let σ := nth i Σ 0 in let gi := nth i (pg Pb xh) 0 in let yi := nth i yin 0 in
              let li := nth i (plb Pb) None in let ui := nth i (pub Pb) None in
              0 < σ /\ box_ne li ui /\ nth i y 0 = yhat1 li ui gi yi σ /\
              Rabs (errz1 (yhat1 li ui gi yi σ) yi σ) <= δ).
    { intros i Hi. cbv zeta.
      assert (Hσ : 0 < nth i Σ 0) by (apply Forall_nth_pos; [exact Hpos|lia]).
      assert (Hy : nth i y 0 = yhat1 (nth i (plb Pb) None) (nth i (pub Pb) None) (nth i (pg Pb xh) 0) (nth i yin 0) (nth i Σ 0)).
      { unfold y. rewrite (yhat_def_nth Pb xh yin Σ m i Lg' Ly HDlb HDub (or_intror LS) Hi).
        rewrite sigma_at_nth by lia. reflexivity. }
      split; [exact Hσ|]. split; [now apply Forall2_box_ne_nth|]. split; [exact Hy|].
      assert (He : nth i e 0 = errz1 (nth i y 0) (nth i yin 0) (nth i Σ 0)).
      { unfold e, vdiv, vsub. rewrite (map2_nth _ _ _ m i 0 0 0); [|apply map2_length; assumption|assumption|assumption].
        rewrite (map2_nth _ _ _ m i 0 0 0) by assumption. reflexivity. }
      rewrite <- Hy, <- He. eapply Rle_trans; [|exact Hn]. apply vnorminf_ge_component. change (In (nth i e 0) e). apply nth_In. lia. }
    split.
    - intros i Hi. destruct (Hcomp i Hi) as (Hσ & Hne & _ & Hb). cbv zeta in Hb.
      destruct (dist_g_D_le_e _ _ (nth i (pg Pb xh) 0) (nth i yin 0) _ Hσ Hne) as (z & Hz & Ez).
      exists z. split; [exact Hz|]. rewrite Ez. exact Hb.
    - intros i Hi. destruct (Hcomp i Hi) as (Hσ & Hne & Hy & Hb). cbv zeta in Hb, Hy. split; intros Hs; rewrite Hy in Hs.
      + destruct (yhat_pos_near_upper _ _ _ _ _ Hσ Hne Hs) as (u & Eu & Ed). exists u. split; [exact Eu|]. rewrite Ed. exact Hb.
      + destruct (yhat_neg_near_lower _ _ _ _ _ Hσ Hne Hs) as (l & El & Ed). exists l. split; [exact El|]. rewrite Ed. exact Hb.
  Qed.

  (* ================================================================ THE generic theorem *)
  Theorem compose_converged_is_kkt :
    inner_contract_kkt ->
    forall outer_fuel nanv Σ0 y0 x0 w0 co,
    length x0 = n -> length y0 = m ->
    Alm.p_max_iter AP <> 0%nat ->
    (m <> 0%nat -> sigma_inv AP m (initial_sigma AP m (pf Pb x0) (pg Pb x0) Σ0)) ->
    (m = 0%nat -> 0 < p_tol AP) ->
    c_run W Lg inner AP (kkt_pb Pb split) outer_fuel (pf Pb x0) (pg Pb x0) nanv Σ0 y0 x0 w0 = Some co ->
    f_status (co_final co) = Converged ->
    let x := co_x co in let y := f_y (co_final co) in
    length x = n /\ length y = m /\
    (forall i, (i < n)%nat -> in_box (nth i Clb None) (nth i Cub None) (nth i x 0)) /\
    (forall i, (i < n)%nat -> exists r,
        (forall u, in_box (nth i Clb None) (nth i Cub None) u -> r * (u - nth i x 0) <= 0) /\
        Rabs (- nth i (vadd (pgrad_f Pb x) (pgrad_g_prod Pb x y)) 0 - r) <= p_tol AP) /\
    (forall i, (i < m)%nat -> exists z,
        in_box (nth i (plb Pb) None) (nth i (pub Pb) None) z /\ Rabs (nth i (pg Pb x) 0 - z) <= p_dual_tol AP) /\
    (forall i, (i < m)%nat ->
        (0 < nth i y 0 -> exists u, nth i (pub Pb) None = Some u /\ Rabs (nth i (pg Pb x) 0 - u) <= p_dual_tol AP) /\
        (nth i y 0 < 0 -> exists l, nth i (plb Pb) None = Some l /\ Rabs (nth i (pg Pb x) 0 - l) <= p_dual_tol AP)).
  Proof.
    intros inner_spec outer_fuel nanv Σ0 y0 x0 w0 co Hx0 Hy0 Hmi HΣ Htol Hrun Hst.
    set (pb := kkt_pb Pb split) in *.
    assert (Hpm : pb_m pb = m) by exact HDlb.
    destruct (c_run_spec _ _ _ AP pb _ _ _ _ _ _ _ _ co Hrun) as (script & Htr & Hfin & Hex & Hcalled & _ & Hne).
    specialize (Hne Hmi).
    assert (HQ : forall w i x y Σ tol e r x' lg w', length x = n -> inner w i x y Σ tol e = Some (r, x', lg, w') -> length x' = n).
    { intros w i x y Σ tol e r x' lg w' Hx Hi. destruct (inner_spec w i x y Σ tol e r x' lg w' Hx Hi) as [A _]. exact A. }
    destruct (Nat.eq_dec m 0) as [Hm0|Hm0].
    - (* ---- no general constraints: one inner solve at the final tolerance *)
      destruct script as [|r0 rest]; [contradiction|].
      unfold alm_run in Htr, Hfin. apply Nat.eqb_neq in Hmi. rewrite Hmi in Htr, Hfin.
      assert (Hpm0 : Nat.eqb (pb_m pb) 0 = true) by (apply Nat.eqb_eq; lia).
      rewrite Hpm0 in Htr, Hfin. cbn [fst snd] in Htr, Hfin.
      rewrite Htr in Hcalled.
      destruct (called_last _ _ _ (fun x => length x = n) HQ [] _ x0 w0 (co_x co) (co_w co) Hx0 Hcalled) as (x & w & lg & Lx & Hin).
      cbn [it_i it_y it_Sigma it_tol it_err_in it_res] in Hin.
      destruct (inner_spec _ _ _ _ _ _ _ _ _ _ _ Lx Hin) as (Lxo & Hconv).
      rewrite Hfin in Hst. cbn [f_status] in Hst. destruct (Hconv Hst) as (Ey & _ & xx & grad & γ & Hγ & Lxx & Lgr & Ex & Eeps & Etol).
      cbv zeta in *.
      assert (Ey0 : y0 = []) by (destruct y0; [reflexivity|cbn in Hy0; lia]).
      assert (Eyh : yhat_def Pb (co_x co) y0 [] = []) by (rewrite Ey0; apply yhat_def_empty).
      assert (Efy : f_y (co_final co) = []).
      { rewrite Hfin. cbn [f_y]. rewrite Ey, Eyh, Ey0. reflexivity. }
      rewrite Efy. rewrite Eyh in Eeps.
      assert (Heff : eff_tol (p_tol AP) = p_tol AP).
      { unfold eff_tol. change (@nltb R NumR) with Rlt_bool. change (@n0 R NumR) with 0.
        destruct (Rlt_bool_spec 0 (p_tol AP)) as [_|Hle]; [reflexivity|]. specialize (Htol Hm0). lra. }
      rewrite Heff in Etol.
      destruct (primal_part (co_x co) [] xx grad γ (ir_eps r0) (p_tol AP) Hγ Lxx Lgr Lxo Ex Eeps Etol) as (P1 & P2).
      split; [exact Lxo|]. split; [cbn; lia|]. split; [exact P1|]. split; [exact P2|].
      split; intros i Hi; lia.
    - (* ---- general constraints: the last record of the trace *)
      assert (Hm : pb_m pb <> 0%nat) by (rewrite Hpm; exact Hm0).
      specialize (HΣ Hm0). rewrite <- Hpm in HΣ.
      rewrite Hfin in Hex, Hst.
      destruct (run_final AP pb _ _ nanv Σ0 y0 script Hmi Hm Hex) as (pre & r & Htr' & _ & _ & _ & Hf).
      cbv zeta in Hf. destruct Hf as (F1 & _ & _ & _ & _ & _ & F7).
      rewrite F1 in Hst. apply rec_status_converged_iff in Hst. destruct Hst as (Hc1 & Hc2 & Hc3).
      pose proof (run_growth AP pb (pf Pb x0) (pg Pb x0) nanv Σ0 y0 script ltac:(destruct HΣ as [A _]; exact A)) as [Hwf _].
      pose proof (run_sigma_positive AP pb (pf Pb x0) (pg Pb x0) nanv Σ0 y0 script HΣ) as Hsp.
      pose proof (run_y_length AP pb (pf Pb x0) (pg Pb x0) nanv Σ0 y0 script Hmi Hm (eq_trans HDub (eq_sym Hpm)) (eq_trans Hy0 (eq_sym Hpm))) as Hyl.
      rewrite Htr' in Hwf, Hsp, Hyl. apply Forall_last in Hwf, Hsp, Hyl.
      destruct Hwf as (W1 & W2 & W3 & W4). destruct Hsp as (S1 & _). rewrite Hpm in *.
      rewrite Htr, Htr' in Hcalled.
      destruct (called_last _ _ _ (fun x => length x = n) HQ pre r x0 w0 (co_x co) (co_w co) Hx0 Hcalled) as (x & w & lg & Lx & Hin).
      destruct (inner_spec _ _ _ _ _ _ _ _ _ _ _ Lx Hin) as (Lxo & Hconv).
      destruct (Hconv Hc1) as (Ey & Ee & xx & grad & γ & Hγ & Lxx & Lgr & Ex & Eeps & _). cbv zeta in *.
      set (xh := co_x co) in *. set (yh := yhat_def Pb xh (it_y r) (it_Sigma r)) in *.
      assert (Lyh : length yh = m) by (apply yhat_def_length; try assumption; now apply Hg).
      assert (Efy : f_y (co_final co) = yh).
      { rewrite Hfin, F7, Ey. unfold pick. rewrite Lyh, Nat.eqb_refl. reflexivity. }
      (* the slack-error buffer after the last solve is (ŷ − y)/Σ *)
      assert (Eerr : it_err r = vdiv (vsub yh (it_y r)) (it_Sigma r)).
      { rewrite W2, Ee. destruct (it_err_in r) as [|e0 ein] eqn:Ein.
        - exfalso. rewrite W2, Ee in W4. unfold pick in W4. cbn [length] in W4. destruct (Nat.eqb 0 m); cbn in W4; lia.
        - unfold pick.
          assert (Lv : length (vdiv (vsub yh (it_y r)) (it_Sigma r)) = m)
            by (unfold vdiv, vsub; apply map2_length; [apply map2_length|]; assumption).
          rewrite Lv, Nat.eqb_refl. reflexivity. }
      rewrite W1, Eerr in Hc3.
      destruct (primal_part xh yh xx grad γ (ir_eps (it_res r)) (p_tol AP) Hγ Lxx Lgr Lxo Ex Eeps Hc2) as (P1 & P2).
      destruct (dual_part xh (it_y r) (it_Sigma r) (p_dual_tol AP) Lxo Hyl W3 S1 Hc3) as (D1 & D2).
      rewrite Efy. split; [exact Lxo|]. split; [exact Lyh|]. split; [exact P1|]. split; [exact P2|]. split; [exact D1|exact D2].
  Qed.
End GenericKkt.

(* the hypothesis on the initial penalties, from parameter ranges (AlmProofs.initial_sigma_ok) *)
Lemma sigma_inv_of_params (P : alm_params (T:=R)) m f0 g0 Σ0 :
  0 < p_min_pen P <= p_max_pen P -> p_init_pen P <= p_max_pen P ->
  (forall s, Σ0 = Some s -> sigma_accepted s = true ->
     length s = m /\ Forall (fun x => 0 < x <= p_max_pen P) s /\ (p_single P = true -> uniform s)) ->
  sigma_inv P m (initial_sigma P m f0 g0 Σ0).
Proof.
  intros H1 H2 H3. destruct (initial_sigma_ok P m f0 g0 Σ0 H1 H2 H3) as (A & B & C).
  split; [exact A|]. split; [|exact C]. eapply Forall_impl; [|exact B]. intros a Ha. cbv beta in Ha. lra.
Qed.

(* ---------------------------------------------------------------- shared by the instances *)
(* the problem as an inner solver sees it through the vtable = the closed forms of C04 (AugLagProofs) *)
Section View.
  Variable Pb : problem (T:=R).
  Variable prov : fn -> bool.
  Hypothesis Hprov : provider_ok Pb prov.
  Hypothesis Hempty : grad_g_prod_empty_ok Pb.
  Lemma view_psi_grad_psi y Σ x : snd (fst (te_psi_grad_psi Pb prov x y Σ)) = grad_psi_def Pb x y Σ.
  Proof. now rewrite te_psi_grad_psi_val. Qed.
  Lemma view_psi y Σ x : fst (te_psi Pb prov x y Σ) = (psi_def Pb x y Σ, yhat_def Pb x y Σ).
  Proof. now apply te_psi_val. Qed.
  Lemma view_grad_L x yh : fst (te_grad_L Pb prov x yh) = grad_L_def Pb x yh.
  Proof. now apply te_grad_L_val. Qed.
  Lemma view_grad_psi y Σ x : fst (te_grad_psi Pb prov x y Σ) = grad_psi_def Pb x y Σ.
  Proof. now apply te_grad_psi_val. Qed.
End View.
