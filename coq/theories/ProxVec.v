(* ProxVec.v — lifting of the scalar prox theorems to vectors (lists) over R. *)
From Coq Require Import Reals List ZArith Lra Lia Bool Psatz.
From Flocq Require Import Raux.
From Alpaqa Require Import Num NumR Vec Prox ProxProofs.
Import ListNotations.
Local Open Scope R_scope.

Lemma map5_length {A B C D E F} (f : A -> B -> C -> D -> E -> F) a b c d e n :
  length a = n -> length b = n -> length c = n -> length d = n -> length e = n ->
  length (map5 f a b c d e) = n.
Proof.
  revert b c d e n; induction a as [|x a IH]; intros [|y b] [|z c] [|w d] [|v e] n; cbn; intros; subst; try discriminate; auto.
  all: f_equal; apply IH; lia.
Qed.

Lemma map5_nth {A B C D E F} (f : A -> B -> C -> D -> E -> F) a b c d e n i da db dc dd de df :
  length a = n -> length b = n -> length c = n -> length d = n -> length e = n -> (i < n)%nat ->
  nth i (map5 f a b c d e) df = f (nth i a da) (nth i b db) (nth i c dc) (nth i d dd) (nth i e de).
Proof.
  revert b c d e n i; induction a as [|x a IH]; intros [|y b] [|z c] [|w d] [|v e] n i; cbn; intros; subst; try discriminate; try lia.
  destruct i; [reflexivity|]. eapply IH; eauto; lia.
Qed.

Lemma map2_length {A B C} (f : A -> B -> C) a b n :
  length a = n -> length b = n -> length (map2 f a b) = n.
Proof. revert b n; induction a; intros [|] n; cbn; intros; subst; try discriminate; auto. Qed.

Lemma map2_nth {A B C} (f : A -> B -> C) a b n i da db dc :
  length a = n -> length b = n -> (i < n)%nat -> nth i (map2 f a b) dc = f (nth i a da) (nth i b db).
Proof.
  revert b n i; induction a as [|x a IH]; intros [|y b] n i; cbn; intros; subst; try discriminate; try lia.
  destruct i; [reflexivity|]. eapply IH; eauto; lia.
Qed.

(* sequential left fold = mathematical sum, over R *)
Fixpoint rsum (v : list R) : R := match v with [] => 0 | x :: v' => x + rsum v' end.
Lemma fold_left_Rplus v a : fold_left Rplus v a = a + rsum v.
Proof. revert a; induction v as [|x v IH]; intros a; cbn; [lra|]. rewrite IH. lra. Qed.
Lemma vsum_rsum (v : list R) : vsum v = rsum v.
Proof. destruct v as [|x v]; cbn; [reflexivity|]. change (fold_left Rplus v x = x + rsum v). apply fold_left_Rplus. Qed.

Lemma rsum_le (f g : list R) : Forall2 Rle f g -> rsum f <= rsum g.
Proof. induction 1; cbn; lra. Qed.

(* ---- projected gradient step ---- *)
Section Step.
  Variables (lb ub : list (option R)) (γ : R) (x g : list R) (n : nat).
  Hypothesis Hlb : length lb = n.
  Hypothesis Hub : length ub = n.
  Hypothesis Hx : length x = n.
  Hypothesis Hg : length g = n.

  Let res := proj_grad_step lb ub γ x g.
  Let xh := fst (fst res).
  Let p := snd (fst res).

  Lemma proj_grad_step_length : length xh = n /\ length p = n.
  Proof.
    subst xh p res; unfold proj_grad_step; cbn [fst snd].
    assert (Hp : length (map5 (fun l u _ xi gi => proj_step1 l u γ xi gi) lb ub x x g) = n)
      by (apply map5_length; assumption).
    split; [|exact Hp]. unfold vadd. apply map2_length; assumption.
  Qed.

  (* every component of x̂ is the projection of the forward point; p = x̂ - x; h = 0 *)
  Lemma proj_grad_step_nth i : (i < n)%nat ->
    nth i xh 0 = proj1 (nth i lb None) (nth i ub None) (nth i x 0 - γ * nth i g 0) /\
    nth i p 0 = nth i xh 0 - nth i x 0 /\ snd res = 0.
  Proof.
    intros Hi. subst xh p res; unfold proj_grad_step; cbn [fst snd].
    set (pp := map5 _ lb ub x x g).
    assert (Hp : length pp = n) by (apply map5_length; assumption).
    assert (Hpi : nth i pp 0 = proj_step1 (nth i lb None) (nth i ub None) γ (nth i x 0) (nth i g 0)).
    { unfold pp. erewrite (map5_nth _ lb ub x x g n i None None 0 0 0 0); eauto. }
    unfold vadd. rewrite (map2_nth _ x pp n i 0 0 0) by assumption.
    rewrite Hpi. change (nadd (nth i x 0) ?a) with (nth i x 0 + a).
    rewrite proj_step1_is_proj. repeat split; try reflexivity.
    rewrite <- proj_step1_is_proj. lra.
  Qed.

  Lemma proj_grad_step_feasible i : (i < n)%nat ->
    box_ne (nth i lb None) (nth i ub None) -> in_box (nth i lb None) (nth i ub None) (nth i xh 0).
  Proof. intros Hi Hne. destruct (proj_grad_step_nth i Hi) as [E _]. rewrite E. now apply proj1_in_box. Qed.
End Step.

(* ---- box + l1 step ---- *)
Section StepL1.
  Variables (lb ub : list (option R)) (λ : list R) (γ : R) (x g : list R) (n : nat).
  Hypothesis Hlb : length lb = n.
  Hypothesis Hub : length ub = n.
  Hypothesis Hl : length λ = n.
  Hypothesis Hx : length x = n.
  Hypothesis Hg : length g = n.
  Hypothesis Hγ : 0 < γ.

  Let res := box_l1_grad_step lb ub λ γ x g.
  Let xh := fst (fst res).
  Let p := snd (fst res).

  Lemma box_l1_grad_step_nth i : (i < n)%nat ->
    0 <= nth i λ 0 -> lb_ok (nth i lb None) 0 -> ub_ok (nth i ub None) 0 ->
    nth i xh 0 = proj1 (nth i lb None) (nth i ub None) (l1_prox1 (nth i λ 0) γ (nth i x 0 - γ * nth i g 0)) /\
    nth i p 0 = nth i xh 0 - nth i x 0.
  Proof.
    intros Hi Hli Hlo Hup. subst xh p res; unfold box_l1_grad_step; cbn [fst snd].
    set (pp := map5 _ lb ub λ x g).
    assert (Hp : length pp = n) by (apply map5_length; assumption).
    assert (Hpi : nth i pp 0 = box_l1_step1 (nth i lb None) (nth i ub None) (nth i λ 0) γ (nth i x 0) (nth i g 0)).
    { unfold pp. erewrite (map5_nth _ lb ub λ x g n i None None 0 0 0 0); eauto. }
    unfold vadd. rewrite (map2_nth _ x pp n i 0 0 0) by assumption.
    rewrite Hpi. change (nadd (nth i x 0) ?a) with (nth i x 0 + a).
    rewrite box_l1_step1_cases by assumption. split; [reflexivity|].
    rewrite <- box_l1_step1_cases by assumption. lra.
  Qed.

  (* returned value h(x̂) = Σ λ_i |x̂_i| *)
  Lemma box_l1_grad_step_h :
    snd res = rsum (map2 (fun a l => Rabs (a * l)) xh λ).
  Proof.
    subst xh res; unfold box_l1_grad_step; cbn [fst snd].
    unfold vnorm1. rewrite vsum_rsum. f_equal.
    unfold vabs, vmul. set (a := vadd x _). clearbody a. clear.
    revert λ; induction a as [|y a IH]; intros [|l λ]; cbn; auto. f_equal. apply IH.
  Qed.
End StepL1.

(* vector minimality: for componentwise data, the sum of scalar objectives is minimised *)
Lemma vector_argmin (f : list R) (g : list R) : Forall2 Rle f g -> rsum f <= rsum g.
Proof. apply rsum_le. Qed.

(* ---- multipliers ---- *)
Lemma proj_multipliers_spec k lb ub M y : 0 <= M -> length lb = length y -> length ub = length y ->
  let o := proj_multipliers k lb ub M y in
  length o = length y /\
  forall i, (i < length y)%nat ->
    ((i < k)%nat -> nth i o 0 = 0) /\
    ((k <= i)%nat -> nth i o 0 = proj_mult1 (nth i lb None) (nth i ub None) M (nth i y 0)).
Proof.
  intros HM. revert k lb ub. induction y as [|yi y IH]; intros k [|l lb] [|u ub]; cbn; intros; try discriminate.
  - split; [reflexivity|]. intros; lia.
  - destruct k as [|k]; cbn.
    + destruct (IH 0%nat lb ub) as [L N]; try lia. split; [cbn; lia|].
      intros [|i] Hi; split; intros; try lia; try reflexivity.
      apply N; lia.
    + destruct (IH k lb ub) as [L N]; try lia. split; [cbn; lia|].
      intros [|i] Hi; split; intros; try lia; try reflexivity.
      * apply N; lia.
      * apply N; lia.
Qed.
