(* PanocLiveN.v — corollaries of PanocLive.panoc_live: the iteration bound as an explicit natural number, and what the returned
   point is (an ε-fixed point of the projected-gradient map, in C). *)
From Coq Require Import Reals List ZArith Lra Lia Bool Arith Psatz.
From Flocq Require Import Raux.
From Alpaqa Require Import Num NumR Vec Prox ProxProofs ProxVec SolverStatus SolverKernels SolverKernelsProofs DescentProofs
                           StopChain StopChainProofs Panoc PanocProofs LiveVec PanocLive.
Import ListNotations.
Local Open Scope R_scope.

(* the least-effort explicit N: ceil((Φ0 - ψinf)/dec) computed with the standard library's `up` *)
Definition N_of (gap dec : R) : nat := Z.to_nat (up (gap / dec)).

Lemma INR_to_nat_ge (z : Z) : IZR z <= INR (Z.to_nat z).
Proof.
  destruct z as [|p|p]; cbn [Z.to_nat].
  - cbn. lra.
  - rewrite INR_IZR_INZ, positive_nat_Z. lra.
  - cbn [INR]. apply IZR_le. lia.
Qed.

Lemma N_of_spec (gap dec : R) : 0 < dec -> gap < INR (N_of gap dec) * dec.
Proof.
  intros Hd. unfold N_of. destruct (archimed (gap / dec)) as [Hu _].
  pose proof (INR_to_nat_ge (up (gap / dec))) as Hn.
  assert (Hlt : gap / dec < INR (Z.to_nat (up (gap / dec)))) by lra.
  apply Rmult_lt_compat_r with (r := dec) in Hlt; [|exact Hd].
  unfold Rdiv in Hlt. rewrite Rmult_assoc, Rinv_l, Rmult_1_r in Hlt by lra. exact Hlt.
Qed.

Section LiveN.
  Variable psi_grad_full : list R -> R * list R * list R.
  Variable psi_yhat : list R -> R * list R.
  Variable grad_L : list R -> list R -> list R.
  Variable grad_psi : list R -> list R.
  Variables (lb ub : list (option R)).
  Variable dir_apply : nat -> iterate (T:=R) -> option (list R).
  Variable has_initial : bool.
  Variable P : params (T:=R).
  Variables (x_in y_in Σ errz_in : list R).
  Variable ls_fuel : nat.
  Variables (ψ : list R -> R) (g : list R -> list R) (n : nat) (Lf ψinf : R).

  Notation never := (fun _ : counters => false).
  Notation run := (panoc psi_grad_full psi_yhat grad_L grad_psi lb ub [] dir_apply has_initial never never P x_in y_in Σ errz_in ls_fuel).
  Notation Linit := (L_init psi_grad_full grad_psi P x_in).
  Notation Dec := (dec psi_grad_full grad_psi P x_in Lf).
  Notation PHI0 := (Phi0 psi_grad_full grad_psi lb ub P x_in ψ g Lf).

  Hypothesis Hpsi : forall x, psi_grad psi_grad_full x = (ψ x, g x).
  Hypothesis Hco : coherent psi_grad_full psi_yhat grad_L grad_psi P.
  Hypothesis Hglen : forall x, length x = n -> length (g x) = n.
  Hypothesis Hqub : forall u d, length u = n -> length d = n -> ψ (vadd u d) <= ψ u + vdot (g u) d + Lf / 2 * vsqnorm d.
  Hypothesis Hinf : forall z, all_in_box lb ub z -> ψinf <= ψ z.
  Hypothesis Hlb : length lb = n.
  Hypothesis Hub : length ub = n.
  Hypothesis Hne : Forall2 box_ne lb ub.
  Hypothesis Hxin : length x_in = n.
  Hypothesis Hdir : forall j i q, dir_apply j i = Some q -> length q = n.
  Hypothesis HLg : 0 < p_Lgamma P < 1.
  Hypothesis HL0 : 0 < Linit.
  Hypothesis HLmax : Lf <= p_Lmax P.
  Hypothesis Hqt : p_qub_tol P = 0.
  Hypothesis Hlt : p_ls_tol P = 0.
  Hypothesis Hbeta : 0 < p_beta P <= 1.
  Hypothesis Hforce : p_force_ls P = false.
  Hypothesis Hcrit : p_crit P = ProjGradNorm \/ p_crit P = ProjGradNorm2 \/ p_crit P = FPRNorm \/ p_crit P = FPRNorm2.
  Variables (nL nT : nat).
  Hypothesis HnL : p_Lmax P <= Linit * 2 ^ nL.
  Hypothesis Hfac : 0 <= p_tau_factor P <= 1.
  Hypothesis Hmin : p_tau_factor P ^ nT < p_tau_min P.
  Hypothesis Hfuel : (ls_pass_bound nL nT <= ls_fuel)%nat.

  Theorem panoc_live_any_N (N fuel : nat) : PHI0 - ψinf < INR N * Dec -> (N <= p_max_iter P)%nat -> (N < fuel)%nat ->
    exists o, run fuel = Done o /\ out_status o = StConverged /\ (out_iterations o < N)%nat.
  Proof.
    intros HN Hmax Hf. destruct Hfac as [Hfac0 Hfac1].
    exact (panoc_live psi_grad_full psi_yhat grad_L grad_psi lb ub dir_apply has_initial P x_in y_in Σ errz_in ls_fuel ψ g n Lf ψinf
             Hpsi Hco Hglen Hqub Hinf Hlb Hub Hne Hxin Hdir HLg HL0 HLmax Hqt Hlt Hbeta Hforce Hfac0 Hcrit nL nT HnL Hfac1 Hmin Hfuel
             PHI0 N HN Hmax (Rle_refl _) fuel Hf).
  Qed.

  Definition Nbound : nat := N_of (PHI0 - ψinf) Dec.

  Theorem panoc_live_explicit fuel : (Nbound <= p_max_iter P)%nat -> (Nbound < fuel)%nat ->
    exists o, run fuel = Done o /\ out_status o = StConverged /\ (out_iterations o < Nbound)%nat.
  Proof.
    intros Hmax Hf. destruct Hfac as [Hfac0 Hfac1].
    apply (panoc_live psi_grad_full psi_yhat grad_L grad_psi lb ub dir_apply has_initial P x_in y_in Σ errz_in ls_fuel ψ g n Lf ψinf
             Hpsi Hco Hglen Hqub Hinf Hlb Hub Hne Hxin Hdir HLg HL0 HLmax Hqt Hlt Hbeta Hforce Hfac0 Hcrit nL nT HnL Hfac1 Hmin Hfuel
             PHI0 Nbound); try assumption; [|lra].
    apply N_of_spec. apply (dec_pos psi_grad_full grad_psi P x_in Lf); assumption.
  Qed.

  (* what the returned point is: x̂ = x + p in C, p the projected-gradient step of some step size γ > 0 from a point x with the
     problem's own ∇ψ(x), and the reported ε — the norm of p (divided by γ for the FPR criteria) — is within the tolerance *)
  Theorem panoc_converged_point fuel o : run fuel = Done o -> out_status o = StConverged ->
    exists (x : list R) (γ : R), 0 < γ /\
      let p := snd (fst (proj_grad_step lb ub γ x (g x))) in
      out_x o = vadd x p /\
      out_eps o <= eff_tol (o_tol P) /\
      out_eps o = match p_crit P with
                  | ProjGradNorm2 => vnorm2 p | FPRNorm => vnorminf p / γ | FPRNorm2 => vnorm2 p / γ | _ => vnorminf p end.
  Proof.
    intros Hr Hs.
    destruct (panoc_exit psi_grad_full psi_yhat grad_L grad_psi lb ub [] dir_apply has_initial never never P x_in y_in Σ errz_in ls_fuel fuel o Hr)
      as (cf & Hc & Hq & Hg & _ & He & Hov & _).
    assert (Hov' : overwrites (out_status o) (o_always P) = true) by (rewrite Hs; reflexivity).
    destruct (Hov Hov') as (O1 & O2 & _).
    destruct (consistent_coherent psi_grad_full psi_yhat grad_L grad_psi lb ub [] dir_apply has_initial never never P x_in y_in Σ errz_in ls_fuel cf Hco Hc) as [E1 _].
    rewrite Hpsi in E1. inversion E1 as [[Ep Eg]].
    destruct (consistent_explicit psi_grad_full psi_yhat grad_L grad_psi lb ub [] dir_apply has_initial never never P x_in y_in Σ errz_in ls_fuel cf Hc)
      as (_ & X2 & _).
    cbn [eval_prox_grad_step] in X2. rewrite Eg in X2.
    exists (ix cf), (igam cf). split.
    { apply (glrel0_pos psi_grad_full psi_yhat grad_L grad_psi lb ub [] dir_apply has_initial never never P x_in y_in Σ errz_in ls_fuel cf); [lra|exact HL0|exact Hg]. }
    cbv zeta. rewrite X2. cbn [fst snd]. split; [now rewrite O1|]. split.
    - destruct (panoc_status_clauses psi_grad_full psi_yhat grad_L grad_psi lb ub [] dir_apply has_initial never never P x_in y_in Σ errz_in ls_fuel fuel o Hr)
        as (_ & _ & _ & Hcv & _). now apply Hcv.
    - rewrite He. unfold it_eps, crit_eps. destruct Hcrit as [E|[E|[E|E]]]; rewrite E; reflexivity.
  Qed.
End LiveN.
