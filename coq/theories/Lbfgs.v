(* Lbfgs.v — model of alpaqa::LBFGS (C09).  Model only, no proofs.
   Sources: accelerators/lbfgs.hpp, implementation/accelerators/lbfgs.tpp.
   Part 1: the circular buffer exactly as the code has it (idx, full, slots (s, y, ρ, α)), with
           update_valid, update_sy_impl, update, apply, apply_masked_impl, reset, resize, scale_y,
           succ/pred, foreach_fwd/foreach_rev (as index lists).
   Part 2: the abstract side: history = list of pairs (oldest first), the dense BFGS inverse-Hessian
           operator H by the BFGS recursion, the documented initial scaling.
   Encoding of NaN<config_t>: apply_masked marks pairs that are invalid on J by storing a NaN in the
   workspace α(i) (the stored ρ(i) is never written by apply_masked: the J-restricted ρ is a local,
   recomputed in the second loop).  Over R there is no NaN, so the mark is an explicit bool `sl_skip` of
   the slot: "α(i) holds the NaN<config_t> mark"; every ordinary assignment of α(i) (first loop of apply
   and of apply_masked) clears it.  The second masked loop tests isnan(α(i)): `sl_skip || nisnan α`, so a
   genuine NaN α at binary64 is skipped exactly as in the code.
   The stored ρ keeps the type `option T` (None read as 0/0); no operation produces None any more.
   std::pow is a section variable (libm). *)
From Coq Require Import List ZArith Bool Arith.
From Alpaqa Require Import Num Vec.
Import ListNotations.

Section Lbfgs.
  Context {T : Type} `{Num T}.
  Local Open Scope num_scope.

  Variable pw : T -> T -> T.                       (* std::pow *)

  Record params := {
    p_memory : nat;            (* LBFGSParams::memory (>= 1 or resize throws) *)
    p_min_div_fac : T;
    p_min_abs_s : T;
    p_cbfgs_α : T;
    p_cbfgs_ϵ : T;
    p_force_pos_def : bool;
    p_curvature : bool         (* stepsize == LBFGSStepSize::BasedOnCurvature *)
  }.

  (* CBFGSParams::operator bool *)
  Definition cbfgs_on (P : params) : bool := n0 <? p_cbfgs_ϵ P.

  (* LBFGS::update_valid *)
  Definition update_valid (P : params) (yts sts ptp : T) : bool :=
    if sts <=? p_min_abs_s P then false else
    if negb (nfinite yts) then false else
    let a := if p_force_pos_def P then yts else nabs yts in
    if a <=? p_min_div_fac P * sts then false else
    if cbfgs_on P then (sts * p_cbfgs_ϵ P * pw ptp (p_cbfgs_α P / n2)) <=? a
    else true.

  (* ---------------------------------------------------------------- circular buffer *)
  Record slot := { sl_s : list T; sl_y : list T; sl_ρ : option T; sl_α : T; sl_skip : bool }.
  Record state := { st_n : nat; st_idx : nat; st_full : bool; st_slots : list slot }.

  Definition nan : T := n0 / n0.
  Definition ρval (o : option T) : T := match o with Some r => r | None => nan end.

  Definition slot0 (n : nat) : slot := {| sl_s := repeat n0 n; sl_y := repeat n0 n; sl_ρ := Some n0; sl_α := n0; sl_skip := false |}.
  Definition history (st : state) : nat := length (st_slots st).
  Definition get (st : state) (i : nat) : slot := nth i (st_slots st) (slot0 0).

  Fixpoint upd {A} (l : list A) (i : nat) (x : A) : list A :=
    match l, i with
    | [], _ => []
    | _ :: l', O => x :: l'
    | a :: l', S i' => a :: upd l' i' x
    end.
  Definition set_slot (st : state) (i : nat) (sl : slot) : state :=
    {| st_n := st_n st; st_idx := st_idx st; st_full := st_full st; st_slots := upd (st_slots st) i sl |}.
  (* α(i) = a  (an ordinary value: clears the mark) *)
  Definition set_α (st : state) (i : nat) (a : T) : state :=
    let sl := get st i in set_slot st i {| sl_s := sl_s sl; sl_y := sl_y sl; sl_ρ := sl_ρ sl; sl_α := a; sl_skip := false |}.
  (* α(i) = NaN<config_t>  (the exclusion mark of apply_masked) *)
  Definition set_mark (st : state) (i : nat) : state :=
    let sl := get st i in set_slot st i {| sl_s := sl_s sl; sl_y := sl_y sl; sl_ρ := sl_ρ sl; sl_α := nan; sl_skip := true |}.

  Definition succ (st : state) (i : nat) : nat := if (S i <? history st)%nat then S i else 0%nat.
  Definition pred (st : state) (i : nat) : nat := match i with O => history st - 1 | S i' => i' end.
  Definition current_history (st : state) : nat := if st_full st then history st else st_idx st.

  (* foreach_fwd (oldest first) / foreach_rev (newest first): the visited indices in order *)
  Definition fwd_idx (st : state) : list nat :=
    (if st_full st then seq (st_idx st) (history st - st_idx st) else []) ++ seq 0 (st_idx st).
  Definition rev_idx (st : state) : list nat :=
    rev (seq 0 (st_idx st)) ++ (if st_full st then rev (seq (st_idx st) (history st - st_idx st)) else []).

  (* reset / resize (resize throws when memory < 1: None) *)
  Definition reset (st : state) : state :=
    {| st_n := st_n st; st_idx := 0; st_full := false; st_slots := st_slots st |}.
  Definition resize (P : params) (n : nat) : option state :=
    if (p_memory P <? 1)%nat then None
    else Some {| st_n := n; st_idx := 0; st_full := false; st_slots := repeat (slot0 n) (p_memory P) |}.

  (* update_sy_impl *)
  Definition update_sy (P : params) (st : state) (s y : list T) (pp : T) (forced : bool) : bool * state :=
    let yts := vdot y s in
    let ρ := n1 / yts in
    if negb forced && negb (update_valid P yts (vsqnorm s) pp) then (false, st)
    else
      let i := st_idx st in
      let st1 := set_slot st i {| sl_s := s; sl_y := y; sl_ρ := Some ρ; sl_α := sl_α (get st i); sl_skip := sl_skip (get st i) |} in
      let i' := succ st i in
      (true, {| st_n := st_n st; st_idx := i'; st_full := st_full st || (i' =? 0)%nat; st_slots := st_slots st1 |}).

  (* update(xk, xnext, pk, pnext, sign, forced) *)
  Definition update (P : params) (st : state) (xk xn pk pn : list T) (sign_pos forced : bool) : bool * state :=
    let s := vsub xn xk in
    let y := if sign_pos then vsub pn pk else vsub pk pn in
    let pp := if cbfgs_on P then vsqnorm pn else n0 in
    update_sy P st s y pp forced.

  (* q -= a * x *)
  Definition axmy (a : T) (x q : list T) : list T := vsub q (vscale a x).

  (* apply: the two loops.  The first loop writes α(i) into the (mutable) storage. *)
  Fixpoint rev_loop (l : list nat) (st : state) (q : list T) : state * list T :=
    match l with
    | [] => (st, q)
    | i :: l' =>
        let sl := get st i in
        let α := ρval (sl_ρ sl) * vdot (sl_s sl) q in
        rev_loop l' (set_α st i α) (axmy α (sl_y sl) q)
    end.
  Fixpoint fwd_loop (l : list nat) (st : state) (q : list T) : list T :=
    match l with
    | [] => q
    | i :: l' =>
        let sl := get st i in
        let β := ρval (sl_ρ sl) * vdot (sl_y sl) q in
        fwd_loop l' st (axmy (β - sl_α sl) (sl_s sl) q)
    end.

  Definition is_empty (st : state) : bool := (st_idx st =? 0)%nat && negb (st_full st).

  (* the γ that apply() uses *)
  Definition apply_γ (P : params) (st : state) (γ : T) : T :=
    if p_curvature P || (γ <? n0) then
      let sl := get st (pred st (st_idx st)) in
      n1 / (ρval (sl_ρ sl) * vsqnorm (sl_y sl))
    else γ.

  Definition apply (P : params) (st : state) (q : list T) (γ : T) : bool * list T * state :=
    if is_empty st then (false, q, st)
    else
      let γ' := apply_γ P st γ in
      let '(st1, q1) := rev_loop (rev_idx st) st q in
      let q2 := vscale γ' q1 in
      (true, fwd_loop (fwd_idx st) st1 q2, st1).

  (* ---------------------------------------------------------------- apply_masked_impl *)
  Section Masked.
    Variable P : params.
    Variable J : list nat.
    Variable fullJ : bool.

    Definition dotJ (a b : list T) : T :=
      if fullJ then vdot a b
      else fold_left (fun acc j => acc + nth j a n0 * nth j b n0) J n0.
    Definition axmyJ (a : T) (x y : list T) : list T :=
      if fullJ then axmy a x y
      else fold_left (fun y j => upd y j (nth j y n0 - a * nth j x n0)) J y.
    Definition scalJ (a : T) (x : list T) : list T :=
      if fullJ then vscale a x
      else fold_left (fun x j => upd x j (nth j x n0 * a)) J x.

    Fixpoint mrev_loop (l : list nat) (st : state) (q : list T) (γ : T) : state * list T * T :=
      match l with
      | [] => (st, q, γ)
      | i :: l' =>
          let sl := get st i in
          let yts := dotJ (sl_s sl) (sl_y sl) in
          let sts := dotJ (sl_s sl) (sl_s sl) in
          let ρJ := n1 / yts in                                   (* local; the stored ρ(i) is not written *)
          if negb (update_valid P yts sts n0) then mrev_loop l' (set_mark st i) q γ
          else
            let α := ρJ * dotJ (sl_s sl) q in
            let st1 := set_α st i α in
            let q1 := axmyJ α (sl_y sl) q in
            let γ1 := if γ <? n0 then n1 / (ρJ * dotJ (sl_y sl) (sl_y sl)) else γ in
            mrev_loop l' st1 q1 γ1
      end.
    (* std::isnan(α(i)) *)
    Definition α_is_nan (sl : slot) : bool := sl_skip sl || nisnan (sl_α sl).
    Fixpoint mfwd_loop (l : list nat) (st : state) (q : list T) : list T :=
      match l with
      | [] => q
      | i :: l' =>
          let sl := get st i in
          if α_is_nan sl then mfwd_loop l' st q
          else
            let ρJ := n1 / dotJ (sl_s sl) (sl_y sl) in
            let β := ρJ * dotJ (sl_y sl) q in
            mfwd_loop l' st (axmyJ (β - sl_α sl) (sl_s sl) q)
      end.
  End Masked.

  Inductive mres := MThrow | MRet (b : bool).
  Definition apply_masked (P : params) (st : state) (q : list T) (γ : T) (J : list nat) : mres * list T * state :=
    if is_empty st then (MRet false, q, st)
    else
      let fullJ := (length q =? length J)%nat in
      let γ0 := if p_curvature P then - n1 else γ in
      if cbfgs_on P then (MThrow, q, st)
      else
        let '(st1, q1, γ1) := mrev_loop P J fullJ (rev_idx st) st q γ0 in
        if γ1 <? n0 then (MRet false, q1, st1)
        else
          let q2 := scalJ J fullJ γ1 q1 in
          (MRet true, mfwd_loop J fullJ (fwd_idx st) st1 q2, st1).

  (* scale_y *)
  Definition scale_slot (f : T) (sl : slot) : slot :=
    {| sl_s := sl_s sl; sl_y := map (fun x => x * f) (sl_y sl);
       sl_ρ := option_map (fun r => r * (n1 / f)) (sl_ρ sl); sl_α := sl_α sl; sl_skip := sl_skip sl |}.
  Fixpoint scale_first (k : nat) (f : T) (l : list slot) : list slot :=
    match k, l with
    | S k', sl :: l' => scale_slot f sl :: scale_first k' f l'
    | _, _ => l
    end.
  Definition scale_y (st : state) (f : T) : state :=
    {| st_n := st_n st; st_idx := st_idx st; st_full := st_full st;
       st_slots := scale_first (current_history st) f (st_slots st) |}.

  (* ---------------------------------------------------------------- operations / histories *)
  Inductive op :=
  | OUpdSy (s y : list T) (pp : T) (forced : bool)
  | OUpd (xk xn pk pn : list T) (sign_pos forced : bool)
  | OApply (q : list T) (γ : T)
  | OApplyM (q : list T) (γ : T) (J : list nat)
  | OReset
  | OResize (n : nat)
  | OScale (f : T).

  (* what a call returns: 0 = false, 1 = true, 2 = void, 3 = exception *)
  Record out := { o_ret : nat; o_q : list T }.
  Definition bret (b : bool) : nat := if b then 1 else 0.

  Definition step (P : params) (st : state) (o : op) : state * out :=
    match o with
    | OUpdSy s y pp forced => let '(b, st') := update_sy P st s y pp forced in (st', {| o_ret := bret b; o_q := [] |})
    | OUpd xk xn pk pn sg forced => let '(b, st') := update P st xk xn pk pn sg forced in (st', {| o_ret := bret b; o_q := [] |})
    | OApply q γ => let '(b, q', st') := apply P st q γ in (st', {| o_ret := bret b; o_q := q' |})
    | OApplyM q γ J =>
        let '(r, q', st') := apply_masked P st q γ J in
        (st', {| o_ret := match r with MThrow => 3 | MRet b => bret b end; o_q := q' |})
    | OReset => (reset st, {| o_ret := 2; o_q := [] |})
    | OResize n => match resize P n with Some st' => (st', {| o_ret := 2; o_q := [] |}) | None => (st, {| o_ret := 3; o_q := [] |}) end
    | OScale f => (scale_y st f, {| o_ret := 2; o_q := [] |})
    end.

  Definition run (P : params) (ops : list op) (st : state) : state :=
    fold_left (fun st o => fst (step P st o)) ops st.

  (* the stored history, oldest first, read the way the public accessors + foreach_fwd show it *)
  Definition hist (st : state) : list slot := map (get st) (fwd_idx st).
  Definition pair := (list T * list T)%type.
  Definition pairs (st : state) : list pair := map (fun sl => (sl_s sl, sl_y sl)) (hist st).

  (* ---------------------------------------------------------------- abstract side *)
  (* bounded history: append, drop the oldest beyond `mem` *)
  Definition push {A} (mem : nat) (h : list A) (x : A) : list A :=
    if (length h <? mem)%nat then h ++ [x] else tl h ++ [x].

  Definition accepted (P : params) (s y : list T) (pp : T) (forced : bool) : bool :=
    forced || update_valid P (vdot y s) (vsqnorm s) pp.

  Definition abs_step (P : params) (h : list pair) (o : op) : list pair :=
    match o with
    | OUpdSy s y pp forced => if accepted P s y pp forced then push (p_memory P) h (s, y) else h
    | OUpd xk xn pk pn sg forced =>
        let s := vsub xn xk in
        let y := if sg then vsub pn pk else vsub pk pn in
        let pp := if cbfgs_on P then vsqnorm pn else n0 in
        if accepted P s y pp forced then push (p_memory P) h (s, y) else h
    | OApply _ _ | OApplyM _ _ _ => h
    | OReset => []
    | OResize _ => if (p_memory P <? 1)%nat then h else []
    | OScale f => map (fun p => (fst p, map (fun x => x * f) (snd p))) h
    end.
  Definition abs_run (P : params) (ops : list op) (h : list pair) : list pair := fold_left (abs_step P) ops h.

  (* BFGS inverse-Hessian operator of a history given NEWEST FIRST:
       H⁺ v = (I - ρ s yᵀ) H ((I - ρ y sᵀ) v) + ρ s sᵀ v,   ρ = 1/(yᵀs),   H₀ = γ I *)
  Fixpoint Hop (newest_first : list pair) (γ : T) (v : list T) : list T :=
    match newest_first with
    | [] => vscale γ v
    | (s, y) :: older =>
        let ρ := n1 / vdot y s in
        let a := ρ * vdot s v in
        let r := Hop older γ (axmy a y v) in
        axmy (ρ * vdot y r - a) s r
    end.
  (* history oldest first, as stored *)
  Definition Hbfgs (h : list pair) (γ : T) (v : list T) : list T := Hop (rev h) γ v.

  (* documented initial scaling: γ given, or sᵀy / yᵀy of the newest pair *)
  Definition doc_γ (P : params) (h : list pair) (γ : T) : T :=
    if p_curvature P || (γ <? n0) then
      match rev h with (s, y) :: _ => vdot y s / vsqnorm y | [] => γ end
    else γ.

  (* restriction of a vector to an index list *)
  Definition restr (J : list nat) (v : list T) : list T := map (fun j => nth j v n0) J.

  Definition has_masked (ops : list op) : bool :=
    existsb (fun o => match o with OApplyM _ _ _ => true | _ => false end) ops.
End Lbfgs.

Arguments params T : clear implicits.
Arguments slot T : clear implicits.
Arguments state T : clear implicits.
Arguments op T : clear implicits.
Arguments out T : clear implicits.
Arguments pair T : clear implicits.
