(* AlmPantrDirRefine.v — REFINEMENT at the level of whole composed runs, for PANTR (counterpart of AlmPanocDirRefine.v /
   AlmZeroFprDirRefine.v): every run of the shipped stack model AlmPantrDir.alm_pantr_dir (ALM ∘ PANTR with a stateful trust-region
   direction provider, for EVERY provider `trdirops` and every initial provider state) IS a run of the oracle-direction model
   AlmPantr.alm_pantr for the direction oracle
        "the j-th apply call of the whole ALM run (global index, across inner solves) returned the (q, model value) the provider returned there":
   same ALM trace (every record: outer index, y, Σ, tolerance, err_z buffers, inner outcome), same final statistics / status, same x, same
   cumulative counters, and the SAME inner results (outputs, statistics, counters, the whole callback log incl. q, Δ, ρ — PANTR's records
   carry the q of the call, so there is no "up to" here).
   Hence every theorem proved about alm_pantr "for every direction oracle" (C01_alm_pantr_converged_is_kkt, the C07 theorems through
   C01_composed_run_is_alm_run, C19_alm_pantr_stop_ends_run, …) holds for the shipped stack ALMSolver<PANTRSolver<NewtonTRDirection>>.
   Lifts PantrDirProofs.pass_sim (one pass, any continuation of the call log) through the inner loop and AlmCompose.c_loop.  Over R. *)
From Coq Require Import Reals List ZArith Lra Lia Bool Arith FunctionalExtensionality.
From Flocq Require Import Raux.
From Alpaqa Require Import Num NumR Vec Prox SolverStatus SolverKernels StopChain AugLag Panoc PanocProofs ZeroFpr ZeroFprProofs Pantr PantrProofs
                           DirectionsTR PantrDir PantrDirProofs Alm AlmCompose AlmPanoc AlmPantr AlmPantrDir.
Import ListNotations.
Local Open Scope R_scope.

Arguments c_script {T W Lg} _.
Arguments c_logs {T W Lg} _.
Arguments c_x {T W Lg} _.
Arguments c_w {T W Lg} _.
Arguments co_trace {T W Lg} _.
Arguments co_final {T W Lg} _.
Arguments co_x {T W Lg} _.
Arguments co_logs {T W Lg} _.
Arguments co_w {T W Lg} _.

Section OneSolve.
  Variable psi_grad_full : list R -> R * list R * list R.
  Variable psi_yhat : list R -> R * list R.
  Variable grad_L : list R -> list R -> list R.
  Variable grad_psi : list R -> list R.
  Variables (lb ub : list (option R)) (l1 : list R).
  Variable D : Type.
  Variable ops : trdirops R D.
  Variable stop_req : counters -> bool.
  Variable time_up : counters -> bool.
  Variable TP : trparams (T:=R).
  Variables (x_in y_in Σ errz_in : list R).
  Variable bt_fuel : nat.
  Variable d0 : D.

  Notation P := (tp_base TP).
  Notation hasinit := (td_has_initial D ops).
  Notation tpass_ O := (tpass psi_grad_full psi_yhat grad_L lb ub l1 O hasinit stop_req time_up TP x_in y_in Σ errz_in bt_fuel).
  Notation tloop_ O := (tloop psi_grad_full psi_yhat grad_L lb ub l1 O hasinit stop_req time_up TP x_in y_in Σ errz_in bt_fuel).
  Notation pantr_ O := (pantr psi_grad_full psi_yhat grad_L grad_psi lb ub l1 O hasinit stop_req time_up TP x_in y_in Σ errz_in bt_fuel).
  Notation passD_ := (passD psi_grad_full psi_yhat grad_L lb ub l1 D ops stop_req time_up TP x_in y_in Σ errz_in bt_fuel).
  Notation tloopD_ := (tloopD psi_grad_full psi_yhat grad_L lb ub l1 D ops stop_req time_up TP x_in y_in Σ errz_in bt_fuel).
  Notation pantrD_ := (pantrD psi_grad_full psi_yhat grad_L grad_psi lb ub l1 D ops stop_req time_up TP x_in y_in Σ errz_in bt_fuel d0).
  Notation bt := (ZeroFpr.init_qub psi_yhat lb ub l1 P bt_fuel).
  Notation InvD_ := (InvD D).

  (* the exit pass makes no apply call *)
  Lemma tpass_exit_c_apply (O : nat -> iterate (T:=R) -> R -> list R * R) (s : tstate (T:=R)) o :
    tpass_ O s = TExit o -> c_apply (to_cnt o) = c_apply (ts_cnt s).
  Proof.
    unfold tpass, Pantr.P. cbv zeta.
    match goal with |- context [stop_status_helpers ?a ?b ?c ?d ?e ?f ?g ?h] => destruct (stop_status_helpers a b c d e f g h) end.
    2-8: (match goal with |- context [exit_block ?a ?b ?c ?d ?e ?f ?g ?h] => destruct (exit_block a b c d e f g h) as [[xo yo] eo] end;
          intros E; injection E as <-; cbn [to_cnt]; destruct (crit_needs_gradh (p_crit (tp_base TP))); reflexivity).
    unfold finish_iter.
    match goal with |- context [tr_step ?a ?b ?c ?d ?e ?f ?g ?h ?i ?j ?k ?l] => destruct (tr_step a b c d e f g h i j k l) as [[[[[[[cand q] Δ] ρ] acc] c8] st3] ok] end.
    destruct ok; cbn [negb]; [|discriminate].
    destruct acc.
    - match goal with |- context [match ?b with Some _ => _ | None => _ end] => destruct b as [[[? ?] ?]|] end; discriminate.
    - match goal with |- context [match ?b with Some _ => _ | None => _ end] => destruct b as [[[? ?] ?]|] end; discriminate.
  Qed.

  (* the refinement of one solve, for ANY continuation `ext` of the call log, with the number of apply calls *)
  Lemma tloop_sim_ext : forall fuel sD oD ext, InvD_ sD -> tloopD_ fuel sD = TDoneD D oD ->
    (exists ext0, tod_calls D oD = tsd_calls D sD ++ ext0) /\
    tloop_ (oracle_of (tod_calls D oD ++ ext)) fuel (tsd_st D sD) = TDone (tod_out D oD) /\
    c_apply (to_cnt (tod_out D oD)) = length (tod_calls D oD).
  Proof.
    induction fuel as [|f IH]; intros sD oD ext Hi; [discriminate|].
    cbn [tloopD tloop].
    pose proof (pass_sim psi_grad_full psi_yhat grad_L lb ub l1 D ops stop_req time_up TP x_in y_in Σ errz_in bt_fuel sD Hi) as Hp.
    destruct (passD_ sD) as [o|sD'| |]; try discriminate.
    - intros E. injection E as <-. destruct Hp as [Hp Hc]. split; [exists []; now rewrite app_nil_r, Hc|].
      rewrite Hp. split; [reflexivity|]. rewrite Hc. unfold InvD in Hi. rewrite Hi.
      exact (tpass_exit_c_apply _ _ _ (Hp [])).
    - intros E. destruct Hp as ([ext1 E1] & Hi' & Hall). destruct (IH _ _ ext Hi' E) as ([ext2 E2] & Hl & Hc).
      split; [exists (ext1 ++ ext2); now rewrite E2, E1, app_assoc|].
      pose proof (Hall (ext2 ++ ext)) as Ht. rewrite app_assoc, <- E2 in Ht. rewrite Ht. split; [exact Hl|exact Hc].
  Qed.

  Theorem pantrD_refines_ext fuel oD ext : pantrD_ fuel = TDoneD D oD ->
    pantr_ (oracle_of (tod_calls D oD ++ ext)) fuel = TDone (tod_out D oD) /\
    c_apply (to_cnt (tod_out D oD)) = length (tod_calls D oD).
  Proof.
    unfold pantrD, pantr, Pantr.backtrack, Pantr.ecost, Pantr.eprox, Pantr.P.
    pose proof (init_L_c_apply0 psi_grad_full grad_psi TP x_in) as H0.
    destruct (init_L psi_grad_full grad_psi P x_in) as [i0 c0]. cbn [snd] in H0.
    destruct (negb (nfinite (iL i0))); [discriminate|].
    match goal with |- context [bt ?i ?c ?st] => destruct (bt i c st) as [[[i3 c1] s1]|] eqn:Eb end; [|discriminate].
    intros E. apply (tloop_sim_ext _ _ _ ext) in E; [exact (Logic.proj2 E)|].
    unfold InvD. cbn [tsd_calls tsd_st ts_cnt length].
    rewrite (bt_c_apply psi_yhat lb ub l1 TP _ _ _ _ _ _ _ Eb). cbn [c_apply inc_py]. now symmetry.
  Qed.
End OneSolve.

Section Compose.
  Variable Pb : problem (T:=R).
  Variable prov : fn -> bool.
  Variable wm_supplied : list R -> list R.
  Variables (Clb Cub : list (option R)) (l1 : list R).
  Variable split : nat.
  Variable D : Type.
  Variable ops : trdirops R D.
  Variable stop_req : counters -> bool.
  Variable time_up : counters -> bool.
  Variable outer_oot : nat -> bool.
  Variable TP : trparams (T:=R).
  Variable AP : alm_params (T:=R).
  Variables (bt_fuel inner_fuel : nat).

  Notation innerD := (tdinner Pb prov wm_supplied Clb Cub l1 D ops stop_req time_up outer_oot TP bt_fuel inner_fuel).
  Notation innerO O := (tinner Pb prov wm_supplied Clb Cub l1 O (td_has_initial D ops) stop_req time_up outer_oot TP bt_fuel inner_fuel).
  Notation pb := (pb_of Pb split).

  (* the apply calls of one inner solve / of a list of inner solves, in call order *)
  Definition tcalls_of (lg : tresultD (T:=R) D) : list (tcall (T:=R)) := match lg with TDoneD _ oD => tod_calls D oD | _ => [] end.
  Definition tcalls (lgs : list (tresultD (T:=R) D)) : list (tcall (T:=R)) := concat (map tcalls_of lgs).
  (* the logs of two corresponding inner solves: the SAME result *)
  Definition tlog_sim (lgD : tresultD (T:=R) D) (lg : tresult (T:=R)) : Prop :=
    match lgD, lg with
    | TDoneD _ oD, TDone o => tod_out D oD = o
    | TNotFiniteLD _ L, TNotFiniteL L' => L = L'
    | _, _ => False
    end.

  Lemma toracle_shift (pre rest : list (tcall (T:=R))) :
    (fun j px Δ => oracle_of (pre ++ rest) (length pre + j)%nat px Δ) = oracle_of rest.
  Proof.
    apply functional_extensionality; intros j. apply functional_extensionality; intros px. apply functional_extensionality; intros Δ.
    unfold oracle_of. rewrite nth_error_app2 by lia. replace (length pre + j - length pre)%nat with j by lia. reflexivity.
  Qed.

  Lemma tc_apply_cadd a b : c_apply (cadd a b) = (c_apply a + c_apply b)%nat.
  Proof. reflexivity. Qed.

  (* one inner solve *)
  Lemma tinner_refines wD i x y Σ tol e r x' lgD wD' pre ext :
    innerD wD i x y Σ tol e = Some (r, x', lgD, wD') -> c_apply (fst wD) = length pre ->
    exists lg, innerO (oracle_of (pre ++ tcalls_of lgD ++ ext)) (fst wD) i x y Σ tol e = Some (r, x', lg, fst wD') /\
               tlog_sim lgD lg /\ c_apply (fst wD') = length (pre ++ tcalls_of lgD).
  Proof.
    intros Hin Hpre. unfold tdinner in Hin. unfold tinner. rewrite Hpre, toracle_shift.
    match type of Hin with context [match ?pr with TDoneD _ _ => _ | TNotFiniteLD _ _ => _ | TOutOfFuelD _ => _ | TThrewD _ _ _ _ => _ end] =>
      destruct pr as [oD|L| |lg' dd cl] eqn:Er end; try discriminate.
    - cbv zeta in Hin. injection Hin as <- <- <- <-. cbn [tcalls_of fst].
      destruct (pantrD_refines_ext _ _ _ _ _ _ _ _ _ _ _ _ _ _ _ _ _ _ _ _ ext Er) as (Eo & Hc).
      rewrite Eo. exists (TDone (tod_out D oD)). split; [reflexivity|]. split; [reflexivity|].
      rewrite tc_apply_cadd, Hpre, app_length, Hc. reflexivity.
    - injection Hin as <- <- <- <-. cbn [tcalls_of fst snd app].
      rewrite (pantrD_notfinite _ _ _ _ _ _ _ _ _ _ _ _ _ _ _ _ _ _ _ L (oracle_of ext) Er).
      exists (TNotFiniteL L). split; [reflexivity|]. split; [reflexivity|].
      change (with_opts (tp_base TP) tol) with (tp_base (tr_with_opts TP tol)).
      rewrite tc_apply_cadd, (init_L_c_apply0 _ _ _ _), app_nil_r, Hpre. lia.
  Qed.

  Lemma tcalls_cons lg lgs : tcalls (lg :: lgs) = tcalls_of lg ++ tcalls lgs.
  Proof. reflexivity. Qed.

  (* the outer loop *)
  Lemma tc_loop_refines : forall fuel i s x wD cD pre post,
    c_loop (counters * D)%type (tresultD (T:=R) D) innerD AP pb fuel i s x wD = Some cD -> c_apply (fst wD) = length pre ->
    exists c, c_loop counters (tresult (T:=R)) (innerO (oracle_of (pre ++ tcalls (c_logs cD) ++ post))) AP pb fuel i s x (fst wD) = Some c /\
      c_script c = c_script cD /\ c_x c = c_x cD /\ c_w c = fst (c_w cD) /\ Forall2 tlog_sim (c_logs cD) (c_logs c).
  Proof.
    induction fuel as [|fuel IH]; intros i s x wD cD pre post; cbn [c_loop]; [discriminate|].
    destruct (innerD wD i x (c_y_in AP pb s) (s_Sigma s) (s_eps s) (s_err s)) as [[[[r x'] lgD] wD']|] eqn:Ein; [|discriminate].
    destruct (f_exhausted (snd (alm_loop AP pb i s [r]))) eqn:Eex.
    - destruct (c_loop _ _ innerD AP pb fuel (S i) (c_next AP pb i s r) x' wD') as [cD'|] eqn:Ec; [|discriminate].
      intros E Hpre. injection E as <-. cbn [c_script c_logs c_x c_w]. rewrite tcalls_cons.
      destruct (tinner_refines _ _ _ _ _ _ _ _ _ _ _ pre (tcalls (c_logs cD') ++ post) Ein Hpre) as (lg & Ei & Hl & Hc).
      destruct (IH _ _ _ _ _ (pre ++ tcalls_of lgD) post Ec Hc) as (c' & Ec' & C1 & C2 & C3 & C4).
      replace (pre ++ (tcalls_of lgD ++ tcalls (c_logs cD')) ++ post) with (pre ++ tcalls_of lgD ++ tcalls (c_logs cD') ++ post)
        by (now rewrite <- !app_assoc).
      rewrite Ei, Eex.
      replace (pre ++ tcalls_of lgD ++ tcalls (c_logs cD') ++ post) with ((pre ++ tcalls_of lgD) ++ tcalls (c_logs cD') ++ post)
        by (now rewrite <- !app_assoc).
      rewrite Ec'. eexists. split; [reflexivity|]. cbn [c_script c_logs c_x c_w].
      split; [now rewrite C1|]. split; [exact C2|]. split; [exact C3|]. constructor; assumption.
    - intros E Hpre. injection E as <-. cbn [c_script c_logs c_x c_w]. rewrite tcalls_cons. cbn [tcalls map concat]. rewrite app_nil_r.
      destruct (tinner_refines _ _ _ _ _ _ _ _ _ _ _ pre post Ein Hpre) as (lg & Ei & Hl & Hc).
      rewrite Ei, Eex. eexists. split; [reflexivity|]. cbn [c_script c_logs c_x c_w].
      split; [reflexivity|]. split; [reflexivity|]. split; [reflexivity|]. constructor; [exact Hl|constructor].
  Qed.

  (* ================================================================ whole composed runs *)
  Theorem alm_pantr_dir_refines (d0 : D) outer_fuel nanv Σ0 y0 x0 coD :
    alm_pantr_dir Pb prov wm_supplied Clb Cub l1 split D ops stop_req time_up outer_oot TP AP bt_fuel inner_fuel d0 outer_fuel nanv Σ0 y0 x0 = Some coD ->
    exists co,
      alm_pantr Pb prov wm_supplied Clb Cub l1 split (oracle_of (tcalls (co_logs coD))) (td_has_initial D ops) stop_req time_up outer_oot TP AP
                bt_fuel inner_fuel outer_fuel nanv Σ0 y0 x0 = Some co /\
      co_trace co = co_trace coD /\ co_final co = co_final coD /\ co_x co = co_x coD /\ co_w co = fst (co_w coD) /\
      Forall2 tlog_sim (co_logs coD) (co_logs co).
  Proof.
    unfold alm_pantr_dir, alm_pantr, c_run, c_script_of.
    destruct (Nat.eqb (Alm.p_max_iter AP) 0).
    { intros E. injection E as <-. cbn [co_logs co_trace co_final co_x co_w c_script c_logs c_x c_w fst].
      eexists. split; [reflexivity|]. cbn [co_logs co_trace co_final co_x co_w c_script c_logs c_x c_w]. repeat split. constructor. }
    destruct (Nat.eqb (pb_m pb) 0).
    { destruct (innerD (cnt0, d0) 0%nat x0 y0 [] (p_tol AP) []) as [[[[r x'] lgD] wD']|] eqn:Ein; [|discriminate].
      intros E. injection E as <-. cbn [co_logs co_trace co_final co_x co_w c_script c_logs c_x c_w].
      destruct (tinner_refines _ _ _ _ _ _ _ _ _ _ _ [] [] Ein eq_refl) as (lg & Ei & Hl & _).
      cbn [tcalls map concat app fst] in *. rewrite Ei.
      eexists. split; [reflexivity|]. cbn [co_logs co_trace co_final co_x co_w c_script c_logs c_x c_w].
      repeat split. constructor; [exact Hl|constructor]. }
    destruct (c_loop _ _ innerD AP pb outer_fuel 0 _ x0 (cnt0, d0)) as [cD|] eqn:Ec; [|discriminate].
    intros E. injection E as <-. cbn [co_logs co_trace co_final co_x co_w].
    destruct (tc_loop_refines _ _ _ _ _ _ [] [] Ec eq_refl) as (c & Ec' & C1 & C2 & C3 & C4).
    cbn [app fst] in Ec'. rewrite app_nil_r in Ec'. rewrite Ec'.
    eexists. split; [reflexivity|]. cbn [co_logs co_trace co_final co_x co_w]. rewrite C1.
    repeat split; assumption.
  Qed.
End Compose.
