(* Properties_C10.v — C10: limited-memory QR and Anderson acceleration match their least-squares definition.
   Only theorem statements closed by `exact`, each followed by Print Assumptions; then non-vacuity examples.
   Model: LMQR.v (storage-faithful: raw Q, ring-indexed raw R, indices q_idx / r_idx_start / r_idx_end).
   Proved over the reals / nat for ALL histories within capacity (new columns outside the span of the window):
   ring-index refinement; Q orthonormal, R upper triangular, Q R = A; solve_col = least-squares minimiser (thresholded
   pivots: zero component, residual orthogonal to the kept Q columns); re-orthogonalisation needs <= 1 extra pass;
   Anderson: G window = last min(k,m) iterates, factorised window = last min(k,m) residual differences, gamma = LS solution,
   x_aa = sum alpha_i g_i with sum alpha_i = 1.   Not covered by theorems: binary64 rounding (correspondence + oracle). *)
From Coq Require Import Reals List Arith Lia Lra.
From Alpaqa Require Import Num NumR Vec LMQR LMQRRing LMQRAlg LMQRLsq LMQRAnd LmqrGenLib LmqrGen LmqrGenInst LmqrGenEq.
Import ListNotations.
Local Open Scope R_scope.

(* ---------------------------------------------------------------- (1) ring indices, every history within capacity *)
Theorem C10_ring_invariant_all_histories : forall m ops s,
  (0 < m)%nat -> ring_run m (mkRing 0 0 0) ops = Some s ->
  (g_rs s < m /\ g_re s < m /\ g_qi s <= m /\ g_re s = (g_rs s + g_qi s) mod m)%nat.
Proof. exact ring_inv_all_histories. Qed.
Print Assumptions C10_ring_invariant_all_histories.

Theorem C10_ring_capacity_one : forall ops s,
  ring_run 1 (mkRing 0 0 0) ops = Some s -> (g_rs s = 0 /\ g_re s = 0 /\ g_qi s <= 1)%nat.
Proof. exact ring_cap1. Qed.
Print Assumptions C10_ring_capacity_one.

Theorem C10_ring_full_buffer_head_equals_tail : forall m ops s,
  (0 < m)%nat -> ring_run m (mkRing 0 0 0) ops = Some s -> g_qi s = m -> g_re s = g_rs s.
Proof. exact ring_full. Qed.
Print Assumptions C10_ring_full_buffer_head_equals_tail.

Theorem C10_ring_partial_buffer_head_differs_from_tail : forall m ops s,
  (0 < m)%nat -> ring_run m (mkRing 0 0 0) ops = Some s -> (0 < g_qi s < m)%nat -> g_re s <> g_rs s.
Proof. exact ring_empty_or_partial. Qed.
Print Assumptions C10_ring_partial_buffer_head_differs_from_tail.

(* ring_iter(): logical column j <-> storage column (r_start + j) mod m, in order *)
Theorem C10_ring_iter_enumerates_window : forall m s,
  (0 < m)%nat -> ring_inv m s ->
  ring_iter (g_qi s) (g_rs s) m = map (fun j => (j, (g_rs s + j) mod m)%nat) (seq 0 (g_qi s)).
Proof. exact ring_iter_enumerates_window. Qed.
Print Assumptions C10_ring_iter_enumerates_window.

Theorem C10_ring_end_iterator_consistent : forall m s,
  (0 < m)%nat -> ring_inv m s -> Nat.iter (g_qi s) (it_succ m) (g_rs s) = g_re s.
Proof. exact ring_end_consistent. Qed.
Print Assumptions C10_ring_end_iterator_consistent.

Theorem C10_window_storage_columns_distinct : forall m rs qi,
  (0 < m)%nat -> (qi <= m)%nat -> NoDup (map snd (window m rs qi)).
Proof. exact window_storage_nodup. Qed.
Print Assumptions C10_window_storage_columns_distinct.

Theorem C10_ring_reverse_iter_is_reverse : forall m s,
  (0 < m)%nat -> ring_inv m s ->
  map fst (ring_rev_iter (g_qi s) (g_re s) m) = rev (ring_iter (g_qi s) (g_rs s) m).
Proof. exact ring_rev_iter_is_reverse. Qed.
Print Assumptions C10_ring_reverse_iter_is_reverse.

(* solve_col: at diagonal element rR the inner loop visits exactly the logical columns rR+1 .. size-1 *)
Theorem C10_solve_inner_loop_enumerates_right_part : forall m s,
  (0 < m)%nat -> ring_inv m s ->
  forall e, In e (ring_rev_iter (g_qi s) (g_re s) m) ->
    let '((rR, cR), (zb, c)) := e in
    (rR < g_qi s)%nat /\ cR = ((g_rs s + rR) mod m)%nat /\ zb = S rR /\
    iter_fwd (g_qi s - zb) zb c m = map (fun j => (j, (g_rs s + j) mod m)%nat) (seq (S rR) (g_qi s - S rR)).
Proof. exact ring_rev_iter_inner. Qed.
Print Assumptions C10_solve_inner_loop_enumerates_right_part.

(* remove_column: `for (cc = r_succ(c); cc != r_idx_end; ...)` visits the storage columns of logical j .. size-1, also when full *)
Theorem C10_remove_inner_loop_enumerates : forall m s j,
  (0 < m)%nat -> ring_inv m s -> (1 <= j <= g_qi s)%nat ->
  until_loop m m ((g_rs s + j) mod m) (g_re s) = map (fun i => ((g_rs s + i) mod m)%nat) (seq j (g_qi s - j)).
Proof. exact until_loop_enumerates. Qed.
Print Assumptions C10_remove_inner_loop_enumerates.

(* refinement: ring-indexed storage read through ring_iter IS the FIFO window, for every history within capacity *)
Theorem C10_ring_storage_refines_fifo_window : forall (A : Type) (d : A) m ops b sb',
  (0 < m)%nat -> length b = m -> buf_run m (mkRing 0 0 0, b) ops = Some sb' ->
  buf_read d m sb' = fold_left queue_step ops [].
Proof. exact ring_refines_queue_from_empty. Qed.
Print Assumptions C10_ring_storage_refines_fifo_window.

(* ---------------------------------------------------------------- (2) algebra over the reals *)
Theorem C10_givens_is_rotation : forall p q : R,
  match make_givens p q with
  | (c, s, r) => c * c + s * s = 1 /\ p = c * r /\ q = - s * r /\ 0 <= r
  end.
Proof. exact make_givens_spec. Qed.
Print Assumptions C10_givens_is_rotation.

(* QRrep st A :  length A = q_idx st  /\  forall j < q_idx, t:  sum_{i <= j} R(i,j) Q(t,i) = A(t,j)
   (R(i,j) = storage column (r_start+j) mod m, row i; only the upper triangle enters = what get_R() exposes) *)
Theorem C10_add_keeps_QR_eq_A : forall n st A v,
  wf n st -> length v = n -> (q_idx st < cap st)%nat -> QRrep st A -> add_norm st v <> 0 ->
  QRrep (add_column st v) (A ++ [v]) /\ wf n (add_column st v).
Proof. exact add_keeps_QR. Qed.
Print Assumptions C10_add_keeps_QR_eq_A.

Theorem C10_remove_keeps_QR_eq_A_and_upper : forall n st A,
  wf n st -> (0 < q_idx st)%nat -> QRrep st A ->
  QRrep (remove_column st) (tl A) /\ wf n (remove_column st).
Proof. exact remove_keeps_QR. Qed.
Print Assumptions C10_remove_keeps_QR_eq_A_and_upper.

Theorem C10_scale_R_spec : forall n st A s,
  wf n st -> QRrep st A -> QRrep (scale_R st s) (map (vscale s) A) /\ wf n (scale_R st s).
Proof. exact scale_R_spec. Qed.
Print Assumptions C10_scale_R_spec.

(* the factorisation represents the window (QR = A with upper-triangular R) and the ring invariant holds,
   for every history of add / remove / reset / scale within capacity with new columns outside the span of the window
   (orthonormality: C10_QR_orthonormal_all_histories below) *)
Theorem C10_QR_eq_A_all_histories : forall n ops st A,
  wf n st -> QRrep st A -> hist_ok n st ops ->
  QRrep (fold_left qstep ops st) (fold_left astep ops A) /\ wf n (fold_left qstep ops st).
Proof. exact QR_eq_A_all_histories. Qed.
Print Assumptions C10_QR_eq_A_all_histories.

Theorem C10_QR_eq_A_from_empty : forall n m ops,
  (0 < m)%nat -> hist_ok n (qr_new n m) ops ->
  QRrep (fold_left qstep ops (qr_new n m)) (fold_left astep ops []).
Proof. exact QR_eq_A_from_new. Qed.
Print Assumptions C10_QR_eq_A_from_empty.

Theorem C10_reachable_states_satisfy_ring_invariant : forall n st, wf n st -> ring_inv (cap st) (ring_of st).
Proof. exact wf_ring_inv. Qed.
Print Assumptions C10_reachable_states_satisfy_ring_invariant.

(* ---------------------------------------------------------------- (3) Anderson *)
Theorem C10_anderson_coefficients_sum_to_one : forall (γ : list R) k, (1 <= k)%nat -> lsum (aa_alphas γ k) = 1.
Proof. exact aa_alphas_sum_1. Qed.
Print Assumptions C10_anderson_coefficients_sum_to_one.

(* x_aa = sum_i alpha_i g_i over the G columns read through the ring (oldest first) followed by g_k; k+1 coefficients that sum
   to 1; the window has min(old size, m-1) + 1 differences.  (One call, ring hypotheses only; the full statement is
   C10_anderson_compute_is_documented_combination below.) *)
Theorem C10_anderson_output_is_affine_combination : forall n qr G rk rlast gk mdf γ t,
  Forall (fun c => length c = n) G -> length G = cap qr -> length gk = n ->
  ring_inv (cap qr) (ring_of qr) -> (0 < cap qr)%nat ->
  match minimize_update_anderson qr G rk rlast gk mdf γ with
  | (qr2, G', γ', x) =>
      let α := aa_alphas γ' (q_idx qr2) in
      lsum α = 1 /\ length α = S (q_idx qr2) /\ length (aa_cols qr2 G gk) = S (q_idx qr2) /\
      q_idx qr2 = S (if Nat.eqb (q_idx qr) (cap qr) then q_idx qr - 1 else q_idx qr) /\
      getv x t = dotl α (map (fun c => getv c t) (aa_cols qr2 G gk))
  end.
Proof. exact anderson_is_affine_combination. Qed.
Print Assumptions C10_anderson_output_is_affine_combination.

(* ---------------------------------------------------------------- (4) orthonormal Q, every history *)
(* Orth n st : forall i j < q_idx, sum_{t<n} Q(t,i) Q(t,j) = (i = j ? 1 : 0) *)
Theorem C10_add_keeps_Q_orthonormal : forall n st v,
  wf n st -> length v = n -> (q_idx st < cap st)%nat -> Orth n st -> add_norm st v <> 0 -> Orth n (add_column st v).
Proof. exact add_keeps_orth. Qed.
Print Assumptions C10_add_keeps_Q_orthonormal.

Theorem C10_remove_keeps_Q_orthonormal : forall n st, wf n st -> Orth n st -> Orth n (remove_column st).
Proof. exact remove_keeps_orth. Qed.
Print Assumptions C10_remove_keeps_Q_orthonormal.

Theorem C10_QR_orthonormal_all_histories : forall n ops st A,
  wf n st -> QRrep st A -> Orth n st -> hist_ok n st ops ->
  QRrep (fold_left qstep ops st) (fold_left astep ops A) /\ wf n (fold_left qstep ops st) /\
  Orth n (fold_left qstep ops st).
Proof. exact QR_orth_all_histories. Qed.
Print Assumptions C10_QR_orthonormal_all_histories.

Theorem C10_QR_orthonormal_from_reset : forall n m ops,
  (0 < m)%nat -> hist_ok n (qr_new n m) ops ->
  let st := fold_left qstep ops (qr_new n m) in
  QRrep st (fold_left astep ops []) /\ wf n st /\ Orth n st.
Proof. exact QR_orth_from_new. Qed.
Print Assumptions C10_QR_orthonormal_from_reset.

(* re-orthogonalisation: once q is orthogonal to the live columns the while loop runs at most once more, for any fuel >= 2
   (so the fuel of the model is never exhausted in exact arithmetic), and add_column bumps reorth_count by at most 1 *)
Theorem C10_reorthogonalisation_at_most_one_extra_pass : forall n Qc q0 r0 nv cnt f,
  Forall (fun c => length c = n) Qc -> length q0 = n ->
  (forall j, (j < length Qc)%nat -> dotn n (getc Qc j) q0 = 0) ->
  reorth_loop (S (S f)) Qc q0 r0 (vnorm2 q0) nv cnt = reorth_loop 2 Qc q0 r0 (vnorm2 q0) nv cnt /\
  match reorth_loop (S (S f)) Qc q0 r0 (vnorm2 q0) nv cnt with
  | (q, _, nq, cnt') => q = q0 /\ nq = vnorm2 q0 /\ (cnt' <= S cnt)%nat
  end.
Proof. exact reorth_at_most_one_extra_pass. Qed.
Print Assumptions C10_reorthogonalisation_at_most_one_extra_pass.

Theorem C10_add_column_reorth_count : forall n st v,
  wf n st -> length v = n -> (q_idx st < cap st)%nat -> Orth n st ->
  (reorth (add_column st v) <= S (reorth st))%nat.
Proof. exact add_column_reorth_count. Qed.
Print Assumptions C10_add_column_reorth_count.

(* ---------------------------------------------------------------- (5) solve_col *)
(* thr st tol i : |R(i,i)| < tol ;  row_eq : row i of R x = Q^T b (R zero below the diagonal) ;
   resid A k b c t = sum_{j<k} c_j A(t,j) - b(t) *)
Theorem C10_solve_col_back_substitution : forall n st b tol x,
  wf n st -> length b = n -> (q_idx st <= length x)%nat ->
  (forall i, (i < q_idx st)%nat -> thr st tol i = false -> Rl st i i <> 0) ->
  let x' := solve_col st b tol x in
  length x' = length x /\ (forall i, (q_idx st <= i)%nat -> getv x' i = getv x i) /\
  forall i, (i < q_idx st)%nat ->
    (thr st tol i = true -> getv x' i = 0) /\ (thr st tol i = false -> row_eq n st b x' i).
Proof. exact solve_col_rows. Qed.
Print Assumptions C10_solve_col_back_substitution.

(* what is achieved when pivots are thresholded: x'_T = 0 and Q_i^T (A x' - b) = 0 for every kept pivot i,
   i.e. x' annihilates the projection of the residual on span{Q_i : i kept} (the quantity minimised is that projection) *)
Theorem C10_solve_col_thresholded : forall n st A b tol x,
  wf n st -> QRrep st A -> Orth n st -> length b = n -> (q_idx st <= length x)%nat ->
  (forall i, (i < q_idx st)%nat -> thr st tol i = false -> Rl st i i <> 0) ->
  let x' := solve_col st b tol x in
  (forall i, (q_idx st <= i)%nat -> getv x' i = getv x i) /\
  forall i, (i < q_idx st)%nat ->
    (thr st tol i = true -> getv x' i = 0) /\
    (thr st tol i = false -> dotf n (getv (getc (Qs st) i)) (resid A (q_idx st) b (getv x')) = 0).
Proof. exact solve_col_thresholded. Qed.
Print Assumptions C10_solve_col_thresholded.

Theorem C10_positive_threshold_pivot_nonzero : forall st tol i, 0 < tol -> thr st tol i = false -> Rl st i i <> 0.
Proof. exact positive_threshold_pivot_nonzero. Qed.
Print Assumptions C10_positive_threshold_pivot_nonzero.

(* no pivot below the threshold: R x = Q^T b, normal equations A^T (A x - b) = 0, and ||A x - b|| <= ||A z - b|| for all z *)
Theorem C10_solve_col_is_least_squares_minimiser : forall n st A b tol x,
  wf n st -> QRrep st A -> Orth n st -> length b = n -> (q_idx st <= length x)%nat ->
  (forall i, (i < q_idx st)%nat -> thr st tol i = false /\ Rl st i i <> 0) ->
  let x' := solve_col st b tol x in
  (forall i, (i < q_idx st)%nat -> row_eq n st b x' i) /\
  (forall j, (j < q_idx st)%nat -> dotf n (Acol A j) (resid A (q_idx st) b (getv x')) = 0) /\
  (forall cz : nat -> R,
     dotf n (resid A (q_idx st) b (getv x')) (resid A (q_idx st) b (getv x'))
     <= dotf n (resid A (q_idx st) b cz) (resid A (q_idx st) b cz)).
Proof. exact solve_col_least_squares. Qed.
Print Assumptions C10_solve_col_is_least_squares_minimiser.

(* ---------------------------------------------------------------- (6) Anderson, every history *)
(* abstract state (h, A, rl): iterates g since initialize/reset (newest last); FIFO of at most m residual differences; last residual.
   FInv n a (h, A, rl): G ring holds h's tail (AInv), the factorisation represents A with orthonormal Q, r_last = rl. *)
Theorem C10_anderson_all_histories : forall n ops a s, FInv n a s -> aa_hist_ok n a ops ->
  exists a', aa_run a ops = Some a' /\ FInv n a' (fold_left (abs_step (cap (a_qr a))) ops s) /\ cap (a_qr a') = cap (a_qr a).
Proof. exact aa_all_histories. Qed.
Print Assumptions C10_anderson_all_histories.

Theorem C10_anderson_initial_state : forall n mem mdf, (0 < Nat.min n mem)%nat -> FInv n (aa_new n mem mdf) ([], [], []).
Proof. exact FInv_new. Qed.
Print Assumptions C10_anderson_initial_state.

(* G window refinement alone (no algebraic hypotheses): compute() combines exactly the last min(k, m) iterates and g_k *)
Theorem C10_anderson_G_window : forall a h gk rk a' x,
  AInv a h -> a_init a = true -> aa_compute a gk rk = Some (a', x) ->
  AInv a' (h ++ [gk]) /\ a_init a' = true /\ cap (a_qr a') = cap (a_qr a) /\
  q_idx (a_qr a') = Nat.min (length h) (cap (a_qr a)) /\
  aa_cols (a_qr a') (a_G a) gk =
    map (fun j => nth (length h - q_idx (a_qr a') + j) h []) (seq 0 (q_idx (a_qr a'))) ++ [gk].
Proof. exact AInv_compute. Qed.
Print Assumptions C10_anderson_G_window.

(* one compute() at any reachable state: x_aa = sum alpha_i w_i over W = last min(k,m) iterates ++ [g_k], sum alpha = 1,
   alpha from gamma, gamma = solve_col on the factorisation of A' = last min(k,m) residual differences with rhs r_k:
   thresholded pivots -> 0 / residual orthogonality, and without thresholded pivots gamma minimises ||A' gamma - r_k|| *)
Theorem C10_anderson_compute_is_documented_combination : forall n a h A rl g r a' x,
  FInv n a (h, A, rl) -> op_ok n a (PCompute g r) -> aa_compute a g r = Some (a', x) ->
  let m := cap (a_qr a) in
  let qr2 := a_qr a' in
  let k := q_idx qr2 in
  let A' := evict m A ++ [vsub r rl] in
  let W := map (fun j => nth (length h - k + j) h []) (seq 0 k) ++ [g] in
  let γ := a_gamma a' in
  let α := aa_alphas γ k in
  let tol := aa_tol qr2 (a_mdf a) in
  k = Nat.min (length h) m /\ length A' = k /\ QRrep qr2 A' /\ Orth n qr2 /\ wf n qr2 /\
  lsum α = 1 /\ length α = S k /\ length W = S k /\
  (forall t, getv x t = dotl α (map (fun c => getv c t) W)) /\
  ((forall i, (i < k)%nat -> thr qr2 tol i = false -> Rl qr2 i i <> 0) ->
   forall i, (i < k)%nat ->
     (thr qr2 tol i = true -> getv γ i = 0) /\
     (thr qr2 tol i = false -> dotf n (getv (getc (Qs qr2) i)) (resid A' k r (getv γ)) = 0)) /\
  ((forall i, (i < k)%nat -> thr qr2 tol i = false /\ Rl qr2 i i <> 0) ->
   (forall j, (j < k)%nat -> dotf n (Acol A' j) (resid A' k r (getv γ)) = 0) /\
   forall cz : nat -> R, dotf n (resid A' k r (getv γ)) (resid A' k r (getv γ)) <= dotf n (resid A' k r cz) (resid A' k r cz)).
Proof. exact anderson_compute_spec. Qed.
Print Assumptions C10_anderson_compute_is_documented_combination.

(* ---------------------------------------------------------------- (7) the GENERATED code (translator G12) *)
(* coq/gen/LmqrGen.v is regenerated from limited-memory-qr.hpp / ringbuffer.hpp / anderson-helpers.hpp / anderson.hpp on every run
   (translate/gen_lmqr.py); LmqrGenEq.v proves every generated piece equal to the corresponding piece of LMQR.v (obligations
   g_<definition>_eq), so the theorems above hold for the generated functions run on the raw storage (LmqrGenInst.v):
   fuelS = reorth_fuel = 64 re-orthogonalisation passes, fuelN = capacity for the index / iterator loops. *)
Theorem C10_generated_qr_operations_are_the_model : forall n ops (st : qrst R) A x,
  wf n st -> QRrep st A -> hist_ok n st ops ->
  fold_left gq_step (map gqop_of ops) (st, x) = (fold_left qstep ops st, x).
Proof. exact generated_qr_run_is_model_run. Qed.
Print Assumptions C10_generated_qr_operations_are_the_model.

Theorem C10_generated_solve_col_is_the_model : forall fS (st : qrst R) b x tol,
  (q_idx st <= cap st)%nat -> (q_idx st <= length x)%nat ->
  g_solve_col lmqr_ops fS (cap st) st b x tol = solve_col st b tol x.
Proof. exact (@g_solve_col_eq R _). Qed.
Print Assumptions C10_generated_solve_col_is_the_model.

Theorem C10_generated_anderson_operations_are_the_model : forall n mem ops (a : aast R) s,
  FInv n a s -> aa_hist_ok n a ops -> ga_run mem a ops = aa_run a ops.
Proof. exact generated_anderson_run_is_model_run. Qed.
Print Assumptions C10_generated_anderson_operations_are_the_model.

(* Q R = A is preserved by the generated add_column / remove_column / scale_R *)
Theorem C10_gen_add_keeps_QR_eq_A : forall n (fN : nat) (st : qrst R) A v,
  wf n st -> length v = n -> (q_idx st < cap st)%nat -> QRrep st A -> add_norm st v <> 0 ->
  QRrep (g_add_column lmqr_ops reorth_fuel fN st v) (A ++ [v]) /\ wf n (g_add_column lmqr_ops reorth_fuel fN st v).
Proof. exact gen_add_keeps_QR. Qed.
Print Assumptions C10_gen_add_keeps_QR_eq_A.

Theorem C10_gen_remove_keeps_QR_eq_A_and_upper : forall n (fS : nat) (st : qrst R) A,
  wf n st -> (0 < q_idx st)%nat -> QRrep st A ->
  QRrep (g_remove_column lmqr_ops fS (cap st) st) (tl A) /\ wf n (g_remove_column lmqr_ops fS (cap st) st).
Proof. exact gen_remove_keeps_QR. Qed.
Print Assumptions C10_gen_remove_keeps_QR_eq_A_and_upper.

Theorem C10_gen_scale_R_spec : forall n (fS : nat) (st : qrst R) A s,
  wf n st -> QRrep st A ->
  QRrep (g_scale_R lmqr_ops fS (cap st) st s) (map (vscale s) A) /\ wf n (g_scale_R lmqr_ops fS (cap st) st s).
Proof. exact gen_scale_R_spec. Qed.
Print Assumptions C10_gen_scale_R_spec.

(* every history of the generated operations from LimitedMemoryQR(n, m): Q R = A, storage well formed, Q orthonormal *)
Theorem C10_gen_QR_orthonormal_from_new : forall (n m : nat) ops x,
  (0 < m)%nat -> hist_ok n (qr_new n m) ops ->
  let st := fst (fold_left gq_step (map gqop_of ops) (gqr_new n m, x)) in
  QRrep st (fold_left astep ops []) /\ wf n st /\ Orth n st.
Proof. exact gen_QR_orth_from_new. Qed.
Print Assumptions C10_gen_QR_orthonormal_from_new.

(* the generated solve_col = thresholded least squares *)
Theorem C10_gen_solve_col_thresholded : forall n (fS : nat) (st : qrst R) A b tol x,
  wf n st -> QRrep st A -> Orth n st -> length b = n -> (q_idx st <= length x)%nat ->
  (forall i, (i < q_idx st)%nat -> thr st tol i = false -> Rl st i i <> 0) ->
  let x' := g_solve_col lmqr_ops fS (cap st) st b x tol in
  (forall i, (q_idx st <= i)%nat -> getv x' i = getv x i) /\
  forall i, (i < q_idx st)%nat ->
    (thr st tol i = true -> getv x' i = 0) /\
    (thr st tol i = false -> dotf n (getv (getc (Qs st) i)) (resid A (q_idx st) b (getv x')) = 0).
Proof. exact gen_solve_col_thresholded. Qed.
Print Assumptions C10_gen_solve_col_thresholded.

Theorem C10_gen_solve_col_is_least_squares_minimiser : forall n (fS : nat) (st : qrst R) A b tol x,
  wf n st -> QRrep st A -> Orth n st -> length b = n -> (q_idx st <= length x)%nat ->
  (forall i, (i < q_idx st)%nat -> thr st tol i = false /\ Rl st i i <> 0) ->
  let x' := g_solve_col lmqr_ops fS (cap st) st b x tol in
  (forall i, (i < q_idx st)%nat -> row_eq n st b x' i) /\
  (forall j, (j < q_idx st)%nat -> dotf n (Acol A j) (resid A (q_idx st) b (getv x')) = 0) /\
  (forall cz : nat -> R,
     dotf n (resid A (q_idx st) b (getv x')) (resid A (q_idx st) b (getv x'))
     <= dotf n (resid A (q_idx st) b cz) (resid A (q_idx st) b cz)).
Proof. exact gen_solve_col_least_squares. Qed.
Print Assumptions C10_gen_solve_col_is_least_squares_minimiser.

(* the generated compute() at a reachable state returns what the model's compute() returns, hence
   C10_anderson_compute_is_documented_combination applies to it: x_aa = sum alpha_i g_i over the last min(k, m) iterates and g_k,
   sum alpha_i = 1, gamma = the thresholded least-squares solution *)
Theorem C10_gen_anderson_compute_is_documented_combination : forall n (mem : nat) (a : aast R) h A rl g r a' x,
  FInv n a (h, A, rl) -> op_ok n a (PCompute g r) -> ga_step mem a (GACompute g r) = Some (a', x) ->
  aa_compute a g r = Some (a', x) /\
  let k := q_idx (a_qr a') in
  let W := map (fun j => nth (length h - k + j) h []) (seq 0 k) ++ [g] in
  let α := aa_alphas (a_gamma a') k in
  lsum α = 1 /\ length α = S k /\ length W = S k /\ (forall t, getv x t = dotl α (map (fun c => getv c t) W)).
Proof. exact gen_anderson_compute_documented. Qed.
Print Assumptions C10_gen_anderson_compute_is_documented_combination.

Theorem C10_gen_anderson_all_histories : forall n (mem : nat) ops (a : aast R) s, FInv n a s -> aa_hist_ok n a ops ->
  exists a', ga_run mem a ops = Some a' /\ FInv n a' (fold_left (abs_step (cap (a_qr a))) ops s) /\ cap (a_qr a') = cap (a_qr a).
Proof. exact gen_anderson_all_histories. Qed.
Print Assumptions C10_gen_anderson_all_histories.

(* ---------------------------------------------------------------- non-vacuity *)
(* a history within capacity that fills a capacity-3 ring, wraps around and removes right after the wrap *)
Example C10_nonvacuous_ring_history :
  ring_run 3 (mkRing 0 0 0) [RAdd; RAdd; RAdd; RRem; RAdd; RRem; RRem; RAdd] = Some (mkRing 2 0 2)
  /\ ring_iter 3 1 3 = [(0, 1); (1, 2); (2, 0)]%nat
  /\ until_loop 3 3 2 1 = [2; 0]%nat.
Proof. repeat split; reflexivity. Qed.

Example C10_nonvacuous_fifo :
  buf_run 2 (mkRing 0 0 0, [0; 0]%nat) [BAdd 7; BAdd 8; BRem; BAdd 9]%nat = Some (mkRing 2 1 1, [9; 8]%nat)
  /\ buf_read 0%nat 2 (mkRing 2 1 1, [9; 8]%nat) = [8; 9]%nat.
Proof. split; reflexivity. Qed.

(* the hypotheses of the history theorem are satisfiable: a capacity-1 factorisation that is filled, emptied, refilled
   (every add wraps), rescaled and reset *)
Lemma add_norm_first (st : qrst R) v : q_idx st = 0%nat -> vnorm2 v = 1 -> add_norm st v = 1.
Proof.
  intros Hq Hv. unfold add_norm. rewrite Hq. cbn [firstn mgs]. unfold reorth_fuel. cbn [reorth_loop]. rewrite Hv.
  unfold eta. numR. destruct (Raux.Rlt_bool_spec 1 (7 / 10 * 1)); [lra | reflexivity].
Qed.
Lemma vnorm2_e1 : vnorm2 [1; 0] = 1.
Proof. unfold vnorm2, vsqnorm, vsum, redux. simpl. numR. replace (1 * 1 + 0 * 0) with 1 by lra. apply sqrt_1. Qed.
Lemma vnorm2_e2 : vnorm2 [0; 1] = 1.
Proof. unfold vnorm2, vsqnorm, vsum, redux. simpl. numR. replace (0 * 0 + 1 * 1) with 1 by lra. apply sqrt_1. Qed.

Example C10_nonvacuous_history :
  hist_ok 2 (qr_new 2 1) [QAdd [1; 0]; QRem; QAdd [0; 1]; QScale 2; QReset].
Proof.
  cbn [hist_ok qok qstep]. repeat split; auto.
  - rewrite add_norm_first; [lra | reflexivity | exact vnorm2_e1].
  - rewrite q_idx_add. simpl. lia.
  - assert (E : q_idx (remove_column (add_column (qr_new 2 1) [1; 0])) = 0%nat).
    { change (g_qi (ring_of (remove_column (add_column (qr_new 2 1) [1; 0]))) = 0%nat).
      rewrite (proj1 (ring_of_remove _)). rewrite ring_of_add. reflexivity. }
    rewrite E. rewrite (proj2 (ring_of_remove _)), cap_add. simpl. lia.
  - assert (E : q_idx (remove_column (add_column (qr_new 2 1) [1; 0])) = 0%nat).
    { change (g_qi (ring_of (remove_column (add_column (qr_new 2 1) [1; 0]))) = 0%nat).
      rewrite (proj1 (ring_of_remove _)). rewrite ring_of_add. reflexivity. }
    rewrite add_norm_first; [lra | exact E | exact vnorm2_e2].
Qed.

Example C10_nonvacuous_givens : make_givens 3 0 = (1, 0, 3) /\ make_givens 0 (-2) = (0, 1, 2).
Proof.
  unfold make_givens. numR. split.
  - rewrite Raux.Req_bool_true by reflexivity. rewrite Raux.Rlt_bool_false by lra. rewrite Rabs_right by lra. reflexivity.
  - rewrite Raux.Req_bool_false by lra. rewrite Raux.Req_bool_true by reflexivity. rewrite Raux.Rlt_bool_true by lra.
    rewrite Rabs_left by lra. f_equal. lra.
Qed.

Example C10_nonvacuous_anderson : lsum (aa_alphas [2; 5; -1] 3) = 1 /\ aa_alphas [2; 5; -1] 3 = [2; 5 - 2; -1 - 5; 1 - -1].
Proof. split; [apply aa_alphas_sum_1; lia | reflexivity]. Qed.

(* the history hypotheses of the orthonormality / least-squares theorems hold on the history above *)
Example C10_nonvacuous_orthonormal :
  let st := fold_left qstep [QAdd [1; 0]; QRem; QAdd [0; 1]; QScale 2] (qr_new 2 1) in
  QRrep st [[2 * 0; 2 * 1]] /\ Orth 2 st /\ q_idx st = 1%nat.
Proof.
  assert (Hok : hist_ok 2 (qr_new 2 1) [QAdd [1; 0]; QRem; QAdd [0; 1]; QScale 2]).
  { pose proof C10_nonvacuous_history as H. cbn [hist_ok] in *. tauto. }
  destruct (QR_orth_from_new 2 1 _ ltac:(lia) Hok) as (H1 & H2 & H3). cbv zeta.
  split; [|split; [exact H3|]].
  - cbn [fold_left astep app tl map vscale] in H1. numR. exact H1.
  - destruct H1 as (HL & _). cbn [fold_left astep app tl map length] in HL. symmetry. exact HL.
Qed.

(* an Anderson history satisfying aa_hist_ok: initialize, then a compute whose residual difference is e1 *)
Lemma vnorm2_diff_e1 : vnorm2 (vsub [1; 0] [0; 0]) = 1.
Proof. unfold vnorm2, vsqnorm, vsum, redux, vsub. simpl. numR. replace ((1 - 0) * (1 - 0) + (0 - 0) * (0 - 0)) with 1 by lra. apply sqrt_1. Qed.
Example C10_nonvacuous_anderson_history : forall mdf,
  aa_hist_ok 2 (aa_new 2 1 mdf) [PInit [1; 1] [0; 0]; PCompute [2; 0] [1; 0]].
Proof.
  intros mdf. cbn [aa_hist_ok aa_opstep]. split; [split; reflexivity|].
  set (a1 := aa_initialize (aa_new 2 1 mdf) [1; 1] [0; 0]).
  assert (Hi : a_init a1 = true) by reflexivity.
  split.
  - cbn [op_ok]. split; auto. split; [reflexivity|]. split; [reflexivity|].
    rewrite add_norm_first; [lra | reflexivity | exact vnorm2_diff_e1].
  - destruct (aa_compute_shape a1 [2; 0] [1; 0] Hi) as (x & E). cbv zeta in E. rewrite E. exact I.
Qed.

(* the hypotheses of the generated-code theorems are satisfiable: the history of C10_nonvacuous_history run by the GENERATED operations *)
Example C10_nonvacuous_generated :
  let st := fst (fold_left gq_step (map gqop_of [QAdd [1; 0]; QRem; QAdd [0; 1]; QScale 2]) (gqr_new 2 1, [0])) in
  QRrep st [[2 * 0; 2 * 1]] /\ Orth 2 st /\ wf 2 st.
Proof.
  assert (Hok : hist_ok 2 (qr_new 2 1) [QAdd [1; 0]; QRem; QAdd [0; 1]; QScale 2]).
  { pose proof C10_nonvacuous_history as H. cbn [hist_ok] in *. tauto. }
  destruct (gen_QR_orth_from_new 2 1 _ [0] ltac:(lia) Hok) as (H1 & H2 & H3). cbv zeta.
  split; [|split; assumption]. cbn [fold_left astep app tl map vscale] in H1. numR. exact H1.
Qed.
