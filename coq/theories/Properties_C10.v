(* Properties_C10.v — C10: limited-memory QR and Anderson acceleration match their least-squares definition.
   Only theorem statements closed by `exact`, each followed by Print Assumptions; then non-vacuity examples.
   Model: LMQR.v (storage-faithful: raw Q, ring-indexed raw R, indices q_idx / r_idx_start / r_idx_end).
   Proved for ALL histories within capacity: ring-index refinement (nat), Q*triu(R) = A (reals), Anderson affine combination.
   NOT proved (checked numerically by the oracle on the implementation only): orthonormality of Q, least-squares optimality
   of solve_col, Anderson's G window = last min(k,m,n) iterates — hence the `_partial` suffix on the history theorem. *)
From Coq Require Import Reals List Arith Lia Lra.
From Alpaqa Require Import Num NumR Vec LMQR LMQRRing LMQRAlg.
Import ListNotations.
Local Open Scope R_scope.

(* ---------------------------------------------------------------- (1) ring indices, every history within capacity *)
Theorem C10_ring_invariant_all_histories : forall m ops s,
  (0 < m)%nat -> ring_run m (mkRing 0 0 0) ops = Some s ->
  (g_rs s < m /\ g_re s < m /\ g_qi s <= m /\ g_re s = (g_rs s + g_qi s) mod m)%nat.
Proof. exact ring_inv_all_histories. Qed.
Print Assumptions C10_ring_invariant_all_histories.

Theorem C10_ring_capacity_one : forall ops s,
  ring_run 1 (mkRing 0 0 0) ops = Some s -> (g_rs s = 0 /\ g_re s = 0 /\ g_qi s <= 1)%nat.
Proof. exact ring_cap1. Qed.
Print Assumptions C10_ring_capacity_one.

Theorem C10_ring_full_buffer_head_equals_tail : forall m ops s,
  (0 < m)%nat -> ring_run m (mkRing 0 0 0) ops = Some s -> g_qi s = m -> g_re s = g_rs s.
Proof. exact ring_full. Qed.
Print Assumptions C10_ring_full_buffer_head_equals_tail.

Theorem C10_ring_partial_buffer_head_differs_from_tail : forall m ops s,
  (0 < m)%nat -> ring_run m (mkRing 0 0 0) ops = Some s -> (0 < g_qi s < m)%nat -> g_re s <> g_rs s.
Proof. exact ring_empty_or_partial. Qed.
Print Assumptions C10_ring_partial_buffer_head_differs_from_tail.

(* ring_iter(): logical column j <-> storage column (r_start + j) mod m, in order *)
Theorem C10_ring_iter_enumerates_window : forall m s,
  (0 < m)%nat -> ring_inv m s ->
  ring_iter (g_qi s) (g_rs s) m = map (fun j => (j, (g_rs s + j) mod m)%nat) (seq 0 (g_qi s)).
Proof. exact ring_iter_enumerates_window. Qed.
Print Assumptions C10_ring_iter_enumerates_window.

Theorem C10_ring_end_iterator_consistent : forall m s,
  (0 < m)%nat -> ring_inv m s -> Nat.iter (g_qi s) (it_succ m) (g_rs s) = g_re s.
Proof. exact ring_end_consistent. Qed.
Print Assumptions C10_ring_end_iterator_consistent.

Theorem C10_window_storage_columns_distinct : forall m rs qi,
  (0 < m)%nat -> (qi <= m)%nat -> NoDup (map snd (window m rs qi)).
Proof. exact window_storage_nodup. Qed.
Print Assumptions C10_window_storage_columns_distinct.

Theorem C10_ring_reverse_iter_is_reverse : forall m s,
  (0 < m)%nat -> ring_inv m s ->
  map fst (ring_rev_iter (g_qi s) (g_re s) m) = rev (ring_iter (g_qi s) (g_rs s) m).
Proof. exact ring_rev_iter_is_reverse. Qed.
Print Assumptions C10_ring_reverse_iter_is_reverse.

(* solve_col: at diagonal element rR the inner loop visits exactly the logical columns rR+1 .. size-1 *)
Theorem C10_solve_inner_loop_enumerates_right_part : forall m s,
  (0 < m)%nat -> ring_inv m s ->
  forall e, In e (ring_rev_iter (g_qi s) (g_re s) m) ->
    let '((rR, cR), (zb, c)) := e in
    (rR < g_qi s)%nat /\ cR = ((g_rs s + rR) mod m)%nat /\ zb = S rR /\
    iter_fwd (g_qi s - zb) zb c m = map (fun j => (j, (g_rs s + j) mod m)%nat) (seq (S rR) (g_qi s - S rR)).
Proof. exact ring_rev_iter_inner. Qed.
Print Assumptions C10_solve_inner_loop_enumerates_right_part.

(* remove_column: `for (cc = r_succ(c); cc != r_idx_end; ...)` visits the storage columns of logical j .. size-1, also when full *)
Theorem C10_remove_inner_loop_enumerates : forall m s j,
  (0 < m)%nat -> ring_inv m s -> (1 <= j <= g_qi s)%nat ->
  until_loop m m ((g_rs s + j) mod m) (g_re s) = map (fun i => ((g_rs s + i) mod m)%nat) (seq j (g_qi s - j)).
Proof. exact until_loop_enumerates. Qed.
Print Assumptions C10_remove_inner_loop_enumerates.

(* refinement: ring-indexed storage read through ring_iter IS the FIFO window, for every history within capacity *)
Theorem C10_ring_storage_refines_fifo_window : forall (A : Type) (d : A) m ops b sb',
  (0 < m)%nat -> length b = m -> buf_run m (mkRing 0 0 0, b) ops = Some sb' ->
  buf_read d m sb' = fold_left queue_step ops [].
Proof. exact ring_refines_queue_from_empty. Qed.
Print Assumptions C10_ring_storage_refines_fifo_window.

(* ---------------------------------------------------------------- (2) algebra over the reals *)
Theorem C10_givens_is_rotation : forall p q : R,
  match make_givens p q with
  | (c, s, r) => c * c + s * s = 1 /\ p = c * r /\ q = - s * r /\ 0 <= r
  end.
Proof. exact make_givens_spec. Qed.
Print Assumptions C10_givens_is_rotation.

(* QRrep st A :  length A = q_idx st  /\  forall j < q_idx, t:  sum_{i <= j} R(i,j) Q(t,i) = A(t,j)
   (R(i,j) = storage column (r_start+j) mod m, row i; only the upper triangle enters = what get_R() exposes) *)
Theorem C10_add_keeps_QR_eq_A : forall n st A v,
  wf n st -> length v = n -> (q_idx st < cap st)%nat -> QRrep st A -> add_norm st v <> 0 ->
  QRrep (add_column st v) (A ++ [v]) /\ wf n (add_column st v).
Proof. exact add_keeps_QR. Qed.
Print Assumptions C10_add_keeps_QR_eq_A.

Theorem C10_remove_keeps_QR_eq_A_and_upper : forall n st A,
  wf n st -> (0 < q_idx st)%nat -> QRrep st A ->
  QRrep (remove_column st) (tl A) /\ wf n (remove_column st).
Proof. exact remove_keeps_QR. Qed.
Print Assumptions C10_remove_keeps_QR_eq_A_and_upper.

Theorem C10_scale_R_spec : forall n st A s,
  wf n st -> QRrep st A -> QRrep (scale_R st s) (map (vscale s) A) /\ wf n (scale_R st s).
Proof. exact scale_R_spec. Qed.
Print Assumptions C10_scale_R_spec.

(* full statement of the property also has: Q orthonormal, solve_col = least-squares minimiser (thresholded pivots -> 0).
   Proved part: the factorisation represents the window (QR = A with upper-triangular R) and the ring invariant holds,
   for every history of add / remove / reset / scale within capacity with new columns outside the span of the window. *)
Theorem C10_QR_eq_A_all_histories_partial : forall n ops st A,
  wf n st -> QRrep st A -> hist_ok n st ops ->
  QRrep (fold_left qstep ops st) (fold_left astep ops A) /\ wf n (fold_left qstep ops st).
Proof. exact QR_eq_A_all_histories. Qed.
Print Assumptions C10_QR_eq_A_all_histories_partial.

Theorem C10_QR_eq_A_from_empty_partial : forall n m ops,
  (0 < m)%nat -> hist_ok n (qr_new n m) ops ->
  QRrep (fold_left qstep ops (qr_new n m)) (fold_left astep ops []).
Proof. exact QR_eq_A_from_new. Qed.
Print Assumptions C10_QR_eq_A_from_empty_partial.

Theorem C10_reachable_states_satisfy_ring_invariant : forall n st, wf n st -> ring_inv (cap st) (ring_of st).
Proof. exact wf_ring_inv. Qed.
Print Assumptions C10_reachable_states_satisfy_ring_invariant.

(* ---------------------------------------------------------------- (3) Anderson *)
Theorem C10_anderson_coefficients_sum_to_one : forall (γ : list R) k, (1 <= k)%nat -> lsum (aa_alphas γ k) = 1.
Proof. exact aa_alphas_sum_1. Qed.
Print Assumptions C10_anderson_coefficients_sum_to_one.

(* x_aa = sum_i alpha_i g_i over the G columns read through the ring (oldest first) followed by g_k; k+1 coefficients that sum
   to 1; the window has min(old size, m-1) + 1 differences.  (That gamma' is the least-squares solution is not proved.) *)
Theorem C10_anderson_output_is_affine_combination_partial : forall n qr G rk rlast gk mdf γ t,
  Forall (fun c => length c = n) G -> length G = cap qr -> length gk = n ->
  ring_inv (cap qr) (ring_of qr) -> (0 < cap qr)%nat ->
  match minimize_update_anderson qr G rk rlast gk mdf γ with
  | (qr2, G', γ', x) =>
      let α := aa_alphas γ' (q_idx qr2) in
      lsum α = 1 /\ length α = S (q_idx qr2) /\ length (aa_cols qr2 G gk) = S (q_idx qr2) /\
      q_idx qr2 = S (if Nat.eqb (q_idx qr) (cap qr) then q_idx qr - 1 else q_idx qr) /\
      getv x t = dotl α (map (fun c => getv c t) (aa_cols qr2 G gk))
  end.
Proof. exact anderson_is_affine_combination. Qed.
Print Assumptions C10_anderson_output_is_affine_combination_partial.

(* ---------------------------------------------------------------- non-vacuity *)
(* a history within capacity that fills a capacity-3 ring, wraps around and removes right after the wrap *)
Example C10_nonvacuous_ring_history :
  ring_run 3 (mkRing 0 0 0) [RAdd; RAdd; RAdd; RRem; RAdd; RRem; RRem; RAdd] = Some (mkRing 2 0 2)
  /\ ring_iter 3 1 3 = [(0, 1); (1, 2); (2, 0)]%nat
  /\ until_loop 3 3 2 1 = [2; 0]%nat.
Proof. repeat split; reflexivity. Qed.

Example C10_nonvacuous_fifo :
  buf_run 2 (mkRing 0 0 0, [0; 0]%nat) [BAdd 7; BAdd 8; BRem; BAdd 9]%nat = Some (mkRing 2 1 1, [9; 8]%nat)
  /\ buf_read 0%nat 2 (mkRing 2 1 1, [9; 8]%nat) = [8; 9]%nat.
Proof. split; reflexivity. Qed.

(* the hypotheses of the history theorem are satisfiable: a capacity-1 factorisation that is filled, emptied, refilled
   (every add wraps), rescaled and reset *)
Lemma add_norm_first (st : qrst R) v : q_idx st = 0%nat -> vnorm2 v = 1 -> add_norm st v = 1.
Proof.
  intros Hq Hv. unfold add_norm. rewrite Hq. cbn [firstn mgs]. unfold reorth_fuel. cbn [reorth_loop]. rewrite Hv.
  unfold eta. numR. destruct (Raux.Rlt_bool_spec 1 (7 / 10 * 1)); [lra | reflexivity].
Qed.
Lemma vnorm2_e1 : vnorm2 [1; 0] = 1.
Proof. unfold vnorm2, vsqnorm, vsum, redux. simpl. numR. replace (1 * 1 + 0 * 0) with 1 by lra. apply sqrt_1. Qed.
Lemma vnorm2_e2 : vnorm2 [0; 1] = 1.
Proof. unfold vnorm2, vsqnorm, vsum, redux. simpl. numR. replace (0 * 0 + 1 * 1) with 1 by lra. apply sqrt_1. Qed.

Example C10_nonvacuous_history :
  hist_ok 2 (qr_new 2 1) [QAdd [1; 0]; QRem; QAdd [0; 1]; QScale 2; QReset].
Proof.
  cbn [hist_ok qok qstep]. repeat split; auto.
  - rewrite add_norm_first; [lra | reflexivity | exact vnorm2_e1].
  - rewrite q_idx_add. simpl. lia.
  - assert (E : q_idx (remove_column (add_column (qr_new 2 1) [1; 0])) = 0%nat).
    { change (g_qi (ring_of (remove_column (add_column (qr_new 2 1) [1; 0]))) = 0%nat).
      rewrite (proj1 (ring_of_remove _)). rewrite ring_of_add. reflexivity. }
    rewrite E. rewrite (proj2 (ring_of_remove _)), cap_add. simpl. lia.
  - assert (E : q_idx (remove_column (add_column (qr_new 2 1) [1; 0])) = 0%nat).
    { change (g_qi (ring_of (remove_column (add_column (qr_new 2 1) [1; 0]))) = 0%nat).
      rewrite (proj1 (ring_of_remove _)). rewrite ring_of_add. reflexivity. }
    rewrite add_norm_first; [lra | exact E | exact vnorm2_e2].
Qed.

Example C10_nonvacuous_givens : make_givens 3 0 = (1, 0, 3) /\ make_givens 0 (-2) = (0, 1, 2).
Proof.
  unfold make_givens. numR. split.
  - rewrite Raux.Req_bool_true by reflexivity. rewrite Raux.Rlt_bool_false by lra. rewrite Rabs_right by lra. reflexivity.
  - rewrite Raux.Req_bool_false by lra. rewrite Raux.Req_bool_true by reflexivity. rewrite Raux.Rlt_bool_true by lra.
    rewrite Rabs_left by lra. f_equal. lra.
Qed.

Example C10_nonvacuous_anderson : lsum (aa_alphas [2; 5; -1] 3) = 1 /\ aa_alphas [2; 5; -1] 3 = [2; 5 - 2; -1 - 5; 1 - -1].
Proof. split; [apply aa_alphas_sum_1; lia | reflexivity]. Qed.
