(* Ocp.v — model of the OCP machinery of PANOC-OCP (C12, groundwork for C13). No proofs here.
   Sources (src/alpaqa/include/alpaqa/):
     util/index-set.hpp                         IndexSet::update / compute_complement      -> build_J, compl_from, index_update
     inner/directions/panoc-ocp/ocp-vars.hpp    OCPVariables (storage layout)              -> off_x, off_u, off_h, off_c, ...
                                                OCPEvaluator::forward / backward           -> forward, backward
     inner/directions/panoc-ocp/lqr.hpp         StatefulLQRFactor::factor_masked / solve_masked -> factor_masked, solve_masked
   Numeric parts are polymorphic over Num (theorems at R, execution at binary64).
   Vectors are lists, matrices are lists of rows.  The problem's own functions (f, h, l, c, their derivative products)
   and the dense solve of the reduced input Hessian are parameters of the model. *)
From Coq Require Import List ZArith Bool Arith.
From Alpaqa Require Import Num Vec.
Import ListNotations.

(* ------------------------------------------------------------------ index sets (nat) *)
(* build_Jt: for (c = 0; c < n; ++c) if (condition(t, c)) out[j++] = c; *)
Definition build_J (cond : nat -> bool) (n : nat) : list nat := filter cond (seq 0 n).

(* compute_complement(in, out, n):  c = 0; for j in in { for (; c < j; ++c) out[k++] = c;  ++c; }  for (; c < n; ++c) out[k++] = c; *)
Fixpoint compl_from (inp : list nat) (c n : nat) : list nat :=
  match inp with
  | [] => seq c (n - c)
  | j :: inp' => seq c (j - c) ++ compl_from inp' (S (Nat.max c j)) n
  end.
Definition compl (inp : list nat) (n : nat) : list nat := compl_from inp 0 n.

(* IndexSet::update over N time steps: per step (J_t, K_t); storage = sizes ++ concat (J_t ++ K_t) *)
Definition index_update (cond : nat -> nat -> bool) (N n : nat) : list (list nat * list nat) :=
  map (fun t => let J := build_J (cond t) n in (J, compl J n)) (seq 0 N).
Definition index_storage (JK : list (list nat * list nat)) : list nat :=
  map (fun p => length (fst p)) JK ++ concat (map (fun p => fst p ++ snd p) JK).

(* ------------------------------------------------------------------ storage layout (nat) *)
Record dims := { dN : nat; dnx : nat; dnu : nat; dnh : nat; dnc : nat; dnhN : nat; dncN : nat }.
Definition stride (d : dims) : nat := dnx d + dnu d + dnh d + dnc d.          (* indices.back() *)
Definition total_len (d : dims) : nat := dN d * stride d + (dnx d + dnhN d + dncN d).  (* create() *)
Definition off_x (d : dims) (t : nat) : nat := t * stride d.
Definition off_u (d : dims) (t : nat) : nat := t * stride d + dnx d.
Definition off_h (d : dims) (t : nat) : nat := t * stride d + (if t <? dN d then dnx d + dnu d else dnx d).
Definition len_h (d : dims) (t : nat) : nat := if t <? dN d then dnh d else dnhN d.
Definition off_c (d : dims) (t : nat) : nat :=
  t * stride d + (if t <? dN d then dnx d + dnu d + dnh d else dnx d + dnhN d).
Definition len_c (d : dims) (t : nat) : nat := if t <? dN d then dnc d else dncN d.
(* qr layout [q r]*N + q_N ; AB layout nx × (nx+nu)N *)
Definition off_q (d : dims) (t : nat) : nat := t * (dnx d + dnu d).
Definition off_r (d : dims) (t : nat) : nat := t * (dnx d + dnu d) + dnx d.
Definition len_qr (d : dims) : nat := dN d * (dnx d + dnu d) + dnx d.

Definition seg {A} (off len : nat) (v : list A) : list A := firstn len (skipn off v).

(* ------------------------------------------------------------------ tiny matrix library (rows) *)
Section Mat.
  Context {T : Type} `{Num T}.
  Local Open Scope num_scope.

  Fixpoint dot (a b : list T) : T :=
    match a, b with x :: a', y :: b' => x * y + dot a' b' | _, _ => n0 end.
  Definition mv (M : list (list T)) (x : list T) : list T := map (fun r => dot r x) M.
  (* Mᵀ y = Σ_i y_i · row_i  (n = number of columns) *)
  Fixpoint mtv (n : nat) (M : list (list T)) (y : list T) : list T :=
    match M, y with
    | r :: M', yi :: y' => vadd (vscale yi r) (mtv n M' y')
    | _, _ => vconst n n0
    end.
  Definition madd (X Y : list (list T)) : list (list T) := map2 vadd X Y.
  (* transpose of a matrix with n columns *)
  Fixpoint mT (n : nat) (M : list (list T)) : list (list T) :=
    match M with
    | [] => repeat [] n
    | r :: M' => map2 cons r (mT n M')
    end.
  (* X·Y with Y having n columns: row_i(XY) = Yᵀ row_i(X) *)
  Definition mm (n : nat) (X Y : list (list T)) : list (list T) := map (fun r => mtv n Y r) X.

  Definition sel (idx : list nat) (v : list T) : list T := map (fun i => nth i v n0) idx.
  Definition selrows (idx : list nat) (M : list (list T)) : list (list T) := map (fun i => nth i M []) idx.
  Definition selcols (idx : list nat) (M : list (list T)) : list (list T) := map (sel idx) M.
  Fixpoint upd (i : nat) (x : T) (v : list T) : list T :=
    match v, i with
    | [], _ => []
    | _ :: v', O => x :: v'
    | y :: v', S i' => y :: upd i' x v'
    end.
  (* Δu(J) = e : sequential assignments *)
  Fixpoint scatter (J : list nat) (e : list T) (base : list T) : list T :=
    match J, e with
    | j :: J', x :: e' => scatter J' e' (upd j x base)
    | _, _ => base
    end.

  (* projection onto a box with optional sides, projecting difference, Σ-weighted squared distance (box.hpp) *)
  Definition proj1 (l u : option T) (z : T) : T := clamp_hi u (clamp_lo l z).
  Definition pdiff1 (l u : option T) (z : T) : T := z - proj1 l u z.
  Definition pdiff (lb ub : list (option T)) (z : list T) : list T := map3 pdiff1 lb ub z.
  (* ζ = c + μ⁻¹ y  (μ.asDiagonal().inverse() * y  =  y_i * (1/μ_i) in Eigen; modelled as y_i / μ_i) *)
  Definition zeta (c y μ : list T) : list T := map3 (fun ci yi mi => ci + yi / mi) c y μ.
  (* dist_squared(ζ, D, μ) = d · (μ ∘ d) *)
  Definition dist_sq (lb ub : list (option T)) (μ z : list T) : T :=
    let d := pdiff lb ub z in dot d (vmul μ d).
  Definition penalty (lb ub : list (option T)) (c y μ : list T) : T :=
    nhalf n1 * dist_sq lb ub μ (zeta c y μ).
  (* v = μ ∘ (ζ − Π_D ζ) *)
  Definition pen_grad (lb ub : list (option T)) (c y μ : list T) : list T :=
    vmul μ (pdiff lb ub (zeta c y μ)).
End Mat.

(* ------------------------------------------------------------------ forward pass *)
Section Forward.
  Context {T : Type} `{Num T}.
  Local Open Scope num_scope.
  (* the problem's functions *)
  Variable f : nat -> list T -> list T -> list T.        (* eval_f *)
  Variable h : nat -> list T -> list T -> list T.        (* eval_h   (used when nh > 0) *)
  Variable hN : list T -> list T.                        (* eval_h_N (used when nh_N > 0) *)
  Variable l : nat -> list T -> T.                       (* eval_l *)
  Variable lN : list T -> T.                             (* eval_l_N *)
  Variable c : nat -> list T -> list T.                  (* eval_constr *)
  Variable cN : list T -> list T.                        (* eval_constr_N *)
  Variable d : dims.
  Variables Dlb Dub DNlb DNub : list (option T).

  (* one stage of OCPEvaluator::forward: returns the stage block [x u h c], the cost increment and x_{t+1} *)
  Definition stage_fwd (t : nat) (x u yt μt : list T) : list T * T * list T :=
    let hk := if Nat.ltb 0 (dnh d) then h t x u else [] in
    let lv := if Nat.ltb 0 (dnh d) then l t hk else l t (x ++ u) in
    let ck := if Nat.ltb 0 (dnc d) then c t x else [] in
    let pv := if Nat.ltb 0 (dnc d) then penalty Dlb Dub ck yt μt else n0 in
    (x ++ u ++ hk ++ ck, (if Nat.ltb 0 (dnc d) then lv + pv else lv), f t x u).

  Definition term_fwd (x yN μN : list T) : list T * T :=
    let hk := if Nat.ltb 0 (dnhN d) then hN x else [] in
    let lv := if Nat.ltb 0 (dnhN d) then lN hk else lN x in
    let ck := if Nat.ltb 0 (dncN d) then cN x else [] in
    (x ++ hk ++ ck, if Nat.ltb 0 (dncN d) then lv + penalty DNlb DNub ck yN μN else lv).

  (* loop over t with running V (V += ...), us = inputs per stage, y/μ flat *)
  Fixpoint forward_from (t : nat) (x : list T) (us : list (list T)) (y μ : list T) (V : T) : list T * T :=
    match us with
    | [] => let '(blk, v) := term_fwd x (seg (dN d * dnc d) (dncN d) y) (seg (dN d * dnc d) (dncN d) μ) in
            (blk, V + v)
    | u :: us' =>
        let '(blk, v, xn) := stage_fwd t x u (seg (t * dnc d) (dnc d) y) (seg (t * dnc d) (dnc d) μ) in
        let '(rest, V') := forward_from (S t) xn us' y μ (V + v) in
        (blk ++ rest, V')
    end.
  Definition forward (x0 : list T) (us : list (list T)) (y μ : list T) : list T * T :=
    forward_from 0 x0 us y μ n0.

  (* specification side: trajectory and cost as a sum *)
  Fixpoint traj (t : nat) (x : list T) (us : list (list T)) : list (list T) :=
    match us with [] => [x] | u :: us' => x :: traj (S t) (f t x u) us' end.
  Definition stage_cost (t : nat) (x u y μ : list T) : T := snd (fst (stage_fwd t x u (seg (t * dnc d) (dnc d) y) (seg (t * dnc d) (dnc d) μ))).
  Definition term_cost (x y μ : list T) : T := snd (term_fwd x (seg (dN d * dnc d) (dncN d) y) (seg (dN d * dnc d) (dncN d) μ)).
  Fixpoint cost_sum (t : nat) (x : list T) (us : list (list T)) (y μ : list T) : T :=
    match us with
    | [] => term_cost x y μ
    | u :: us' => stage_cost t x u y μ + cost_sum (S t) (f t x u) us' y μ
    end.
End Forward.

(* ------------------------------------------------------------------ backward (adjoint) pass *)
Section Backward.
  Context {T : Type} `{Num T}.
  Local Open Scope num_scope.
  (* linearisation data of one stage: A (nx×nx), B (nx×nu), q (nx), r (nu) *)
  Record lin_stage := { lA : list (list T); lB : list (list T); lq : list T; lr : list T }.

  (* for t = N-1..0: [Aᵀλ; Bᵀλ]; λ ← Aᵀλ; g_t ← Bᵀλ; λ += q_t; g_t += r_t.   Returns (g_0..g_{N-1}, λ_0). *)
  Fixpoint adjoint (nx nu : nat) (st : list lin_stage) (λN : list T) : list (list T) * list T :=
    match st with
    | [] => ([], λN)
    | s :: st' =>
        let '(gs, λ) := adjoint nx nu st' λN in
        (vadd (mtv nu (lB s) λ) (lr s) :: gs, vadd (mtv nx (lA s) λ) (lq s))
    end.

  (* what OCPEvaluator::backward obtains per stage from the problem: cost gradients (eval_qr), the constraint
     Jacobian (eval_grad_constr_prod is Jcᵀ·v), c_t from storage, multipliers/penalties *)
  Record bw_stage := { bA : list (list T); bB : list (list T); bqr : list T (* q ++ r from eval_qr *);
                       bJc : list (list T); bc : list T; by_ : list T; bμ : list T }.
  Definition q_of (nx nc : nat) (lb ub : list (option T)) (s : bw_stage) : list T :=
    let q := firstn nx (bqr s) in
    if Nat.ltb 0 nc then vadd q (mtv nx (bJc s) (pen_grad lb ub (bc s) (by_ s) (bμ s))) else q.
  Definition lin_of (nx nc : nat) (lb ub : list (option T)) (s : bw_stage) : lin_stage :=
    {| lA := bA s; lB := bB s; lq := q_of nx nc lb ub s; lr := skipn nx (bqr s) |}.
  Definition qN_of (nx ncN : nat) (lb ub : list (option T)) (qNc : list T) (JcN : list (list T)) (cN yN μN : list T) : list T :=
    if Nat.ltb 0 ncN then vadd qNc (mtv nx JcN (pen_grad lb ub cN yN μN)) else qNc.

  (* returns (g per stage, λ_0, the qr buffer contents: [q_t ++ r_t] per stage, q_N) *)
  Definition backward (nx nu nc ncN : nat) (Dlb Dub DNlb DNub : list (option T)) (st : list bw_stage)
             (qNc : list T) (JcN : list (list T)) (cN yN μN : list T) : list (list T) * list T * list (list T) * list T :=
    let ls := map (lin_of nx nc Dlb Dub) st in
    let qN := qN_of nx ncN DNlb DNub qNc JcN cN yN μN in
    let '(g, λ0) := adjoint nx nu ls qN in
    (g, λ0, map (fun s => lq s ++ lr s) ls, qN).

  (* linearised roll-out δx_{k+1} = A_k δx_k + B_k δu_k *)
  Fixpoint lin_traj (st : list lin_stage) (δx : list T) (δus : list (list T)) : list (list T) :=
    match st, δus with
    | s :: st', δu :: δus' => δx :: lin_traj st' (vadd (mv (lA s) δx) (mv (lB s) δu)) δus'
    | _, _ => [δx]
    end.
  (* first-order change of the cost along (δx, δu): Σ_k (q_k·δx_k + r_k·δu_k) + q_N·δx_N *)
  Fixpoint lin_cost (st : list lin_stage) (qN δx : list T) (δus : list (list T)) : T :=
    match st, δus with
    | s :: st', δu :: δus' =>
        (dot (lq s) δx + dot (lr s) δu) + lin_cost st' qN (vadd (mv (lA s) δx) (mv (lB s) δu)) δus'
    | _, _ => dot qN δx
    end.
  Fixpoint dots (gs δus : list (list T)) : T :=
    match gs, δus with g :: gs', δu :: δus' => dot g δu + dots gs' δus' | _, _ => n0 end.
End Backward.
Arguments lin_stage T : clear implicits.
Arguments bw_stage T : clear implicits.

(* ------------------------------------------------------------------ masked Riccati recursion *)
Section Riccati.
  Context {T : Type} `{Num T}.
  Local Open Scope num_scope.
  (* dense solve of R̄ x = b (Eigen LDLT or PartialPivLU in the code: both options map to this parameter) *)
  Variable lsolve : list (list T) -> list T -> list T.
  Variables nx nu : nat.

  Record lq_stage := { sA : list (list T); sB : list (list T); sQ : list (list T); sS : list (list T) (* nu×nx *);
                       sR : list (list T); sq : list T; sr : list T;
                       sJ : list nat; sK : list nat; sfix : list T (* u: fixed values, length nu *) }.
  (* per stage result: Kᵀ as list of nx columns (= column-major nJ×nx storage of gain_K), e *)
  Record gain := { gKT : list (list T); ge : list T }.

  Definition mneg (M : list (list T)) := map (fun r => vneg r) M.

  Record stage_out := { oKT : list (list T); oe : list T; oP : list (list T); os : list T;
                        oRbar : list (list T); oSbar : list (list T); oy : list T; ot : list T }.
  (* one backward step of factor_masked given cost-to-go (P, s) of the next stage *)
  Definition factor_step (st : lq_stage) (P : list (list T)) (s : list T) : stage_out :=
    let J := sJ st in let K := sK st in let nJ := length J in
    let BJ := selcols J (sB st) in
    let PBJ := mm nJ P BJ in
    let Rbar := madd (mm nJ (mT nJ BJ) PBJ) (selcols J (selrows J (sR st))) in
    let PA := mm nx P (sA st) in
    let Sbar := madd (mm nx (mT nJ BJ) PA) (selrows J (sS st)) in
    let uK := sel K (sfix st) in
    let c := mv (selcols K (sB st)) uK in
    let y := vadd (mv P c) s in
    let t := vadd (vadd (mtv nJ BJ y) (sel J (sr st))) (mv (selcols K (selrows J (sR st))) uK) in
    let KT := map (fun col => vneg (lsolve Rbar col)) (mT nx Sbar) in
    let e := vneg (lsolve Rbar t) in
    let P' := madd (madd (mm nx (mT nx (sA st)) PA) (map (fun ca => mv KT ca) (mT nx Sbar))) (sQ st) in
    let s' := vadd (vadd (vadd (mtv nx Sbar e) (mtv nx (sA st) y)) (sq st)) (mtv nx (selrows K (sS st)) uK) in
    {| oKT := KT; oe := e; oP := P'; os := s'; oRbar := Rbar; oSbar := Sbar; oy := y; ot := t |}.

  (* stages listed from 0 to N-1; returns gains per stage and the cost-to-go (P_0, s_0) at stage 0 *)
  Fixpoint factor_all (sts : list lq_stage) (QN : list (list T)) (qN : list T) : list gain * list (list T) * list T :=
    match sts with
    | [] => ([], QN, qN)
    | st :: sts' =>
        let '(gs, P, s) := factor_all sts' QN qN in
        let o := factor_step st P s in
        ({| gKT := oKT o; ge := oe o |} :: gs, oP o, os o)
    end.
  (* what the object holds after factor_masked: P and s are NOT updated at i = 0 (`if (i > 0)`) *)
  Definition factor_masked (sts : list lq_stage) (QN : list (list T)) (qN : list T) : list gain * list (list T) * list T :=
    match sts with
    | [] => ([], QN, qN)
    | st :: sts' =>
        let '(gs, P, s) := factor_all sts' QN qN in
        let o := factor_step st P s in
        ({| gKT := oKT o; ge := oe o |} :: gs, P, s)
    end.

  (* solve_masked: Δx_0 = 0; e_i += K_i Δx_i; Δu_i(J) = e_i; Δx⁺ = A Δx + B Δu_i.   Δu starts as the fixed values *)
  Fixpoint solve_from (sts : list lq_stage) (gs : list gain) (Δx : list T) : list (list T) :=
    match sts, gs with
    | st :: sts', g :: gs' =>
        let e' := vadd (ge g) (mtv (length (sJ st)) (gKT g) Δx) in
        let Δu := scatter (sJ st) e' (sfix st) in
        Δu :: solve_from sts' gs' (vadd (mv (sA st) Δx) (mv (sB st) Δu))
    | _, _ => []
    end.
  Definition solve_masked (sts : list lq_stage) (gs : list gain) : list (list T) :=
    solve_from sts gs (vconst nx n0).
  Definition riccati_step (sts : list lq_stage) (QN : list (list T)) (qN : list T) : list (list T) :=
    solve_masked sts (fst (fst (factor_masked sts QN qN))).
End Riccati.
Arguments lq_stage T : clear implicits.
Arguments gain T : clear implicits.
