(* OcpMinProofs.v — the masked Riccati step is the UNIQUE MINIMISER of the equality-constrained quadratic subproblem (C12).
   Built on OcpProofs.v: (A) along a KKT point the objective expands exactly, obj(Δ+δ) = obj(Δ) + <λ_0, δx_0> + quad(δ);
   (B) completion of squares with the Riccati matrices: quad(δ) = ½ δx_0ᵀ P_0 δx_0 + Σ_k ½ w_kᵀ R̄_k w_k, w_k = δu_J − K_k δx_k;
   (C) with R̄_k ≻ 0 the sum is >= 0 and vanishes (for δx_0 = 0) only for δ = 0. *)
From Coq Require Import List ZArith Bool Arith Lia Reals Lra Sorting.Permutation.
From Alpaqa Require Import Num NumR Vec Ocp OcpProofs.
Import ListNotations.
Local Open Scope R_scope.

Notation zeros n := (vconst n (0:R)).

(* ------------------------------------------------------------------ small helpers *)
Lemma vadd_zeros_r : forall n (v : list R), length v = n -> vadd v (zeros n) = v.
Proof. induction n; destruct v; simpl; intros; try discriminate; auto. rewrite vadd_cons. f_equal; [lra|]. apply IHn. lia. Qed.
Lemma vneg_zeros : forall n, vneg (zeros n) = zeros n.
Proof. induction n; simpl; auto. unfold vneg in *. simpl. f_equal; [numR; lra|]. exact IHn. Qed.
Lemma vscale_zero : forall (r : list R), vscale 0 r = zeros (length r).
Proof. induction r; simpl; auto. unfold vscale in *. simpl. f_equal; [numR; lra|]. exact IHr. Qed.
Lemma mtv_zeros : forall n M k, Forall (fun row : list R => length row = n) M -> mtv n M (zeros k) = zeros n.
Proof.
  induction M; intros k HM; simpl; auto. destruct k; simpl; auto.
  pose proof (Forall_inv HM) as Ha. pose proof (Forall_inv_tail HM) as Ht. cbv beta in Ha.
  change (vconst k 0) with (zeros k). rewrite IHM by auto. rewrite vscale_zero, Ha. apply vadd_zeros_r. apply vconst_length.
Qed.
Lemma sel_mv : forall idx M (v : list R), sel idx (mv M v) = mv (selrows idx M) v.
Proof.
  intros. unfold sel, mv, selrows. rewrite map_map. apply map_ext. intro i.
  rewrite <- (map_nth (fun r => dot r v) M [] i). reflexivity.
Qed.
Lemma vadd_swap4 : forall n (a b c d : list R), length a = n -> length b = n -> length c = n -> length d = n ->
  vadd (vadd a b) (vadd c d) = vadd (vadd a c) (vadd b d).
Proof.
  induction n; intros a b c d Ha Hb Hc Hd; destruct a, b, c, d; simpl in *; try discriminate; auto.
  rewrite !vadd_cons. f_equal; [lra|]. apply IHn; lia.
Qed.
Lemma sel_zero_all : forall n J K (v : list R), Permutation (J ++ K) (seq 0 n) -> length v = n ->
  sel J v = zeros (length J) -> sel K v = zeros (length K) -> v = zeros n.
Proof.
  intros n J K v HP Hv HJ HK. apply (dot_ext n); auto. { apply vconst_length. }
  intros w Hw. rewrite (dot_partition n J K v w HP Hv Hw), HJ, HK, !dot_zeros_l. lra.
Qed.

(* ------------------------------------------------------------------ the quadratic subproblem *)
Definition stage_obj (st : lq_stage R) (Δx Δu : list R) : R :=
  / 2 * dot Δx (mv (sQ st) Δx) + dot Δu (mv (sS st) Δx) + / 2 * dot Δu (mv (sR st) Δu) + dot (sq st) Δx + dot (sr st) Δu.
Definition stage_quad (st : lq_stage R) (δx δu : list R) : R :=
  / 2 * dot δx (mv (sQ st) δx) + dot δu (mv (sS st) δx) + / 2 * dot δu (mv (sR st) δu).
Definition term_obj (QN : list (list R)) (qN Δx : list R) : R := / 2 * dot Δx (mv QN Δx) + dot qN Δx.

(* objective along the trajectory Δx_{k+1} = A Δx_k + B Δu_k *)
Fixpoint obj (sts : list (lq_stage R)) (QN : list (list R)) (qN Δx : list R) (Δus : list (list R)) : R :=
  match sts, Δus with
  | st :: sts', Δu :: Δus' => stage_obj st Δx Δu + obj sts' QN qN (vadd (mv (sA st) Δx) (mv (sB st) Δu)) Δus'
  | _, _ => term_obj QN qN Δx
  end.
Fixpoint quad (sts : list (lq_stage R)) (QN : list (list R)) (δx : list R) (δus : list (list R)) : R :=
  match sts, δus with
  | st :: sts', δu :: δus' => stage_quad st δx δu + quad sts' QN (vadd (mv (sA st) δx) (mv (sB st) δu)) δus'
  | _, _ => / 2 * dot δx (mv QN δx)
  end.
(* feasible directions: the fixed components do not move *)
Definition dir_ok (nu : nat) (sts : list (lq_stage R)) (δus : list (list R)) : Prop :=
  Forall2 (fun st δu => length δu = nu /\ sel (sK st) δu = zeros (length (sK st))) sts δus.

Lemma dir_ok_cons nu st sts (δu : list R) δus : dir_ok nu (st :: sts) (δu :: δus) ->
  (length δu = nu /\ sel (sK st) δu = zeros (length (sK st))) /\ dir_ok nu sts δus.
Proof. intros H. inversion H; subst. split; assumption. Qed.

Lemma stage_obj_expand nx nu st (Δx Δu δx δu : list R) :
  wfm nx nx (sQ st) -> wfm nu nx (sS st) -> wfm nu nu (sR st) -> selfadj nx (sQ st) -> selfadj nu (sR st) ->
  length (sq st) = nx -> length (sr st) = nu ->
  length Δx = nx -> length δx = nx -> length Δu = nu -> length δu = nu ->
  stage_obj st (vadd Δx δx) (vadd Δu δu) =
  stage_obj st Δx Δu
  + (dot (mv (sQ st) Δx) δx + dot (mtv nx (sS st) Δu) δx + dot (sq st) δx
     + dot (mv (sR st) Δu) δu + dot (mv (sS st) Δx) δu + dot (sr st) δu)
  + stage_quad st δx δu.
Proof.
  intros WQ WS WR HQ HR Lq Lr LΔx Lδx LΔu Lδu. unfold stage_obj, stage_quad.
  rewrite !(mv_vadd_n nx) by auto. rewrite !(mv_vadd_n nu) by auto.
  assert (lQ : forall v, length (mv (sQ st) v) = nx) by (intro; rewrite mv_length; apply WQ).
  assert (lS : forall v, length (mv (sS st) v) = nu) by (intro; rewrite mv_length; apply WS).
  assert (lR : forall v, length (mv (sR st) v) = nu) by (intro; rewrite mv_length; apply WR).
  rewrite !(dot_vadd_l_n nx) by auto. rewrite !(dot_vadd_l_n nu) by auto.
  rewrite !(dot_vadd_r_n nx) by auto. rewrite !(dot_vadd_r_n nu) by auto.
  rewrite (dot_mtv nx) by apply WS.
  rewrite (HQ Δx δx LΔx Lδx). rewrite (dot_comm δx (mv (sQ st) Δx)).
  rewrite (HR Δu δu LΔu Lδu). rewrite (dot_comm δu (mv (sR st) Δu)).
  rewrite (dot_comm δu (mv (sS st) Δx)).
  rewrite (dot_vadd_r_n nx Δx δx (sq st)) by auto. rewrite (dot_vadd_r_n nu Δu δu (sr st)) by auto.
  lra.
Qed.

(* ------------------------------------------------------------------ (A) exact expansion along a KKT point *)
Definition wf2 (nx nu : nat) (st : lq_stage R) : Prop := wf_stage nx nu st /\ selfadj nu (sR st).

Lemma next_split nx (A B : list (list R)) (Δx δx Δu δu : list R) nu :
  length A = nx -> length B = nx -> length Δx = length δx -> length Δu = nu -> length δu = nu ->
  vadd (mv A (vadd Δx δx)) (mv B (vadd Δu δu)) = vadd (vadd (mv A Δx) (mv B Δu)) (vadd (mv A δx) (mv B δu)).
Proof.
  intros LA LB L1 L2 L3. rewrite mv_vadd by auto. rewrite mv_vadd by lia.
  apply (vadd_swap4 nx); rewrite mv_length; auto.
Qed.

Section StageLin.
  Variables (nx nu : nat) (st : lq_stage R).
  Hypothesis Hst : wf2 nx nu st.
  Variables (Δx Δu δx δu λn : list R).
  Hypothesis LΔx : length Δx = nx.
  Hypothesis Lδx : length δx = nx.
  Hypothesis LΔu : length Δu = nu.
  Hypothesis Lδu : length δu = nu.
  Hypothesis HδK : sel (sK st) δu = zeros (length (sK st)).
  Hypothesis Hfix : sel (sK st) Δu = sel (sK st) (sfix st).
  Hypothesis Hstat : stat_J st Δx (sel (sJ st) Δu) λn = zeros (length (sJ st)).

  Let J := sJ st. Let K := sK st.
  Let HP : Permutation (J ++ K) (seq 0 nu).
  Proof. destruct Hst as [(_&_&_&_&_&_&_&_&Hp&_) _]. exact Hp. Qed.

  (* pairing with a feasible direction only sees the free components *)
  Lemma dot_dir (v : list R) : length v = nu -> dot v δu = dot (sel J v) (sel J δu).
  Proof.
    intros Lv. rewrite (dot_partition nu J K v δu HP Lv Lδu). fold K in HδK. rewrite HδK, dot_zeros_r. lra.
  Qed.

  Lemma mvB_dir : mv (sB st) δu = mv (selcols J (sB st)) (sel J δu).
  Proof.
    destruct Hst as [(_&HB&_) _].
    rewrite (mv_partition nx nu J K (sB st) δu HP HB Lδu). fold K in HδK. rewrite HδK, mv_zeros.
    apply vadd_zeros_r. rewrite mv_length. unfold selcols. rewrite !map_length. reflexivity.
  Qed.

  (* stationarity, paired with the direction *)
  Lemma stat_dir :
    dot (mv (sR st) Δu) δu + dot (mv (sS st) Δx) δu + dot (sr st) δu + dot λn (mv (sB st) δu) = 0.
  Proof.
    destruct Hst as [Hw HR].
    pose proof (wRJJ nx nu st Hw) as W1. pose proof (wRJK nx nu st Hw) as W2. pose proof (wSJ nx nu st Hw) as W3.
    pose proof (wBJ nx nu st Hw) as W4. pose proof (st_parts nx nu st Hw) as (_&HJr&_).
    destruct Hw as (HA&HB&HQ&HS&HRw&Lq&Lr&Lf&_).
    pose proof (f_equal (fun v => dot v (sel J δu)) Hstat) as F. cbv beta in F. unfold stat_J in F. fold J K in F.
    rewrite dot_zeros_l in F.
    assert (LJ : length (sel J δu) = length J) by apply sel_length.
    rewrite !(dot_vadd_l_n (length J)) in F;
      try (rewrite mv_length; first [apply W1 | apply W2 | apply W3]); try apply sel_length;
      try (apply mtv_length; apply W4);
      try (repeat apply vadd_length_n; try (rewrite mv_length; first [apply W1 | apply W2 | apply W3]); try apply sel_length; try (apply mtv_length; apply W4)).
    rewrite (dot_mtv (length J)) in F by apply W4.
    rewrite mvB_dir.
    rewrite (dot_dir (mv (sR st) Δu)) by (rewrite mv_length; apply HRw).
    rewrite (dot_dir (mv (sS st) Δx)) by (rewrite mv_length; apply HS).
    rewrite (dot_dir (sr st)) by auto.
    rewrite !sel_mv.
    assert (WRJ : wfm (length J) nu (selrows J (sR st))).
    { apply (selrows_wfm nu nu); auto. }
    rewrite (mv_partition (length J) nu J K (selrows J (sR st)) Δu HP WRJ LΔu).
    fold K in Hfix. rewrite Hfix.
    rewrite (dot_vadd_l_n (length J)) by (rewrite mv_length; first [apply W1 | apply W2]).
    lra.
  Qed.

  (* Sᵀ Δu paired with δx, in partitioned form *)
  Lemma St_split :
    dot (mtv nx (sS st) Δu) δx =
    dot (mtv nx (selrows J (sS st)) (sel J Δu)) δx + dot (mtv nx (selrows K (sS st)) (sel K (sfix st))) δx.
  Proof.
    destruct Hst as [Hw _].
    pose proof (wSJ nx nu st Hw) as W3. pose proof (wSK nx nu st Hw) as W5.
    destruct Hw as (HA&HB&HQ&HS&HRw&Lq&Lr&Lf&_).
    rewrite !(dot_mtv nx) by first [apply HS | apply W3 | apply W5].
    rewrite (dot_partition nu J K Δu (mv (sS st) δx) HP LΔu) by (rewrite mv_length; apply HS).
    rewrite !sel_mv. fold K in Hfix. rewrite Hfix. reflexivity.
  Qed.
End StageLin.

Lemma obj_expand_along_kkt nx nu : forall sts QN qN,
  Forall (wf2 nx nu) sts -> wfm nx nx QN -> selfadj nx QN -> length qN = nx ->
  forall Δx Δus λ, length Δx = nx -> Forall (fun Δu : list R => length Δu = nu) Δus ->
  kkt nx sts QN qN Δx Δus λ ->
  forall δx δus, length δx = nx -> dir_ok nu sts δus ->
  obj sts QN qN (vadd Δx δx) (map2 vadd Δus δus) = obj sts QN qN Δx Δus + dot λ δx + quad sts QN δx δus.
Proof.
  induction sts as [|st sts IH]; intros QN qN Hw WQ HQ Lq Δx Δus λ LΔx LΔus Hk δx δus Lδx Hd.
  - destruct Δus; cbn [kkt] in Hk; try contradiction. destruct δus; [|inversion Hd]. cbn [obj quad map2]. unfold term_obj.
    subst λ.
    assert (lQ : forall v, length (mv QN v) = nx) by (intro; rewrite mv_length; apply WQ).
    rewrite (mv_vadd_n nx) by auto. rewrite !(dot_vadd_l_n nx) by auto. rewrite !(dot_vadd_r_n nx) by auto.
    rewrite (HQ Δx δx LΔx Lδx). rewrite (dot_comm δx (mv QN Δx)). lra.
  - destruct Δus as [|Δu Δus]; cbn [kkt] in Hk; try contradiction.
    destruct δus as [|δu δus']; [inversion Hd|]. destruct (dir_ok_cons _ _ _ _ _ Hd) as [[Lδu HδK] Hd']. clear Hd.
    repeat match goal with H : _ :: _ = _ :: _ |- _ => clear H end.
    destruct Hk as (Hfix & λn & Hk' & Hstat & Hcost).
    pose proof (Forall_inv Hw) as Hst. pose proof (Forall_inv_tail Hw) as Hw'.
    pose proof (Forall_inv LΔus) as LΔu. pose proof (Forall_inv_tail LΔus) as LΔus'. cbv beta in LΔu.
    destruct Hst as [Hwf HR]. pose proof Hwf as (HA&HB&HQs&HS&HRw&Lqs&Lr&Lf&HPm&HQa&_).
    cbn [obj quad map2].
    rewrite (next_split nx (sA st) (sB st) Δx δx Δu δu nu) by (try apply HA; try apply HB; lia).
    assert (Lnx : length (vadd (mv (sA st) Δx) (mv (sB st) Δu)) = nx).
    { apply vadd_length_n; rewrite mv_length; [apply HA | apply HB]. }
    assert (Lnd : length (vadd (mv (sA st) δx) (mv (sB st) δu)) = nx).
    { apply vadd_length_n; rewrite mv_length; [apply HA | apply HB]. }
    rewrite (IH QN qN Hw' WQ HQ Lq _ Δus λn Lnx LΔus' Hk' _ δus' Lnd Hd').
    rewrite (stage_obj_expand nx nu st Δx Δu δx δu) by auto.
    rewrite (dot_vadd_r_n nx) by (rewrite mv_length; first [apply HA | apply HB]).
    pose proof (stat_dir nx nu st (conj Hwf HR) Δx Δu δu λn LΔu Lδu HδK Hfix Hstat) as E1.
    pose proof (St_split nx nu st (conj Hwf HR) Δu δx LΔu Hfix) as E2.
    subst λ. unfold costate.
    pose proof (wSJ nx nu st Hwf) as W3. pose proof (wSK nx nu st Hwf) as W5.
    rewrite !(dot_vadd_l_n nx);
      try (apply mtv_length; first [apply HA | apply W3 | apply W5]); try (rewrite mv_length; apply HQs); auto;
      try (repeat apply vadd_length_n; try (apply mtv_length; first [apply HA | apply W3 | apply W5]); try (rewrite mv_length; apply HQs); auto).
    rewrite (dot_mtv nx (sA st)) by apply HA.
    lra.
Qed.

(* ------------------------------------------------------------------ (B) completion of squares with the Riccati matrices *)
Section Square.
  Variable lsolve : list (list R) -> list R -> list R.
  Variables (nx nu : nat) (st : lq_stage R) (P : list (list R)) (s : list R).
  Hypothesis Hst : wf2 nx nu st.
  Hypothesis HP : wfm nx nx P.
  Hypothesis HPs : selfadj nx P.
  Let o := factor_step lsolve nx st P s.
  Hypothesis Hsol : solves lsolve (oRbar o).
  Variables (δx δu : list R).
  Hypothesis Lδx : length δx = nx.
  Hypothesis Lδu : length δu = nu.
  Hypothesis HδK : sel (sK st) δu = zeros (length (sK st)).

  Let J := sJ st. Let nJ := length J.
  Let δuJ := sel J δu.
  Let k := mtv nJ (oKT o) δx.
  Let w := vadd δuJ (vneg k).
  Let δxn := vadd (mv (sA st) δx) (mv (sB st) δu).

  Lemma stage_square :
    stage_quad st δx δu + / 2 * dot δxn (mv P δxn) = / 2 * dot δx (mv (oP o) δx) + / 2 * dot w (mv (oRbar o) w).
  Proof.
    destruct Hst as [Hw HR].
    pose proof (wBJ nx nu st Hw) as WBJ. pose proof (wA nx nu st Hw) as WA. pose proof (wRJJ nx nu st Hw) as WRJJ.
    pose proof (wSJ nx nu st Hw) as WSJ. pose proof (wPBJ nx nu st P Hw HP) as WPBJ. pose proof (wBJT nx nu st Hw) as WBJT.
    pose proof (wPA nx nu st P Hw HP) as WPA. pose proof (wRbar lsolve nx nu st P s Hw HP) as WRb.
    pose proof (wSbar lsolve nx nu st P s Hw HP) as WSb. pose proof (wKT lsolve nx nu st P s Hw HP Hsol) as WKT.
    pose proof (wM1 nx nu st P Hw HP) as WM1. pose proof (wStK lsolve nx nu st P s Hw HP Hsol) as WStK.
    pose proof (wQ nx nu st Hw) as WQ. pose proof (st_parts nx nu st Hw) as (_&HJr&_).
    pose proof (Rbar_selfadj lsolve nx nu st P s Hw HP HPs) as HRb.
    pose proof (K_apply lsolve nx nu st P s Hw HP Hsol δx Lδx) as HK.
    pose proof Hw as (HA&HB&HQw&HS&HRw&Lq&Lr&Lf&HPm&HQa&_).
    fold o J nJ in WRb, WSb, WKT, WStK, HRb, HK, WBJ, WRJJ, WSJ, WPBJ, WBJT. fold k in HK.
    assert (LJ : length δuJ = nJ) by apply sel_length.
    assert (Lk : length k = nJ) by (apply mtv_length; apply WKT).
    assert (Lnk : length (vneg k) = nJ) by (rewrite vneg_length; exact Lk).
    set (a := mv (sA st) δx). set (b := mv (selcols J (sB st)) δuJ).
    assert (La : length a = nx) by (unfold a; rewrite mv_length; apply HA).
    assert (Lb : length b = nx) by (unfold b; rewrite mv_length; apply WBJ).
    assert (Exn : δxn = vadd a b).
    { unfold δxn, a, b. f_equal. apply (mvB_dir nx nu st (conj Hw HR) δu Lδu HδK). }
    assert (lP : forall v, length (mv P v) = nx) by (intro; rewrite mv_length; apply HP).
    set (σ := mv (oSbar o) δx) in *.
    assert (Lσ : length σ = nJ) by (unfold σ; rewrite mv_length; apply WSb).
    (* left-hand side *)
    unfold stage_quad.
    rewrite (dot_comm δu (mv (sS st) δx)), (dot_comm δu (mv (sR st) δu)).
    rewrite (dot_dir nx nu st (conj Hw HR) δu Lδu HδK (mv (sS st) δx)) by (rewrite mv_length; apply HS).
    rewrite (dot_dir nx nu st (conj Hw HR) δu Lδu HδK (mv (sR st) δu)) by (rewrite mv_length; apply HRw).
    rewrite !sel_mv. fold J δuJ.
    assert (WRJ : wfm nJ nu (selrows J (sR st))) by (apply (selrows_wfm nu nu); auto).
    rewrite (mv_partition nJ nu J (sK st) (selrows J (sR st)) δu HPm WRJ Lδu). rewrite HδK, mv_zeros. fold δuJ.
    rewrite vadd_zeros_r by (rewrite mv_length; unfold selcols; rewrite !map_length; reflexivity).
    rewrite (dot_comm (mv (selrows J (sS st)) δx) δuJ), (dot_comm (mv (selcols J (selrows J (sR st))) δuJ) δuJ).
    rewrite Exn. rewrite (mv_vadd_n nx) by auto. rewrite !(dot_vadd_l_n nx) by auto. rewrite !(dot_vadd_r_n nx) by auto.
    (* right-hand side *)
    pose proof (eq_P' lsolve nx st P s) as EP. fold o in EP. rewrite EP.
    assert (W12 : wfm nx nx (madd (mm nx (mT nx (sA st)) (mm nx P (sA st))) (map (fun ca => mv (oKT o) ca) (mT nx (oSbar o)))))
      by (apply madd_wfm; auto).
    rewrite (mv_madd nx nx) by auto. rewrite (mv_madd nx nx) by auto.
    rewrite !(dot_vadd_r_n nx) by (try (rewrite mv_length; first [apply WM1 | apply WStK | apply WQ]);
                                   try (apply vadd_length_n; rewrite mv_length; first [apply WM1 | apply WStK])).
    rewrite (mv_mm nx) by apply WPA. rewrite (mv_mT nx nx) by apply HA.
    rewrite (dot_comm δx (mtv nx (sA st) _)). rewrite (dot_mtv nx) by apply HA. rewrite (mv_mm nx) by apply HA. fold a.
    pose proof (StK_apply lsolve nx nu st P s Hw HP Hsol δx) as ES. fold o J nJ k in ES. rewrite ES.
    rewrite (dot_comm δx (mtv nx (oSbar o) k)). rewrite (dot_mtv nx) by apply WSb. fold σ.
    unfold w. rewrite (mv_vadd_n nJ) by auto. rewrite mv_vneg, HK.
    rewrite !(dot_vadd_l_n nJ) by auto.
    assert (lRb : forall v, length (mv (oRbar o) v) = nJ) by (intro; rewrite mv_length; apply WRb).
    rewrite !(dot_vadd_r_n nJ) by (auto; rewrite !vneg_length; auto).
    rewrite !dot_vneg_l, !dot_vneg_r.
    (* <k, R̄ δuJ> = <R̄ k, δuJ> = -<σ, δuJ> *)
    assert (E1 : dot k (mv (oRbar o) δuJ) = - dot σ δuJ).
    { rewrite (HRb k δuJ Lk LJ), HK, dot_vneg_l. reflexivity. }
    (* <δuJ, R̄ δuJ> *)
    assert (E2 : dot δuJ (mv (oRbar o) δuJ) = dot b (mv P b) + dot δuJ (mv (selcols J (selrows J (sR st))) δuJ)).
    { pose proof (eq_Rbar lsolve nx st P s) as ER. fold o J nJ in ER. rewrite ER.
      assert (W0 : wfm nJ nJ (mm nJ (mT nJ (selcols J (sB st))) (mm nJ P (selcols J (sB st))))).
      { destruct WBJT as [L _]. rewrite <- L at 1. apply mm_wfm. apply WPBJ. }
      rewrite (mv_madd nJ nJ) by auto. rewrite (dot_vadd_r_n nJ) by (rewrite mv_length; first [apply W0 | apply WRJJ]).
      rewrite (mv_mm nJ) by apply WPBJ. rewrite (mv_mT nx nJ) by apply WBJ.
      rewrite (dot_comm δuJ (mtv nJ _ _)). rewrite (dot_mtv nJ) by apply WBJ. rewrite (mv_mm nJ) by apply WBJ. fold b.
      rewrite (dot_comm (mv P b) b). reflexivity. }
    (* <δuJ, σ> *)
    assert (E3 : dot δuJ σ = dot b (mv P a) + dot δuJ (mv (selrows J (sS st)) δx)).
    { unfold σ. pose proof (eq_Sbar lsolve nx st P s) as ER. fold o J nJ in ER. rewrite ER.
      assert (W0 : wfm nJ nx (mm nx (mT nJ (selcols J (sB st))) (mm nx P (sA st)))).
      { destruct WBJT as [L _]. rewrite <- L at 1. apply mm_wfm. apply WPA. }
      rewrite (mv_madd nJ nx) by auto. rewrite (dot_vadd_r_n nJ) by (rewrite mv_length; first [apply W0 | apply WSJ]).
      rewrite (mv_mm nx) by apply WPA. rewrite (mv_mT nx nJ) by apply WBJ.
      rewrite (dot_comm δuJ (mtv nJ _ _)). rewrite (dot_mtv nJ) by apply WBJ. rewrite (mv_mm nx) by apply HA. fold a b.
      rewrite (dot_comm (mv P a) b). reflexivity. }
    assert (E4 : dot a (mv P b) = dot b (mv P a)).
    { rewrite (HPs a b La Lb). apply dot_comm. }
    rewrite (dot_comm σ δuJ) in E1.
    rewrite (dot_comm (mv P a) a).
    lra.
  Qed.
End Square.

Section Minimiser.
  Variable lsolve : list (list R) -> list R -> list R.
  Variables nx nu : nat.

  (* Σ_k ½ w_kᵀ R̄_k w_k with w_k = δu_k[J] − K_k δx_k along δx_{k+1} = A δx_k + B δu_k *)
  Fixpoint quadR (sts : list (lq_stage R)) (QN : list (list R)) (qN δx : list R) (δus : list (list R)) : R :=
    match sts, δus with
    | st :: sts', δu :: δus' =>
        let r := factor_all lsolve nx sts' QN qN in
        let o := factor_step lsolve nx st (snd (fst r)) (snd r) in
        let w := vadd (sel (sJ st) δu) (vneg (mtv (length (sJ st)) (oKT o) δx)) in
        / 2 * dot w (mv (oRbar o) w) + quadR sts' QN qN (vadd (mv (sA st) δx) (mv (sB st) δu)) δus'
    | _, _ => 0
    end.

  (* R̄ ≻ 0 *)
  Definition posdef (M : list (list R)) : Prop :=
    forall v, length v = length M -> v <> zeros (length M) -> 0 < dot v (mv M v).
  Fixpoint posdef_all (sts : list (lq_stage R)) (QN : list (list R)) (qN : list R) : Prop :=
    match sts with
    | [] => True
    | st :: sts' =>
        posdef_all sts' QN qN /\
        posdef (oRbar (factor_step lsolve nx st (snd (fst (factor_all lsolve nx sts' QN qN))) (snd (factor_all lsolve nx sts' QN qN))))
    end.

  Lemma wf2_wf sts : Forall (wf2 nx nu) sts -> Forall (wf_stage nx nu) sts.
  Proof. intros H. eapply Forall_impl; [|exact H]. intros a [Ha _]. exact Ha. Qed.

  Lemma quad_is_squares : forall sts QN qN, Forall (wf2 nx nu) sts -> wfm nx nx QN -> selfadj nx QN -> length qN = nx ->
    solves_all lsolve nx sts QN qN ->
    forall δx δus, length δx = nx -> dir_ok nu sts δus ->
    quad sts QN δx δus = / 2 * dot δx (mv (snd (fst (factor_all lsolve nx sts QN qN))) δx) + quadR sts QN qN δx δus.
  Proof.
    induction sts as [|st sts IH]; intros QN qN Hw WQ HQ Lq Hsol δx δus Lδx Hd.
    - destruct δus; [|inversion Hd]. cbn [quad quadR factor_all fst snd]. lra.
    - destruct δus as [|δu δus']; [inversion Hd|]. destruct (dir_ok_cons _ _ _ _ _ Hd) as [[Lδu HδK] Hd']. clear Hd.
      repeat match goal with H : _ :: _ = _ :: _ |- _ => clear H end.
      pose proof (Forall_inv Hw) as Hst. pose proof (Forall_inv_tail Hw) as Hw'.
      destruct Hsol as [Hsol' Hsol].
      destruct (factor_solve_kkt lsolve nx nu sts QN qN (wf2_wf sts Hw') WQ HQ Lq Hsol') as (HP & HPs & Hs & _).
      cbn [quad quadR factor_all].
      assert (Lnd : length (vadd (mv (sA st) δx) (mv (sB st) δu)) = nx).
      { destruct Hst as [(HA&HB&_) _]. apply vadd_length_n; rewrite mv_length; [apply HA | apply HB]. }
      rewrite (IH QN qN Hw' WQ HQ Lq Hsol' _ δus' Lnd Hd').
      destruct (factor_all lsolve nx sts QN qN) as [[gs P] s]. cbn [fst snd] in *.
      pose proof (stage_square lsolve nx nu st P s Hst HP HPs Hsol δx δu Lδx Lδu HδK) as E. cbv zeta in E.
      lra.
  Qed.

  Lemma quadform_nonneg M (v : list R) : posdef M -> length v = length M -> 0 <= dot v (mv M v).
  Proof.
    intros HM Lv. destruct (list_eq_dec Req_EM_T v (zeros (length M))) as [E|N].
    - rewrite E, dot_zeros_l. lra.
    - left. apply HM; auto.
  Qed.

  Lemma quadR_nonneg_unique : forall sts QN qN, Forall (wf2 nx nu) sts -> wfm nx nx QN -> selfadj nx QN -> length qN = nx ->
    solves_all lsolve nx sts QN qN -> posdef_all sts QN qN ->
    forall δx δus, length δx = nx -> dir_ok nu sts δus ->
    0 <= quadR sts QN qN δx δus /\
    (δx = zeros nx -> quadR sts QN qN δx δus = 0 -> Forall (fun δu => δu = zeros nu) δus).
  Proof.
    induction sts as [|st sts IH]; intros QN qN Hw WQ HQ Lq Hsol Hpd δx δus Lδx Hd.
    - destruct δus; [|inversion Hd]. cbn. split; [lra|auto].
    - destruct δus as [|δu δus']; [inversion Hd|]. destruct (dir_ok_cons _ _ _ _ _ Hd) as [[Lδu HδK] Hd']. clear Hd.
      repeat match goal with H : _ :: _ = _ :: _ |- _ => clear H end.
      pose proof (Forall_inv Hw) as Hst. pose proof (Forall_inv_tail Hw) as Hw'.
      destruct Hsol as [Hsol' Hsol]. destruct Hpd as [Hpd' Hpd].
      destruct (factor_solve_kkt lsolve nx nu sts QN qN (wf2_wf sts Hw') WQ HQ Lq Hsol') as (HP & HPs & Hs & _).
      cbn [quadR].
      assert (Lnd : length (vadd (mv (sA st) δx) (mv (sB st) δu)) = nx).
      { destruct Hst as [(HA&HB&_) _]. apply vadd_length_n; rewrite mv_length; [apply HA | apply HB]. }
      destruct (IH QN qN Hw' WQ HQ Lq Hsol' Hpd' _ δus' Lnd Hd') as [IH1 IH2].
      destruct (factor_all lsolve nx sts QN qN) as [[gs P] s]. cbn [fst snd] in *.
      destruct Hst as [Hwf HR].
      pose proof (wKT lsolve nx nu st P s Hwf HP Hsol) as WKT.
      pose proof (lRbar lsolve nx nu st P s Hwf HP) as LRb.
      set (o := factor_step lsolve nx st P s) in *.
      set (w := vadd (sel (sJ st) δu) (vneg (mtv (length (sJ st)) (oKT o) δx))).
      assert (Lw : length w = length (oRbar o)).
      { rewrite LRb. unfold w. apply vadd_length_n; [apply sel_length|]. rewrite vneg_length. apply mtv_length. apply WKT. }
      pose proof (quadform_nonneg (oRbar o) w Hpd Lw) as Hn.
      split; [lra|].
      intros Ez E0. subst δx.
      assert (Ew : dot w (mv (oRbar o) w) = 0) by lra.
      assert (Er : quadR sts QN qN (vadd (mv (sA st) (zeros nx)) (mv (sB st) δu)) δus' = 0) by lra.
      assert (Hw0 : w = zeros (length (oRbar o))).
      { destruct (list_eq_dec Req_EM_T w (zeros (length (oRbar o)))) as [E|N]; auto.
        pose proof (Hpd w Lw N). lra. }
      assert (HJ0 : sel (sJ st) δu = zeros (length (sJ st))).
      { unfold w in Hw0. rewrite (mtv_zeros _ _ nx) in Hw0 by apply WKT. rewrite vneg_zeros in Hw0.
        rewrite vadd_zeros_r in Hw0 by apply sel_length. rewrite Hw0, LRb. reflexivity. }
      assert (Hu0 : δu = zeros nu).
      { destruct Hwf as (_&_&_&_&_&_&_&_&HPm&_). apply (sel_zero_all nu (sJ st) (sK st) δu HPm Lδu HJ0 HδK). }
      constructor; [exact Hu0|]. apply IH2; [|exact Er].
      rewrite Hu0, !mv_zeros.
      destruct Hwf as ((LA&_)&(LB&_)&_). rewrite LA, LB. apply vadd_zeros_r. apply vconst_length.
  Qed.

  Lemma solve_from_lengths : forall sts gs Δx, Forall (wf_stage nx nu) sts ->
    Forall (fun Δu : list R => length Δu = nu) (solve_from sts gs Δx).
  Proof.
    induction sts as [|st sts IH]; intros gs Δx Hw; simpl; auto. destruct gs as [|g gs]; auto.
    pose proof (Forall_inv Hw) as Hst. pose proof (Forall_inv_tail Hw) as Hw'.
    constructor; [|apply IH; auto]. rewrite scatter_length. destruct Hst as (_&_&_&_&_&_&_&Lf&_). exact Lf.
  Qed.

  (* The step returned by factor_masked + solve_masked is the unique minimiser of the equality-constrained quadratic subproblem
     over the free components (fixed ones at their prescribed values): every feasible point is Δu + δ with δ[K] = 0, and
       obj(Δu + δ) − obj(Δu) = Σ_k ½ w_kᵀ R̄_k w_k  >= 0,  with equality only for δ = 0. *)
  Theorem riccati_step_is_minimiser : forall sts QN qN,
    Forall (wf2 nx nu) sts -> wfm nx nx QN -> selfadj nx QN -> length qN = nx ->
    solves_all lsolve nx sts QN qN -> posdef_all sts QN qN ->
    let Δus := riccati_step lsolve nx sts QN qN in
    forall δus, dir_ok nu sts δus ->
      obj sts QN qN (zeros nx) (map2 vadd Δus δus) - obj sts QN qN (zeros nx) Δus = quadR sts QN qN (zeros nx) δus /\
      obj sts QN qN (zeros nx) Δus <= obj sts QN qN (zeros nx) (map2 vadd Δus δus) /\
      (obj sts QN qN (zeros nx) (map2 vadd Δus δus) <= obj sts QN qN (zeros nx) Δus -> Forall (fun δu => δu = zeros nu) δus).
  Proof.
    intros sts QN qN Hw WQ HQ Lq Hsol Hpd Δus δus Hd.
    destruct (riccati_step_is_stationary lsolve nx nu sts QN qN (wf2_wf sts Hw) WQ HQ Lq Hsol) as [λ0 Hk].
    fold Δus in Hk.
    assert (Lz : length (zeros nx) = nx) by apply vconst_length.
    assert (LΔ : Forall (fun Δu : list R => length Δu = nu) Δus).
    { unfold Δus, riccati_step, solve_masked. apply solve_from_lengths. apply wf2_wf; auto. }
    pose proof (obj_expand_along_kkt nx nu sts QN qN Hw WQ HQ Lq (zeros nx) Δus λ0 Lz LΔ Hk (zeros nx) δus Lz Hd) as E.
    rewrite (vadd_zeros_r nx) in E by auto. rewrite dot_zeros_r in E.
    rewrite (quad_is_squares sts QN qN Hw WQ HQ Lq Hsol (zeros nx) δus Lz Hd) in E. rewrite dot_zeros_l in E.
    destruct (quadR_nonneg_unique sts QN qN Hw WQ HQ Lq Hsol Hpd (zeros nx) δus Lz Hd) as [N1 N2].
    split; [lra|]. split; [lra|]. intros Hle. apply N2; [reflexivity|lra].
  Qed.
End Minimiser.

(* ------------------------------------------------------------------ the same for an arbitrary feasible competitor Δu' *)
Definition feasible (nu : nat) (sts : list (lq_stage R)) (Δus : list (list R)) : Prop :=
  Forall2 (fun st Δu => length Δu = nu /\ sel (sK st) Δu = sel (sK st) (sfix st)) sts Δus.

Lemma vadd_vsub : forall (a b : list R), length a = length b -> vadd a (vsub b a) = b.
Proof. induction a; destruct b; simpl; intros; try discriminate; auto. unfold vsub in *. simpl. rewrite vadd_cons. f_equal; [numR; lra|]. apply IHa. lia. Qed.
Lemma vsub_length : forall (a b : list R), length a = length b -> length (vsub b a) = length a.
Proof. intros. unfold vsub. rewrite map2_length; lia. Qed.
Lemma nth_vsub : forall (a b : list R) i, length a = length b -> nth i (vsub b a) 0 = nth i b 0 - nth i a 0.
Proof.
  induction a; destruct b; intros i H; simpl in *; try discriminate.
  - destruct i; lra.
  - destruct i; simpl; [numR; lra|]. apply IHa. lia.
Qed.
Lemma sel_vsub_zero : forall K (a b : list R), length a = length b -> sel K b = sel K a -> sel K (vsub b a) = zeros (length K).
Proof.
  induction K; intros a0 b H E; simpl in *; auto. injection E as E1 E2.
  f_equal; [rewrite nth_vsub by auto; lra|]. apply IHK; auto.
Qed.

Lemma kkt_feasible nx nu : forall sts QN qN Δx Δus λ, kkt nx sts QN qN Δx Δus λ ->
  Forall (fun Δu : list R => length Δu = nu) Δus -> feasible nu sts Δus.
Proof.
  induction sts as [|st sts IH]; intros QN qN Δx Δus λ Hk HL; destruct Δus as [|Δu Δus]; cbn [kkt] in Hk; try contradiction.
  - constructor.
  - destruct Hk as (Hfix & λn & Hk' & _). constructor.
    + split; [exact (Forall_inv HL)|exact Hfix].
    + eapply IH; eauto. exact (Forall_inv_tail HL).
Qed.

Lemma feasible_diff nu : forall sts Δus Δus', feasible nu sts Δus -> feasible nu sts Δus' ->
  dir_ok nu sts (map2 vsub Δus' Δus) /\ map2 vadd Δus (map2 vsub Δus' Δus) = Δus' /\
  (Forall (fun δu => δu = zeros nu) (map2 vsub Δus' Δus) -> Δus' = Δus).
Proof.
  induction sts as [|st sts IH]; intros Δus Δus' H1 H2; inversion H1; inversion H2; subst; simpl.
  - repeat split; auto. constructor.
  - match goal with Ha : _ /\ _, Hb : _ /\ _ |- _ => destruct Ha as [La Fa]; destruct Hb as [Lb Fb] end.
    match goal with Hx : Forall2 _ sts ?l, Hy : Forall2 _ sts ?l' |- _ => destruct (IH l l' Hx Hy) as (D & E & Z) end.
    split; [|split].
    + constructor; auto. split.
      * rewrite vsub_length; lia.
      * apply sel_vsub_zero; [lia|]. rewrite Fb, Fa. reflexivity.
    + f_equal; auto. apply vadd_vsub. lia.
    + intros HZ. pose proof (Forall_inv HZ) as Z0. pose proof (Forall_inv_tail HZ) as Z1. cbv beta in Z0.
      f_equal; [|symmetry; symmetry; apply Z; exact Z1].
      match goal with |- ?b = ?a => rewrite <- (vadd_vsub a b) by lia end. rewrite Z0. apply vadd_zeros_r. assumption.
Qed.

Theorem riccati_step_unique_minimiser lsolve nx nu : forall sts QN qN,
  Forall (wf2 nx nu) sts -> wfm nx nx QN -> selfadj nx QN -> length qN = nx ->
  solves_all lsolve nx sts QN qN -> posdef_all lsolve nx sts QN qN ->
  let Δus := riccati_step lsolve nx sts QN qN in
  feasible nu sts Δus /\
  forall Δus', feasible nu sts Δus' ->
    obj sts QN qN (zeros nx) Δus <= obj sts QN qN (zeros nx) Δus' /\
    (obj sts QN qN (zeros nx) Δus' <= obj sts QN qN (zeros nx) Δus -> Δus' = Δus).
Proof.
  intros sts QN qN Hw WQ HQ Lq Hsol Hpd Δus.
  destruct (riccati_step_is_stationary lsolve nx nu sts QN qN (wf2_wf nx nu sts Hw) WQ HQ Lq Hsol) as [λ0 Hk]. fold Δus in Hk.
  assert (LΔ : Forall (fun Δu : list R => length Δu = nu) Δus).
  { unfold Δus, riccati_step, solve_masked. apply (solve_from_lengths nx nu). apply (wf2_wf nx nu); auto. }
  pose proof (kkt_feasible nx nu sts QN qN _ Δus λ0 Hk LΔ) as HF.
  split; [exact HF|]. intros Δus' HF'.
  destruct (feasible_diff nu sts Δus Δus' HF HF') as (D & E & Z).
  destruct (riccati_step_is_minimiser lsolve nx nu sts QN qN Hw WQ HQ Lq Hsol Hpd _ D) as (_ & M1 & M2).
  fold Δus in M1, M2. rewrite E in M1, M2. split; [exact M1|]. intros Hle. apply Z. apply M2. exact Hle.
Qed.
